(** Proofs about the client response-handling model (ClientResp.v), property C12. *)
From Coq Require Import ZArith List Bool Lia.
From KV Require Import Base Cases Negotiate NegotiateProofs ClientResp.
Import ListNotations.
Open Scope Z_scope.

(** * Small facts *)

Lemma item_err_none it : item_err it = None <-> i_status it = success.
Proof.
  unfold item_err. destruct (i_status it =? success) eqn:E.
  - apply Z.eqb_eq in E. split; auto.
  - apply Z.eqb_neq in E. split; [discriminate | contradiction].
Qed.

Lemma item_err_some it e : item_err it = Some e ->
  i_status it <> success /\ e = {| e_kind := KItem; e_failures := [failure_of it] |}.
Proof.
  unfold item_err. destruct (i_status it =? success) eqn:E; [discriminate|].
  apply Z.eqb_neq in E. intros H. inversion H. auto.
Qed.

Lemma ptype_eqb_eq a b : ptype_eqb a b = true <-> a = b.
Proof.
  destruct a, b; cbn [ptype_eqb]; try rewrite Z.eqb_eq; split; intros H;
    try discriminate; try (inversion H; subst); try reflexivity; try (f_equal; assumption).
Qed.

Lemma list_eqb_eq {A} (eqb : A -> A -> bool) (Heq : forall a b, eqb a b = true <-> a = b) :
  forall l m, list_eqb eqb l m = true <-> l = m.
Proof.
  induction l as [|x l IH]; destruct m as [|y m]; cbn [list_eqb]; split; intros H;
    try discriminate; try reflexivity.
  - apply andb_true_iff in H. destruct H as [H1 H2]. apply Heq in H1. apply IH in H2. subst. reflexivity.
  - inversion H; subst. apply andb_true_iff. split; [apply Heq; reflexivity | apply IH; reflexivity].
Qed.

Lemma str_eqb_eq a b : str_eqb a b = true <-> a = b.
Proof. apply list_eqb_eq. intros x y. apply Z.eqb_eq. Qed.

Lemma failure_eqb_eq a b : failure_eqb a b = true <-> a = b.
Proof.
  destruct a as [[[o1 s1] r1] m1], b as [[[o2 s2] r2] m2]. cbn [failure_eqb].
  rewrite !andb_true_iff, !Z.eqb_eq, str_eqb_eq. split.
  - intros [[[-> ->] ->] ->]. reflexivity.
  - intros H. inversion H. auto.
Qed.

Lemma carries_In e it : carries e it = true <-> In (failure_of it) (e_failures e).
Proof.
  unfold carries. rewrite existsb_exists. split.
  - intros [f [Hf He]]. apply failure_eqb_eq in He. subst. exact Hf.
  - intros H. exists (failure_of it). split; [exact H | apply failure_eqb_eq; reflexivity].
Qed.

(** The failures collected from a batch are exactly those of its failed items, in order. *)
Lemma failures_of_spec l : failures_of l = map failure_of (failed_items l).
Proof.
  induction l as [|it l IH]; [reflexivity|].
  cbn [failures_of failed_items filter]. unfold item_err.
  destruct (i_status it =? success); cbn [negb]; [exact IH|].
  cbn [e_failures app map]. f_equal. exact IH.
Qed.

Lemma failed_items_In l it : In it (failed_items l) <-> In it l /\ i_status it <> success.
Proof.
  unfold failed_items. rewrite filter_In. rewrite negb_true_iff, Z.eqb_neq. reflexivity.
Qed.

Lemma failures_of_In l it : In it l -> i_status it <> success -> In (failure_of it) (failures_of l).
Proof.
  intros H1 H2. rewrite failures_of_spec. apply in_map. apply failed_items_In. auto.
Qed.

Lemma failures_of_nil l : failures_of l = [] <-> Forall (fun it => i_status it = success) l.
Proof.
  induction l as [|it l IH]; [split; constructor|].
  cbn [failures_of]. destruct (item_err it) as [e|] eqn:E.
  - apply item_err_some in E. destruct E as [Hs ->]. cbn [e_failures app]. split; [discriminate|].
    intros H. inversion H; subst. contradiction.
  - apply item_err_none in E. rewrite IH. split; [intros H; constructor; assumption | intros H; inversion H; assumption].
Qed.

(** Every failure an error built from [items] reports was reported by the server in [items]. *)
Lemma failures_of_sound l f : In f (failures_of l) -> exists it, In it l /\ i_status it <> success /\ f = failure_of it.
Proof.
  rewrite failures_of_spec, in_map_iff. intros [it [Hf Hin]]. apply failed_items_In in Hin.
  exists it. intuition.
Qed.

Lemma with_item_errors_carries k items it :
  In it items -> i_status it <> success -> carries (with_item_errors k items) it = true.
Proof. intros H1 H2. apply carries_In. cbn [with_item_errors e_failures]. apply failures_of_In; assumption. Qed.

(** * BatchResult.Unwrap, for batches of any length *)

Theorem unwrap_payloads br : fst (unwrap br) = map i_payload br.
Proof. reflexivity. Qed.

Theorem unwrap_nil_iff br : snd (unwrap br) = None <-> Forall (fun it => i_status it = success) br.
Proof.
  unfold unwrap. cbn [snd]. rewrite <- failures_of_nil.
  destruct (failures_of br); split; intros H; try reflexivity; discriminate.
Qed.

Theorem unwrap_carries br e it :
  snd (unwrap br) = Some e -> In it br -> i_status it <> success -> carries e it = true.
Proof.
  unfold unwrap. cbn [snd]. intros H Hin Hs.
  pose proof (failures_of_In br it Hin Hs) as HI.
  destruct (failures_of br) eqn:E; [contradiction|]. inversion H; subst.
  apply carries_In. cbn [e_failures]. exact HI.
Qed.

Theorem unwrap_sound br e f :
  snd (unwrap br) = Some e -> In f (e_failures e) ->
  exists it, In it br /\ i_status it <> success /\ f = failure_of it.
Proof.
  unfold unwrap. cbn [snd]. intros H Hf.
  destruct (failures_of br) eqn:E; [discriminate|]. inversion H; subst. cbn [e_failures] in Hf.
  rewrite <- E in Hf. apply failures_of_sound. exact Hf.
Qed.

(** * BatchOpt *)

(** What [BatchOpt] demands of the item answering a request for operation [op]. *)
Definition item_ok (op : Z) (it : item) : Prop :=
  i_status it = success -> exists v, i_payload it = Some v /\ pval_operation v = op.

Lemma len_app {A} (a b : list A) : len (a ++ b) = len a + len b.
Proof. unfold len. rewrite app_length. lia. Qed.

Lemma len_nonneg {A} (a : list A) : 0 <= len a.
Proof. unfold len. lia. Qed.

Lemma len_eq_length {A B} (a : list A) (b : list B) : len a = len b <-> length a = length b.
Proof. unfold len. lia. Qed.

Lemma index_len_app {A} (pre : list A) x post : index (pre ++ x :: post) (len pre) = ROk x.
Proof.
  unfold index. pose proof (len_nonneg pre) as Hn.
  destruct (Z.ltb_spec (len pre) 0) as [H|H]; [lia|].
  unfold len. rewrite Nat2Z.id. rewrite nth_error_app2 by lia. rewrite Nat.sub_diag. reflexivity.
Qed.

Lemma index_0 {A} (l : list A) : index l 0 = match l with [] => RPanic | x :: _ => ROk x end.
Proof. unfold index. cbn. destruct l; reflexivity. Qed.

(** The loop of BatchOpt, for any number of items: it never panics as long as there are as many
    requests left as items (the count check that precedes it), succeeds exactly when every
    item is acceptable, and otherwise returns the payload error carrying all failures. *)
Lemma check_items_spec all : forall rest pre post, length post = length rest ->
  match check_items (pre ++ post) all rest (len pre) with
  | ROk _ => Forall2 item_ok post rest
  | RErr e => e = with_item_errors KPayload all /\ ~ Forall2 item_ok post rest
  | RPanic => False
  end.
Proof.
  induction rest as [|bi rest IH]; intros pre post Hlen.
  - destruct post; [|discriminate]. cbn [check_items]. constructor.
  - destruct post as [|op post]; [discriminate|]. cbn [length] in Hlen.
    assert (Hlen' : length post = length rest) by lia.
    assert (Hstep : pre ++ op :: post = (pre ++ [op]) ++ post) by (rewrite <- app_assoc; reflexivity).
    assert (Hidx : len pre + 1 = len (pre ++ [op])) by (rewrite len_app; reflexivity).
    specialize (IH (pre ++ [op]) post Hlen'). rewrite <- Hstep, <- Hidx in IH.
    cbn [check_items].
    destruct (i_status bi =? success) eqn:Es; cbn [negb].
    + apply Z.eqb_eq in Es.
      destruct (i_payload bi) as [v|] eqn:Ep; cbn [is_nil payload_operation].
      * rewrite index_len_app.
        destruct (pval_operation v =? op) eqn:Eo.
        -- apply Z.eqb_eq in Eo.
           destruct (check_items (pre ++ op :: post) all rest (len pre + 1)) as [u|e|].
           ++ constructor; [|exact IH]. intros _. exists v. split; [exact Ep | exact Eo].
           ++ destruct IH as [He Hn]. split; [exact He|]. intros HF. inversion HF; subst. contradiction.
           ++ exact IH.
        -- apply Z.eqb_neq in Eo. split; [reflexivity|]. intros HF. inversion HF as [|? ? ? ? Hok HF']; subst.
           destruct (Hok Es) as [v' [Hv' Ho']]. rewrite Ep in Hv'. inversion Hv'; subst. contradiction.
      * split; [reflexivity|]. intros HF. inversion HF as [|? ? ? ? Hok HF']; subst.
        destruct (Hok Es) as [v' [Hv' _]]. rewrite Ep in Hv'. discriminate.
    + apply Z.eqb_neq in Es.
      destruct (check_items (pre ++ op :: post) all rest (len pre + 1)) as [u|e|].
      * constructor; [|exact IH]. intros Hs. contradiction.
      * destruct IH as [He Hn]. split; [exact He|]. intros HF. inversion HF; subst. contradiction.
      * exact IH.
Qed.

(** The responses [BatchOpt] accepts for the requested operations [reqs]. *)
Definition acceptable (reqs : list Z) (r : response) : Prop :=
  r_count r = len (r_items r) /\ len (r_items r) = len reqs /\ Forall2 item_ok reqs (r_items r).

Lemma count_check_false (reqs : list Z) r :
  negb (r_count r =? len (r_items r)) || negb (len (r_items r) =? len reqs) = false <->
  r_count r = len (r_items r) /\ len (r_items r) = len reqs.
Proof. rewrite orb_false_iff, !negb_false_iff, !Z.eqb_eq. reflexivity. Qed.

Theorem batch_opt_spec reqs t :
  match batch_opt reqs t with
  | ROk items => exists r, t = TMsg r /\ items = r_items r /\ acceptable reqs r
  | RErr e =>
    match t with
    | TFail => e_failures e = []
    | TMsg r => ~ acceptable reqs r /\ e_failures e = failures_of (r_items r)
    end
  | RPanic => False
  end.
Proof.
  unfold batch_opt. destruct t as [|r]; [reflexivity|].
  destruct (negb (r_count r =? len (r_items r)) || negb (len (r_items r) =? len reqs)) eqn:Ec.
  - split; [|reflexivity]. intros (H1 & H2 & _).
    assert (Hf : negb (r_count r =? len (r_items r)) || negb (len (r_items r) =? len reqs) = false)
      by (apply count_check_false; auto).
    rewrite Hf in Ec. discriminate.
  - apply count_check_false in Ec. destruct Ec as [Hc Hl].
    assert (Hlen : length reqs = length (r_items r)) by (apply len_eq_length; auto).
    pose proof (check_items_spec (r_items r) (r_items r) [] reqs Hlen) as HS.
    cbn [app] in HS. change (@len Z []) with 0 in HS.
    destruct (check_items reqs (r_items r) (r_items r) 0) as [u|e|].
    + exists r. repeat split; auto.
    + destruct HS as [-> Hn]. split; [|reflexivity]. intros (_ & _ & HF). contradiction.
    + exact HS.
Qed.

Theorem batch_opt_total reqs t : batch_opt reqs t <> RPanic.
Proof. pose proof (batch_opt_spec reqs t) as H. destruct (batch_opt reqs t); [discriminate|discriminate|contradiction]. Qed.

Theorem batch_opt_ok_iff reqs t items :
  batch_opt reqs t = ROk items <-> exists r, t = TMsg r /\ items = r_items r /\ acceptable reqs r.
Proof.
  pose proof (batch_opt_spec reqs t) as H. split.
  - intros E. rewrite E in H. exact H.
  - intros [r [-> [-> Hacc]]]. destruct (batch_opt reqs (TMsg r)) as [items|e|] eqn:E.
    + destruct H as [r' [Hr' [-> _]]]. inversion Hr'; subst. reflexivity.
    + destruct H as [Hn _]. contradiction.
    + contradiction.
Qed.

(** Whatever BatchOpt rejects, its error reports every failure the server put in the response. *)
Theorem batch_opt_err_carries reqs r e it :
  batch_opt reqs (TMsg r) = RErr e -> In it (r_items r) -> i_status it <> success -> carries e it = true.
Proof.
  intros E Hin Hs. pose proof (batch_opt_spec reqs (TMsg r)) as H. rewrite E in H.
  destruct H as [_ Hf]. apply carries_In. rewrite Hf. apply failures_of_In; assumption.
Qed.

Theorem batch_opt_err_sound reqs t e f :
  batch_opt reqs t = RErr e -> In f (e_failures e) ->
  exists it, In it (items_of t) /\ i_status it <> success /\ f = failure_of it.
Proof.
  intros E Hf. pose proof (batch_opt_spec reqs t) as H. rewrite E in H. destruct t as [|r].
  - rewrite H in Hf. contradiction.
  - destruct H as [_ H]. rewrite H in Hf. apply failures_of_sound. exact Hf.
Qed.

(** Batch then Unwrap: every failed item of any response, whatever its shape, ends up reported
    by an error - either BatchOpt's or Unwrap's. *)
Theorem batch_unwrap_surfaces b reqs r it :
  In it (r_items r) -> i_status it <> success ->
  match batch_exec b reqs (TMsg r) with
  | ROk items => exists e, snd (unwrap items) = Some e /\ carries e it = true
  | RErr e => b = false \/ carries e it = true
  | RPanic => False
  end.
Proof.
  intros Hin Hs. unfold batch_exec. destruct b; cbn [negb]; [|left; reflexivity].
  destruct (batch_opt reqs (TMsg r)) as [items|e|] eqn:E.
  - apply batch_opt_ok_iff in E. destruct E as [r' [Hr' [-> _]]]. inversion Hr'; subst r'.
    destruct (snd (unwrap (r_items r))) as [e|] eqn:Eu.
    + exists e. split; [reflexivity|]. eapply unwrap_carries; eauto.
    + apply unwrap_nil_iff in Eu. rewrite Forall_forall in Eu. specialize (Eu it Hin). contradiction.
  - right. eapply batch_opt_err_carries; eauto.
  - exact (batch_opt_total _ _ E).
Qed.

Lemma Forall2_nth_error {A B} (P : A -> B -> Prop) : forall l1 l2 i a b,
  Forall2 P l1 l2 -> nth_error l1 i = Some a -> nth_error l2 i = Some b -> P a b.
Proof.
  induction l1 as [|x l1 IH]; intros l2 i a b HF H1 H2.
  - destruct i; discriminate.
  - inversion HF as [|? y ? l2' Hxy HF']; subst. destruct i as [|i]; cbn [nth_error] in *.
    + inversion H1; inversion H2; subst. exact Hxy.
    + eapply IH; eauto.
Qed.

(** Each protocol violation the property lists is an error of BatchOpt (hence of Batch, Request
    and ExecContext): wrong header count, wrong item count, a successful item without payload or
    with the payload of another operation. *)
Theorem batch_violation_is_error reqs r :
  (r_count r <> len (r_items r) \/ len (r_items r) <> len reqs \/
   exists i op it, nth_error reqs i = Some op /\ nth_error (r_items r) i = Some it /\ i_status it = success /\
     (i_payload it = None \/ exists v, i_payload it = Some v /\ pval_operation v <> op)) ->
  exists e, batch_opt reqs (TMsg r) = RErr e.
Proof.
  intros Hv. pose proof (batch_opt_spec reqs (TMsg r)) as H.
  destruct (batch_opt reqs (TMsg r)) as [items|e|]; [|exists e; reflexivity|contradiction].
  exfalso. destruct H as [r' [Hr' [_ (Hc & Hl & HF)]]]. inversion Hr'; subst r'.
  destruct Hv as [Hv|[Hv|(i & op & it & H1 & H2 & Hs & Hp)]]; [contradiction|contradiction|].
  pose proof (Forall2_nth_error _ _ _ _ _ _ HF H1 H2 Hs) as [v [Hv Ho]].
  destruct Hp as [Hp|[v' [Hp Hne]]]; rewrite Hv in Hp; [discriminate|]. inversion Hp; subst. contradiction.
Qed.

(** * Request *)

(** The one shape of response [Request] (and so [ExecContext]) accepts. *)
Definition single_success (op : Z) (t : transport) (v : pval) : Prop :=
  exists it, t = TMsg {| r_count := 1; r_items := [it] |} /\ i_status it = success /\
             i_payload it = Some v /\ pval_operation v = op.

Lemma acceptable_single op r :
  acceptable [op] r -> exists it, r = {| r_count := 1; r_items := [it] |} /\ item_ok op it.
Proof.
  intros (Hc & Hl & HF). destruct r as [c items]. cbn [r_count r_items] in *.
  inversion HF as [|? it ? rest Hok HF']; subst. inversion HF'; subst.
  exists it. split; [reflexivity | exact Hok].
Qed.

Theorem request_spec op t :
  match request op t with
  | ROk p => exists v, p = Some v /\ single_success op t v
  | RErr e =>
    (forall v, ~ single_success op t v) /\
    (forall it, In it (items_of t) -> i_status it <> success -> carries e it = true) /\
    (forall f, In f (e_failures e) -> exists it, In it (items_of t) /\ i_status it <> success /\ f = failure_of it)
  | RPanic => False
  end.
Proof.
  unfold request. pose proof (batch_opt_spec [op] t) as HB.
  destruct (batch_opt [op] t) as [items|e|] eqn:E.
  - destruct HB as [r [-> [-> Hacc]]].
    destruct (acceptable_single op r Hacc) as [it [-> Hok]]. cbn [r_items]. rewrite index_0.
    destruct (item_err it) as [e|] eqn:Ee.
    + apply item_err_some in Ee. destruct Ee as [Hs ->]. repeat split.
      * intros v [it' [Ht [Hs' _]]]. inversion Ht; subst. contradiction.
      * intros it' [<-|[]] _. apply carries_In. cbn [e_failures]. left. reflexivity.
      * intros f [<-|[]]. exists it. cbn [items_of r_items]. intuition.
    + apply item_err_none in Ee. destruct (Hok Ee) as [v [Hp Ho]].
      exists v. split; [exact Hp|]. exists it. auto.
  - repeat split.
    + intros v [it [-> [Hs [Hp Ho]]]]. destruct HB as [Hn _]. apply Hn.
      split; [reflexivity|]. split; [reflexivity|]. cbn [r_items]. constructor; [|constructor].
      intros _. exists v. auto.
    + intros it Hin Hs. destruct t as [|r]; [contradiction|]. eapply batch_opt_err_carries; eauto.
    + intros f Hf. eapply batch_opt_err_sound; eauto.
  - contradiction.
Qed.

Theorem request_total op t : request op t <> RPanic.
Proof. pose proof (request_spec op t) as H. destruct (request op t); [discriminate|discriminate|contradiction]. Qed.

Theorem request_ok_iff op t p :
  request op t = ROk p <-> exists v, p = Some v /\ single_success op t v.
Proof.
  pose proof (request_spec op t) as H. split.
  - intros E. rewrite E in H. exact H.
  - intros [v [-> Hs]]. destruct (request op t) as [p|e|] eqn:E.
    + destruct H as [v' [-> Hs']]. destruct Hs as [it [Ht [_ [Hp _]]]], Hs' as [it' [Ht' [_ [Hp' _]]]].
      rewrite Ht in Ht'. inversion Ht'; subst. rewrite Hp in Hp'. inversion Hp'. reflexivity.
    + destruct H as [Hn _]. exfalso. exact (Hn v Hs).
    + contradiction.
Qed.

(** * Executor.ExecContext *)

Theorem exec_spec b op rty t :
  match exec_context b op rty t with
  | ROk v => b = true /\ single_success op t v /\ p_type v = rty
  | RErr e =>
    (b = false \/ forall v, ~ (single_success op t v /\ p_type v = rty)) /\
    (b = true -> forall it, In it (items_of t) -> i_status it <> success -> carries e it = true) /\
    (forall f, In f (e_failures e) -> exists it, In it (items_of t) /\ i_status it <> success /\ f = failure_of it)
  | RPanic => False
  end.
Proof.
  unfold exec_context. destruct b; cbn [negb].
  2:{ split; [left; reflexivity|]. split; [discriminate|]. intros f []. }
  pose proof (request_spec op t) as HR. destruct (request op t) as [p|e|] eqn:E.
  - destruct HR as [v [-> Hs]]. destruct (ptype_eqb (p_type v) rty) eqn:Et.
    + apply ptype_eqb_eq in Et. auto.
    + assert (Hne : p_type v <> rty) by (intros H; apply ptype_eqb_eq in H; rewrite H in Et; discriminate).
      split; [right|split].
      * intros v' [Hs' Ht']. destruct Hs as [it [Ht [_ [Hp _]]]], Hs' as [it' [Hti [_ [Hp' _]]]].
        rewrite Ht in Hti. inversion Hti; subst. rewrite Hp in Hp'. inversion Hp'; subst. contradiction.
      * intros _ it Hin Hst. destruct Hs as [it0 [-> [Hs0 _]]]. cbn [items_of r_items] in Hin.
        destruct Hin as [<-|[]]. contradiction.
      * intros f [].
  - destruct HR as (Hn & Hc & Hsd). split; [right|split].
    + intros v [Hs _]. exact (Hn v Hs).
    + intros _. exact Hc.
    + exact Hsd.
  - contradiction.
Qed.

Theorem exec_total b op rty t : exec_context b op rty t <> RPanic.
Proof. pose proof (exec_spec b op rty t) as H. destruct (exec_context b op rty t); [discriminate|discriminate|contradiction]. Qed.

Theorem exec_ok_iff op rty t v :
  exec_context true op rty t = ROk v <-> single_success op t v /\ p_type v = rty.
Proof.
  pose proof (exec_spec true op rty t) as H. split.
  - intros E. rewrite E in H. tauto.
  - intros [Hs Ht]. destruct (exec_context true op rty t) as [v'|e|] eqn:E.
    + destruct H as (_ & Hs' & _). destruct Hs as [it [Hti [_ [Hp _]]]], Hs' as [it' [Hti' [_ [Hp' _]]]].
      rewrite Hti in Hti'. inversion Hti'; subst. rewrite Hp in Hp'. inversion Hp'. reflexivity.
    + destruct H as ([Hf|Hn] & _); [discriminate|]. exfalso. apply (Hn v). auto.
    + contradiction.
Qed.

Theorem exec_violation_is_error op rty t :
  ~ (exists v, single_success op t v /\ p_type v = rty) -> exists e, exec_context true op rty t = RErr e.
Proof.
  intros Hn. pose proof (exec_spec true op rty t) as H.
  destruct (exec_context true op rty t) as [v|e|]; [|exists e; reflexivity|contradiction].
  exfalso. apply Hn. exists v. tauto.
Qed.

(** A failed item anywhere in the response: Request / ExecContext return an error reporting it. *)
Theorem request_fail_surfaces op r it :
  In it (r_items r) -> i_status it <> success ->
  exists e, request op (TMsg r) = RErr e /\ carries e it = true.
Proof.
  intros Hin Hs. pose proof (request_spec op (TMsg r)) as H.
  destruct (request op (TMsg r)) as [p|e|].
  - destruct H as [v [_ [it0 [Ht [Hs0 _]]]]]. inversion Ht; subst r. cbn [r_items] in Hin.
    destruct Hin as [<-|[]]. contradiction.
  - exists e. split; [reflexivity|]. destruct H as (_ & Hc & _). apply Hc; assumption.
  - contradiction.
Qed.

Theorem exec_fail_surfaces op rty r it :
  In it (r_items r) -> i_status it <> success ->
  exists e, exec_context true op rty (TMsg r) = RErr e /\ carries e it = true.
Proof.
  intros Hin Hs. pose proof (exec_spec true op rty (TMsg r)) as H.
  destruct (exec_context true op rty (TMsg r)) as [v|e|].
  - destruct H as (_ & [it0 [Ht [Hs0 _]]] & _). inversion Ht; subst r. cbn [r_items] in Hin.
    destruct Hin as [<-|[]]. contradiction.
  - exists e. split; [reflexivity|]. destruct H as (_ & Hc & _). apply Hc; auto.
  - contradiction.
Qed.

(** * Version discovery at connect time *)

Lemma single_item_check r :
  negb (r_count r =? 1) || negb (len (r_items r) =? 1) = false <->
  exists it, r = {| r_count := 1; r_items := [it] |}.
Proof.
  rewrite orb_false_iff, !negb_false_iff, !Z.eqb_eq. destruct r as [c items]. cbn [r_count r_items]. split.
  - intros [-> Hl]. destruct items as [|it [|it2 rest]]; unfold len in Hl; cbn [length] in Hl; try lia.
    exists it. reflexivity.
  - intros [it H]. inversion H; subst. split; reflexivity.
Qed.

(** [negotiateVersion] never panics and refines the negotiation function of C13 applied to the
    classified reply. *)
Theorem negotiate_version_refines enforced client t :
  match negotiate_version enforced client t with
  | ROk v => negotiate enforced client (classify t) = Adopt v
  | RErr _ => negotiate enforced client (classify t) = Fail
  | RPanic => False
  end.
Proof.
  unfold negotiate_version, negotiate. destruct enforced as [e|]; [reflexivity|].
  destruct t as [|r]; [reflexivity|]. cbn [classify].
  destruct (negb (r_count r =? 1) || negb (len (r_items r) =? 1)) eqn:Ec.
  - apply orb_true_iff in Ec. destruct (r_items r) as [|bi [|bi2 rest]]; try reflexivity.
    destruct Ec as [Ec|Ec]; [rewrite Ec; reflexivity|]. unfold len in Ec. cbn in Ec. discriminate.
  - apply single_item_check in Ec. destruct Ec as [bi ->]. cbn [r_items r_count]. rewrite index_0.
    change (negb (1 =? 1)) with false. cbn iota.
    destruct ((i_status bi =? status_failed) && (i_reason bi =? reason_not_supported)) eqn:Ef.
    + destruct (vmem v1_0 client); reflexivity.
    + unfold item_err. destruct (i_status bi =? success) eqn:Es; cbn [negb]; [|reflexivity].
      destruct (i_payload bi) as [v|]; [|reflexivity].
      destruct (ptype_eqb (p_type v) (TResp op_discover)); [|reflexivity].
      destruct (best client (p_versions v)); reflexivity.
Qed.

Theorem negotiate_version_total enforced client t : negotiate_version enforced client t <> RPanic.
Proof.
  pose proof (negotiate_version_refines enforced client t) as H.
  destruct (negotiate_version enforced client t); [discriminate|discriminate|contradiction].
Qed.

(** A version is adopted only from a well-formed discovery reply (or the documented fallback). *)
Theorem negotiate_version_sound client t v :
  negotiate_version None client t = ROk v ->
  exists it, t = TMsg {| r_count := 1; r_items := [it] |} /\
    ((i_status it = status_failed /\ i_reason it = reason_not_supported /\ v = v1_0 /\ In v1_0 client) \/
     (i_status it = success /\ exists p, i_payload it = Some p /\ p_type p = TResp op_discover /\
        highest_common client (p_versions p) v)).
Proof.
  unfold negotiate_version. destruct t as [|r]; [discriminate|].
  destruct (negb (r_count r =? 1) || negb (len (r_items r) =? 1)) eqn:Ec; [discriminate|].
  apply single_item_check in Ec. destruct Ec as [bi ->]. cbn [r_items]. rewrite index_0.
  intros H. exists bi. split; [reflexivity|].
  destruct ((i_status bi =? status_failed) && (i_reason bi =? reason_not_supported)) eqn:Ef.
  - apply andb_true_iff in Ef. destruct Ef as [E1 E2]. apply Z.eqb_eq in E1, E2.
    destruct (vmem v1_0 client) eqn:Em; [|discriminate]. inversion H; subst. apply vmem_In in Em. left. auto.
  - unfold item_err in H. destruct (i_status bi =? success) eqn:Es; [|discriminate].
    apply Z.eqb_eq in Es. destruct (i_payload bi) as [p|]; [|discriminate].
    destruct (ptype_eqb (p_type p) (TResp op_discover)) eqn:Et; [|discriminate]. apply ptype_eqb_eq in Et.
    destruct (best client (p_versions p)) as [b|] eqn:Eb; [|discriminate]. inversion H; subst.
    apply best_some in Eb. right. split; [exact Es|]. exists p. auto.
Qed.

(** A failure reported by the server in the discovery reply is carried by Dial's error, unless it
    is the well-formed "operation not supported" answer, which selects the 1.0 fallback. *)
Theorem negotiate_version_surfaces client r e it :
  negotiate_version None client (TMsg r) = RErr e ->
  In it (r_items r) -> i_status it <> success ->
  ~ (r = {| r_count := 1; r_items := [it] |} /\ i_status it = status_failed /\ i_reason it = reason_not_supported) ->
  carries e it = true.
Proof.
  unfold negotiate_version. intros H Hin Hs Hnf.
  destruct (negb (r_count r =? 1) || negb (len (r_items r) =? 1)) eqn:Ec.
  - inversion H; subst. apply with_item_errors_carries; assumption.
  - apply single_item_check in Ec. destruct Ec as [bi ->]. cbn [r_items] in *. rewrite index_0 in H.
    destruct Hin as [<-|[]].
    destruct ((i_status bi =? status_failed) && (i_reason bi =? reason_not_supported)) eqn:Ef.
    + apply andb_true_iff in Ef. destruct Ef as [E1 E2]. apply Z.eqb_eq in E1, E2. exfalso. apply Hnf. auto.
    + destruct (item_err bi) as [e'|] eqn:Ee.
      * apply item_err_some in Ee. destruct Ee as [_ ->]. inversion H; subst.
        apply carries_In. cbn [e_failures]. left. reflexivity.
      * apply item_err_none in Ee. contradiction.
Qed.

(** * All calls together: the observable never is a panic *)

Theorem run_never_panics c t : run c t <> OPanic.
Proof.
  destruct c as [op|b op rty|b ops|enf client]; cbn [run].
  - pose proof (request_total op t). destruct (request op t); congruence.
  - pose proof (exec_total b op rty t). destruct (exec_context b op rty t); congruence.
  - assert (H : batch_exec b ops t <> RPanic).
    { unfold batch_exec. destruct b; cbn [negb]; [apply batch_opt_total | discriminate]. }
    destruct (batch_exec b ops t); try congruence. destruct (unwrap a). discriminate.
  - pose proof (negotiate_version_total enf client t). destruct (negotiate_version enf client t); congruence.
Qed.

(** A transport failure is an error for every call. *)
Theorem transport_failure_is_error c :
  (forall e v, c <> CDial (Some e) v) -> exists l, run c TFail = OErr l.
Proof.
  intros Hc. destruct c as [op|b op rty|b ops|[e|] client]; cbn.
  - eexists; reflexivity.
  - destruct b; cbn; eexists; reflexivity.
  - destruct b; cbn; eexists; reflexivity.
  - exfalso. eapply Hc. reflexivity.
  - eexists; reflexivity.
Qed.

(** * Non-vacuity *)

Definition ex_payload (ty : ptype) : pval := {| p_type := ty; p_uop := 0; p_versions := []; p_id := 0 |}.
Definition ex_item (op st rs : Z) (m : str) (p : payload) : item :=
  {| i_op := op; i_status := st; i_reason := rs; i_msg := m; i_payload := p |}.

Example examples :
  (* conformant answer to Get: the payload comes back *)
  exec_context true 10 (TResp 10) (TMsg {| r_count := 1; r_items := [ex_item 10 0 0 [] (Some (ex_payload (TResp 10)))] |})
    = ROk (ex_payload (TResp 10))
  (* missing payload, foreign payload, request-type payload: errors, not panics *)
  /\ (exists e, exec_context true 10 (TResp 10) (TMsg {| r_count := 1; r_items := [ex_item 10 0 0 [] None] |}) = RErr e)
  /\ (exists e, exec_context true 10 (TResp 10) (TMsg {| r_count := 1; r_items := [ex_item 18 0 0 [] (Some (ex_payload (TResp 18)))] |}) = RErr e)
  /\ (exists e, exec_context true 10 (TResp 10) (TMsg {| r_count := 1; r_items := [ex_item 10 0 0 [] (Some (ex_payload (TReq 10)))] |}) = RErr e)
  (* a whole batch of two answered with a single failed item: the error carries the failure *)
  /\ (exists e, batch_opt [10; 18] (TMsg {| r_count := 1; r_items := [ex_item 0 1 4 [66] None] |}) = RErr e
               /\ carries e (ex_item 0 1 4 [66] None) = true)
  (* a batch with one failed and one successful item is returned, and Unwrap reports the failure *)
  /\ (exists e, batch_opt [10; 18] (TMsg {| r_count := 2; r_items := [ex_item 10 1 1 [66] None; ex_item 18 0 0 [] (Some (ex_payload (TResp 18)))] |})
                 = ROk [ex_item 10 1 1 [66] None; ex_item 18 0 0 [] (Some (ex_payload (TResp 18)))]
               /\ snd (unwrap [ex_item 10 1 1 [66] None; ex_item 18 0 0 [] (Some (ex_payload (TResp 18)))]) = Some e
               /\ carries e (ex_item 10 1 1 [66] None) = true).
Proof.
  repeat split; try (eexists; reflexivity).
  - eexists. split; reflexivity.
  - eexists. split; [reflexivity | split; reflexivity].
Qed.
