(** Small-step model of one server connection of kmipserver: the three goroutines started
    for it ([handleConn] in server.go; [readloop], [writeloop] in conn.go), the functions they
    call ([recv], [send], [terminate], [checkAvailable], [Close]), and the batch executor's
    treatment of operation-handler outcomes (router.go [executeItem], errors.go
    [handleBatchItemError], [handleMessageError]).

    Granularity: one transition per channel operation, atomic operation, context call,
    socket call and [select] choice.  A [select] with several ready cases offers each of them;
    a send case on a closed channel is ready and leads to [Panic] (as in Go).  The peer, the
    operation handlers, the connect hook, the TLS handshake and the server-level events
    (Shutdown's recvCancel, cancellation of the root context) are the environment.

    The state has two layers:
      - [cstate]: the finite control skeleton (program counters, flags, channel states),
        no message data, so any number of requests / pipelining is covered by finitely many
        states;  [cstep] lists all labelled successors of a control state;
      - [ghost]: the data the Go code holds in its local variables and channels at the same
        moments (which request readloop holds, which one handleConn is processing, which
        response writeloop is writing) plus the history lists [reads] and [writes].  The
        ghost is updated as a function of the label of the control transition ([gupd]).

    This file contains definitions only; proofs are in ConnServerProofs.v. *)
From Coq Require Import List Bool PArith ZArith.
From KV Require Import Lts.
Import ListNotations.

(** * Variants of the code that the model can transcribe.
    [cfg_repo] is the code as it is now in the repository (after the fix: commits);
    [cfg_pinned] is the code of the pinned tree 9317440, kept so that the defects it had are
    theorems too ([..._refuted] lemmas in the proofs file). *)
Record cfg := {
  close_tx : bool;        (* terminate closes the tx channel (pinned tree) *)
  errch_buffered : bool;  (* send creates errCh with capacity 1 (fix) *)
  wrap_decode : bool      (* recvMsg.DecodeTTLV turns every decode error into an encoding error (fix) *)
}.
Definition cfg_repo := {| close_tx := false; errch_buffered := true; wrap_decode := true |}.
Definition cfg_pinned := {| close_tx := true; errch_buffered := false; wrap_decode := false |}.

(** * Operation handlers and the batch executor (router.go, errors.go) *)

(** What an operation handler does when invoked (chosen by the request: the property
    quantifies over all of these). *)
Inductive beh :=
| BOk                       (* returns a payload *)
| BSlow                     (* returns a payload after an arbitrary delay *)
| BTyped (reason : Z)       (* returns kmipserver.Error{Reason} *)
| BPlain                    (* returns an error of another type *)
| BPanicTyped (reason : Z)  (* panics with a kmipserver.Error value (an [error]) *)
| BPanicErr                 (* panics with another error value (incl. runtime errors, panic(nil)) *)
| BPanicStr                 (* panics with a string *)
| BPanicStringer            (* panics with a fmt.Stringer *)
| BPanicOther               (* panics with any other value *)
| BNoRoute                  (* no handler registered for the operation *)
| BCritical.                (* item carries a critical message extension *)

Inductive item_res := ISuccess | IFailed (reason : Z).

Definition reason_general_failure : Z := 256.
Definition reason_invalid_message : Z := 4.
Definition reason_op_not_supported : Z := 5.
Definition reason_feature_not_supported : Z := 8.

(** Result of a Go call that may panic. *)
Inductive gores (A : Type) := GRet (a : A) | GPanic.
Arguments GRet {A}. Arguments GPanic {A}.

(** what route.HandleOperation does: returns (payload, nil), (nil, err) or panics *)
Inductive hfail := ETyped (reason : Z) | EOther.
Inductive hout := HPayload | HError (e : hfail) | HPanics (v : beh).

Definition run_handler (b : beh) : hout :=
  match b with
  | BOk | BSlow => HPayload
  | BTyped r => HError (ETyped r)
  | BPlain => HError EOther
  | BNoRoute => HError (ETyped reason_op_not_supported)   (* err = ErrOperationNotSupported *)
  | BCritical => HError (ETyped reason_feature_not_supported)
  | b => HPanics b
  end.

(** errors.go handleBatchItemError: errors.As(err, &Error) ? e.Reason : GeneralFailure *)
Definition batch_item_error (e : hfail) : item_res :=
  match e with
  | ETyped r => IFailed r
  | EOther => IFailed reason_general_failure
  end.

(** router.go executeItem: the deferred recover() converts the panic value to an error
    (switch er := err.(type): error / string / fmt.Stringer / default) and passes it to
    handleBatchItemError.  [recovers = false] is the function without its deferred recover. *)
Definition execute_item (recovers : bool) (b : beh) : gores item_res :=
  match run_handler b with
  | HPayload => GRet ISuccess
  | HError e => GRet (batch_item_error e)
  | HPanics v =>
    if recovers then
      GRet (batch_item_error (match v with BPanicTyped r => ETyped r | _ => EOther end))
    else GPanic
  end.

(** router.go handleRequest: the loop over the batch items (continuation option Continue) *)
Fixpoint execute_items (recovers : bool) (l : list beh) : gores (list item_res) :=
  match l with
  | [] => GRet []
  | b :: t =>
    match execute_item recovers b with
    | GPanic => GPanic
    | GRet r => match execute_items recovers t with GPanic => GPanic | GRet rs => GRet (r :: rs) end
    end
  end.

(** A framed message as readloop sees it after stream.Recv + recvMsg.DecodeTTLV. *)
Inductive msg :=
| MReq (items : list beh)   (* decodes to a RequestMessage *)
| MEnc                      (* framed, decoding fails with a ttlv.ErrEncoding (also: declared length over 1 MB) *)
| MPlain                    (* framed, decoding fails with an error that is not a ttlv.ErrEncoding *)
| MResp.                    (* decodes to a ResponseMessage: ignored by readloop *)

Inductive resp :=
| RItems (l : list item_res)  (* BatchExecutor.HandleRequest's response *)
| RInvalid.                   (* handleMessageError(InvalidMessage): one failed item *)

(** response the code produces for a message handed to handleConn *)
Definition resp_of (m : msg) : resp :=
  match m with
  | MReq items => match execute_items true items with GRet l => RItems l | GPanic => RInvalid end
  | _ => RInvalid
  end.

(** framed but undecodable *)
Definition is_bad (m : msg) : bool := match m with MEnc | MPlain => true | _ => false end.

(** what the property expects for one batch item: success, the handler's typed reason, or
    general failure for any other error and for any panic *)
Definition item_result (b : beh) : item_res :=
  match b with
  | BOk | BSlow => ISuccess
  | BTyped r | BPanicTyped r => IFailed r
  | BNoRoute => IFailed reason_op_not_supported
  | BCritical => IFailed reason_feature_not_supported
  | BPlain | BPanicErr | BPanicStr | BPanicStringer | BPanicOther => IFailed reason_general_failure
  end.


(** * Control skeleton *)

Inductive chanv := ChOpen | ChNil.            (* value of a [chan txMsg] variable *)
Inductive peerst := POpen | PHalf | PClosed.  (* peer: connected / closed its write side / gone *)
(** errCh of the send in progress: not created, empty, holding a value, closed, value+closed *)
Inductive errch := ENone | EEmpty | EVal | EClosed | EValClosed.

(** stages of conn.terminate after closed.Swap(true) returned false *)
Inductive tstage := TCancel | TSwap | TCloseTx | TSock.

Inductive rpc :=
| R_NotStarted
| R_Loop                (* for !c.closed.Load() *)
| R_Recv                (* in c.stream.Recv *)
| R_TermSwap            (* terminate: closed.Swap(true) *)
| R_Term (t : tstage)
| R_Send (e : bool)     (* select { c.rx <- resp ; <-c.ctx.Done() }, e: resp.err != nil *)
| R_Exit                (* deferred close(c.rx) *)
| R_Done.

Inductive wpc :=
| W_NotStarted
| W_Init                (* tx := c.tx.Load() *)
| W_Loop                (* for !c.closed.Load() *)
| W_Sel                 (* select { <-tx ; <-c.ctx.Done() } *)
| W_Write               (* c.stream.Send(req.msg) *)
| W_CloseOk             (* close(req.err) after a successful write *)
| W_SendErr             (* req.err <- err *)
| W_CloseErr            (* close(req.err) after the error was handed over *)
| W_TermSwap
| W_Term (t : tstage)
| W_Done.

(** where handleConn continues after a terminate it called *)
Inductive hcont := HC_Break | HC_Defer.

Inductive hpc :=
| H_Tls                 (* tcon.Handshake() (environment: ok / error) *)
| H_NewConn             (* newConn: go readloop, go writeloop *)
| H_Hook                (* srv.connectHook(ctx) (environment: ok / error) *)
| H_RecvChk1            (* recv: checkAvailable: c.closed.Load() *)
| H_RecvChk2            (* recv: checkAvailable: select { <-c.ctx.Done() ; default } *)
| H_RecvSel             (* recv: select { <-c.rx ; <-ctx.Done() ; <-c.ctx.Done() } *)
| H_Invoke              (* srv.handleRequest: handler about to be invoked *)
| H_Handling            (* handler running (environment: returns) *)
| H_CtxChk              (* if ctx.Err() != nil { break } *)
| H_ErrResp             (* ttlv.IsErrEncoding(err): resp := handleMessageError(...) *)
| H_SendChk1            (* send: checkAvailable: closed.Load() *)
| H_SendChk2            (* send: checkAvailable: ctx *)
| H_SendLoad            (* tx := c.tx.Load() *)
| H_SendMk              (* errCh := make(chan error[, 1]) *)
| H_SendSel             (* select { tx <- txMsg ; <-c.ctx.Done() } *)
| H_SendWait            (* select { err := <-errCh ; <-c.ctx.Done() } *)
| H_SendCancel          (* outer ctx.Done case: close(errCh) *)
| H_TermSwap (k : hcont)
| H_Term (t : tstage) (k : hcont)
| H_SendRet (failed : bool)  (* send returned; failed: err != nil *)
| H_Break               (* leaving the loop: deferred calls start *)
| H_DHook               (* defer srv.terminateHook(ctx) *)
| H_DClose              (* defer stream.Close() *)
| H_WgDone              (* defer srv.wg.Done() *)
| H_Done.

Record cstate := {
  rp : rpc; wp : wpc; hp : hpc;
  cclosed : bool;          (* c.closed *)
  cctx : bool;            (* c.cancel was called *)
  root : bool;            (* srv.ctx cancelled (parent of c.ctx) *)
  rctx : bool;            (* srv.recvCtx cancelled *)
  txv : chanv;            (* value stored in c.tx *)
  txclosed : bool;        (* the channel created by newConn has been closed *)
  rxclosed : bool;
  wtx : chanv;            (* writeloop's local tx *)
  htx : chanv;            (* send's local tx *)
  ech : errch;
  herr : bool;            (* handleConn is answering an encoding error (breaks after the send) *)
  hooked : bool;          (* connect hook succeeded: terminate hook is deferred *)
  peer : peerst;
  lclosed : bool;         (* server side closed the socket *)
  panicked : bool
}.

Definition cinit (tls : bool) : cstate := {|
  rp := R_NotStarted; wp := W_NotStarted; hp := if tls then H_Tls else H_NewConn;
  cclosed := false; cctx := false; root := false; rctx := false;
  txv := ChOpen; txclosed := false; rxclosed := false; wtx := ChNil; htx := ChNil;
  ech := ENone; herr := false; hooked := false; peer := POpen; lclosed := false; panicked := false |}.

(** c.ctx.Done() is closed *)
Definition ctxdone (s : cstate) : bool := cctx s || root s.

(** Labels: what a transition does that the ghost layer, the history theorems or the
    scenario semantics need to know. *)
Inductive label :=
| LTau
| LRecvReq            (* stream.Recv returned a RequestMessage *)
| LRecvEnc            (* stream.Recv returned an encoding error *)
| LRecvPlain          (* stream.Recv returned a non-encoding decode error, forwarded as an encoding error (fix) *)
| LRecvPlainFatal     (* the same, treated as a transport failure (pinned tree) *)
| LRecvResp           (* stream.Recv returned a ResponseMessage *)
| LRecvFail           (* stream.Recv returned a transport error (EOF, closed, ...) *)
| LRDrop              (* readloop abandons the message it holds *)
| LHandoff            (* c.rx <- resp received by recv *)
| LHStart             (* handler invoked *)
| LHEnd               (* handler returned *)
| LMkErrResp          (* handleMessageError builds the invalid-message response *)
| LHDrop              (* handleConn abandons its request / response *)
| LEnqueue            (* tx <- txMsg received by writeloop *)
| LWriteOk            (* stream.Send wrote the response *)
| LWriteFail          (* stream.Send failed: response lost *)
| LTlsOk | LTlsFail
| LHookOk | LHookFail
| LTermHook
| LWgDone
| LPeerClose | LPeerHalf
| LShutdown           (* srv.recvCancel() *)
| LRootCancel         (* srv.cancel() *)
| LPanic.

(** setters *)
Definition set_rp v s := {| rp := v; wp := wp s; hp := hp s; cclosed := cclosed s; cctx := cctx s; root := root s; rctx := rctx s; txv := txv s; txclosed := txclosed s; rxclosed := rxclosed s; wtx := wtx s; htx := htx s; ech := ech s; herr := herr s; hooked := hooked s; peer := peer s; lclosed := lclosed s; panicked := panicked s |}.
Definition set_wp v s := {| rp := rp s; wp := v; hp := hp s; cclosed := cclosed s; cctx := cctx s; root := root s; rctx := rctx s; txv := txv s; txclosed := txclosed s; rxclosed := rxclosed s; wtx := wtx s; htx := htx s; ech := ech s; herr := herr s; hooked := hooked s; peer := peer s; lclosed := lclosed s; panicked := panicked s |}.
Definition set_hp v s := {| rp := rp s; wp := wp s; hp := v; cclosed := cclosed s; cctx := cctx s; root := root s; rctx := rctx s; txv := txv s; txclosed := txclosed s; rxclosed := rxclosed s; wtx := wtx s; htx := htx s; ech := ech s; herr := herr s; hooked := hooked s; peer := peer s; lclosed := lclosed s; panicked := panicked s |}.
Definition set_cclosed v s := {| rp := rp s; wp := wp s; hp := hp s; cclosed := v; cctx := cctx s; root := root s; rctx := rctx s; txv := txv s; txclosed := txclosed s; rxclosed := rxclosed s; wtx := wtx s; htx := htx s; ech := ech s; herr := herr s; hooked := hooked s; peer := peer s; lclosed := lclosed s; panicked := panicked s |}.
Definition set_cctx v s := {| rp := rp s; wp := wp s; hp := hp s; cclosed := cclosed s; cctx := v; root := root s; rctx := rctx s; txv := txv s; txclosed := txclosed s; rxclosed := rxclosed s; wtx := wtx s; htx := htx s; ech := ech s; herr := herr s; hooked := hooked s; peer := peer s; lclosed := lclosed s; panicked := panicked s |}.
Definition set_root v s := {| rp := rp s; wp := wp s; hp := hp s; cclosed := cclosed s; cctx := cctx s; root := v; rctx := rctx s; txv := txv s; txclosed := txclosed s; rxclosed := rxclosed s; wtx := wtx s; htx := htx s; ech := ech s; herr := herr s; hooked := hooked s; peer := peer s; lclosed := lclosed s; panicked := panicked s |}.
Definition set_rctx v s := {| rp := rp s; wp := wp s; hp := hp s; cclosed := cclosed s; cctx := cctx s; root := root s; rctx := v; txv := txv s; txclosed := txclosed s; rxclosed := rxclosed s; wtx := wtx s; htx := htx s; ech := ech s; herr := herr s; hooked := hooked s; peer := peer s; lclosed := lclosed s; panicked := panicked s |}.
Definition set_txv v s := {| rp := rp s; wp := wp s; hp := hp s; cclosed := cclosed s; cctx := cctx s; root := root s; rctx := rctx s; txv := v; txclosed := txclosed s; rxclosed := rxclosed s; wtx := wtx s; htx := htx s; ech := ech s; herr := herr s; hooked := hooked s; peer := peer s; lclosed := lclosed s; panicked := panicked s |}.
Definition set_txclosed v s := {| rp := rp s; wp := wp s; hp := hp s; cclosed := cclosed s; cctx := cctx s; root := root s; rctx := rctx s; txv := txv s; txclosed := v; rxclosed := rxclosed s; wtx := wtx s; htx := htx s; ech := ech s; herr := herr s; hooked := hooked s; peer := peer s; lclosed := lclosed s; panicked := panicked s |}.
Definition set_rxclosed v s := {| rp := rp s; wp := wp s; hp := hp s; cclosed := cclosed s; cctx := cctx s; root := root s; rctx := rctx s; txv := txv s; txclosed := txclosed s; rxclosed := v; wtx := wtx s; htx := htx s; ech := ech s; herr := herr s; hooked := hooked s; peer := peer s; lclosed := lclosed s; panicked := panicked s |}.
Definition set_wtx v s := {| rp := rp s; wp := wp s; hp := hp s; cclosed := cclosed s; cctx := cctx s; root := root s; rctx := rctx s; txv := txv s; txclosed := txclosed s; rxclosed := rxclosed s; wtx := v; htx := htx s; ech := ech s; herr := herr s; hooked := hooked s; peer := peer s; lclosed := lclosed s; panicked := panicked s |}.
Definition set_htx v s := {| rp := rp s; wp := wp s; hp := hp s; cclosed := cclosed s; cctx := cctx s; root := root s; rctx := rctx s; txv := txv s; txclosed := txclosed s; rxclosed := rxclosed s; wtx := wtx s; htx := v; ech := ech s; herr := herr s; hooked := hooked s; peer := peer s; lclosed := lclosed s; panicked := panicked s |}.
Definition set_ech v s := {| rp := rp s; wp := wp s; hp := hp s; cclosed := cclosed s; cctx := cctx s; root := root s; rctx := rctx s; txv := txv s; txclosed := txclosed s; rxclosed := rxclosed s; wtx := wtx s; htx := htx s; ech := v; herr := herr s; hooked := hooked s; peer := peer s; lclosed := lclosed s; panicked := panicked s |}.
Definition set_herr v s := {| rp := rp s; wp := wp s; hp := hp s; cclosed := cclosed s; cctx := cctx s; root := root s; rctx := rctx s; txv := txv s; txclosed := txclosed s; rxclosed := rxclosed s; wtx := wtx s; htx := htx s; ech := ech s; herr := v; hooked := hooked s; peer := peer s; lclosed := lclosed s; panicked := panicked s |}.
Definition set_hooked v s := {| rp := rp s; wp := wp s; hp := hp s; cclosed := cclosed s; cctx := cctx s; root := root s; rctx := rctx s; txv := txv s; txclosed := txclosed s; rxclosed := rxclosed s; wtx := wtx s; htx := htx s; ech := ech s; herr := herr s; hooked := v; peer := peer s; lclosed := lclosed s; panicked := panicked s |}.
Definition set_peer v s := {| rp := rp s; wp := wp s; hp := hp s; cclosed := cclosed s; cctx := cctx s; root := root s; rctx := rctx s; txv := txv s; txclosed := txclosed s; rxclosed := rxclosed s; wtx := wtx s; htx := htx s; ech := ech s; herr := herr s; hooked := hooked s; peer := v; lclosed := lclosed s; panicked := panicked s |}.
Definition set_lclosed v s := {| rp := rp s; wp := wp s; hp := hp s; cclosed := cclosed s; cctx := cctx s; root := root s; rctx := rctx s; txv := txv s; txclosed := txclosed s; rxclosed := rxclosed s; wtx := wtx s; htx := htx s; ech := ech s; herr := herr s; hooked := hooked s; peer := peer s; lclosed := v; panicked := panicked s |}.
Definition set_panicked v s := {| rp := rp s; wp := wp s; hp := hp s; cclosed := cclosed s; cctx := cctx s; root := root s; rctx := rctx s; txv := txv s; txclosed := txclosed s; rxclosed := rxclosed s; wtx := wtx s; htx := htx s; ech := ech s; herr := herr s; hooked := hooked s; peer := peer s; lclosed := lclosed s; panicked := v |}.

Definition go_panic (s : cstate) : label * cstate := (LPanic, set_panicked true s).

(** the connection has ended for the peer: it is gone or half-closed, or the server closed the socket *)
Definition conn_over (s : cstate) : bool :=
  lclosed s || match peer s with POpen => false | _ => true end.

Section Step.
  Variable C : cfg.

  (** conn.terminate, one stage per call.  [k] builds the caller's program counter for the
      next stage, [fin] is the state after terminate returned. *)
  Definition term_swap (s : cstate) (k : tstage -> cstate -> cstate) (fin : cstate -> cstate) : list (label * cstate) :=
    (* if c.closed.Swap(true) { return nil } *)
    if cclosed s then [(LTau, fin s)] else [(LTau, k TCancel (set_cclosed true s))].

  Definition term_stage (t : tstage) (s : cstate) (k : tstage -> cstate -> cstate) (fin : cstate -> cstate) : list (label * cstate) :=
    match t with
    | TCancel => (* c.cancel(err) *) [(LTau, k TSwap (set_cctx true s))]
    | TSwap =>   (* tx := c.tx.Swap(chan txMsg(nil)); tx != nil -> (pinned tree) close(tx) *)
      match txv s with
      | ChOpen => if close_tx C then [(LTau, k TCloseTx (set_txv ChNil s))] else [(LTau, k TSock (set_txv ChNil s))]
      | ChNil => [(LTau, k TSock s)]
      end
    | TCloseTx => (* close(tx.(chan txMsg)) *)
      if txclosed s then [go_panic s] else [(LTau, k TSock (set_txclosed true s))]
    | TSock =>   (* c.stream.Close() *) [(LTau, fin (set_lclosed true s))]
    end.

  (** readloop *)
  Definition r_steps (s : cstate) : list (label * cstate) :=
    match rp s with
    | R_NotStarted | R_Done => []
    | R_Loop => [(LTau, set_rp (if cclosed s then R_Exit else R_Recv) s)]
    | R_Recv =>
      (* err := c.stream.Recv(&msg): the environment decides what arrives (messages already
         in flight may still arrive after the peer closed) *)
      (if lclosed s then [] else
           [ (LRecvReq, set_rp (R_Send false) s);
             (LRecvEnc, set_rp (R_Send true) s);
             (if wrap_decode C then (LRecvPlain, set_rp (R_Send true) s) else (LRecvPlainFatal, set_rp R_TermSwap s));
             (LRecvResp, set_rp R_Loop s) ])
      ++ (* transport error: peer closed (EOF), local close (net.ErrClosed), or any I/O error *)
         [(LRecvFail, set_rp R_TermSwap s)]
    | R_TermSwap => term_swap s (fun t => set_rp (R_Term t)) (set_rp R_Exit)
    | R_Term t => term_stage t s (fun t => set_rp (R_Term t)) (set_rp R_Exit)
    | R_Send e =>
      (* select { case c.rx <- resp: (joint step with recv, see h_steps) ; case <-c.ctx.Done(): return } *)
      if ctxdone s then [(LRDrop, set_rp R_Exit s)] else []
    | R_Exit => (* defer close(c.rx) *)
      if rxclosed s then [go_panic s] else [(LTau, set_rp R_Done (set_rxclosed true s))]
    end.

  (** writeloop *)
  Definition w_steps (s : cstate) : list (label * cstate) :=
    match wp s with
    | W_NotStarted | W_Done => []
    | W_Init => [(LTau, set_wp W_Loop (set_wtx (txv s) s))]
    | W_Loop => [(LTau, set_wp (if cclosed s then W_Done else W_Sel) s)]
    | W_Sel =>
      (* case req, ok := <-tx (a send by conn.send is a joint step, see h_steps) *)
      (match wtx s with
       | ChOpen => if txclosed s then [(LTau, set_wp W_Done s)] else []
       | ChNil => []
       end)
      ++ (if ctxdone s then [(LTau, set_wp W_Done s)] else [])
    | W_Write =>
      (* c.stream.Send(req.msg): succeeds only while the socket is open and the peer not gone
         (a peer that does not read blocks it); may fail at any time (I/O error) *)
      (if lclosed s then [] else match peer s with PClosed => [] | _ => [(LWriteOk, set_wp W_CloseOk s)] end)
      ++ [(LWriteFail, set_wp W_SendErr s)]
    | W_CloseOk => (* close(req.err) *)
      match ech s with
      | EEmpty => [(LTau, set_wp W_Loop (set_ech EClosed s))]
      | EVal => [(LTau, set_wp W_Loop (set_ech EValClosed s))]
      | _ => [go_panic s]
      end
    | W_SendErr => (* req.err <- err *)
      match ech s with
      | EEmpty =>
        if errch_buffered C then [(LTau, set_wp W_CloseErr (set_ech EVal s))]
        else (* unbuffered: needs send's inner select as receiver *)
          match hp s with
          | H_SendWait => [(LTau, set_wp W_CloseErr (set_hp (H_SendRet true) s))]
          | _ => []
          end
      | EVal => []                       (* buffer full: blocks *)
      | ENone => []                      (* nil channel: blocks (unreachable) *)
      | EClosed | EValClosed => [go_panic s]   (* send on closed channel *)
      end
    | W_CloseErr =>
      match ech s with
      | EEmpty => [(LTau, set_wp W_TermSwap (set_ech EClosed s))]
      | EVal => [(LTau, set_wp W_TermSwap (set_ech EValClosed s))]
      | _ => [go_panic s]
      end
    | W_TermSwap => term_swap s (fun t => set_wp (W_Term t)) (set_wp W_Done)
    | W_Term t => term_stage t s (fun t => set_wp (W_Term t)) (set_wp W_Done)
    end.

  Definition h_after_term (k : hcont) (s : cstate) : cstate :=
    match k with HC_Break => set_hp H_Break s | HC_Defer => set_hp H_WgDone s end.

  (** handleConn with recv / send / Close inlined *)
  Definition h_steps (s : cstate) : list (label * cstate) :=
    match hp s with
    | H_Done => []
    | H_Tls =>
      (* tcon.Handshake(): error -> tcon.Close(); return *)
      [(LTlsOk, set_hp H_NewConn s); (LTlsFail, set_hp H_WgDone (set_lclosed true s))]
    | H_NewConn => [(LTau, set_hp H_Hook (set_wp W_Init (set_rp R_Loop s)))]
    | H_Hook => [(LHookOk, set_hp H_RecvChk1 (set_hooked true s)); (LHookFail, set_hp H_DClose s)]
    | H_RecvChk1 => [(LTau, set_hp (if cclosed s then H_Break else H_RecvChk2) s)]
    | H_RecvChk2 => [(LTau, set_hp (if ctxdone s then H_Break else H_RecvSel) s)]
    | H_RecvSel =>
      (* case resp, ok := <-c.rx *)
      (match rp s with
       | R_Send e =>
         [(LHandoff, set_rp R_Loop (set_hp (if e then H_ErrResp else H_Invoke) (set_herr e s)))]
       | _ => if rxclosed s then [(LTau, set_hp H_Break s)] else []
       end)
      ++ (* case <-ctx.Done() (srv.recvCtx): terminate(io.ErrClosedPipe) *)
         (if rctx s then [(LTau, set_hp (H_TermSwap HC_Break) s)] else [])
      ++ (* case <-c.ctx.Done() *)
         (if ctxdone s then [(LTau, set_hp (H_TermSwap HC_Break) s)] else [])
    | H_Invoke => [(LHStart, set_hp H_Handling s)]
    | H_Handling => [(LHEnd, set_hp H_CtxChk s)]
    | H_CtxChk => if ctxdone s then [(LHDrop, set_hp H_Break s)] else [(LTau, set_hp H_SendChk1 s)]
    | H_ErrResp => [(LMkErrResp, set_hp H_SendChk1 s)]
    | H_SendChk1 => if cclosed s then [(LHDrop, set_hp (H_SendRet true) s)] else [(LTau, set_hp H_SendChk2 s)]
    | H_SendChk2 => if ctxdone s then [(LHDrop, set_hp (H_SendRet true) s)] else [(LTau, set_hp H_SendLoad s)]
    | H_SendLoad => [(LTau, set_hp H_SendMk (set_htx (txv s) s))]
    | H_SendMk => [(LTau, set_hp H_SendSel (set_ech EEmpty s))]
    | H_SendSel =>
      (* case tx <- txMsg{msg, errCh} *)
      (match htx s with
       | ChOpen =>
         if txclosed s then [go_panic s]
         else match wp s, wtx s with
              | W_Sel, ChOpen => [(LEnqueue, set_wp W_Write (set_hp H_SendWait s))]
              | _, _ => []
              end
       | ChNil => []
       end)
      ++ (* case <-c.ctx.Done(): close(errCh); terminate; return cause *)
         (if ctxdone s then [(LHDrop, set_hp H_SendCancel s)] else [])
    | H_SendCancel =>
      match ech s with
      | EEmpty => [(LTau, set_hp (H_TermSwap HC_Break) (set_ech EClosed s))]
      | _ => [go_panic s]
      end
    | H_SendWait =>
      (* case err := <-errCh *)
      (match ech s with
       | EVal | EValClosed => [(LTau, set_hp (H_SendRet true) s)]
       | EClosed => [(LTau, set_hp (H_SendRet false) s)]
       | _ => []
       end)
      ++ (* case <-c.ctx.Done(): terminate; return cause *)
         (if ctxdone s then [(LTau, set_hp (H_TermSwap HC_Break) s)] else [])
    | H_SendRet failed =>
      (* back in handleConn: error -> break; after an invalid-message reply -> break; else loop *)
      [(LTau, set_hp (if failed || herr s then H_Break else H_RecvChk1) s)]
    | H_TermSwap k => term_swap s (fun t => set_hp (H_Term t k)) (h_after_term k)
    | H_Term t k => term_stage t s (fun t => set_hp (H_Term t k)) (h_after_term k)
    | H_Break => [(LTau, set_hp (if hooked s then H_DHook else H_DClose) s)]
    | H_DHook => [(LTermHook, set_hp H_DClose s)]
    | H_DClose => [(LTau, set_hp (H_TermSwap HC_Defer) s)]
    | H_WgDone => [(LWgDone, set_hp H_Done s)]
    end.

  (** environment: the peer and the server-level contexts *)
  Definition env_steps (s : cstate) : list (label * cstate) :=
    (match peer s with
     | POpen => [(LPeerClose, set_peer PClosed s); (LPeerHalf, set_peer PHalf s)]
     | PHalf => [(LPeerClose, set_peer PClosed s)]
     | PClosed => []
     end)
    ++ (if rctx s then [] else [(LShutdown, set_rctx true s)])
    ++ (if root s then [] else [(LRootCancel, set_root true s)]).

  Definition cstep_lbl (s : cstate) : list (label * cstate) :=
    if panicked s then [] else r_steps s ++ w_steps s ++ h_steps s ++ env_steps s.

  Definition cstep (s : cstate) : list cstate := map snd (cstep_lbl s).

  (** Internal steps: those that need no new action of the peer, of Shutdown or of the root
      context - goroutine steps, handler/hook/handshake completion, and I/O failures once the
      connection is over (EOF, closed socket).  Message arrival, a successful write (the peer
      must read), and spontaneous I/O errors on a healthy connection are environment events. *)
  Definition is_internal (s : cstate) (l : label) : bool :=
    match l with
    | LRecvReq | LRecvEnc | LRecvPlain | LRecvPlainFatal | LRecvResp => false
    | LPeerClose | LPeerHalf | LShutdown | LRootCancel => false
    | LWriteOk => false
    | LRecvFail | LWriteFail => conn_over s
    | _ => true
    end.
  Definition istep_lbl (s : cstate) : list (label * cstate) :=
    filter (fun x => is_internal s (fst x)) (cstep_lbl s).
  Definition istep (s : cstate) : list cstate := map snd (istep_lbl s).
End Step.

(** * Observations on control states *)
Definition all_done (s : cstate) : bool :=
  match rp s, wp s, hp s with
  | (R_Done | R_NotStarted), (W_Done | W_NotStarted), H_Done => true
  | _, _, _ => false
  end.


(** all three goroutines wait for the peer's next message: nothing in flight *)
Definition idle (s : cstate) : bool :=
  match rp s, wp s, hp s with
  | R_Recv, W_Sel, H_RecvSel => negb (conn_over s)
  | _, _, _ => false
  end.

(** writeloop is inside stream.Send on a live socket: the peer is not reading *)
Definition write_blocked (s : cstate) : bool :=
  match wp s with W_Write => negb (conn_over s) | _ => false end.

(** a handler is running *)
Definition in_handler (s : cstate) : bool := match hp s with H_Handling => true | _ => false end.

(** * Injective encoding of control states into [positive] (for the reflective certificates of Lts.v) *)
Fixpoint ppair (a b : positive) : positive :=
  match a with
  | xH => xO (xO b)
  | xO a' => xO (xI (ppair a' b))
  | xI a' => xI (ppair a' b)
  end.

Definition enc_bool (b : bool) : positive := if b then 1%positive else 2%positive.
Definition enc_chanv (c : chanv) : positive := match c with ChOpen => 1 | ChNil => 2 end%positive.
Definition enc_peer (p : peerst) : positive := match p with POpen => 1 | PHalf => 2 | PClosed => 3 end%positive.
Definition enc_errch (e : errch) : positive :=
  match e with ENone => 1 | EEmpty => 2 | EVal => 3 | EClosed => 4 | EValClosed => 5 end%positive.
Definition enc_tstage (t : tstage) : positive :=
  match t with TCancel => 1 | TSwap => 2 | TCloseTx => 3 | TSock => 4 end%positive.
Definition enc_rpc (r : rpc) : positive :=
  match r with
  | R_NotStarted => 1 | R_Loop => 2 | R_Recv => 3 | R_TermSwap => 4
  | R_Term TCancel => 5 | R_Term TSwap => 6 | R_Term TCloseTx => 7 | R_Term TSock => 8
  | R_Send true => 9 | R_Send false => 10 | R_Exit => 11 | R_Done => 12
  end%positive.
Definition enc_wpc (w : wpc) : positive :=
  match w with
  | W_NotStarted => 1 | W_Init => 2 | W_Loop => 3 | W_Sel => 4 | W_Write => 5 | W_CloseOk => 6
  | W_SendErr => 7 | W_CloseErr => 8 | W_TermSwap => 9
  | W_Term TCancel => 10 | W_Term TSwap => 11 | W_Term TCloseTx => 12 | W_Term TSock => 13
  | W_Done => 14
  end%positive.
Definition enc_hcont (k : hcont) : positive := match k with HC_Break => 1 | HC_Defer => 2 end%positive.
Definition enc_hpc (h : hpc) : positive :=
  match h with
  | H_Tls => 1 | H_NewConn => 2 | H_Hook => 3 | H_RecvChk1 => 4 | H_RecvChk2 => 5 | H_RecvSel => 6
  | H_Invoke => 7 | H_Handling => 8 | H_CtxChk => 9 | H_ErrResp => 10 | H_SendChk1 => 11
  | H_SendChk2 => 12 | H_SendLoad => 13 | H_SendMk => 14 | H_SendSel => 15 | H_SendWait => 16
  | H_SendCancel => 17
  | H_TermSwap k => ppair 18 (enc_hcont k)
  | H_Term t k => ppair 19 (ppair (enc_tstage t) (enc_hcont k))
  | H_SendRet b => ppair 20 (enc_bool b)
  | H_Break => 21 | H_DHook => 22 | H_DClose => 23 | H_WgDone => 24 | H_Done => 25
  end%positive.

Definition enc_cstate (s : cstate) : positive :=
  ppair (enc_rpc (rp s)) (ppair (enc_wpc (wp s)) (ppair (enc_hpc (hp s))
  (ppair (enc_bool (cclosed s)) (ppair (enc_bool (cctx s)) (ppair (enc_bool (root s))
  (ppair (enc_bool (rctx s)) (ppair (enc_chanv (txv s)) (ppair (enc_bool (txclosed s))
  (ppair (enc_bool (rxclosed s)) (ppair (enc_chanv (wtx s)) (ppair (enc_chanv (htx s))
  (ppair (enc_errch (ech s)) (ppair (enc_bool (herr s)) (ppair (enc_bool (hooked s))
  (ppair (enc_peer (peer s)) (ppair (enc_bool (lclosed s)) (enc_bool (panicked s)))))))))))))))))).

(** * Ghost layer: the data held by the goroutines, and the histories *)

Record ghost := {
  nextid : Z;                      (* number of answerable messages read so far *)
  reads : list (Z * msg);          (* messages returned by stream.Recv (ResponseMessages excluded), oldest first *)
  rslot : option (Z * msg);        (* readloop's [resp] while it offers it on c.rx *)
  hslot : option (Z * msg);        (* handleConn's [msg] / [err] *)
  hresp : option (Z * resp);       (* handleConn's [resp] *)
  wslot : option (Z * resp);       (* writeloop's [req.msg] *)
  writes : list (Z * resp);        (* responses written to the socket, oldest first *)
  handed : nat;                    (* history: number of messages received from c.rx by recv *)
  enq : nat;                       (* history: number of responses received from tx by writeloop *)
  events : list label              (* hook / handler / wg events, newest first *)
}.

Definition ginit : ghost :=
  {| nextid := 0; reads := []; rslot := None; hslot := None; hresp := None; wslot := None; writes := [];
     handed := O; enq := O; events := [] |}.

Definition opt_list {A} (o : option A) : list A := match o with Some a => [a] | None => [] end.

(** the response entry the code produces for a message entry *)
Definition resp_entry (x : Z * msg) : Z * resp := (fst x, resp_of (snd x)).

(** [m]: the message that arrives, for the LRecv labels *)
Definition gupd (l : label) (m : msg) (g : ghost) : ghost :=
  match l with
  | LRecvReq | LRecvEnc | LRecvPlain =>
    {| nextid := nextid g + 1; reads := reads g ++ [(nextid g, m)]; rslot := Some (nextid g, m);
       hslot := hslot g; hresp := hresp g; wslot := wslot g; writes := writes g;
       handed := handed g; enq := enq g; events := events g |}
  | LRecvPlainFatal =>
    {| nextid := nextid g + 1; reads := reads g ++ [(nextid g, m)]; rslot := None;
       hslot := hslot g; hresp := hresp g; wslot := wslot g; writes := writes g;
       handed := handed g; enq := enq g; events := events g |}
  | LRDrop =>
    {| nextid := nextid g; reads := reads g; rslot := None;
       hslot := hslot g; hresp := hresp g; wslot := wslot g; writes := writes g;
       handed := handed g; enq := enq g; events := events g |}
  | LHandoff =>
    {| nextid := nextid g; reads := reads g; rslot := None;
       hslot := rslot g; hresp := hresp g; wslot := wslot g; writes := writes g;
       handed := S (handed g); enq := enq g; events := events g |}
  | LHEnd | LMkErrResp =>
    {| nextid := nextid g; reads := reads g; rslot := rslot g;
       hslot := None; hresp := option_map resp_entry (hslot g);
       wslot := wslot g; writes := writes g; handed := handed g; enq := enq g;
       events := match l with LHEnd => l :: events g | _ => events g end |}
  | LHDrop =>
    {| nextid := nextid g; reads := reads g; rslot := rslot g;
       hslot := None; hresp := None; wslot := wslot g; writes := writes g;
       handed := handed g; enq := enq g; events := events g |}
  | LEnqueue =>
    {| nextid := nextid g; reads := reads g; rslot := rslot g;
       hslot := hslot g; hresp := None; wslot := hresp g; writes := writes g;
       handed := handed g; enq := S (enq g); events := events g |}
  | LWriteOk =>
    {| nextid := nextid g; reads := reads g; rslot := rslot g;
       hslot := hslot g; hresp := hresp g; wslot := None; writes := writes g ++ opt_list (wslot g);
       handed := handed g; enq := enq g; events := events g |}
  | LWriteFail =>
    {| nextid := nextid g; reads := reads g; rslot := rslot g;
       hslot := hslot g; hresp := hresp g; wslot := None; writes := writes g;
       handed := handed g; enq := enq g; events := events g |}
  | LHStart | LHookOk | LHookFail | LTlsOk | LTlsFail | LTermHook | LWgDone | LShutdown | LRootCancel =>
    {| nextid := nextid g; reads := reads g; rslot := rslot g;
       hslot := hslot g; hresp := hresp g; wslot := wslot g; writes := writes g;
       handed := handed g; enq := enq g; events := l :: events g |}
  | _ => g
  end.

(** does the label carry an arriving message, and of which shape *)
Definition msg_fits (l : label) (m : msg) : bool :=
  match l, m with
  | LRecvReq, MReq _ => true
  | LRecvEnc, MEnc => true
  | (LRecvPlain | LRecvPlainFatal), MPlain => true
  | LRecvResp, MResp => true
  | _, _ => false
  end.
Definition is_recv (l : label) : bool :=
  match l with LRecvReq | LRecvEnc | LRecvPlain | LRecvPlainFatal | LRecvResp => true | _ => false end.

(** The ghost-augmented system over an alphabet [A] of messages the peer may send.
    Any finite execution uses finitely many messages, so quantifying over [A] covers all inputs. *)
Definition gstate := (cstate * ghost)%type.
Definition gstep (C : cfg) (A : list msg) (x : gstate) : list gstate :=
  flat_map (fun lc : label * cstate =>
    let (l, c') := lc in
    if is_recv l then map (fun m => (c', gupd l m (snd x))) (filter (msg_fits l) A)
    else [(c', gupd l MResp (snd x))]) (cstep_lbl C (fst x)).
Definition ginit_state (tls : bool) : gstate := (cinit tls, ginit).

(** * Abstraction of control states for the ghost layer

    Which local variables hold a message/response is a function of the program counters.
    [trans_ok] says, per label, how this shape may change; it is checked on every transition
    of every reachable control state (reflective certificate in the proofs file), and the
    ghost invariant is then proved per label, without looking at control states again. *)
Inductive hstage := HNone | HMsg | HResp.
Record absst := {
  a_rfull : option bool;   (* readloop holds a message; Some e: with resp.err != nil iff e *)
  a_hst : hstage;          (* handleConn holds nothing / a request or error / a response *)
  a_wfull : bool;          (* writeloop holds a response *)
  a_rdead : bool;          (* readloop will not read again *)
  a_hexit : bool;          (* handleConn has left (or is leaving) its loop *)
  a_wdead : bool;          (* writeloop will not receive from tx again *)
  a_herr : bool            (* handleConn took an encoding error from c.rx *)
}.

Definition abs (c : cstate) : absst := {|
  a_rfull := match rp c with R_Send e => Some e | _ => None end;
  a_hst := match hp c with
           | H_Invoke | H_Handling | H_ErrResp => HMsg
           | H_CtxChk | H_SendChk1 | H_SendChk2 | H_SendLoad | H_SendMk | H_SendSel => HResp
           | _ => HNone
           end;
  a_wfull := match wp c with W_Write => true | _ => false end;
  a_rdead := match rp c with R_TermSwap | R_Term _ | R_Exit | R_Done => true | _ => false end;
  a_hexit := match hp c with
             | H_SendCancel | H_TermSwap _ | H_Term _ _ | H_SendRet true | H_Break | H_DHook | H_DClose | H_WgDone | H_Done => true
             | _ => false
             end;
  a_wdead := match wp c with W_SendErr | W_CloseErr | W_TermSwap | W_Term _ | W_Done => true | _ => false end;
  a_herr := herr c |}.

Definition obool_eqb (a b : option bool) : bool :=
  match a, b with Some x, Some y => Bool.eqb x y | None, None => true | _, _ => false end.
Definition hstage_eqb (a b : hstage) : bool :=
  match a, b with HNone, HNone | HMsg, HMsg | HResp, HResp => true | _, _ => false end.
Definition is_none {A} (o : option A) : bool := match o with None => true | _ => false end.

(** flags never go back *)
Definition mono (a a' : absst) : bool :=
  implb (a_rdead a) (a_rdead a') && implb (a_hexit a) (a_hexit a') && implb (a_wdead a) (a_wdead a').
Definition same_r (a a' : absst) := obool_eqb (a_rfull a) (a_rfull a').
Definition same_h (a a' : absst) := hstage_eqb (a_hst a) (a_hst a') && Bool.eqb (a_herr a) (a_herr a').
Definition same_w (a a' : absst) := Bool.eqb (a_wfull a) (a_wfull a').

Definition trans_ok (l : label) (a a' : absst) : bool :=
  mono a a' &&
  match l with
  | LRecvReq =>
    is_none (a_rfull a) && negb (a_rdead a) && obool_eqb (a_rfull a') (Some false) && negb (a_rdead a') && same_h a a' && same_w a a'
  | LRecvEnc | LRecvPlain =>
    is_none (a_rfull a) && negb (a_rdead a) && obool_eqb (a_rfull a') (Some true) && negb (a_rdead a') && same_h a a' && same_w a a'
  | LRecvPlainFatal | LRecvFail =>
    is_none (a_rfull a) && negb (a_rdead a) && is_none (a_rfull a') && a_rdead a' && same_h a a' && same_w a a'
  | LRecvResp =>
    is_none (a_rfull a) && same_r a a' && same_h a a' && same_w a a'
  | LRDrop =>
    is_none (a_rfull a') && a_rdead a' && same_h a a' && same_w a a'
  | LHandoff =>
    negb (a_rdead a) && negb (a_hexit a) && negb (a_herr a) && hstage_eqb (a_hst a) HNone
    && match a_rfull a with Some e => Bool.eqb (a_herr a') e | None => false end
    && is_none (a_rfull a') && negb (a_rdead a') && hstage_eqb (a_hst a') HMsg && negb (a_hexit a') && same_w a a'
  | LHEnd | LMkErrResp =>
    hstage_eqb (a_hst a) HMsg && hstage_eqb (a_hst a') HResp && Bool.eqb (a_herr a) (a_herr a') && same_r a a' && same_w a a'
  | LHDrop =>
    hstage_eqb (a_hst a') HNone && a_hexit a' && Bool.eqb (a_herr a) (a_herr a') && same_r a a' && same_w a a'
  | LEnqueue =>
    hstage_eqb (a_hst a) HResp && negb (a_hexit a) && negb (a_wfull a) && negb (a_wdead a)
    && hstage_eqb (a_hst a') HNone && negb (a_hexit a') && a_wfull a' && negb (a_wdead a')
    && Bool.eqb (a_herr a) (a_herr a') && same_r a a'
  | LWriteOk =>
    a_wfull a && negb (a_wdead a) && negb (a_wfull a') && negb (a_wdead a') && same_r a a' && same_h a a'
  | LWriteFail =>
    a_wfull a && negb (a_wfull a') && a_wdead a' && same_r a a' && same_h a a'
  | _ => same_r a a' && same_h a a' && same_w a a'
  end.

(** * Scenario semantics (used by the correspondence check only)

    A scripted client drives one connection; the product of the script with [cstep_lbl]/[gupd]
    is explored exhaustively (all schedules) and the set of possible observations is compared
    with what the real server did under the Go scheduler.  The peer-controlled labels are
    synchronised with the script; everything else is free. *)
Inductive cact :=
| CSend (m : msg)   (* write one complete framed message *)
| CRead             (* read one response (or EOF) *)
| CClose | CHalf
| CShutdown         (* the harness calls srv.Shutdown() (its recvCancel) *)
| CTimer.           (* Shutdown's 3 s timer fires: srv.cancel() *)

Inductive obs := ORes (id : Z) (r : resp) | OEof | OBlocked.

Record scn := {
  s_tls : option bool;    (* None: plain connection; Some ok: TLS handshake outcome *)
  s_hook : bool;          (* connect hook succeeds *)
  s_sync : bool;          (* tiny server->client buffer: a write completes only when the client reads *)
  s_script : list cact
}.

Record pstate := {
  p_c : cstate; p_g : ghost;
  p_inq : list msg;            (* written by the client, not yet returned by stream.Recv *)
  p_outq : list (Z * resp);    (* written by the server, not yet read by the client *)
  p_got : list obs;            (* client observations, newest first *)
  p_script : list cact
}.

Definition pinit (sc : scn) : pstate :=
  {| p_c := cinit (match s_tls sc with Some _ => true | None => false end); p_g := ginit;
     p_inq := []; p_outq := []; p_got := []; p_script := s_script sc |}.

Definition is_nil {A} (l : list A) : bool := match l with [] => true | _ => false end.
Definition peer_open (c : cstate) : bool := match peer c with POpen => true | _ => false end.
Definition peer_gone (c : cstate) : bool := match peer c with PClosed => true | _ => false end.
Definition h_done (c : cstate) : bool := match hp c with H_Done => true | _ => false end.

Definition srv_moves (C : cfg) (sc : scn) (p : pstate) : list pstate :=
  let c := p_c p in let g := p_g p in
  flat_map (fun lc : label * cstate =>
    let (l, c') := lc in
    let plain := {| p_c := c'; p_g := gupd l MResp g; p_inq := p_inq p; p_outq := p_outq p; p_got := p_got p; p_script := p_script p |} in
    match l with
    | LRecvReq | LRecvEnc | LRecvPlain | LRecvPlainFatal | LRecvResp =>
      match p_inq p with
      | m :: rest =>
        if msg_fits l m then [{| p_c := c'; p_g := gupd l m g; p_inq := rest; p_outq := p_outq p; p_got := p_got p; p_script := p_script p |}] else []
      | [] => []
      end
    | LRecvFail => if lclosed c || (is_nil (p_inq p) && negb (peer_open c)) then [plain] else []
    | LWriteOk =>
      if s_sync sc then
        match p_script p, wslot g with
        | CRead :: rest, Some w =>
          [{| p_c := c'; p_g := gupd l MResp g; p_inq := p_inq p; p_outq := p_outq p; p_got := ORes (fst w) (snd w) :: p_got p; p_script := rest |}]
        | _, _ => []
        end
      else [{| p_c := c'; p_g := gupd l MResp g; p_inq := p_inq p; p_outq := p_outq p ++ opt_list (wslot g); p_got := p_got p; p_script := p_script p |}]
    | LWriteFail => if lclosed c || peer_gone c then [plain] else []
    | LPeerClose | LPeerHalf | LShutdown => []
    | LRootCancel => if rctx c && h_done c then [plain] else []
    | LTlsOk => match s_tls sc with Some true => [plain] | _ => [] end
    | LTlsFail => match s_tls sc with Some false => [plain] | _ => [] end
    | LHookOk => if s_hook sc then [plain] else []
    | LHookFail => if s_hook sc then [] else [plain]
    | _ => [plain]
    end) (cstep_lbl C c).

Definition cli_moves (sc : scn) (p : pstate) : list pstate :=
  let c := p_c p in let g := p_g p in
  match p_script p with
  | [] => []
  | CSend m :: rest =>
    if peer_open c then [{| p_c := c; p_g := g; p_inq := p_inq p ++ [m]; p_outq := p_outq p; p_got := p_got p; p_script := rest |}] else []
  | CRead :: rest =>
    match p_outq p with
    | r :: q => [{| p_c := c; p_g := g; p_inq := p_inq p; p_outq := q; p_got := ORes (fst r) (snd r) :: p_got p; p_script := rest |}]
    | [] => if lclosed c then [{| p_c := c; p_g := g; p_inq := p_inq p; p_outq := []; p_got := OEof :: p_got p; p_script := rest |}] else []
    end
  | CClose :: rest =>
    if panicked c then [] else
    [{| p_c := set_peer PClosed c; p_g := g; p_inq := p_inq p; p_outq := []; p_got := p_got p; p_script := rest |}]
  | CHalf :: rest =>
    if panicked c then [] else
    [{| p_c := (match peer c with POpen => set_peer PHalf c | _ => c end); p_g := g; p_inq := p_inq p; p_outq := p_outq p; p_got := p_got p; p_script := rest |}]
  | CShutdown :: rest =>
    if panicked c then [] else
    {| p_c := set_rctx true c; p_g := gupd LShutdown MResp g; p_inq := p_inq p; p_outq := p_outq p; p_got := p_got p; p_script := rest |}
    :: (* Serve has accepted the connection but not yet registered it: it is refused (closed, handleConn never runs) *)
       (match hp c with
        | H_Tls | H_NewConn =>
          [{| p_c := set_lclosed true (set_hp H_Done (set_rctx true c)); p_g := gupd LShutdown MResp g;
              p_inq := p_inq p; p_outq := p_outq p; p_got := p_got p; p_script := rest |}]
        | _ => []
        end)
  | CTimer :: rest =>
    if panicked c then [] else
    [{| p_c := set_root true c; p_g := gupd LRootCancel MResp g; p_inq := p_inq p; p_outq := p_outq p; p_got := p_got p; p_script := rest |}]
  end.

Definition pstep (C : cfg) (sc : scn) (p : pstate) : list pstate :=
  match srv_moves C sc p ++ cli_moves sc p with
  | [] =>
    (* nothing can move: a pending read times out *)
    match p_script p with
    | CRead :: rest =>
      if panicked (p_c p) then [] else
      (* the scripted client then gives up and closes *)
      [{| p_c := p_c p; p_g := p_g p; p_inq := p_inq p; p_outq := p_outq p; p_got := OBlocked :: p_got p; p_script := [CClose] |}]
    | _ => []
    end
  | l => l
  end.

(** encoding of product states for the (untrusted) exploration *)
Definition enc_z (z : Z) : positive := Z.to_pos (z + 3).
Definition enc_oid {A} (o : option (Z * A)) : positive := match o with Some x => enc_z (fst x) | None => 1%positive end.
Fixpoint enc_plist (l : list positive) : positive :=
  match l with [] => 1%positive | x :: t => ppair x (enc_plist t) end.
Definition enc_obs (o : obs) : positive :=
  match o with ORes id _ => enc_z id | OEof => 1%positive | OBlocked => 2%positive end.
Definition enc_pstate (p : pstate) : positive :=
  ppair (enc_cstate (p_c p))
  (ppair (Pos.of_succ_nat (length (p_script p)))
  (ppair (Pos.of_succ_nat (length (p_inq p)))
  (ppair (enc_plist [enc_oid (rslot (p_g p)); enc_oid (hslot (p_g p)); enc_oid (hresp (p_g p)); enc_oid (wslot (p_g p))])
  (ppair (enc_plist (map (fun x => enc_z (fst x)) (p_outq p)))
         (enc_plist (map enc_obs (p_got p))))))).

Record outcome := { o_got : list obs; o_panic : bool; o_leak : bool; o_hooks : list label }.

(** hook / wg events of the connection, oldest first *)
Definition hook_events (g : ghost) : list label :=
  rev (filter (fun l => match l with LHookOk | LHookFail | LTermHook | LHStart | LHEnd => true | _ => false end) (events g)).

Definition outcome_of (p : pstate) : outcome :=
  {| o_got := rev (p_got p); o_panic := panicked (p_c p);
     o_leak := negb (panicked (p_c p)) && negb (all_done (p_c p));
     o_hooks := hook_events (p_g p) |}.

(** all observations the model allows for a scenario (exhaustive exploration of the product) *)
Definition outcomes (C : cfg) (sc : scn) (fuel : nat) : list outcome * bool :=
  let r := reach_set (pstep C sc) enc_pstate fuel (pinit sc) in
  (map outcome_of (filter (fun p => is_nil (pstep C sc p)) (fst r)), snd r).

Definition item_res_eqb (a b : item_res) : bool :=
  match a, b with
  | ISuccess, ISuccess => true
  | IFailed x, IFailed y => Z.eqb x y
  | _, _ => false
  end.
Fixpoint list_eqb' {A} (eqb : A -> A -> bool) (a b : list A) : bool :=
  match a, b with
  | [], [] => true
  | x :: xs, y :: ys => eqb x y && list_eqb' eqb xs ys
  | _, _ => false
  end.
Definition resp_eqb (a b : resp) : bool :=
  match a, b with
  | RItems x, RItems y => list_eqb' item_res_eqb x y
  | RInvalid, RInvalid => true
  | _, _ => false
  end.
(** the invalid-message response carries no identifier: compared by position only *)
Definition obs_eqb (a b : obs) : bool :=
  match a, b with
  | ORes i x, ORes j y => resp_eqb x y && (match x with RInvalid => true | _ => Z.eqb i j end)
  | OEof, OEof => true
  | OBlocked, OBlocked => true
  | _, _ => false
  end.
Definition hook_label_eqb (a b : label) : bool :=
  match a, b with
  | LHookOk, LHookOk | LHookFail, LHookFail | LTermHook, LTermHook | LHStart, LHStart | LHEnd, LHEnd => true
  | _, _ => false
  end.
Definition outcome_eqb (a b : outcome) : bool :=
  list_eqb' obs_eqb (o_got a) (o_got b) && Bool.eqb (o_panic a) (o_panic b) && Bool.eqb (o_leak a) (o_leak b)
  && list_eqb' hook_label_eqb (o_hooks a) (o_hooks b).

(** one row of the correspondence table: the scenario and what the real server did
    ([None]: the process died) *)
Definition scn_row_ok (C : cfg) (fuel : nat) (r : scn * option outcome) : bool :=
  let (sc, o) := r in
  let (outs, complete) := outcomes C sc fuel in
  complete && match o with
              | None => existsb o_panic outs
              | Some o => existsb (outcome_eqb o) outs
              end.

(** * Monitor for the pairing of connection hooks and handler invocations (C16)

    [trace_ok t] reads the hook / handler / wg events of one connection (oldest first) and
    rejects: a second connect-hook outcome; a handler invocation or the terminate hook without a
    successful connect hook, after the terminate hook, after wg.Done, or while a handler runs;
    a handler end without a start; a second terminate hook; wg.Done while a handler runs, a
    second wg.Done, or wg.Done after a successful connect hook without the terminate hook. *)
Inductive hookst := HkNone | HkOk | HkFail | HkTlsFail.
Record mon := { m_hook : hookst; m_term : bool; m_inh : bool; m_wg : bool; m_bad : bool }.
Definition mon0 : mon := {| m_hook := HkNone; m_term := false; m_inh := false; m_wg := false; m_bad := false |}.
Definition hook_is_ok (h : hookst) : bool := match h with HkOk => true | _ => false end.
Definition hook_is_none (h : hookst) : bool := match h with HkNone => true | _ => false end.

Definition mon_upd (l : label) (q : mon) : mon :=
  match l with
  | LTlsFail =>
    {| m_hook := HkTlsFail; m_term := m_term q; m_inh := m_inh q; m_wg := m_wg q;
       m_bad := m_bad q || negb (hook_is_none (m_hook q)) |}
  | LHookOk =>
    {| m_hook := HkOk; m_term := m_term q; m_inh := m_inh q; m_wg := m_wg q;
       m_bad := m_bad q || negb (hook_is_none (m_hook q)) || m_term q || m_wg q |}
  | LHookFail =>
    {| m_hook := HkFail; m_term := m_term q; m_inh := m_inh q; m_wg := m_wg q;
       m_bad := m_bad q || negb (hook_is_none (m_hook q)) || m_term q || m_wg q |}
  | LHStart =>
    {| m_hook := m_hook q; m_term := m_term q; m_inh := true; m_wg := m_wg q;
       m_bad := m_bad q || negb (hook_is_ok (m_hook q)) || m_term q || m_inh q || m_wg q |}
  | LHEnd =>
    {| m_hook := m_hook q; m_term := m_term q; m_inh := false; m_wg := m_wg q;
       m_bad := m_bad q || negb (m_inh q) |}
  | LTermHook =>
    {| m_hook := m_hook q; m_term := true; m_inh := m_inh q; m_wg := m_wg q;
       m_bad := m_bad q || negb (hook_is_ok (m_hook q)) || m_term q || m_inh q || m_wg q |}
  | LWgDone =>
    {| m_hook := m_hook q; m_term := m_term q; m_inh := m_inh q; m_wg := true;
       m_bad := m_bad q || m_wg q || m_inh q || (hook_is_ok (m_hook q) && negb (m_term q)) |}
  | _ => q
  end.

(** events newest first (as the ghost records them) *)
Definition mon_of (ev : list label) : mon := fold_right mon_upd mon0 ev.
(** trace oldest first *)
Definition trace_ok (t : list label) : bool := negb (m_bad (mon_of (rev t))).

(** product of the control skeleton with the monitor *)
Definition mstate := (cstate * mon)%type.
Definition mstep (C : cfg) (x : mstate) : list mstate :=
  map (fun lc : label * cstate => (snd lc, mon_upd (fst lc) (snd x))) (cstep_lbl C (fst x)).
Definition enc_hookst (h : hookst) : positive := match h with HkNone => 1 | HkOk => 2 | HkFail => 3 | HkTlsFail => 4 end%positive.
Definition enc_mon (q : mon) : positive :=
  ppair (enc_hookst (m_hook q)) (ppair (enc_bool (m_term q)) (ppair (enc_bool (m_inh q)) (ppair (enc_bool (m_wg q)) (enc_bool (m_bad q))))).
Definition enc_mstate (x : mstate) : positive := ppair (enc_cstate (fst x)) (enc_mon (snd x)).
