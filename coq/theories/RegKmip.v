(** The registry of the library under check (gen/Registry.v, regenerated from the live maps on
    every check) as a [registry]; the checker evaluated on it; equality with the pinned snapshot. *)
From Coq Require Import ZArith List Bool String.
From KV Require Import Base RegModel RegModelProofs PinnedRegistry.
From KVGen Require Registry.
Import ListNotations.
Open Scope Z_scope.

Definition kmip_registry : registry :=
  mk_registry Registry.tag_names Registry.tag_by_name Registry.enum_names Registry.enums_by_name
              Registry.bitmask_names Registry.bitmask_by_name Registry.type_names Registry.name_types.

Definition pinned_registry : registry :=
  mk_registry pinned_tag_names pinned_tag_by_name pinned_enum_names pinned_enums_by_name
              pinned_bitmask_names pinned_bitmask_by_name pinned_type_names pinned_name_types.

(** the reflective step: the checker computes to [true] on the generated term *)
Lemma kmip_registry_ok : registry_ok kmip_registry = true.
Proof. vm_compute. reflexivity. Qed.

(** numbers and names are those of the pinned KMIP 1.0 - 1.4 snapshot, table by table *)
Lemma kmip_tables_pinned :
  Registry.tag_names = pinned_tag_names /\ Registry.tag_by_name = pinned_tag_by_name /\
  Registry.enum_names = pinned_enum_names /\ Registry.enums_by_name = pinned_enums_by_name /\
  Registry.bitmask_names = pinned_bitmask_names /\ Registry.bitmask_by_name = pinned_bitmask_by_name /\
  Registry.type_names = pinned_type_names /\ Registry.name_types = pinned_name_types.
Proof. repeat split; vm_compute; reflexivity. Qed.

Lemma kmip_registry_pinned : kmip_registry = pinned_registry.
Proof.
  unfold kmip_registry, pinned_registry.
  destruct kmip_tables_pinned as [-> [-> [-> [-> [-> [-> [-> ->]]]]]]]. reflexivity.
Qed.

(** size of the quantifier (as the property text states it) *)
Lemma kmip_registry_size :
  List.length (tagNames kmip_registry) = 292%nat /\ List.length (enumNames kmip_registry) = 48%nat /\
  List.length (bitmaskNames kmip_registry) = 2%nat /\
  List.length (flat_map (fun p => snd p) (enumNames kmip_registry)) = 601%nat /\
  List.length (flat_map (fun p => snd p) (bitmaskNames kmip_registry)) = 22%nat.
Proof. repeat split; vm_compute; reflexivity. Qed.

(** the combined round-trip statement instantiated at the library's registry *)
Lemma kmip_text_rt :
  (forall n, 0 <= n < 2 ^ 31 ->
     read_tag kmip_registry (xml_raw_tag (xml_start kmip_registry n)) = n /\
     read_tag kmip_registry (TagString kmip_registry n) = n) /\
  (forall et t v, 0 <= v < 2 ^ 32 ->
     read_enum kmip_registry et t (write_enum kmip_registry et t v) = Ok v /\
     read_enum_json kmip_registry et t (JStr (write_enum kmip_registry et t v)) = Ok v /\
     unmarshal_text kmip_registry t (marshal_text kmip_registry t v) = Ok v) /\
  (forall bt t v, - 2 ^ 31 <= v < 2 ^ 31 ->
     read_mask_xml kmip_registry bt t (write_mask_xml kmip_registry bt t v) = Ok v /\
     read_mask_json kmip_registry bt t (JStr (write_mask_json kmip_registry bt t v)) = Ok v /\
     mask_unmarshal_text kmip_registry t (write_mask_text kmip_registry t v) = Ok v).
Proof.
  pose proof kmip_registry_ok as K. split; [|split].
  - intros n H. apply tag_text_rt; assumption.
  - intros et t v H. split; [|split].
    + apply enum_text_rt; assumption.
    + apply enum_json_rt; assumption.
    + apply enum_marshal_rt; assumption.
  - intros bt t v H. split; [|split].
    + apply mask_xml_rt; assumption.
    + apply mask_json_rt; assumption.
    + apply mask_text_rt; assumption.
Qed.

Local Open Scope string_scope.

(** concrete instances (non-vacuity; also what the repaired readers must accept) *)
Lemma kmip_examples :
  write_enum kmip_registry 0 4325416 3 = s2b "AES" /\
  read_enum kmip_registry 0 4325416 (s2b "AES") = Ok 3 /\
  write_enum kmip_registry 0 4325416 4096 = s2b "0x00001000" /\
  read_enum kmip_registry 0 4325416 (s2b "0x00001000") = Ok 4096 /\
  xml_start kmip_registry 4325377 = (s2b "ActivationDate", None) /\
  xml_start kmip_registry 5505025 = (s2b "TTLV", Some (s2b "0x540001")) /\
  write_mask_xml kmip_registry 0 4325420 (-2147483643) = s2b "Sign Encrypt 0x80000000" /\
  read_mask_xml kmip_registry 0 4325420 (s2b "Sign Encrypt 0x80000000") = Ok (-2147483643) /\
  write_mask_json kmip_registry 0 4325420 0 = [] /\
  read_mask_json kmip_registry 0 4325420 (JStr []) = Ok 0 /\
  write_mask_text kmip_registry 4325420 12 = s2b "Encrypt | Decrypt" /\
  mask_unmarshal_text kmip_registry 4325420 (s2b "Encrypt | Decrypt") = Ok 12.
Proof. repeat split; vm_compute; reflexivity. Qed.

(** why the hex flags must be parsed unsigned (the defect repaired in the readers):
    ParseInt(.., 16, 32) rejects bit 31, ParseUint(.., 16, 32) accepts it *)
Lemma bit31_needs_unsigned :
  parse_int 16 32 (s2b "80000000") = None /\ parse_uint 16 32 (s2b "80000000") = Some (2 ^ 31) /\
  to_i32 (2 ^ 31) = shl32 31.
Proof. repeat split; vm_compute; reflexivity. Qed.

(** the hygiene conditions are not decoration: a registry whose forward and reverse maps are
    mutually inverse but which names the value 7 of enumeration 1 "12" is rejected by the checker,
    and indeed 7 is written "12" and read back as the number 12 *)
Definition numeric_name_registry : registry :=
  mk_registry [] [] [(1, [(7, "12")])] [(1, [("12", 7)])] [] [] [] [].

Lemma hygiene_is_needed :
  registry_ok numeric_name_registry = false /\
  bij_check [(7, s2b "12")] [(s2b "12", 7)] = true /\
  read_enum numeric_name_registry 0 1 (write_enum numeric_name_registry 0 1 7) = Ok 12.
Proof. repeat split; vm_compute; reflexivity. Qed.
