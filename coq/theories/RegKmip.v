(** The registry of the library under check (gen/Registry.v) as a [registry], and the
    checked facts about it. *)
From Coq Require Import ZArith List Bool String.
From KV Require Import Base RegModel RegModelProofs PinnedRegistry.
From KVGen Require Registry.
Import ListNotations.
Open Scope Z_scope.

Definition kmip_registry : registry :=
  mk_registry Registry.tag_names Registry.tag_by_name Registry.enum_names Registry.enums_by_name
              Registry.bitmask_names Registry.bitmask_by_name Registry.type_names Registry.name_types.

Definition pinned_registry : registry :=
  mk_registry pinned_tag_names pinned_tag_by_name pinned_enum_names pinned_enums_by_name
              pinned_bitmask_names pinned_bitmask_by_name pinned_type_names pinned_name_types.

Lemma kmip_registry_ok : registry_ok kmip_registry = true.
Proof. vm_compute. reflexivity. Qed.
