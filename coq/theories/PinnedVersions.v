(** Pinned table of version-gated elements (struct, field, range): the KMIP version that
    introduced each element, as reviewed for the pinned tree.  Trusted data (C05 oracle). *)
From Coq Require Import ZArith List String.
From KV Require Import Schema.
Import ListNotations.
Open Scope Z_scope.
Open Scope string_scope.

Definition pinned_versions : list (string * string * (option ver * option ver)) :=
  [("kmip.Authentication", "AdditionalCredential", ((Some (1, 2)), None));
   ("kmip.CapabilityInformation", "BatchUndoCapability", ((Some (1, 4)), None));
   ("kmip.CapabilityInformation", "BatchContinueCapability", ((Some (1, 4)), None));
   ("kmip.CryptographicParameters", "DigitalSignatureAlgorithm", ((Some (1, 2)), None));
   ("kmip.CryptographicParameters", "CryptographicAlgorithm", ((Some (1, 2)), None));
   ("kmip.CryptographicParameters", "RandomIV", ((Some (1, 2)), None));
   ("kmip.CryptographicParameters", "IVLength", ((Some (1, 2)), None));
   ("kmip.CryptographicParameters", "TagLength", ((Some (1, 2)), None));
   ("kmip.CryptographicParameters", "FixedFieldLength", ((Some (1, 2)), None));
   ("kmip.CryptographicParameters", "InvocationFieldLength", ((Some (1, 2)), None));
   ("kmip.CryptographicParameters", "CounterLength", ((Some (1, 2)), None));
   ("kmip.CryptographicParameters", "InitialCounterValue", ((Some (1, 2)), None));
   ("kmip.CryptographicParameters", "SaltLength", ((Some (1, 4)), None));
   ("kmip.CryptographicParameters", "MaskGenerator", ((Some (1, 4)), None));
   ("kmip.CryptographicParameters", "MaskGeneratorHashingAlgorithm", ((Some (1, 4)), None));
   ("kmip.CryptographicParameters", "PSource", ((Some (1, 4)), None));
   ("kmip.CryptographicParameters", "TrailerField", ((Some (1, 4)), None));
   ("kmip.Digest", "KeyFormatType", ((Some (1, 1)), None));
   ("kmip.KeyWrappingData", "EncodingOption", ((Some (1, 1)), None));
   ("kmip.KeyWrappingSpecification", "EncodingOption", ((Some (1, 1)), None));
   ("kmip.RequestHeader", "ClientCorrelationValue", ((Some (1, 4)), None));
   ("kmip.RequestHeader", "ServerCorrelationValue", ((Some (1, 4)), None));
   ("kmip.RequestHeader", "AttestationCapableIndicator", ((Some (1, 2)), None));
   ("kmip.RequestHeader", "AttestationType", ((Some (1, 2)), None));
   ("kmip.ResponseHeader", "Nonce", ((Some (1, 2)), None));
   ("kmip.ResponseHeader", "AttestationType", ((Some (1, 2)), None));
   ("kmip.ResponseHeader", "ClientCorrelationValue", ((Some (1, 4)), None));
   ("kmip.ResponseHeader", "ServerCorrelationValue", ((Some (1, 4)), None));
   ("payloads.DecryptRequestPayload", "CorrelationValue", ((Some (1, 3)), None));
   ("payloads.DecryptRequestPayload", "InitIndicator", ((Some (1, 3)), None));
   ("payloads.DecryptRequestPayload", "FinalIndicator", ((Some (1, 3)), None));
   ("payloads.DecryptRequestPayload", "AuthenticatedEncryptionAdditionalData", ((Some (1, 4)), None));
   ("payloads.DecryptRequestPayload", "AuthenticatedEncryptionTag", ((Some (1, 4)), None));
   ("payloads.DecryptResponsePayload", "CorrelationValue", ((Some (1, 3)), None));
   ("payloads.EncryptRequestPayload", "CorrelationValue", ((Some (1, 3)), None));
   ("payloads.EncryptRequestPayload", "InitIndicator", ((Some (1, 3)), None));
   ("payloads.EncryptRequestPayload", "FinalIndicator", ((Some (1, 3)), None));
   ("payloads.EncryptRequestPayload", "AuthenticatedEncryptionAdditionalData", ((Some (1, 4)), None));
   ("payloads.EncryptResponsePayload", "CorrelationValue", ((Some (1, 3)), None));
   ("payloads.EncryptResponsePayload", "AuthenticatedEncryptionTag", ((Some (1, 4)), None));
   ("payloads.GetRequestPayload", "KeyWrapType", ((Some (1, 4)), None));
   ("payloads.LocateRequestPayload", "OffsetItems", ((Some (1, 3)), None));
   ("payloads.LocateRequestPayload", "ObjectGroupMember", ((Some (1, 1)), None));
   ("payloads.LocateResponsePayload", "LocatedItems", ((Some (1, 3)), None));
   ("payloads.QueryResponsePayload", "ExtensionInformation", ((Some (1, 1)), None));
   ("payloads.QueryResponsePayload", "AttestationType", ((Some (1, 2)), None));
   ("payloads.QueryResponsePayload", "RNGParameters", ((Some (1, 3)), None));
   ("payloads.QueryResponsePayload", "ProfileInformation", ((Some (1, 3)), None));
   ("payloads.QueryResponsePayload", "ValidationInformation", ((Some (1, 3)), None));
   ("payloads.QueryResponsePayload", "CapabilityInformation", ((Some (1, 3)), None));
   ("payloads.QueryResponsePayload", "ClientRegistrationMethod", ((Some (1, 3)), None));
   ("payloads.SignRequestPayload", "DigestedData", ((Some (1, 4)), None));
   ("payloads.SignRequestPayload", "CorrelationValue", ((Some (1, 3)), None));
   ("payloads.SignRequestPayload", "InitIndicator", ((Some (1, 3)), None));
   ("payloads.SignRequestPayload", "FinalIndicator", ((Some (1, 3)), None));
   ("payloads.SignResponsePayload", "CorrelationValue", ((Some (1, 3)), None));
   ("payloads.SignatureVerifyRequestPayload", "DigestedData", ((Some (1, 4)), None));
   ("payloads.SignatureVerifyRequestPayload", "CorrelationValue", ((Some (1, 3)), None));
   ("payloads.SignatureVerifyRequestPayload", "InitIndicator", ((Some (1, 3)), None));
   ("payloads.SignatureVerifyRequestPayload", "FinalIndicator", ((Some (1, 3)), None));
   ("payloads.SignatureVerifyResponsePayload", "CorrelationValue", ((Some (1, 3)), None))].

Definition pinned_setver : list (string * string) :=
  [("kmip.RequestHeader", "ProtocolVersion"); ("kmip.ResponseHeader", "ProtocolVersion")].
