(** Proofs about the stream-framing model (Stream.v). *)
From Coq Require Import ZArith List Bool Lia.
From KV Require Import Base BaseProofs Stream.
Import ListNotations.
Open Scope Z_scope.

(* ------------------------------------------------------------------ lists with Z indices *)

Lemma st_len_nonneg {A} (l : list A) : 0 <= len l.
Proof. unfold len. lia. Qed.

Lemma st_len_app {A} (a b : list A) : len (a ++ b) = len a + len b.
Proof. unfold len. rewrite app_length. lia. Qed.

Lemma st_len_nil {A} : len (@nil A) = 0.
Proof. reflexivity. Qed.

Lemma st_len_zero {A} (l : list A) : len l = 0 -> l = [].
Proof. unfold len. destruct l; cbn [length]; [reflexivity | lia]. Qed.

Lemma st_len_take {A} (n : Z) (l : list A) : len (take n l) = Z.max 0 (Z.min n (len l)).
Proof. unfold len, take. rewrite firstn_length. lia. Qed.

Lemma st_len_drop {A} (n : Z) (l : list A) : len (drop n l) = len l - Z.max 0 (Z.min n (len l)).
Proof. unfold len, drop. rewrite skipn_length. lia. Qed.

Lemma st_take_drop {A} (n : Z) (l : list A) : take n l ++ drop n l = l.
Proof. unfold take, drop. apply firstn_skipn. Qed.

Lemma st_take_all {A} (n : Z) (l : list A) : len l <= n -> take n l = l.
Proof. unfold len, take. intros H. apply firstn_all2. lia. Qed.

Lemma st_take_app_exact {A} (a b : list A) : take (len a) (a ++ b) = a.
Proof.
  unfold take, len. rewrite Nat2Z.id. rewrite firstn_app. rewrite Nat.sub_diag. cbn [firstn].
  rewrite firstn_all. apply app_nil_r.
Qed.

Lemma st_drop_app_exact {A} (a b : list A) : drop (len a) (a ++ b) = b.
Proof.
  unfold drop, len. rewrite Nat2Z.id. rewrite skipn_app. rewrite Nat.sub_diag. cbn [skipn].
  rewrite skipn_all. reflexivity.
Qed.

Lemma st_take_app_le {A} (n : Z) (a b : list A) : n <= len a -> take n (a ++ b) = take n a.
Proof.
  unfold take, len. intros H. rewrite firstn_app.
  replace (Z.to_nat n - length a)%nat with 0%nat by lia. cbn [firstn]. apply app_nil_r.
Qed.

Lemma st_take_0 {A} (l : list A) : take 0 l = [].
Proof. reflexivity. Qed.

Lemma st_drop_0 {A} (l : list A) : drop 0 l = l.
Proof. reflexivity. Qed.

(** splitting at a position inside the first part *)
Lemma st_app_split {A} (n : Z) (l : list A) : 0 <= n <= len l -> exists a b, l = a ++ b /\ len a = n.
Proof.
  intros H. exists (take n l), (drop n l). split; [symmetry; apply st_take_drop|].
  rewrite st_len_take. lia.
Qed.

(* ------------------------------------------------------------------ integers *)

Lemma wrap_small W v : 0 < W -> - 2 ^ (W - 1) <= v < 2 ^ (W - 1) -> wrap W v = v.
Proof.
  intros HW Hv. unfold wrap.
  assert (Hp : 2 ^ W = 2 * 2 ^ (W - 1)).
  { replace W with (Z.succ (W - 1)) at 1 by lia. rewrite Z.pow_succ_r by lia. reflexivity. }
  assert (Hpos : 0 < 2 ^ (W - 1)) by (apply Z.pow_pos_nonneg; lia).
  destruct (Z_lt_le_dec v 0) as [Hneg|Hnn].
  - replace (v mod 2 ^ W) with (v + 2 ^ W).
    + destruct (Z.ltb_spec (v + 2 ^ W) (2 ^ (W - 1))); lia.
    + rewrite <- (Z.mod_small (v + 2 ^ W) (2 ^ W)) at 1 by lia.
      replace (v + 2 ^ W) with (v + 1 * 2 ^ W) by lia. apply Z.mod_add. lia.
  - rewrite Z.mod_small by lia. destruct (Z.ltb_spec v (2 ^ (W - 1))); lia.
Qed.

Lemma pad8_range l : 0 <= pad8 l < 8.
Proof. unfold pad8. apply Z.mod_pos_bound. lia. Qed.

Lemma pad_for_len8_nonneg l : 0 <= l -> pad_for_len8 l = pad8 l.
Proof.
  intros H. unfold pad_for_len8, pad8.
  rewrite (Z.rem_mod_nonneg l 8) by lia.
  pose proof (Z.mod_pos_bound l 8 ltac:(lia)).
  rewrite Z.rem_mod_nonneg by lia. reflexivity.
Qed.

Lemma padded_mult8 l : (l + pad8 l) mod 8 = 0.
Proof.
  unfold pad8. pose proof (Z.mod_pos_bound l 8 ltac:(lia)) as Hb.
  destruct (Z.eq_dec (l mod 8) 0) as [E|E].
  - rewrite E. change ((8 - 0) mod 8) with 0. rewrite Z.add_0_r. exact E.
  - rewrite (Z.mod_small (8 - l mod 8) 8) by lia.
    rewrite (Z.div_mod l 8) at 1 by lia.
    replace (8 * (l / 8) + l mod 8 + (8 - l mod 8)) with ((l / 8 + 1) * 8) by lia.
    apply Z.mod_mul. lia.
Qed.

Lemma unbe_be4 l : 0 <= l < 2 ^ 32 -> unbe (be 4 l) = l.
Proof. intros H. apply BaseProofs.unbe_be_id. change (256 ^ Z.of_nat 4) with (2 ^ 32). exact H. Qed.

Lemma be4_length l : length (be 4 l) = 4%nat.
Proof. reflexivity. Qed.

(** what [computeNeededBytes] makes of an announced length [l] *)
Definition hdr_need (W l : Z) : Z := if l >? max_int W - 16 then -1 else 8 + l + pad8 l.

(** [computeNeededBytes] on anything that starts with a header announcing length [l] *)
Lemma needed_bytes_header W tag ty l x :
  0 < W -> length tag = 3%nat -> 0 <= l < 2 ^ 32 ->
  needed_bytes W (tag ++ [ty] ++ be 4 l ++ x) = hdr_need W l.
Proof.
  intros HW Ht Hl. unfold needed_bytes, hdr_need, rd_padded_len, rd_len.
  destruct tag as [|t0 [|t1 [|t2 [|? ?]]]]; try discriminate Ht.
  set (b := be 4 l).
  assert (Hb : exists b0 b1 b2 b3, b = [b0; b1; b2; b3]) by (unfold b, be; cbn [be_go]; eauto).
  destruct Hb as (b0 & b1 & b2 & b3 & Hb).
  assert (Hu : unbe [b0; b1; b2; b3] = l) by (rewrite <- Hb; apply unbe_be4; exact Hl).
  rewrite Hb. cbn [app].
  assert (Hlen : len (t0 :: t1 :: t2 :: ty :: b0 :: b1 :: b2 :: b3 :: x) = 8 + len x).
  { unfold len. cbn [length]. lia. }
  rewrite Hlen. pose proof (st_len_nonneg x) as Hx.
  destruct (Z.ltb_spec (8 + len x) 8) as [?|_]; [lia|].
  destruct (Z.eqb_spec (8 + len x) 0) as [?|_]; [lia|].
  change (take 4 (drop 4 (t0 :: t1 :: t2 :: ty :: b0 :: b1 :: b2 :: b3 :: x))) with [b0; b1; b2; b3].
  rewrite Hu.
  destruct (Z.gtb_spec l (max_int W - 16)) as [Hbig|Hfit]; [reflexivity|].
  unfold max_int in Hfit.
  pose proof (pad8_range l) as Hp.
  assert (Hpos : 0 < 2 ^ (W - 1)) by (apply Z.pow_pos_nonneg; lia).
  rewrite (wrap_small W l) by lia.
  rewrite pad_for_len8_nonneg by lia.
  rewrite (wrap_small W (l + pad8 l)) by lia.
  rewrite wrap_small by lia. lia.
Qed.

Lemma needed_bytes_short W buf : len buf < 8 -> needed_bytes W buf = 8.
Proof. intros H. unfold needed_bytes. destruct (Z.ltb_spec (len buf) 8); [reflexivity | lia]. Qed.

(** [computeNeededBytes] only looks at the first 8 bytes *)
Lemma needed_bytes_prefix W buf x : 8 <= len buf -> needed_bytes W (buf ++ x) = needed_bytes W buf.
Proof.
  intros H. unfold needed_bytes, rd_padded_len, rd_len.
  rewrite st_len_app. pose proof (st_len_nonneg x) as Hx.
  destruct (Z.ltb_spec (len buf + len x) 8) as [?|_]; [lia|].
  destruct (Z.ltb_spec (len buf) 8) as [?|_]; [lia|].
  destruct (Z.eqb_spec (len buf + len x) 0) as [?|_]; [lia|].
  destruct (Z.eqb_spec (len buf) 0) as [?|_]; [lia|].
  assert (E : take 4 (drop 4 (buf ++ x)) = take 4 (drop 4 buf)).
  { unfold take, drop, len in *. rewrite skipn_app. rewrite firstn_app.
    rewrite skipn_length.
    replace (Z.to_nat 4 - (length buf - Z.to_nat 4))%nat with 0%nat by lia.
    cbn [firstn]. apply app_nil_r. }
  rewrite E. reflexivity.
Qed.

(* ------------------------------------------------------------------ the transport *)

Lemma clip_range k want avail : 0 <= clip k want avail /\ clip k want avail <= Z.max 0 want /\ clip k want avail <= Z.max 0 avail.
Proof. unfold clip. lia. Qed.

Lemma st_take_drop_split {A} n (l : list A) : l = take n l ++ drop n l.
Proof. symmetry. apply st_take_drop. Qed.

(** What every answer satisfies: bytes come in order, at most [want] of them. *)
Lemma tr_read_gen t want chunk err t' :
  tr_read t want = (chunk, err, t') ->
  t_rest t = chunk ++ t_rest t' /\ t_end t' = t_end t /\ len chunk <= Z.max 0 want /\
  (length (t_sched t') <= length (t_sched t))%nat.
Proof.
  unfold tr_read. intros H.
  pose proof (st_len_nonneg (t_rest t)) as Hav.
  destruct (t_sched t) as [|[k a|k e] s] eqn:Hs.
  - destruct (Z.eqb_spec (len (t_rest t)) 0) as [E|E].
    + inversion H; subst. cbn [app]. rewrite Hs. repeat split; try reflexivity; try rewrite st_len_nil; cbn [length]; lia.
    + inversion H; subst; cbn [t_rest t_end t_sched]. repeat split.
      * apply st_take_drop_split.
      * rewrite st_len_take. pose proof (clip_range want want (len (t_rest t))). lia.
      * cbn. lia.
  - destruct (Z.eqb_spec (len (t_rest t)) 0) as [E|E].
    + inversion H; subst; cbn [t_rest t_end t_sched app length]. repeat split; try reflexivity; try rewrite st_len_nil; lia.
    + inversion H; subst; cbn [t_rest t_end t_sched length]. repeat split.
      * apply st_take_drop_split.
      * rewrite st_len_take. pose proof (clip_range k want (len (t_rest t))). lia.
      * lia.
  - inversion H; subst; cbn [t_rest t_end t_sched length]. repeat split.
    + apply st_take_drop_split.
    + rewrite st_len_take. pose proof (clip_range k want (len (t_rest t))). lia.
    + lia.
Qed.

(** For the termination measure: an answer of the schedule is used up, or the schedule
    is exhausted and the read is served as fully as possible. *)
Lemma tr_read_measure t want chunk err t' :
  tr_read t want = (chunk, err, t') -> 0 < want ->
  (S (length (t_sched t')) = length (t_sched t))
  \/ (t_sched t = [] /\ t_sched t' = [] /\ (len chunk = want \/ t_rest t' = [])).
Proof.
  unfold tr_read. intros H Hw.
  pose proof (st_len_nonneg (t_rest t)) as Hav.
  destruct (t_sched t) as [|[k a|k e] s] eqn:Hs.
  - right. destruct (Z.eqb_spec (len (t_rest t)) 0) as [E|E].
    + inversion H; subst. rewrite Hs. repeat split. right. apply st_len_zero. exact E.
    + inversion H; subst; cbn [t_rest t_end t_sched]. repeat split.
      rewrite st_len_take. unfold clip.
      destruct (Z_le_gt_dec want (len (t_rest t))) as [Hle|Hgt].
      * left. lia.
      * right. apply st_len_zero. rewrite st_len_drop. lia.
  - left. destruct (Z.eqb_spec (len (t_rest t)) 0); inversion H; subst; reflexivity.
  - left. inversion H; subst; reflexivity.
Qed.

(** A faithful schedule: progress, and the end error only with or after the last bytes. *)
Lemma tr_read_faithful t want chunk err t' :
  tr_read t want = (chunk, err, t') -> 0 < want -> faithful (t_sched t) ->
  faithful (t_sched t') /\
  (t_rest t = [] -> chunk = [] /\ err = Some (t_end t)) /\
  (t_rest t <> [] -> 1 <= len chunk /\ (err = None \/ (err = Some (t_end t) /\ t_rest t' = []))).
Proof.
  unfold tr_read. intros H Hw Hf.
  pose proof (st_len_nonneg (t_rest t)) as Hav.
  assert (Hne : t_rest t <> [] -> 0 < len (t_rest t)).
  { intros Hn. destruct (t_rest t); [congruence | unfold len; cbn [length]; lia]. }
  destruct (t_sched t) as [|[k a|k e] s] eqn:Hs.
  - destruct (Z.eqb_spec (len (t_rest t)) 0) as [E|E].
    + inversion H; subst. rewrite Hs. split; [exact I|]. split; [intros _; split; reflexivity|].
      intros Hn. specialize (Hne Hn). lia.
    + inversion H; subst; cbn [t_rest t_end t_sched]. split; [exact I|]. split.
      * intros Hn. rewrite Hn in E. cbn in E. congruence.
      * intros Hn. specialize (Hne Hn). split; [|left; reflexivity].
        rewrite st_len_take. unfold clip. lia.
  - cbn [faithful] in Hf. destruct Hf as [Hk Hf].
    destruct (Z.eqb_spec (len (t_rest t)) 0) as [E|E].
    + inversion H; subst; cbn [t_rest t_end t_sched]. split; [exact Hf|]. split; [intros _; split; reflexivity|].
      intros Hn. specialize (Hne Hn). lia.
    + inversion H; subst; cbn [t_rest t_end t_sched]. split; [exact Hf|]. split.
      * intros Hn. rewrite Hn in E. cbn in E. congruence.
      * intros Hn. specialize (Hne Hn). split.
        -- rewrite st_len_take. unfold clip. lia.
        -- destruct a; cbn [andb]; [|left; reflexivity].
           destruct (Z.eqb_spec (clip k want (len (t_rest t))) (len (t_rest t))) as [Ec|Ec]; [|left; reflexivity].
           right. split; [reflexivity|]. apply st_len_zero. rewrite st_len_drop. rewrite Ec. lia.
  - cbn [faithful] in Hf. contradiction.
Qed.

(* ------------------------------------------------------------------ one iteration *)

Fixpoint tsum (tr : list (Z * Z)) : Z :=
  match tr with
  | [] => 0
  | (_, n) :: r => n + tsum r
  end.

Lemma consumed_tsum {M} (r : rres M) : consumed r = tsum (r_trace r).
Proof.
  unfold consumed. induction (r_trace r) as [|[w n] l IH]; cbn [fold_right tsum snd]; [reflexivity | rewrite IH; reflexivity].
Qed.

Lemma tsum_app a b : tsum (a ++ b) = tsum a + tsum b.
Proof. induction a as [|[w n] a IH]; cbn [app tsum]; [lia | rewrite IH; lia]. Qed.

Section Step.
  Variable M : Type.
  Variable um : list Z -> res M.
  Variable W : Z.
  Variable max : Z.

  Notation recv_step := (recv_step M um W max).
  Notation recv_loop := (recv_loop M um W max).
  Notation recv := (recv M um W max).

  (** [read = len(buf[:read])] and [need = computeNeededBytes(buf[:read])] at the loop head *)
  Definition inv0 (s : lstate) : Prop :=
    l_read s = len (l_buf s) /\ l_need s = needed_bytes W (l_buf s).

  (** The iteration with the slice expressions simplified under [inv0]. *)
  Definition step_simpl (s : lstate) (chunk : list Z) (err : option Z) (t' : tr) : step_res M :=
    let read := l_read s in
    let need := l_need s in
    let cap := if need >? l_cap s then grow_cap (l_cap s) need else l_cap s in
    let trace := l_trace s ++ [(need - read, len chunk)] in
    if (read >? need) || (need >? cap) then Done M (mkRes RPanic (l_tr s) cap (l_trace s)) else
    if len chunk =? 0 then
      match err with
      | Some e => Done M (mkRes (RErr e) t' cap trace)
      | None => Done M (mkRes (RZero (read =? 0)) t' cap trace)
      end
    else
      let buf := l_buf s ++ chunk in
      let read' := read + len chunk in
      let need' := needed_bytes W buf in
      if (need' <? 0) || ((0 <? max) && (need' >? max)) then Done M (mkRes RTooBig t' cap trace) else
      if need' <=? read' then
        if (need' <? 0) || (need' >? cap) then Done M (mkRes RPanic t' cap trace)
        else Done M (mkRes (RMsg (um (take need' buf))) t' cap trace)
      else
        match err with
        | Some e => Done M (mkRes (RErr e) t' cap trace)
        | None => Continue M (mkL t' buf read' need' cap trace)
        end.

  Lemma recv_step_simpl s chunk err t' :
    inv0 s -> tr_read (l_tr s) (l_need s - l_read s) = (chunk, err, t') ->
    recv_step s = step_simpl s chunk err t'.
  Proof.
    intros [Hr Hn] Ht. unfold recv_step, step_simpl. rewrite Ht.
    pose proof (st_len_nonneg (l_buf s)) as Hb.
    destruct (Z.ltb_spec (l_read s) 0) as [?|_]; [lia|]. cbn [orb].
    rewrite (st_take_all (l_read s) (l_buf s)) by lia.
    rewrite (st_take_all (l_read s + len chunk) (l_buf s ++ chunk)) by (rewrite st_len_app; lia).
    reflexivity.
  Qed.

  Lemma inv0_init t : inv0 (recv_init t).
  Proof. split; reflexivity. Qed.

  Lemma inv0_continue s chunk err t' s' :
    inv0 s -> step_simpl s chunk err t' = Continue M s' ->
    inv0 s' /\ err = None /\ l_tr s' = t' /\ l_buf s' = l_buf s ++ chunk /\ 0 < len chunk /\
    l_read s' < l_need s' /\ l_read s <= l_need s /\
    l_trace s' = l_trace s ++ [(l_need s - l_read s, len chunk)] /\
    l_cap s' = (if l_need s >? l_cap s then grow_cap (l_cap s) (l_need s) else l_cap s) /\
    l_need s <= l_cap s'.
  Proof.
    intros [Hr Hn] H. unfold step_simpl in H.
    pose proof (st_len_nonneg chunk) as Hc.
    destruct (_ || _) eqn:Hp in H; [discriminate|].
    apply orb_false_iff in Hp. destruct Hp as [Hp1 Hp2].
    destruct (Z.eqb_spec (len chunk) 0) as [?|Hne]; [destruct err; discriminate|].
    destruct (_ || _) in H; [discriminate|].
    destruct (Z.leb_spec (needed_bytes W (l_buf s ++ chunk)) (l_read s + len chunk)) as [?|Hlt].
    { destruct (_ || _) in H; discriminate. }
    destruct err; [discriminate|]. inversion H; subst s'; unfold inv0; cbn [l_tr l_buf l_read l_need l_cap l_trace].
    assert (l_read s <= l_need s) by (destruct (Z.gtb_spec (l_read s) (l_need s)); [discriminate | lia]).
    assert (l_need s <= (if l_need s >? l_cap s then grow_cap (l_cap s) (l_need s) else l_cap s))
      by (destruct (Z.gtb_spec (l_need s) (if l_need s >? l_cap s then grow_cap (l_cap s) (l_need s) else l_cap s)); [discriminate | lia]).
    repeat split; try reflexivity; try rewrite st_len_app; try lia.
  Qed.

  (* ---------------------------------------------------------------- termination *)

  Definition mu (s : lstate) : nat :=
    (length (t_sched (l_tr s)) + (if (l_read s <? 8)%Z then 1 else 0)
     + (match t_rest (l_tr s) with [] => 0 | _ => 1 end))%nat.

  Lemma step_measure s s' : inv0 s -> recv_step s = Continue M s' -> (mu s' < mu s)%nat.
  Proof.
    intros Hi H.
    destruct (tr_read (l_tr s) (l_need s - l_read s)) as [[chunk err] t'] eqn:Ht.
    rewrite (recv_step_simpl s chunk err t' Hi Ht) in H.
    destruct (inv0_continue s chunk err t' s' Hi H) as (Hi' & He & Htr & Hbuf & Hc & Hlt & Hle & _).
    destruct Hi as [Hr Hn]. destruct Hi' as [Hr' Hn'].
    pose proof (tr_read_gen _ _ _ _ _ Ht) as (Hsplit & _ & Hcw & _).
    assert (Hw : 0 < l_need s - l_read s) by lia.
    pose proof (tr_read_measure _ _ _ _ _ Ht Hw) as Hm.
    assert (Hrest : (match t_rest t' with [] => 0 | _ => 1 end <= match t_rest (l_tr s) with [] => 0 | _ => 1 end)%nat).
    { rewrite Hsplit. destruct chunk; [cbn in Hc; lia|]. cbn [app]. destruct (t_rest t'); lia. }
    assert (Hread' : l_read s' = l_read s + len chunk) by (rewrite Hr', Hbuf, st_len_app; lia).
    unfold mu. rewrite Htr.
    assert (Hph : ((if (l_read s' <? 8)%Z then 1 else 0) <= (if (l_read s <? 8)%Z then 1 else 0))%nat).
    { destruct (Z.ltb_spec (l_read s') 8), (Z.ltb_spec (l_read s) 8); lia. }
    destruct Hm as [Hm | (Hs1 & Hs2 & [Hfull | Hdrained])].
    - lia.
    - (* the read was served in full: the header is complete now (the message would be otherwise) *)
      rewrite Hs1, Hs2. cbn [length].
      destruct (Z.ltb_spec (l_read s) 8) as [Hh|Hh].
      + assert (l_need s = 8) by (rewrite Hn; apply needed_bytes_short; lia).
        destruct (Z.ltb_spec (l_read s') 8); lia.
      + exfalso. rewrite Hn' in Hlt. rewrite Hbuf in Hlt. rewrite needed_bytes_prefix in Hlt by lia.
        rewrite <- Hn in Hlt. lia.
    - rewrite Hs1, Hs2, Hdrained. cbn [length].
      rewrite Hsplit. destruct chunk; [cbn in Hc; lia|]. cbn [app]. lia.
  Qed.

  Lemma recv_loop_terminates fuel : forall s,
    inv0 s -> (mu s < fuel)%nat -> r_out (recv_loop fuel s) <> RFuel.
  Proof.
    induction fuel as [|f IH]; intros s Hi Hm; [lia|].
    cbn [recv_loop]. destruct (recv_step s) as [r|s'] eqn:Hs.
    - destruct (tr_read (l_tr s) (l_need s - l_read s)) as [[chunk err] t'] eqn:Ht.
      rewrite (recv_step_simpl s chunk err t' Hi Ht) in Hs. unfold step_simpl in Hs.
      repeat match type of Hs with
      | (if ?c then _ else _) = _ => destruct c
      | match ?e with Some _ => _ | None => _ end = _ => destruct e
      end; inversion Hs; subst r; cbn [r_out]; discriminate.
    - pose proof (step_measure s s' Hi Hs) as Hlt.
      destruct (tr_read (l_tr s) (l_need s - l_read s)) as [[chunk err] t'] eqn:Ht.
      rewrite (recv_step_simpl s chunk err t' Hi Ht) in Hs.
      destruct (inv0_continue s chunk err t' s' Hi Hs) as (Hi' & _).
      apply IH; [exact Hi' | lia].
  Qed.

  (** [Recv] always returns: whatever the stream holds and however the transport answers. *)
  Lemma recv_terminates t : r_out (recv t) <> RFuel.
  Proof.
    unfold recv. apply recv_loop_terminates; [apply inv0_init|].
    unfold mu, recv_init; cbn [l_tr l_read]. destruct (t_rest t); cbn; lia.
  Qed.
End Step.

(* ------------------------------------------------------------------ safety: any transport *)

Lemma trace_ok_app N a : forall c w n,
  trace_ok N c a -> w = (if c + tsum a <? 8 then 8 else N) - (c + tsum a) -> 0 < w -> 0 <= n <= w ->
  trace_ok N c (a ++ [(w, n)]).
Proof.
  induction a as [|[w0 n0] a IH]; intros c w n Ha Hw Hp Hn; cbn [app tsum trace_ok] in *.
  - rewrite Z.add_0_r in Hw. repeat split; try lia.
  - destruct Ha as (H1 & H2 & H3 & H4). repeat split; try lia.
    apply IH; try assumption. rewrite Hw. replace (c + n0 + tsum a) with (c + (n0 + tsum a)) by lia. reflexivity.
Qed.

Section Safety.
  Variable M : Type.
  Variable um : list Z -> res M.
  Variable W : Z.
  Variable max : Z.
  (** [D]: the bytes the transport holds when [Recv] is called. [N]: the size announced by
      their first 8 bytes (any number >= 8 when there are fewer than 8). *)
  Variable D : list Z.
  Variable N : Z.
  Hypothesis HN : forall b x, D = b ++ x -> 8 <= len b -> needed_bytes W b = N.
  Hypothesis HN8 : N < 0 \/ 8 <= N.   (* negative: not representable by an int *)

  Notation recv_step := (recv_step M um W max).
  Notation recv_loop := (recv_loop M um W max).
  Notation recv := (recv M um W max).

  (** the announced size is refused: unrepresentable, or over the configured limit *)
  Definition oversize : Prop := N < 0 \/ (0 < max /\ max < N).

  Definition inv (s : lstate) : Prop :=
    inv0 W s /\
    D = l_buf s ++ t_rest (l_tr s) /\
    l_read s < l_need s /\
    (l_cap s = buf0 \/ (l_cap s = N /\ buf0 < N /\ 8 <= l_read s)) /\
    (8 <= l_read s -> ~ oversize) /\
    (0 < l_read s -> 0 < max -> 8 <= max) /\
    trace_ok N 0 (l_trace s) /\ tsum (l_trace s) = l_read s.

  (** What a finished [Recv] guarantees. [p]: the bytes it took from the transport. *)
  Definition post (r : rres M) : Prop :=
    r_out r <> RPanic /\
    exists p, D = p ++ t_rest (r_tr r) /\ consumed r = len p /\
      (len p <= 8 \/ len p <= N) /\
      (oversize -> len p <= 8) /\
      (forall x, r_out r = RMsg x -> len p = N /\ x = um (take N D) /\ ~ oversize) /\
      (r_out r = RTooBig -> (0 < max /\ max < 8) \/ (8 <= len p /\ oversize)) /\
      (r_cap r = buf0 \/ (r_cap r = N /\ buf0 < N /\ 8 <= len p /\ ~ oversize)) /\
      trace_ok N 0 (r_trace r).

  Lemma need_of_inv s : inv s -> l_need s = if l_read s <? 8 then 8 else N.
  Proof.
    intros ((Hr & Hn) & HD & _). rewrite Hn.
    destruct (Z.ltb_spec (l_read s) 8) as [H|H].
    - apply needed_bytes_short. lia.
    - apply (HN _ _ HD). lia.
  Qed.

  Lemma inv_init t : t_rest t = D -> inv (recv_init t).
  Proof.
    intros Ht. unfold inv, recv_init; cbn [l_tr l_buf l_read l_need l_cap l_trace].
    split; [apply inv0_init|]. cbn [app tsum trace_ok]. repeat split; try lia; auto.
  Qed.

  Lemma step_safe s : inv s ->
    match recv_step s with
    | Done _ r => post r
    | Continue _ s' => inv s'
    end.
  Proof.
    intros Hinv. pose proof (need_of_inv s Hinv) as Hneed.
    destruct Hinv as (Hi0 & HD & Hlt & Hcap & Hov & Hm8 & Htr & Hsum).
    destruct (tr_read (l_tr s) (l_need s - l_read s)) as [[chunk err] t'] eqn:Ht.
    rewrite (recv_step_simpl M um W max s chunk err t' Hi0 Ht).
    destruct Hi0 as [Hr Hn].
    pose proof (tr_read_gen _ _ _ _ _ Ht) as (Hsplit & _ & Hcw & _).
    pose proof (st_len_nonneg chunk) as Hc0.
    pose proof (st_len_nonneg (l_buf s)) as Hb0.
    set (cap' := if l_need s >? l_cap s then grow_cap (l_cap s) (l_need s) else l_cap s).
    assert (Hcap' : l_need s <= cap' /\ (cap' = buf0 \/ (cap' = N /\ buf0 < N /\ 8 <= l_read s))).
    { unfold cap', grow_cap, buf0 in *. destruct (Z.gtb_spec (l_need s) (l_cap s)) as [Hg|Hg].
      - destruct Hcap as [Hc|(Hc & Hc2 & Hc3)].
        + rewrite Hc in *. destruct (Z.ltb_spec (l_read s) 8); [lia|]. split; [lia|]. right. lia.
        + destruct (Z.ltb_spec (l_read s) 8); lia.
      - split; [lia|]. exact Hcap. }
    destruct Hcap' as [Hncap Hcap'].
    assert (HD' : D = (l_buf s ++ chunk) ++ t_rest t') by (rewrite <- app_assoc, <- Hsplit; exact HD).
    assert (Hlen' : len (l_buf s ++ chunk) = l_read s + len chunk) by (rewrite st_len_app; lia).
    assert (Hneed' : needed_bytes W (l_buf s ++ chunk) = if l_read s + len chunk <? 8 then 8 else N).
    { destruct (Z.ltb_spec (l_read s + len chunk) 8) as [H|H].
      - apply needed_bytes_short. lia.
      - apply (HN _ _ HD'). lia. }
    assert (Htrace : trace_ok N 0 (l_trace s ++ [(l_need s - l_read s, len chunk)])).
    { apply trace_ok_app; try assumption; try lia. rewrite Hsum, Z.add_0_l. rewrite Hneed. reflexivity. }
    assert (Hts : tsum (l_trace s ++ [(l_need s - l_read s, len chunk)]) = l_read s + len chunk).
    { rewrite tsum_app. cbn [tsum]. lia. }
    unfold step_simpl. fold cap'.
    destruct (Z.gtb_spec (l_read s) (l_need s)) as [?|_]; [lia|].
    destruct (Z.gtb_spec (l_need s) cap') as [?|_]; [lia|]. cbn [orb].
    destruct (Z.eqb_spec (len chunk) 0) as [Hz|Hnz].
    - (* nothing was read: an error is returned *)
      assert (Hch : chunk = []) by (apply st_len_zero; exact Hz). subst chunk.
      rewrite app_nil_r in HD'. rewrite Z.add_0_r in Hts.
      assert (Hpost : forall o, o <> RPanic -> (forall x, o <> RMsg x) -> o <> RTooBig ->
                post (mkRes o t' cap' (l_trace s ++ [(l_need s - l_read s, len (@nil Z))]))).
      { intros o Ho1 Ho2 Ho3. unfold post; cbn [r_out r_tr r_cap r_trace]. split; [exact Ho1|].
        exists (l_buf s). rewrite consumed_tsum; cbn [r_trace]. rewrite Hts.
        split; [exact HD'|]. split; [exact Hr|].
        split; [destruct (Z.ltb_spec (l_read s) 8); lia|].
        split; [intros Hos; destruct (Z.ltb_spec (l_read s) 8) as [?|Hh]; [lia | exfalso; exact (Hov Hh Hos)]|].
        split; [intros x Hx; exfalso; exact (Ho2 x Hx)|].
        split; [intros Hx; exfalso; exact (Ho3 Hx)|].
        split; [|exact Htrace].
        destruct Hcap' as [?|(Hc1 & Hc2 & Hc3)]; [left; assumption|].
        right. repeat split; try assumption; try lia. apply Hov. exact Hc3. }
      destruct err; apply Hpost; discriminate.
    - assert (Hcpos : 0 < len chunk) by lia.
      rewrite Hneed'. rewrite Hneed in *.
      (* facts about where we are *)
      assert (Hrd' : l_read s + len chunk <= (if l_read s <? 8 then 8 else N)) by lia.
      assert (Hpost : forall o,
                o <> RPanic ->
                (forall x, o = RMsg x -> l_read s + len chunk = N /\ x = um (l_buf s ++ chunk) /\ ~ oversize) ->
                (o = RTooBig -> (0 < max /\ max < 8) \/ (8 <= l_read s + len chunk /\ oversize)) ->
                post (mkRes o t' cap' (l_trace s ++ [((if l_read s <? 8 then 8 else N) - l_read s, len chunk)]))).
      { intros o Ho1 Ho2 Ho3. unfold post; cbn [r_out r_tr r_cap r_trace]. split; [exact Ho1|].
        exists (l_buf s ++ chunk). rewrite consumed_tsum; cbn [r_trace]. rewrite Hts, Hlen'.
        split; [exact HD'|]. split; [reflexivity|].
        split; [destruct (Z.ltb_spec (l_read s) 8); lia|].
        split; [intros Hos; destruct (Z.ltb_spec (l_read s) 8) as [?|Hh]; [lia | exfalso; exact (Hov Hh Hos)]|].
        split.
        { intros x Hx. destruct (Ho2 x Hx) as (E1 & E2 & E3). split; [exact E1|]. split; [|exact E3].
          rewrite E2. f_equal. rewrite HD'. rewrite <- E1, <- Hlen'. symmetry. apply st_take_app_exact. }
        split; [exact Ho3|].
        split; [|exact Htrace].
        destruct Hcap' as [?|(Hc1 & Hc2 & Hc3)]; [left; assumption|].
        right. repeat split; try assumption; try lia. apply Hov. exact Hc3. }
      set (need' := if l_read s + len chunk <? 8 then 8 else N) in *.
      destruct ((need' <? 0) || ((0 <? max) && (need' >? max))) eqn:Hbig.
      + (* too big *)
        apply Hpost; try discriminate. intros _.
        apply orb_true_iff in Hbig. destruct Hbig as [Hb|Hb].
        * apply Z.ltb_lt in Hb. right. unfold need' in Hb. destruct (Z.ltb_spec (l_read s + len chunk) 8); [lia|].
          split; [lia | left; exact Hb].
        * apply andb_true_iff in Hb. destruct Hb as [Hb1 Hb2]. apply Z.ltb_lt in Hb1. apply Z.gtb_lt in Hb2.
          unfold need' in Hb2. destruct (Z.ltb_spec (l_read s + len chunk) 8); [left; lia|].
          right. split; [lia | right; lia].
      + apply orb_false_iff in Hbig. destruct Hbig as [Hneg Hbig]. apply Z.ltb_ge in Hneg.
        assert (Hnb : ~ (0 < max /\ max < need')).
        { intros [Hb1 Hb2]. apply andb_false_iff in Hbig. destruct Hbig as [Hb|Hb].
          - apply Z.ltb_ge in Hb. lia.
          - destruct (Z.gtb_spec need' max); [discriminate | lia]. }
        assert (Hno : 8 <= l_read s + len chunk -> ~ oversize).
        { intros H8 [Hos|Hos]; unfold need' in *; destruct (Z.ltb_spec (l_read s + len chunk) 8); lia. }
        destruct (Z.leb_spec need' (l_read s + len chunk)) as [Hfull|Hmore].
        * (* the message is complete *)
          assert (HNr : l_read s + len chunk = N /\ need' = N).
          { unfold need' in *. destruct (Z.ltb_spec (l_read s + len chunk) 8); destruct (Z.ltb_spec (l_read s) 8); lia. }
          destruct HNr as [HNr HNe]. rewrite HNe in *.
          destruct (Z.ltb_spec N 0) as [?|_]; [lia|].
          destruct (Z.gtb_spec N cap') as [Hbad|_].
          { exfalso. destruct (Z.ltb_spec (l_read s) 8); lia. }
          cbn [orb]. apply Hpost; try discriminate.
          intros x Hx. inversion Hx; subst x. split; [exact HNr|]. split.
          -- f_equal. apply st_take_all. lia.
          -- apply Hno. destruct (Z.ltb_spec (l_read s) 8); lia.
        * destruct err as [e|].
          -- apply Hpost; discriminate.
          -- (* next iteration *)
             unfold inv, inv0; cbn [l_tr l_buf l_read l_need l_cap l_trace].
             rewrite Hneed'. rewrite Hlen'. fold need'. repeat split; try assumption; try lia.
             intros _ Hmx. unfold need' in *. destruct (Z.ltb_spec (l_read s + len chunk) 8); lia.
  Qed.

  Lemma loop_safe fuel : forall s, inv s -> (mu s < fuel)%nat -> post (recv_loop fuel s).
  Proof.
    induction fuel as [|f IH]; intros s Hinv Hm; [lia|].
    cbn [Stream.recv_loop]. pose proof (step_safe s Hinv) as Hs.
    destruct (recv_step s) as [r|s'] eqn:Hstep; [exact Hs|].
    apply IH; [exact Hs|].
    pose proof (step_measure M um W max s s' (proj1 Hinv) Hstep). lia.
  Qed.

  (** One [Recv] on a transport holding [D], whatever its answers. *)
  Lemma recv_safe t : t_rest t = D -> post (recv t).
  Proof.
    intros Ht. unfold Stream.recv. apply loop_safe; [apply inv_init; exact Ht|].
    unfold mu, recv_init; cbn [l_tr l_read]. destruct (t_rest t); cbn; lia.
  Qed.
End Safety.

(* ------------------------------------------------------------------ progress: faithful transports *)

Section Progress.
  Variable M : Type.
  Variable um : list Z -> res M.
  Variable W : Z.
  Variable max : Z.
  Variable D : list Z.
  Variable N : Z.
  Hypothesis HN : forall b x, D = b ++ x -> 8 <= len b -> needed_bytes W b = N.
  Hypothesis HN8 : N < 0 \/ 8 <= N.
  Hypothesis Hmax8 : 0 < max -> 8 <= max.   (* a configured limit admits at least a header *)
  Variable e : Z.                            (* the transport's end error *)

  Notation recv_step := (recv_step M um W max).
  Notation recv_loop := (recv_loop M um W max).
  Notation recv := (recv M um W max).
  Notation ovs := (oversize max N).
  Notation inv := (inv W max D N).

  (** The result of [Recv] is determined by the stream alone. *)
  Definition spec (r : rres M) : Prop :=
    (8 <= len D -> ovs -> r_out r = RTooBig) /\
    (~ ovs -> N <= len D ->
       r_out r = RMsg (um (take N D)) /\ t_rest (r_tr r) = drop N D /\
       faithful (t_sched (r_tr r)) /\ t_end (r_tr r) = e) /\
    (len D < 8 \/ (~ ovs /\ len D < N) -> r_out r = RErr e /\ t_rest (r_tr r) = []).

  Lemma step_progress s :
    inv s -> faithful (t_sched (l_tr s)) -> t_end (l_tr s) = e ->
    match recv_step s with
    | Done _ r => spec r
    | Continue _ s' => faithful (t_sched (l_tr s')) /\ t_end (l_tr s') = e
    end.
  Proof.
    intros Hinv Hf He. pose proof (need_of_inv W max D N HN s Hinv) as Hneed.
    destruct Hinv as (Hi0 & HD & Hlt & Hcap & Hov & Hm8 & Htr & Hsum).
    destruct (tr_read (l_tr s) (l_need s - l_read s)) as [[chunk err] t'] eqn:Ht.
    rewrite (recv_step_simpl M um W max s chunk err t' Hi0 Ht).
    destruct Hi0 as [Hr Hn].
    pose proof (tr_read_gen _ _ _ _ _ Ht) as (Hsplit & Hend & Hcw & _).
    assert (Hw : 0 < l_need s - l_read s) by lia.
    pose proof (tr_read_faithful _ _ _ _ _ Ht Hw Hf) as (Hf' & Hempty & Hnonempty).
    rewrite He in *.
    pose proof (st_len_nonneg chunk) as Hc0.
    pose proof (st_len_nonneg (l_buf s)) as Hb0.
    pose proof (st_len_nonneg (t_rest t')) as Hr0.
    set (cap' := if l_need s >? l_cap s then grow_cap (l_cap s) (l_need s) else l_cap s).
    assert (Hncap : l_need s <= cap').
    { unfold cap', grow_cap, buf0 in *. destruct (Z.gtb_spec (l_need s) (l_cap s)) as [Hg|Hg]; [|lia].
      destruct Hcap as [Hc|(Hc & Hc2 & Hc3)]; [rewrite Hc; lia|].
      destruct (Z.ltb_spec (l_read s) 8); lia. }
    assert (HD' : D = (l_buf s ++ chunk) ++ t_rest t') by (rewrite <- app_assoc, <- Hsplit; exact HD).
    assert (Hlen' : len (l_buf s ++ chunk) = l_read s + len chunk) by (rewrite st_len_app; lia).
    assert (HlenD : len D = l_read s + len chunk + len (t_rest t')) by (rewrite HD', st_len_app, Hlen'; lia).
    assert (Hneed' : needed_bytes W (l_buf s ++ chunk) = if l_read s + len chunk <? 8 then 8 else N).
    { destruct (Z.ltb_spec (l_read s + len chunk) 8) as [H|H].
      - apply needed_bytes_short. lia.
      - apply (HN _ _ HD'). lia. }
    unfold step_simpl. fold cap'.
    destruct (Z.gtb_spec (l_read s) (l_need s)) as [?|_]; [lia|].
    destruct (Z.gtb_spec (l_need s) cap') as [?|_]; [lia|]. cbn [orb].
    (* an error result at a point where the stream is drained *)
    assert (Hdrained : forall tr', t_rest t' = [] -> l_read s + len chunk < (if l_read s + len chunk <? 8 then 8 else N) ->
              (8 <= l_read s + len chunk -> ~ ovs) ->
              spec (mkRes (RErr e) t' cap' tr')).
    { intros tr' Hd Hshort Hno. rewrite Hd in HlenD. rewrite st_len_nil in HlenD.
      unfold spec; cbn [r_out r_tr]. split; [|split].
      - intros H8 Hos. exfalso. apply Hno; [lia | exact Hos].
      - intros Hnos HNle. exfalso. unfold oversize in Hnos. destruct (Z.ltb_spec (l_read s + len chunk) 8); lia.
      - intros _. split; [reflexivity | exact Hd]. }
    destruct (Z.eqb_spec (len chunk) 0) as [Hz|Hnz].
    - destruct (t_rest (l_tr s)) as [|x0 xs] eqn:Hrest.
      + destruct (Hempty eq_refl) as [Hch Herr]. subst chunk err.
        apply Hdrained.
        * cbn [app] in Hsplit. symmetry. exact Hsplit.
        * rewrite st_len_nil, Z.add_0_r. rewrite Hneed in Hlt. exact Hlt.
        * rewrite st_len_nil, Z.add_0_r. exact Hov.
      + exfalso. assert (Hne : x0 :: xs <> []) by discriminate. destruct (Hnonempty Hne) as [H1 _]. lia.
    - rewrite Hneed'. rewrite Hneed in *.
      assert (Hrd' : l_read s + len chunk <= (if l_read s <? 8 then 8 else N)) by lia.
      set (need' := if l_read s + len chunk <? 8 then 8 else N) in *.
      destruct ((need' <? 0) || ((0 <? max) && (need' >? max))) eqn:Hbig.
      + assert (Hos : ovs /\ 8 <= l_read s + len chunk).
        { apply orb_true_iff in Hbig. unfold oversize, need' in *. destruct Hbig as [Hb|Hb].
          - apply Z.ltb_lt in Hb. destruct (Z.ltb_spec (l_read s + len chunk) 8); lia.
          - apply andb_true_iff in Hb. destruct Hb as [Hb1 Hb2]. apply Z.ltb_lt in Hb1. apply Z.gtb_lt in Hb2.
            specialize (Hmax8 Hb1). destruct (Z.ltb_spec (l_read s + len chunk) 8); lia. }
        destruct Hos as [Hos H8'].
        unfold spec; cbn [r_out r_tr]. split; [|split].
        * intros _ _. reflexivity.
        * intros Hno _. exfalso. exact (Hno Hos).
        * intros [H8|[Hno _]]; [exfalso; lia | exfalso; exact (Hno Hos)].
      + apply orb_false_iff in Hbig. destruct Hbig as [Hneg Hbig]. apply Z.ltb_ge in Hneg.
        assert (Hnb : ~ (0 < max /\ max < need')).
        { intros [Hb1 Hb2]. apply andb_false_iff in Hbig. destruct Hbig as [Hb|Hb].
          - apply Z.ltb_ge in Hb. lia.
          - destruct (Z.gtb_spec need' max); [discriminate | lia]. }
        assert (Hno : 8 <= l_read s + len chunk -> ~ ovs).
        { intros H8 [Hos|Hos]; unfold need' in *; destruct (Z.ltb_spec (l_read s + len chunk) 8); lia. }
        destruct (Z.leb_spec need' (l_read s + len chunk)) as [Hfull|Hmore].
        * assert (HNr : l_read s + len chunk = N /\ need' = N).
          { unfold need' in *. destruct (Z.ltb_spec (l_read s + len chunk) 8); destruct (Z.ltb_spec (l_read s) 8); lia. }
          destruct HNr as [HNr HNe]. rewrite HNe in *.
          destruct (Z.ltb_spec N 0) as [?|_]; [lia|].
          destruct (Z.gtb_spec N cap') as [Hbad|_].
          { exfalso. destruct (Z.ltb_spec (l_read s) 8); lia. }
          cbn [orb]. unfold spec; cbn [r_out r_tr]. split; [|split].
          -- intros _ Hos. exfalso. apply Hno; [destruct (Z.ltb_spec (l_read s) 8); lia | exact Hos].
          -- intros _ _. split; [|split; [|split]].
             ++ f_equal. f_equal. rewrite HD'. rewrite <- HNr, <- Hlen'. rewrite st_take_app_exact.
                apply st_take_all. lia.
             ++ rewrite HD'. rewrite <- HNr, <- Hlen'. symmetry. apply st_drop_app_exact.
             ++ exact Hf'.
             ++ exact Hend.
          -- intros [H8|[_ Hshort]]; exfalso; destruct (Z.ltb_spec (l_read s) 8); lia.
        * destruct err as [e'|].
          -- destruct (t_rest (l_tr s)) as [|x0 xs] eqn:Hrest.
             { destruct (Hempty eq_refl) as [Hch _]. subst chunk. rewrite st_len_nil in Hnz. lia. }
             assert (Hne : x0 :: xs <> []) by discriminate.
             destruct (Hnonempty Hne) as [_ [Habs|[He' Hd]]]; [discriminate|].
             inversion He'; subst e'. apply Hdrained; [exact Hd | exact Hmore | exact Hno].
          -- cbn [l_tr]. split; [exact Hf' | exact Hend].
  Qed.

  Lemma loop_progress fuel : forall s,
    inv s -> faithful (t_sched (l_tr s)) -> t_end (l_tr s) = e -> (mu s < fuel)%nat ->
    spec (recv_loop fuel s).
  Proof.
    induction fuel as [|f IH]; intros s Hinv Hf He Hm; [lia|].
    cbn [Stream.recv_loop].
    pose proof (step_progress s Hinv Hf He) as Hp.
    pose proof (step_safe M um W max D N HN HN8 s Hinv) as Hs.
    destruct (recv_step s) as [r|s'] eqn:Hstep; [exact Hp|].
    destruct Hp as [Hf' He']. apply IH; try assumption.
    pose proof (step_measure M um W max s s' (proj1 Hinv) Hstep). lia.
  Qed.

  Lemma recv_progress t : t_rest t = D -> faithful (t_sched t) -> t_end t = e -> spec (recv t).
  Proof.
    intros Ht Hf He. unfold Stream.recv. apply loop_progress; try assumption.
    - apply inv_init. exact Ht.
    - unfold mu, recv_init; cbn [l_tr l_read]. destruct (t_rest t); cbn; lia.
  Qed.
End Progress.

(* ------------------------------------------------------------------ headers, frames, arbitrary bytes *)

Lemma prefix_split {A} (h : list A) : forall b x z, b ++ x = h ++ z -> len h <= len b -> exists y, b = h ++ y.
Proof.
  induction h as [|a h IH]; intros b x z He Hl.
  - exists b. reflexivity.
  - destruct b as [|a' b].
    + unfold len in Hl. cbn [length] in Hl. lia.
    + cbn [app] in He. inversion He; subst a'.
      destruct (IH b x z H1) as [y Hy].
      * unfold len in *. cbn [length] in Hl. lia.
      * exists y. cbn [app]. rewrite Hy. reflexivity.
Qed.

Lemma header_len h total : is_header h total -> len h = 8.
Proof.
  intros (tag & ty & l & Hh & Ht & _). subst h. unfold len. rewrite !app_length, Ht, be4_length. reflexivity.
Qed.

Lemma header_total_ge8 h total : is_header h total -> 8 <= total.
Proof. intros (tag & ty & l & _ & _ & Hl & Ht). pose proof (pad8_range l). lia. Qed.

Lemma hdr_need_cases W l : 0 <= l ->
  (hdr_need W l = -1 /\ max_int W < 8 + l + pad8 l + 8) \/ (hdr_need W l = 8 + l + pad8 l /\ 8 + l + pad8 l <= max_int W).
Proof.
  intros Hl. unfold hdr_need. pose proof (pad8_range l).
  destruct (Z.gtb_spec l (max_int W - 16)); [left | right]; split; try reflexivity; lia.
Qed.

Lemma hdr_need_fits W l : 0 <= l -> 8 + l + pad8 l + 8 <= max_int W -> hdr_need W l = 8 + l + pad8 l.
Proof. intros Hl Hf. destruct (hdr_need_cases W l Hl) as [[_ ?]|[? _]]; [lia | assumption]. Qed.

Lemma hdr_need_unfit W l : 0 <= l -> max_int W < 8 + l + pad8 l -> hdr_need W l = -1.
Proof. intros Hl Hf. destruct (hdr_need_cases W l Hl) as [[? _]|[_ ?]]; [assumption | lia]. Qed.

(** The size computed from any received prefix that contains the header [h]:
    the announced total, or -1 when an int cannot hold it. *)
Lemma needed_of_header W h total D :
  0 < W -> is_header h total ->
  (forall b x, D = b ++ x -> 8 <= len b -> exists y, b = h ++ y) ->
  exists N, (N = -1 \/ N = total) /\ (total + 8 <= max_int W -> N = total) /\ (max_int W < total -> N = -1) /\
    forall b x, D = b ++ x -> 8 <= len b -> needed_bytes W b = N.
Proof.
  intros HW (tag & ty & l & Hh & Ht & Hl & Htot) Hpre.
  exists (hdr_need W l). subst total. split; [|split; [|split]].
  - destruct (hdr_need_cases W l (proj1 Hl)) as [[? _]|[? _]]; [left | right]; assumption.
  - apply hdr_need_fits. lia.
  - apply hdr_need_unfit. lia.
  - intros b x HD Hb. destruct (Hpre b x HD Hb) as [y Hy]. subst b h.
    rewrite <- !app_assoc. apply needed_bytes_header; assumption.
Qed.

Lemma frame_header f : is_frame f -> exists h body, f = h ++ body /\ is_header h (len f).
Proof.
  intros (tag & ty & l & body & Hf & Ht & Hl & Hb).
  exists (tag ++ [ty] ++ be 4 l), body. split; [rewrite Hf, <- !app_assoc; reflexivity|].
  exists tag, ty, l. repeat split; try assumption; try lia.
  subst f. unfold len in *. rewrite !app_length, Ht, be4_length. cbn [length]. lia.
Qed.

Lemma frame_len_ge8 f : is_frame f -> 8 <= len f.
Proof. intros Hf. destruct (frame_header f Hf) as (h & body & _ & Hh). exact (header_total_ge8 _ _ Hh). Qed.

(** Every item fits a 64-bit int with room to spare. *)
Lemma frame_fits_64 f : is_frame f -> len f + 8 <= max_int 64.
Proof.
  intros (tag & ty & l & body & Hf & Ht & Hl & Hb). subst f.
  unfold len in *. rewrite !app_length, Ht, be4_length. cbn [length].
  pose proof (pad8_range l). change (2 ^ 32) with 4294967296 in Hl.
  change (max_int 64) with 9223372036854775807. lia.
Qed.

Lemma HN_frame_gen W f tail : 0 < W -> is_frame f ->
  exists N, (N = -1 \/ N = len f) /\ (len f + 8 <= max_int W -> N = len f) /\
    forall b x, f ++ tail = b ++ x -> 8 <= len b -> needed_bytes W b = N.
Proof.
  intros HW Hf. destruct (frame_header f Hf) as (h & body & Hfb & Hh).
  destruct (needed_of_header W h (len f) (f ++ tail) HW Hh) as (N & H1 & H2 & _ & H4).
  - intros b x HD Hb. apply (prefix_split h b x (body ++ tail)).
    + rewrite <- HD, Hfb, <- app_assoc. reflexivity.
    + rewrite (header_len _ _ Hh). exact Hb.
  - exists N. repeat split; assumption.
Qed.

Lemma HN_cut_gen W p f q : 0 < W -> is_frame f -> f = p ++ q ->
  exists N, (N = -1 \/ N = len f) /\ (len f + 8 <= max_int W -> N = len f) /\
    forall b x, p = b ++ x -> 8 <= len b -> needed_bytes W b = N.
Proof.
  intros HW Hf Hfp. destruct (frame_header f Hf) as (h & body & Hfb & Hh).
  destruct (needed_of_header W h (len f) p HW Hh) as (N & H1 & H2 & _ & H4).
  - intros b x HD Hb. apply (prefix_split h b (x ++ q) body).
    + rewrite app_assoc, <- HD, <- Hfp. exact Hfb.
    + rewrite (header_len _ _ Hh). exact Hb.
  - exists N. repeat split; assumption.
Qed.

Lemma HN_header_gen W h total z : 0 < W -> is_header h total ->
  exists N, (N = -1 \/ N = total) /\ (max_int W < total -> N = -1) /\
    forall b x, h ++ z = b ++ x -> 8 <= len b -> needed_bytes W b = N.
Proof.
  intros HW Hh.
  destruct (needed_of_header W h total (h ++ z) HW Hh) as (N & H1 & _ & H3 & H4).
  - intros b x HD Hb. apply (prefix_split h b x z); [symmetry; exact HD|].
    rewrite (header_len _ _ Hh). exact Hb.
  - exists N. repeat split; assumption.
Qed.

(** arbitrary bytes *)
Lemma unbe_bound4 l : (length l <= 4)%nat -> bytes_ok l = true -> 0 <= unbe l < 2 ^ 32.
Proof.
  intros Hl Hb. change (2 ^ 32) with 4294967296.
  assert (Hbyte : forall x r, bytes_ok (x :: r) = true -> 0 <= x < 256 /\ bytes_ok r = true).
  { intros x r H. cbn [bytes_ok forallb] in H. apply andb_true_iff in H. destruct H as [H1 H2].
    unfold byte_ok in H1. apply andb_true_iff in H1. destruct H1 as [H3 H4].
    apply Z.leb_le in H3. apply Z.ltb_lt in H4. split; [lia | exact H2]. }
  destruct l as [|a [|b [|c [|d [|? ?]]]]]; cbn [length] in Hl; try lia; unfold unbe; cbn [fold_left].
  - lia.
  - destruct (Hbyte _ _ Hb). lia.
  - destruct (Hbyte _ _ Hb) as [? Hb1]. destruct (Hbyte _ _ Hb1). lia.
  - destruct (Hbyte _ _ Hb) as [? Hb1]. destruct (Hbyte _ _ Hb1) as [? Hb2]. destruct (Hbyte _ _ Hb2). lia.
  - destruct (Hbyte _ _ Hb) as [? Hb1]. destruct (Hbyte _ _ Hb1) as [? Hb2]. destruct (Hbyte _ _ Hb2) as [? Hb3].
    destruct (Hbyte _ _ Hb3). lia.
Qed.

Lemma bytes_ok_firstn n l : bytes_ok l = true -> bytes_ok (firstn n l) = true.
Proof.
  revert l. induction n as [|n IH]; intros l H; [reflexivity|]. destruct l as [|x l]; [reflexivity|].
  cbn [firstn bytes_ok forallb] in *. apply andb_true_iff in H. destruct H as [H1 H2].
  apply andb_true_iff. split; [exact H1 | apply IH; exact H2].
Qed.

Lemma bytes_ok_skipn n l : bytes_ok l = true -> bytes_ok (skipn n l) = true.
Proof.
  revert l. induction n as [|n IH]; intros l H; [exact H|]. destruct l as [|x l]; [reflexivity|].
  cbn [skipn]. cbn [bytes_ok forallb] in H. apply andb_true_iff in H. destruct H as [_ H2]. apply IH. exact H2.
Qed.

(** The size computed from bytes is -1 or between 8 and MaxInt: no wrap-around, whatever the width of int. *)
Lemma needed_bytes_range W b : 0 < W -> bytes_ok b = true ->
  needed_bytes W b = -1 \/ 8 <= needed_bytes W b <= Z.max 8 (max_int W).
Proof.
  intros HW Hb. unfold needed_bytes, rd_padded_len, rd_len.
  destruct (Z.ltb_spec (len b) 8) as [?|H8]; [right; lia|].
  destruct (Z.eqb_spec (len b) 0) as [?|_]; [lia|].
  assert (Hu : 0 <= unbe (take 4 (drop 4 b)) < 2 ^ 32).
  { apply unbe_bound4.
    - unfold take. rewrite firstn_length. lia.
    - unfold take, drop. apply bytes_ok_firstn. apply bytes_ok_skipn. exact Hb. }
  set (l := unbe (take 4 (drop 4 b))) in *.
  destruct (Z.gtb_spec l (max_int W - 16)) as [Hbig|Hfit]; [left; reflexivity|]. right.
  unfold max_int in *.
  pose proof (pad8_range l) as Hp.
  assert (Hpos : 0 < 2 ^ (W - 1)) by (apply Z.pow_pos_nonneg; lia).
  rewrite (wrap_small W l) by lia.
  rewrite pad_for_len8_nonneg by lia.
  rewrite (wrap_small W (l + pad8 l)) by lia.
  rewrite wrap_small by lia. lia.
Qed.

(** The size announced by the first 8 bytes of [D] (8 when there are fewer, -1 when an int cannot hold it). *)
Definition announced (W : Z) (D : list Z) : Z := needed_bytes W (take 8 D).

Lemma HN_bytes W D : forall b x, D = b ++ x -> 8 <= len b -> needed_bytes W b = announced W D.
Proof.
  intros b x HD Hb. unfold announced. subst D.
  rewrite st_take_app_le by lia.
  rewrite <- (st_take_drop 8 b) at 1. apply needed_bytes_prefix. rewrite st_len_take. lia.
Qed.

Lemma announced_range W D : 0 < W -> bytes_ok D = true -> announced W D = -1 \/ 8 <= announced W D <= Z.max 8 (max_int W).
Proof. intros HW H. apply needed_bytes_range; [exact HW|]. unfold take. apply bytes_ok_firstn. exact H. Qed.

(* ------------------------------------------------------------------ the results *)

Lemma st_last_cons {A} (l : list A) : forall x d, last (x :: l) d = last l x.
Proof.
  induction l as [|y l IH]; intros x d; [reflexivity|].
  change (last (x :: y :: l) d) with (last (y :: l) d). rewrite (IH y d), (IH y x). reflexivity.
Qed.

Section Results.
  Variable M : Type.
  Variable um : list Z -> res M.
  Variable W : Z.
  Variable max : Z.
  Hypothesis HW : 0 < W.

  Notation recv := (recv M um W max).
  Notation recv_n := (recv_n M um W max).
  Notation fits := (fun f : list Z => len f + 8 <= max_int W).

  (** One complete item at the head of the stream, a faithful transport. *)
  Lemma recv_frame f tail t :
    is_frame f -> fits f -> (0 < max -> len f <= max) -> faithful (t_sched t) -> t_rest t = f ++ tail ->
    let r := recv t in
    r_out r = RMsg (um f) /\ t_rest (r_tr r) = tail /\ faithful (t_sched (r_tr r)) /\
    t_end (r_tr r) = t_end t /\ consumed r = len f.
  Proof.
    intros Hf Hfit Hmax Hfa Ht r.
    pose proof (frame_len_ge8 f Hf) as H8.
    destruct (HN_frame_gen W f tail HW Hf) as (N & _ & HNf & HN). specialize (HNf Hfit). subst N.
    assert (Hm8 : 0 < max -> 8 <= max) by (intros Hm; specialize (Hmax Hm); lia).
    pose proof (recv_progress M um W max (f ++ tail) (len f) HN (or_intror H8) Hm8 (t_end t) t Ht Hfa eq_refl) as (_ & HB & _).
    assert (Hno : ~ oversize max (len f)) by (unfold oversize; lia).
    assert (Hle : len f <= len (f ++ tail)) by (rewrite st_len_app; pose proof (st_len_nonneg tail); lia).
    destruct (HB Hno Hle) as (Ho & Hr & Hf' & He).
    rewrite st_take_app_exact in Ho. rewrite st_drop_app_exact in Hr.
    fold r in Ho, Hr, Hf', He. repeat split; try assumption.
    pose proof (recv_safe M um W max (f ++ tail) (len f) HN (or_intror H8) t Ht) as (_ & p & HD & Hc & _ & _ & Hmsg & _).
    fold r in HD, Hc, Hmsg. destruct (Hmsg _ Ho) as [Hp _]. lia.
  Qed.

  (** Exact delivery: any number of items of any size, any faithful chunking. *)
  Lemma recv_exact frames : forall tail t,
    Forall is_frame frames -> Forall fits frames -> (0 < max -> Forall (fun f => len f <= max) frames) ->
    faithful (t_sched t) -> t_rest t = concat frames ++ tail ->
    let rs := recv_n (length frames) t in
    map r_out rs = map (fun f => RMsg (um f)) frames /\
    map consumed rs = map len frames /\
    map (fun r => t_rest (r_tr r)) rs = tails frames tail /\
    t_rest (last_tr t rs) = tail /\ faithful (t_sched (last_tr t rs)) /\ t_end (last_tr t rs) = t_end t.
  Proof.
    induction frames as [|f fs IH]; intros tail t Hfr Hfit Hmax Hfa Ht.
    - cbn [length Stream.recv_n map tails last_tr last]. cbn [concat app] in Ht. repeat split; try reflexivity; assumption.
    - inversion Hfr as [|? ? Hf Hfs]; subst. inversion Hfit as [|? ? Hff Hffs]; subst.
      cbn [concat] in Ht. rewrite <- app_assoc in Ht.
      assert (Hmf : 0 < max -> len f <= max) by (intros Hm; specialize (Hmax Hm); inversion Hmax; assumption).
      assert (Hmfs : 0 < max -> Forall (fun f => len f <= max) fs) by (intros Hm; specialize (Hmax Hm); inversion Hmax; assumption).
      destruct (recv_frame f (concat fs ++ tail) t Hf Hff Hmf Hfa Ht) as (Ho & Hr & Hf' & He & Hc).
      specialize (IH tail (r_tr (recv t)) Hfs Hffs Hmfs Hf' Hr).
      destruct IH as (I1 & I2 & I3 & I4 & I5 & I6).
      cbn [length Stream.recv_n map tails]. rewrite Ho, Hc, Hr, I1, I2, I3.
      repeat split; try reflexivity.
      + unfold last_tr in *. cbn [map]. rewrite st_last_cons. exact I4.
      + unfold last_tr in *. cbn [map]. rewrite st_last_cons. exact I5.
      + unfold last_tr in *. cbn [map]. rewrite st_last_cons. rewrite I6. exact He.
  Qed.

  Lemma recv_n_snoc n : forall t,
    recv_n (S n) t = recv_n n t ++ [recv (last_tr t (recv_n n t))].
  Proof.
    induction n as [|n IH]; intros t; [reflexivity|].
    change (recv_n (S (S n)) t) with (recv t :: recv_n (S n) (r_tr (recv t))).
    rewrite IH. cbn [Stream.recv_n app]. f_equal. f_equal. f_equal.
    unfold last_tr. cbn [map]. rewrite st_last_cons. reflexivity.
  Qed.

  (** Clean end of stream: the transport's end error. *)
  Lemma recv_end t : faithful (t_sched t) -> t_rest t = [] -> r_out (recv t) = RErr (t_end t).
  Proof.
    intros Hfa Ht.
    unfold Stream.recv. rewrite Nat.add_comm. cbn [Nat.add Stream.recv_loop].
    destruct (tr_read (l_tr (recv_init t)) (l_need (recv_init t) - l_read (recv_init t))) as [[chunk err] t'] eqn:Htr.
    rewrite (recv_step_simpl M um W max _ chunk err t' (inv0_init W t) Htr).
    cbn [recv_init l_tr l_need l_read] in Htr.
    pose proof (tr_read_faithful _ _ _ _ _ Htr ltac:(lia) Hfa) as (_ & Hempty & _).
    destruct (Hempty Ht) as [Hch Herr]. subst chunk err.
    unfold step_simpl. cbn [recv_init l_read l_need l_cap l_trace l_tr l_buf].
    unfold buf0. cbn. reflexivity.
  Qed.

  (** A stream that ends inside an item, a faithful transport: an error. *)
  Lemma recv_cut p t :
    is_cut_frame p -> (0 < max -> 8 <= max) -> faithful (t_sched t) -> t_rest t = p ->
    r_out (recv t) = RErr (t_end t) \/ r_out (recv t) = RTooBig.
  Proof.
    intros (f & q & Hf & Hfp & Hq) Hm8 Hfa Ht.
    pose proof (frame_len_ge8 f Hf) as H8.
    destruct (HN_cut_gen W p f q HW Hf Hfp) as (N & HNc & _ & HN).
    assert (HN8 : N < 0 \/ 8 <= N) by (destruct HNc; lia).
    pose proof (recv_progress M um W max p N HN HN8 Hm8 (t_end t) t Ht Hfa eq_refl) as (HA & _ & HC).
    assert (Hlt : len p < len f).
    { rewrite Hfp, st_len_app. destruct q; [congruence|]. unfold len. cbn [length]. lia. }
    destruct (Z_lt_le_dec (len p) 8) as [Hs|Hl].
    - left. destruct (HC (or_introl Hs)) as [Ho _]. exact Ho.
    - destruct HNc as [Hneg|Heq].
      + right. apply HA; [exact Hl | left; lia].
      + subst N. destruct (Z_lt_le_dec 0 max) as [Hpos|Hnpos].
        * destruct (Z_lt_le_dec max (len f)) as [Hov|Hfit].
          -- right. apply HA; [exact Hl | right; split; assumption].
          -- left. assert (Hno : ~ oversize max (len f)) by (unfold oversize; lia).
             destruct (HC (or_intror (conj Hno Hlt))) as [Ho _]. exact Ho.
        * left. assert (Hno : ~ oversize max (len f)) by (unfold oversize; lia).
          destruct (HC (or_intror (conj Hno Hlt))) as [Ho _]. exact Ho.
  Qed.

  Lemma recv_cut_fits p f q t :
    is_frame f -> f = p ++ q -> q <> [] -> fits f -> (0 < max -> len f <= max) -> faithful (t_sched t) -> t_rest t = p ->
    r_out (recv t) = RErr (t_end t).
  Proof.
    intros Hf Hfp Hq Hfit Hmax Hfa Ht.
    pose proof (frame_len_ge8 f Hf) as H8.
    destruct (HN_cut_gen W p f q HW Hf Hfp) as (N & _ & HNf & HN). specialize (HNf Hfit). subst N.
    assert (Hm8 : 0 < max -> 8 <= max) by (intros Hm; specialize (Hmax Hm); lia).
    pose proof (recv_progress M um W max p (len f) HN (or_intror H8) Hm8 (t_end t) t Ht Hfa eq_refl) as (_ & _ & HC).
    assert (Hlt : len p < len f).
    { rewrite Hfp, st_len_app. destruct q; [congruence|]. unfold len. cbn [length]. lia. }
    assert (Hno : ~ oversize max (len f)) by (unfold oversize; lia).
    destruct (HC (or_intror (conj Hno Hlt))) as [Ho _]. exact Ho.
  Qed.

  (** Messages, then a stream that ends cleanly or inside an item: the messages, then the end error. *)
  Lemma recv_truncated frames p t :
    Forall is_frame frames -> Forall fits frames -> (0 < max -> Forall (fun f => len f <= max) frames) ->
    (p = [] \/ exists f q, is_frame f /\ f = p ++ q /\ q <> [] /\ fits f /\ (0 < max -> len f <= max)) ->
    faithful (t_sched t) -> t_rest t = concat frames ++ p ->
    map r_out (recv_n (S (length frames)) t) = map (fun f => RMsg (um f)) frames ++ [RErr (t_end t)].
  Proof.
    intros Hfr Hfits Hmax Hp Hfa Ht.
    destruct (recv_exact frames p t Hfr Hfits Hmax Hfa Ht) as (I1 & _ & _ & I4 & I5 & I6).
    rewrite recv_n_snoc, map_app, I1. cbn [map]. f_equal. f_equal. rewrite <- I6.
    destruct Hp as [Hp|(f & q & Hf & Hfp & Hq & Hff & Hfit)].
    - apply recv_end; [exact I5 | rewrite I4; exact Hp].
    - apply (recv_cut_fits p f q); assumption.
  Qed.

  (* ---- whatever the transport answers *)

  (** A stream that ends inside an item never yields a message. *)
  Lemma recv_cut_any p t : is_cut_frame p -> t_rest t = p ->
    (forall x, r_out (recv t) <> RMsg x) /\ r_out (recv t) <> RPanic /\ r_out (recv t) <> RFuel.
  Proof.
    intros (f & q & Hf & Hfp & Hq) Ht.
    pose proof (frame_len_ge8 f Hf) as H8.
    destruct (HN_cut_gen W p f q HW Hf Hfp) as (N & HNc & _ & HN).
    assert (HN8 : N < 0 \/ 8 <= N) by (destruct HNc; lia).
    pose proof (recv_safe M um W max p N HN HN8 t Ht) as (Hnp & p' & HD & Hc & _ & _ & Hmsg & _).
    split; [|split; [exact Hnp | apply recv_terminates]].
    intros x Hx. destruct (Hmsg x Hx) as (Hl & _ & Hno).
    assert (len p' <= len p) by (rewrite HD; rewrite st_len_app; pose proof (st_len_nonneg (t_rest (r_tr (recv t)))); lia).
    assert (len p < len f).
    { rewrite Hfp, st_len_app. destruct q; [congruence|]. unfold len. cbn [length]. lia. }
    destruct HNc as [Hneg|Heq]; [apply Hno; left; lia | lia].
  Qed.

  (** Never more than the current item: requests, consumption, and the bytes that follow it. *)
  Lemma recv_no_overread f tail t : is_frame f -> fits f -> t_rest t = f ++ tail ->
    let r := recv t in
    r_out r <> RPanic /\
    trace_ok (len f) 0 (r_trace r) /\
    (exists p, f ++ tail = p ++ t_rest (r_tr r) /\ consumed r = len p /\ len p <= len f) /\
    (forall x, r_out r = RMsg x -> x = um f /\ t_rest (r_tr r) = tail /\ consumed r = len f).
  Proof.
    intros Hf Hfit Ht r.
    pose proof (frame_len_ge8 f Hf) as H8.
    destruct (HN_frame_gen W f tail HW Hf) as (N & _ & HNf & HN). specialize (HNf Hfit). subst N.
    pose proof (recv_safe M um W max (f ++ tail) (len f) HN (or_intror H8) t Ht) as (Hnp & p & HD & Hc & Hle & _ & Hmsg & _ & _ & Htr).
    fold r in Hnp, HD, Hc, Hmsg, Htr.
    split; [exact Hnp|]. split; [exact Htr|]. split.
    - exists p. repeat split; try assumption. lia.
    - intros x Hx. destruct (Hmsg x Hx) as (Hl & Hxe & _).
      rewrite st_take_app_exact in Hxe. split; [exact Hxe|].
      assert (Hp : p = f).
      { rewrite <- (st_take_app_exact f tail). rewrite HD. rewrite <- Hl. apply eq_sym. apply st_take_app_exact. }
      subst p. split; [|lia]. apply app_inv_head in HD. symmetry. exact HD.
  Qed.

  (** A header announcing more than the limit, or more than an int can hold: never accepted,
      the buffer is not grown, the body is not read. *)
  Lemma recv_oversize_any h total z t :
    is_header h total -> (0 < max < total \/ max_int W < total) -> t_rest t = h ++ z ->
    let r := recv t in
    (forall x, r_out r <> RMsg x) /\ r_out r <> RPanic /\ r_out r <> RFuel /\
    r_cap r = buf0 /\ consumed r <= 8.
  Proof.
    intros Hh Hmx Ht r.
    pose proof (header_total_ge8 _ _ Hh) as H8.
    destruct (HN_header_gen W h total z HW Hh) as (N & HNc & HNu & HN).
    assert (HN8 : N < 0 \/ 8 <= N) by (destruct HNc; lia).
    pose proof (recv_safe M um W max (h ++ z) N HN HN8 t Ht) as (Hnp & p & HD & Hc & _ & Hov & Hmsg & _ & Hcap & _).
    fold r in Hnp, HD, Hc, Hmsg, Hcap.
    assert (Hos : oversize max N).
    { unfold oversize. destruct Hmx as [Hmx|Hmx]; [|left; rewrite (HNu Hmx); lia].
      destruct HNc as [->| ->]; [left; lia | right; lia]. }
    repeat split.
    - intros x Hx. destruct (Hmsg x Hx) as (_ & _ & Hno). exact (Hno Hos).
    - exact Hnp.
    - apply recv_terminates.
    - destruct Hcap as [?|(_ & _ & _ & Hno)]; [assumption | exfalso; exact (Hno Hos)].
    - specialize (Hov Hos). lia.
  Qed.

  Lemma recv_oversize_faithful h total z t :
    is_header h total -> (0 < max < total \/ max_int W < total) -> (0 < max -> 8 <= max) ->
    faithful (t_sched t) -> t_rest t = h ++ z ->
    r_out (recv t) = RTooBig.
  Proof.
    intros Hh Hmx Hm8 Hfa Ht.
    pose proof (header_total_ge8 _ _ Hh) as H8.
    destruct (HN_header_gen W h total z HW Hh) as (N & HNc & HNu & HN).
    assert (HN8 : N < 0 \/ 8 <= N) by (destruct HNc; lia).
    pose proof (recv_progress M um W max (h ++ z) N HN HN8 Hm8 (t_end t) t Ht Hfa eq_refl) as (HA & _).
    apply HA.
    - rewrite st_len_app, (header_len _ _ Hh). pose proof (st_len_nonneg z). lia.
    - unfold oversize. destruct Hmx as [Hmx|Hmx]; [|left; rewrite (HNu Hmx); lia].
      destruct HNc as [->| ->]; [left; lia | right; lia].
  Qed.

  (** Arbitrary bytes, arbitrary transport: no panic, termination, bounded buffer and consumption. *)
  Lemma recv_bytes_any t : bytes_ok (t_rest t) = true ->
    let r := recv t in
    r_out r <> RPanic /\ r_out r <> RFuel /\
    (0 < max -> r_cap r <= Z.max buf0 max) /\
    r_cap r <= Z.max buf0 (announced W (t_rest t)) /\
    consumed r <= Z.max 8 (announced W (t_rest t)) /\ consumed r <= len (t_rest t).
  Proof.
    intros Hb r.
    pose proof (announced_range W _ HW Hb) as Hrange.
    assert (HN8 : announced W (t_rest t) < 0 \/ 8 <= announced W (t_rest t)) by lia.
    pose proof (recv_safe M um W max (t_rest t) (announced W (t_rest t)) (HN_bytes W _) HN8 t eq_refl)
      as (Hnp & p & HD & Hc & Hle & Hov & _ & _ & Hcap & _).
    fold r in Hnp, HD, Hc, Hcap.
    split; [exact Hnp|]. split; [apply recv_terminates|]. unfold oversize in Hcap, Hov. repeat split.
    - intros Hm. destruct Hcap as [->|(-> & _ & _ & Hno)]; lia.
    - destruct Hcap as [->|(-> & _)]; lia.
    - destruct Hle; lia.
    - rewrite Hc. pose proof (st_len_nonneg (t_rest (r_tr r))) as Hnn. rewrite HD, st_len_app. lia.
  Qed.
End Results.

(* ------------------------------------------------------------------ 32-bit int *)

(** Where Go's [int] has 32 bits an announced length of 2^31 or more does not fit.  Before the
    commit "fix: Stream.Recv rejects announced lengths that overflow int on 32-bit platforms"
    [computeNeededBytes] wrapped around (8 for 0xFFFFFFFF, negative for 0x80000000), by-passing
    the limit; now such a header is refused, with or without a configured limit. *)
Definition hdr_ffffffff : list Z := [66; 0; 1; 8; 255; 255; 255; 255].
Definition hdr_80000000 : list Z := [66; 0; 1; 8; 128; 0; 0; 0].

Lemma hdr_ffffffff_is_header : is_header hdr_ffffffff (2 ^ 32 + 8).
Proof. exists [66; 0; 1], 8, (2 ^ 32 - 1). repeat split; try reflexivity; vm_compute; congruence. Qed.

Lemma hdr_80000000_is_header : is_header hdr_80000000 (2 ^ 31 + 8).
Proof. exists [66; 0; 1], 8, (2 ^ 31). repeat split; try reflexivity; vm_compute; congruence. Qed.

Lemma ex_int32_rejected M (um : list Z -> res M) :
  r_out (recv M um 32 1048576 (mkTr (hdr_ffffffff ++ zeros 64) 0 [])) = RTooBig /\
  r_out (recv M um 32 1048576 (mkTr (hdr_80000000 ++ zeros 64) 0 [])) = RTooBig /\
  r_out (recv M um 32 (-1) (mkTr (hdr_ffffffff ++ zeros 64) 0 [])) = RTooBig /\
  r_cap (recv M um 32 (-1) (mkTr (hdr_80000000 ++ zeros 64) 0 [])) = 512.
Proof. vm_compute. repeat split. Qed.

(* ------------------------------------------------------------------ examples (non-vacuity) *)

Definition ex_f1 : list Z := [66; 0; 1; 8; 0; 0; 0; 3; 1; 2; 3; 0; 0; 0; 0; 0].
Definition ex_f2 : list Z := [66; 0; 2; 8; 0; 0; 0; 0].
Definition ex_f3 : list Z := [66; 0; 3; 8; 0; 0; 0; 9; 1; 2; 3; 4; 5; 6; 7; 8; 9; 0; 0; 0; 0; 0; 0; 0].

Lemma ex_f1_frame : is_frame ex_f1.
Proof. exists [66; 0; 1], 8, 3, [1; 2; 3; 0; 0; 0; 0; 0]. repeat split; try reflexivity; vm_compute; congruence. Qed.
Lemma ex_f2_frame : is_frame ex_f2.
Proof. exists [66; 0; 2], 8, 0, []. repeat split; try reflexivity; vm_compute; congruence. Qed.
Lemma ex_f3_frame : is_frame ex_f3.
Proof. exists [66; 0; 3], 8, 9, [1; 2; 3; 4; 5; 6; 7; 8; 9; 0; 0; 0; 0; 0; 0; 0]. repeat split; try reflexivity; vm_compute; congruence. Qed.

(** byte-wise delivery, the end error (io.EOF) returned together with the last byte *)
Definition ex_sched_bytewise : list ans := repeat (Chunk 1 true) 60.
(** reads larger than what is asked, spanning item boundaries on the transport's side *)
Definition ex_sched_coalesced : list ans := [Chunk 1000 false; Chunk 5 false; Chunk 1000 true; Chunk 3 false].

Lemma ex_faithful_bytewise : faithful ex_sched_bytewise.
Proof. vm_compute. repeat split; congruence. Qed.
Lemma ex_faithful_coalesced : faithful ex_sched_coalesced.
Proof. vm_compute. repeat split; congruence. Qed.

Lemma ex_exact_bytewise :
  map r_out (recv_n (list Z) Ok 64 1048576 4 (mkTr (ex_f1 ++ ex_f2 ++ ex_f3) 0 ex_sched_bytewise))
  = [RMsg (Ok ex_f1); RMsg (Ok ex_f2); RMsg (Ok ex_f3); RErr 0].
Proof. vm_compute. reflexivity. Qed.

Lemma ex_exact_coalesced :
  map r_out (recv_n (list Z) Ok 64 0 4 (mkTr (ex_f1 ++ ex_f2 ++ ex_f3) 7 ex_sched_coalesced))
  = [RMsg (Ok ex_f1); RMsg (Ok ex_f2); RMsg (Ok ex_f3); RErr 7].
Proof. vm_compute. reflexivity. Qed.

Lemma ex_cut : is_cut_frame (firstn 13 ex_f3).
Proof. exists ex_f3, (skipn 13 ex_f3). split; [exact ex_f3_frame|]. split; [reflexivity | discriminate]. Qed.

Lemma ex_truncated :
  map r_out (recv_n (list Z) Ok 64 1048576 3 (mkTr (ex_f1 ++ ex_f2 ++ firstn 13 ex_f3) 0 ex_sched_bytewise))
  = [RMsg (Ok ex_f1); RMsg (Ok ex_f2); RErr 0].
Proof. vm_compute. reflexivity. Qed.

Lemma ex_oversize :
  let r := recv (list Z) Ok 64 1048576 (mkTr (hdr_ffffffff ++ zeros 64) 0 ex_sched_bytewise) in
  r_out r = RTooBig /\ r_cap r = 512 /\ consumed r = 8.
Proof. vm_compute. repeat split. Qed.

(** without a limit the same header makes [Recv] ask for a 4 GiB buffer (kmipclient passes no limit) *)
Lemma ex_no_limit_grows :
  r_cap (recv (list Z) Ok 64 (-1) (mkTr (hdr_ffffffff ++ zeros 64) 0 [])) = 2 ^ 32 + 8.
Proof. vm_compute. reflexivity. Qed.
