From Coq Require Import ZArith List Bool Lia.
From KV Require Import Base Stream.
Import ListNotations.
Open Scope Z_scope.

Lemma stub_true : True. Proof. exact I. Qed.
