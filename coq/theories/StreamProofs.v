(** Proofs about the stream-framing model (Stream.v). *)
From Coq Require Import ZArith List Bool Lia.
From KV Require Import Base Stream.
Import ListNotations.
Open Scope Z_scope.

(* ------------------------------------------------------------------ lists with Z indices *)

Lemma st_len_nonneg {A} (l : list A) : 0 <= len l.
Proof. unfold len. lia. Qed.

Lemma st_len_app {A} (a b : list A) : len (a ++ b) = len a + len b.
Proof. unfold len. rewrite app_length. lia. Qed.

Lemma st_len_nil {A} : len (@nil A) = 0.
Proof. reflexivity. Qed.

Lemma st_len_zero {A} (l : list A) : len l = 0 -> l = [].
Proof. unfold len. destruct l; cbn [length]; [reflexivity | lia]. Qed.

Lemma st_len_take {A} (n : Z) (l : list A) : len (take n l) = Z.max 0 (Z.min n (len l)).
Proof. unfold len, take. rewrite firstn_length. lia. Qed.

Lemma st_len_drop {A} (n : Z) (l : list A) : len (drop n l) = len l - Z.max 0 (Z.min n (len l)).
Proof. unfold len, drop. rewrite skipn_length. lia. Qed.

Lemma st_take_drop {A} (n : Z) (l : list A) : take n l ++ drop n l = l.
Proof. unfold take, drop. apply firstn_skipn. Qed.

Lemma st_take_all {A} (n : Z) (l : list A) : len l <= n -> take n l = l.
Proof. unfold len, take. intros H. apply firstn_all2. lia. Qed.

Lemma st_take_app_exact {A} (a b : list A) : take (len a) (a ++ b) = a.
Proof.
  unfold take, len. rewrite Nat2Z.id. rewrite firstn_app. rewrite Nat.sub_diag. cbn [firstn].
  rewrite firstn_all. apply app_nil_r.
Qed.

Lemma st_drop_app_exact {A} (a b : list A) : drop (len a) (a ++ b) = b.
Proof.
  unfold drop, len. rewrite Nat2Z.id. rewrite skipn_app. rewrite Nat.sub_diag. cbn [skipn].
  rewrite skipn_all. reflexivity.
Qed.

Lemma st_take_app_le {A} (n : Z) (a b : list A) : n <= len a -> take n (a ++ b) = take n a.
Proof.
  unfold take, len. intros H. rewrite firstn_app.
  replace (Z.to_nat n - length a)%nat with 0%nat by lia. cbn [firstn]. apply app_nil_r.
Qed.

Lemma st_take_0 {A} (l : list A) : take 0 l = [].
Proof. reflexivity. Qed.

Lemma st_drop_0 {A} (l : list A) : drop 0 l = l.
Proof. reflexivity. Qed.

(** splitting at a position inside the first part *)
Lemma st_app_split {A} (n : Z) (l : list A) : 0 <= n <= len l -> exists a b, l = a ++ b /\ len a = n.
Proof.
  intros H. exists (take n l), (drop n l). split; [symmetry; apply st_take_drop|].
  rewrite st_len_take. lia.
Qed.

(* ------------------------------------------------------------------ integers *)

Lemma wrap_small W v : 0 < W -> - 2 ^ (W - 1) <= v < 2 ^ (W - 1) -> wrap W v = v.
Proof.
  intros HW Hv. unfold wrap.
  assert (Hp : 2 ^ W = 2 * 2 ^ (W - 1)).
  { replace W with (Z.succ (W - 1)) at 1 by lia. rewrite Z.pow_succ_r by lia. reflexivity. }
  assert (Hpos : 0 < 2 ^ (W - 1)) by (apply Z.pow_pos_nonneg; lia).
  destruct (Z_lt_le_dec v 0) as [Hneg|Hnn].
  - replace (v mod 2 ^ W) with (v + 2 ^ W).
    + destruct (Z.ltb_spec (v + 2 ^ W) (2 ^ (W - 1))); lia.
    + rewrite <- (Z.mod_small (v + 2 ^ W) (2 ^ W)) at 1 by lia.
      replace (v + 2 ^ W) with (v + 1 * 2 ^ W) by lia. apply Z.mod_add. lia.
  - rewrite Z.mod_small by lia. destruct (Z.ltb_spec v (2 ^ (W - 1))); lia.
Qed.

Lemma pad8_range l : 0 <= pad8 l < 8.
Proof. unfold pad8. apply Z.mod_pos_bound. lia. Qed.

Lemma pad_for_len8_nonneg l : 0 <= l -> pad_for_len8 l = pad8 l.
Proof.
  intros H. unfold pad_for_len8, pad8.
  rewrite (Z.rem_mod_nonneg l 8) by lia.
  pose proof (Z.mod_pos_bound l 8 ltac:(lia)).
  rewrite Z.rem_mod_nonneg by lia. reflexivity.
Qed.

Lemma padded_mult8 l : (l + pad8 l) mod 8 = 0.
Proof.
  unfold pad8. pose proof (Z.mod_pos_bound l 8 ltac:(lia)) as Hb.
  destruct (Z.eq_dec (l mod 8) 0) as [E|E].
  - rewrite E. change ((8 - 0) mod 8) with 0. rewrite Z.add_0_r. exact E.
  - rewrite (Z.mod_small (8 - l mod 8) 8) by lia.
    rewrite (Z.div_mod l 8) at 1 by lia.
    replace (8 * (l / 8) + l mod 8 + (8 - l mod 8)) with ((l / 8 + 1) * 8) by lia.
    apply Z.mod_mul. lia.
Qed.

Lemma unbe_be4 l : 0 <= l < 2 ^ 32 -> unbe (be 4 l) = l.
Proof.
  intros H. unfold unbe, be. cbn [fold_left].
  change (256 ^ Z.of_nat 3) with 16777216. change (256 ^ Z.of_nat 2) with 65536.
  change (256 ^ Z.of_nat 1) with 256. change (256 ^ Z.of_nat 0) with 1.
  change (2 ^ 32) with 4294967296 in H.
  Z.div_mod_to_equations. lia.
Qed.

Lemma be4_length l : length (be 4 l) = 4%nat.
Proof. reflexivity. Qed.

(** [computeNeededBytes] on anything that starts with a header announcing length [l] *)
Lemma needed_bytes_header tag ty l x :
  length tag = 3%nat -> 0 <= l < 2 ^ 32 ->
  needed_bytes 64 (tag ++ [ty] ++ be 4 l ++ x) = 8 + l + pad8 l.
Proof.
  intros Ht Hl. unfold needed_bytes, rd_padded_len, rd_len.
  destruct tag as [|t0 [|t1 [|t2 [|? ?]]]]; try discriminate Ht.
  set (b := be 4 l).
  assert (Hb : exists b0 b1 b2 b3, b = [b0; b1; b2; b3]) by (unfold b, be; eauto).
  destruct Hb as (b0 & b1 & b2 & b3 & Hb).
  assert (Hu : unbe [b0; b1; b2; b3] = l) by (rewrite <- Hb; apply unbe_be4; exact Hl).
  rewrite Hb. cbn [app].
  assert (Hlen : len (t0 :: t1 :: t2 :: ty :: b0 :: b1 :: b2 :: b3 :: x) = 8 + len x).
  { unfold len. cbn [length]. lia. }
  rewrite Hlen. pose proof (st_len_nonneg x) as Hx.
  destruct (Z.ltb_spec (8 + len x) 8) as [?|_]; [lia|].
  destruct (Z.eqb_spec (8 + len x) 0) as [?|_]; [lia|].
  change (take 4 (drop 4 (t0 :: t1 :: t2 :: ty :: b0 :: b1 :: b2 :: b3 :: x))) with [b0; b1; b2; b3].
  rewrite Hu.
  pose proof (pad8_range l) as Hp.
  assert (H31 : 2 ^ 32 < 2 ^ (64 - 1) - 16) by (vm_compute; reflexivity).
  assert (H63 : 0 < 2 ^ (64 - 1)) by (vm_compute; reflexivity).
  rewrite (wrap_small 64 l) by lia.
  rewrite pad_for_len8_nonneg by lia.
  rewrite (wrap_small 64 (l + pad8 l)) by lia.
  rewrite wrap_small by lia. lia.
Qed.

Lemma needed_bytes_short W buf : len buf < 8 -> needed_bytes W buf = 8.
Proof. intros H. unfold needed_bytes. destruct (Z.ltb_spec (len buf) 8); [reflexivity | lia]. Qed.

(** [computeNeededBytes] only looks at the first 8 bytes *)
Lemma needed_bytes_prefix W buf x : 8 <= len buf -> needed_bytes W (buf ++ x) = needed_bytes W buf.
Proof.
  intros H. unfold needed_bytes, rd_padded_len, rd_len.
  rewrite st_len_app. pose proof (st_len_nonneg x) as Hx.
  destruct (Z.ltb_spec (len buf + len x) 8) as [?|_]; [lia|].
  destruct (Z.ltb_spec (len buf) 8) as [?|_]; [lia|].
  destruct (Z.eqb_spec (len buf + len x) 0) as [?|_]; [lia|].
  destruct (Z.eqb_spec (len buf) 0) as [?|_]; [lia|].
  assert (E : take 4 (drop 4 (buf ++ x)) = take 4 (drop 4 buf)).
  { unfold take, drop, len in *. rewrite skipn_app. rewrite firstn_app.
    rewrite skipn_length.
    replace (Z.to_nat 4 - (length buf - Z.to_nat 4))%nat with 0%nat by lia.
    cbn [firstn]. apply app_nil_r. }
  rewrite E. reflexivity.
Qed.

(* ------------------------------------------------------------------ the transport *)

Lemma clip_range k want avail : 0 <= clip k want avail /\ clip k want avail <= Z.max 0 want /\ clip k want avail <= Z.max 0 avail.
Proof. unfold clip. lia. Qed.

Lemma st_take_drop_split {A} n (l : list A) : l = take n l ++ drop n l.
Proof. symmetry. apply st_take_drop. Qed.

(** What every answer satisfies: bytes come in order, at most [want] of them. *)
Lemma tr_read_gen t want chunk err t' :
  tr_read t want = (chunk, err, t') ->
  t_rest t = chunk ++ t_rest t' /\ t_end t' = t_end t /\ len chunk <= Z.max 0 want /\
  (length (t_sched t') <= length (t_sched t))%nat.
Proof.
  unfold tr_read. intros H.
  pose proof (st_len_nonneg (t_rest t)) as Hav.
  destruct (t_sched t) as [|[k a|k e] s] eqn:Hs.
  - destruct (Z.eqb_spec (len (t_rest t)) 0) as [E|E].
    + inversion H; subst. cbn [app]. rewrite Hs. repeat split; try reflexivity; try rewrite st_len_nil; cbn [length]; lia.
    + inversion H; subst; cbn [t_rest t_end t_sched]. repeat split.
      * apply st_take_drop_split.
      * rewrite st_len_take. pose proof (clip_range want want (len (t_rest t))). lia.
      * cbn. lia.
  - destruct (Z.eqb_spec (len (t_rest t)) 0) as [E|E].
    + inversion H; subst; cbn [t_rest t_end t_sched app length]. repeat split; try reflexivity; try rewrite st_len_nil; lia.
    + inversion H; subst; cbn [t_rest t_end t_sched length]. repeat split.
      * apply st_take_drop_split.
      * rewrite st_len_take. pose proof (clip_range k want (len (t_rest t))). lia.
      * lia.
  - inversion H; subst; cbn [t_rest t_end t_sched length]. repeat split.
    + apply st_take_drop_split.
    + rewrite st_len_take. pose proof (clip_range k want (len (t_rest t))). lia.
    + lia.
Qed.

(** For the termination measure: an answer of the schedule is used up, or the schedule
    is exhausted and the read is served as fully as possible. *)
Lemma tr_read_measure t want chunk err t' :
  tr_read t want = (chunk, err, t') -> 0 < want ->
  (S (length (t_sched t')) = length (t_sched t))
  \/ (t_sched t = [] /\ t_sched t' = [] /\ (len chunk = want \/ t_rest t' = [])).
Proof.
  unfold tr_read. intros H Hw.
  pose proof (st_len_nonneg (t_rest t)) as Hav.
  destruct (t_sched t) as [|[k a|k e] s] eqn:Hs.
  - right. destruct (Z.eqb_spec (len (t_rest t)) 0) as [E|E].
    + inversion H; subst. rewrite Hs. repeat split. right. apply st_len_zero. exact E.
    + inversion H; subst; cbn [t_rest t_end t_sched]. repeat split.
      rewrite st_len_take. unfold clip.
      destruct (Z_le_gt_dec want (len (t_rest t))) as [Hle|Hgt].
      * left. lia.
      * right. apply st_len_zero. rewrite st_len_drop. lia.
  - left. destruct (Z.eqb_spec (len (t_rest t)) 0); inversion H; subst; reflexivity.
  - left. inversion H; subst; reflexivity.
Qed.

(** A faithful schedule: progress, and the end error only with or after the last bytes. *)
Lemma tr_read_faithful t want chunk err t' :
  tr_read t want = (chunk, err, t') -> 0 < want -> faithful (t_sched t) ->
  faithful (t_sched t') /\
  (t_rest t = [] -> chunk = [] /\ err = Some (t_end t)) /\
  (t_rest t <> [] -> 1 <= len chunk /\ (err = None \/ (err = Some (t_end t) /\ t_rest t' = []))).
Proof.
  unfold tr_read. intros H Hw Hf.
  pose proof (st_len_nonneg (t_rest t)) as Hav.
  assert (Hne : t_rest t <> [] -> 0 < len (t_rest t)).
  { intros Hn. destruct (t_rest t); [congruence | unfold len; cbn [length]; lia]. }
  destruct (t_sched t) as [|[k a|k e] s] eqn:Hs.
  - destruct (Z.eqb_spec (len (t_rest t)) 0) as [E|E].
    + inversion H; subst. rewrite Hs. split; [exact I|]. split; [intros _; split; reflexivity|].
      intros Hn. specialize (Hne Hn). lia.
    + inversion H; subst; cbn [t_rest t_end t_sched]. split; [exact I|]. split.
      * intros Hn. rewrite Hn in E. cbn in E. congruence.
      * intros Hn. specialize (Hne Hn). split; [|left; reflexivity].
        rewrite st_len_take. unfold clip. lia.
  - cbn [faithful] in Hf. destruct Hf as [Hk Hf].
    destruct (Z.eqb_spec (len (t_rest t)) 0) as [E|E].
    + inversion H; subst; cbn [t_rest t_end t_sched]. split; [exact Hf|]. split; [intros _; split; reflexivity|].
      intros Hn. specialize (Hne Hn). lia.
    + inversion H; subst; cbn [t_rest t_end t_sched]. split; [exact Hf|]. split.
      * intros Hn. rewrite Hn in E. cbn in E. congruence.
      * intros Hn. specialize (Hne Hn). split.
        -- rewrite st_len_take. unfold clip. lia.
        -- destruct a; cbn [andb]; [|left; reflexivity].
           destruct (Z.eqb_spec (clip k want (len (t_rest t))) (len (t_rest t))) as [Ec|Ec]; [|left; reflexivity].
           right. split; [reflexivity|]. apply st_len_zero. rewrite st_len_drop. rewrite Ec. lia.
  - cbn [faithful] in Hf. contradiction.
Qed.

(* ------------------------------------------------------------------ one iteration *)

Fixpoint tsum (tr : list (Z * Z)) : Z :=
  match tr with
  | [] => 0
  | (_, n) :: r => n + tsum r
  end.

Lemma consumed_tsum {M} (r : rres M) : consumed r = tsum (r_trace r).
Proof.
  unfold consumed. induction (r_trace r) as [|[w n] l IH]; cbn [fold_right tsum snd]; [reflexivity | rewrite IH; reflexivity].
Qed.

Lemma tsum_app a b : tsum (a ++ b) = tsum a + tsum b.
Proof. induction a as [|[w n] a IH]; cbn [app tsum]; [lia | rewrite IH; lia]. Qed.

Section Step.
  Variable M : Type.
  Variable um : list Z -> res M.
  Variable W : Z.
  Variable max : Z.

  Notation recv_step := (recv_step M um W max).
  Notation recv_loop := (recv_loop M um W max).
  Notation recv := (recv M um W max).

  (** [read = len(buf[:read])] and [need = computeNeededBytes(buf[:read])] at the loop head *)
  Definition inv0 (s : lstate) : Prop :=
    l_read s = len (l_buf s) /\ l_need s = needed_bytes W (l_buf s).

  (** The iteration with the slice expressions simplified under [inv0]. *)
  Definition step_simpl (s : lstate) (chunk : list Z) (err : option Z) (t' : tr) : step_res M :=
    let read := l_read s in
    let need := l_need s in
    let cap := if need >? l_cap s then grow_cap (l_cap s) need else l_cap s in
    let trace := l_trace s ++ [(need - read, len chunk)] in
    if (read >? need) || (need >? cap) then Done M (mkRes RPanic (l_tr s) cap (l_trace s)) else
    if len chunk =? 0 then
      match err with
      | Some e => Done M (mkRes (RErr e) t' cap trace)
      | None => Done M (mkRes (RZero (read =? 0)) t' cap trace)
      end
    else
      let buf := l_buf s ++ chunk in
      let read' := read + len chunk in
      let need' := needed_bytes W buf in
      if (0 <? max) && (need' >? max) then Done M (mkRes RTooBig t' cap trace) else
      if need' <=? read' then
        if (need' <? 0) || (need' >? cap) then Done M (mkRes RPanic t' cap trace)
        else Done M (mkRes (RMsg (um (take need' buf))) t' cap trace)
      else
        match err with
        | Some e => Done M (mkRes (RErr e) t' cap trace)
        | None => Continue M (mkL t' buf read' need' cap trace)
        end.

  Lemma recv_step_simpl s chunk err t' :
    inv0 s -> tr_read (l_tr s) (l_need s - l_read s) = (chunk, err, t') ->
    recv_step s = step_simpl s chunk err t'.
  Proof.
    intros [Hr Hn] Ht. unfold recv_step, step_simpl. rewrite Ht.
    pose proof (st_len_nonneg (l_buf s)) as Hb.
    destruct (Z.ltb_spec (l_read s) 0) as [?|_]; [lia|]. cbn [orb].
    rewrite (st_take_all (l_read s) (l_buf s)) by lia.
    rewrite (st_take_all (l_read s + len chunk) (l_buf s ++ chunk)) by (rewrite st_len_app; lia).
    reflexivity.
  Qed.

  Lemma inv0_init t : inv0 (recv_init t).
  Proof. split; reflexivity. Qed.

  Lemma inv0_continue s chunk err t' s' :
    inv0 s -> step_simpl s chunk err t' = Continue M s' ->
    inv0 s' /\ err = None /\ l_tr s' = t' /\ l_buf s' = l_buf s ++ chunk /\ 0 < len chunk /\
    l_read s' < l_need s' /\ l_read s <= l_need s /\
    l_trace s' = l_trace s ++ [(l_need s - l_read s, len chunk)] /\
    l_cap s' = (if l_need s >? l_cap s then grow_cap (l_cap s) (l_need s) else l_cap s) /\
    l_need s <= l_cap s'.
  Proof.
    intros [Hr Hn] H. unfold step_simpl in H.
    pose proof (st_len_nonneg chunk) as Hc.
    destruct (_ || _) eqn:Hp in H; [discriminate|].
    apply orb_false_iff in Hp. destruct Hp as [Hp1 Hp2].
    destruct (Z.eqb_spec (len chunk) 0) as [?|Hne]; [destruct err; discriminate|].
    destruct (_ && _) in H; [discriminate|].
    destruct (Z.leb_spec (needed_bytes W (l_buf s ++ chunk)) (l_read s + len chunk)) as [?|Hlt].
    { destruct (_ || _) in H; discriminate. }
    destruct err; [discriminate|]. inversion H; subst s'; unfold inv0; cbn [l_tr l_buf l_read l_need l_cap l_trace].
    assert (l_read s <= l_need s) by (destruct (Z.gtb_spec (l_read s) (l_need s)); [discriminate | lia]).
    assert (l_need s <= (if l_need s >? l_cap s then grow_cap (l_cap s) (l_need s) else l_cap s))
      by (destruct (Z.gtb_spec (l_need s) (if l_need s >? l_cap s then grow_cap (l_cap s) (l_need s) else l_cap s)); [discriminate | lia]).
    repeat split; try reflexivity; try rewrite st_len_app; try lia.
  Qed.

  (* ---------------------------------------------------------------- termination *)

  Definition mu (s : lstate) : nat :=
    (length (t_sched (l_tr s)) + (if (l_read s <? 8)%Z then 1 else 0)
     + (match t_rest (l_tr s) with [] => 0 | _ => 1 end))%nat.

  Lemma step_measure s s' : inv0 s -> recv_step s = Continue M s' -> (mu s' < mu s)%nat.
  Proof.
    intros Hi H.
    destruct (tr_read (l_tr s) (l_need s - l_read s)) as [[chunk err] t'] eqn:Ht.
    rewrite (recv_step_simpl s chunk err t' Hi Ht) in H.
    destruct (inv0_continue s chunk err t' s' Hi H) as (Hi' & He & Htr & Hbuf & Hc & Hlt & Hle & _).
    destruct Hi as [Hr Hn]. destruct Hi' as [Hr' Hn'].
    pose proof (tr_read_gen _ _ _ _ _ Ht) as (Hsplit & _ & Hcw & _).
    assert (Hw : 0 < l_need s - l_read s) by lia.
    pose proof (tr_read_measure _ _ _ _ _ Ht Hw) as Hm.
    assert (Hrest : (match t_rest t' with [] => 0 | _ => 1 end <= match t_rest (l_tr s) with [] => 0 | _ => 1 end)%nat).
    { rewrite Hsplit. destruct chunk; [cbn in Hc; lia|]. cbn [app]. destruct (t_rest t'); lia. }
    assert (Hread' : l_read s' = l_read s + len chunk) by (rewrite Hr', Hbuf, st_len_app; lia).
    unfold mu. rewrite Htr.
    assert (Hph : ((if (l_read s' <? 8)%Z then 1 else 0) <= (if (l_read s <? 8)%Z then 1 else 0))%nat).
    { destruct (Z.ltb_spec (l_read s') 8), (Z.ltb_spec (l_read s) 8); lia. }
    destruct Hm as [Hm | (Hs1 & Hs2 & [Hfull | Hdrained])].
    - lia.
    - (* the read was served in full: the header is complete now (the message would be otherwise) *)
      rewrite Hs1, Hs2. cbn [length].
      destruct (Z.ltb_spec (l_read s) 8) as [Hh|Hh].
      + assert (l_need s = 8) by (rewrite Hn; apply needed_bytes_short; lia).
        destruct (Z.ltb_spec (l_read s') 8); lia.
      + exfalso. rewrite Hn' in Hlt. rewrite Hbuf in Hlt. rewrite needed_bytes_prefix in Hlt by lia.
        rewrite <- Hn in Hlt. lia.
    - rewrite Hs1, Hs2, Hdrained. cbn [length].
      rewrite Hsplit. destruct chunk; [cbn in Hc; lia|]. cbn [app]. lia.
  Qed.

  Lemma recv_loop_terminates fuel : forall s,
    inv0 s -> (mu s < fuel)%nat -> r_out (recv_loop fuel s) <> RFuel.
  Proof.
    induction fuel as [|f IH]; intros s Hi Hm; [lia|].
    cbn [recv_loop]. destruct (recv_step s) as [r|s'] eqn:Hs.
    - destruct (tr_read (l_tr s) (l_need s - l_read s)) as [[chunk err] t'] eqn:Ht.
      rewrite (recv_step_simpl s chunk err t' Hi Ht) in Hs. unfold step_simpl in Hs.
      repeat match type of Hs with
      | (if ?c then _ else _) = _ => destruct c
      | match ?e with Some _ => _ | None => _ end = _ => destruct e
      end; inversion Hs; subst r; cbn [r_out]; discriminate.
    - pose proof (step_measure s s' Hi Hs) as Hlt.
      destruct (tr_read (l_tr s) (l_need s - l_read s)) as [[chunk err] t'] eqn:Ht.
      rewrite (recv_step_simpl s chunk err t' Hi Ht) in Hs.
      destruct (inv0_continue s chunk err t' s' Hi Hs) as (Hi' & _).
      apply IH; [exact Hi' | lia].
  Qed.

  (** [Recv] always returns: whatever the stream holds and however the transport answers. *)
  Lemma recv_terminates t : r_out (recv t) <> RFuel.
  Proof.
    unfold recv. apply recv_loop_terminates; [apply inv0_init|].
    unfold mu, recv_init; cbn [l_tr l_read]. destruct (t_rest t); cbn; lia.
  Qed.
End Step.

(* ------------------------------------------------------------------ safety: any transport *)

(** The Read calls of one [Recv] on a stream whose first item announces [N] bytes in all:
    each asks for exactly what is missing of the header (while fewer than 8 bytes have
    been received) or of the item (afterwards), never for nothing. [c] = bytes received
    before the call. *)
Fixpoint trace_ok (N c : Z) (tr : list (Z * Z)) : Prop :=
  match tr with
  | [] => True
  | (w, n) :: r => w = (if c <? 8 then 8 else N) - c /\ 0 < w /\ 0 <= n <= w /\ trace_ok N (c + n) r
  end.

Lemma trace_ok_app N a : forall c w n,
  trace_ok N c a -> w = (if c + tsum a <? 8 then 8 else N) - (c + tsum a) -> 0 < w -> 0 <= n <= w ->
  trace_ok N c (a ++ [(w, n)]).
Proof.
  induction a as [|[w0 n0] a IH]; intros c w n Ha Hw Hp Hn; cbn [app tsum trace_ok] in *.
  - rewrite Z.add_0_r in Hw. repeat split; try lia.
  - destruct Ha as (H1 & H2 & H3 & H4). repeat split; try lia.
    apply IH; try assumption. rewrite Hw. replace (c + n0 + tsum a) with (c + (n0 + tsum a)) by lia. reflexivity.
Qed.

Section Safety.
  Variable M : Type.
  Variable um : list Z -> res M.
  Variable W : Z.
  Variable max : Z.
  (** [D]: the bytes the transport holds when [Recv] is called. [N]: the size announced by
      their first 8 bytes (any number >= 8 when there are fewer than 8). *)
  Variable D : list Z.
  Variable N : Z.
  Hypothesis HN : forall b x, D = b ++ x -> 8 <= len b -> needed_bytes W b = N.
  Hypothesis HN8 : 8 <= N.

  Notation recv_step := (recv_step M um W max).
  Notation recv_loop := (recv_loop M um W max).
  Notation recv := (recv M um W max).

  Definition oversize : Prop := 0 < max /\ max < N.

  Definition inv (s : lstate) : Prop :=
    inv0 W s /\
    D = l_buf s ++ t_rest (l_tr s) /\
    l_read s < l_need s /\
    (l_cap s = buf0 \/ (l_cap s = N /\ buf0 < N /\ 8 <= l_read s)) /\
    (8 <= l_read s -> ~ oversize) /\
    (0 < l_read s -> 0 < max -> 8 <= max) /\
    trace_ok N 0 (l_trace s) /\ tsum (l_trace s) = l_read s.

  (** What a finished [Recv] guarantees. [p]: the bytes it took from the transport. *)
  Definition post (r : rres M) : Prop :=
    r_out r <> RPanic /\
    exists p, D = p ++ t_rest (r_tr r) /\ consumed r = len p /\
      (len p <= 8 \/ len p <= N) /\
      (oversize -> len p <= 8) /\
      (forall x, r_out r = RMsg x -> len p = N /\ x = um (take N D) /\ ~ oversize) /\
      (r_out r = RTooBig -> 0 < max /\ (max < 8 \/ (8 <= len p /\ max < N))) /\
      (r_cap r = buf0 \/ (r_cap r = N /\ buf0 < N /\ 8 <= len p /\ ~ oversize)) /\
      trace_ok N 0 (r_trace r).

  Lemma need_of_inv s : inv s -> l_need s = if l_read s <? 8 then 8 else N.
  Proof.
    intros ((Hr & Hn) & HD & _). rewrite Hn.
    destruct (Z.ltb_spec (l_read s) 8) as [H|H].
    - apply needed_bytes_short. lia.
    - apply (HN _ _ HD). lia.
  Qed.

  Lemma inv_init t : t_rest t = D -> inv (recv_init t).
  Proof.
    intros Ht. unfold inv, recv_init; cbn [l_tr l_buf l_read l_need l_cap l_trace].
    split; [apply inv0_init|]. cbn [app tsum trace_ok]. repeat split; try lia; auto.
  Qed.

  Lemma step_safe s : inv s ->
    match recv_step s with
    | Done _ r => post r
    | Continue _ s' => inv s'
    end.
  Proof.
    intros Hinv. pose proof (need_of_inv s Hinv) as Hneed.
    destruct Hinv as (Hi0 & HD & Hlt & Hcap & Hov & Hm8 & Htr & Hsum).
    destruct (tr_read (l_tr s) (l_need s - l_read s)) as [[chunk err] t'] eqn:Ht.
    rewrite (recv_step_simpl M um W max s chunk err t' Hi0 Ht).
    destruct Hi0 as [Hr Hn].
    pose proof (tr_read_gen _ _ _ _ _ Ht) as (Hsplit & _ & Hcw & _).
    pose proof (st_len_nonneg chunk) as Hc0.
    pose proof (st_len_nonneg (l_buf s)) as Hb0.
    set (cap' := if l_need s >? l_cap s then grow_cap (l_cap s) (l_need s) else l_cap s).
    assert (Hcap' : l_need s <= cap' /\ (cap' = buf0 \/ (cap' = N /\ buf0 < N /\ 8 <= l_read s))).
    { unfold cap', grow_cap, buf0 in *. destruct (Z.gtb_spec (l_need s) (l_cap s)) as [Hg|Hg].
      - destruct Hcap as [Hc|(Hc & Hc2 & Hc3)].
        + rewrite Hc in *. destruct (Z.ltb_spec (l_read s) 8); [lia|]. split; [lia|]. right. lia.
        + destruct (Z.ltb_spec (l_read s) 8); lia.
      - split; [lia|]. exact Hcap. }
    destruct Hcap' as [Hncap Hcap'].
    assert (HD' : D = (l_buf s ++ chunk) ++ t_rest t') by (rewrite <- app_assoc, <- Hsplit; exact HD).
    assert (Hlen' : len (l_buf s ++ chunk) = l_read s + len chunk) by (rewrite st_len_app; lia).
    assert (Hneed' : needed_bytes W (l_buf s ++ chunk) = if l_read s + len chunk <? 8 then 8 else N).
    { destruct (Z.ltb_spec (l_read s + len chunk) 8) as [H|H].
      - apply needed_bytes_short. lia.
      - apply (HN _ _ HD'). lia. }
    assert (Htrace : trace_ok N 0 (l_trace s ++ [(l_need s - l_read s, len chunk)])).
    { apply trace_ok_app; try assumption; try lia. rewrite Hsum, Z.add_0_l. rewrite Hneed. reflexivity. }
    assert (Hts : tsum (l_trace s ++ [(l_need s - l_read s, len chunk)]) = l_read s + len chunk).
    { rewrite tsum_app. cbn [tsum]. lia. }
    unfold step_simpl. fold cap'.
    destruct (Z.gtb_spec (l_read s) (l_need s)) as [?|_]; [lia|].
    destruct (Z.gtb_spec (l_need s) cap') as [?|_]; [lia|]. cbn [orb].
    destruct (Z.eqb_spec (len chunk) 0) as [Hz|Hnz].
    - (* nothing was read: an error is returned *)
      assert (Hch : chunk = []) by (apply st_len_zero; exact Hz). subst chunk.
      rewrite app_nil_r in HD'. rewrite Z.add_0_r in Hts.
      assert (Hpost : forall o, o <> RPanic -> (forall x, o <> RMsg x) -> o <> RTooBig ->
                post (mkRes o t' cap' (l_trace s ++ [(l_need s - l_read s, len (@nil Z))]))).
      { intros o Ho1 Ho2 Ho3. unfold post; cbn [r_out r_tr r_cap r_trace]. split; [exact Ho1|].
        exists (l_buf s). rewrite consumed_tsum; cbn [r_trace]. rewrite Hts.
        split; [exact HD'|]. split; [exact Hr|].
        split; [destruct (Z.ltb_spec (l_read s) 8); lia|].
        split; [intros Hos; destruct (Z.ltb_spec (l_read s) 8) as [?|Hh]; [lia | exfalso; exact (Hov Hh Hos)]|].
        split; [intros x Hx; exfalso; exact (Ho2 x Hx)|].
        split; [intros Hx; exfalso; exact (Ho3 Hx)|].
        split; [|exact Htrace].
        destruct Hcap' as [?|(Hc1 & Hc2 & Hc3)]; [left; assumption|].
        right. repeat split; try assumption; try lia. apply Hov. exact Hc3. }
      destruct err; apply Hpost; discriminate.
    - assert (Hcpos : 0 < len chunk) by lia.
      rewrite Hneed'. rewrite Hneed in *.
      (* facts about where we are *)
      assert (Hrd' : l_read s + len chunk <= (if l_read s <? 8 then 8 else N)) by lia.
      assert (Hpost : forall o,
                o <> RPanic ->
                (forall x, o = RMsg x -> l_read s + len chunk = N /\ x = um (l_buf s ++ chunk) /\ ~ oversize) ->
                (o = RTooBig -> 0 < max /\ (if l_read s + len chunk <? 8 then 8 else N) > max) ->
                (8 <= l_read s + len chunk -> 8 <= l_read s \/ ~ oversize \/ o = RTooBig) ->
                post (mkRes o t' cap' (l_trace s ++ [((if l_read s <? 8 then 8 else N) - l_read s, len chunk)]))).
      { intros o Ho1 Ho2 Ho3 Ho4. unfold post; cbn [r_out r_tr r_cap r_trace]. split; [exact Ho1|].
        exists (l_buf s ++ chunk). rewrite consumed_tsum; cbn [r_trace]. rewrite Hts, Hlen'.
        split; [exact HD'|]. split; [reflexivity|].
        split; [destruct (Z.ltb_spec (l_read s) 8); lia|].
        split; [intros Hos; destruct (Z.ltb_spec (l_read s) 8) as [?|Hh]; [lia | exfalso; exact (Hov Hh Hos)]|].
        split.
        { intros x Hx. destruct (Ho2 x Hx) as (E1 & E2 & E3). split; [exact E1|]. split; [|exact E3].
          rewrite E2. f_equal. rewrite HD'. rewrite <- E1, <- Hlen'. symmetry. apply st_take_app_exact. }
        split.
        { intros Hx. destruct (Ho3 Hx) as [Hm Hgt]. split; [exact Hm|].
          destruct (Z.ltb_spec (l_read s + len chunk) 8); [left; lia | right; lia]. }
        split; [|exact Htrace].
        destruct Hcap' as [?|(Hc1 & Hc2 & Hc3)]; [left; assumption|].
        right. repeat split; try assumption; try lia. apply Hov. exact Hc3. }
      destruct ((0 <? max) && ((if l_read s + len chunk <? 8 then 8 else N) >? max)) eqn:Hbig.
      + (* too big *)
        apply andb_true_iff in Hbig. destruct Hbig as [Hb1 Hb2].
        apply Z.ltb_lt in Hb1. apply Z.gtb_lt in Hb2.
        apply Hpost; try discriminate.
        * intros _. split; lia.
        * intros _. right. right. reflexivity.
      + assert (Hnb : ~ (0 < max /\ max < (if l_read s + len chunk <? 8 then 8 else N))).
        { intros [Hb1 Hb2]. apply andb_false_iff in Hbig. destruct Hbig as [Hb|Hb].
          - apply Z.ltb_ge in Hb. lia.
          - destruct (Z.gtb_spec (if l_read s + len chunk <? 8 then 8 else N) max); [discriminate | lia]. }
        destruct (Z.leb_spec (if l_read s + len chunk <? 8 then 8 else N) (l_read s + len chunk)) as [Hfull|Hmore].
        * (* the message is complete *)
          assert (HNr : l_read s + len chunk = N /\ (if l_read s + len chunk <? 8 then 8 else N) = N).
          { destruct (Z.ltb_spec (l_read s + len chunk) 8); destruct (Z.ltb_spec (l_read s) 8); lia. }
          destruct HNr as [HNr HNe]. rewrite HNe in *.
          destruct (Z.ltb_spec N 0) as [?|_]; [lia|].
          destruct (Z.gtb_spec N cap') as [Hbad|_].
          { exfalso. destruct (Z.ltb_spec (l_read s) 8); lia. }
          cbn [orb]. apply Hpost; try discriminate.
          -- intros x Hx. inversion Hx; subst x. split; [exact HNr|]. split.
             ++ f_equal. apply st_take_all. lia.
             ++ unfold oversize. exact Hnb.
          -- intros _. right. left. unfold oversize. exact Hnb.
        * destruct err as [e|].
          -- apply Hpost; try discriminate.
             intros H8. destruct (Z.ltb_spec (l_read s + len chunk) 8); [lia|]. right. left. exact Hnb.
          -- (* next iteration *)
             unfold inv, inv0; cbn [l_tr l_buf l_read l_need l_cap l_trace].
             rewrite Hneed'. rewrite Hlen'. repeat split; try assumption; try lia.
             ++ intros H8. destruct (Z.ltb_spec (l_read s + len chunk) 8); [lia|]. exact Hnb.
             ++ intros _ Hmx. destruct (Z.ltb_spec (l_read s + len chunk) 8); lia.
  Qed.

  Lemma loop_safe fuel : forall s, inv s -> (mu s < fuel)%nat -> post (recv_loop fuel s).
  Proof.
    induction fuel as [|f IH]; intros s Hinv Hm; [lia|].
    cbn [Stream.recv_loop]. pose proof (step_safe s Hinv) as Hs.
    destruct (recv_step s) as [r|s'] eqn:Hstep; [exact Hs|].
    apply IH; [exact Hs|].
    pose proof (step_measure M um W max s s' (proj1 Hinv) Hstep). lia.
  Qed.

  (** One [Recv] on a transport holding [D], whatever its answers. *)
  Lemma recv_safe t : t_rest t = D -> post (recv t).
  Proof.
    intros Ht. unfold Stream.recv. apply loop_safe; [apply inv_init; exact Ht|].
    unfold mu, recv_init; cbn [l_tr l_read]. destruct (t_rest t); cbn; lia.
  Qed.
End Safety.

(* ------------------------------------------------------------------ progress: faithful transports *)

Section Progress.
  Variable M : Type.
  Variable um : list Z -> res M.
  Variable W : Z.
  Variable max : Z.
  Variable D : list Z.
  Variable N : Z.
  Hypothesis HN : forall b x, D = b ++ x -> 8 <= len b -> needed_bytes W b = N.
  Hypothesis HN8 : 8 <= N.
  Hypothesis Hmax8 : 0 < max -> 8 <= max.   (* a configured limit admits at least a header *)
  Variable e : Z.                            (* the transport's end error *)

  Notation recv_step := (recv_step M um W max).
  Notation recv_loop := (recv_loop M um W max).
  Notation recv := (recv M um W max).
  Notation oversize := (oversize max N).
  Notation inv := (inv W max D N).

  (** The result of [Recv] is determined by the stream alone. *)
  Definition spec (r : rres M) : Prop :=
    (8 <= len D -> oversize -> r_out r = RTooBig) /\
    (~ oversize -> N <= len D ->
       r_out r = RMsg (um (take N D)) /\ t_rest (r_tr r) = drop N D /\
       faithful (t_sched (r_tr r)) /\ t_end (r_tr r) = e) /\
    (len D < N -> (len D < 8 \/ ~ oversize) -> r_out r = RErr e /\ t_rest (r_tr r) = []).

  Lemma step_progress s :
    inv s -> faithful (t_sched (l_tr s)) -> t_end (l_tr s) = e ->
    match recv_step s with
    | Done _ r => spec r
    | Continue _ s' => faithful (t_sched (l_tr s')) /\ t_end (l_tr s') = e
    end.
  Proof.
    intros Hinv Hf He. pose proof (need_of_inv W max D N HN s Hinv) as Hneed.
    destruct Hinv as (Hi0 & HD & Hlt & Hcap & Hov & Hm8 & Htr & Hsum).
    destruct (tr_read (l_tr s) (l_need s - l_read s)) as [[chunk err] t'] eqn:Ht.
    rewrite (recv_step_simpl M um W max s chunk err t' Hi0 Ht).
    destruct Hi0 as [Hr Hn].
    pose proof (tr_read_gen _ _ _ _ _ Ht) as (Hsplit & Hend & Hcw & _).
    assert (Hw : 0 < l_need s - l_read s) by lia.
    pose proof (tr_read_faithful _ _ _ _ _ Ht Hw Hf) as (Hf' & Hempty & Hnonempty).
    rewrite He in *.
    pose proof (st_len_nonneg chunk) as Hc0.
    pose proof (st_len_nonneg (l_buf s)) as Hb0.
    pose proof (st_len_nonneg (t_rest t')) as Hr0.
    set (cap' := if l_need s >? l_cap s then grow_cap (l_cap s) (l_need s) else l_cap s).
    assert (Hncap : l_need s <= cap').
    { unfold cap', grow_cap, buf0 in *. destruct (Z.gtb_spec (l_need s) (l_cap s)) as [Hg|Hg]; [|lia].
      destruct Hcap as [Hc|(Hc & Hc2 & Hc3)]; [rewrite Hc; lia|].
      destruct (Z.ltb_spec (l_read s) 8); lia. }
    assert (HD' : D = (l_buf s ++ chunk) ++ t_rest t') by (rewrite <- app_assoc, <- Hsplit; exact HD).
    assert (Hlen' : len (l_buf s ++ chunk) = l_read s + len chunk) by (rewrite st_len_app; lia).
    assert (HlenD : len D = l_read s + len chunk + len (t_rest t')) by (rewrite HD', st_len_app, Hlen'; lia).
    assert (Hneed' : needed_bytes W (l_buf s ++ chunk) = if l_read s + len chunk <? 8 then 8 else N).
    { destruct (Z.ltb_spec (l_read s + len chunk) 8) as [H|H].
      - apply needed_bytes_short. lia.
      - apply (HN _ _ HD'). lia. }
    unfold step_simpl. fold cap'.
    destruct (Z.gtb_spec (l_read s) (l_need s)) as [?|_]; [lia|].
    destruct (Z.gtb_spec (l_need s) cap') as [?|_]; [lia|]. cbn [orb].
    (* an error result at a point where the stream is drained *)
    assert (Hdrained : forall tr', t_rest t' = [] -> l_read s + len chunk < (if l_read s + len chunk <? 8 then 8 else N) ->
              (8 <= l_read s + len chunk -> ~ oversize) ->
              spec (mkRes (RErr e) t' cap' tr')).
    { intros tr' Hd Hshort Hno. rewrite Hd in HlenD. rewrite st_len_nil in HlenD.
      unfold spec; cbn [r_out r_tr]. split; [|split].
      - intros H8 Hos. exfalso. apply Hno; [lia | exact Hos].
      - intros _ HNle. exfalso. destruct (Z.ltb_spec (l_read s + len chunk) 8); lia.
      - intros _ _. split; [reflexivity | exact Hd]. }
    destruct (Z.eqb_spec (len chunk) 0) as [Hz|Hnz].
    - destruct (t_rest (l_tr s)) as [|x0 xs] eqn:Hrest.
      + destruct (Hempty eq_refl) as [Hch Herr]. subst chunk err.
        apply Hdrained.
        * cbn [app] in Hsplit. symmetry. exact Hsplit.
        * rewrite st_len_nil, Z.add_0_r. rewrite Hneed in Hlt. exact Hlt.
        * rewrite st_len_nil, Z.add_0_r. exact Hov.
      + exfalso. assert (Hne : x0 :: xs <> []) by discriminate. destruct (Hnonempty Hne) as [H1 _]. lia.
    - rewrite Hneed'. rewrite Hneed in *.
      assert (Hrd' : l_read s + len chunk <= (if l_read s <? 8 then 8 else N)) by lia.
      destruct ((0 <? max) && ((if l_read s + len chunk <? 8 then 8 else N) >? max)) eqn:Hbig.
      + apply andb_true_iff in Hbig. destruct Hbig as [Hb1 Hb2].
        apply Z.ltb_lt in Hb1. apply Z.gtb_lt in Hb2. specialize (Hmax8 Hb1).
        assert (Hos : oversize) by (unfold StreamProofs.oversize; destruct (Z.ltb_spec (l_read s + len chunk) 8); lia).
        unfold spec; cbn [r_out r_tr]. split; [|split].
        * intros _ _. reflexivity.
        * intros Hno _. exfalso. exact (Hno Hos).
        * intros Hshort [H8|Hno]; [|exfalso; exact (Hno Hos)].
          exfalso. destruct (Z.ltb_spec (l_read s + len chunk) 8); lia.
      + assert (Hnb : ~ (0 < max /\ max < (if l_read s + len chunk <? 8 then 8 else N))).
        { intros [Hb1 Hb2]. apply andb_false_iff in Hbig. destruct Hbig as [Hb|Hb].
          - apply Z.ltb_ge in Hb. lia.
          - destruct (Z.gtb_spec (if l_read s + len chunk <? 8 then 8 else N) max); [discriminate | lia]. }
        destruct (Z.leb_spec (if l_read s + len chunk <? 8 then 8 else N) (l_read s + len chunk)) as [Hfull|Hmore].
        * assert (HNr : l_read s + len chunk = N /\ (if l_read s + len chunk <? 8 then 8 else N) = N).
          { destruct (Z.ltb_spec (l_read s + len chunk) 8); destruct (Z.ltb_spec (l_read s) 8); lia. }
          destruct HNr as [HNr HNe]. rewrite HNe in *.
          destruct (Z.ltb_spec N 0) as [?|_]; [lia|].
          destruct (Z.gtb_spec N cap') as [Hbad|_].
          { exfalso. destruct (Z.ltb_spec (l_read s) 8); lia. }
          cbn [orb]. unfold spec; cbn [r_out r_tr]. split; [|split].
          -- intros _ Hos. exfalso. apply Hnb. exact Hos.
          -- intros _ _. split; [|split; [|split]].
             ++ f_equal. f_equal. rewrite HD'. rewrite <- HNr, <- Hlen'. rewrite st_take_app_exact.
                apply st_take_all. lia.
             ++ rewrite HD'. rewrite <- HNr, <- Hlen'. symmetry. apply st_drop_app_exact.
             ++ exact Hf'.
             ++ exact Hend.
          -- intros Hshort _. exfalso. lia.
        * destruct err as [e'|].
          -- destruct (t_rest (l_tr s)) as [|x0 xs] eqn:Hrest.
             { destruct (Hempty eq_refl) as [Hch _]. subst chunk. rewrite st_len_nil in Hnz. lia. }
             assert (Hne : x0 :: xs <> []) by discriminate.
             destruct (Hnonempty Hne) as [_ [Habs|[He' Hd]]]; [discriminate|].
             inversion He'; subst e'. apply Hdrained; [exact Hd | exact Hmore |].
             intros H8. destruct (Z.ltb_spec (l_read s + len chunk) 8); [lia | exact Hnb].
          -- cbn [l_tr]. split; [exact Hf' | exact Hend].
  Qed.

  Lemma loop_progress fuel : forall s,
    inv s -> faithful (t_sched (l_tr s)) -> t_end (l_tr s) = e -> (mu s < fuel)%nat ->
    spec (recv_loop fuel s).
  Proof.
    induction fuel as [|f IH]; intros s Hinv Hf He Hm; [lia|].
    cbn [Stream.recv_loop].
    pose proof (step_progress s Hinv Hf He) as Hp.
    pose proof (step_safe M um W max D N HN HN8 s Hinv) as Hs.
    destruct (recv_step s) as [r|s'] eqn:Hstep; [exact Hp|].
    destruct Hp as [Hf' He']. apply IH; try assumption.
    pose proof (step_measure M um W max s s' (proj1 Hinv) Hstep). lia.
  Qed.

  Lemma recv_progress t : t_rest t = D -> faithful (t_sched t) -> t_end t = e -> spec (recv t).
  Proof.
    intros Ht Hf He. unfold Stream.recv. apply loop_progress; try assumption.
    - apply inv_init. exact Ht.
    - unfold mu, recv_init; cbn [l_tr l_read]. destruct (t_rest t); cbn; lia.
  Qed.
End Progress.
