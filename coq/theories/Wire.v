(** Binary TTLV: the writer calls ([item]), the encoder [wire_enc] transcribing
    ttlv/encoding_ttlv.go (ttlvWriter) and ttlv/utils.go (bigIntToBytes, padForLen), and an
    INDEPENDENT strict parser [spec_parse] written from KMIP 1.4 section 9.1 (it shares no
    definition with [wire_enc] beyond byte arithmetic of Base.v).  No proofs here. *)
From Coq Require Import ZArith List Bool.
From KV Require Import Base.
Import ListNotations.
Open Scope Z_scope.

(** One call on the [writer] interface (ttlv/encoder.go).  Strings are byte lists.
    [rtag] is the "real tag" handed to Enum/Bitmask (used by the text formats only).
    Dates are Unix seconds (int64), intervals whole seconds. *)
Inductive item : Type :=
| IStruct (tag : Z) (kids : list item)
| IInt (tag v : Z)
| ILong (tag v : Z)
| IBig (tag v : Z)
| IEnum (tag rtag v : Z)
| IBool (tag : Z) (b : bool)
| IText (tag : Z) (s : list Z)
| IBytes (tag : Z) (s : list Z)
| IDate (tag v : Z)
| IIntv (tag v : Z)
| IMask (tag rtag v : Z).

Definition T_STRUCT := 1. Definition T_INT := 2. Definition T_LONG := 3. Definition T_BIG := 4.
Definition T_ENUM := 5. Definition T_BOOL := 6. Definition T_TEXT := 7. Definition T_BYTES := 8.
Definition T_DATE := 9. Definition T_INTV := 10.

Definition itag (i : item) : Z :=
  match i with
  | IStruct t _ | IInt t _ | ILong t _ | IBig t _ | IEnum t _ _ | IBool t _
  | IText t _ | IBytes t _ | IDate t _ | IIntv t _ | IMask t _ _ => t
  end.

(** the TTLV type code the writer emits for a call (Bitmask is written as Integer) *)
Definition itype (i : item) : Z :=
  match i with
  | IStruct _ _ => T_STRUCT | IInt _ _ => T_INT | ILong _ _ => T_LONG | IBig _ _ => T_BIG
  | IEnum _ _ _ => T_ENUM | IBool _ _ => T_BOOL | IText _ _ => T_TEXT | IBytes _ _ => T_BYTES
  | IDate _ _ => T_DATE | IIntv _ _ => T_INTV | IMask _ _ _ => T_INT
  end.

(** writeTag ++ writeType ++ writeLength *)
Definition hdr (tag ty length : Z) : list Z := be 3 tag ++ [ty mod 256] ++ be 4 length.

(** number of bytes of big.Int.Bytes() for a magnitude [m >= 0] *)
Definition nbytes (m : Z) : Z := if m <=? 0 then 0 else Z.log2 m / 8 + 1.

(** padForLen(l, padSize) *)
Definition pad_for (l padsize : Z) : Z := (padsize - l mod padsize) mod padsize.

(** bigIntToBytes(value, padding) = (b, padVal, padLen).  For a negative value the Go loop
    negates the magnitude in two's complement on [nbytes] bytes, i.e. yields the low
    [nbytes] bytes of [v] (floor semantics of [be]). *)
Definition big_to_bytes (v padding : Z) : list Z * Z * Z :=
  let padding := if padding <? 1 then 1 else padding in
  if v =? 0 then ([], 0, padding) else
  let n := nbytes (Z.abs v) in
  let b := be (Z.to_nat n) v in
  let padval := if v <? 0 then 255 else 0 in
  let padlen0 := pad_for n padding in
  let msb := (hd 0 b / 128) mod 2 in
  let padlen := if negb (msb =? padval mod 2) && (padlen0 =? 0) then padding else padlen0 in
  (b, padval, padlen).

Definition enc_big (v : Z) : list Z :=
  let '(b, padval, padlen) := big_to_bytes v 8 in
  repeat padval (Z.to_nat padlen) ++ b.

(** ttlvWriter.{Integer,LongInteger,BigInteger,Enum,Bool,Struct,TextString,ByteString,DateTime,Interval,Bitmask} *)
Fixpoint wire_enc (i : item) : list Z :=
  match i with
  | IStruct tag kids =>
      let body := flat_map wire_enc kids in
      hdr tag T_STRUCT (len body) ++ body
  | IInt tag v => hdr tag T_INT 4 ++ be 4 v ++ [0; 0; 0; 0]
  | ILong tag v => hdr tag T_LONG 8 ++ be 8 v
  | IBig tag v => let b := enc_big v in hdr tag T_BIG (len b) ++ b
  | IEnum tag _ v => hdr tag T_ENUM 4 ++ be 4 v ++ [0; 0; 0; 0]
  | IBool tag b => hdr tag T_BOOL 8 ++ [0; 0; 0; 0; 0; 0; 0; if b then 1 else 0]
  | IText tag s => hdr tag T_TEXT (len s) ++ s ++ zeros (pad8 (len s))
  | IBytes tag s => hdr tag T_BYTES (len s) ++ s ++ zeros (pad8 (len s))
  | IDate tag v => hdr tag T_DATE 8 ++ be 8 v
  | IIntv tag v => hdr tag T_INTV 4 ++ be 4 v ++ [0; 0; 0; 0]
  | IMask tag _ v => hdr tag T_INT 4 ++ be 4 v ++ [0; 0; 0; 0]
  end.

Definition wire_enc_list (l : list item) : list Z := flat_map wire_enc l.

(** The writer panics on a negative interval ("interval cannot be negative"). *)
Fixpoint enc_panics (i : item) : bool :=
  match i with
  | IStruct _ kids => existsb enc_panics kids
  | IIntv _ v => v <? 0
  | _ => false
  end.

(** Values the Go types can hold / the wire can carry. *)
Fixpoint item_ok (i : item) : bool :=
  match i with
  | IStruct tag kids => (0 <=? tag) && (tag <? 2 ^ 24) && forallb item_ok kids
  | IInt tag v | IMask tag _ v => (0 <=? tag) && (tag <? 2 ^ 24) && in_i32 v
  | ILong tag v | IDate tag v => (0 <=? tag) && (tag <? 2 ^ 24) && in_i64 v
  | IBig tag _ => (0 <=? tag) && (tag <? 2 ^ 24)
  | IEnum tag _ v | IIntv tag v => (0 <=? tag) && (tag <? 2 ^ 24) && in_u32 v
  | IBool tag _ => (0 <=? tag) && (tag <? 2 ^ 24)
  | IText tag s | IBytes tag s => (0 <=? tag) && (tag <? 2 ^ 24) && bytes_ok s
  end.

(** total encoded size below 2^32 at every level (a Go int length is cast to uint32) *)
Fixpoint item_small (i : item) : bool :=
  match i with
  | IStruct _ kids => forallb item_small kids && (len (flat_map wire_enc kids) <? 2 ^ 32)
  | IText _ s | IBytes _ s => len s <? 2 ^ 32
  | IBig _ v => len (enc_big v) <? 2 ^ 32
  | _ => true
  end.

(** ------------------------------------------------------------------------------------
    Independent specification (KMIP 1.4, 9.1.1): a strict parser for well-formed TTLV.  *)

Inductive wval : Type :=
| WStruct (l : list wtree)
| WInt (v : Z) | WLong (v : Z) | WBig (v : Z) | WEnum (v : Z) | WBool (b : bool)
| WText (s : list Z) | WBytes (s : list Z) | WDate (v : Z) | WIntv (v : Z)
with wtree : Type := WT (tag : Z) (v : wval).

(** "Tag: three bytes", most significant first *)
Definition sp_tag (b0 b1 b2 : Z) : Z := b0 * 65536 + b1 * 256 + b2.
(** big-endian unsigned number *)
Fixpoint sp_num (l : list Z) (acc : Z) : Z :=
  match l with [] => acc | b :: r => sp_num r (acc * 256 + b) end.
(** two's complement signed number on [length l] bytes *)
Definition sp_signed (l : list Z) : Z :=
  let u := sp_num l 0 in
  let w := 256 ^ len l in
  if u <? w / 2 then u else u - w.
Definition all_zero (l : list Z) : bool := forallb (Z.eqb 0) l.
Definition sp_is_byte (b : Z) : bool := (0 <=? b) && (b <=? 255).

(** "the Item Value ... padded with zero bytes to a multiple of 8" *)
Definition sp_padded (l : Z) : Z := if l mod 8 =? 0 then l else l + (8 - l mod 8).

Fixpoint spec_parse (fuel : nat) (bs : list Z) : option (list wtree) :=
  match fuel with
  | O => None
  | S f =>
    match bs with
    | [] => Some []
    | b0 :: b1 :: b2 :: ty :: l0 :: l1 :: l2 :: l3 :: rest =>
      if negb (forallb sp_is_byte bs) then None else
      let tag := sp_tag b0 b1 b2 in
      let l := sp_num [l0; l1; l2; l3] 0 in
      let pl := sp_padded l in
      if len rest <? pl then None else
      let value := firstn (Z.to_nat l) rest in
      let padding := firstn (Z.to_nat (pl - l)) (skipn (Z.to_nat l) rest) in
      let after := skipn (Z.to_nat pl) rest in
      if negb (all_zero padding) then None else
      let v : option wval :=
        if ty =? 1 then
          match spec_parse f value with Some kids => Some (WStruct kids) | None => None end
        else if ty =? 2 then (if l =? 4 then Some (WInt (sp_signed value)) else None)
        else if ty =? 3 then (if l =? 8 then Some (WLong (sp_signed value)) else None)
        else if ty =? 4 then (if (0 <? l) && (l mod 8 =? 0) then Some (WBig (sp_signed value)) else None)
        else if ty =? 5 then (if l =? 4 then Some (WEnum (sp_num value 0)) else None)
        else if ty =? 6 then
          (if l =? 8 then
             (if sp_num value 0 =? 0 then Some (WBool false)
              else if sp_num value 0 =? 1 then Some (WBool true) else None)
           else None)
        else if ty =? 7 then Some (WText value)
        else if ty =? 8 then Some (WBytes value)
        else if ty =? 9 then (if l =? 8 then Some (WDate (sp_signed value)) else None)
        else if ty =? 10 then (if l =? 4 then Some (WIntv (sp_num value 0)) else None)
        else None in
      match v with
      | None => None
      | Some v =>
        match spec_parse f after with
        | Some more => Some (WT tag v :: more)
        | None => None
        end
      end
    | _ => None
    end
  end.

(** what an independent reader must see for a writer call *)
Fixpoint to_wire (i : item) : wtree :=
  match i with
  | IStruct tag kids => WT tag (WStruct (map to_wire kids))
  | IInt tag v | IMask tag _ v => WT tag (WInt v)
  | ILong tag v => WT tag (WLong v)
  | IBig tag v => WT tag (WBig v)
  | IEnum tag _ v => WT tag (WEnum v)
  | IBool tag b => WT tag (WBool b)
  | IText tag s => WT tag (WText s)
  | IBytes tag s => WT tag (WBytes s)
  | IDate tag v => WT tag (WDate v)
  | IIntv tag v => WT tag (WIntv v)
  end.

(** boolean equality on wire trees (for the correspondence rows) *)
Fixpoint wtree_eqb (a b : wtree) : bool :=
  match a, b with
  | WT ta va, WT tb vb => (ta =? tb) &&
    match va, vb with
    | WStruct la, WStruct lb =>
        (fix go (x y : list wtree) : bool :=
           match x, y with
           | [], [] => true
           | p :: ps, q :: qs => wtree_eqb p q && go ps qs
           | _, _ => false
           end) la lb
    | WInt x, WInt y | WLong x, WLong y | WBig x, WBig y | WEnum x, WEnum y
    | WDate x, WDate y | WIntv x, WIntv y => x =? y
    | WBool x, WBool y => Bool.eqb x y
    | WText x, WText y | WBytes x, WBytes y =>
        (fix go (x y : list Z) : bool :=
           match x, y with
           | [], [] => true
           | p :: ps, q :: qs => (p =? q) && go ps qs
           | _, _ => false
           end) x y
    | _, _ => false
    end
  end.

(** boolean equality on writer calls (for the correspondence rows) *)
Fixpoint item_eqb (a b : item) : bool :=
  let zl := (fix go (x y : list Z) : bool :=
           match x, y with
           | [], [] => true
           | p :: ps, q :: qs => (p =? q) && go ps qs
           | _, _ => false
           end) in
  match a, b with
  | IStruct ta la, IStruct tb lb => (ta =? tb) &&
      (fix go (x y : list item) : bool :=
         match x, y with
         | [], [] => true
         | p :: ps, q :: qs => item_eqb p q && go ps qs
         | _, _ => false
         end) la lb
  | IInt ta x, IInt tb y | ILong ta x, ILong tb y | IBig ta x, IBig tb y
  | IDate ta x, IDate tb y | IIntv ta x, IIntv tb y => (ta =? tb) && (x =? y)
  | IEnum ta ra x, IEnum tb rb y | IMask ta ra x, IMask tb rb y => (ta =? tb) && (ra =? rb) && (x =? y)
  | IBool ta x, IBool tb y => (ta =? tb) && Bool.eqb x y
  | IText ta x, IText tb y | IBytes ta x, IBytes tb y => (ta =? tb) && zl x y
  | _, _ => false
  end.
