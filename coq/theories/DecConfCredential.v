(** Decoder side of kmip.Credential (kmip.go): reflective encoder (the CredentialValue writes
    each alternative under the same tag), hand-written decoder choosing the alternative by the
    credential type. *)
From Coq Require Import ZArith List Bool String Lia PeanoNat.
From KV Require Import Base BaseProofs Wire WireProofs Cursor CursorProofs Schema SchemaSem SchemaSemEq FaithfulProofs
  Roundtrip RoundtripEq RoundtripProofs RtCustomLib Normalize NormalizeEq DecConfDefs NormProofs DecConfLib DecConfProofs DecConfCustomLib.
Import ListNotations.
Open Scope Z_scope.

Section CR.
  Variable S : schema.
  Variables (OPS : op_table) (ATTRS : attr_table) (OBJS : obj_table).
  Context {R : Type}.
  Variable F : rawfmt R.
  Variable eok : relem R -> bool.
  Hypothesis HR : fmt_ranged F eok.
  Hypothesis HS : schema_ok S OPS ATTRS OBJS = true.

  Local Notation enc_ty := (enc_ty S).
  Local Notation norm_ty := (norm_ty S).
  Local Notation dec_ty := (dec_ty S OPS ATTRS OBJS F).
  Local Notation conf_ty := (conf_ty S OPS ATTRS OBJS).
  Local Notation c_ok := (c_ok eok).
  Local Notation Good := (Good S OPS ATTRS OBJS).
  Local Notation Rng := (Rng eok).
  Local Notation DQ := (DQ S OPS ATTRS OBJS F eok).
  Local Notation lib x := (x S OPS ATTRS OBJS _ F eok HR HS) (only parsing).

  Lemma dc_credential f : DQ f -> forall st d tag (c : cur R) v c' st',
    find_tdef S (t_name d) = Some d -> t_custom_dec d = true ->
    t_name d = "kmip.Credential"%string -> credential_ok S d = true ->
    dec_credential S F (dec_ty f) st d tag c = Ok (v, c', st') ->
    exists items, Good st (TNamed (t_name d)) tag v st' items /\ Rng c c' items.
  Proof.
    intros HQ st d tag c v c' st' Ed Hcd Hname Hok H.
    assert (EV : String.eqb (t_name d) "ttlv.Value" = false) by (rewrite Hname; reflexivity).
    assert (ES : String.eqb (t_name d) "ttlv.Struct" = false) by (rewrite Hname; reflexivity).
    unfold credential_ok in Hok. destruct (t_fields d) as [|f0 [|f1 [|? ?]]] eqn:Hfl; try discriminate.
    destruct (find_tdef S "kmip.CredentialValue") as [cv|] eqn:Ecv; [|discriminate].
    rewrite !andb_true_iff in Hok.
    destruct Hok as (((((((((Hce & Hp0) & Hp1) & Ho0) & Ho1) & Hm0) & Ht1) & Hcce) & Hlen) & Halts).
    apply negb_true_iff in Hce. pose proof Ho0 as Ho0'. pose proof Ho1 as Ho1'. apply negb_true_iff in Ho0', Ho1'.
    pose proof (ty_eqb_eq _ _ Ht1) as Et1.
    assert (Et0 : exists r0, f_ty f0 = TScalar (KEnum r0)) by (destruct (f_ty f0) as [[]| | | |]; try discriminate; eauto). destruct Et0 as [r0 Et0].
    destruct (t_fields cv) as [|g0 [|g1 [|g2 [|? ?]]]] eqn:Hcvf; try discriminate.
    cbn [forallb] in Halts. rewrite !andb_true_iff in Halts. destruct Halts as (Ha0 & Ha1 & Ha2 & _).
    assert (Halt : forall gg, alt_ok S (f_ty gg) = true -> exists t', f_ty gg = TPtr t' /\ elem_ok S (f_ty gg) = true).
    { intros gg Hg. unfold alt_ok in Hg. destruct (f_ty gg); try discriminate. eauto. }
    destruct (Halt _ Ha0) as (t0 & Eg0 & Hel0). destruct (Halt _ Ha1) as (t1 & Eg1 & Hel1). destruct (Halt _ Ha2) as (t2 & Eg2 & Hel2).
    assert (Hg0 : ftag d 0 = f_tag f0) by (unfold ftag, nth_field; rewrite Hfl; reflexivity).
    assert (Hg1 : ftag d 1 = f_tag f1) by (unfold ftag, nth_field; rewrite Hfl; reflexivity).
    assert (Hy0 : fty d 0 = f_ty f0) by (unfold fty, nth_field; rewrite Hfl; reflexivity).
    assert (Hc0 : fty cv 0 = f_ty g0) by (unfold fty, nth_field; rewrite Hcvf; reflexivity).
    assert (Hc1 : fty cv 1 = f_ty g1) by (unfold fty, nth_field; rewrite Hcvf; reflexivity).
    assert (Hc2 : fty cv 2 = f_ty g2) by (unfold fty, nth_field; rewrite Hcvf; reflexivity).
    unfold dec_credential in H. rewrite Hg0, Hg1, Hy0, Et0, Ecv, Hc0, Hc1, Hc2 in H.
    destruct (lib wrap_struct_inv _ _ _ _ _ _ _ H) as (sub & vals & c2 & Hb & -> & Hw). clear H.
    destruct (SchemaSem.dec_ty S OPS ATTRS OBJS F f st (TScalar (KEnum r0)) (f_tag f0) sub) as [[[ctv c_1] s_1]| | |] eqn:Ect; cbn [bind fst snd] in Hb; try discriminate.
    destruct (lib dreq_enum_inv _ _ _ _ _ _ _ _ Ect) as (-> & ct & -> & Rct). cbn [int_of] in Hb.
    (* whichever alternative is read: the three slots, what they are written as, and conformance *)
    assert (Hslots : exists a b c0 ir a' b' c0', vals = [VInt ct; VStruct "kmip.CredentialValue" [a; b; c0]] /\ st' = st /\
              SameEN S st [g0; g1; g2] (f_tag f1) [a; b; c0] ir [a'; b'; c0'] /\
              (exists fc, forall g, (fc <= g)%nat ->
                 (if ct =? 1 then keeps (conf_ty g) st (f_ty g0) (f_tag f1) a' && is_zero b' && is_zero c0'
                  else if ct =? 2 then is_zero a' && keeps (conf_ty g) st (f_ty g1) (f_tag f1) b' && is_zero c0'
                  else if ct =? 3 then is_zero a' && is_zero b' && keeps (conf_ty g) st (f_ty g2) (f_tag f1) c0'
                  else false) = true) /\
              (match a', b', c0' with (VNil | VPtr _), (VNil | VPtr _), (VNil | VPtr _) => true | _, _, _ => false end) = true /\
              Rng c_1 c2 ir).
    { assert (Hshape : forall gg t' x', f_ty gg = TPtr t' -> (exists g, conf_ty g st (f_ty gg) (f_tag f1) x' = Some st) ->
                match x' with VNil | VPtr _ => True | _ => False end).
      { intros gg t' x' Eg [g Hc]. rewrite Eg in Hc. destruct g as [|g]; [discriminate|]. rewrite conf_ty_eq in Hc. destruct x'; try discriminate; exact I. }
      destruct (ct =? 1) eqn:E1.
      { destruct (SchemaSem.dec_ty S OPS ATTRS OBJS F f st (f_ty g0) (f_tag f1) c_1) as [[[r c_2] s_2]| | |] eqn:Er; cbn [bind fst snd] in Hb; try discriminate.
        injection Hb as <- <- <-.
        destruct (lib elem_good _ _ _ _ _ _ _ _ HQ Hel0 Er) as (-> & ir & Hgood & Rr).
        destruct (lib good_en _ _ _ _ _ Hgood) as (r' & Hen & (fc & Hcf)).
        exists r, VNil, VNil, ir, r', VNil, VNil. split; [reflexivity|]. split; [reflexivity|].
        split.
        { replace ir with (ir ++ [])%list by apply app_nil_r.
          apply (lib same_cons); [exact Hen|]. apply (lib same_cons_nil) with (t' := t1); [exact Eg1|].
          apply (lib same_cons_nil) with (t' := t2); [exact Eg2|]. apply (lib same_nil). }
        split; [exists fc; intros g Hg; rewrite (keeps_of_conf _ _ _ _ _ (Hcf g Hg)); reflexivity|].
        split; [|exact Rr]. pose proof (Hshape g0 t0 r' Eg0 (ex_intro _ fc (Hcf fc (Nat.le_refl _)))) as Hs. destruct r'; try contradiction; reflexivity. }
      destruct (ct =? 2) eqn:E2.
      { destruct (SchemaSem.dec_ty S OPS ATTRS OBJS F f st (f_ty g1) (f_tag f1) c_1) as [[[r c_2] s_2]| | |] eqn:Er; cbn [bind fst snd] in Hb; try discriminate.
        injection Hb as <- <- <-.
        destruct (lib elem_good _ _ _ _ _ _ _ _ HQ Hel1 Er) as (-> & ir & Hgood & Rr).
        destruct (lib good_en _ _ _ _ _ Hgood) as (r' & Hen & (fc & Hcf)).
        exists VNil, r, VNil, ir, VNil, r', VNil. split; [reflexivity|]. split; [reflexivity|].
        split.
        { replace ir with (ir ++ [])%list by apply app_nil_r.
          apply (lib same_cons_nil) with (t' := t0); [exact Eg0|]. apply (lib same_cons); [exact Hen|].
          apply (lib same_cons_nil) with (t' := t2); [exact Eg2|]. apply (lib same_nil). }
        split; [exists fc; intros g Hg; rewrite (keeps_of_conf _ _ _ _ _ (Hcf g Hg)); reflexivity|].
        split; [|exact Rr]. pose proof (Hshape g1 t1 r' Eg1 (ex_intro _ fc (Hcf fc (Nat.le_refl _)))) as Hs. destruct r'; try contradiction; reflexivity. }
      destruct (ct =? 3) eqn:E3; [|discriminate].
      destruct (SchemaSem.dec_ty S OPS ATTRS OBJS F f st (f_ty g2) (f_tag f1) c_1) as [[[r c_2] s_2]| | |] eqn:Er; cbn [bind fst snd] in Hb; try discriminate.
      injection Hb as <- <- <-.
      destruct (lib elem_good _ _ _ _ _ _ _ _ HQ Hel2 Er) as (-> & ir & Hgood & Rr).
      destruct (lib good_en _ _ _ _ _ Hgood) as (r' & Hen & (fc & Hcf)).
      exists VNil, VNil, r, ir, VNil, VNil, r'. split; [reflexivity|]. split; [reflexivity|].
      split.
      { replace ir with (ir ++ [])%list by apply app_nil_r.
        apply (lib same_cons_nil) with (t' := t0); [exact Eg0|]. apply (lib same_cons_nil) with (t' := t1); [exact Eg1|].
        apply (lib same_cons); [exact Hen|]. apply (lib same_nil). }
      split; [exists fc; intros g Hg; rewrite (keeps_of_conf _ _ _ _ _ (Hcf g Hg)); reflexivity|].
      split; [|exact Rr]. pose proof (Hshape g2 t2 r' Eg2 (ex_intro _ fc (Hcf fc (Nat.le_refl _)))) as Hs. destruct r'; try contradiction; reflexivity. }
    destruct Hslots as (a & b & c0 & ir & a' & b' & c0' & -> & -> & Hsame & (fc & Hcf) & Hshape & Rr).
    rewrite <- Hcvf in Hsame.
    destruct (lib same_named st "kmip.CredentialValue"%string cv "kmip.CredentialValue"%string _ _ _ _ Ecv Hcce eq_refl eq_refl eq_refl eq_refl eq_refl Hsame) as (fv & Hcvn).
    assert (Hd0 : HeadEN S st f0 (VInt ct) [IEnum (f_tag f0) r0 ct] (VInt ct)).
    { exists 1%nat. intros g Hg. destruct g as [|g]; [lia|]. rewrite Ho0', Et0. cbn [andb]. rewrite enc_ty_eq, norm_ty_eq. split; reflexivity. }
    assert (Hd1 : HeadEN S st f1 (VStruct "kmip.CredentialValue" [a; b; c0]) ir (VStruct "kmip.CredentialValue" [a'; b'; c0'])).
    { exists fv. intros g Hg. rewrite Ho1', Et1. cbn [andb]. exact (Hcvn g Hg). }
    pose proof (lib tail_cons_pos _ _ _ _ _ _ _ _ _ _ Hp0 Hd0 (lib tail_cons_pos _ _ _ _ _ _ _ _ _ _ Hp1 Hd1 (lib tail_nil st))) as (ft & Htl).
    exists [IStruct tag ([IEnum (f_tag f0) r0 ct] ++ ir ++ [])].
    split.
    - exists (VStruct (t_name d) [VInt ct; VStruct "kmip.CredentialValue" [a'; b'; c0']]), (Datatypes.S (Nat.max ft fc)).
      intros g Hge. destruct g as [|g]; [lia|].
      destruct (Htl g ltac:(lia)) as [T1 T2]. pose proof (Hcf g ltac:(lia)) as C3.
      rewrite enc_ty_eq, norm_ty_eq, conf_ty_eq, EV, ES, Ed, Hce, Hcd, Hfl, T1, T2, String.eqb_refl. cbn [bind fst snd negb andb].
      split; [reflexivity|]. split; [reflexivity|].
      unfold conf_custom_of. cbv zeta. rewrite Hname.
      change (String.eqb "kmip.Credential" "kmip.RequestBatchItem") with false.
      change (String.eqb "kmip.Credential" "kmip.ResponseBatchItem") with false.
      change (String.eqb "kmip.Credential" "kmip.Attribute") with false.
      change (String.eqb "kmip.Credential" "kmip.Credential") with true. cbv iota.
      unfold conf_credential. rewrite Hfl, Ecv, Hce, Hp0, Hp1, Ho0, Ho1, Hm0, Ht1, Hcce, Hcvf.
      change (String.eqb "kmip.CredentialValue" "kmip.CredentialValue") with true.
      rewrite Hc0, Hc1, Hc2, C3, Hshape. cbn [List.length Nat.eqb forallb negb andb]. rewrite Eg0, Eg1, Eg2. reflexivity.
    - intros Hc. destruct (Hw Hc) as (Hsub & Hc' & Ht). split; [exact Hc'|].
      destruct (Rct Hsub) as [Hc1' Ict]. destruct (Rr Hc1') as [_ Ir].
      cbn [forallb item_ok]. unfold tag_rng in Ht. rewrite Ht. cbn [andb]. rewrite andb_true_r.
      cbn [app forallb]. rewrite Ict. cbn [andb]. rewrite forallb_app, Ir. reflexivity.
  Qed.
End CR.
