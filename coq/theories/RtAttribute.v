(** Round trip of kmip.Attribute (reflective encoder, hand-written decoder choosing the type of
    the value from the attribute name, attributes.go). *)
From Coq Require Import ZArith List Bool String Lia PeanoNat.
From KV Require Import Base BaseProofs Wire WireProofs Cursor CursorProofs Schema SchemaSem SchemaSemEq FaithfulProofs
  Roundtrip RoundtripEq RoundtripProofs RtCustomLib.
Import ListNotations.
Open Scope Z_scope.

Lemma pos_field_facts fd : pos_field fd = true -> f_tag fd <> 0 /\ f_setver fd = false /\ f_range fd = None.
Proof.
  unfold pos_field. rewrite !andb_true_iff. intros ((H1 & H2) & H3).
  apply negb_true_iff in H1, H2. apply Z.eqb_neq in H1. destruct (f_range fd); [discriminate|]. auto.
Qed.

Section RA.
  Variable S : schema.
  Variables (OPS : op_table) (ATTRS : attr_table) (OBJS : obj_table).
  Context {R : Type}.
  Variable F : rawfmt R.

  Local Notation enc_ty := (enc_ty S).
  Local Notation enc_fields := (enc_fields S).
  Local Notation dec_ty := (dec_ty S OPS ATTRS OBJS F).
  Local Notation dec_opt := (dec_opt S OPS ATTRS OBJS F).
  Local Notation conf_ty := (conf_ty S OPS ATTRS OBJS).
  Local Notation Q := (Q S OPS ATTRS OBJS F).
  Local Notation RT_concl := (RT_concl S OPS ATTRS OBJS F).

  (** a positional field that is not omitempty is encoded by the encoder of its type *)
  Lemma enc_fields_pos g st fd fl x vl : pos_field fd = true -> f_omit fd = false ->
    enc_fields (Datatypes.S g) st (fd :: fl) (x :: vl) =
    do a <- enc_ty g st (f_ty fd) (f_tag fd) x ;; do b <- enc_fields g (snd a) fl vl ;; Ok ((fst a ++ fst b)%list, snd b).
  Proof.
    intros Hp Ho. destruct (pos_field_facts _ Hp) as (Hz & Hs & Hr). apply Z.eqb_neq in Hz.
    rewrite enc_fields_eq. cbv zeta. rewrite Hz, Hs, Hr, Ho, version_in_none. reflexivity.
  Qed.

  Lemma rt_attribute f : Q f -> forall fc st d tag fs items st' sc,
    find_tdef S (t_name d) = Some d -> t_custom_dec d = true ->
    t_name d = "kmip.Attribute"%string ->
    enc_ty (Datatypes.S f) st (TNamed (t_name d)) tag (VStruct (t_name d) fs) = Ok (items, st') ->
    conf_attribute ATTRS (conf_ty fc) st d tag fs = Some sc ->
    RT_concl (Datatypes.S f) st (TNamed (t_name d)) tag (VStruct (t_name d) fs) items st' sc.
  Proof.
    intros HQ fc st d tag fs items st' sc Ed Hcd Hname He Hc.
    assert (EV : String.eqb (t_name d) "ttlv.Value" = false) by (rewrite Hname; reflexivity).
    assert (ES : String.eqb (t_name d) "ttlv.Struct" = false) by (rewrite Hname; reflexivity).
    unfold conf_attribute in Hc.
    destruct (t_fields d) as [|f0 fl] eqn:Efl; [discriminate|].
    destruct fl as [|f1 fl]; [discriminate|]. destruct fl as [|f2 fl]; [discriminate|]. destruct fl as [|? ?]; [|discriminate].
    destruct fs as [|v0 fs]; [discriminate|]. destruct v0 as [| |name| | | | | | |]; try discriminate.
    destruct fs as [|idx fs]; [discriminate|]. destruct fs as [|v2 fs]; [discriminate|].
    destruct v2 as [| | | | | | | |dyn w|]; try discriminate. destruct fs as [|? ?]; [|discriminate].
    match type of Hc with (if ?c then _ else _) = _ => destruct c eqn:Hcond; [|discriminate] end.
    injection Hc as <-.
    rewrite !andb_true_iff in Hcond.
    destruct Hcond as ((((((((((((((Hce & Hp0) & Hp1) & Hp2) & Ho0) & Ho1) & Ho2) & Ht0) & Ht1) & Ht2) & H12) & Hidx) & Hdyn) & Hone) & Hk).
    apply negb_true_iff in Hce, Ho0, Ho1, Ho2, H12. apply Z.eqb_neq in H12.
    apply ty_eqb_eq in Ht0, Ht1, Hdyn.
    destruct (pos_field_facts _ Hp0) as (Hz0 & Hs0 & Hr0).
    destruct (pos_field_facts _ Hp1) as (Hz1 & Hs1 & Hr1).
    destruct (pos_field_facts _ Hp2) as (Hz2 & Hs2 & Hr2).
    destruct (f_ty f2) as [| | | |nm] eqn:Et2; try discriminate. clear Ht2.
    apply keeps_some in Hk.
    subst dyn.
    (* the encoder: reflective, over the three fields *)
    rewrite enc_ty_eq, EV, ES, Ed, Hce, Efl in He.
    destruct f as [|g1]; [discriminate|]. rewrite (enc_fields_pos _ _ _ _ _ _ Hp0 Ho0), Ht0 in He.
    destruct g1 as [|g2]; [discriminate|]. rewrite enc_ty_eq in He. cbn [enc_scalar bind fst snd] in He.
    rewrite (enc_fields_pos _ _ _ _ _ _ Hp1 Ho1), Ht1 in He.
    destruct (enc_ty g2 st (TPtr (TScalar KInt32)) (f_tag f1) idx) as [[ii si]| | |] eqn:Ei; cbn [bind fst snd] in He; try discriminate.
    destruct g2 as [|g3]; [discriminate|]. rewrite (enc_fields_pos _ _ _ _ _ _ Hp2 Ho2), Et2 in He.
    destruct (enc_ty g3 si (TIface nm) (f_tag f2) (VIface (attr_ty ATTRS name) w)) as [[iw sw]| | |] eqn:Ew; cbn [bind fst snd] in He; try discriminate.
    destruct g3 as [|g4]; [discriminate|]. rewrite enc_fields_eq in He. cbn [bind fst snd] in He. injection He as <- <-.
    rewrite enc_ty_eq in Ew.
    (* the index: absent, or one integer under its tag *)
    assert (Hi : si = st /\ forall (ei rest : list (relem R)), faithful F ii ei -> c_tag (rest, false) <> f_tag f1 ->
      (if c_tag ((ei ++ rest)%list, false) =? f_tag f1
       then do r <- c_integer F (f_tag f1) ((ei ++ rest)%list, false) ;; Ok (VPtr (VInt (fst r)), snd r)
       else Ok (VNil, ((ei ++ rest)%list, false))) = Ok (idx, (rest, false))).
    { rewrite enc_ty_eq in Ei. destruct idx as [| | | | |[z| | | | | | | | |]| | | |]; try discriminate.
      - injection Ei as <- <-. split; [reflexivity|]. intros ei rest Hf Hnext. apply faithful_nil_inv in Hf. subst ei. cbn [app].
        destruct (Z.eqb_spec (c_tag (rest, false)) (f_tag f1)); [contradiction | reflexivity].
      - rewrite enc_ty_eq in Ei. cbn [enc_scalar bind] in Ei. injection Ei as <- <-.
        split; [reflexivity|]. intros ei rest Hf _. apply faithful_one_inv in Hf. destruct Hf as (e & -> & He1). cbn [app].
        rewrite (faithful1_tag F _ _ _ _ He1). cbn [itag]. rewrite Z.eqb_refl.
        inversion He1; subst. unfold c_integer. erewrite c_scalar_hit by eassumption. reflexivity. }
    destruct Hi as (-> & Hdi).
    (* the value, of the type the attribute name selects *)
    assert (HQ4 : Q g4) by (intros g Hg; apply HQ; lia).
    destruct (Q_ty S OPS ATTRS OBJS F _ g4 HQ4 (Nat.le_refl _) _ _ _ _ _ _ _ _ Ew Hk) as (<- & Htw & Hone_w & _ & Hdw).
    destruct (Hone_w Hone) as [i ->].
    assert (Hiw : itag i = f_tag f2) by (inversion Htw; assumption).
    split; [reflexivity|]. split; [constructor; [reflexivity | constructor]|]. split; [eauto|]. split; [intros; discriminate|].
    intros es rest fd Hf _ Hfd. apply faithful_one_inv in Hf. destruct Hf as (e & -> & He1).
    inversion He1 as [tag0 kids0 raw eks Hk0| | | | | | | | | |]; subst.
    apply faithful_cons_inv in Hk0. destruct Hk0 as (en & ek0 & -> & Hfn & Hk0).
    apply faithful_app_inv in Hk0. destruct Hk0 as (ei & ek1 & -> & Hfi & Hk0).
    cbn [app] in Hk0. apply faithful_one_inv in Hk0. destruct Hk0 as (ew & -> & Hfw).
    unfold items_size at 1 in Hfd. cbn [fold_right] in Hfd. rewrite item_size_struct in Hfd.
    rewrite items_size_cons, items_size_app in Hfd. cbn [app item_size] in Hfd.
    destruct fd as [|fd1]; [lia|]. cbn [app].
    rewrite (dec_ty_custom S OPS ATTRS OBJS F fd1 st d tag _ Ed Hcd EV ES).
    unfold dec_custom_of. rewrite Hname.
    change (String.eqb "kmip.Attribute" "kmip.RequestBatchItem") with false.
    change (String.eqb "kmip.Attribute" "kmip.ResponseBatchItem") with false.
    change (String.eqb "kmip.Attribute" "kmip.Credential") with false.
    change (String.eqb "kmip.Attribute" "kmip.KeyBlock") with false.
    change (String.eqb "kmip.Attribute" "kmip.Attribute") with true. cbv iota.
    unfold dec_attribute. rewrite Hname.
    apply wrap_struct_ok with (l := []).
    unfold ftag, nth_field. rewrite Efl. cbn [nth].
    inversion Hfn; subst. unfold c_text. erewrite c_scalar_hit by eassumption. cbn [bind fst snd].
    assert (Hx1 : c_tag ([ew], false) <> f_tag f1) by (rewrite (faithful1_tag F _ _ _ _ Hfw), Hiw; congruence).
    match goal with |- bind ?m _ = _ =>
      replace m with (@Ok (value * cur R) (idx, ([ew], false))) by (symmetry; exact (Hdi ei [ew] Hfi Hx1)) end.
    cbn [bind fst snd]. cbv zeta.
    pose proof (Hdw [ew] [] fd1) as Hd. cbn [app] in Hd. rewrite Hd.
    - reflexivity.
    - constructor; [exact Hfw | constructor].
    - rewrite (one_item_no_lookahead _ Hone). discriminate.
    - unfold items_size in Hfd |- *. cbn [fold_right] in Hfd |- *. lia.
  Qed.
End RA.

(** Non-vacuity at the schema regenerated from /repo: real attributes conform (an indexed
    "Cryptographic Length" whose name selects an int32, a custom "x-id" attribute held as a
    generic tree under the value tag, a structured "Name" without index), and their binary
    encoding decodes back to them. *)
From KVGen Require Import KmipSchema.
From KV Require Import KmipCodec.
Local Open Scope string_scope.
Local Open Scope Z_scope.

Definition ex_attr_len : value :=
  VStruct "kmip.Attribute"
    [VStr [67; 114; 121; 112; 116; 111; 103; 114; 97; 112; 104; 105; 99; 32; 76; 101; 110; 103; 116; 104];
     VPtr (VInt 3); VIface (TScalar KInt32) (VInt 256)].
Definition ex_attr_custom : value :=
  VStruct "kmip.Attribute"
    [VStr [120; 45; 105; 100]; VPtr (VInt 0);
     VIface (TNamed "ttlv.Value") (VTree (IStruct 4325387 [IText 4325533 [97; 98]; IInt 4325385 (-7)]))].
Definition ex_attr_name : value :=
  VStruct "kmip.Attribute"
    [VStr [78; 97; 109; 101]; VNil; VIface (TNamed "kmip.Name") (VStruct "kmip.Name" [VStr [107; 49]; VInt 1])].

Definition attr_example_ok (v : value) : Prop :=
  (exists sc, conf_ty kmip_schema kmip_ops kmip_attrs kmip_objs 40 (Some (1, 4)) (TNamed "kmip.Attribute") 4325384 v = Some sc) /\
  (do r <- enc_ty kmip_schema 40 (Some (1, 4)) (TNamed "kmip.Attribute") 4325384 v ;;
   do c <- bin_cursor (wire_enc_list (fst r)) ;;
   do d <- dec_ty kmip_schema kmip_ops kmip_attrs kmip_objs bin_fmt 100 (Some (1, 4)) (TNamed "kmip.Attribute") 4325384 c ;;
   Ok (value_eqb (fst (fst d)) v && negb (match fst r with [] => true | _ => false end))) = Ok true.

Example rt_attribute_example : attr_example_ok ex_attr_len /\ attr_example_ok ex_attr_custom /\ attr_example_ok ex_attr_name.
Proof. repeat split; try (eexists; vm_compute; reflexivity); vm_compute; reflexivity. Qed.
