(** Dispatch of payloads, objects and attributes in the struct-level codec (C06). *)
From Coq Require Import ZArith List Bool String Lia.
From KV Require Import Base BaseProofs Wire Cursor Schema SchemaSem Dispatch PinnedDispatch.
From KVGen Require Import KmipSchema.
Import ListNotations.
Open Scope Z_scope.

(** soundness of the boolean table checks *)
Lemma ops_consistent_sound ops pops : ops_consistent ops pops = true ->
  forall op rq rs, In (op, (rq, rs)) ops -> assoc_s pops rq = Some op /\ assoc_s pops rs = Some op.
Proof.
  unfold ops_consistent. rewrite forallb_forall. intros H op rq rs Hin. specialize (H _ Hin). cbn [fst snd] in H.
  destruct (assoc_s pops rq) as [a|]; [|discriminate]. destruct (assoc_s pops rs) as [b|]; [|discriminate].
  apply andb_true_iff in H. destruct H as [Ha Hb]. apply Z.eqb_eq in Ha, Hb. subst. split; reflexivity.
Qed.

Lemma objs_consistent_sound objs otys : objs_consistent objs otys = true ->
  forall ot n, In (ot, n) objs -> assoc_s otys n = Some ot.
Proof.
  unfold objs_consistent. rewrite forallb_forall. intros H ot n Hin. specialize (H _ Hin). cbn [fst snd] in H.
  destruct (assoc_s otys n) as [a|]; [|discriminate]. apply Z.eqb_eq in H. subst. reflexivity.
Qed.

Lemma kmip_ops_consistent : ops_consistent kmip_ops kmip_payload_ops = true.
Proof. vm_compute. reflexivity. Qed.
Lemma kmip_objs_consistent : objs_consistent kmip_objs kmip_obj_types = true.
Proof. vm_compute. reflexivity. Qed.
Lemma kmip_codes_distinct : nodup_z (map fst kmip_ops) = true /\ nodup_z (map fst kmip_objs) = true.
Proof. vm_compute. split; reflexivity. Qed.
Lemma kmip_tables_pinned : kmip_ops = pinned_ops /\ kmip_objs = pinned_objs /\ kmip_attrs = pinned_attrs.
Proof. vm_compute. repeat split; reflexivity. Qed.

Section Dispatch.
  Variable S : schema.
  Variables (OPS : op_table) (ATTRS : attr_table) (OBJS : obj_table).
  Context {R : Type}.
  Variable F : rawfmt R.

  Local Notation dec_object := (dec_object S OPS ATTRS OBJS F).

  (** an unknown object type yields an error, never a value *)
  Lemma dec_object_unknown f st ot (c : cur R) :
    lookup_obj OBJS ot = None -> dec_object (Datatypes.S f) st ot c = Err.
  Proof. intros H. cbn [SchemaSem.dec_object]. rewrite H. reflexivity. Qed.

  (** a decoded object has the struct type registered for its object type *)
  Lemma dec_object_typed f st ot (c : cur R) v c' st' :
    dec_object (Datatypes.S f) st ot c = Ok (v, c', st') ->
    exists n w, lookup_obj OBJS ot = Some n /\ v = VIface (TPtr (TNamed n)) (VPtr w).
  Proof.
    cbn [SchemaSem.dec_object]. destruct (lookup_obj OBJS ot) as [n|]; [|discriminate].
    match goal with |- context [bind ?x _] => destruct x as [[[w cw] sw]| | |] end; cbn [bind]; try discriminate.
    intros H. injection H as <- <- <-. eauto.
  Qed.

  (** the value type an attribute is decoded into *)
  Lemma attr_ty_custom name : attr_is_custom name = true -> attr_ty ATTRS name = TNamed "ttlv.Value".
  Proof. intros H. unfold attr_ty. rewrite H. reflexivity. Qed.
  Lemma attr_ty_standard name t : attr_is_custom name = false -> lookup_attr ATTRS name = Some t -> attr_ty ATTRS name = t.
  Proof. intros H1 H2. unfold attr_ty. rewrite H1, H2. reflexivity. Qed.
  Lemma attr_ty_unknown name : attr_is_custom name = false -> lookup_attr ATTRS name = None -> attr_ty ATTRS name = TNamed "ttlv.Value".
  Proof. intros H1 H2. unfold attr_ty. rewrite H1, H2. reflexivity. Qed.
End Dispatch.
