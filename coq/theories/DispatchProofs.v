(** Dispatch of payloads, objects and attributes in the struct-level codec (C06). *)
From Coq Require Import ZArith List Bool String Lia.
From KV Require Import Base BaseProofs Wire Cursor Schema SchemaSem Dispatch PinnedDispatch.
From KVGen Require Import KmipSchema.
Import ListNotations.
Open Scope Z_scope.

(** soundness of the boolean table checks *)
Lemma ops_consistent_sound ops pops : ops_consistent ops pops = true ->
  forall op rq rs, In (op, (rq, rs)) ops -> assoc_s pops rq = Some op /\ assoc_s pops rs = Some op.
Proof.
  unfold ops_consistent. rewrite forallb_forall. intros H op rq rs Hin. specialize (H _ Hin). cbn [fst snd] in H.
  destruct (assoc_s pops rq) as [a|]; [|discriminate]. destruct (assoc_s pops rs) as [b|]; [|discriminate].
  apply andb_true_iff in H. destruct H as [Ha Hb]. apply Z.eqb_eq in Ha, Hb. subst. split; reflexivity.
Qed.

Lemma objs_consistent_sound objs otys : objs_consistent objs otys = true ->
  forall ot n, In (ot, n) objs -> assoc_s otys n = Some ot.
Proof.
  unfold objs_consistent. rewrite forallb_forall. intros H ot n Hin. specialize (H _ Hin). cbn [fst snd] in H.
  destruct (assoc_s otys n) as [a|]; [|discriminate]. apply Z.eqb_eq in H. subst. reflexivity.
Qed.

Lemma kmip_ops_consistent : ops_consistent kmip_ops kmip_payload_ops = true.
Proof. vm_compute. reflexivity. Qed.
Lemma kmip_objs_consistent : objs_consistent kmip_objs kmip_obj_types = true.
Proof. vm_compute. reflexivity. Qed.
Lemma kmip_codes_distinct : nodup_z (map fst kmip_ops) = true /\ nodup_z (map fst kmip_objs) = true.
Proof. vm_compute. split; reflexivity. Qed.
Lemma kmip_tables_pinned : kmip_ops = pinned_ops /\ kmip_objs = pinned_objs /\ kmip_attrs = pinned_attrs.
Proof. vm_compute. repeat split; reflexivity. Qed.

Lemma trees_of_map l : trees_of (map VTree l) = Some l.
Proof. induction l as [|x l IH]; [reflexivity|]. cbn [map trees_of tree_of]. rewrite IH. reflexivity. Qed.

(** an opaque payload is written back as exactly the generic trees that were read *)
Lemma unknown_payload_reencodes S f st d tag op trees :
  t_name d = "kmip.UnknownPayload"%string ->
  enc_custom S (Datatypes.S f) st d tag [VInt op; VList (map VTree trees)] = Ok ([IStruct tag trees], st).
Proof.
  intros Hn. cbn [enc_custom]. rewrite Hn.
  change (String.eqb "kmip.UnknownPayload" "kmip.RequestBatchItem") with false.
  change (String.eqb "kmip.UnknownPayload" "kmip.ResponseBatchItem") with false.
  change (String.eqb "kmip.UnknownPayload" "kmip.UnknownPayload") with true. cbv iota.
  rewrite trees_of_map. reflexivity.
Qed.

(** a generic tree held in a typed position is written back under that position's tag *)
Lemma tree_value_reencodes S f st tag i :
  enc_ty S (Datatypes.S f) st (TNamed "ttlv.Value") tag (VTree i) = Ok ([retag i tag], st).
Proof. reflexivity. Qed.

Section Dispatch.
  Variable S : schema.
  Variables (OPS : op_table) (ATTRS : attr_table) (OBJS : obj_table).
  Context {R : Type}.
  Variable F : rawfmt R.

  Local Notation dec_object := (dec_object S OPS ATTRS OBJS F).

  (** an unknown object type yields an error, never a value *)
  Lemma dec_object_unknown f st ot (c : cur R) :
    lookup_obj OBJS ot = None -> dec_object (Datatypes.S f) st ot c = Err.
  Proof. intros H. cbn [SchemaSem.dec_object]. rewrite H. reflexivity. Qed.

  (** a decoded object has the struct type registered for its object type *)
  Lemma dec_object_typed f st ot (c : cur R) v c' st' :
    dec_object (Datatypes.S f) st ot c = Ok (v, c', st') ->
    exists n w, lookup_obj OBJS ot = Some n /\ v = VIface (TPtr (TNamed n)) (VPtr w).
  Proof.
    cbn [SchemaSem.dec_object]. destruct (lookup_obj OBJS ot) as [n|]; [|discriminate].
    match goal with |- context [bind ?x _] => destruct x as [[[w cw] sw]| | |] end; cbn [bind]; try discriminate.
    intros H. injection H as <- <- <-. eauto.
  Qed.

  (** the value type an attribute is decoded into *)
  Lemma attr_ty_custom name : attr_is_custom name = true -> attr_ty ATTRS name = TNamed "ttlv.Value".
  Proof. intros H. unfold attr_ty. rewrite H. reflexivity. Qed.
  Lemma attr_ty_standard name t : attr_is_custom name = false -> lookup_attr ATTRS name = Some t -> attr_ty ATTRS name = t.
  Proof. intros H1 H2. unfold attr_ty. rewrite H1, H2. reflexivity. Qed.
  Lemma attr_ty_unknown name : attr_is_custom name = false -> lookup_attr ATTRS name = None -> attr_ty ATTRS name = TNamed "ttlv.Value".
  Proof. intros H1 H2. unfold attr_ty. rewrite H1, H2. reflexivity. Qed.

  (** ---- payload dispatch, for ANY recursive decoders [dty dopt dobj dtrees] *)
  Variable dty : vstate -> ty -> Z -> cur R -> dres (R := R).
  Variable dopt : vstate -> ty -> Z -> cur R -> dres (R := R).
  Variable dobj : vstate -> Z -> cur R -> dres (R := R).
  Variable dtrees : cur R -> res (list item * cur R).

  (** what a decoded payload may be for operation [opv] in direction [side] *)
  Definition payload_ok (side : bool) (opv : Z) (pl : value) : Prop :=
    match lookup_op OPS opv with
    | Some (rq, rs) => exists w, pl = VIface (TPtr (TNamed (if side then rs else rq))) (VPtr w)
    | None => exists trees, pl = VIface (TPtr (TNamed "kmip.UnknownPayload"))
                                   (VPtr (VStruct "kmip.UnknownPayload" [VInt opv; VList (map VTree trees)]))
    end.

  Lemma dec_payload_dispatch st side opv tag (c : cur R) pl c' st' :
    dec_payload OPS F dty dtrees st side opv tag c = Ok (pl, c', st') -> payload_ok side opv pl.
  Proof.
    unfold dec_payload, payload_ok. destruct (lookup_op OPS opv) as [[rq rs]|].
    - destruct (dty st _ tag c) as [[[w cw] sw]| | |]; cbn [bind]; try discriminate.
      intros H. injection H as <- <- <-. eauto.
    - destruct (c_struct F tag dtrees c) as [[trees ct]| | |]; cbn [bind]; try discriminate.
      intros H. injection H as <- <- <-. eauto.
  Qed.

  Ltac bind_inv H :=
    repeat match type of H with
    | bind ?x _ = Ok _ => let E := fresh "E" in destruct x as [[[? ?] ?]| | |] eqn:E; cbn [bind fst snd] in H; try discriminate H
    end.

  Lemma wrap_struct_inv n tag (c : cur R) body v c' st' :
    wrap_struct F n tag c body = Ok (v, c', st') ->
    exists fs sub cs, v = VStruct n fs /\ body sub = Ok (fs, cs, st').
  Proof.
    unfold wrap_struct, c_struct. intros H.
    destruct (c_expect T_STRUCT tag c) as [[t y raw kids kb]| | |]; cbn [bind] in H; try discriminate.
    destruct (c_open kids kb) as [sub| | |]; cbn [bind] in H; try discriminate.
    destruct (body sub) as [[[fs cs] ss]| | |] eqn:Eb; cbn [bind fst snd] in H; try discriminate.
    destruct (strict_close F && snd cs); try discriminate.
    destruct (c_next c) as [cn| | |]; cbn [bind fst snd] in H; try discriminate.
    injection H as <- <- <-. eauto.
  Qed.

  (** RequestBatchItem: the decoded payload has the request type registered for the item's
      operation, or is the opaque payload carrying that operation code *)
  Lemma request_item_dispatch st d tag (c : cur R) v c' st' :
    dec_request_item OPS F dty dopt dtrees st d tag c = Ok (v, c', st') ->
    exists op id pl ext, v = VStruct (t_name d) [op; id; pl; ext] /\ payload_ok false (int_of op) pl.
  Proof.
    unfold dec_request_item. intros H. apply wrap_struct_inv in H. destruct H as (fs & sub & cs & -> & H).
    bind_inv H. injection H as <- <- <-.
    do 4 eexists. split; [reflexivity|]. eapply dec_payload_dispatch. eassumption.
  Qed.

  (** ResponseBatchItem: likewise with the response type; no payload at all is the only other outcome *)
  Lemma response_item_dispatch st d tag (c : cur R) v c' st' :
    dec_response_item OPS F dty dopt dtrees st d tag c = Ok (v, c', st') ->
    exists op id status reason msg acv pl ext,
      v = VStruct (t_name d) [op; id; status; reason; msg; acv; pl; ext] /\
      (pl = VNil \/ payload_ok true (int_of op) pl).
  Proof.
    unfold dec_response_item. intros H. apply wrap_struct_inv in H. destruct H as (fs & sub & cs & -> & H).
    bind_inv H. injection H as <- <- <-.
    do 8 eexists. split; [reflexivity|].
    match goal with E : (if ?b then _ else _) = Ok _ |- _ => destruct b; [right; eapply dec_payload_dispatch; eassumption | left; injection E as <- _ _; reflexivity] end.
  Qed.

  (** Get / Register / Export / Import payloads: the object is decoded by [dobj] for the
      accompanying object type *)
  Lemma get_response_object st d tag (c : cur R) v c' st' :
    dec_get_response F dty dobj st d tag c = Ok (v, c', st') ->
    exists ot uid ob co c1 s1, v = VStruct (t_name d) [ot; uid; ob] /\ dobj st (int_of ot) co = Ok (ob, c1, s1).
  Proof.
    unfold dec_get_response. intros H. apply wrap_struct_inv in H. destruct H as (fs & sub & cs & -> & H).
    bind_inv H. injection H as <- <- <-. do 6 eexists. split; [reflexivity | eassumption].
  Qed.

  (** Attribute: the value is decoded at the type the table gives for its name *)
  Lemma attribute_dispatch st d tag (c : cur R) v c' st' :
    dec_attribute ATTRS F dty st d tag c = Ok (v, c', st') ->
    exists name idx w, v = VStruct (t_name d) [VStr name; idx; VIface (attr_ty ATTRS name) w].
  Proof.
    unfold dec_attribute. intros H. apply wrap_struct_inv in H. destruct H as (fs & sub & cs & -> & H).
    destruct (c_text F (ftag d 0) sub) as [[nm cn]| | |]; cbn [bind fst snd] in H; try discriminate.
    match type of H with bind ?x _ = _ => destruct x as [[idx ci]| | |]; cbn [bind fst snd] in H; try discriminate end.
    bind_inv H. injection H as <- <- <-. eauto.
  Qed.
End Dispatch.
