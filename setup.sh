#!/bin/bash
# Builds the framework from files on disk only (offline): Go harness, generated model data, full Rocq build.
set -e
cd "$(dirname "$0")"
export GOFLAGS=-mod=mod GOPROXY=off TZ=UTC
python3 - <<'PY'
import sys, os
sys.path.insert(0, os.path.join(os.getcwd(), "lib"))
import vcheck
ok, out = vcheck.build_harness()
print(out[-3000:])
if not ok: sys.exit("harness build failed")
ok, out = vcheck.regen()
print(out[-3000:])
if not ok: sys.exit("translator failed")
ok, out = vcheck.coq_project()
if not ok: sys.exit(out)
ok, out = vcheck.coq_build([], timeout=6000)
print(out[-6000:])
if not ok: sys.exit("coq build failed")
PY
echo "setup ok"
