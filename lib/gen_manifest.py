#!/usr/bin/env python3
"""Regenerates MANIFEST.json from lib/manifest_props.json (one entry per claimed property)."""
import json, os, subprocess
V = os.path.dirname(os.path.dirname(os.path.abspath(__file__)))
props = json.load(open(os.path.join(V, "lib", "manifest_props.json")))
props["claimed"] = {}
for fn in sorted(os.listdir(os.path.join(V, "lib", "props"))):
    if fn.endswith(".json"):
        c = json.load(open(os.path.join(V, "lib", "props", fn)))
        if "manifest" in c:
            props["claimed"][fn[:-5]] = c["manifest"]
allp = [json.loads(l)["id"] for l in open(os.path.join(V, "properties.jsonl"))]
hooks = subprocess.run(["git", "-C", "/repo", "log", "--format=%H %s"], stdout=subprocess.PIPE).stdout.decode().splitlines()
hook_commits = [l.split()[0] for l in hooks if " verif hook" in l]
checks = []
for pid in allp:
    if pid not in props["claimed"]:
        continue
    c = props["claimed"][pid]
    checks.append({
        "property_id": pid,
        "quick_cmd": "./check %s --tier quick" % pid,
        "thorough_cmd": "./check %s --tier thorough" % pid,
        "evidence_file": "/verif/evidence/%s.json" % pid,
        "replay_cmd_template": "./check %s --replay {path}" % pid,
        "engine": "rocq",
        "level_claimed": {"category": "proof", "text": c["text"], "design_ref": c.get("design_ref", "DESIGN.md section 7, " + pid)},
        "level_note": c["note"],
        "technique": c["technique"],
    })
m = {
    "version": 1,
    "setup_cmd": "./setup.sh",
    "hooks": {
        "guard": "verif",
        "enable": "go build -tags verif (the harness module replaces github.com/ovh/kmip-go by /repo)",
        "baseline_off_cmd": "cd /repo && GOFLAGS=-mod=mod go test -vet=off -count=1 -timeout 25m ./...",
        "source_commits": hook_commits,
        "add_only": True,
    },
    "engines": [
        {"name": "rocq", "path": "/verif/coq", "serves_properties": [c["property_id"] for c in checks],
         "kind_free_text": "Coq 8.16.1 development (models + theorems), regenerated data from /repo via harness/cmd/dump, correspondence via harness/cmd/drive + vm_compute"},
    ],
    "checks": checks,
    "notes": props.get("notes", ""),
    "not_applicable": [{"property_id": p, "reason": props["not_applicable"].get(p, "check not built yet in this development; the property is not claimed until its model, theorems and correspondence exist")} for p in allp if p not in props["claimed"]],
}
json.dump(m, open(os.path.join(V, "MANIFEST.json"), "w"), indent=1)
print("claimed:", [c["property_id"] for c in checks])
