#!/usr/bin/env python3
"""Prints the markdown table of seeded changes (seeded/*/meta.json): which checks caught which change."""
import json, os, glob
V = os.path.dirname(os.path.dirname(os.path.abspath(__file__)))
rows = []
for d in sorted(glob.glob(os.path.join(V, "seeded", "*"))):
    try:
        m = json.load(open(os.path.join(d, "meta.json")))
    except Exception:
        continue
    name = os.path.basename(d)
    summ = (m.get("summary") or m.get("agent_meta", {}).get("summary") or "").replace("|", "/").replace("\n", " ")
    needs = (m.get("needs_to_manifest") or m.get("agent_meta", {}).get("needs_to_manifest") or "").replace("|", "/").replace("\n", " ")
    caught = []
    for p, e in sorted(m.get("checks", {}).items()):
        if e.get("violation_lines"):
            sig = (e.get("first_replay") or {}).get("sig") or ""
            nf = any("no-failing-input-found" in l for l in e["violation_lines"][:1])
            caught.append("%s%s%s" % (p, " (`%s`)" % sig if sig else "", " [theorem/correspondence only]" if nf else ("" if e.get("replay_reproduces") else " [replay did not reproduce]")))
        else:
            caught.append("%s: not caught" % p)
    rows.append("| `%s` | %s | %s | %s |" % (name, summ[:160], needs[:140], "; ".join(caught)))
print("| seeded change | what it does | needs | caught by |\n|---|---|---|---|")
print("\n".join(rows))
