#!/bin/bash
# build one or more Rocq targets of the development: lib/cb.sh theories/Foo.vo
cd "$(dirname "$0")/.." && python3 - "$@" <<'PY'
import sys
sys.path.insert(0, 'lib')
import vcheck
ok, out = vcheck.coq_project()
ok, out = vcheck.coq_build(sys.argv[1:], timeout=1800)
print(out[-4000:])
sys.exit(0 if ok else 1)
PY
