#!/usr/bin/env python3
"""Verify a seeded breaking change and run the checks against it.

usage: lib/seedtest.py <Cxx> <out_dir> <k> <name>     e.g. lib/seedtest.py C09 /root/ws/seed_C09/out 1 C09-undo-single-item

1. in a scratch worktree of /repo (under /root/ws/seedwork): the patch applies, the library
   builds, the unedited test suite passes, the demonstration fails; without the patch the
   demonstration passes;
2. applies the patch to /repo itself, runs ./check <Cxx> --tier quick (and the replay of the
   first VIOLATION), reverts /repo (git checkout -- .);
3. stores everything under /verif/seeded/<name>/ (patch.diff, demo, meta.json).
"""
import json, os, re, shutil, subprocess, sys, time

V = os.path.dirname(os.path.dirname(os.path.abspath(__file__)))
ENV = dict(os.environ, GOFLAGS="-mod=mod", GOPROXY="off", TZ="UTC")

def sh(cmd, cwd=None, timeout=1800):
    p = subprocess.run(cmd, shell=True, cwd=cwd, env=ENV, stdout=subprocess.PIPE, stderr=subprocess.STDOUT, timeout=timeout)
    return p.returncode, p.stdout.decode("utf-8", "replace")

def recheck():
    """lib/seedtest.py --recheck <name> [props...]: re-run the checks against seeded/<name>/patch.diff"""
    name = sys.argv[2]
    d = os.path.join(V, "seeded", name)
    res = json.load(open(os.path.join(d, "meta.json")))
    props = sys.argv[3:] or [res["property"]]
    patch = os.path.join(d, "patch.diff")
    rc, o = sh("git -C /repo status --porcelain")
    assert o.strip() == "", "/repo not clean: " + o
    rc, o = sh("git -C /repo apply %s" % patch)
    assert rc == 0, "patch does not apply: " + o
    try:
        rc, o = sh("go build ./...", cwd="/repo")
        res.setdefault("ran", {})["builds_on_current_main"] = rc == 0
        for p in props:
            t0 = time.time()
            rc, o = sh("./check %s --tier quick" % p, cwd=V, timeout=3000)
            viol = [l for l in o.splitlines() if l.startswith("VIOLATION")]
            entry = {"exit": rc, "violation_lines": viol[:5], "summary_line": [l for l in o.splitlines() if l.startswith("check ")][-1:],
                     "seconds": round(time.time() - t0, 1)}
            if viol:
                mm = re.search(r"replay=(\S+)", viol[0])
                if mm and os.path.exists(mm.group(1)):
                    rp = json.load(open(mm.group(1)))
                    entry["first_replay"] = {"kind": rp.get("kind"), "sig": rp.get("sig"), "what": (rp.get("what") or "")[:400]}
                    rc2, o2 = sh("./check %s --replay %s" % (p, mm.group(1)), cwd=V, timeout=3000)
                    entry["replay_reproduces"] = rc2 != 0
            res.setdefault("checks", {})[p] = entry
    finally:
        sh("git -C /repo checkout -- .")
    json.dump(res, open(os.path.join(d, "meta.json"), "w"), indent=1)
    print(name, {p: (e["exit"], e["violation_lines"][:1], e.get("replay_reproduces")) for p, e in res["checks"].items()})

def main():
    if sys.argv[1] == "--recheck":
        return recheck()
    prop, out, k, name = sys.argv[1], sys.argv[2], sys.argv[3], sys.argv[4]
    extra_props = sys.argv[5:]  # further properties whose checks should also be run
    patch = os.path.join(out, "m%s.patch.diff" % k)
    demo = os.path.join(out, "m%s_demo_test.go" % k)
    meta = json.load(open(os.path.join(out, "m%s.meta.json" % k)))
    place = meta["demo_place"]
    m = re.search(r"[\w./-]+_test\.go", place)
    place = m.group(0) if m else place
    if "/repo/" in place:
        place = place.split("/repo/", 1)[1]
    place = place.lstrip("/")
    cmd = meta["demo_cmd"]
    cmd = re.sub(r"cd\s+\S+\s*&&\s*", "", cmd)
    cmd = re.sub(r"\b(GOFLAGS|GOPROXY)=\S+\s*", "", cmd)
    wt = "/root/ws/seedwork"
    sh("git -C /repo worktree remove --force %s" % wt); shutil.rmtree(wt, ignore_errors=True)
    rc, o = sh("git -C /repo worktree add -q --detach %s main" % wt)
    assert rc == 0, o
    res = {"property": prop, "name": name, "summary": meta.get("summary"), "why_it_breaks": meta.get("why_it_breaks"),
           "needs_to_manifest": meta.get("needs_to_manifest"), "demo_place": place, "demo_cmd": cmd, "ran": {}}
    try:
        rc, o = sh("git apply %s" % patch, cwd=wt); res["ran"]["patch_applies"] = rc == 0
        rc, o = sh("go build ./...", cwd=wt); res["ran"]["builds"] = rc == 0
        rc, o = sh("go test -vet=off -count=1 ./...", cwd=wt)
        if rc != 0:  # the repository has one flaky test (TestPrivateKey_RSA, random key with a leading zero byte): retry once
            rc, o = sh("go test -vet=off -count=1 ./...", cwd=wt)
        res["ran"]["suite_passes_with_change"] = rc == 0
        if rc != 0: res["ran"]["suite_output"] = o[-1500:]
        os.makedirs(os.path.dirname(os.path.join(wt, place)), exist_ok=True)
        shutil.copyfile(demo, os.path.join(wt, place))
        rc, o = sh(cmd, cwd=wt); res["ran"]["demo_fails_with_change"] = rc != 0
        sh("git apply -R %s" % patch, cwd=wt)
        rc, o = sh(cmd, cwd=wt); res["ran"]["demo_passes_without_change"] = rc == 0
        if rc != 0: res["ran"]["demo_clean_output"] = o[-1500:]
    finally:
        sh("git -C /repo worktree remove --force %s" % wt); shutil.rmtree(wt, ignore_errors=True)
    confirmed = all(res["ran"].get(x) for x in ("patch_applies", "builds", "suite_passes_with_change", "demo_fails_with_change", "demo_passes_without_change"))
    res["confirmed"] = confirmed
    # run the checks against it
    res["checks"] = {}
    rc, o = sh("git -C /repo status --porcelain")
    assert o.strip() == "", "/repo not clean: " + o
    rc, o = sh("git -C /repo apply %s" % patch)
    try:
        for p in [prop] + extra_props:
            t0 = time.time()
            rc, o = sh("./check %s --tier quick" % p, cwd=V, timeout=3000)
            viol = [l for l in o.splitlines() if l.startswith("VIOLATION")]
            entry = {"exit": rc, "violation_lines": viol[:5], "summary_line": [l for l in o.splitlines() if l.startswith("check ")][-1:],
                     "seconds": round(time.time() - t0, 1)}
            if viol:
                mm = re.search(r"replay=(\S+)", viol[0])
                if mm and os.path.exists(mm.group(1)):
                    rp = json.load(open(mm.group(1)))
                    entry["first_replay"] = {"kind": rp.get("kind"), "sig": rp.get("sig"), "what": (rp.get("what") or "")[:400]}
                    rc2, o2 = sh("./check %s --replay %s" % (p, mm.group(1)), cwd=V, timeout=3000)
                    entry["replay_reproduces"] = rc2 != 0
            res["checks"][p] = entry
    finally:
        sh("git -C /repo checkout -- .")
        rc, o = sh("git -C /repo status --porcelain")
        assert o.strip() == "", "/repo not clean after revert: " + o
    d = os.path.join(V, "seeded", name)
    os.makedirs(d, exist_ok=True)
    shutil.copyfile(patch, os.path.join(d, "patch.diff"))
    shutil.copyfile(demo, os.path.join(d, "demo_test.go"))
    json.dump(res, open(os.path.join(d, "meta.json"), "w"), indent=1)
    print(json.dumps({"name": name, "confirmed": confirmed, "ran": res["ran"], "checks": {p: (e["exit"], e["violation_lines"][:1], e.get("replay_reproduces")) for p, e in res["checks"].items()}}, indent=1))

main()
