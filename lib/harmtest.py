#!/usr/bin/env python3
"""Run the checks against a behaviour-preserving ("harmless") change of ovh/kmip-go: they must stay silent.

usage: lib/harmtest.py <patch.diff> <meta.json> <name> <Cxx> [<Cxx> ...]

Applies the patch to /repo, runs ./check <Cxx> --tier quick for each property given, reverts /repo
(git checkout -- .), and stores patch, the sub-agent's description and the verdicts under
/verif/harmless/<name>/ (meta.json: per property exit code, VIOLATION lines, first replay signature).
"""
import json, os, re, shutil, subprocess, sys, time

V = os.path.dirname(os.path.dirname(os.path.abspath(__file__))) if os.path.basename(os.path.dirname(os.path.abspath(__file__))) == "lib" else "/verif"
ENV = dict(os.environ, GOFLAGS="-mod=mod", GOPROXY="off", TZ="UTC")

def sh(cmd, cwd=None, timeout=3000):
    p = subprocess.run(cmd, shell=True, cwd=cwd, env=ENV, stdout=subprocess.PIPE, stderr=subprocess.STDOUT, timeout=timeout)
    return p.returncode, p.stdout.decode("utf-8", "replace")

def main():
    patch, meta, name, props = sys.argv[1], sys.argv[2], sys.argv[3], sys.argv[4:]
    d = os.path.join(V, "harmless", name)
    os.makedirs(d, exist_ok=True)
    shutil.copy(patch, os.path.join(d, "patch.diff"))
    res = {"name": name, "description": json.load(open(meta)), "checks": {}}
    old = os.path.join(d, "meta.json")
    if os.path.exists(old):
        res["checks"] = json.load(open(old)).get("checks", {})
    rc, o = sh("git -C /repo status --porcelain")
    assert o.strip() == "", "/repo not clean: " + o
    rc, o = sh("git -C /repo apply %s" % os.path.abspath(patch))
    assert rc == 0, "patch does not apply: " + o
    try:
        rc, o = sh("go build ./... && go build -tags verif ./...", cwd="/repo")
        res["builds"] = rc == 0
        for p in props:
            t0 = time.time()
            rc, o = sh("./check %s --tier quick" % p, cwd=V)
            viol = [l for l in o.splitlines() if l.startswith("VIOLATION")]
            e = {"exit": rc, "violation_lines": viol[:5], "summary_line": [l for l in o.splitlines() if l.startswith("check ")][-1:], "seconds": round(time.time() - t0, 1)}
            if viol:
                mm = re.search(r"replay=(\S+)", viol[0])
                if mm and os.path.exists(mm.group(1)):
                    rp = json.load(open(mm.group(1)))
                    e["first_replay"] = {"kind": rp.get("kind"), "sig": rp.get("sig"), "what": (rp.get("what") or "")[:400]}
            res["checks"][p] = e
    finally:
        sh("git -C /repo checkout -- .")
    res["silent"] = all(c["exit"] == 0 and not c["violation_lines"] for c in res["checks"].values())
    json.dump(res, open(old, "w"), indent=1)
    print(name, "silent" if res["silent"] else "ALARM", {p: c["exit"] for p, c in res["checks"].items()})

main()
