#!/usr/bin/env python3
"""Common machinery behind /verif/check.

Pipeline of one check (see DESIGN.md section 3):
  1. build the Go harness against /repo's working tree with -tags verif
  2. regenerate coq/gen/*.v from /repo (translator `dump`)
  3. build the Rocq development needed by the property (full .vo build), re-check
     the property's Props/Cxx.v and capture its Print Assumptions output
  4. run the property's driver: generates cases, runs the implementation on them,
     evaluates the property's own oracle on the implementation (search for a failing
     input) and writes cases.v holding the observed outcomes
  5. evaluate the model on the same cases inside Rocq (vm_compute) -> mismatches
  6. verdict, replay files, evidence
"""
import fcntl
import hashlib
import json
import os
import re
import resource
import shutil
import subprocess
import sys
import time

VERIF = os.path.dirname(os.path.dirname(os.path.abspath(__file__)))
REPO = os.environ.get("VERIF_REPO", "/repo")
WORK = os.path.join(VERIF, ".work")
COQ = os.path.join(VERIF, "coq")
BIN = os.path.join(WORK, "bin")

GATE_RE = re.compile(
    r"\b(Admitted|admit|Axiom|Axioms|Parameter|Parameters|Conjecture|Conjectures|"
    r"Admit\s+Obligations|bypass_check)\b|Unset\s+Guard|Unset\s+Positivity|"
    r"Unset\s+Universe|type-in-type|impredicative-set")


def env():
    e = dict(os.environ)
    e["GOFLAGS"] = "-mod=mod"
    e["GOPROXY"] = "off"
    e["TZ"] = "UTC"
    e.pop("GOTOOLCHAIN", None) if e.get("GOTOOLCHAIN") == "local" else None
    e.pop("GOSUMDB", None) if e.get("GOSUMDB") == "off" else None
    return e


def unlimit_stack():
    try:
        resource.setrlimit(resource.RLIMIT_STACK, (resource.RLIM_INFINITY, resource.RLIM_INFINITY))
    except Exception:
        try:
            soft, hard = resource.getrlimit(resource.RLIMIT_STACK)
            resource.setrlimit(resource.RLIMIT_STACK, (hard, hard))
        except Exception:
            pass


def run(cmd, cwd=None, timeout=1800, stdin=None, extra_env=None):
    e = env()
    if extra_env:
        e.update(extra_env)
    try:
        p = subprocess.run(cmd, cwd=cwd, env=e, stdout=subprocess.PIPE, stderr=subprocess.STDOUT,
                           timeout=timeout, input=stdin, preexec_fn=unlimit_stack)
        return p.returncode, p.stdout.decode("utf-8", "replace")
    except subprocess.TimeoutExpired as ex:
        out = (ex.stdout or b"").decode("utf-8", "replace")
        return 124, out + "\n[timeout after %ss]" % timeout


class Lock:
    def __init__(self, name="build"):
        os.makedirs(WORK, exist_ok=True)
        self.path = os.path.join(WORK, "." + name + ".lock")

    def __enter__(self):
        self.f = open(self.path, "w")
        fcntl.flock(self.f, fcntl.LOCK_EX)
        return self

    def __exit__(self, *a):
        fcntl.flock(self.f, fcntl.LOCK_UN)
        self.f.close()


# ---------------------------------------------------------------- harness build

def build_harness():
    """go build the dump and drive binaries against /repo's working tree."""
    os.makedirs(BIN, exist_ok=True)
    hdir = os.path.join(VERIF, "harness")
    with open(os.path.join(hdir, "go.mod"), "w") as f:
        f.write("module verifharness\n\ngo 1.24.0\n\nrequire github.com/ovh/kmip-go v0.0.0\n\n"
                "replace github.com/ovh/kmip-go => %s\n" % REPO)
    # go.sum must match /repo's
    try:
        shutil.copyfile(os.path.join(REPO, "go.sum"), os.path.join(hdir, "go.sum"))
    except Exception:
        pass
    logs = []
    ok = True
    for name in ("dump", "drive"):
        rc, out = run(["go", "build", "-tags", "verif", "-o", os.path.join(BIN, name), "./cmd/" + name],
                      cwd=hdir, timeout=900)
        logs.append(out)
        if rc != 0:
            ok = False
    return ok, "\n".join(logs)


def regen():
    """Run the translator; rewrite coq/gen/*.v only when content changed."""
    tmp = os.path.join(WORK, "gen.tmp")
    shutil.rmtree(tmp, ignore_errors=True)
    os.makedirs(tmp)
    rc, out = run([os.path.join(BIN, "dump"), "--out", tmp], timeout=300)
    if rc != 0:
        return False, out
    gen = os.path.join(COQ, "gen")
    os.makedirs(gen, exist_ok=True)
    changed = []
    for fn in sorted(os.listdir(tmp)):
        src = os.path.join(tmp, fn)
        dst = os.path.join(gen, fn)
        new = open(src, "rb").read()
        old = open(dst, "rb").read() if os.path.exists(dst) else None
        if new != old:
            with open(dst, "wb") as f:
                f.write(new)
            changed.append(fn)
    return True, "regenerated: %s\n%s" % (changed, out)


# ---------------------------------------------------------------- coq build

def coq_project():
    """Write _CoqProject from the files present, and the coq_makefile Makefile."""
    lines = ["-Q theories KV", "-Q gen KVGen", "-arg -w", "-arg -notation-overridden,-deprecated-hint-without-locality,-deprecated-instance-without-locality"]
    files = []
    for sub in ("gen", "theories", "theories/Props"):
        d = os.path.join(COQ, sub)
        if not os.path.isdir(d):
            continue
        for fn in sorted(os.listdir(d)):
            if fn.endswith(".v"):
                files.append(sub + "/" + fn)
    content = "\n".join(lines + files) + "\n"
    p = os.path.join(COQ, "_CoqProject")
    old = open(p).read() if os.path.exists(p) else None
    if old != content or not os.path.exists(os.path.join(COQ, "Makefile.coq")):
        with open(p, "w") as f:
            f.write(content)
        rc, out = run(["coq_makefile", "-f", "_CoqProject", "-o", "Makefile.coq"], cwd=COQ)
        if rc != 0:
            return False, out
    return True, ""


def gate():
    """Forbidden-vernacular gate over the whole development (hand-written and generated)."""
    bad = []
    for sub in ("gen", "theories", "theories/Props"):
        d = os.path.join(COQ, sub)
        if not os.path.isdir(d):
            continue
        for fn in sorted(os.listdir(d)):
            if not fn.endswith(".v"):
                continue
            txt = open(os.path.join(d, fn), encoding="utf-8", errors="replace").read()
            # strip comments (non-nested is enough: we do not nest)
            stripped = re.sub(r"\(\*.*?\*\)", " ", txt, flags=re.S)
            for m in GATE_RE.finditer(stripped):
                bad.append("%s/%s: %s" % (sub, fn, m.group(0)))
    return bad


def coq_build(targets, timeout=3000):
    ok, out = coq_project()
    if not ok:
        return False, out
    cmd = ["make", "-f", "Makefile.coq", "-k", "-j16"] + targets
    rc, out = run(cmd, cwd=COQ, timeout=timeout)
    return rc == 0, out


def coqc_file(path, timeout=1200):
    """Compile one .v file (not part of the project) against the built development."""
    cmd = ["coqc", "-noglob", "-Q", os.path.join(COQ, "theories"), "KV", "-Q", os.path.join(COQ, "gen"), "KVGen",
           "-w", "-notation-overridden,-deprecated-hint-without-locality,-deprecated-instance-without-locality",
           os.path.basename(path)]
    return run(cmd, cwd=os.path.dirname(path), timeout=timeout)


def first_error(log):
    m = re.search(r'File "([^"]+)", line (\d+), characters [^\n]*\n((?:.*\n){0,12})', log)
    if m:
        return "%s:%s %s" % (m.group(1), m.group(2), m.group(3).strip()[:600])
    return log.strip()[-600:]


# ---------------------------------------------------------------- known findings

def load_known():
    p = os.path.join(VERIF, "known_findings.json")
    if not os.path.exists(p):
        return []
    return json.load(open(p)).get("findings", [])


def known_match(prop, sig, known):
    for k in known:
        if k.get("property") == prop and k.get("status") == "known" and k.get("sig") == sig:
            return k
    return None


# ---------------------------------------------------------------- main

def parse_mismatches(out):
    """cases.v prints `MISMATCHES = [..]` style results via `Print`; collect numbers."""
    res = {}
    flat = re.sub(r"\s+", " ", out)
    for m in re.finditer(r"(\w+) = (\[[^\]]*\]|nil)", flat):
        name, body = m.group(1), m.group(2)
        if not name.startswith("mism"):
            continue
        nums = re.findall(r"\d+", body)
        res[name] = [int(x) for x in nums]
    return res


def write_json(path, obj):
    os.makedirs(os.path.dirname(path), exist_ok=True)
    tmp = path + ".tmp"
    with open(tmp, "w") as f:
        json.dump(obj, f, indent=1, sort_keys=False)
        f.write("\n")
    os.replace(tmp, path)


def check(prop, tier, replay=None):
    t0 = time.time()
    seed = int(os.environ.get("VERIF_SEED", "1") or "1")
    if os.environ.get("VERIF_TIER") in ("quick", "thorough") and tier is None:
        tier = os.environ["VERIF_TIER"]
    tier = tier or "quick"
    cfg = json.load(open(os.path.join(VERIF, "lib", "props", prop + ".json")))
    work = os.path.join(WORK, prop + ("_replay" if replay else ""))
    shutil.rmtree(work, ignore_errors=True)
    os.makedirs(work)
    log = open(os.path.join(work, "check.log"), "w")

    def L(*a):
        log.write(" ".join(str(x) for x in a) + "\n")
        log.flush()

    violations = []   # (replay_path, suffix)
    known_lines = []
    known = load_known()
    proof = {"obligations": 0, "discharged": 0, "assumptions": [], "broken": []}
    infra_errors = []

    # ---- 1-3: build (shared, locked)
    with Lock():
        ok, out = build_harness()
        L("== build harness", ok)
        L(out)
        harness_ok = ok
        if not ok:
            infra_errors.append("harness build failed: " + out[-800:])
        gen_ok = False
        if ok:
            gen_ok, out = regen()
            L("== regen", gen_ok)
            L(out)
            if not gen_ok:
                infra_errors.append("translator failed: " + out[-800:])
        bad = gate()
        if bad:
            infra_errors.append("forbidden vernacular: " + "; ".join(bad[:5]))
        # model files first (so that cases can run even when a proof breaks)
        model_targets = ["theories/Cases.vo"] + ["theories/%s.vo" % m for m in cfg.get("model", [])] + \
                        ["gen/%s.vo" % m for m in cfg.get("gen", [])]
        models_ok, out = coq_build(model_targets) if model_targets else (True, "")
        L("== coq models", models_ok)
        L(out)
        props_file = os.path.join(COQ, "theories", "Props", prop + ".v")
        prop_targets = ["theories/%s.vo" % m for m in cfg.get("proofs", [])]
        pdeps_ok, out2 = coq_build(prop_targets) if prop_targets else (True, "")
        L("== coq proofs", pdeps_ok)
        L(out2)
        # always re-check the property file(s) themselves, capturing Print Assumptions
        # (props_extra: further statement files of the same property, e.g. Props/C18Typed.v)
        pok, out3, thms = True, "", []
        for pf in [prop] + cfg.get("props_extra", []):
            pfile = os.path.join(COQ, "theories", "Props", pf + ".v")
            vo = pfile[:-2] + ".vo"
            if os.path.exists(vo):
                os.remove(vo)
            ok1, o1 = coq_build(["theories/Props/%s.vo" % pf])
            pok = pok and ok1
            out3 += o1 + "\n"
            txt = open(pfile).read() if os.path.exists(pfile) else ""
            stripped = re.sub(r"\(\*.*?\*\)", " ", txt, flags=re.S)
            thms += re.findall(r"^\s*(?:Theorem|Lemma|Corollary|Example|Fact)\s+(\w+)", stripped, flags=re.M)
        L("== coq Props", pok)
        L(out3)
        proof["obligations"] = len(thms)
        proof["theorems"] = thms
        if pok and pdeps_ok and not bad:
            proof["discharged"] = len(thms)
            closed = len(re.findall(r"Closed under the global context", out3))
            axioms = re.findall(r"Axioms:\s*\n((?:.+\n)+?)(?=\S|\Z)", out3)
            proof["assumptions"] = ["%d theorems: Closed under the global context" % closed] + \
                                   [a.strip()[:400] for a in axioms]
        else:
            allout = out + "\n" + out2 + "\n" + out3
            proof["broken"].append(first_error(allout))

    # ---- 4: driver
    result = {}
    drv_ok = False
    died_on = None
    if harness_ok:
        cmd = [os.path.join(BIN, "drive"), prop, "--tier", tier, "--seed", str(seed), "--out", work]
        if replay:
            cmd += ["--replay", os.path.abspath(replay)]
        tmo = cfg.get("timeout_thorough", 3600) if tier == "thorough" else cfg.get("timeout_quick", 600)
        rc, out = run(cmd, cwd=work, timeout=tmo, extra_env={"VERIF_DIR": VERIF, "VERIF_REPO": REPO})
        L("== driver rc", rc)
        L(out[-20000:])
        rp = os.path.join(work, "result.json")
        if rc == 0 and os.path.exists(rp):
            result = json.load(open(rp))
            drv_ok = True
        else:
            # a panic / fatal error in a goroutine of the library kills the driver process: keep the
            # runtime's message and the first frames (the trace can be thousands of lines long)
            crash = ""
            for mark in ("\npanic: ", "\nfatal error: ", "panic: ", "fatal error: "):
                i = out.find(mark)
                if i >= 0:
                    crash = out[i:i + 3000].strip()
                    break
            if crash:
                infra_errors.append("driver process died (rc=%s): %s" % (rc, crash))
            else:
                infra_errors.append("driver failed rc=%s: %s" % (rc, out[-1500:]))
            # the case the implementation was running when the process died (h.Ctx.Current)
            cur = os.path.join(work, "current_case.json")
            if crash and os.path.exists(cur):
                try:
                    died_on = json.load(open(cur))
                except Exception:
                    died_on = None

    # ---- 5: model evaluation on the same cases
    corr = {"cases": 0, "mismatches": {}, "ran": False}
    cases_files = result.get("cases_files", [])
    if drv_ok and cases_files:
        if not models_ok:
            corr["error"] = "model does not build: " + first_error(out)
        else:
            allmm = {}
            okall = True
            for cf in cases_files:
                rc, cout = coqc_file(os.path.join(work, cf), timeout=cfg.get("timeout_cases", 1500))
                L("== coqc", cf, rc)
                L(cout[-6000:])
                if rc != 0:
                    okall = False
                    corr["error"] = "cases file %s does not evaluate: %s" % (cf, first_error(cout))
                    break
                mm = parse_mismatches(cout)
                if not mm:
                    okall = False
                    corr["error"] = "cases file %s printed no result" % cf
                    break
                for k, v in mm.items():
                    allmm.setdefault(cf + ":" + k, []).extend(v)
            corr["ran"] = okall
            corr["mismatches"] = {k: v for k, v in allmm.items() if v}
            corr["tables"] = sorted(allmm.keys())
    corr["cases"] = result.get("model_cases", 0)

    # ---- 6: verdict
    nrep = 0

    def new_replay(obj):
        nonlocal nrep
        nrep += 1
        p = os.path.join(work, "replay_%d.json" % nrep)
        obj = dict(obj)
        obj["property"] = prop
        obj["seed"] = seed
        obj["tier"] = tier
        obj["replay_cmd"] = "./check %s --replay %s" % (prop, p)
        write_json(p, obj)
        return p

    failures = list(result.get("failures", []))
    # ---- escalated search: a proof obligation or the correspondence broke but the quick
    # generators exhibited no failing input: run the driver's deepest generators on the
    # implementation alone to look for one (DESIGN.md section 3)
    pre_broken = bool(proof["broken"] or proof["discharged"] != proof["obligations"] or proof["obligations"] == 0
                      or corr.get("error") or corr.get("mismatches"))
    escalated = None
    if pre_broken and harness_ok and drv_ok and tier == "quick" and not replay and \
            not [f for f in failures if not known_match(prop, f.get("sig"), known)]:
        work2 = os.path.join(work, "search")
        os.makedirs(work2, exist_ok=True)
        cmd = [os.path.join(BIN, "drive"), prop, "--tier", "thorough", "--seed", str(seed), "--out", work2]
        rc, out = run(cmd, cwd=work2, timeout=cfg.get("timeout_search", 900), extra_env={"VERIF_DIR": VERIF, "VERIF_REPO": REPO})
        L("== escalated search rc", rc)
        L(out[-4000:])
        rp2 = os.path.join(work2, "result.json")
        escalated = {"ran": True, "rc": rc, "found": 0}
        if rc == 0 and os.path.exists(rp2):
            r2 = json.load(open(rp2))
            extra = [f for f in r2.get("failures", []) if not known_match(prop, f.get("sig"), known)]
            escalated["found"] = len(extra)
            escalated["evaluations"] = r2.get("evaluations", 0)
            failures += extra
        for fn in os.listdir(work2):
            if fn.startswith("cases_"):
                os.remove(os.path.join(work2, fn))
    seen_known = set()
    unknown_failures = []
    for f in failures:
        k = known_match(prop, f.get("sig"), known)
        if k:
            if k["sig"] not in seen_known:
                seen_known.add(k["sig"])
                known_lines.append("KNOWN-FINDING: property=%s %s" % (prop, k.get("what", f.get("desc", ""))))
        else:
            unknown_failures.append(f)
    # one replay per distinct signature (first = smallest case as ordered by the driver)
    by_sig = {}
    for f in unknown_failures:
        by_sig.setdefault(f.get("sig", "?"), f)
    for sig, f in by_sig.items():
        violations.append((new_replay({"kind": "failing-input", "sig": sig, "what": f.get("desc"),
                                       "case": f.get("case")}), ""))

    if died_on is not None:
        died = [e for e in infra_errors if e.startswith("driver process died")]
        rp = {"kind": "failing-input", "sig": "%s/process-died" % prop,
              "what": "the process running the implementation died (an unrecovered panic or a fatal runtime error in a goroutine) "
                      "while executing this case: " + (died[0][:700] if died else ""),
              "case": died_on.get("case")}
        if died_on.get("previous"):
            rp["previous"] = died_on["previous"]
        violations.append((new_replay(rp), ""))

    broken = []
    if proof["broken"] or proof["discharged"] != proof["obligations"] or proof["obligations"] == 0:
        broken.append({"kind": "proof", "theorem_file": "coq/theories/Props/%s.v" % prop,
                       "detail": proof["broken"] or ["no theorem discharged"]})
    if corr.get("error"):
        broken.append({"kind": "correspondence", "detail": corr["error"]})
    if corr.get("mismatches"):
        detail = {}
        for k, idxs in corr["mismatches"].items():
            detail[k] = idxs[:20]
        cm = result.get("case_index", {})
        first = []
        for k, idxs in corr["mismatches"].items():
            for i in idxs[:3]:
                first.append({"table": k, "index": i, "case": cm.get(k.split(":")[-1], {}).get(str(i))})
        broken.append({"kind": "correspondence", "detail": "model and implementation disagree",
                       "mismatching_cases": detail, "first": first})
    if infra_errors:
        broken.append({"kind": "infrastructure", "detail": infra_errors})
    if broken and not violations:
        what = ("a proof obligation or the model/implementation correspondence no longer checks; "
                "the search found no concrete failing input")
        died = [e for e in infra_errors if e.startswith("driver process died")]
        if died:
            what = ("the driver process was killed while running the implementation (an unrecovered panic or a fatal "
                    "runtime error in a goroutine): the correspondence could not be evaluated and no single failing "
                    "input was isolated; " + died[0][:600])
        violations.append((new_replay({"kind": "no-failing-input-found", "broken": broken, "what": what}),
                           " no-failing-input-found"))
    elif broken:
        # attach the broken obligations to the first replay for information
        pass

    wall = time.time() - t0
    tb = list(cfg.get("trusted_base", []))
    tb += ["Coq 8.16.1 kernel + vm_compute (no native_compute)",
           "Print Assumptions: " + "; ".join(proof["assumptions"] or ["(not available: proof did not build)"])]
    cov = {
        "obligations": max(proof["obligations"], 1),
        "discharged": proof["discharged"] if proof["obligations"] else 0,
        "checker_cmd": "make -f Makefile.coq theories/Props/%s.vo (coqc 8.16.1, full .vo build) + coqc cases_*.v" % prop,
        "trusted_base": tb,
        "theorems": proof.get("theorems", []),
        "evaluations": int(result.get("evaluations", 0)),
        "distinct_nontrivial": int(result.get("distinct_nontrivial", 0)),
        "rule": result.get("rule", ""),
        "samples": result.get("samples", [])[:8] or ["(driver did not run)"],
        "model_cases_evaluated_in_coq": corr["cases"] if corr.get("ran") else 0,
        "correspondence_tables": corr.get("tables", []),
        "correspondence_mismatches": sum(len(v) for v in corr.get("mismatches", {}).values()),
        "oracle_failures": len(failures),
        "known_findings_hit": sorted(seen_known),
        "distribution": result.get("distribution", {}),
        "exhaustive": bool(result.get("exhaustive", False)),
    }
    for k, v in result.get("extra", {}).items():
        cov[k] = v
    if escalated:
        cov["escalated_search"] = escalated
    ev = {
        "property_id": prop,
        "tier": tier,
        "seed": seed,
        "level": "proof",
        "coverage": cov,
        "assumptions": cfg.get("assumptions", []),
        "wall_s": round(wall, 2),
        "violations": len(violations),
    }
    if not replay:
        write_json(os.path.join(VERIF, "evidence", prop + ".json"), ev)
    for l in known_lines:
        print(l)
    print("check %s tier=%s seed=%d: theorems %d/%d, driver evaluations %d (distinct non-trivial %d), "
          "model cases %d, mismatches %d, oracle failures %d, %.1fs" % (
              prop, tier, seed, proof["discharged"], proof["obligations"], cov["evaluations"],
              cov["distinct_nontrivial"], cov["model_cases_evaluated_in_coq"], cov["correspondence_mismatches"],
              len(failures), wall))
    for p, suffix in violations:
        print("VIOLATION property=%s replay=%s%s" % (prop, p, suffix))
    log.close()
    return 1 if violations else 0


def main(argv):
    import argparse
    ap = argparse.ArgumentParser()
    ap.add_argument("prop")
    ap.add_argument("--tier", default=None)
    ap.add_argument("--replay", default=None)
    a = ap.parse_args(argv)
    sys.exit(check(a.prop, a.tier, a.replay))


if __name__ == "__main__":
    main(sys.argv[1:])
