#!/usr/bin/env python3
"""Regenerates coq/theories/SchemaSemEq.v (one-step defining equations of the mutual
fixpoints of SchemaSem.v, each proved by reflexivity) from the text of SchemaSem.v."""
import re, os
V = os.path.dirname(os.path.dirname(os.path.abspath(__file__)))
src = open(os.path.join(V, 'coq/theories/SchemaSem.v')).read()

def group(start_marker, end_marker):
    a = src.index(start_marker); b = src.index(end_marker, a)
    return src[a:b]

enc = group("  Fixpoint enc_ty (fuel : nat)", "  (** ---------------------------------------------------------------------------------\n      Decoder")
dec = group("  Fixpoint dec_ty (fuel : nat)", "End Sem.")

def split_funcs(g):
    parts = re.split(r'\n(?=  (?:Fixpoint|with) \w+ \(fuel : nat\))', g)
    out = []
    for p in parts:
        m = re.search(r'(?:Fixpoint|with) (\w+) \(fuel : nat\) (.*?) \{struct fuel\} : (.*?) :=\n', p, re.S)
        name, params = m.group(1), m.group(2)
        body = p[m.end():]
        i = body.index("| Datatypes.S f =>") + len("| Datatypes.S f =>")
        j = body.rindex("end")
        out.append((name, params, body[i:j].rstrip()))
    return out

def lemma(name, params, inner):
    names = re.findall(r'\((\w+(?: \w+)*) :', params)
    args = ' '.join(' '.join(n.split()) for n in names)
    return f"  Lemma {name}_eq f {params} :\n    {name} (Datatypes.S f) {args} =\n{inner}.\n  Proof. reflexivity. Qed.\n\n"

out = '''(** Defining equations of the mutually recursive functions of SchemaSem.v, one fuel unit
    unfolded, with the recursive calls folded (each proved by [reflexivity]: they are the
    definitions).  GENERATED from SchemaSem.v by lib/gen_eq.py - do not edit. *)
From Coq Require Import ZArith List Bool String.
From KV Require Import Base Wire Cursor Schema SchemaSem.
Import ListNotations.
Open Scope Z_scope.

Section Eq.
  Variable S : schema.
  Variable OPS : op_table.
  Variable ATTRS : attr_table.
  Variable OBJS : obj_table.
  Local Notation enc_ty := (SchemaSem.enc_ty S).
  Local Notation enc_list := (SchemaSem.enc_list S).
  Local Notation enc_fields := (SchemaSem.enc_fields S).
  Local Notation enc_same_tag := (SchemaSem.enc_same_tag S).
  Local Notation enc_custom := (SchemaSem.enc_custom S).

'''
for (n, p, b) in split_funcs(enc):
    out += lemma(n, p, b)
out += '''  Context {R : Type}.
  Variable F : rawfmt R.
  Local Notation dres := (SchemaSem.dres (R := R)).
  Local Notation dec_ty := (SchemaSem.dec_ty S OPS ATTRS OBJS F).
  Local Notation dec_slice := (SchemaSem.dec_slice S OPS ATTRS OBJS F).
  Local Notation dec_fields_s := (SchemaSem.dec_fields_s S OPS ATTRS OBJS F).
  Local Notation dec_opt := (SchemaSem.dec_opt S OPS ATTRS OBJS F).
  Local Notation dec_object := (SchemaSem.dec_object S OPS ATTRS OBJS F).
  Local Notation dec_scalar := (SchemaSem.dec_scalar F).
  Local Notation dec_custom_of := (SchemaSem.dec_custom_of S OPS ATTRS F).
  Local Notation lookup_obj := (SchemaSem.lookup_obj OBJS).

'''
for (n, p, b) in split_funcs(dec):
    out += lemma(n, p, b)
out += "End Eq.\n"
open(os.path.join(V, 'coq/theories/SchemaSemEq.v'), 'w').write(out)

# ---- conformance functions of Roundtrip.v
src = open(os.path.join(V, 'coq/theories/Roundtrip.v')).read()
conf = group("  Fixpoint conf_ty (fuel : nat)", "End Conf.")
out = '''(** Defining equations of the mutual fixpoints of Roundtrip.v (each by [reflexivity]).
    GENERATED from Roundtrip.v by lib/gen_eq.py - do not edit. *)
From Coq Require Import ZArith List Bool String.
From KV Require Import Base Wire Cursor Schema SchemaSem FaithfulProofs Roundtrip.
Import ListNotations.
Open Scope Z_scope.

Section Eq.
  Variable S : schema.
  Variable OPS : op_table.
  Variable ATTRS : attr_table.
  Variable OBJS : obj_table.
  Local Notation conf_ty := (Roundtrip.conf_ty S OPS ATTRS OBJS).
  Local Notation conf_list := (Roundtrip.conf_list S OPS ATTRS OBJS).
  Local Notation conf_fields := (Roundtrip.conf_fields S OPS ATTRS OBJS).
  Local Notation conf_custom_of := (Roundtrip.conf_custom_of S OPS ATTRS OBJS).

'''
for (n, p, b) in split_funcs(conf):
    out += lemma(n, p, b)
out += "End Eq.\n"
open(os.path.join(V, 'coq/theories/RoundtripEq.v'), 'w').write(out)
