#!/bin/bash
# usage: mkseedR.sh <R> C13  -> /root/ws/seed<R>_C13/{repo,out} and prompt file with the ALREADY KNOWN list
set -e
R=$1; P=$2
D=/root/ws/seed${R}_$P
mkdir -p $D/out
git -C /repo worktree add -q -b seed${R}_$P $D/repo main
python3 - "$R" "$P" <<'PY'
import json,sys,glob,os
R,P=sys.argv[1],sys.argv[2]
rec=[json.loads(l) for l in open('/verif/properties.jsonl') if json.loads(l)['id']==P][0]
known=[]
for f in sorted(glob.glob('/verif/seeded/*/meta.json')):
    m=json.load(open(f))
    if m.get('property')==P and m.get('summary'): known.append(m['summary'])
for f in sorted(glob.glob('/root/ws/seed*_%s/out/m*.meta.json'%P)):
    try: m=json.load(open(f))
    except Exception: continue
    s=m.get('summary')
    if s and s not in known: known.append(s)
kl="\n".join("  - "+s[:330].replace("\n"," ") for s in known)
D=f"/root/ws/seed{R}_{P}"
txt=f"""You are testing how robust a verification effort is. You get ONE semantic property of the Go library ovh/kmip-go (a KMIP v1.0-1.4 client/server library with its own TTLV codec: binary, XML, JSON, text) and your own scratch git worktree of the library at {D}/repo (branch seed{R}_{P}). Work ONLY inside {D}/ (the worktree and {D}/out); do not look at or touch /repo, /verif or any other directory under /root/ws.

PROPERTY {P}: {rec['title']}
{rec['statement']}
Quantifier: {rec['quantifier']['text']}
Code anchors (where the mechanism lives): {json.dumps(rec['anchors'].get('files'))}; mechanisms: {json.dumps(rec['anchors'].get('mechanism'))}

ALREADY KNOWN changes (found by earlier testers - do NOT repeat these or close variants of them; find different code sites and different failure mechanisms, and think about parts of the property's statement and quantifier that none of these touches - other encodings, other API entry points, other object kinds, boundary values, unusual but legal configurations, sequences and concurrency):
{kl}

TASK: produce TWO different, realistic changes (the kind of regression a maintainer could plausibly introduce: a refactoring slip, an optimisation, a boundary condition, a dropped guard, two cooperating sites that each look fine alone) to the library source, each of which
  (a) BREAKS the property above,
  (b) still compiles, and the library's existing test suite still passes with it:  cd {D}/repo && GOFLAGS=-mod=mod GOPROXY=off go build ./... && GOFLAGS=-mod=mod GOPROXY=off go test -vet=off -count=1 ./...   (never set GOTOOLCHAIN or GOSUMDB; there is no network),
  (c) needs something SPECIFIC to manifest - a particular interleaving, a fault at a particular point, a multi-step sequence of operations, an unusual but legal input, a particular combination of values - NOT something ordinary use or the obvious smoke test would expose at once,
  (d) comes with a DEMONSTRATION: a Go test file (package-external `_test` package or a small main program, placed in the worktree) that FAILS with your change applied and PASSES on the unchanged code, showing the property violation through the library's public API (or clearly through the behaviour the property talks about).
Change only non-test .go files of the library (no new dependencies; do not touch files whose name starts with verif_). Keep each change small (a few lines). The two changes must be independent (different code sites / different failure mechanisms) - do them one at a time on a clean tree.

For each change k in (1, 2) write into {D}/out/:
  m<k>.patch.diff   - `git diff` of the library change alone (apply-able with `git apply` on the unchanged tree), WITHOUT the demonstration file
  m<k>_demo_test.go - the demonstration (say in a top comment where it must be placed to run, e.g. kmipclient/seed_demo_test.go, and the exact `go test -run` command)
  m<k>.meta.json    - {{"property": "{P}", "summary": "...what the change does...", "why_it_breaks": "...", "needs_to_manifest": "...the specific input/sequence/interleaving...", "demo_place": "...path...", "demo_cmd": "...", "verified": {{"build": true, "suite_passes_with_change": true, "demo_fails_with_change": true, "demo_passes_without_change": true}}}}
Verify all four facts yourself by actually running the commands (apply the patch on a clean tree, run the suite, run the demo; `git checkout -- . && git clean -fd` then run the demo alone on the clean tree). Leave the worktree clean (`git checkout -- . && git clean -fd`) when you finish. Final message: a short description of the two changes and the verification results."""
open(f'{D}/prompt.md','w').write(txt)
print(P, len(known), 'known')
PY
