// Command gvcheck is the self-check of the Go side of the struct-level codec tie
// (harness/internal/gv + the KmipSchema dumper):
//
//  1. generates gv.CoverageSuite and verifies by reflection that every schema field was
//     populated at least once, every optional field was also empty, every version-gated field
//     was populated and empty at every version of its range (and never outside), and every
//     operation / object type / key format / key value shape / credential type / attribute
//     name / generic tree kind occurred;
//  2. round-trips every message through the real codec (MarshalTTLV, UnmarshalTTLV into a
//     fresh message, MarshalTTLV again) and reports every difference, separating the known
//     defects of the library from anything else;
//  3. writes coq/gen/KmipSchema.v and a sample cases_gv.v of printed values and lets coqc
//     type-check them (and evaluate a type-directed conformance check of the values against
//     kmip_schema).
//
// Exit status 0 = coverage complete, no round-trip difference other than the known ones,
// both Coq files accepted.
package main

import (
	"bytes"
	"flag"
	"fmt"
	"os"
	"os/exec"
	"path/filepath"
	"reflect"
	"sort"
	"strings"

	kmip "github.com/ovh/kmip-go"
	"github.com/ovh/kmip-go/ttlv"

	"verifharness/internal/gv"
	"verifharness/internal/h"
)

// outcome of one round trip
type outcome struct {
	class string // "ok", "encode-panic", "decode-error", "decode-panic", "bytes-differ", "value-differs", "unprintable"
	info  string
}

func marshal(msg any) (b []byte, perr any) {
	defer func() { perr = recover() }()
	return ttlv.MarshalTTLV(msg), nil
}

func unmarshal(b []byte, ptr any) (err error, perr any) {
	defer func() { perr = recover() }()
	return ttlv.UnmarshalTTLV(b, ptr), nil
}

// roundTrip: msg is a kmip.RequestMessage or kmip.ResponseMessage value.
func roundTrip(msg any) outcome {
	mv := reflect.ValueOf(msg)
	src := reflect.New(mv.Type())
	src.Elem().Set(mv)
	if _, err := gv.CoqValue(mv); err != nil {
		return outcome{"unprintable", err.Error()}
	}
	b1, p := marshal(src.Interface())
	if p != nil {
		return outcome{"encode-panic", fmt.Sprint(p)}
	}
	dst := reflect.New(mv.Type())
	err, p := unmarshal(b1, dst.Interface())
	if p != nil {
		return outcome{"decode-panic", fmt.Sprint(p)}
	}
	if err != nil {
		return outcome{"decode-error", err.Error()}
	}
	b2, p := marshal(dst.Interface())
	if p != nil {
		return outcome{"encode-panic", "second encoding: " + fmt.Sprint(p)}
	}
	d := gv.Diff(mv, dst.Elem())
	if !bytes.Equal(b1, b2) {
		return outcome{"bytes-differ", fmt.Sprintf("%d vs %d bytes; first value difference at %s", len(b1), len(b2), d)}
	}
	if d != "" {
		return outcome{"value-differs", d}
	}
	return outcome{"ok", ""}
}

// Known defects of the library (C01 findings already recorded by the main developer). For a
// message that fails, stripKnown removes exactly the known trigger; if the stripped message
// round-trips, the failure is attributed to that known defect.
const (
	knownExt    = "C01/response-batch-item/message-extension-after-payload-dropped"
	knownImport = "C01/import-request/keywraptype-decoded-into-replaceexisting"
)

func stripKnown(msg any) (any, []string) {
	var sigs []string
	switch m := msg.(type) {
	case kmip.ResponseMessage:
		items := append([]kmip.ResponseBatchItem{}, m.BatchItem...)
		for i := range items {
			if items[i].ResponsePayload != nil && items[i].MessageExtension != nil {
				items[i].MessageExtension = nil
				sigs = append(sigs, knownExt)
			}
		}
		m.BatchItem = items
		return m, uniq(sigs)
	case kmip.RequestMessage:
		items := append([]kmip.RequestBatchItem{}, m.BatchItem...)
		for i := range items {
			if items[i].RequestPayload == nil || items[i].RequestPayload.Operation() != kmip.OperationImport {
				continue
			}
			pv := reflect.ValueOf(items[i].RequestPayload)
			if pv.Kind() != reflect.Pointer || pv.Elem().Kind() != reflect.Struct {
				continue
			}
			f := pv.Elem().FieldByName("KeyWrapType")
			if f.IsValid() && !f.IsZero() {
				cp := reflect.New(pv.Elem().Type())
				cp.Elem().Set(pv.Elem())
				cp.Elem().FieldByName("KeyWrapType").SetZero()
				items[i].RequestPayload = cp.Interface().(kmip.OperationPayload)
				sigs = append(sigs, knownImport)
			}
		}
		m.BatchItem = items
		return m, uniq(sigs)
	}
	return msg, nil
}

func uniq(l []string) []string {
	sort.Strings(l)
	out := l[:0]
	for i, s := range l {
		if i == 0 || s != l[i-1] {
			out = append(out, s)
		}
	}
	return out
}

func findVerif() string {
	if d := os.Getenv("VERIF_DIR"); d != "" {
		return d
	}
	d, _ := os.Getwd()
	for d != "/" && d != "." {
		if _, err := os.Stat(filepath.Join(d, "coq", "theories", "Schema.v")); err == nil {
			return d
		}
		d = filepath.Dir(d)
	}
	return "/verif"
}

func main() {
	seed := flag.Uint64("seed", 0, "seed (default: $VERIF_SEED or 1)")
	verif := flag.String("verif", "", "framework directory (default: $VERIF_DIR, or found from the working directory)")
	nsamples := flag.Int("samples", 24, "number of printed values in cases_gv.v")
	noCoq := flag.Bool("no-coq", false, "skip the coqc steps")
	verbose := flag.Bool("v", false, "list every case")
	text := flag.Bool("text", false, "also report (information only) how the suite fares through the XML and JSON encodings")
	flag.Parse()
	if *seed == 0 {
		*seed = 1
		if s := os.Getenv("VERIF_SEED"); s != "" {
			fmt.Sscan(s, seed)
		}
	}
	if *verif == "" {
		*verif = findVerif()
	}
	fail := false

	u, err := gv.Reach()
	if err != nil {
		fmt.Println("gvcheck: FAILED:", err)
		os.Exit(1)
	}
	nf, ng := 0, 0
	for _, t := range u.Structs {
		for _, f := range gv.Fields(t) {
			nf++
			if f.Plan.HasRange {
				ng++
			}
		}
	}
	fmt.Printf("gvcheck: seed %d; universe: %d struct types, %d fields (%d version-gated), %d operations, %d payload types, %d attribute names, %d object types\n",
		*seed, len(u.Structs), nf, ng, len(u.Ops), len(u.Payloads), len(u.Attrs), len(u.Objs))

	// ---- 1. coverage
	r := h.NewRand(*seed)
	plan := gv.CoveragePlan()
	suite := gv.CoverageSuite(r)
	cov := gv.NewCoverage()
	for _, m := range suite {
		cov.Add(m)
	}
	// replayability: a case regenerated from (seed, index) alone is the same value
	for _, i := range []int{0, len(suite) / 3, len(suite) - 1} {
		again := gv.CoverageCase(h.NewRand(*seed), i)
		if eq, err := gv.Equal(suite[i], again); err != nil || !eq {
			fmt.Printf("REPLAY MISMATCH: case %d regenerated from (seed, index) differs (%v)\n", i, err)
			fail = true
		}
	}
	miss := cov.Missing()
	fmt.Printf("coverage: %d messages, %d alternatives seen, %d coverage gaps\n", len(suite), len(cov.Alt), len(miss))
	for _, m := range miss {
		fmt.Println("  MISSING", m)
	}
	if len(miss) > 0 {
		fail = true
	}

	// ---- 2. round trips on the real codec
	type finding struct {
		idx  int
		desc string
		out  outcome
	}
	known := map[string][]finding{}
	var genuine []finding
	classes := map[string]int{}
	totalBytes := 0
	for i, m := range suite {
		if b, p := marshal(ptrTo(m)); p == nil {
			totalBytes += len(b)
		}
		out := roundTrip(m)
		classes[out.class]++
		if *verbose {
			fmt.Printf("  case %d [%s] %s: %s %s\n", i, plan[i].Note, gv.Describe(m), out.class, out.info)
		}
		if out.class == "ok" {
			continue
		}
		f := finding{i, gv.Describe(m), out}
		stripped, sigs := stripKnown(m)
		if len(sigs) > 0 {
			if o2 := roundTrip(stripped); o2.class == "ok" {
				for _, s := range sigs {
					known[s] = append(known[s], f)
				}
				continue
			} else {
				f.out.info += " (still " + o2.class + " after removing the known triggers: " + o2.info + ")"
			}
		}
		genuine = append(genuine, f)
	}
	var cl []string
	for k, n := range classes {
		cl = append(cl, fmt.Sprintf("%s=%d", k, n))
	}
	sort.Strings(cl)
	fmt.Printf("round trip (MarshalTTLV / UnmarshalTTLV / MarshalTTLV) on %d messages, %d bytes: %s\n", len(suite), totalBytes, strings.Join(cl, " "))
	var ks []string
	for s := range known {
		ks = append(ks, s)
	}
	sort.Strings(ks)
	for _, s := range ks {
		l := known[s]
		fmt.Printf("KNOWN-FINDING sig=%s cases=%d\n", s, len(l))
		for _, f := range l[:min(2, len(l))] {
			fmt.Printf("    e.g. case %d (seed %d): %s: %s: %s\n", f.idx, *seed, f.desc, f.out.class, f.out.info)
		}
	}
	for _, s := range []string{knownExt, knownImport} {
		if len(known[s]) == 0 {
			fmt.Printf("NOTE: known finding %s did not show on this tree (fixed, or no longer generated)\n", s)
		}
	}
	if len(genuine) > 0 {
		fail = true
		fmt.Printf("ROUND-TRIP DIFFERENCES not explained by a known finding: %d\n", len(genuine))
		bySig := map[string][]finding{}
		for _, f := range genuine {
			k := f.out.class + ": " + firstWords(f.out.info)
			bySig[k] = append(bySig[k], f)
		}
		var sk []string
		for k := range bySig {
			sk = append(sk, k)
		}
		sort.Strings(sk)
		for _, k := range sk {
			l := bySig[k]
			fmt.Printf("  [%d cases] %s\n", len(l), k)
			for _, f := range l[:min(3, len(l))] {
				fmt.Printf("      case %d (seed %d) %s: %s\n", f.idx, *seed, f.desc, f.out.info)
			}
		}
	}

	if *text {
		textFormats("the suite", suite)
		var safe []any
		for i, c := range plan {
			c.Opts.TextSafe = true
			safe = append(safe, c.Gen(h.NewRand(*seed).Fork(uint64(i)+1)))
		}
		textFormats("the suite generated with Opts.TextSafe", safe)
	}

	// ---- 3. the generated Coq files
	genDir := filepath.Join(*verif, "coq", "gen")
	workDir := filepath.Join(*verif, ".work", "gvcheck")
	must(os.MkdirAll(genDir, 0o755))
	must(os.MkdirAll(workDir, 0o755))
	src, err := gv.SchemaSource()
	must(err)
	schemaFile := filepath.Join(genDir, "KmipSchema.v")
	if old, err := os.ReadFile(schemaFile); err != nil || !bytes.Equal(old, []byte(src)) {
		must(os.WriteFile(schemaFile, []byte(src), 0o644))
	}
	casesFile := filepath.Join(workDir, "cases_gv.v")
	cases, n := casesSource(suite, plan, *nsamples)
	must(os.WriteFile(casesFile, []byte(cases), 0o644))
	fmt.Printf("wrote %s (%d bytes) and %s (%d values, %d bytes)\n", schemaFile, len(src), casesFile, n, len(cases))
	if !*noCoq {
		coq := filepath.Join(*verif, "coq")
		if out, err := coqc(coq, schemaFile); err != nil {
			fmt.Printf("COQ REJECTS KmipSchema.v: %v\n%s\n", err, tail(out))
			fail = true
		} else if out, err := coqc(coq, casesFile); err != nil {
			fmt.Printf("COQ REJECTS cases_gv.v: %v\n%s\n", err, tail(out))
			fail = true
		} else {
			ok := strings.Contains(out, "gv_nonconforming = []")
			fmt.Printf("coqc: KmipSchema.v and cases_gv.v type-check; conformance of the %d printed values to kmip_schema: %v\n", n, ok)
			if !ok {
				fmt.Println(tail(out))
				fail = true
			}
		}
	}
	if fail {
		fmt.Println("gvcheck: FAILED")
		os.Exit(1)
	}
	fmt.Println("gvcheck: OK")
}

// textFormats is information for the text-format properties (C04 / C18): the same suite,
// with the triggers of the known binary findings removed, through XML and JSON. It does not
// influence the exit status.
func textFormats(what string, suite []any) {
	type codec struct {
		name string
		enc  func(any) []byte
		dec  func([]byte, any) error
	}
	for _, c := range []codec{{"XML", ttlv.MarshalXML, ttlv.UnmarshalXML}, {"JSON", ttlv.MarshalJSON, ttlv.UnmarshalJSON}} {
		classes := map[string]int{}
		example := map[string]string{}
		for i, m := range suite {
			m, _ = stripKnown(m)
			cl := func() (cl string) {
				defer func() {
					if r := recover(); r != nil {
						cl = "panic: " + firstWords(fmt.Sprint(r))
					}
				}()
				mv := reflect.ValueOf(m)
				b1 := c.enc(ptrTo(m))
				dst := reflect.New(mv.Type())
				if err := c.dec(b1, dst.Interface()); err != nil {
					return "decode-error: " + errClass(err.Error())
				}
				if d := gv.Diff(mv, dst.Elem()); d != "" {
					return "value-differs: " + lastField(d)
				}
				if !bytes.Equal(b1, c.enc(dst.Interface())) {
					return "text-differs"
				}
				return "ok"
			}()
			classes[cl]++
			if _, ok := example[cl]; !ok {
				example[cl] = fmt.Sprintf("case %d %s", i, gv.Describe(m))
			}
		}
		var ks []string
		for k := range classes {
			ks = append(ks, k)
		}
		sort.Slice(ks, func(i, j int) bool { return classes[ks[i]] > classes[ks[j]] })
		fmt.Printf("INFO %s round trip of %s (not part of the verdict):\n", c.name, what)
		for _, k := range ks {
			fmt.Printf("    %4d  %s   (e.g. %s)\n", classes[k], k, example[k])
		}
	}
}

func errClass(s string) string {
	// drop the variable parts of an error text
	for _, sep := range []string{": \"", " \"", " 0x", " '"} {
		if i := strings.Index(s, sep); i > 0 {
			s = s[:i]
		}
	}
	if len(s) > 70 {
		s = s[:70]
	}
	return s
}

func lastField(d string) string {
	if i := strings.Index(d, ":"); i > 0 {
		d = d[:i]
	}
	if i := strings.LastIndex(d, "."); i >= 0 {
		d = d[i:]
	}
	return d
}

func ptrTo(m any) any {
	v := reflect.ValueOf(m)
	p := reflect.New(v.Type())
	p.Elem().Set(v)
	return p.Interface()
}

func firstWords(s string) string {
	if i := strings.IndexAny(s, ";("); i > 0 {
		s = s[:i]
	}
	if len(s) > 90 {
		s = s[:90]
	}
	return s
}

func must(err error) {
	if err != nil {
		fmt.Fprintln(os.Stderr, "gvcheck:", err)
		os.Exit(2)
	}
}

func tail(s string) string {
	if len(s) > 3000 {
		return "..." + s[len(s)-3000:]
	}
	return s
}

func coqc(coqDir, file string) (string, error) {
	cmd := exec.Command("sh", "-c", `ulimit -s unlimited 2>/dev/null; exec timeout 600 coqc -Q theories KV -Q gen KVGen "$0"`, file)
	cmd.Dir = coqDir
	out, err := cmd.CombinedOutput()
	return string(out), err
}

// casesSource prints n sample values spread over the plan (at least one per plan section,
// small ones preferred) and a conformance check evaluated by coqc.
func casesSource(suite []any, plan []gv.Case, n int) (string, int) {
	// pick: the first case of every section note, then evenly spaced ones
	picked := map[int]bool{}
	var idx []int
	seenNote := map[string]bool{}
	for i, c := range plan {
		if !seenNote[c.Note] {
			seenNote[c.Note] = true
			picked[i] = true
			idx = append(idx, i)
		}
	}
	if n >= len(suite) {
		idx = idx[:0]
		for i := range suite {
			idx = append(idx, i)
		}
	}
	for k := 0; len(idx) < n && k < len(suite); k++ {
		i := (k*len(suite))/n + k%7
		if i < len(suite) && !picked[i] {
			picked[i] = true
			idx = append(idx, i)
		}
	}
	sort.Ints(idx)
	var sb strings.Builder
	sb.WriteString("(* GENERATED by harness/cmd/gvcheck: sample values printed by gv.CoqValue. *)\n")
	sb.WriteString("From Coq Require Import ZArith List Bool String.\nFrom KV Require Import Base Wire Schema Cases.\nFrom KVGen Require Import KmipSchema.\nImport ListNotations.\nOpen Scope Z_scope.\nOpen Scope string_scope.\n\n")
	sb.WriteString(conformSource)
	var names []string
	for _, i := range idx {
		m := suite[i]
		s, err := gv.CoqValueOf(m)
		if err != nil {
			continue
		}
		root := "kmip.RequestMessage"
		if plan[i].Response {
			root = "kmip.ResponseMessage"
		}
		name := fmt.Sprintf("gv_case_%d", i)
		fmt.Fprintf(&sb, "(* case %d [%s]: %s *)\nDefinition %s : value :=\n  %s.\n\n", i, plan[i].Note, commentSafe(gv.Describe(m)), name, s)
		names = append(names, fmt.Sprintf("(%d, TNamed %q, %s)", i, root, name))
	}
	fmt.Fprintf(&sb, "Definition gv_samples : list (Z * ty * value) :=\n  [%s].\n\n", strings.Join(names, ";\n   "))
	sb.WriteString("Check (map snd gv_samples : list value).\nCheck (kmip_schema : schema).\nCheck (kmip_ops : op_table).\nCheck (kmip_attrs : attr_table).\nCheck (kmip_objs : obj_table).\nCheck (kmip_payload_ops : list (string * Z)).\nCheck (kmip_obj_types : list (string * Z)).\n")
	sb.WriteString("Definition gv_nonconforming : list Z := Eval vm_compute in\n  map (fun x => fst (fst x)) (filter (fun x => negb (conforms kmip_schema 100 (snd (fst x)) (snd x))) gv_samples).\nPrint gv_nonconforming.\n")
	return sb.String(), len(names)
}

func commentSafe(s string) string {
	s = strings.ReplaceAll(s, "(*", "( *")
	s = strings.ReplaceAll(s, "*)", "* )")
	return strings.ReplaceAll(s, "\"", "'")
}

// A type-directed shape check of printed values against the schema, evaluated by coqc: it
// pins the conventions of gv.CoqValue (field order and arity of VStruct, scalar constructors,
// VIface dynamic types among the known alternatives, the UnknownPayload exception).
const conformSource = `Definition kind_ok (k : kind) (v : value) : bool :=
  match k, v with
  | KBool, VBool _ => true
  | (KString | KBytes), VStr _ => true
  | (KInt8 | KInt16 | KInt32 | KInt64 | KUint8 | KUint16 | KUint32 | KUint64 | KTime | KDuration | KBigInt | KEnum _ | KMask _), VInt _ => true
  | _, _ => false
  end.

Definition is_tree (v : value) : bool := match v with VTree _ => true | _ => false end.

Fixpoint ty_eqb (a b : ty) : bool :=
  match a, b with
  | TScalar (KEnum x), TScalar (KEnum y) | TScalar (KMask x), TScalar (KMask y) => Z.eqb x y
  | TScalar KInt8, TScalar KInt8 | TScalar KInt16, TScalar KInt16 | TScalar KInt32, TScalar KInt32
  | TScalar KInt64, TScalar KInt64 | TScalar KUint8, TScalar KUint8 | TScalar KUint16, TScalar KUint16
  | TScalar KUint32, TScalar KUint32 | TScalar KUint64, TScalar KUint64 | TScalar KBool, TScalar KBool
  | TScalar KString, TScalar KString | TScalar KBytes, TScalar KBytes | TScalar KTime, TScalar KTime
  | TScalar KDuration, TScalar KDuration | TScalar KBigInt, TScalar KBigInt => true
  | TPtr x, TPtr y | TSlice x, TSlice y => ty_eqb x y
  | TNamed x, TNamed y | TIface x, TIface y => String.eqb x y
  | _, _ => false
  end.

(* the dynamic types an interface value may have *)
Definition iface_alt (iface : string) (dyn : ty) : bool :=
  if String.eqb iface "kmip.OperationPayload" then
    match dyn with
    | TPtr (TNamed n) => String.eqb n "kmip.UnknownPayload" ||
        existsb (fun e => String.eqb n (fst (snd e)) || String.eqb n (snd (snd e))) kmip_ops
    | _ => false
    end
  else if String.eqb iface "kmip.Object" then
    match dyn with
    | TPtr (TNamed n) => existsb (fun e => String.eqb n (snd e)) kmip_objs
    | _ => false
    end
  else (* any: an attribute value *)
    ty_eqb dyn (TNamed "ttlv.Value") || existsb (fun e => ty_eqb dyn (snd e)) kmip_attrs.

Fixpoint conforms (S : schema) (fuel : nat) (t : ty) (v : value) : bool :=
  match fuel with
  | O => false
  | S f =>
    match t with
    | TScalar k => kind_ok k v
    | TPtr t' => match v with VNil => true | VPtr w => conforms S f t' w | _ => false end
    | TSlice t' => match v with VList l => forallb (conforms S f t') l | _ => false end
    | TIface n => match v with
                  | VNil => true
                  | VIface dyn w => iface_alt n dyn && conforms S f dyn w
                  | _ => false
                  end
    | TNamed n =>
      if String.eqb n "ttlv.Value" then is_tree v
      else if String.eqb n "ttlv.Struct" then match v with VList l => forallb is_tree l | _ => false end
      else match v, find_tdef S n with
           | VStruct n' fs, Some d =>
             String.eqb n n' &&
             (if String.eqb n "kmip.UnknownPayload" then
                match fs with
                | [VInt _; VList l] => forallb is_tree l
                | _ => false
                end
              else
                (fix go (fl : list field) (vl : list value) : bool :=
                   match fl, vl with
                   | [], [] => true
                   | fd :: fl', x :: vl' => conforms S f (f_ty fd) x && go fl' vl'
                   | _, _ => false
                   end) (t_fields d) fs)
           | _, _ => false
           end
    end
  end.

`
