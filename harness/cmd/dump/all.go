package main

func dumpAll(out string) error {
	return nil
}
