package main

import "sort"

// Each generated file has its own Go source file in this package which registers
// a dumper in init(); dumpAll runs them in name order.
var dumpers = map[string]func(out string) error{}

func registerDump(name string, f func(out string) error) { dumpers[name] = f }

func dumpAll(out string) error {
	var names []string
	for n := range dumpers {
		names = append(names, n)
	}
	sort.Strings(names)
	for _, n := range names {
		if err := dumpers[n](out); err != nil {
			return err
		}
	}
	return nil
}
