package main

// Translator for gen/KmipSchema.v (kmip_schema, kmip_ops, kmip_attrs, kmip_objs,
// kmip_payload_ops, kmip_obj_types).  The text is produced by gv.SchemaSource from the
// library's own reflection data; a type kind that cannot be expressed makes the dump fail.

import (
	"os"
	"path/filepath"

	"verifharness/internal/gv"
)

func init() { registerDump("KmipSchema", dumpKmipSchema) }

func dumpKmipSchema(out string) error {
	src, err := gv.SchemaSource()
	if err != nil {
		return err
	}
	return os.WriteFile(filepath.Join(out, "KmipSchema.v"), []byte(src), 0o644)
}
