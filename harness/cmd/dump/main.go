// Command dump is the translator: it asks the library (through reflection and the
// verif-tagged export files) what it will do, and prints that as Gallina data.
package main

import (
	"flag"
	"fmt"
	"os"
)

func main() {
	out := flag.String("out", ".", "output directory for generated .v files")
	flag.Parse()
	if err := os.MkdirAll(*out, 0o755); err != nil {
		fmt.Fprintln(os.Stderr, err)
		os.Exit(1)
	}
	if err := dumpAll(*out); err != nil {
		fmt.Fprintln(os.Stderr, "dump:", err)
		os.Exit(1)
	}
}
