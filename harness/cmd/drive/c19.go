package main

// C19 — middleware chains run in order and are re-entrant.
//
// A generated chain is a list of stage programs (c19Stage, the syntax of
// coq/theories/ChainSyn.v).  Each stage is installed as a REAL middleware
// (kmipclient.Middleware, kmipserver.Middleware, kmipserver.BatchItemMiddleware) that
// interprets its program and logs what it sees: (position, context, message) on entry,
// what every call of next returned, what it returns.  The innermost handler is scripted
// (client: a KMIP server on a net.Pipe; server: a route handler) and logs too.
//
//   oracle  : the property statement evaluated in Go (c19World "spec": the continuation of
//             position i is "the rest of the chain from i+1, every time") versus the trace
//             and result observed on the implementation;
//   model   : the same cases, with the observed outcome, are written to cases_C19.v and
//             compared with the Gallina model (run_impl_*) inside coqc.

import (
	"context"
	"encoding/binary"
	"encoding/json"
	"errors"
	"fmt"
	"net"
	"os"
	"runtime"
	"strconv"
	"strings"
	"sync"
	"sync/atomic"
	"time"

	"github.com/ovh/kmip-go"
	"github.com/ovh/kmip-go/kmipclient"
	"github.com/ovh/kmip-go/kmipserver"
	"github.com/ovh/kmip-go/payloads"
	"github.com/ovh/kmip-go/ttlv"

	"verifharness/internal/h"
)

func init() { h.Register("C19", driveC19) }

// ------------------------------------------------------------------ syntax of a case

type c19Call struct {
	M int64 // -1: pass on the message received; else a new message with this id
	C int64 // -1: pass on the context received; -2: context.Background(); else a child context with this tag
}

// in JSON a call is the pair [m, c]
func (c c19Call) MarshalJSON() ([]byte, error) { return json.Marshal([2]int64{c.M, c.C}) }
func (c *c19Call) UnmarshalJSON(b []byte) error {
	var a [2]int64
	if err := json.Unmarshal(b, &a); err != nil {
		return err
	}
	c.M, c.C = a[0], a[1]
	return nil
}

type c19Stage struct {
	Once    bool      `json:"once,omitempty"`
	UntilOK bool      `json:"until_ok,omitempty"`
	Calls   []c19Call `json:"calls"`
	Ret     string    `json:"ret"`  // last | first | mk | panic
	Resp    int64     `json:"resp"` // mk: id of the fresh response, -1 = nil
	Err     int64     `json:"err"`  // mk: error code, -1 = nil
	Own     int64     `json:"own"`  // id of the response returned when there is nothing to forward
}

type c19Case struct {
	Kind   string     `json:"kind"`   // client | server | item | nested (server message chain around the batch-item chain)
	Chain  []c19Stage `json:"chain"`
	IChain []c19Stage `json:"item_chain,omitempty"` // nested: the batch-item middlewares (logged as positions 100, 101, ...)
	Script []int64    `json:"script"` // answer number -> -1 ok / error code (server and item handlers)
	Tags   []int64    `json:"tags"`
	Msgs   []int64    `json:"msgs"` // the request id (client, server) or the ids of the batch items (item)
	Conc   int        `json:"conc"` // >1: this many copies of the request run concurrently over the shared chain
	Origin string     `json:"origin,omitempty"`
}

// ------------------------------------------------------------------ observables

type c19Resp struct{ ID, St int64 }
type c19Res struct {
	Resp *c19Resp
	Err  *int64
}
type c19Ctx struct {
	Tags []int64
	Hdr  *int64
}
type c19Ev struct {
	K   byte // E enter, B back, R return, P panic, C core
	I   int
	Ctx c19Ctx
	M   int64
	R   c19Res
}

func c19i(v int64) *int64 { return &v }

func (r c19Res) String() string {
	a, b := "nil", "nil"
	if r.Resp != nil {
		a = fmt.Sprintf("resp(%d,%d)", r.Resp.ID, r.Resp.St)
	}
	if r.Err != nil {
		b = fmt.Sprintf("err(%d)", *r.Err)
	}
	return "(" + a + "," + b + ")"
}
func (c c19Ctx) String() string {
	s := fmt.Sprint(c.Tags)
	if c.Hdr != nil {
		s += fmt.Sprintf("hdr=%d", *c.Hdr)
	}
	return s
}
func (e c19Ev) String() string {
	switch e.K {
	case 'E':
		return fmt.Sprintf("enter %d ctx=%s msg=%d", e.I, e.Ctx, e.M)
	case 'B':
		return fmt.Sprintf("back %d %s", e.I, e.R)
	case 'R':
		return fmt.Sprintf("ret %d %s", e.I, e.R)
	case 'P':
		return fmt.Sprintf("panic %d", e.I)
	}
	return fmt.Sprintf("core ctx=%s msg=%d", e.Ctx, e.M)
}

func c19ResEq(a, b c19Res) bool {
	if (a.Resp == nil) != (b.Resp == nil) || (a.Err == nil) != (b.Err == nil) {
		return false
	}
	if a.Resp != nil && *a.Resp != *b.Resp {
		return false
	}
	return a.Err == nil || *a.Err == *b.Err
}
func c19CtxEq(a, b c19Ctx) bool {
	if len(a.Tags) != len(b.Tags) || (a.Hdr == nil) != (b.Hdr == nil) {
		return false
	}
	for i := range a.Tags {
		if a.Tags[i] != b.Tags[i] {
			return false
		}
	}
	return a.Hdr == nil || *a.Hdr == *b.Hdr
}
func c19EvEq(a, b c19Ev) bool {
	return a.K == b.K && a.I == b.I && a.M == b.M && c19CtxEq(a.Ctx, b.Ctx) && c19ResEq(a.R, b.R)
}

// Coq printers
func c19oz(p *int64) string {
	if p == nil {
		return "None"
	}
	return "(Some " + h.Z(*p) + ")"
}
func (r c19Res) coq() string {
	a := "None"
	if r.Resp != nil {
		a = fmt.Sprintf("(Some (%s,%s))", h.Z(r.Resp.ID), h.Z(r.Resp.St))
	}
	return "(" + a + "," + c19oz(r.Err) + ")"
}
func (e c19Ev) coq() string {
	switch e.K {
	case 'E':
		return fmt.Sprintf("en %d %s %s %s", e.I, h.ZList(e.Ctx.Tags), c19oz(e.Ctx.Hdr), h.Z(e.M))
	case 'B':
		return fmt.Sprintf("bk %d %s", e.I, e.R.coq())
	case 'R':
		return fmt.Sprintf("rt %d %s", e.I, e.R.coq())
	case 'P':
		return fmt.Sprintf("pn %d", e.I)
	}
	return fmt.Sprintf("co %s %s %s", h.ZList(e.Ctx.Tags), c19oz(e.Ctx.Hdr), h.Z(e.M))
}
// c19Digest = trace_digest of ChainSyn.v: length and two polynomial hashes of the flat encoding.
func c19Enc(e c19Ev) []int64 {
	oz := func(p *int64) []int64 {
		if p == nil {
			return []int64{0, 0}
		}
		return []int64{1, *p}
	}
	ctx := func(c c19Ctx) []int64 {
		l := append(oz(c.Hdr), int64(len(c.Tags)))
		return append(l, c.Tags...)
	}
	res := func(r c19Res) []int64 {
		l := []int64{0, 0, 0}
		if r.Resp != nil {
			l = []int64{1, r.Resp.ID, r.Resp.St}
		}
		return append(l, oz(r.Err)...)
	}
	switch e.K {
	case 'E':
		return append([]int64{1, int64(e.I), e.M}, ctx(e.Ctx)...)
	case 'B':
		return append([]int64{2, int64(e.I)}, res(e.R)...)
	case 'R':
		return append([]int64{3, int64(e.I)}, res(e.R)...)
	case 'P':
		return []int64{4, int64(e.I)}
	}
	return append([]int64{5, e.M}, ctx(e.Ctx)...)
}

func c19Digest(t []c19Ev) string {
	const mask = uint64(1)<<63 - 1
	h1, h2 := uint64(1), uint64(1)
	for _, e := range t {
		for _, x := range c19Enc(e) {
			h1 = (h1*1000003 + uint64(x) + 7) & mask
			h2 = (h2*998244353 + uint64(x) + 7) & mask
		}
	}
	return fmt.Sprintf("(%d, %d%%uint63, %d%%uint63)", len(t), h1, h2)
}

func c19TraceCoq(t []c19Ev) string {
	s := make([]string, len(t))
	for i, e := range t {
		s[i] = e.coq()
	}
	return h.List(s)
}
func (s c19Stage) coq() string {
	calls := make([]string, len(s.Calls))
	for i, c := range s.Calls {
		m := "MKeep"
		if c.M >= 0 {
			m = "MSet " + h.Z(c.M)
		}
		x := "CKeep"
		if c.C == -2 {
			x = "CFresh"
		} else if c.C >= 0 {
			x = "CTag " + h.Z(c.C)
		}
		calls[i] = "(" + m + "," + x + ")"
	}
	var ret string
	switch s.Ret {
	case "last":
		ret = "RLast"
	case "first":
		ret = "RFirst"
	case "panic":
		ret = "RPanic"
	default:
		a, b := "None", "None"
		if s.Resp >= 0 {
			a = "(Some " + h.Z(s.Resp) + ")"
		}
		if s.Err >= 0 {
			b = "(Some " + h.Z(s.Err) + ")"
		}
		ret = "(RMk " + a + " " + b + ")"
	}
	return fmt.Sprintf("sp %s %s %s %s %s", h.Bool(s.Once), h.Bool(s.UntilOK), h.List(calls), ret, h.Z(s.Own))
}
// c19StageDefs names every distinct stage program once (Definition sN := sp ...).
type c19StageDefs struct {
	names map[string]string
	defs  strings.Builder
}

func (d *c19StageDefs) chain(l []c19Stage) string {
	s := make([]string, len(l))
	for i, x := range l {
		t := x.coq()
		n, ok := d.names[t]
		if !ok {
			n = fmt.Sprintf("s%d", len(d.names))
			d.names[t] = n
			fmt.Fprintf(&d.defs, "Definition %s : sprog := %s.\n", n, t)
		}
		s[i] = n
	}
	return h.List(s)
}
func c19ScriptCoq(l []int64) string {
	s := make([]string, len(l))
	for i, x := range l {
		if x < 0 {
			s[i] = "None"
		} else {
			s[i] = "Some " + h.Z(x)
		}
	}
	return h.List(s)
}

// ------------------------------------------------------------------ per-request recorder

// Message ids are namespaced by request: id = base + local id, base = 1000 * request number,
// so that stages and handlers find the recorder of "their" request whatever context they get.
type c19Rec struct {
	mu      sync.Mutex
	base    int64
	script  []int64
	trace   []c19Ev
	n       int64
	entered map[int]bool
}

var c19Recs sync.Map // request number -> *c19Rec
var c19ReqNo atomic.Int64

func c19NewRec(script []int64) *c19Rec {
	no := c19ReqNo.Add(1)
	r := &c19Rec{base: no * 1000, script: script, entered: map[int]bool{}}
	c19Recs.Store(no, r)
	return r
}
func (r *c19Rec) release() { c19Recs.Delete(r.base / 1000) }
func c19Lookup(id int64) *c19Rec {
	v, ok := c19Recs.Load(id / 1000)
	if !ok {
		panic(fmt.Sprintf("c19: no recorder for message id %d", id))
	}
	return v.(*c19Rec)
}
func (r *c19Rec) log(e c19Ev) {
	r.mu.Lock()
	r.trace = append(r.trace, e)
	r.mu.Unlock()
	runtime.Gosched() // let concurrent requests interleave at every observable point
}
func (r *c19Rec) enteredBefore(idx int) bool {
	r.mu.Lock()
	defer r.mu.Unlock()
	b := r.entered[idx]
	r.entered[idx] = true
	return b
}

// answer returns the number of this handler answer and the scripted error code (-1 = ok).
func (r *c19Rec) answer() (n int64, code int64) {
	r.mu.Lock()
	defer r.mu.Unlock()
	n = r.n
	r.n++
	code = -1
	if int(n) < len(r.script) {
		code = r.script[n]
	}
	return
}

// ------------------------------------------------------------------ the stage interpreter (one, for two worlds)

// c19World abstracts what a stage program touches: X context, Y message, Z result.
type c19World[X, Y, Z any] struct {
	obsCtx  func(X, Y) c19Ctx
	obsMsg  func(Y) int64 // local id
	obsRes  func(Z, Y) c19Res
	tag     func(X, int64) X
	fresh   func() X
	setMsg  func(Y, int64) Y
	mk      func(resp, err int64) Z
	log     func(Y, c19Ev)
	entered func(Y, int) bool
	crash   func()
}

func c19IsOK(r c19Res) bool { return r.Resp != nil && r.Err == nil && r.Resp.St == 0 }

func c19Interp[X, Y, Z any](w *c19World[X, Y, Z], idx int, sp *c19Stage, next func(X, Y) Z, ctx X, msg Y) Z {
	w.log(msg, c19Ev{K: 'E', I: idx, Ctx: w.obsCtx(ctx, msg), M: w.obsMsg(msg)})
	ret := func(z Z) Z {
		w.log(msg, c19Ev{K: 'R', I: idx, R: w.obsRes(z, msg)})
		return z
	}
	if sp.Once && w.entered(msg, idx) {
		return ret(w.mk(sp.Own, -1))
	}
	var first, last Z
	have := false
	for _, c := range sp.Calls {
		c2 := ctx
		switch {
		case c.C == -2:
			c2 = w.fresh()
		case c.C >= 0:
			c2 = w.tag(ctx, c.C)
		}
		m2 := msg
		if c.M >= 0 {
			m2 = w.setMsg(msg, c.M)
		}
		z := next(c2, m2)
		o := w.obsRes(z, msg)
		w.log(msg, c19Ev{K: 'B', I: idx, R: o})
		if !have {
			first = z
		}
		last, have = z, true
		if sp.UntilOK && c19IsOK(o) {
			break
		}
	}
	switch sp.Ret {
	case "last":
		if have {
			return ret(last)
		}
		return ret(w.mk(sp.Own, -1))
	case "first":
		if have {
			return ret(first)
		}
		return ret(w.mk(sp.Own, -1))
	case "panic":
		w.log(msg, c19Ev{K: 'P', I: idx})
		w.crash()
	}
	return ret(w.mk(sp.Resp, sp.Err))
}

// ------------------------------------------------------------------ world 1: the property statement (oracle)

type c19SpecPanic struct{}

type c19Spec struct {
	cs      *c19Case
	trace   []c19Ev
	n       int64
	entered map[int]bool
	w       *c19World[c19Ctx, int64, c19Res]
}

func c19ReasonOf(e int64) int64 {
	if e < 100 {
		return e
	}
	return 256
}

func c19NewSpec(cs *c19Case) *c19Spec {
	s := &c19Spec{cs: cs, entered: map[int]bool{}}
	s.w = &c19World[c19Ctx, int64, c19Res]{
		obsCtx: func(c c19Ctx, _ int64) c19Ctx { return c },
		obsMsg: func(m int64) int64 { return m },
		obsRes: func(r c19Res, _ int64) c19Res { return r },
		tag: func(c c19Ctx, t int64) c19Ctx {
			return c19Ctx{Tags: append(append([]int64(nil), c.Tags...), t), Hdr: c.Hdr}
		},
		fresh:  func() c19Ctx { return c19Ctx{} },
		setMsg: func(_ int64, id int64) int64 { return id },
		mk: func(resp, err int64) c19Res {
			var r c19Res
			if resp >= 0 {
				r.Resp = &c19Resp{resp, 0}
			}
			if err >= 0 {
				r.Err = c19i(err)
			}
			return r
		},
		log: func(_ int64, e c19Ev) { s.trace = append(s.trace, e) },
		entered: func(_ int64, idx int) bool {
			b := s.entered[idx]
			s.entered[idx] = true
			return b
		},
		crash: func() { panic(c19SpecPanic{}) },
	}
	return s
}

// core is what the scripted innermost handler does, as seen from the chain.
func (s *c19Spec) core(kind string, c c19Ctx, m int64) c19Res {
	poison := m >= 500
	code := int64(-1)
	switch kind {
	case "client":
		if poison {
			return c19Res{Err: c19i(1)}
		}
		s.trace = append(s.trace, c19Ev{K: 'C', M: m})
	case "server":
		if poison {
			return c19Res{Err: c19i(4)}
		}
		s.trace = append(s.trace, c19Ev{K: 'C', Ctx: c, M: m})
	default:
		if poison {
			// critical message extension: executeItem answers Feature Not Supported (8) for the item, no handler runs
			return c19Res{Resp: &c19Resp{-(1 + m), 0}, Err: c19i(8)}
		}
		s.trace = append(s.trace, c19Ev{K: 'C', Ctx: c, M: m})
	}
	n := s.n
	s.n++
	if kind != "client" && int(n) < len(s.cs.Script) {
		code = s.cs.Script[n]
	}
	if code >= 0 {
		if kind == "server" {
			return c19Res{Resp: &c19Resp{-(1 + m), c19ReasonOf(code)}}
		}
		return c19Res{Resp: &c19Resp{-(1 + m), 0}, Err: c19i(code)}
	}
	return c19Res{Resp: &c19Resp{n*1000 + m, 0}}
}

// from is the statement of the property: the stage at position i of `chain` runs with a
// continuation that, each time it is invoked, runs the remainder of the chain (from i+1)
// once, the core innermost.
func (s *c19Spec) from(chain []c19Stage, off, i int, core func(c19Ctx, int64) c19Res, c c19Ctx, m int64) c19Res {
	if i == len(chain) {
		return core(c, m)
	}
	return c19Interp(s.w, off+i, &chain[i], func(c2 c19Ctx, m2 int64) c19Res { return s.from(chain, off, i+1, core, c2, m2) }, c, m)
}

// item is the batch item of the response: what the batch-item chain returned for request
// item m, an error folded into it.
func (s *c19Spec) item(chain []c19Stage, off int, c c19Ctx, m int64) c19Resp {
	r := s.from(chain, off, 0, func(c2 c19Ctx, m2 int64) c19Res { return s.core("item", c2, m2) }, c, m)
	it := c19Resp{-(1 + m), 0}
	if r.Resp != nil {
		it = *r.Resp
	} else if r.Err == nil {
		r.Err = c19i(100)
	}
	if r.Err != nil {
		it.St = c19ReasonOf(*r.Err)
	}
	return it
}

// c19Outcome is the final observable of one request.
type c19Outcome struct {
	Panicked bool
	Note     string    // panic text / anomaly (not compared)
	Res      c19Res    // client
	Final    *c19Resp  // server (nil = nil response)
	Items    []c19Resp // item
	N        int64
	Trace    []c19Ev
}

func (s *c19Spec) run() (out c19Outcome) {
	cs := s.cs
	defer func() {
		if r := recover(); r != nil {
			if _, ok := r.(c19SpecPanic); !ok {
				panic(r)
			}
			out = c19Outcome{Panicked: true}
		}
		out.N, out.Trace = s.n, s.trace
	}()
	c0 := c19Ctx{Tags: append([]int64(nil), cs.Tags...)}
	switch cs.Kind {
	case "client":
		out.Res = s.from(cs.Chain, 0, 0, func(c c19Ctx, m int64) c19Res { return s.core("client", c, m) }, c0, cs.Msgs[0])
	case "server", "nested":
		c0.Hdr = c19i(cs.Msgs[0])
		core := func(c c19Ctx, m int64) c19Res { return s.core("server", c, m) }
		if cs.Kind == "nested" {
			// handleRequest with batch-item middlewares installed: the (single) item goes through their chain
			core = func(c c19Ctx, m int64) c19Res {
				if m >= 500 {
					return c19Res{Err: c19i(4)}
				}
				it := s.item(cs.IChain, 100, c, m)
				return c19Res{Resp: &it}
			}
		}
		r := s.from(cs.Chain, 0, 0, core, c0, cs.Msgs[0])
		if r.Err != nil {
			out.Final = &c19Resp{-(1 + cs.Msgs[0]), c19ReasonOf(*r.Err)}
		} else {
			out.Final = r.Resp
		}
	default:
		c0.Hdr = c19i(0)
		for _, m := range cs.Msgs {
			out.Items = append(out.Items, s.item(cs.Chain, 0, c0, m))
		}
	}
	return out
}

// ------------------------------------------------------------------ world 2: real middlewares

type c19TagKey struct{}

type c19Err struct{ code int64 }

func (e c19Err) Error() string { return fmt.Sprintf("c19 error %d", e.code) }

type c19Panic struct{ idx int }

func c19MkErr(kind string, code int64) error {
	if kind != "client" && code < 100 {
		return kmipserver.Error{Reason: kmip.ResultReason(code), Message: "c19 reason"}
	}
	return c19Err{code}
}

func c19ErrObs(err error) *int64 {
	if err == nil {
		return nil
	}
	var ke kmipserver.Error
	if errors.As(err, &ke) {
		return c19i(int64(ke.Reason))
	}
	var ce c19Err
	if errors.As(err, &ce) {
		return c19i(ce.code)
	}
	return c19i(1)
}

func c19HdrOf(ctx context.Context) (id int64, ok bool) {
	defer func() {
		if recover() != nil {
			ok = false
		}
	}()
	hd := kmipserver.GetRequestHeader(ctx)
	return c19ParseID(hd.ClientCorrelationValue, "m")
}

func c19ParseID(s, prefix string) (int64, bool) {
	if !strings.HasPrefix(s, prefix) {
		return 0, false
	}
	v, err := strconv.ParseInt(s[len(prefix):], 10, 64)
	return v, err == nil
}

func c19CtxObs(ctx context.Context, base int64) c19Ctx {
	var c c19Ctx
	if t, ok := ctx.Value(c19TagKey{}).([]int64); ok {
		c.Tags = append([]int64(nil), t...)
	}
	if id, ok := c19HdrOf(ctx); ok {
		c.Hdr = c19i(id - base)
	}
	return c
}

func c19Tag(ctx context.Context, t int64) context.Context {
	old, _ := ctx.Value(c19TagKey{}).([]int64)
	return context.WithValue(ctx, c19TagKey{}, append(append([]int64(nil), old...), t))
}

// c19TagDone: on the server side some substituted contexts are ALREADY DONE (cancelled) when they
// are passed on (tags ending in 4: the "substitute" letter and random stages): the remainder of the
// chain must run all the same - whether a stage acts on a done context is that stage's business.
func c19TagDone(ctx context.Context, t int64) context.Context {
	c := c19Tag(ctx, t)
	if t%10 == 4 {
		c2, cancel := context.WithCancel(c)
		cancel()
		return c2
	}
	return c
}

func c19BE(id int64) []byte { return binary.BigEndian.AppendUint64(nil, uint64(id)) }
func c19UnBE(b []byte) int64 {
	if len(b) != 8 {
		return -1
	}
	return int64(binary.BigEndian.Uint64(b))
}

// --- messages

// c19MkItem builds the batch item with absolute id `id`; a poisoned id carries a critical message
// extension: executeItem (the innermost stage of the batch-item chain) rejects it before any handler is
// looked up - whatever the middlewares in front of it do, they run first.
func c19MkItem(id int64) kmip.RequestBatchItem {
	it := kmip.RequestBatchItem{
		Operation:         kmip.OperationActivate,
		UniqueBatchItemID: c19BE(id),
		RequestPayload:    &payloads.ActivateRequestPayload{UniqueIdentifier: fmt.Sprintf("m%d", id)},
	}
	if id%1000 >= 500 {
		it.MessageExtension = &kmip.MessageExtension{VendorIdentification: "c19", CriticalityIndicator: true, VendorExtension: ttlv.Struct{}}
	}
	return it
}

// c19MkMsg builds the request message with absolute id `id`; on the server a poisoned id
// gets a wrong batch count (handleRequest rejects it), on the client the scripted server
// closes the connection when it sees it.
func c19MkMsg(kind string, id int64) *kmip.RequestMessage {
	ts := time.Unix(1, 0)
	bc := int32(1)
	if kind == "server" && id%1000 >= 500 {
		bc = 2
	}
	return &kmip.RequestMessage{
		Header: kmip.RequestHeader{ProtocolVersion: kmip.V1_4, ClientCorrelationValue: fmt.Sprintf("m%d", id), TimeStamp: &ts, BatchCount: bc},
		BatchItem: []kmip.RequestBatchItem{c19MkItem(id)},
	}
}

func c19MsgID(m *kmip.RequestMessage) int64 {
	if m == nil || len(m.BatchItem) == 0 {
		return -1
	}
	return c19UnBE(m.BatchItem[0].UniqueBatchItemID)
}

func c19PayloadID(p kmip.OperationPayload) (int64, bool) {
	ap, ok := p.(*payloads.ActivateResponsePayload)
	if !ok || ap == nil {
		return 0, false
	}
	return c19ParseID(ap.UniqueIdentifier, "r")
}

func c19ItemObs(bi *kmip.ResponseBatchItem, corr int64) c19Resp {
	var r c19Resp
	if id, ok := c19PayloadID(bi.ResponsePayload); ok {
		r.ID = id
	} else {
		r.ID = -(1 + corr)
	}
	if bi.ResultStatus != kmip.ResultStatusSuccess {
		r.St = int64(bi.ResultReason)
	}
	return r
}

// c19RespObs: observation of a response message, ids relative to base.
func c19RespObs(resp *kmip.ResponseMessage, base int64) *c19Resp {
	if resp == nil {
		return nil
	}
	corr := int64(-1)
	if id, ok := c19ParseID(resp.Header.ClientCorrelationValue, "m"); ok {
		corr = id - base
	}
	if len(resp.BatchItem) == 0 {
		return &c19Resp{-(1 + corr), -1}
	}
	if v := c19UnBE(resp.BatchItem[0].UniqueBatchItemID); v >= 0 {
		corr = v - base
	}
	r := c19ItemObs(&resp.BatchItem[0], corr)
	return &r
}

func c19MkRespItem(id int64) *kmip.ResponseBatchItem {
	return &kmip.ResponseBatchItem{Operation: kmip.OperationActivate, ResultStatus: kmip.ResultStatusSuccess,
		ResponsePayload: &payloads.ActivateResponsePayload{UniqueIdentifier: fmt.Sprintf("r%d", id)}}
}

func c19MkResp(id int64) *kmip.ResponseMessage {
	return &kmip.ResponseMessage{
		Header:    kmip.ResponseHeader{ProtocolVersion: kmip.V1_4, TimeStamp: time.Unix(1, 0), BatchCount: 1},
		BatchItem: []kmip.ResponseBatchItem{*c19MkRespItem(id)},
	}
}

type c19MsgZ struct {
	p *kmip.ResponseMessage
	e error
}
type c19ItemZ struct {
	p *kmip.ResponseBatchItem
	e error
}

func c19MsgWorld(kind string) *c19World[context.Context, *kmip.RequestMessage, c19MsgZ] {
	return &c19World[context.Context, *kmip.RequestMessage, c19MsgZ]{
		obsCtx: func(ctx context.Context, m *kmip.RequestMessage) c19Ctx { return c19CtxObs(ctx, c19Lookup(c19MsgID(m)).base) },
		obsMsg: func(m *kmip.RequestMessage) int64 { return c19MsgID(m) % 1000 },
		obsRes: func(z c19MsgZ, m *kmip.RequestMessage) c19Res {
			return c19Res{Resp: c19RespObs(z.p, c19Lookup(c19MsgID(m)).base), Err: c19ErrObs(z.e)}
		},
		tag: func(ctx context.Context, t int64) context.Context {
			if kind == "client" {
				return c19Tag(ctx, t) // the client's innermost stage is real I/O under that context
			}
			return c19TagDone(ctx, t)
		},
		fresh: func() context.Context { return context.Background() },
		setMsg: func(m *kmip.RequestMessage, id int64) *kmip.RequestMessage {
			return c19MkMsg(kind, c19Lookup(c19MsgID(m)).base+id)
		},
		mk: func(resp, err int64) c19MsgZ {
			var z c19MsgZ
			if resp >= 0 {
				z.p = c19MkResp(resp)
			}
			if err >= 0 {
				z.e = c19MkErr(kind, err)
			}
			return z
		},
		log:     func(m *kmip.RequestMessage, e c19Ev) { c19Lookup(c19MsgID(m)).log(e) },
		entered: func(m *kmip.RequestMessage, idx int) bool { return c19Lookup(c19MsgID(m)).enteredBefore(idx) },
		crash:   func() { panic(c19Panic{}) },
	}
}

func c19ItemWorld() *c19World[context.Context, *kmip.RequestBatchItem, c19ItemZ] {
	id := func(bi *kmip.RequestBatchItem) int64 { return c19UnBE(bi.UniqueBatchItemID) }
	return &c19World[context.Context, *kmip.RequestBatchItem, c19ItemZ]{
		obsCtx: func(ctx context.Context, m *kmip.RequestBatchItem) c19Ctx { return c19CtxObs(ctx, c19Lookup(id(m)).base) },
		obsMsg: func(m *kmip.RequestBatchItem) int64 { return id(m) % 1000 },
		obsRes: func(z c19ItemZ, m *kmip.RequestBatchItem) c19Res {
			r := c19Res{Err: c19ErrObs(z.e)}
			if z.p != nil {
				base := c19Lookup(id(m)).base
				corr := int64(-1)
				if v := c19UnBE(z.p.UniqueBatchItemID); v >= 0 {
					corr = v - base
				}
				o := c19ItemObs(z.p, corr)
				r.Resp = &o
			}
			return r
		},
		tag:   c19TagDone,
		fresh: func() context.Context { return context.Background() },
		setMsg: func(m *kmip.RequestBatchItem, nid int64) *kmip.RequestBatchItem {
			it := c19MkItem(c19Lookup(id(m)).base + nid)
			return &it
		},
		mk: func(resp, err int64) c19ItemZ {
			var z c19ItemZ
			if resp >= 0 {
				z.p = c19MkRespItem(resp)
			}
			if err >= 0 {
				z.e = c19MkErr("item", err)
			}
			return z
		},
		log:     func(m *kmip.RequestBatchItem, e c19Ev) { c19Lookup(id(m)).log(e) },
		entered: func(m *kmip.RequestBatchItem, idx int) bool { return c19Lookup(id(m)).enteredBefore(idx) },
		crash:   func() { panic(c19Panic{}) },
	}
}

func c19ClientMws(chain []c19Stage) []kmipclient.Middleware {
	w := c19MsgWorld("client")
	var l []kmipclient.Middleware
	for i := range chain {
		idx, sp := i, &chain[i]
		l = append(l, func(next kmipclient.Next, ctx context.Context, msg *kmip.RequestMessage) (*kmip.ResponseMessage, error) {
			z := c19Interp(w, idx, sp, func(c context.Context, m *kmip.RequestMessage) c19MsgZ {
				p, e := next(c, m)
				return c19MsgZ{p, e}
			}, ctx, msg)
			return z.p, z.e
		})
	}
	return l
}

func c19ServerMws(chain []c19Stage) []kmipserver.Middleware {
	w := c19MsgWorld("server")
	var l []kmipserver.Middleware
	for i := range chain {
		idx, sp := i, &chain[i]
		l = append(l, func(next kmipserver.Next, ctx context.Context, msg *kmip.RequestMessage) (*kmip.ResponseMessage, error) {
			z := c19Interp(w, idx, sp, func(c context.Context, m *kmip.RequestMessage) c19MsgZ {
				p, e := next(c, m)
				return c19MsgZ{p, e}
			}, ctx, msg)
			return z.p, z.e
		})
	}
	return l
}

func c19ItemMws(chain []c19Stage, off int) []kmipserver.BatchItemMiddleware {
	w := c19ItemWorld()
	var l []kmipserver.BatchItemMiddleware
	for i := range chain {
		idx, sp := off+i, &chain[i]
		l = append(l, func(next kmipserver.BatchItemNext, ctx context.Context, bi *kmip.RequestBatchItem) (*kmip.ResponseBatchItem, error) {
			z := c19Interp(w, idx, sp, func(c context.Context, m *kmip.RequestBatchItem) c19ItemZ {
				p, e := next(c, m)
				return c19ItemZ{p, e}
			}, ctx, bi)
			return z.p, z.e
		})
	}
	return l
}

// --- scripted innermost handlers

// c19Handler is the route handler of the server kinds.
func c19Handler(kind string) kmipserver.OperationHandler {
	return kmipserver.HandleFunc(func(ctx context.Context, req *payloads.ActivateRequestPayload) (*payloads.ActivateResponsePayload, error) {
		id, ok := c19ParseID(req.UniqueIdentifier, "m")
		if !ok {
			return nil, errors.New("c19: bad request id")
		}
		rec := c19Lookup(id)
		rec.log(c19Ev{K: 'C', Ctx: c19CtxObs(ctx, rec.base), M: id - rec.base})
		n, code := rec.answer()
		if code >= 0 {
			return nil, c19MkErr(kind, code)
		}
		return &payloads.ActivateResponsePayload{UniqueIdentifier: fmt.Sprintf("r%d", n*1000+id-rec.base)}, nil
	})
}

// c19Serve is the KMIP server behind the client's connection.
func c19Serve(conn net.Conn) {
	st := ttlv.NewStream(conn, 1<<20)
	defer conn.Close()
	for {
		var req kmip.RequestMessage
		if err := st.Recv(&req); err != nil {
			return
		}
		id := c19MsgID(&req)
		if id < 0 {
			return
		}
		if id%1000 >= 500 {
			return // poisoned: drop the connection without answering
		}
		v, ok := c19Recs.Load(id / 1000)
		if !ok {
			return
		}
		rec := v.(*c19Rec)
		rec.log(c19Ev{K: 'C', M: id - rec.base})
		n, _ := rec.answer()
		resp := c19MkResp(n*1000 + id - rec.base)
		resp.Header.ClientCorrelationValue = req.Header.ClientCorrelationValue
		if err := st.Send(resp); err != nil {
			return
		}
	}
}

// ------------------------------------------------------------------ running a case on the implementation

type c19Sut struct {
	kind   string
	client *kmipclient.Client
	exec   *kmipserver.BatchExecutor
}

func c19NewSut(cs *c19Case) (*c19Sut, error) {
	s := &c19Sut{kind: cs.Kind}
	switch cs.Kind {
	case "client":
		dial := func(ctx context.Context) (net.Conn, error) {
			a, b := net.Pipe()
			go c19Serve(b)
			return a, nil
		}
		// registered through two options from one slice with spare capacity; afterwards the caller
		// overwrites its slice: the client's chain is the client's own (registration order kept)
		mws := c19ClientMws(cs.Chain)
		base := make([]kmipclient.Middleware, len(mws), len(mws)+4)
		copy(base, mws)
		k := len(base) / 2
		c, err := kmipclient.DialContext(context.Background(), "mem", kmipclient.WithDialerUnsafe(dial),
			kmipclient.EnforceVersion(kmip.V1_4), kmipclient.WithMiddlewares(base[:k]...), kmipclient.WithMiddlewares(base[k:]...))
		if err != nil {
			return nil, err
		}
		full := base[:cap(base)]
		for i := range full {
			full[i] = func(next kmipclient.Next, ctx context.Context, msg *kmip.RequestMessage) (*kmip.ResponseMessage, error) {
				panic("C19: a middleware slot of the CALLER's slice was reached through the client's chain")
			}
		}
		s.client = c
		if len(cs.Chain)%2 == 1 {
			// requests through a clone of a clone: the chain is the same chain
			if c2, err := c.Clone(); err == nil {
				if c3, err := c2.Clone(); err == nil {
					s.client = c3
					_ = c.Close()
				}
				_ = c2.Close()
			}
		}
	case "server":
		s.exec = kmipserver.NewBatchExecutor()
		{
			mws := c19ServerMws(cs.Chain)
			base := make([]kmipserver.Middleware, len(mws), len(mws)+4)
			copy(base, mws)
			k := len(base) / 2
			s.exec.Use(base[:k]...)
			s.exec.Use(base[k:]...)
			full := base[:cap(base)]
			for i := range full {
				full[i] = func(next kmipserver.Next, ctx context.Context, msg *kmip.RequestMessage) (*kmip.ResponseMessage, error) {
					panic("C19: a middleware slot of the CALLER's slice was reached through the server's chain")
				}
			}
		}
		s.exec.Route(kmip.OperationActivate, c19Handler("server"))
	case "item":
		s.exec = kmipserver.NewBatchExecutor()
		s.exec.BatchItemUse(c19ItemMws(cs.Chain, 0)...)
		s.exec.Route(kmip.OperationActivate, c19Handler("item"))
	case "nested":
		s.exec = kmipserver.NewBatchExecutor()
		s.exec.Use(c19ServerMws(cs.Chain)...)
		s.exec.BatchItemUse(c19ItemMws(cs.IChain, 100)...)
		s.exec.Route(kmip.OperationActivate, c19Handler("item"))
	default:
		return nil, fmt.Errorf("unknown kind %q", cs.Kind)
	}
	return s, nil
}

func (s *c19Sut) close() {
	if s.client != nil {
		_ = s.client.Close()
	}
}

// request runs one request of the case through the chain and returns what was observed.
func (s *c19Sut) request(cs *c19Case) (out c19Outcome) {
	rec := c19NewRec(cs.Script)
	defer rec.release()
	defer func() {
		if r := recover(); r != nil {
			out = c19Outcome{Panicked: true, Note: fmt.Sprint(r)}
		}
		rec.mu.Lock()
		out.N, out.Trace = rec.n, append([]c19Ev(nil), rec.trace...)
		rec.mu.Unlock()
	}()
	ctx, cancel := context.WithTimeout(context.Background(), 30*time.Second)
	defer cancel()
	for _, t := range cs.Tags {
		ctx = c19Tag(ctx, t)
	}
	switch s.kind {
	case "client":
		resp, err := s.client.Roundtrip(ctx, c19MkMsg("client", rec.base+cs.Msgs[0]))
		out.Res = c19Res{Resp: c19RespObs(resp, rec.base), Err: c19ErrObs(err)}
	case "server", "nested":
		resp := s.exec.HandleRequest(ctx, c19MkMsg("server", rec.base+cs.Msgs[0]))
		out.Final = c19RespObs(resp, rec.base)
	case "item":
		req := c19MkMsg("item", rec.base)
		req.BatchItem = nil
		for _, m := range cs.Msgs {
			req.BatchItem = append(req.BatchItem, c19MkItem(rec.base+m))
		}
		req.Header.BatchCount = int32(len(req.BatchItem))
		resp := s.exec.HandleRequest(ctx, req)
		if resp == nil || len(resp.BatchItem) != len(cs.Msgs) {
			out.Note = "unexpected response shape"
			out.Items = []c19Resp{{-999, -999}}
			return
		}
		for i := range resp.BatchItem {
			corr := int64(-1)
			if v := c19UnBE(resp.BatchItem[i].UniqueBatchItemID); v >= 0 {
				corr = v - rec.base
			}
			out.Items = append(out.Items, c19ItemObs(&resp.BatchItem[i], corr))
		}
	}
	return out
}

// c19Run runs the case: one request, or Conc copies of it concurrently over the same chain.
func c19Run(cs *c19Case) ([]c19Outcome, error) {
	sut, err := c19NewSut(cs)
	if err != nil {
		return nil, err
	}
	defer sut.close()
	if cs.Conc <= 1 {
		return []c19Outcome{sut.request(cs)}, nil
	}
	outs := make([]c19Outcome, cs.Conc)
	var wg sync.WaitGroup
	start := make(chan struct{})
	for g := 0; g < cs.Conc; g++ {
		wg.Add(1)
		go func(g int) {
			defer wg.Done()
			<-start
			outs[g] = sut.request(cs)
		}(g)
	}
	close(start)
	wg.Wait()
	return outs, nil
}

// ------------------------------------------------------------------ oracle: compare with the property statement

func c19FinalEq(kind string, a, b *c19Outcome) bool {
	if a.Panicked != b.Panicked {
		return false
	}
	if a.Panicked {
		return true
	}
	switch kind {
	case "client":
		return c19ResEq(a.Res, b.Res)
	case "server", "nested":
		return (a.Final == nil) == (b.Final == nil) && (a.Final == nil || *a.Final == *b.Final)
	}
	if len(a.Items) != len(b.Items) {
		return false
	}
	for i := range a.Items {
		if a.Items[i] != b.Items[i] {
			return false
		}
	}
	return true
}

func (o *c19Outcome) finalString(kind string) string {
	if o.Panicked {
		return "panic " + o.Note
	}
	switch kind {
	case "client":
		return o.Res.String()
	case "server", "nested":
		if o.Final == nil {
			return "nil response"
		}
		return fmt.Sprintf("resp(%d,%d)", o.Final.ID, o.Final.St)
	}
	return fmt.Sprint(o.Items)
}

// c19Judge returns "" when observed = expected, else (signature class, description).
func c19Judge(kind string, want, got *c19Outcome) (string, string) {
	n := len(want.Trace)
	if len(got.Trace) < n {
		n = len(got.Trace)
	}
	for i := 0; i < n; i++ {
		w, g := want.Trace[i], got.Trace[i]
		if c19EvEq(w, g) {
			continue
		}
		class := "trace-differs"
		switch {
		case w.K == 'E' && (g.K == 'E' && g.I > w.I || g.K == 'C' || g.K == 'B'):
			class = "next-skips-stage"
		case w.K == 'E' && g.K == 'E' && g.I == w.I && g.M != w.M:
			class = "message-not-forwarded"
		case w.K == 'E' && g.K == 'E' && g.I == w.I:
			class = "context-not-forwarded"
		case w.K == 'E' && g.K == 'E':
			class = "wrong-stage-order"
		case w.K == 'C' && g.K == 'C' && g.M != w.M:
			class = "message-not-forwarded-to-core"
		case w.K == 'C' && g.K == 'C':
			class = "context-not-forwarded-to-core"
		case w.K == 'B' && g.K == 'C':
			class = "message-not-forwarded-to-core"
		case w.K == 'C' && g.K == 'E':
			class = "stage-runs-again"
		case (w.K == 'B' || w.K == 'R') && g.K == w.K && g.I == w.I:
			class = "result-not-passed-back"
		}
		return class, fmt.Sprintf("event %d: the property requires [%s], the implementation did [%s]", i, w, g)
	}
	if len(want.Trace) != len(got.Trace) {
		if got.Panicked && !want.Panicked {
			return "panic", fmt.Sprintf("the implementation panicked (%s) after %d of %d expected events", got.Note, len(got.Trace), len(want.Trace))
		}
		return "trace-length", fmt.Sprintf("the property requires %d events, the implementation produced %d", len(want.Trace), len(got.Trace))
	}
	if got.Panicked && !want.Panicked {
		class := "panic"
		if k := len(got.Trace); k > 0 && got.Trace[k-1].K == 'R' && got.Trace[k-1].I == 0 && got.Trace[k-1].R.Resp == nil {
			class = "panic-on-nil-response"
		}
		return class, fmt.Sprintf("the chain ran as required, then the implementation panicked (%s); required result %s", got.Note, want.finalString(kind))
	}
	if !c19FinalEq(kind, want, got) {
		return "final-result", fmt.Sprintf("required result %s, got %s", want.finalString(kind), got.finalString(kind))
	}
	if want.N != got.N {
		return "handler-count", fmt.Sprintf("required %d handler answers, got %d", want.N, got.N)
	}
	return "", ""
}

// ------------------------------------------------------------------ generators

// c19Letter: the exhaustive stage alphabet; ids depend on the position so that every
// substituted message / tag / response is recognisable.
const c19Letters = 12

var c19LetterName = []string{"pass", "short-circuit", "short-circuit-error", "call-twice", "three-calls-varied", "substitute",
	"retry-until-ok", "replace-by-error", "response-and-error", "nil-nil-fresh-context", "panic-after-call", "once"}

func c19Letter(k, pos int) c19Stage {
	b := int64(10 * (pos + 1))
	keep := c19Call{-1, -1}
	s := c19Stage{Ret: "last", Resp: -1, Err: -1, Own: b + 9, Calls: []c19Call{}}
	switch k {
	case 0:
		s.Calls = []c19Call{keep}
	case 1:
		s.Ret, s.Resp = "mk", b+9
	case 2:
		s.Ret, s.Err = "mk", 7
	case 3:
		s.Calls = []c19Call{keep, keep}
	case 4:
		s.Calls = []c19Call{{b + 1, -1}, {-1, b + 2}, {b + 3, b + 3}}
		s.Ret = "first"
	case 5:
		s.Calls = []c19Call{{b + 4, b + 4}}
	case 6:
		s.UntilOK = true
		s.Calls = []c19Call{{500 + b, -1}, keep, keep}
	case 7:
		s.Calls = []c19Call{keep}
		s.Ret, s.Err = "mk", 105
	case 8:
		s.Calls = []c19Call{keep}
		s.Ret, s.Resp, s.Err = "mk", b+8, 3
	case 9:
		s.Calls = []c19Call{{-1, -2}}
		s.Ret = "mk"
	case 10:
		s.Calls = []c19Call{keep}
		s.Ret = "panic"
	case 11:
		s.Once = true
		s.Calls = []c19Call{keep}
	}
	return s
}

func c19RandStage(r *h.Rand, pos int) c19Stage {
	b := int64(10 * (pos + 1))
	s := c19Stage{Ret: "last", Resp: -1, Err: -1, Own: b + 9, Calls: []c19Call{}}
	s.Once = r.Chance(1, 8)
	s.UntilOK = r.Chance(1, 4)
	nc := []int{0, 1, 1, 1, 1, 2, 2, 3}[r.Intn(8)]
	for k := 0; k < nc; k++ {
		c := c19Call{-1, -1}
		switch r.Intn(6) {
		case 0, 1:
			c.M = b + int64(k) + 1
		case 2:
			c.M = 500 + b + int64(k)
		}
		switch r.Intn(8) {
		case 0, 1, 2:
			c.C = b + int64(k) + 1
		case 3:
			c.C = -2
		}
		s.Calls = append(s.Calls, c)
	}
	switch r.Intn(16) {
	case 0:
		s.Ret = "panic"
	case 1, 2:
		s.Ret = "first"
	case 3:
		s.Ret, s.Resp = "mk", b+8
	case 4:
		s.Ret, s.Err = "mk", []int64{2, 7, 105, 300}[r.Intn(4)]
	case 5:
		s.Ret, s.Resp, s.Err = "mk", b+7, []int64{3, 110}[r.Intn(2)]
	case 6:
		s.Ret = "mk"
	}
	return s
}

func c19Scripts(kind string, i int) []int64 {
	if kind == "client" {
		return []int64{}
	}
	return [][]int64{{}, {3}, {-1, 105}, {-1, -1, 2, -1, 7}}[i%4]
}

func c19Describe(cs *c19Case) string {
	var l []string
	for _, s := range cs.Chain {
		d := fmt.Sprintf("%dcalls/%s", len(s.Calls), s.Ret)
		if s.UntilOK {
			d += "/until-ok"
		}
		if s.Once {
			d += "/once"
		}
		l = append(l, d)
	}
	d := cs.Kind + ":" + strings.Join(l, ",")
	if cs.Kind == "nested" {
		var li []string
		for _, s := range cs.IChain {
			li = append(li, fmt.Sprintf("%dcalls/%s", len(s.Calls), s.Ret))
		}
		d += " items:" + strings.Join(li, ",")
	}
	return d
}

// ------------------------------------------------------------------ the driver

func driveC19(c *h.Ctx) error {
	c.Rule("cases = (chain kind in {client Roundtrip, server HandleRequest, server batch-item chain, nested = HandleRequest chain around the batch-item chain}) x (chain of stage programs) x (handler script) ; " +
		"exhaustive: every chain of length 0..3 (thorough: 0..4 over the first 8 letters) over a 12-letter stage alphabet {pass, short-circuit, short-circuit with (nil,err), call next twice, " +
		"three calls with substituted messages/contexts returning the first result, substitute message+context, retry-until-ok starting with a poisoned message, replace result by error, " +
		"return response and error, return (nil,nil) after passing context.Background(), panic after the call, stateful short-circuit on re-entry}; " +
		"random: chains of length 4..8 of random programs (0..3 calls each); concurrent: copies of one request run simultaneously over one client / BatchExecutor; " +
		"stages are real middlewares logging (position, context tags + batch header, message id) and every result; a case is non-trivial when its chain has at least one stage; distinct by (kind, chain, script, requests, concurrency)")
	var cases []c19Case
	if c.Replay != nil {
		var src any = c.Replay["case"]
		if src == nil { // a replay of "no-failing-input-found": re-run the first mismatching case
			if br, ok := c.Replay["broken"].([]any); ok {
				for _, x := range br {
					if m, ok := x.(map[string]any); ok {
						if f, ok := m["first"].([]any); ok && len(f) > 0 {
							if fm, ok := f[0].(map[string]any); ok && src == nil {
								src = fm["case"]
							}
						}
					}
				}
			}
		}
		if src == nil {
			return fmt.Errorf("replay file holds no case")
		}
		b, _ := json.Marshal(src)
		var cs c19Case
		if err := json.Unmarshal(b, &cs); err != nil {
			return fmt.Errorf("replay case: %v", err)
		}
		if cs.Kind == "late-registration" {
			c19LateRegistration(c)
			c19ClientDialThroughChain(c)
			c19ServerDebugConcurrent(c)
			return c.WriteCases("cases_C19.v", "", 0)
		}
		cases = append(cases, cs)
	} else {
		c19LateRegistration(c)
		c19ClientDialThroughChain(c)
		c19ServerDebugConcurrent(c)
		maxLen := c.Pick(3, 4)
		for _, kind := range []string{"client", "server", "item"} {
			msgs := []int64{1}
			if kind == "item" {
				msgs = []int64{1, 2}
			}
			count := 0
			// shortest chains first, so that the first failing case of a signature is a smallest one
			for want := 0; want <= maxLen; want++ {
				var rec func(chain []c19Stage)
				rec = func(chain []c19Stage) {
					if len(chain) == want {
						cases = append(cases, c19Case{Kind: kind, Chain: append([]c19Stage{}, chain...), Script: c19Scripts(kind, count), Tags: []int64{9}, Msgs: msgs, Origin: "exhaustive"})
						count++
						return
					}
					letters := c19Letters
					if maxLen == 4 {
						letters = 8
					}
					for k := 0; k < letters; k++ {
						rec(append(chain, c19Letter(k, len(chain))))
					}
				}
				rec(nil)
			}
			// the full alphabet up to length 3 also in the thorough tier
			if maxLen == 4 {
				var rec3 func(chain []c19Stage, used bool)
				rec3 = func(chain []c19Stage, used bool) {
					if used {
						cases = append(cases, c19Case{Kind: kind, Chain: append([]c19Stage{}, chain...), Script: c19Scripts(kind, count), Tags: []int64{9}, Msgs: msgs, Origin: "exhaustive"})
						count++
					}
					if len(chain) == 3 {
						return
					}
					for k := 0; k < c19Letters; k++ {
						rec3(append(chain, c19Letter(k, len(chain))), used || k >= 8)
					}
				}
				rec3(nil, false)
			}
		}
		// nested: message middlewares around batch-item middlewares (one batch item)
		{
			count := 0
			add := func(mc, ic []c19Stage) {
				cases = append(cases, c19Case{Kind: "nested", Chain: mc, IChain: ic, Script: c19Scripts("nested", count), Tags: []int64{9}, Msgs: []int64{1}, Origin: "exhaustive"})
				count++
			}
			for a := 0; a < c19Letters; a++ {
				for b := 0; b < c19Letters; b++ {
					add([]c19Stage{c19Letter(a, 0)}, []c19Stage{c19Letter(b, 0)})
				}
			}
			sub := []int{0, 3, 4, 5, 6, 7}
			for _, a := range sub {
				for _, b := range sub {
					for _, d := range sub {
						add([]c19Stage{c19Letter(a, 0), c19Letter(b, 1)}, []c19Stage{c19Letter(d, 0)})
						add([]c19Stage{c19Letter(a, 0)}, []c19Stage{c19Letter(b, 0), c19Letter(d, 1)})
					}
				}
			}
		}
		c.Exhaustive(true)
		// random longer chains
		nrand := c.Pick(150, 1500)
		for ki, kind := range []string{"client", "server", "item", "nested"} {
			for j := 0; j < nrand; j++ {
				r := c.Rng.Fork(uint64(1000000*(ki+1) + j))
				for try := 0; ; try++ {
					ln := 4 + r.Intn(5)
					if kind == "nested" {
						ln = 1 + r.Intn(4)
					}
					cs := c19Case{Kind: kind, Tags: []int64{int64(r.Intn(5))}, Msgs: []int64{int64(1 + r.Intn(400))}, Origin: "random", Script: []int64{}, Chain: []c19Stage{}}
					if r.Chance(1, 6) {
						cs.Tags = []int64{}
					}
					if r.Chance(1, 10) {
						cs.Msgs[0] += 500 // the outer request itself is poisoned
					}
					if kind == "item" {
						for k := r.Intn(3); k > 0; k-- {
							cs.Msgs = append(cs.Msgs, int64(1+r.Intn(400)))
						}
					}
					for p := 0; p < ln; p++ {
						cs.Chain = append(cs.Chain, c19RandStage(r, p))
					}
					if kind == "nested" {
						for p, k := 0, 1+r.Intn(4); p < k; p++ {
							cs.IChain = append(cs.IChain, c19RandStage(r, 10+p))
						}
					}
					if kind != "client" {
						for k := r.Intn(6); k > 0; k-- {
							cs.Script = append(cs.Script, []int64{-1, -1, 3, 5, 120}[r.Intn(5)])
						}
					}
					want := c19NewSpec(&cs).run()
					if len(want.Trace) <= 400 || try > 50 {
						if len(want.Trace) <= 400 {
							cases = append(cases, cs)
						}
						break
					}
				}
			}
		}
		// concurrent requests over a shared chain
		nconc := c.Pick(12, 100)
		for ki, kind := range []string{"client", "server", "item", "nested"} {
			for j := 0; j < nconc; j++ {
				r := c.Rng.Fork(uint64(9000000*(ki+1) + j))
				cs := c19Case{Kind: kind, Tags: []int64{7}, Msgs: []int64{int64(1 + r.Intn(400))}, Origin: "concurrent", Script: []int64{}, Chain: []c19Stage{}, Conc: 4 + r.Intn(5)}
				if kind == "item" {
					cs.Msgs = append(cs.Msgs, int64(1+r.Intn(400)))
				}
				ln := 1 + r.Intn(4)
				for p := 0; p < ln; p++ {
					st := c19RandStage(r, p)
					if j%2 == 0 && p < 3 {
						st = c19Letter([]int{3, 4, 6, 11, 0, 5}[r.Intn(6)], p)
					}
					if st.Ret == "panic" {
						st.Ret = "last"
					}
					cs.Chain = append(cs.Chain, st)
				}
				if kind != "client" {
					cs.Script = []int64{-1, 3}
				}
				if kind == "nested" {
					for p, k := 0, 1+r.Intn(2); p < k; p++ {
						st := c19RandStage(r, 10+p)
						if st.Ret == "panic" {
							st.Ret = "first"
						}
						cs.IChain = append(cs.IChain, st)
					}
				}
				cases = append(cases, cs)
			}
		}
	}

	rows := map[string][]string{}
	sdefs := &c19StageDefs{names: map[string]string{}}
	for i := range cases {
		cs := &cases[i]
		if len(cs.Msgs) == 0 {
			cs.Msgs = []int64{1}
		}
		key, _ := json.Marshal(cs)
		c.Eval(string(key), len(cs.Chain) > 0)
		c.Count("kind:" + cs.Kind)
		c.Count("origin:" + cs.Origin)
		c.Count(fmt.Sprintf("length:%d", len(cs.Chain)))
		for _, s := range append(append([]c19Stage{}, cs.Chain...), cs.IChain...) {
			c.Count(fmt.Sprintf("stage-calls:%d", len(s.Calls)))
			c.Count("stage-ret:" + s.Ret)
		}
		want := c19NewSpec(cs).run()
		outs, err := c19Run(cs)
		if err != nil {
			return fmt.Errorf("case %d: %v", i, err)
		}
		if want.Panicked {
			c.Count("expected:panic")
		} else {
			c.Count("expected:return")
		}
		for g := range outs {
			got := &outs[g]
			caseJSON := json.RawMessage(key)
			if i%701 == 0 && g == 0 {
				smp := map[string]any{"case": caseJSON, "describe": c19Describe(cs), "observed_result": got.finalString(cs.Kind), "observed_events": len(got.Trace), "handler_answers": got.N}
				c.Sample(smp)
			}
			// ---- oracle
			if class, desc := c19Judge(cs.Kind, &want, got); class != "" {
				conc := ""
				if cs.Conc > 1 {
					conc = "/concurrent"
				}
				c.Fail("C19/"+cs.Kind+"/"+class+conc, c19Describe(cs)+": "+desc, caseJSON)
			}
			// ---- row for the model
			var row, table string
			// the digest of the observed trace always, the trace itself when short and for a sample
			tr := c19Digest(got.Trace) + ", "
			if len(got.Trace) <= 10 || (i+g)%16 == 0 {
				tr += "Some " + c19TraceCoq(got.Trace)
			} else {
				tr += "None"
			}
			switch cs.Kind {
			case "client":
				o := "Panic"
				if !got.Panicked {
					o = "Ok " + got.Res.coq()
				}
				table = "client"
				row = fmt.Sprintf("(%s, %s, %s, (%s, %s, %s))", sdefs.chain(cs.Chain), h.ZList(cs.Tags), h.Z(cs.Msgs[0]), o, h.Z(got.N), tr)
			case "server", "nested":
				o := "Panic"
				if !got.Panicked {
					if got.Final == nil {
						o = "Ok None"
					} else {
						o = fmt.Sprintf("Ok (Some (%s,%s))", h.Z(got.Final.ID), h.Z(got.Final.St))
					}
				}
				table = cs.Kind
				chains := sdefs.chain(cs.Chain)
				if cs.Kind == "nested" {
					chains += ", " + sdefs.chain(cs.IChain)
				}
				row = fmt.Sprintf("(%s, %s, %s, %s, (%s, %s, %s))", chains, c19ScriptCoq(cs.Script), h.ZList(cs.Tags), h.Z(cs.Msgs[0]), o, h.Z(got.N), tr)
			default:
				o := "Panic"
				if !got.Panicked {
					it := make([]string, len(got.Items))
					for k, x := range got.Items {
						it[k] = fmt.Sprintf("(%s,%s)", h.Z(x.ID), h.Z(x.St))
					}
					o = "Ok " + h.List(it)
				}
				table = "items"
				row = fmt.Sprintf("(%s, %s, %s, %s, (%s, %s, %s))", sdefs.chain(cs.Chain), c19ScriptCoq(cs.Script), h.ZList(cs.Tags), h.ZList(cs.Msgs), o, h.Z(got.N), tr)
			}
			rows[table] = append(rows[table], row)
			c.IndexCase("mism_"+table, len(rows[table])-1, caseJSON)
		}
	}

	mode := "0%nat"
	if os.Getenv("C19_MODEL") == "cursor" { // development aid: compare with the model of the unrepaired code
		mode = "2%nat"
	}
	var sb strings.Builder
	sb.WriteString("From Coq Require Import ZArith List Bool Uint63.\nFrom KV Require Import Base Chain ChainSyn Cases.\nImport ListNotations.\nOpen Scope Z_scope.\n")
	sb.WriteString(`Definition sp := Build_sprog.
Definition en (i : Z) (tags : list Z) (hdr : option Z) (m : Z) : cevent := EvEnter (Z.to_nat i) (tags, hdr) m.
Definition bk (i : Z) (r : cres) : cevent := EvBack (Z.to_nat i) r.
Definition rt (i : Z) (r : cres) : cevent := EvRet (Z.to_nat i) r.
Definition pn (i : Z) : cevent := EvPanic (Z.to_nat i).
Definition co (tags : list Z) (hdr : option Z) (m : Z) : cevent := EvCore (tags, hdr) m.
`)
	sb.WriteString(sdefs.defs.String())
	total := 0
	for _, t := range []struct{ name, ty, ok string }{{"client", "row_client", "row_client_ok"}, {"server", "row_server", "row_server_ok"}, {"items", "row_items", "row_items_ok"}, {"nested", "row_nested", "row_nested_ok"}} {
		defs, expr := h.Chunk("rows_"+t.name, t.ty, rows[t.name], 400)
		sb.WriteString(defs)
		fmt.Fprintf(&sb, "Definition mism_%s := Eval vm_compute in bad_idx (%s %s) %s 0.\nPrint mism_%s.\n", t.name, t.ok, mode, expr, t.name)
		total += len(rows[t.name])
	}
	return c.WriteCases("cases_C19.v", sb.String(), total)
}
