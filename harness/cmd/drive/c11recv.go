package main

// C11, a fault at one precise point of the exchange (oracle only): the request has been sent and the
// caller has ALREADY checked that the connection is available (conn.recv -> checkAvailable) but has NOT
// yet started to wait; there the server drops the connection and the client's reader goroutine
// terminates it.  The point is reached through the public API alone: the caller's own
// context.Context gets its Done() called when the library evaluates the operands of that select.
// Oracle: the call returns its own complete response or an error; never "no error and no response",
// never a panic.

import (
	"context"
	"fmt"
	"net"
	"runtime"
	"strings"
	"sync"
	"sync/atomic"
	"time"

	"github.com/ovh/kmip-go"
	"github.com/ovh/kmip-go/kmipclient"
	"github.com/ovh/kmip-go/payloads"
	"github.com/ovh/kmip-go/ttlv"

	"verifharness/internal/h"
)

type c11rLink struct {
	action       chan bool
	clientClosed chan struct{}
}

type c11rConn struct {
	net.Conn
	once sync.Once
	link *c11rLink
}

func (c *c11rConn) Close() error {
	err := c.Conn.Close()
	c.once.Do(func() { close(c.link.clientClosed) })
	return err
}

type c11rNet struct {
	mu       sync.Mutex
	cur      *c11rLink
	received atomic.Int32
	wg       sync.WaitGroup
}

func (n *c11rNet) current() *c11rLink { n.mu.Lock(); defer n.mu.Unlock(); return n.cur }

func (n *c11rNet) dial(ctx context.Context) (net.Conn, error) {
	cli, srv := net.Pipe()
	link := &c11rLink{action: make(chan bool), clientClosed: make(chan struct{})}
	n.mu.Lock()
	n.cur = link
	n.mu.Unlock()
	n.wg.Add(1)
	go func() { defer n.wg.Done(); n.serve(srv, link) }()
	return &c11rConn{Conn: cli, link: link}, nil
}

func (n *c11rNet) serve(srv net.Conn, link *c11rLink) {
	defer srv.Close()
	st := ttlv.NewStream(srv, -1)
	for {
		var req kmip.RequestMessage
		if err := st.Recv(&req); err != nil {
			return
		}
		n.received.Add(1)
		select {
		case reply := <-link.action:
			if !reply {
				return
			}
		case <-link.clientClosed:
			return
		case <-time.After(3 * time.Second):
			// nobody steers this exchange (the hook point was not reached): answer
		}
		resp := kmip.ResponseMessage{Header: kmip.ResponseHeader{ProtocolVersion: req.Header.ProtocolVersion, TimeStamp: time.Unix(1, 0), BatchCount: int32(len(req.BatchItem))}}
		for _, bi := range req.BatchItem {
			item := kmip.ResponseBatchItem{Operation: bi.Operation, ResultStatus: kmip.ResultStatusSuccess}
			if pl, ok := bi.RequestPayload.(*payloads.ActivateRequestPayload); ok {
				item.ResponsePayload = &payloads.ActivateResponsePayload{UniqueIdentifier: pl.UniqueIdentifier}
			}
			resp.BatchItem = append(resp.BatchItem, item)
		}
		if st.Send(&resp) != nil {
			return
		}
	}
}

type c11rCtx struct {
	context.Context
	net     *c11rNet
	faulted bool
	reached *bool
}

func (c *c11rCtx) Done() <-chan struct{} {
	pcs := make([]uintptr, 8)
	k := runtime.Callers(2, pcs)
	fr, _ := runtime.CallersFrames(pcs[:k]).Next()
	if strings.HasSuffix(fr.Function, "kmipclient.(*conn).recv") {
		*c.reached = true
		link := c.net.current()
		if !c.faulted {
			c.faulted = true
			select {
			case link.action <- false:
			case <-time.After(2 * time.Second):
			}
			select {
			case <-link.clientClosed:
			case <-time.After(2 * time.Second):
			}
			time.Sleep(10 * time.Millisecond)
		} else {
			select {
			case link.action <- true:
			case <-time.After(2 * time.Second):
			}
		}
	}
	return c.Context.Done()
}

func c11RecvWindow(c *h.Ctx) {
	nw := &c11rNet{}
	client, err := kmipclient.Dial("mem", kmipclient.EnforceVersion(kmip.V1_4), kmipclient.WithDialerUnsafe(nw.dial))
	if err != nil {
		return
	}
	defer func() { _ = client.Close() }()
	rounds, reachedN := 40, 0
	for i := 0; i < rounds; i++ {
		id := fmt.Sprintf("object-%d", i)
		base, cancel := context.WithTimeout(context.Background(), 10*time.Second)
		reached := false
		ctx := &c11rCtx{Context: base, net: nw, reached: &reached}
		var gotID, panicked string
		var callErr error
		nilResp := false
		func() {
			defer func() {
				if r := recover(); r != nil {
					panicked = fmt.Sprint(r)
				}
			}()
			if i%2 == 0 {
				resp, err := client.Activate(id).ExecContext(ctx)
				callErr = err
				if err == nil {
					if resp == nil {
						nilResp = true
					} else {
						gotID = resp.UniqueIdentifier
					}
				}
				return
			}
			msg := kmip.NewRequestMessage(kmip.V1_4, &payloads.ActivateRequestPayload{UniqueIdentifier: id})
			resp, err := client.Roundtrip(ctx, &msg)
			callErr = err
			if err == nil {
				if resp == nil || len(resp.BatchItem) != 1 {
					nilResp = true
					return
				}
				if pl, _ := resp.BatchItem[0].ResponsePayload.(*payloads.ActivateResponsePayload); pl != nil {
					gotID = pl.UniqueIdentifier
				} else {
					nilResp = true
				}
			}
		}()
		cancel()
		if reached {
			reachedN++
		}
		c.Eval(fmt.Sprintf("recv-window/%d", i), reached)
		cj := map[string]any{"leg": "recv-window", "round": i, "api": map[bool]string{true: "ExecContext", false: "Roundtrip"}[i%2 == 0], "reached_the_point": reached}
		switch {
		case panicked != "":
			c.Fail("C11/panic/recv-window", "the call hit by a connection fault between the availability check and the wait panicked: "+panicked, cj)
			return
		case callErr == nil && nilResp:
			c.Fail("C11/no-error-and-no-response/recv-window", "the call hit by a connection fault between the availability check and the wait returned no error and no (complete) response", cj)
			return
		case callErr == nil && gotID != id:
			c.Fail("C11/wrong-response/recv-window", fmt.Sprintf("response for %q delivered to the call for %q", gotID, id), cj)
			return
		}
	}
	c.Count("leg:recv-window")
	c.CountN("recv-window-point-reached", reachedN)
}
