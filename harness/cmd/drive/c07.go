package main

// C07 - stream framing is independent of how the transport chunks bytes.
//
// The driver replays transport oracles (the same [ans] alphabet as coq/theories/Stream.v)
// against the real ttlv.Stream.Recv, evaluates the property statement directly on what
// Recv did (the search oracle), and writes the observations into cases_C07.v where the
// Gallina model is run on the same transports.

import (
	"bytes"
	"crypto/ecdsa"
	"crypto/elliptic"
	"crypto/rand"
	"crypto/tls"
	"crypto/x509"
	"crypto/x509/pkix"
	"encoding/binary"
	"encoding/hex"
	"encoding/json"
	"errors"
	"fmt"
	"io"
	"math/big"
	"net"
	"os"
	"os/exec"
	"path/filepath"
	"runtime"
	"strings"
	"sync"
	"testing/iotest"
	"time"

	"github.com/ovh/kmip-go/ttlv"

	"verifharness/internal/h"
)

func init() { h.Register("C07", driveC07) }

// ---------------------------------------------------------------- transport oracle

type c07ans struct {
	Fault  bool `json:"fault,omitempty"`
	K      int  `json:"k"`
	Attach bool `json:"attach,omitempty"`
	E      int  `json:"e,omitempty"`
}

type c07err struct{ code int }

func (e *c07err) Error() string { return fmt.Sprintf("transport error #%d", e.code) }

var c07errs = map[int]error{}

func c07errOf(code int) error {
	if code == 0 {
		return io.EOF
	}
	if e, ok := c07errs[code]; ok {
		return e
	}
	e := &c07err{code}
	c07errs[code] = e
	return e
}

func c07codeOf(err error) (int, bool) {
	if err == io.EOF {
		return 0, true
	}
	if err == iotest.ErrTimeout {
		return 99, true
	}
	var ce *c07err
	if errors.As(err, &ce) {
		return ce.code, true
	}
	return 0, false
}

type c07read struct {
	want, n int
	err     error
}

// c07src is what a case runs against: a reader that records every Read call.
type c07src interface {
	io.ReadWriteCloser
	calls() []c07read
	resetCalls()
	remaining() int // bytes not yet handed out, -1 when unknown
	got() int       // bytes handed out since resetCalls
	guard(limit func() int, fail func(string))
}

// c07tr implements tr_read of Stream.v.
type c07tr struct {
	rest   []byte
	end    int
	sched  []c07ans
	si     int
	trace  []c07read
	limit  func() int   // bytes that remain of the current message (property clause "never requests more")
	fail   func(string) // oracle failure sink
	poison bool
}

func c07clip(k, want, avail int) int {
	n := k
	if want < n {
		n = want
	}
	if avail < n {
		n = avail
	}
	if n < 0 {
		n = 0
	}
	return n
}

func (t *c07tr) Read(p []byte) (int, error) {
	want := len(p)
	if t.poison {
		return 0, errors.New("poisoned")
	}
	if t.limit != nil {
		if want == 0 {
			t.fail("empty")
		} else if lim := t.limit(); want > lim {
			t.fail(fmt.Sprintf("over:%d>%d", want, lim))
			t.poison = true
			t.trace = append(t.trace, c07read{want, 0, errors.New("poisoned")})
			return 0, errors.New("poisoned")
		}
	}
	avail := len(t.rest)
	n := 0
	var err error
	if t.si >= len(t.sched) {
		if avail == 0 {
			err = c07errOf(t.end)
		} else {
			n = c07clip(want, want, avail)
		}
	} else {
		a := t.sched[t.si]
		t.si++
		if a.Fault {
			n = c07clip(a.K, want, avail)
			err = c07errOf(a.E)
		} else if avail == 0 {
			err = c07errOf(t.end)
		} else {
			n = c07clip(a.K, want, avail)
			if a.Attach && n == avail {
				err = c07errOf(t.end)
			}
		}
	}
	copy(p, t.rest[:n])
	t.rest = t.rest[n:]
	t.trace = append(t.trace, c07read{want, n, err})
	return n, err
}
func (t *c07tr) Write(b []byte) (int, error) { return len(b), nil }
func (t *c07tr) Close() error                { return nil }
func (t *c07tr) calls() []c07read            { return t.trace }
func (t *c07tr) resetCalls()                 { t.trace = nil }
func (t *c07tr) remaining() int              { return len(t.rest) }
func (t *c07tr) got() int                    { return c07sum(t.trace) }
func (t *c07tr) guard(l func() int, f func(string)) {
	t.limit, t.fail = l, f
}

// c07rec records what a foreign (standard library) reader answers.
type c07rec struct {
	r     io.Reader
	trace []c07read
	limit func() int
	fail  func(string)
}

func (t *c07rec) Read(p []byte) (int, error) {
	if t.limit != nil {
		if len(p) == 0 {
			t.fail("empty")
		} else if lim := t.limit(); len(p) > lim {
			t.fail(fmt.Sprintf("over:%d>%d", len(p), lim))
		}
	}
	n, err := t.r.Read(p)
	t.trace = append(t.trace, c07read{len(p), n, err})
	return n, err
}
func (t *c07rec) Write(b []byte) (int, error) { return len(b), nil }
func (t *c07rec) Close() error                { return nil }
func (t *c07rec) calls() []c07read            { return t.trace }
func (t *c07rec) resetCalls()                 { t.trace = nil }
func (t *c07rec) remaining() int              { return -1 }
func (t *c07rec) got() int                    { return c07sum(t.trace) }

func c07sum(tr []c07read) int {
	s := 0
	for _, c := range tr {
		s += c.n
	}
	return s
}
func (t *c07rec) guard(l func() int, f func(string)) {
	t.limit, t.fail = l, f
}

// ---------------------------------------------------------------- cases

// One item of the byte stream, as the sender meant it (ground truth for the oracle).
type c07item struct {
	Kind      string `json:"kind"`      // msg | badtype | oversize | cut
	Len       int    `json:"len"`       // bytes present in the stream
	Announced int    `json:"announced"` // 8 + padded length announced by the header (0 when there is no complete header)
}

type c07case struct {
	Family string    `json:"family"`
	Max    int       `json:"max"`
	Data   string    `json:"data"` // hex
	Sched  []c07ans  `json:"sched"`
	End    int       `json:"end"`
	Items  []c07item `json:"items"`
	Std    string    `json:"std,omitempty"` // standard-library transport instead of the oracle
	NoRow  bool      `json:"norow,omitempty"` // too large for a model row: implementation + oracle only
	data   []byte
	fills  []c07fill
}

func c07padded(l int) int { return l + (8-l%8)%8 }

// c07frame builds tag(3) type(1) len(4) value padding.
func c07frame(tag uint32, ty byte, val []byte) []byte {
	b := []byte{byte(tag >> 16), byte(tag >> 8), byte(tag), ty, 0, 0, 0, 0}
	binary.BigEndian.PutUint32(b[4:], uint32(len(val)))
	b = append(b, val...)
	for len(b)%8 != 0 {
		b = append(b, 0)
	}
	return b
}

func c07header(tag uint32, ty byte, l uint32) []byte {
	b := []byte{byte(tag >> 16), byte(tag >> 8), byte(tag), ty, 0, 0, 0, 0}
	binary.BigEndian.PutUint32(b[4:], l)
	return b
}

type c07fill struct{ off, n, seed int }

type c07builder struct {
	data  []byte
	items []c07item
	fills []c07fill // stretches of data produced by c07lcg (described, not spelled out, in the model rows)
}

// c07lcg: n pseudo-random bytes; the same generator is written in Gallina in cases_C07.v.
func c07lcg(seed, n int) []byte {
	b := make([]byte, n)
	s := uint64(seed)
	for i := range b {
		s = (s*141 + 12345) & (1<<24 - 1)
		b[i] = byte(s >> 8)
	}
	return b
}

// msgFill appends a byte-string message whose n value bytes come from c07lcg(seed).
func (b *c07builder) msgFill(tag uint32, n, seed int) {
	b.fills = append(b.fills, c07fill{len(b.data) + 8, n, seed})
	b.msg(tag, c07lcg(seed, n))
}
func (b *c07builder) badtypeFill(tag uint32, ty byte, n, seed int) {
	b.fills = append(b.fills, c07fill{len(b.data) + 8, n, seed})
	b.badtype(tag, ty, c07lcg(seed, n))
}

func (b *c07builder) msg(tag uint32, val []byte) {
	f := c07frame(tag, 8, val)
	b.data = append(b.data, f...)
	b.items = append(b.items, c07item{"msg", len(f), len(f)})
}
func (b *c07builder) badtype(tag uint32, ty byte, val []byte) {
	f := c07frame(tag, ty, val)
	b.data = append(b.data, f...)
	b.items = append(b.items, c07item{"badtype", len(f), len(f)})
}
func (b *c07builder) oversize(tag uint32, l uint32, junk int) {
	b.data = append(b.data, c07header(tag, 8, l)...)
	b.items = append(b.items, c07item{"oversize", 8, 8 + int(l) + (8-int(l)%8)%8})
	for ; junk >= 8; junk -= 8 { // zero bytes: read as 8-byte items of type 0 (undecodable)
		b.data = append(b.data, make([]byte, 8)...)
		b.items = append(b.items, c07item{"badtype", 8, 8})
	}
}

// cut truncates the stream to n bytes, turning the item that contains the cut into a "cut" item.
func (b *c07builder) cut(n int) {
	if n >= len(b.data) {
		return
	}
	pos := 0
	var items []c07item
	for _, it := range b.items {
		if pos+it.Len <= n {
			items = append(items, it)
			pos += it.Len
			continue
		}
		if n > pos {
			items = append(items, c07item{"cut", n - pos, it.Announced})
		}
		break
	}
	b.items = items
	b.data = b.data[:n]
}

func (b *c07builder) mk(family string, max int, sched []c07ans, end int) c07case {
	return c07case{Family: family, Max: max, Data: hex.EncodeToString(b.data), Sched: sched, End: end, Items: b.items, data: b.data, fills: b.fills}
}

func c07uniform(k, count int, attach bool) []c07ans {
	s := make([]c07ans, count)
	for i := range s {
		s[i] = c07ans{K: k, Attach: attach}
	}
	return s
}

// compositions of n encoded by mask over the n-1 gaps
func c07composition(n int, mask int) []int {
	var parts []int
	cur := 1
	for i := 0; i < n-1; i++ {
		if mask&(1<<i) != 0 {
			parts = append(parts, cur)
			cur = 1
		} else {
			cur++
		}
	}
	return append(parts, cur)
}

func c07chunks(parts []int, attach bool) []c07ans {
	s := make([]c07ans, len(parts))
	for i, p := range parts {
		s[i] = c07ans{K: p, Attach: attach}
	}
	return s
}

func c07faithful(s []c07ans) bool {
	for _, a := range s {
		if a.Fault || a.K < 1 {
			return false
		}
	}
	return true
}

// ---------------------------------------------------------------- running a case

type c07obs struct {
	class   int // 0 message, 1 library error (decode / too big), 2 transport error, 4 io.ErrUnexpectedEOF, 5 panic, 6 other
	code    int
	payload []byte
	trace   []c07read
	rest    int
	grew    int // 1 buffer grown to the announced size, 0 not grown, 2 not measured
	alloc   uint64
	panicV  string
}

func c07recvOnce(st *ttlv.Stream, src c07src) (o c07obs) {
	src.resetCalls()
	var v ttlv.Value
	var err error
	var m0, m1 runtime.MemStats
	func() {
		defer func() {
			if r := recover(); r != nil {
				o.panicV = fmt.Sprint(r)
			}
		}()
		runtime.ReadMemStats(&m0)
		err = st.Recv(&v)
		runtime.ReadMemStats(&m1)
	}()
	o.trace = append([]c07read(nil), src.calls()...)
	o.rest = src.remaining()
	o.grew = 2
	switch {
	case o.panicV != "":
		o.class = 5
	case err == nil:
		o.class = 0
		func() {
			defer func() {
				if r := recover(); r != nil {
					o.payload = []byte("unmarshalable:" + fmt.Sprint(r))
				}
			}()
			o.payload = ttlv.MarshalTTLV(v)
		}()
	case errors.Is(err, io.ErrUnexpectedEOF):
		o.class = 4
	default:
		if code, ok := c07codeOf(err); ok {
			o.class, o.code = 2, code
		} else if ttlv.IsErrEncoding(err) {
			o.class = 1
		} else {
			o.class = 1 // decode errors that are not ErrEncoding (e.g. unsupported type)
		}
	}
	if o.panicV == "" {
		o.alloc = m1.TotalAlloc - m0.TotalAlloc
	}
	return o
}

const c07maxRecv = 12

// c07run executes the case and evaluates the property on what Recv did.
// It returns the observations (one per Recv call made) and the oracle failures (sig, desc).
// growthMeasured counts the Recv calls whose buffer growth could be measured (announcement >= 64 KiB): [not grown, grown].
var growthMeasured [2]int

func c07run(cs *c07case, src c07src) (obs []c07obs, fails [][2]string) {
	st := ttlv.NewStream(src, cs.Max)
	faithful := c07faithful(cs.Sched) && cs.Std != "timeout"
	pos := 0  // bytes of the stream consumed by completed Recv calls
	item := 0 // index of the item the current Recv should return
	addFail := func(sig, desc string) { fails = append(fails, [2]string{sig, desc}) }
	tooBig := func(it *c07item) bool { return cs.Max > 0 && it.Announced > cs.Max }
	// bytes that remain of the current message: the property clause "never requests more"
	src.guard(func() int {
		in := src.got()
		if item >= len(cs.Items) || in < 8 {
			return 8 - in // only a header may be asked for
		}
		it := &cs.Items[item]
		if tooBig(it) {
			return 0
		}
		return it.Announced - in
	}, func(what string) {
		if what == "empty" {
			addFail("C07/empty-read-request", "Recv called Read with an empty buffer")
		} else {
			addFail("C07/read-request-beyond-current-message", "Recv asked the transport for more bytes than remain of the current message ("+what+")")
		}
	})
	for r := 0; r < c07maxRecv; r++ {
		nfail := len(fails)
		o := c07recvOnce(&st, src)
		if len(fails) > nfail {
			// the transport was poisoned by the guard: what Recv returned afterwards is meaningless
			o.class, o.code, o.payload = 6, 0, nil
			obs = append(obs, o)
			break
		}
		dataErr := false
		for _, c := range o.trace {
			if c.n > 0 && c.err != nil {
				dataErr = true
			}
		}
		consumed := c07sum(o.trace)
		var it *c07item
		if item < len(cs.Items) {
			it = &cs.Items[item]
		}
		// measured growth of the receive buffer, for the correspondence
		if o.class != 0 && o.class != 5 && consumed >= 8 && pos+8 <= len(cs.data) {
			ann := 8 + c07padded(int(binary.BigEndian.Uint32(cs.data[pos+4:pos+8])))
			if ann >= 65536 { // far above any fixed initial buffer: the allocation tells whether the buffer was grown to the announced size
				o.grew = 0
				if o.alloc >= uint64(ann) {
					o.grew = 1
				}
				growthMeasured[o.grew]++
			}
		}
		obs = append(obs, o)
		suffix := ""
		if dataErr {
			suffix = "/data-with-error"
		}
		if o.class == 5 {
			addFail("C07/panic", "Recv panicked: "+o.panicV)
			break
		}
		// whatever the transport does: a returned message is the next sent message, consumed exactly
		if o.class == 0 {
			switch {
			case it == nil || it.Kind != "msg":
				kind := "end-of-stream"
				if it != nil {
					kind = it.Kind
				}
				if kind == "cut" {
					addFail("C07/truncated-yields-message", fmt.Sprintf("Recv #%d returned a message from an item cut after %d of %d bytes", r, it.Len, it.Announced))
				} else {
					addFail("C07/message-from-"+kind, fmt.Sprintf("Recv #%d returned a message although the stream holds %s at offset %d", r, kind, pos))
				}
			case !bytes.Equal(o.payload, cs.data[pos:pos+it.Len]):
				addFail("C07/wrong-message", fmt.Sprintf("Recv #%d returned %x, sent %x", r, o.payload, cs.data[pos:pos+it.Len]))
			case consumed != it.Len:
				addFail("C07/consumed-not-exact", fmt.Sprintf("Recv #%d consumed %d bytes for a %d byte message", r, consumed, it.Len))
			}
		}
		// an oversize header must not make Recv allocate the announced amount (announcements of 64 KiB
		// and more only: a fixed initial receive buffer of a few KiB is not "the announced amount" -
		// a false alarm met on a harmless change that raised the initial buffer from 512 to 4096 bytes)
		if it != nil && tooBig(it) && it.Announced >= 65536 && o.alloc >= uint64(it.Announced) {
			addFail("C07/oversize-buffered", fmt.Sprintf("Recv #%d allocated %d bytes for a header announcing %d > max %d", r, o.alloc, it.Announced, cs.Max))
		}
		if it != nil && tooBig(it) && consumed > 8 {
			addFail("C07/oversize-body-consumed", fmt.Sprintf("Recv #%d consumed %d bytes of an item announcing %d > max %d", r, consumed, it.Announced, cs.Max))
		}
		// a transport that delivers everything in order, in any chunking, the end error with or after the last bytes
		if faithful && len(fails) == nfail {
			switch {
			case it == nil:
				if !(o.class == 2 && o.code == cs.End) {
					addFail("C07/end-of-stream-not-reported"+suffix, fmt.Sprintf("Recv #%d at the end of the stream: class %d code %d", r, o.class, o.code))
				}
			case tooBig(it):
				if o.class != 1 && it.Len >= 8 {
					addFail("C07/oversize-not-rejected"+suffix, fmt.Sprintf("Recv #%d class %d on a header announcing %d > max %d", r, o.class, it.Announced, cs.Max))
				}
			case it.Kind == "msg":
				if o.class != 0 {
					addFail("C07/complete-message-lost"+suffix, fmt.Sprintf("Recv #%d returned an error (class %d) although message %x was delivered completely", r, o.class, cs.data[pos:pos+it.Len]))
				}
			case it.Kind == "badtype":
				if o.class != 1 {
					addFail("C07/undecodable-frame-result"+suffix, fmt.Sprintf("Recv #%d class %d on a well-framed undecodable item", r, o.class))
				} else if consumed != it.Len {
					addFail("C07/consumed-not-exact", fmt.Sprintf("Recv #%d consumed %d bytes for a %d byte item", r, consumed, it.Len))
				}
			case it.Kind == "cut":
				if !(o.class == 2 && o.code == cs.End) {
					addFail("C07/truncated-result"+suffix, fmt.Sprintf("Recv #%d class %d code %d on a truncated item", r, o.class, o.code))
				}
			}
		}
		if len(fails) > nfail || it == nil {
			break
		}
		// continue only when this Recv ended on an item boundary
		want := it.Len
		if tooBig(it) {
			want = 8
		}
		if it.Kind == "cut" || (o.class != 0 && o.class != 1) || consumed != want {
			break
		}
		if tooBig(it) && it.Len != 8 {
			break
		}
		pos += consumed
		item++
	}
	return obs, fails
}

// ---------------------------------------------------------------- printing rows

// Rows are handed to Rocq as a byte stream written as a few large hexadecimal numerals
// (two orders of magnitude cheaper to parse than list / tuple / string syntax).
// Numbers: one byte below 255, otherwise 0xff followed by 4 bytes big-endian.
type c07enc struct{ b []byte }

func (e *c07enc) num(v int) {
	if v < 0 {
		panic("c07enc: negative number")
	}
	if v < 255 {
		e.b = append(e.b, byte(v))
	} else {
		e.b = append(e.b, 0xff, byte(v>>24), byte(v>>16), byte(v>>8), byte(v))
	}
}
func (e *c07enc) bytes(b []byte) {
	e.num(len(b))
	e.b = append(e.b, b...)
}

func c07hstep(h uint64, x int) uint64 { return (h*33 + uint64(x) + 1) & (1<<40 - 1) }

// c07obsHash folds what the Recv calls of one case did into a 40-bit number; the model's
// results are folded the same way inside Rocq (cases_C07.v) and the two numbers compared.
func c07obsHash(obs []c07obs, norest bool) uint64 {
	h := uint64(7)
	for _, o := range obs {
		h = c07hstep(h, o.class)
		h = c07hstep(h, o.code)
		h = c07hstep(h, len(o.payload))
		for _, b := range o.payload {
			h = c07hstep(h, int(b))
		}
		h = c07hstep(h, len(o.trace))
		for _, c := range o.trace {
			h = c07hstep(h, c.want)
			h = c07hstep(h, c.n)
		}
		if norest {
			h = c07hstep(h, 0)
		} else {
			h = c07hstep(h, o.rest+1)
		}
	}
	return h
}

// row := max+1 total nsegs {0 len bytes | 1 n seed | 2 n} nruns {kind count k [e]} end norest nobs {grew} hash_hi hash_lo
func c07encodeRow(max int, data []byte, fills []c07fill, sched []c07ans, end int, norest bool, obs []c07obs) []byte {
	e := &c07enc{}
	e.num(max + 1)
	e.num(len(data))
	// segments
	seg := &c07enc{}
	nseg := 0
	raw := func(b []byte) {
		// split out runs of at least 6 zero bytes
		for len(b) > 0 {
			z := 0
			for z < len(b) && b[z] == 0 {
				z++
			}
			if z >= 6 {
				seg.num(2)
				seg.num(z)
				nseg++
				b = b[z:]
				continue
			}
			i := z
			for i < len(b) {
				if b[i] == 0 {
					j := i
					for j < len(b) && b[j] == 0 {
						j++
					}
					if j-i >= 6 {
						break
					}
					i = j
				} else {
					i++
				}
			}
			seg.num(0)
			seg.bytes(b[:i])
			nseg++
			b = b[i:]
		}
	}
	pos := 0
	for _, f := range fills {
		if f.off >= len(data) || f.n < 24 {
			continue
		}
		n := f.n
		if f.off+n > len(data) {
			n = len(data) - f.off
		}
		raw(data[pos:f.off])
		seg.num(1)
		seg.num(n)
		seg.num(f.seed)
		nseg++
		pos = f.off + n
	}
	raw(data[pos:])
	e.num(nseg)
	e.b = append(e.b, seg.b...)
	type run struct {
		a c07ans
		n int
	}
	var runs []run
	for _, a := range sched {
		if len(runs) > 0 && runs[len(runs)-1].a == a {
			runs[len(runs)-1].n++
		} else {
			runs = append(runs, run{a, 1})
		}
	}
	e.num(len(runs))
	for _, r := range runs {
		switch {
		case r.a.Fault:
			e.num(2)
		case r.a.Attach:
			e.num(1)
		default:
			e.num(0)
		}
		e.num(r.n)
		e.num(r.a.K)
		if r.a.Fault {
			e.num(r.a.E)
		}
	}
	e.num(end)
	if norest {
		e.num(1)
	} else {
		e.num(0)
	}
	e.num(len(obs))
	for _, o := range obs {
		e.num(o.grew)
	}
	hv := c07obsHash(obs, norest)
	e.num(int(hv >> 20))
	e.num(int(hv & (1<<20 - 1)))
	return e.b
}

// schedule equivalent to what a foreign reader was seen to answer
func c07schedFromTrace(calls []c07read, total int, end *int) []c07ans {
	var s []c07ans
	avail := total
	for _, c := range calls {
		switch {
		case c.err == nil:
			s = append(s, c07ans{K: c.n})
		default:
			code, ok := c07codeOf(c.err)
			if !ok {
				code = 99
			}
			if c.n == avail && code == *end {
				s = append(s, c07ans{K: c07max(c.n, 1), Attach: true})
			} else {
				s = append(s, c07ans{Fault: true, K: c.n, E: code})
			}
		}
		avail -= c.n
	}
	return s
}

func c07max(a, b int) int {
	if a > b {
		return a
	}
	return b
}

// ---------------------------------------------------------------- TLS 1.2 transport (crypto/tls over a buffered in-memory connection)

type c07half struct {
	mu     sync.Mutex
	cond   *sync.Cond
	buf    []byte
	closed bool
}

func c07newHalf() *c07half { x := &c07half{}; x.cond = sync.NewCond(&x.mu); return x }

type c07bconn struct{ r, w *c07half }

func (c *c07bconn) Read(p []byte) (int, error) {
	c.r.mu.Lock()
	defer c.r.mu.Unlock()
	for len(c.r.buf) == 0 && !c.r.closed {
		c.r.cond.Wait()
	}
	if len(c.r.buf) == 0 {
		return 0, io.EOF
	}
	n := copy(p, c.r.buf)
	c.r.buf = c.r.buf[n:]
	return n, nil
}
func (c *c07bconn) Write(p []byte) (int, error) {
	c.w.mu.Lock()
	defer c.w.mu.Unlock()
	if c.w.closed {
		return 0, io.ErrClosedPipe
	}
	c.w.buf = append(c.w.buf, p...)
	c.w.cond.Broadcast()
	return len(p), nil
}
func (c *c07bconn) Close() error {
	c.w.mu.Lock()
	c.w.closed = true
	c.w.cond.Broadcast()
	c.w.mu.Unlock()
	return nil
}
func (c *c07bconn) LocalAddr() net.Addr                { return &net.UnixAddr{Name: "mem"} }
func (c *c07bconn) RemoteAddr() net.Addr               { return &net.UnixAddr{Name: "mem"} }
func (c *c07bconn) SetDeadline(t time.Time) error      { return nil }
func (c *c07bconn) SetReadDeadline(t time.Time) error  { return nil }
func (c *c07bconn) SetWriteDeadline(t time.Time) error { return nil }

var c07cert *tls.Certificate

func c07tlsCert() (tls.Certificate, error) {
	if c07cert != nil {
		return *c07cert, nil
	}
	key, err := ecdsa.GenerateKey(elliptic.P256(), rand.Reader)
	if err != nil {
		return tls.Certificate{}, err
	}
	tmpl := &x509.Certificate{SerialNumber: big.NewInt(1), Subject: pkix.Name{CommonName: "c07"}, NotBefore: time.Now().Add(-time.Hour), NotAfter: time.Now().Add(time.Hour), DNSNames: []string{"c07"}}
	der, err := x509.CreateCertificate(rand.Reader, tmpl, tmpl, &key.PublicKey, key)
	if err != nil {
		return tls.Certificate{}, err
	}
	c := tls.Certificate{Certificate: [][]byte{der}, PrivateKey: key}
	c07cert = &c
	return c, nil
}

// c07tlsReader: a TLS 1.2 client connection whose peer has written data (in the given record
// sizes) and closed (close_notify) before the client reads anything.
func c07tlsReader(data []byte, records []int) (io.Reader, error) {
	cert, err := c07tlsCert()
	if err != nil {
		return nil, err
	}
	a, b := c07newHalf(), c07newHalf()
	cc := &c07bconn{r: a, w: b}
	sc := &c07bconn{r: b, w: a}
	srv := tls.Server(sc, &tls.Config{Certificates: []tls.Certificate{cert}, MaxVersion: tls.VersionTLS12})
	cli := tls.Client(cc, &tls.Config{InsecureSkipVerify: true, MaxVersion: tls.VersionTLS12})
	done := make(chan error, 1)
	go func() {
		if err := srv.Handshake(); err != nil {
			done <- err
			return
		}
		rest := data
		for _, r := range records {
			if r > len(rest) {
				r = len(rest)
			}
			if r > 0 {
				if _, err := srv.Write(rest[:r]); err != nil {
					done <- err
					return
				}
			}
			rest = rest[r:]
		}
		if len(rest) > 0 {
			if _, err := srv.Write(rest); err != nil {
				done <- err
				return
			}
		}
		done <- srv.Close()
	}()
	if err := cli.Handshake(); err != nil {
		return nil, err
	}
	if err := <-done; err != nil {
		return nil, err
	}
	return cli, nil
}

func c07stdReader(kind string, data []byte) (io.Reader, error) {
	switch {
	case kind == "bytes":
		return bytes.NewReader(data), nil
	case kind == "onebyte":
		return iotest.OneByteReader(bytes.NewReader(data)), nil
	case kind == "half":
		return iotest.HalfReader(bytes.NewReader(data)), nil
	case kind == "dataerr":
		return iotest.DataErrReader(bytes.NewReader(data)), nil
	case kind == "dataerr-onebyte":
		return iotest.DataErrReader(iotest.OneByteReader(bytes.NewReader(data))), nil
	case kind == "timeout":
		return iotest.TimeoutReader(bytes.NewReader(data)), nil
	case strings.HasPrefix(kind, "tls12"):
		// tls12:<record size>,... ; default one record
		var recs []int
		if i := strings.IndexByte(kind, ':'); i >= 0 {
			for _, f := range strings.Split(kind[i+1:], ",") {
				var v int
				fmt.Sscan(f, &v)
				recs = append(recs, v)
			}
		}
		return c07tlsReader(data, recs)
	}
	return nil, fmt.Errorf("unknown std transport %q", kind)
}

// ---------------------------------------------------------------- generation

func c07gen(c *h.Ctx) []c07case {
	var cases []c07case
	add := func(cs c07case) { cases = append(cases, cs) }
	const MiB = 1 << 20

	// A. one 16-byte message followed by a second one: every chunking of the header, every chunking of the body
	for _, attach := range []bool{false, true} {
		for mask := 0; mask < 128; mask++ {
			for _, body := range [][]int{{8}, {1, 1, 1, 1, 1, 1, 1, 1}, {3, 5}} {
				b := &c07builder{}
				b.msg(0x420001, []byte{1, 2, 3, 4, 5})
				b.msg(0x420002, []byte{9})
				parts := append(c07composition(8, mask), body...)
				add(b.mk("A-header-compositions", MiB, c07chunks(parts, attach), 0))
			}
			for _, hd := range [][]int{{8}, {1, 1, 1, 1, 1, 1, 1, 1}, {7, 1}} {
				b := &c07builder{}
				b.msg(0x420001, []byte{1, 2, 3, 4, 5, 6, 7, 8})
				b.msg(0x420002, nil)
				parts := append(append([]int{}, hd...), c07composition(8, mask)...)
				add(b.mk("A-body-compositions", 0, c07chunks(parts, attach), 0))
			}
		}
	}
	// A'. several messages on ONE stream whose sizes grow past the initial buffer (512 bytes), in steps that
	//     land on either side of what growing the buffer by a factor gives
	for _, sizes := range [][]int{{624, 1024}, {600, 1000, 1600, 2600}, {520, 530, 4096, 4104}, {504, 505, 1016, 1017, 2040}, {700, 5000, 5600, 12000}, {3000, 700, 3500}} {
		for _, k := range []int{7, 512, 1000, 4096, 1 << 20} {
			b := &c07builder{}
			for i, n := range sizes {
				b.msg(uint32(0x420001+i), c07lcg(n+i, n))
			}
			cs := b.mk("A-growing-sizes", MiB, c07uniform(k, 40000, false), 0)
			cs.NoRow = true
			add(cs)
		}
	}
	// B. three messages (8, 16, 24 bytes), every truncation offset, uniform chunk sizes
	for cut := 0; cut <= 48; cut++ {
		for _, k := range []int{1, 2, 3, 5, 7, 8, 9, 13, 16, 1000} {
			for _, attach := range []bool{false, true} {
				for _, end := range []int{0, 3} {
					if end == 3 && (cut+k)%2 == 0 {
						continue
					}
					b := &c07builder{}
					b.msg(0x420001, nil)
					b.msg(0x420002, []byte{0xAA, 0xBB, 0xCC})
					b.msg(0x420003, []byte{1, 2, 3, 4, 5, 6, 7, 8, 9, 10, 11})
					b.cut(cut)
					add(b.mk("B-truncation", MiB, c07uniform(k, 50, attach), end))
				}
			}
		}
	}
	// C. announced sizes around the limit, and extreme ones
	for _, max := range []int{16, 24, 64, 1024, MiB} {
		var ls []uint32
		for d := -17; d <= 9; d++ {
			if v := max - 8 + d; v >= 0 {
				ls = append(ls, uint32(v))
			}
		}
		ls = append(ls, 1<<31-1, 1<<31, 1<<32-8, 1<<32-7, 1<<32-1, uint32(2*max), uint32(max))
		for _, l := range ls {
			for hi, hd := range [][]int{{8}, {1, 1, 1, 1, 1, 1, 1, 1}, {3, 5}, {7, 1}, {4, 4}} {
				for _, attach := range []bool{false, true} {
					ann := 8 + int(l) + (8-int(l)%8)%8
					b := &c07builder{}
					b.msg(0x420009, []byte{7})
					if ann > max {
						b.oversize(0x420001, l, 24)
					} else {
						if max == MiB && (hi > 0 || (ann != max && ann != max-8)) {
							continue // at 1 MiB only the two largest admissible messages, once (no model row)
						}
						b.msgFill(0x420001, int(l), int(l)*3+hi)
						b.msg(0x420002, []byte{1})
					}
					parts := append([]int{8, 8}, hd...)
					cs := b.mk("C-limit", max, c07chunks(parts, attach), 0)
					cs.NoRow = len(cs.data) > 20000
					add(cs)
				}
			}
		}
	}
	// D. no limit configured: messages larger than the initial 512-byte buffer, whole and truncated
	for _, max := range []int{0, -1} {
		for _, l := range []int{496, 503, 504, 505, 512, 600, 1024, 5000} {
			for _, k := range []int{1000000, 512, 100, 7} {
				if l > 1024 && k < 100 {
					continue
				}
				for _, cutTail := range []int{0, 1, 300} {
					b := &c07builder{}
					b.msgFill(0x42000A, l, l+k)
					b.msg(0x42000B, []byte{1, 2})
					if cutTail > 0 {
						b.cut(8 + c07padded(l) - cutTail)
					}
					add(b.mk("D-grow", max, c07uniform(k, 8+l/k+4, k == 7), 0))
				}
			}
		}
	}
	// E. random streams and random schedules (including faults and empty reads)
	nrand := c.Pick(5000, 60000)
	for i := 0; i < nrand; i++ {
		r := c.Rng.Fork(uint64(1000 + i))
		b := &c07builder{}
		max := []int{-1, 0, 64, 512, MiB}[r.Intn(5)]
		nit := r.Intn(5)
		for j := 0; j < nit; j++ {
			var l int
			switch r.Intn(8) {
			case 0:
				l = 0
			case 1:
				l = 480 + r.Intn(80)
			default:
				l = r.Intn(41)
			}
			seed := r.Intn(1 << 20)
			tag := uint32(0x420000 + r.Intn(200))
			switch {
			case r.Chance(1, 8):
				b.badtypeFill(tag, []byte{0, 11, 12, 255}[r.Intn(4)], l, seed)
			case max > 0 && 8+c07padded(l) > max:
				b.oversize(tag, uint32(l), 8*r.Intn(4))
				j = nit
			case max > 0 && r.Chance(1, 10):
				b.oversize(tag, uint32(max-7+r.Intn(4000)), 8*r.Intn(4))
				j = nit
			default:
				b.msgFill(tag, l, seed)
			}
		}
		if r.Chance(1, 3) && len(b.data) > 0 {
			b.cut(r.Intn(len(b.data)))
		}
		ns := r.Intn(40)
		pool := []int{1, 1, 2, 3, 4, 5, 7, 8, 9, 15, 16, 17, 64, 1000}
		faulty := r.Chance(1, 4)
		var sched []c07ans
		for j := 0; j < ns; j++ {
			a := c07ans{K: pool[r.Intn(len(pool))], Attach: r.Bool()}
			if faulty && r.Chance(1, 6) {
				switch r.Intn(3) {
				case 0:
					a = c07ans{K: 0} // (0, nil)
				case 1:
					a = c07ans{Fault: true, K: pool[r.Intn(len(pool))], E: 1 + r.Intn(3)}
				default:
					a = c07ans{Fault: true, K: 0, E: 1 + r.Intn(3)}
				}
			}
			sched = append(sched, a)
		}
		add(b.mk("E-random", max, sched, []int{0, 0, 2}[r.Intn(3)]))
	}
	// F. standard-library transports
	for _, kind := range []string{"bytes", "onebyte", "half", "dataerr", "dataerr-onebyte", "timeout", "tls12", "tls12:8,8", "tls12:3", "tls12:16,24"} {
		for _, max := range []int{-1, MiB} {
			for _, cut := range []int{-1, 20, 8, 3} {
				b := &c07builder{}
				b.msg(0x420001, []byte{1, 2, 3})
				b.msg(0x420002, []byte{1, 2, 3, 4, 5, 6, 7, 8, 9})
				if cut >= 0 {
					b.cut(cut)
				}
				cs := b.mk("F-std", max, nil, 0)
				cs.Std = kind
				add(cs)
			}
		}
	}
	return cases
}

// ---------------------------------------------------------------- the 32-bit leg (GOARCH=386 helper cmd/c07w32)

type c07w32case struct {
	Max    int    `json:"max"`
	Data   string `json:"data"`
	K      int    `json:"k"`
	Attach bool   `json:"attach"`
	W32    bool   `json:"w32"`
	L      uint32 `json:"announced_length"` // length field of the first header
	data   []byte
	fills  []c07fill
}

type c07w32obs struct {
	Class   int      `json:"class"`
	Code    int      `json:"code"`
	Payload string   `json:"payload"`
	Trace   [][2]int `json:"trace"`
	Rest    int      `json:"rest"`
	Panic   string   `json:"panic"`
}

func c07w32gen() []c07w32case {
	const MiB = 1 << 20
	var cases []c07w32case
	ls := []uint32{0, 3, 8, 1 << 20, 1<<31 - 25, 1<<31 - 24, 1<<31 - 17, 1<<31 - 16, 1<<31 - 15, 1<<31 - 9, 1<<31 - 8, 1<<31 - 7, 1<<31 - 1,
		1 << 31, 1<<31 + 1, 1<<31 + 8, 3 << 30, 1<<32 - 16, 1<<32 - 9, 1<<32 - 8, 1<<32 - 7, 1<<32 - 1}
	for _, max := range []int{MiB, 64, -1, 0} {
		for _, l := range ls {
			if max <= 0 && l > 16 && l <= 1<<31-17 {
				continue // addressable and unlimited: Recv would (rightly) try to buffer it
			}
			for _, k := range []int{1000, 1, 3} {
				for _, attach := range []bool{false, true} {
					b := &c07builder{}
					if l <= 16 {
						b.msgFill(0x420001, int(l), int(l)+k)
					} else {
						b.oversize(0x420001, l, 16)
					}
					b.msg(0x420002, []byte{1, 2, 3})
					cases = append(cases, c07w32case{Max: max, Data: hex.EncodeToString(b.data), K: k, Attach: attach, W32: true, L: l, data: b.data, fills: b.fills})
				}
			}
		}
	}
	return cases
}

// c07w32run cross-compiles and runs the helper; a nil slice with a reason when the leg is unavailable.
func c07w32run(c *h.Ctx, cases []c07w32case) ([][]c07w32obs, string) {
	bin := filepath.Join(c.Out, "c07w32")
	build := exec.Command("go", "build", "-tags", "verif", "-o", bin, "./cmd/c07w32")
	build.Dir = filepath.Join(c.Verif, "harness")
	build.Env = append(os.Environ(), "GOARCH=386", "CGO_ENABLED=0")
	if out, err := build.CombinedOutput(); err != nil {
		return nil, "cannot build for GOARCH=386: " + err.Error() + ": " + string(out)
	}
	runSome := func(cs []c07w32case) ([][]c07w32obs, string) {
		in, _ := json.Marshal(cs)
		run := exec.Command(bin)
		run.Stdin = bytes.NewReader(in)
		var stderr bytes.Buffer
		run.Stderr = &stderr
		out, err := run.Output()
		if err != nil {
			msg := stderr.String()
			if len(msg) > 600 {
				msg = msg[:600]
			}
			return nil, err.Error() + ": " + msg
		}
		var obs [][]c07w32obs
		if err := json.Unmarshal(out, &obs); err != nil || len(obs) != len(cs) {
			return nil, "bad output of the GOARCH=386 helper"
		}
		return obs, ""
	}
	obs, why := runSome(cases)
	if obs != nil {
		return obs, ""
	}
	// The helper was built but died (a fatal error in Recv, e.g. out of memory, cannot be recovered):
	// run the cases one by one; the cases that kill it are oracle failures.
	obs = make([][]c07w32obs, len(cases))
	killed := 0
	for i, cs := range cases {
		o, why1 := runSome([]c07w32case{cs})
		if o == nil {
			killed++
			obs[i] = []c07w32obs{{Class: 5, Panic: "process died: " + why1}}
			if killed >= 3 {
				break
			}
			continue
		}
		obs[i] = o[0]
	}
	if killed == 0 {
		c.Extra("int32_leg_note", "the GOARCH=386 helper died on the whole case list (cases were then run one per process): "+strings.SplitN(why, "\n", 2)[0])
	}
	return obs, ""
}

// c07w32check: the property on the 32-bit observations, and the row for the model at W = 32.
func c07w32check(c *h.Ctx, cs c07w32case, obs []c07w32obs) (row []byte, caseJSON map[string]any) {
	caseJSON = map[string]any{"w32": true, "max": cs.Max, "data": cs.Data, "k": cs.K, "attach": cs.Attach, "announced_length": cs.L}
	ann := 8 + int64(cs.L) + int64((8-cs.L%8)%8)
	// sizes within 16 bytes of MaxInt32 are refused as well (the guard of computeNeededBytes is l > MaxInt-16)
	refused := (cs.Max > 0 && ann > int64(cs.Max)) || int64(cs.L) > 1<<31-1-16
	var os []c07obs
	for i, o := range obs {
		p, _ := hex.DecodeString(o.Payload)
		co := c07obs{class: o.Class, code: o.Code, payload: p, rest: o.Rest, grew: 2}
		consumed := 0
		for _, t := range o.Trace {
			co.trace = append(co.trace, c07read{want: t[0], n: t[1]})
			consumed += t[1]
		}
		os = append(os, co)
		c.Count(fmt.Sprintf("w32-recv-outcome:%s", []string{"message", "library-error", "transport-error", "?", "unexpected-eof", "panic", "other"}[o.Class]))
		if o.Class == 5 {
			c.Fail("C07/int32/panic", fmt.Sprintf("32-bit int: Recv #%d panicked on a header announcing length %d: %s", i, cs.L, o.Panic), caseJSON)
		}
		if i == 0 {
			switch {
			case refused && o.Class != 1 && o.Class != 5:
				c.Fail("C07/int32/oversize-not-rejected", fmt.Sprintf("32-bit int: header announcing %d bytes (max %d) was not rejected: class %d", ann, cs.Max, o.Class), caseJSON)
			case refused && consumed > 8:
				c.Fail("C07/int32/oversize-body-consumed", fmt.Sprintf("32-bit int: %d bytes consumed of an item announcing %d bytes (max %d)", consumed, ann, cs.Max), caseJSON)
			case !refused && (o.Class != 0 || !bytes.Equal(p, cs.data[:ann])):
				c.Fail("C07/int32/complete-message-lost", fmt.Sprintf("32-bit int: class %d on a complete %d byte message", o.Class, ann), caseJSON)
			}
		}
	}
	sched := c07uniform(cs.K, 400, cs.Attach)
	return c07encodeRow(cs.Max, cs.data, cs.fills, sched, 0, false, os), caseJSON
}

func c07caseFromReplay(m map[string]any) (c07case, error) {
	var cs c07case
	cs.Family, _ = m["family"].(string)
	if v, ok := m["max"].(float64); ok {
		cs.Max = int(v)
	}
	cs.Data, _ = m["data"].(string)
	d, err := hex.DecodeString(cs.Data)
	if err != nil {
		return cs, err
	}
	cs.data = d
	if v, ok := m["end"].(float64); ok {
		cs.End = int(v)
	}
	cs.Std, _ = m["std"].(string)
	cs.NoRow, _ = m["norow"].(bool)
	if l, ok := m["sched"].([]any); ok {
		for _, x := range l {
			am, _ := x.(map[string]any)
			var a c07ans
			if v, ok := am["fault"].(bool); ok {
				a.Fault = v
			}
			if v, ok := am["k"].(float64); ok {
				a.K = int(v)
			}
			if v, ok := am["attach"].(bool); ok {
				a.Attach = v
			}
			if v, ok := am["e"].(float64); ok {
				a.E = int(v)
			}
			cs.Sched = append(cs.Sched, a)
		}
	}
	if l, ok := m["items"].([]any); ok {
		for _, x := range l {
			im, _ := x.(map[string]any)
			var it c07item
			it.Kind, _ = im["kind"].(string)
			if v, ok := im["len"].(float64); ok {
				it.Len = int(v)
			}
			if v, ok := im["announced"].(float64); ok {
				it.Announced = int(v)
			}
			cs.Items = append(cs.Items, it)
		}
	}
	return cs, nil
}

// ---------------------------------------------------------------- driver

func driveC07(c *h.Ctx) error {
	c.Rule("transport oracles replayed against the real ttlv.Stream.Recv (instrumented io.ReadWriteCloser recording every Read request, bytes consumed, allocation): " +
		"A. all 128 chunkings of the 8 header bytes and all 128 chunkings of an 8-byte body, each with and without the end error attached to the last bytes; " +
		"B. a 3-message stream cut at each of its 49 offsets x 10 uniform chunk sizes x error attached or not x EOF / other end error; " +
		"C. announced lengths within -17..+9 of each limit in {16,24,64,1024,1 MiB} and 2^31-1, 2^31, 2^32-8, 2^32-7, 2^32-1, under 5 header chunkings; " +
		"D. no limit: messages around and above the initial 512-byte buffer, whole and truncated; " +
		"E. random streams (messages, undecodable frames, oversize headers, cuts) under random schedules incl. (0,nil) reads and mid-stream errors; " +
		"F. standard transports (bytes.Reader, iotest One-byte/Half/DataErr/Timeout readers, crypto/tls 1.2 with close_notify behind the data); " +
		"W32. a GOARCH=386 build of the library: 22 announced lengths around 2^31 and 2^32 x limit {1 MiB, 64, none} x 3 chunk sizes x error attached or not. " +
		"A case is non-trivial when some message is not delivered by exactly one read per phase (header, body) or the stream is cut / oversize / faulty; distinct by (max, bytes, schedule, end error, transport)")
	var cases []c07case
	var w32cases []c07w32case
	if c.Replay == nil {
		c07Concurrent(c)
		c10LargeResponse(c, "C07")
	}
	if c.Replay != nil {
		m, _ := c.Replay["case"].(map[string]any)
		if m == nil {
			return fmt.Errorf("replay file has no case")
		}
		if m["leg"] == "concurrent-streams" {
			for i := 0; i < 5; i++ {
				c07Concurrent(c)
			}
			return c.WriteCases("cases_C07.v", "", 0)
		}
		if m["leg"] == "large-response" {
			c10LargeResponse(c, "C07")
			return c.WriteCases("cases_C07.v", "", 0)
		}
		if w, _ := m["w32"].(bool); w {
			var cs c07w32case
			b, _ := json.Marshal(m)
			if err := json.Unmarshal(b, &cs); err != nil {
				return err
			}
			cs.data, _ = hex.DecodeString(cs.Data)
			w32cases = append(w32cases, cs)
		} else {
			cs, err := c07caseFromReplay(m)
			if err != nil {
				return err
			}
			cases = append(cases, cs)
		}
	} else {
		cases = c07gen(c)
		w32cases = c07w32gen()
	}
	var rows [][]byte
	var rowCase []map[string]any
	nfailed := 0
	for i := range cases {
		if nfailed >= 25 {
			// the implementation is badly broken: enough evidence, do not run the remaining cases
			c.Extra("stopped_after_failures", i)
			break
		}
		cs := &cases[i]
		var src c07src
		if cs.Std != "" {
			r, err := c07stdReader(cs.Std, cs.data)
			if err != nil {
				return fmt.Errorf("std transport %s: %w", cs.Std, err)
			}
			src = &c07rec{r: r}
		} else {
			src = &c07tr{rest: append([]byte(nil), cs.data...), end: cs.End, sched: cs.Sched}
		}
		items0 := append([]c07item(nil), cs.Items...)
		obs, fails := c07run(cs, src)
		cs.Items = items0
		key := fmt.Sprintf("%d|%s|%v|%d|%s", cs.Max, cs.Data, cs.Sched, cs.End, cs.Std)
		nontrivial := len(cs.Sched) > 0 || cs.Std != ""
		for _, it := range cs.Items {
			if it.Kind != "msg" {
				nontrivial = true
			}
		}
		c.Eval(key, nontrivial)
		c.Count("family:" + cs.Family)
		for _, o := range obs {
			c.Count(fmt.Sprintf("recv-outcome:%s", []string{"message", "library-error", "transport-error", "?", "unexpected-eof", "panic", "other"}[o.class]))
			for _, t := range o.trace {
				if t.n > 0 && t.err != nil {
					c.Count("read:data-with-error")
				} else if t.n == 0 && t.err == nil {
					c.Count("read:zero-nil")
				}
			}
		}
		for _, it := range cs.Items {
			c.Count("item:" + it.Kind)
		}
		caseJSON := map[string]any{"family": cs.Family, "max": cs.Max, "data": cs.Data, "sched": cs.Sched, "end": cs.End, "items": cs.Items, "std": cs.Std, "norow": cs.NoRow}
		if i%1201 == 0 || (cs.Std == "tls12" && cs.Max < 0 && len(cs.data) == 32) {
			sm := map[string]any{"case": caseJSON}
			var outs []string
			for _, o := range obs {
				outs = append(outs, fmt.Sprintf("class=%d code=%d msg=%x reads=%v", o.class, o.code, o.payload, c07traceStr(o.trace)))
			}
			sm["observed"] = outs
			c.Sample(sm)
		}
		for _, f := range fails {
			c.Fail(f[0], f[1], caseJSON)
		}
		if len(fails) > 0 {
			nfailed++
		}
		// row for the model
		if cs.NoRow {
			c.Count("no-model-row")
			continue
		}
		sched := cs.Sched
		end := cs.End
		if cs.Std != "" {
			var all []c07read
			for _, o := range obs {
				all = append(all, o.trace...)
			}
			sched = c07schedFromTrace(all, len(cs.data), &end)
		}
		rows = append(rows, c07encodeRow(cs.Max, cs.data, cs.fills, sched, end, cs.Std != "", obs))
		rowCase = append(rowCase, caseJSON)
	}
	// ---- the 32-bit leg
	var rows32 [][]byte
	var rowCase32 []map[string]any
	if len(w32cases) > 0 {
		obs32, why := c07w32run(c, w32cases)
		if obs32 == nil {
			c.Extra("int32_leg", "skipped: "+why)
			if c.Replay != nil {
				return fmt.Errorf("32-bit replay impossible: %s", why)
			}
		} else {
			c.Extra("int32_leg", fmt.Sprintf("%d cases run by a GOARCH=386 build of ttlv.Stream.Recv and compared with the model at W = 32", len(w32cases)))
			for i, cs := range w32cases {
				row, cj := c07w32check(c, cs, obs32[i])
				c.Eval(fmt.Sprintf("w32|%d|%s|%d|%v", cs.Max, cs.Data, cs.K, cs.Attach), true)
				c.Count("family:W32-int-width")
				if i == 100 {
					c.Sample(map[string]any{"case": cj, "observed": obs32[i]})
				}
				rows32 = append(rows32, row)
				rowCase32 = append(rowCase32, cj)
			}
		}
	}
	var sb strings.Builder
	sb.WriteString("From Coq Require Import ZArith List Bool.\nFrom KV Require Import Base Stream Cases.\nImport ListNotations.\nOpen Scope Z_scope.\n")
	// blobs of whole rows; 7 bytes per primitive-integer literal (by far the cheapest literals to parse);
	// one mismatch table per blob
	type blob struct {
		table    string
		w        int
		first, n int
		b        []byte
	}
	var blobs []blob
	mkBlobs := func(rows [][]byte, rowCase []map[string]any, prefix string, w int) {
		start := len(blobs)
		for i, r := range rows {
			if len(blobs) == start || len(blobs[len(blobs)-1].b)+len(r) > 40000 {
				blobs = append(blobs, blob{table: fmt.Sprintf("%s_%d", prefix, len(blobs)-start), w: w, first: i})
			}
			bl := &blobs[len(blobs)-1]
			bl.b = append(bl.b, r...)
			bl.n++
			c.IndexCase(bl.table, i, rowCase[i])
		}
	}
	mkBlobs(rows, rowCase, "mism_recv", 64)
	mkBlobs(rows32, rowCase32, "mism_int32", 32)
	sb.WriteString("From Coq Require Import Uint63.\nOpen Scope uint63_scope.\n")
	for i, bl := range blobs {
		var words []string
		for j := 0; j < len(bl.b); j += 7 {
			var w [7]byte
			copy(w[:], bl.b[j:])
			words = append(words, "0x"+hex.EncodeToString(w[:]))
		}
		fmt.Fprintf(&sb, "Definition blob_%d : Z * list int := (%d%%Z, %s).\n", i, bl.n, h.List(words))
	}
	sb.WriteString("Close Scope uint63_scope.\n")
	sb.WriteString(`
(* ---- decoding of the blobs *)
Definition word_bytes (w : int) : list Z :=
  let z := Uint63.to_Z w in
  [Z.land (Z.shiftr z 48) 255; Z.land (Z.shiftr z 40) 255; Z.land (Z.shiftr z 32) 255; Z.land (Z.shiftr z 24) 255;
   Z.land (Z.shiftr z 16) 255; Z.land (Z.shiftr z 8) 255; Z.land z 255].
Definition blob_bytes (ws : list int) : list Z := flat_map word_bytes ws.
Definition get_num (l : list Z) : Z * list Z :=
  match l with
  | 255 :: a :: b :: c :: d :: r => (((a * 256 + b) * 256 + c) * 256 + d, r)
  | x :: r => (x, r)
  | [] => (0, [])
  end.
Definition get_bytes (l : list Z) : list Z * list Z :=
  let '(n, r) := get_num l in (take n r, drop n r).
Fixpoint get_runs (n : nat) (l : list Z) : list ans * list Z :=
  match n with
  | O => ([], l)
  | S n' =>
    let '(kind, l) := get_num l in
    let '(cnt, l) := get_num l in
    let '(k, l) := get_num l in
    let '(a, l) := if kind =? 2 then let '(e, l) := get_num l in (Fault k e, l)
                   else (Chunk k (kind =? 1), l) in
    let '(rest, l) := get_runs n' l in
    (repeat a (Z.to_nat cnt) ++ rest, l)
  end.
(* the generator of the long message values: c07lcg of the driver *)
Fixpoint lcg_bytes (n : nat) (s : Z) : list Z :=
  match n with
  | O => []
  | S n' => let s' := Z.land (s * 141 + 12345) 16777215 in Z.land (Z.shiftr s' 8) 255 :: lcg_bytes n' s'
  end.
Fixpoint get_segs (n : nat) (l : list Z) : list Z * list Z :=
  match n with
  | O => ([], l)
  | S n' =>
    let '(kind, l) := get_num l in
    let '(seg, l) :=
      if kind =? 0 then get_bytes l
      else if kind =? 1 then let '(m, l) := get_num l in let '(sd, l) := get_num l in (lcg_bytes (Z.to_nat m) sd, l)
      else let '(m, l) := get_num l in (zeros m, l) in
    let '(rest, l) := get_segs n' l in
    (seg ++ rest, l)
  end.
Fixpoint get_nums (n : nat) (l : list Z) : list Z * list Z :=
  match n with
  | O => ([], l)
  | S n' => let '(x, l) := get_num l in let '(rest, l) := get_nums n' l in (x :: rest, l)
  end.
(* max, data, schedule, end error, rest not observed, measured growth per Recv, hash of the observations *)
Definition row := (Z * list Z * list ans * Z * bool * list Z * Z)%type.
Fixpoint get_rows (n : nat) (l : list Z) : list row :=
  match n with
  | O => []
  | S n' =>
    let '(max1, l) := get_num l in
    let '(total, l) := get_num l in
    let '(ns, l) := get_num l in
    let '(data, l) := get_segs (Z.to_nat ns) l in
    let '(nr, l) := get_num l in
    let '(sched, l) := get_runs (Z.to_nat nr) l in
    let '(e, l) := get_num l in
    let '(norest, l) := get_num l in
    let '(no, l) := get_num l in
    let '(grews, l) := get_nums (Z.to_nat no) l in
    let '(hh, l) := get_num l in
    let '(hl, l) := get_num l in
    (max1 - 1, (if len data =? total then data else []), sched, e, norest =? 1, grews, hh * 1048576 + hl) :: get_rows n' l
  end.
Definition rows_of (b : Z * list int) : list row := get_rows (Z.to_nat (fst b)) (blob_bytes (snd b)).

(* ---- the comparison *)
(* UnmarshalTTLV into ttlv.Value followed by MarshalTTLV, on the frames the generator emits:
   byte strings with zero padding decode and re-encode to themselves, types 0 and > 10 are rejected. *)
Definition um (f : list Z) : res (list Z) := if nth 3 f (-1) =? 8 then Ok f else Err.
Definition proj (r : rres (list Z)) : Z * Z * list Z :=
  match r_out r with
  | RMsg (Ok f) => (0, 0, f)
  | RMsg Err => (1, 0, [])
  | RMsg Panic => (5, 0, [])
  | RMsg OutOfFuel => (9, 0, [])
  | RErr e => (2, e, [])
  | RTooBig => (1, 0, [])
  | RZero true => (4, 0, [])
  | RZero false => (2, 0, [])
  | RPanic => (5, 0, [])
  | RFuel => (9, 0, [])
  end.
(* c07hstep / c07obsHash of the driver *)
Definition hstep (h x : Z) : Z := Z.land (h * 33 + x + 1) 1099511627775.
Definition obs_hash (norest : bool) (h : Z) (r : rres (list Z)) : Z :=
  match proj r with (c, e, p) =>
    let h := hstep (hstep (hstep h c) e) (len p) in
    let h := fold_left hstep p h in
    let h := hstep h (len (r_trace r)) in
    let h := fold_left (fun h wn => hstep (hstep h (fst wn)) (snd wn)) (r_trace r) h in
    hstep h (if norest then 0 else len (t_rest (r_tr r)) + 1)
  end.
Definition grew_ok (r : rres (list Z)) (grew : Z) : bool :=
  if grew =? 2 then true else if grew =? 1 then 512 <? r_cap r else r_cap r =? 512.
Fixpoint all2 {A B} (f : A -> B -> bool) (a : list A) (b : list B) : bool :=
  match a, b with
  | [], [] => true
  | x :: xs, y :: ys => f x y && all2 f xs ys
  | _, _ => false
  end.
Definition row_ok (W : Z) (r : row) : bool :=
  match r with (max, data, sched, e, norest, grews, hv) =>
    let rs := recv_n (list Z) um W max (length grews) (mkTr data e sched) in
    negb (len grews =? 0) && all2 grew_ok rs grews && (fold_left (obs_hash norest) rs 7 =? hv)
  end.
`)
	var lens []string
	for i, bl := range blobs {
		fmt.Fprintf(&sb, "Definition %s := Eval vm_compute in bad_idx (row_ok %d) (rows_of blob_%d) %d.\nPrint %s.\n", bl.table, bl.w, i, bl.first, bl.table)
		lens = append(lens, fmt.Sprintf("len (rows_of blob_%d)", i))
	}
	if len(lens) == 0 {
		lens = []string{"0"}
	}
	fmt.Fprintf(&sb, "Definition mism_count := Eval vm_compute in (if %s =? %d then [] else [0]).\nPrint mism_count.\n", strings.Join(lens, " + "), len(rows)+len(rows32))
	c.Extra("model_rows_written", len(rows)+len(rows32))
	c.Extra("buffer_growth_measured_not_grown_and_grown", growthMeasured)
	return c.WriteCases("cases_C07.v", sb.String(), len(rows)+len(rows32))
}

func c07traceStr(t []c07read) string {
	var s []string
	for _, c := range t {
		e := ""
		if c.err != nil {
			e = "+err"
		}
		s = append(s, fmt.Sprintf("%d/%d%s", c.n, c.want, e))
	}
	return strings.Join(s, " ")
}
