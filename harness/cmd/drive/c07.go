package main

// C07 - stream framing is independent of how the transport chunks bytes.
//
// The driver replays transport oracles (the same [ans] alphabet as coq/theories/Stream.v)
// against the real ttlv.Stream.Recv, evaluates the property statement directly on what
// Recv did (the search oracle), and writes the observations into cases_C07.v where the
// Gallina model is run on the same transports.

import (
	"bytes"
	"crypto/ecdsa"
	"crypto/elliptic"
	"crypto/rand"
	"crypto/tls"
	"crypto/x509"
	"crypto/x509/pkix"
	"encoding/binary"
	"encoding/hex"
	"errors"
	"fmt"
	"io"
	"math/big"
	"net"
	"runtime"
	"strings"
	"sync"
	"testing/iotest"
	"time"

	"github.com/ovh/kmip-go/ttlv"

	"verifharness/internal/h"
)

func init() { h.Register("C07", driveC07) }

// ---------------------------------------------------------------- transport oracle

type c07ans struct {
	Fault  bool `json:"fault,omitempty"`
	K      int  `json:"k"`
	Attach bool `json:"attach,omitempty"`
	E      int  `json:"e,omitempty"`
}

type c07err struct{ code int }

func (e *c07err) Error() string { return fmt.Sprintf("transport error #%d", e.code) }

var c07errs = map[int]error{}

func c07errOf(code int) error {
	if code == 0 {
		return io.EOF
	}
	if e, ok := c07errs[code]; ok {
		return e
	}
	e := &c07err{code}
	c07errs[code] = e
	return e
}

func c07codeOf(err error) (int, bool) {
	if err == io.EOF {
		return 0, true
	}
	if err == iotest.ErrTimeout {
		return 99, true
	}
	var ce *c07err
	if errors.As(err, &ce) {
		return ce.code, true
	}
	return 0, false
}

type c07read struct {
	want, n int
	err     error
}

// c07src is what a case runs against: a reader that records every Read call.
type c07src interface {
	io.ReadWriteCloser
	calls() []c07read
	resetCalls()
	remaining() int // bytes not yet handed out, -1 when unknown
	got() int       // bytes handed out since resetCalls
	guard(limit func() int, fail func(string))
}

// c07tr implements tr_read of Stream.v.
type c07tr struct {
	rest   []byte
	end    int
	sched  []c07ans
	si     int
	trace  []c07read
	limit  func() int   // bytes that remain of the current message (property clause "never requests more")
	fail   func(string) // oracle failure sink
	poison bool
}

func c07clip(k, want, avail int) int {
	n := k
	if want < n {
		n = want
	}
	if avail < n {
		n = avail
	}
	if n < 0 {
		n = 0
	}
	return n
}

func (t *c07tr) Read(p []byte) (int, error) {
	want := len(p)
	if t.poison {
		return 0, errors.New("poisoned")
	}
	if t.limit != nil {
		if want == 0 {
			t.fail("empty")
		} else if lim := t.limit(); want > lim {
			t.fail(fmt.Sprintf("over:%d>%d", want, lim))
			t.poison = true
			t.trace = append(t.trace, c07read{want, 0, errors.New("poisoned")})
			return 0, errors.New("poisoned")
		}
	}
	avail := len(t.rest)
	n := 0
	var err error
	if t.si >= len(t.sched) {
		if avail == 0 {
			err = c07errOf(t.end)
		} else {
			n = c07clip(want, want, avail)
		}
	} else {
		a := t.sched[t.si]
		t.si++
		if a.Fault {
			n = c07clip(a.K, want, avail)
			err = c07errOf(a.E)
		} else if avail == 0 {
			err = c07errOf(t.end)
		} else {
			n = c07clip(a.K, want, avail)
			if a.Attach && n == avail {
				err = c07errOf(t.end)
			}
		}
	}
	copy(p, t.rest[:n])
	t.rest = t.rest[n:]
	t.trace = append(t.trace, c07read{want, n, err})
	return n, err
}
func (t *c07tr) Write(b []byte) (int, error) { return len(b), nil }
func (t *c07tr) Close() error                { return nil }
func (t *c07tr) calls() []c07read            { return t.trace }
func (t *c07tr) resetCalls()                 { t.trace = nil }
func (t *c07tr) remaining() int              { return len(t.rest) }
func (t *c07tr) got() int                    { return c07sum(t.trace) }
func (t *c07tr) guard(l func() int, f func(string)) {
	t.limit, t.fail = l, f
}

// c07rec records what a foreign (standard library) reader answers.
type c07rec struct {
	r     io.Reader
	trace []c07read
	limit func() int
	fail  func(string)
}

func (t *c07rec) Read(p []byte) (int, error) {
	if t.limit != nil {
		if len(p) == 0 {
			t.fail("empty")
		} else if lim := t.limit(); len(p) > lim {
			t.fail(fmt.Sprintf("over:%d>%d", len(p), lim))
		}
	}
	n, err := t.r.Read(p)
	t.trace = append(t.trace, c07read{len(p), n, err})
	return n, err
}
func (t *c07rec) Write(b []byte) (int, error) { return len(b), nil }
func (t *c07rec) Close() error                { return nil }
func (t *c07rec) calls() []c07read            { return t.trace }
func (t *c07rec) resetCalls()                 { t.trace = nil }
func (t *c07rec) remaining() int              { return -1 }
func (t *c07rec) got() int                    { return c07sum(t.trace) }

func c07sum(tr []c07read) int {
	s := 0
	for _, c := range tr {
		s += c.n
	}
	return s
}
func (t *c07rec) guard(l func() int, f func(string)) {
	t.limit, t.fail = l, f
}

// ---------------------------------------------------------------- cases

// One item of the byte stream, as the sender meant it (ground truth for the oracle).
type c07item struct {
	Kind      string `json:"kind"`      // msg | badtype | oversize | cut
	Len       int    `json:"len"`       // bytes present in the stream
	Announced int    `json:"announced"` // 8 + padded length announced by the header (0 when there is no complete header)
}

type c07case struct {
	Family string    `json:"family"`
	Max    int       `json:"max"`
	Data   string    `json:"data"` // hex
	Sched  []c07ans  `json:"sched"`
	End    int       `json:"end"`
	Items  []c07item `json:"items"`
	Std    string    `json:"std,omitempty"` // standard-library transport instead of the oracle
	NoRow  bool      `json:"norow,omitempty"` // too large for a model row: implementation + oracle only
	data   []byte
}

func c07padded(l int) int { return l + (8-l%8)%8 }

// c07frame builds tag(3) type(1) len(4) value padding.
func c07frame(tag uint32, ty byte, val []byte) []byte {
	b := []byte{byte(tag >> 16), byte(tag >> 8), byte(tag), ty, 0, 0, 0, 0}
	binary.BigEndian.PutUint32(b[4:], uint32(len(val)))
	b = append(b, val...)
	for len(b)%8 != 0 {
		b = append(b, 0)
	}
	return b
}

func c07header(tag uint32, ty byte, l uint32) []byte {
	b := []byte{byte(tag >> 16), byte(tag >> 8), byte(tag), ty, 0, 0, 0, 0}
	binary.BigEndian.PutUint32(b[4:], l)
	return b
}

type c07builder struct {
	data  []byte
	items []c07item
}

func (b *c07builder) msg(tag uint32, val []byte) {
	f := c07frame(tag, 8, val)
	b.data = append(b.data, f...)
	b.items = append(b.items, c07item{"msg", len(f), len(f)})
}
func (b *c07builder) badtype(tag uint32, ty byte, val []byte) {
	f := c07frame(tag, ty, val)
	b.data = append(b.data, f...)
	b.items = append(b.items, c07item{"badtype", len(f), len(f)})
}
func (b *c07builder) oversize(tag uint32, l uint32, junk int) {
	b.data = append(b.data, c07header(tag, 8, l)...)
	b.items = append(b.items, c07item{"oversize", 8, 8 + int(l) + (8-int(l)%8)%8})
	for ; junk >= 8; junk -= 8 { // zero bytes: read as 8-byte items of type 0 (undecodable)
		b.data = append(b.data, make([]byte, 8)...)
		b.items = append(b.items, c07item{"badtype", 8, 8})
	}
}

// cut truncates the stream to n bytes, turning the item that contains the cut into a "cut" item.
func (b *c07builder) cut(n int) {
	if n >= len(b.data) {
		return
	}
	pos := 0
	var items []c07item
	for _, it := range b.items {
		if pos+it.Len <= n {
			items = append(items, it)
			pos += it.Len
			continue
		}
		if n > pos {
			items = append(items, c07item{"cut", n - pos, it.Announced})
		}
		break
	}
	b.items = items
	b.data = b.data[:n]
}

func (b *c07builder) mk(family string, max int, sched []c07ans, end int) c07case {
	return c07case{Family: family, Max: max, Data: hex.EncodeToString(b.data), Sched: sched, End: end, Items: b.items, data: b.data}
}

func c07uniform(k, count int, attach bool) []c07ans {
	s := make([]c07ans, count)
	for i := range s {
		s[i] = c07ans{K: k, Attach: attach}
	}
	return s
}

// compositions of n encoded by mask over the n-1 gaps
func c07composition(n int, mask int) []int {
	var parts []int
	cur := 1
	for i := 0; i < n-1; i++ {
		if mask&(1<<i) != 0 {
			parts = append(parts, cur)
			cur = 1
		} else {
			cur++
		}
	}
	return append(parts, cur)
}

func c07chunks(parts []int, attach bool) []c07ans {
	s := make([]c07ans, len(parts))
	for i, p := range parts {
		s[i] = c07ans{K: p, Attach: attach}
	}
	return s
}

func c07faithful(s []c07ans) bool {
	for _, a := range s {
		if a.Fault || a.K < 1 {
			return false
		}
	}
	return true
}

// ---------------------------------------------------------------- running a case

type c07obs struct {
	class   int // 0 message, 1 library error (decode / too big), 2 transport error, 4 io.ErrUnexpectedEOF, 5 panic, 6 other
	code    int
	payload []byte
	trace   []c07read
	rest    int
	grew    int // 1 buffer grown to the announced size, 0 not grown, 2 not measured
	alloc   uint64
	panicV  string
}

func c07recvOnce(st *ttlv.Stream, src c07src) (o c07obs) {
	src.resetCalls()
	var v ttlv.Value
	var err error
	var m0, m1 runtime.MemStats
	func() {
		defer func() {
			if r := recover(); r != nil {
				o.panicV = fmt.Sprint(r)
			}
		}()
		runtime.ReadMemStats(&m0)
		err = st.Recv(&v)
		runtime.ReadMemStats(&m1)
	}()
	o.trace = append([]c07read(nil), src.calls()...)
	o.rest = src.remaining()
	o.grew = 2
	switch {
	case o.panicV != "":
		o.class = 5
	case err == nil:
		o.class = 0
		func() {
			defer func() {
				if r := recover(); r != nil {
					o.payload = []byte("unmarshalable:" + fmt.Sprint(r))
				}
			}()
			o.payload = ttlv.MarshalTTLV(v)
		}()
	case errors.Is(err, io.ErrUnexpectedEOF):
		o.class = 4
	default:
		if code, ok := c07codeOf(err); ok {
			o.class, o.code = 2, code
		} else if ttlv.IsErrEncoding(err) {
			o.class = 1
		} else {
			o.class = 1 // decode errors that are not ErrEncoding (e.g. unsupported type)
		}
	}
	if o.panicV == "" {
		o.alloc = m1.TotalAlloc - m0.TotalAlloc
	}
	return o
}

const c07maxRecv = 12

// c07run executes the case and evaluates the property on what Recv did.
// It returns the observations (one per Recv call made) and the oracle failures (sig, desc).
func c07run(cs *c07case, src c07src) (obs []c07obs, fails [][2]string) {
	st := ttlv.NewStream(src, cs.Max)
	faithful := c07faithful(cs.Sched) && cs.Std != "timeout"
	pos := 0  // bytes of the stream consumed by completed Recv calls
	item := 0 // index of the item the current Recv should return
	addFail := func(sig, desc string) { fails = append(fails, [2]string{sig, desc}) }
	tooBig := func(it *c07item) bool { return cs.Max > 0 && it.Announced > cs.Max }
	// bytes that remain of the current message: the property clause "never requests more"
	src.guard(func() int {
		in := src.got()
		if item >= len(cs.Items) || in < 8 {
			return 8 - in // only a header may be asked for
		}
		it := &cs.Items[item]
		if tooBig(it) {
			return 0
		}
		return it.Announced - in
	}, func(what string) {
		if what == "empty" {
			addFail("C07/empty-read-request", "Recv called Read with an empty buffer")
		} else {
			addFail("C07/read-request-beyond-current-message", "Recv asked the transport for more bytes than remain of the current message ("+what+")")
		}
	})
	for r := 0; r < c07maxRecv; r++ {
		nfail := len(fails)
		o := c07recvOnce(&st, src)
		if len(fails) > nfail {
			// the transport was poisoned by the guard: what Recv returned afterwards is meaningless
			o.class, o.code, o.payload = 6, 0, nil
			obs = append(obs, o)
			break
		}
		dataErr := false
		for _, c := range o.trace {
			if c.n > 0 && c.err != nil {
				dataErr = true
			}
		}
		consumed := c07sum(o.trace)
		var it *c07item
		if item < len(cs.Items) {
			it = &cs.Items[item]
		}
		// measured growth of the receive buffer, for the correspondence
		if o.class != 0 && o.class != 5 && consumed >= 8 && pos+8 <= len(cs.data) {
			ann := 8 + c07padded(int(binary.BigEndian.Uint32(cs.data[pos+4:pos+8])))
			if ann >= 4096 {
				o.grew = 0
				if o.alloc >= uint64(ann) {
					o.grew = 1
				}
			}
		}
		obs = append(obs, o)
		suffix := ""
		if dataErr {
			suffix = "/data-with-error"
		}
		if o.class == 5 {
			addFail("C07/panic", "Recv panicked: "+o.panicV)
			break
		}
		// whatever the transport does: a returned message is the next sent message, consumed exactly
		if o.class == 0 {
			switch {
			case it == nil || it.Kind != "msg":
				kind := "end-of-stream"
				if it != nil {
					kind = it.Kind
				}
				if kind == "cut" {
					addFail("C07/truncated-yields-message", fmt.Sprintf("Recv #%d returned a message from an item cut after %d of %d bytes", r, it.Len, it.Announced))
				} else {
					addFail("C07/message-from-"+kind, fmt.Sprintf("Recv #%d returned a message although the stream holds %s at offset %d", r, kind, pos))
				}
			case !bytes.Equal(o.payload, cs.data[pos:pos+it.Len]):
				addFail("C07/wrong-message", fmt.Sprintf("Recv #%d returned %x, sent %x", r, o.payload, cs.data[pos:pos+it.Len]))
			case consumed != it.Len:
				addFail("C07/consumed-not-exact", fmt.Sprintf("Recv #%d consumed %d bytes for a %d byte message", r, consumed, it.Len))
			}
		}
		// an oversize header must not make Recv allocate the announced amount
		if it != nil && tooBig(it) && it.Announced >= 4096 && o.alloc >= uint64(it.Announced) {
			addFail("C07/oversize-buffered", fmt.Sprintf("Recv #%d allocated %d bytes for a header announcing %d > max %d", r, o.alloc, it.Announced, cs.Max))
		}
		if it != nil && tooBig(it) && consumed > 8 {
			addFail("C07/oversize-body-consumed", fmt.Sprintf("Recv #%d consumed %d bytes of an item announcing %d > max %d", r, consumed, it.Announced, cs.Max))
		}
		// a transport that delivers everything in order, in any chunking, the end error with or after the last bytes
		if faithful && len(fails) == nfail {
			switch {
			case it == nil:
				if !(o.class == 2 && o.code == cs.End) {
					addFail("C07/end-of-stream-not-reported", fmt.Sprintf("Recv #%d at the end of the stream: class %d code %d", r, o.class, o.code))
				}
			case tooBig(it):
				if o.class != 1 && it.Len >= 8 {
					addFail("C07/oversize-not-rejected", fmt.Sprintf("Recv #%d class %d on a header announcing %d > max %d", r, o.class, it.Announced, cs.Max))
				}
			case it.Kind == "msg":
				if o.class != 0 {
					addFail("C07/complete-message-lost"+suffix, fmt.Sprintf("Recv #%d returned an error (class %d) although message %x was delivered completely", r, o.class, cs.data[pos:pos+it.Len]))
				}
			case it.Kind == "badtype":
				if o.class != 1 {
					addFail("C07/undecodable-frame-result", fmt.Sprintf("Recv #%d class %d on a well-framed undecodable item", r, o.class))
				} else if consumed != it.Len {
					addFail("C07/consumed-not-exact", fmt.Sprintf("Recv #%d consumed %d bytes for a %d byte item", r, consumed, it.Len))
				}
			case it.Kind == "cut":
				if !(o.class == 2 && o.code == cs.End) {
					addFail("C07/truncated-result", fmt.Sprintf("Recv #%d class %d code %d on a truncated item", r, o.class, o.code))
				}
			}
		}
		if len(fails) > nfail || it == nil {
			break
		}
		// continue only when this Recv ended on an item boundary
		want := it.Len
		if tooBig(it) {
			want = 8
		}
		if it.Kind == "cut" || (o.class != 0 && o.class != 1) || consumed != want {
			break
		}
		if tooBig(it) && it.Len != 8 {
			break
		}
		pos += consumed
		item++
	}
	return obs, fails
}

// ---------------------------------------------------------------- printing rows

func c07coqSched(s []c07ans) string {
	el := make([]string, len(s))
	for i, a := range s {
		if a.Fault {
			el[i] = fmt.Sprintf("Fault %s %d", h.Z(int64(a.K)), a.E)
		} else {
			el[i] = fmt.Sprintf("Chunk %s %s", h.Z(int64(a.K)), h.Bool(a.Attach))
		}
	}
	return h.List(el)
}

func c07coqObs(o c07obs) string {
	tr := make([]string, len(o.trace))
	for i, c := range o.trace {
		tr[i] = fmt.Sprintf("(%d,%d)", c.want, c.n)
	}
	return fmt.Sprintf("(%d, %d, %s, %s, %s, %d)", o.class, o.code, h.Bytes(o.payload), h.List(tr), h.Z(int64(o.rest)), o.grew)
}

// schedule equivalent to what a foreign reader was seen to answer
func c07schedFromTrace(calls []c07read, total int, end *int) []c07ans {
	var s []c07ans
	avail := total
	for _, c := range calls {
		switch {
		case c.err == nil:
			s = append(s, c07ans{K: c.n})
		default:
			code, ok := c07codeOf(c.err)
			if !ok {
				code = 99
			}
			if c.n == avail && code == *end {
				s = append(s, c07ans{K: c07max(c.n, 1), Attach: true})
			} else {
				s = append(s, c07ans{Fault: true, K: c.n, E: code})
			}
		}
		avail -= c.n
	}
	return s
}

func c07max(a, b int) int {
	if a > b {
		return a
	}
	return b
}

// ---------------------------------------------------------------- TLS 1.2 transport (crypto/tls over a buffered in-memory connection)

type c07half struct {
	mu     sync.Mutex
	cond   *sync.Cond
	buf    []byte
	closed bool
}

func c07newHalf() *c07half { x := &c07half{}; x.cond = sync.NewCond(&x.mu); return x }

type c07bconn struct{ r, w *c07half }

func (c *c07bconn) Read(p []byte) (int, error) {
	c.r.mu.Lock()
	defer c.r.mu.Unlock()
	for len(c.r.buf) == 0 && !c.r.closed {
		c.r.cond.Wait()
	}
	if len(c.r.buf) == 0 {
		return 0, io.EOF
	}
	n := copy(p, c.r.buf)
	c.r.buf = c.r.buf[n:]
	return n, nil
}
func (c *c07bconn) Write(p []byte) (int, error) {
	c.w.mu.Lock()
	defer c.w.mu.Unlock()
	if c.w.closed {
		return 0, io.ErrClosedPipe
	}
	c.w.buf = append(c.w.buf, p...)
	c.w.cond.Broadcast()
	return len(p), nil
}
func (c *c07bconn) Close() error {
	c.w.mu.Lock()
	c.w.closed = true
	c.w.cond.Broadcast()
	c.w.mu.Unlock()
	return nil
}
func (c *c07bconn) LocalAddr() net.Addr                { return &net.UnixAddr{Name: "mem"} }
func (c *c07bconn) RemoteAddr() net.Addr               { return &net.UnixAddr{Name: "mem"} }
func (c *c07bconn) SetDeadline(t time.Time) error      { return nil }
func (c *c07bconn) SetReadDeadline(t time.Time) error  { return nil }
func (c *c07bconn) SetWriteDeadline(t time.Time) error { return nil }

var c07cert *tls.Certificate

func c07tlsCert() (tls.Certificate, error) {
	if c07cert != nil {
		return *c07cert, nil
	}
	key, err := ecdsa.GenerateKey(elliptic.P256(), rand.Reader)
	if err != nil {
		return tls.Certificate{}, err
	}
	tmpl := &x509.Certificate{SerialNumber: big.NewInt(1), Subject: pkix.Name{CommonName: "c07"}, NotBefore: time.Now().Add(-time.Hour), NotAfter: time.Now().Add(time.Hour), DNSNames: []string{"c07"}}
	der, err := x509.CreateCertificate(rand.Reader, tmpl, tmpl, &key.PublicKey, key)
	if err != nil {
		return tls.Certificate{}, err
	}
	c := tls.Certificate{Certificate: [][]byte{der}, PrivateKey: key}
	c07cert = &c
	return c, nil
}

// c07tlsReader: a TLS 1.2 client connection whose peer has written data (in the given record
// sizes) and closed (close_notify) before the client reads anything.
func c07tlsReader(data []byte, records []int) (io.Reader, error) {
	cert, err := c07tlsCert()
	if err != nil {
		return nil, err
	}
	a, b := c07newHalf(), c07newHalf()
	cc := &c07bconn{r: a, w: b}
	sc := &c07bconn{r: b, w: a}
	srv := tls.Server(sc, &tls.Config{Certificates: []tls.Certificate{cert}, MaxVersion: tls.VersionTLS12})
	cli := tls.Client(cc, &tls.Config{InsecureSkipVerify: true, MaxVersion: tls.VersionTLS12})
	done := make(chan error, 1)
	go func() {
		if err := srv.Handshake(); err != nil {
			done <- err
			return
		}
		rest := data
		for _, r := range records {
			if r > len(rest) {
				r = len(rest)
			}
			if r > 0 {
				if _, err := srv.Write(rest[:r]); err != nil {
					done <- err
					return
				}
			}
			rest = rest[r:]
		}
		if len(rest) > 0 {
			if _, err := srv.Write(rest); err != nil {
				done <- err
				return
			}
		}
		done <- srv.Close()
	}()
	if err := cli.Handshake(); err != nil {
		return nil, err
	}
	if err := <-done; err != nil {
		return nil, err
	}
	return cli, nil
}

func c07stdReader(kind string, data []byte) (io.Reader, error) {
	switch {
	case kind == "bytes":
		return bytes.NewReader(data), nil
	case kind == "onebyte":
		return iotest.OneByteReader(bytes.NewReader(data)), nil
	case kind == "half":
		return iotest.HalfReader(bytes.NewReader(data)), nil
	case kind == "dataerr":
		return iotest.DataErrReader(bytes.NewReader(data)), nil
	case kind == "dataerr-onebyte":
		return iotest.DataErrReader(iotest.OneByteReader(bytes.NewReader(data))), nil
	case kind == "timeout":
		return iotest.TimeoutReader(bytes.NewReader(data)), nil
	case strings.HasPrefix(kind, "tls12"):
		// tls12:<record size>,... ; default one record
		var recs []int
		if i := strings.IndexByte(kind, ':'); i >= 0 {
			for _, f := range strings.Split(kind[i+1:], ",") {
				var v int
				fmt.Sscan(f, &v)
				recs = append(recs, v)
			}
		}
		return c07tlsReader(data, recs)
	}
	return nil, fmt.Errorf("unknown std transport %q", kind)
}

// ---------------------------------------------------------------- generation

func c07gen(c *h.Ctx) []c07case {
	var cases []c07case
	add := func(cs c07case) { cases = append(cases, cs) }
	const MiB = 1 << 20

	// A. one 16-byte message followed by a second one: every chunking of the header, every chunking of the body
	for _, attach := range []bool{false, true} {
		for mask := 0; mask < 128; mask++ {
			for _, body := range [][]int{{8}, {1, 1, 1, 1, 1, 1, 1, 1}, {3, 5}} {
				b := &c07builder{}
				b.msg(0x420001, []byte{1, 2, 3, 4, 5})
				b.msg(0x420002, []byte{9})
				parts := append(c07composition(8, mask), body...)
				add(b.mk("A-header-compositions", MiB, c07chunks(parts, attach), 0))
			}
			for _, hd := range [][]int{{8}, {1, 1, 1, 1, 1, 1, 1, 1}, {7, 1}} {
				b := &c07builder{}
				b.msg(0x420001, []byte{1, 2, 3, 4, 5, 6, 7, 8})
				b.msg(0x420002, nil)
				parts := append(append([]int{}, hd...), c07composition(8, mask)...)
				add(b.mk("A-body-compositions", 0, c07chunks(parts, attach), 0))
			}
		}
	}
	// B. three messages (8, 16, 24 bytes), every truncation offset, uniform chunk sizes
	for cut := 0; cut <= 48; cut++ {
		for _, k := range []int{1, 2, 3, 5, 7, 8, 9, 13, 16, 1000} {
			for _, attach := range []bool{false, true} {
				for _, end := range []int{0, 3} {
					b := &c07builder{}
					b.msg(0x420001, nil)
					b.msg(0x420002, []byte{0xAA, 0xBB, 0xCC})
					b.msg(0x420003, []byte{1, 2, 3, 4, 5, 6, 7, 8, 9, 10, 11})
					b.cut(cut)
					add(b.mk("B-truncation", MiB, c07uniform(k, 50, attach), end))
				}
			}
		}
	}
	// C. announced sizes around the limit, and extreme ones
	for _, max := range []int{16, 24, 64, 1024, MiB} {
		var ls []uint32
		for d := -17; d <= 9; d++ {
			if v := max - 8 + d; v >= 0 {
				ls = append(ls, uint32(v))
			}
		}
		ls = append(ls, 1<<31-1, 1<<31, 1<<32-8, 1<<32-7, 1<<32-1, uint32(2*max), uint32(max))
		for _, l := range ls {
			for hi, hd := range [][]int{{8}, {1, 1, 1, 1, 1, 1, 1, 1}, {3, 5}, {7, 1}, {4, 4}} {
				for _, attach := range []bool{false, true} {
					ann := 8 + int(l) + (8-int(l)%8)%8
					b := &c07builder{}
					b.msg(0x420009, []byte{7})
					if ann > max {
						b.oversize(0x420001, l, 24)
					} else {
						if max == MiB && (hi > 0 || (ann != max && ann != max-8)) {
							continue // at 1 MiB only the two largest admissible messages, once (no model row)
						}
						val := make([]byte, l)
						for i := range val {
							val[i] = byte(i*7 + 1)
						}
						b.msg(0x420001, val)
						b.msg(0x420002, []byte{1})
					}
					parts := append([]int{8, 8}, hd...)
					cs := b.mk("C-limit", max, c07chunks(parts, attach), 0)
					cs.NoRow = len(cs.data) > 20000
					add(cs)
				}
			}
		}
	}
	// D. no limit configured: messages larger than the initial 512-byte buffer, whole and truncated
	for _, max := range []int{0, -1} {
		for _, l := range []int{496, 503, 504, 505, 512, 600, 1024, 5000} {
			for _, k := range []int{1000000, 512, 100, 7} {
				if l > 1024 && k < 100 {
					continue
				}
				for _, cutTail := range []int{0, 1, 300} {
					val := make([]byte, l)
					for i := range val {
						val[i] = byte(i*13 + 5)
					}
					b := &c07builder{}
					b.msg(0x42000A, val)
					b.msg(0x42000B, []byte{1, 2})
					if cutTail > 0 {
						b.cut(8 + c07padded(l) - cutTail)
					}
					add(b.mk("D-grow", max, c07uniform(k, 8+l/k+4, k == 7), 0))
				}
			}
		}
	}
	// E. random streams and random schedules (including faults and empty reads)
	nrand := c.Pick(2500, 40000)
	for i := 0; i < nrand; i++ {
		r := c.Rng.Fork(uint64(1000 + i))
		b := &c07builder{}
		max := []int{-1, 0, 64, 512, MiB}[r.Intn(5)]
		nit := r.Intn(5)
		for j := 0; j < nit; j++ {
			var l int
			switch r.Intn(8) {
			case 0:
				l = 0
			case 1:
				l = 480 + r.Intn(80)
			default:
				l = r.Intn(41)
			}
			val := r.Bytes(l)
			tag := uint32(0x420000 + r.Intn(200))
			switch {
			case r.Chance(1, 8):
				b.badtype(tag, []byte{0, 11, 12, 255}[r.Intn(4)], val)
			case max > 0 && 8+c07padded(l) > max:
				b.oversize(tag, uint32(l), 8*r.Intn(4))
				j = nit
			case max > 0 && r.Chance(1, 10):
				b.oversize(tag, uint32(max-7+r.Intn(4000)), 8*r.Intn(4))
				j = nit
			default:
				b.msg(tag, val)
			}
		}
		if r.Chance(1, 3) && len(b.data) > 0 {
			b.cut(r.Intn(len(b.data)))
		}
		ns := r.Intn(40)
		pool := []int{1, 1, 2, 3, 4, 5, 7, 8, 9, 15, 16, 17, 64, 1000}
		faulty := r.Chance(1, 4)
		var sched []c07ans
		for j := 0; j < ns; j++ {
			a := c07ans{K: pool[r.Intn(len(pool))], Attach: r.Bool()}
			if faulty && r.Chance(1, 6) {
				switch r.Intn(3) {
				case 0:
					a = c07ans{K: 0} // (0, nil)
				case 1:
					a = c07ans{Fault: true, K: pool[r.Intn(len(pool))], E: 1 + r.Intn(3)}
				default:
					a = c07ans{Fault: true, K: 0, E: 1 + r.Intn(3)}
				}
			}
			sched = append(sched, a)
		}
		add(b.mk("E-random", max, sched, []int{0, 0, 2}[r.Intn(3)]))
	}
	// F. standard-library transports
	for _, kind := range []string{"bytes", "onebyte", "half", "dataerr", "dataerr-onebyte", "timeout", "tls12", "tls12:8,8", "tls12:3", "tls12:16,24"} {
		for _, max := range []int{-1, MiB} {
			for _, cut := range []int{-1, 20, 8, 3} {
				b := &c07builder{}
				b.msg(0x420001, []byte{1, 2, 3})
				b.msg(0x420002, []byte{1, 2, 3, 4, 5, 6, 7, 8, 9})
				if cut >= 0 {
					b.cut(cut)
				}
				cs := b.mk("F-std", max, nil, 0)
				cs.Std = kind
				add(cs)
			}
		}
	}
	return cases
}

func c07caseFromReplay(m map[string]any) (c07case, error) {
	var cs c07case
	cs.Family, _ = m["family"].(string)
	if v, ok := m["max"].(float64); ok {
		cs.Max = int(v)
	}
	cs.Data, _ = m["data"].(string)
	d, err := hex.DecodeString(cs.Data)
	if err != nil {
		return cs, err
	}
	cs.data = d
	if v, ok := m["end"].(float64); ok {
		cs.End = int(v)
	}
	cs.Std, _ = m["std"].(string)
	cs.NoRow, _ = m["norow"].(bool)
	if l, ok := m["sched"].([]any); ok {
		for _, x := range l {
			am, _ := x.(map[string]any)
			var a c07ans
			if v, ok := am["fault"].(bool); ok {
				a.Fault = v
			}
			if v, ok := am["k"].(float64); ok {
				a.K = int(v)
			}
			if v, ok := am["attach"].(bool); ok {
				a.Attach = v
			}
			if v, ok := am["e"].(float64); ok {
				a.E = int(v)
			}
			cs.Sched = append(cs.Sched, a)
		}
	}
	if l, ok := m["items"].([]any); ok {
		for _, x := range l {
			im, _ := x.(map[string]any)
			var it c07item
			it.Kind, _ = im["kind"].(string)
			if v, ok := im["len"].(float64); ok {
				it.Len = int(v)
			}
			if v, ok := im["announced"].(float64); ok {
				it.Announced = int(v)
			}
			cs.Items = append(cs.Items, it)
		}
	}
	return cs, nil
}

// ---------------------------------------------------------------- driver

func driveC07(c *h.Ctx) error {
	c.Rule("transport oracles replayed against the real ttlv.Stream.Recv (instrumented io.ReadWriteCloser recording every Read request, bytes consumed, allocation): " +
		"A. all 128 chunkings of the 8 header bytes and all 128 chunkings of an 8-byte body, each with and without the end error attached to the last bytes; " +
		"B. a 3-message stream cut at each of its 49 offsets x 10 uniform chunk sizes x error attached or not x EOF / other end error; " +
		"C. announced lengths within -17..+9 of each limit in {16,24,64,1024,1 MiB} and 2^31-1, 2^31, 2^32-8, 2^32-7, 2^32-1, under 5 header chunkings; " +
		"D. no limit: messages around and above the initial 512-byte buffer, whole and truncated; " +
		"E. random streams (messages, undecodable frames, oversize headers, cuts) under random schedules incl. (0,nil) reads and mid-stream errors; " +
		"F. standard transports (bytes.Reader, iotest One-byte/Half/DataErr/Timeout readers, crypto/tls 1.2 with close_notify behind the data). " +
		"A case is non-trivial when some message is not delivered by exactly one read per phase (header, body) or the stream is cut / oversize / faulty; distinct by (max, bytes, schedule, end error, transport)")
	var cases []c07case
	if c.Replay != nil {
		m, _ := c.Replay["case"].(map[string]any)
		if m == nil {
			return fmt.Errorf("replay file has no case")
		}
		cs, err := c07caseFromReplay(m)
		if err != nil {
			return err
		}
		cases = append(cases, cs)
	} else {
		cases = c07gen(c)
	}
	var rows []string
	for i := range cases {
		cs := &cases[i]
		var src c07src
		if cs.Std != "" {
			r, err := c07stdReader(cs.Std, cs.data)
			if err != nil {
				return fmt.Errorf("std transport %s: %w", cs.Std, err)
			}
			src = &c07rec{r: r}
		} else {
			src = &c07tr{rest: append([]byte(nil), cs.data...), end: cs.End, sched: cs.Sched}
		}
		items0 := append([]c07item(nil), cs.Items...)
		obs, fails := c07run(cs, src)
		cs.Items = items0
		key := fmt.Sprintf("%d|%s|%v|%d|%s", cs.Max, cs.Data, cs.Sched, cs.End, cs.Std)
		nontrivial := len(cs.Sched) > 0 || cs.Std != ""
		for _, it := range cs.Items {
			if it.Kind != "msg" {
				nontrivial = true
			}
		}
		c.Eval(key, nontrivial)
		c.Count("family:" + cs.Family)
		for _, o := range obs {
			c.Count(fmt.Sprintf("recv-outcome:%s", []string{"message", "library-error", "transport-error", "?", "unexpected-eof", "panic", "other"}[o.class]))
			for _, t := range o.trace {
				if t.n > 0 && t.err != nil {
					c.Count("read:data-with-error")
				} else if t.n == 0 && t.err == nil {
					c.Count("read:zero-nil")
				}
			}
		}
		for _, it := range cs.Items {
			c.Count("item:" + it.Kind)
		}
		caseJSON := map[string]any{"family": cs.Family, "max": cs.Max, "data": cs.Data, "sched": cs.Sched, "end": cs.End, "items": cs.Items, "std": cs.Std, "norow": cs.NoRow}
		if i%1201 == 0 || (cs.Std == "tls12" && cs.Max < 0 && len(cs.data) == 32) {
			sm := map[string]any{"case": caseJSON}
			var outs []string
			for _, o := range obs {
				outs = append(outs, fmt.Sprintf("class=%d code=%d msg=%x reads=%v", o.class, o.code, o.payload, c07traceStr(o.trace)))
			}
			sm["observed"] = outs
			c.Sample(sm)
		}
		for _, f := range fails {
			c.Fail(f[0], f[1], caseJSON)
		}
		// row for the model
		if cs.NoRow {
			c.Count("no-model-row")
			continue
		}
		sched := cs.Sched
		end := cs.End
		if cs.Std != "" {
			var all []c07read
			for _, o := range obs {
				all = append(all, o.trace...)
			}
			sched = c07schedFromTrace(all, len(cs.data), &end)
		}
		ol := make([]string, len(obs))
		for j, o := range obs {
			ol[j] = c07coqObs(o)
		}
		rows = append(rows, fmt.Sprintf("(%s, %s, %s, %d, %s)", h.Z(int64(cs.Max)), h.Bytes(cs.data), c07coqSched(sched), end, h.List(ol)))
		c.IndexCase("mism_recv", len(rows)-1, caseJSON)
	}
	if c.Replay == nil {
		c.Extra("note_32bit", "the driver runs on a 64-bit Go int; the model's W=32 instance is exercised only inside Rocq")
	}
	var sb strings.Builder
	sb.WriteString("From Coq Require Import ZArith List Bool.\nFrom KV Require Import Base Stream Cases.\nImport ListNotations.\nOpen Scope Z_scope.\n")
	defs, expr := h.Chunk("rows", "Z * list Z * list ans * Z * list (Z * Z * list Z * list (Z * Z) * Z * Z)", rows, 200)
	sb.WriteString(defs)
	sb.WriteString(`
(* UnmarshalTTLV into ttlv.Value followed by MarshalTTLV, on the frames the generator emits:
   byte strings with zero padding decode and re-encode to themselves, types 0 and > 10 are rejected. *)
Definition um (f : list Z) : res (list Z) := if nth 3 f (-1) =? 8 then Ok f else Err.
Definition obs := (Z * Z * list Z * list (Z * Z) * Z * Z)%type.
Definition proj (r : rres (list Z)) : Z * Z * list Z :=
  match r_out r with
  | RMsg (Ok f) => (0, 0, f)
  | RMsg Err => (1, 0, [])
  | RMsg Panic => (5, 0, [])
  | RMsg OutOfFuel => (9, 0, [])
  | RErr e => (2, e, [])
  | RTooBig => (1, 0, [])
  | RZero true => (4, 0, [])
  | RZero false => (2, 0, [])
  | RPanic => (5, 0, [])
  | RFuel => (9, 0, [])
  end.
Definition pair_eqb (a b : Z * Z) : bool := (fst a =? fst b) && (snd a =? snd b).
Definition obs_ok (r : rres (list Z)) (o : obs) : bool :=
  match o with (c, e, p, tr, rest, grew) =>
    match proj r with (c', e', p') =>
      (c =? c') && (e =? e') && zlist_eqb p p' && list_eqb pair_eqb tr (r_trace r)
      && ((rest =? -1) || (rest =? len (t_rest (r_tr r))))
      && (if grew =? 2 then true else if grew =? 1 then 512 <? r_cap r else r_cap r =? 512)
    end
  end.
Fixpoint all2 {A B} (f : A -> B -> bool) (a : list A) (b : list B) : bool :=
  match a, b with
  | [], [] => true
  | x :: xs, y :: ys => f x y && all2 f xs ys
  | _, _ => false
  end.
Definition row_ok (row : Z * list Z * list ans * Z * list obs) : bool :=
  match row with (max, data, sched, e, ol) =>
    all2 obs_ok (recv_n (list Z) um 64 max (length ol) (mkTr data e sched)) ol
  end.
`)
	fmt.Fprintf(&sb, "Definition mism_recv := Eval vm_compute in bad_idx row_ok %s 0.\nPrint mism_recv.\n", expr)
	return c.WriteCases("cases_C07.v", sb.String(), len(rows))
}

func c07traceStr(t []c07read) string {
	var s []string
	for _, c := range t {
		e := ""
		if c.err != nil {
			e = "+err"
		}
		s = append(s, fmt.Sprintf("%d/%d%s", c.n, c.want, e))
	}
	return strings.Join(s, " ")
}
