package main

// Scenario engine shared by the C08 and C16 drivers: a real kmipserver.Server on an in-memory
// listener, scripted raw clients, scripted operation handlers, observation of responses, hook
// and handler events, goroutine leaks and process liveness.  Scenarios run in child processes
// (a panic in a connection goroutine kills the whole process: that is the observation).

import (
	"bufio"
	"bytes"
	"context"
	"crypto/ecdsa"
	"crypto/elliptic"
	"crypto/rand"
	"crypto/tls"
	"crypto/x509"
	"crypto/x509/pkix"
	"encoding/json"
	"errors"
	"fmt"
	"io"
	"log/slog"
	"math/big"
	"net"
	"os"
	"os/exec"
	"runtime"
	"strconv"
	"strings"
	"sync"
	"sync/atomic"
	"time"

	"github.com/ovh/kmip-go"
	"github.com/ovh/kmip-go/kmipserver"
	"github.com/ovh/kmip-go/payloads"
	"github.com/ovh/kmip-go/ttlv"

	"verifharness/internal/memnet"
)

// ---------------------------------------------------------------- scenario description

type srvStep struct {
	Op    string   `json:"op"`              // req resp enc plain part rest read close half waith release park waitpark unpark settle shutdown waitshutdown
	Items []string `json:"items,omitempty"` // req/part: one handler behaviour per batch item
	Arg   int      `json:"arg,omitempty"`   // enc/plain: variant; part: number of bytes
}

type srvConn struct {
	TLS      string    `json:"tls,omitempty"` // "", "ok", "fail"
	HookFail bool      `json:"hook_fail,omitempty"`
	Sync     bool      `json:"sync,omitempty"` // tiny server->client buffer
	HookSlow   bool    `json:"hook_slow,omitempty"`   // the connect hook waits for "releasehook"
	ParkAccept bool    `json:"park_accept,omitempty"` // hold Serve between Accept and wg.Add for this connection (hook)
	Steps    []srvStep `json:"steps"`
}

type srvScenario struct {
	Conns   []srvConn `json:"conns"`
	NoProbe bool      `json:"no_probe,omitempty"`
	AcceptErr bool    `json:"accept_err,omitempty"` // after the scripts: make Accept fail with a non-closed error
}

type srvObs struct {
	K     string   `json:"k"`               // res eof blocked
	ID    int      `json:"id"`              // UniqueBatchItemID of the first item (-1: none)
	Inval bool     `json:"inval,omitempty"` // the single-item invalid-message response of handleMessageError
	Items [][2]int `json:"items,omitempty"` // (ResultStatus, ResultReason) per item
}

type srvConnResult struct {
	Got    []srvObs `json:"got"`
	Events []string `json:"events"` // hookok hookfail hstart hend termhook, in order
	Err    string   `json:"err,omitempty"`
	DoneMs int      `json:"done_ms,omitempty"` // time the script took (scenarios with a silent peer only)
}

type srvResult struct {
	Conns       []srvConnResult `json:"conns"`
	Crashed     bool            `json:"crashed,omitempty"`
	CrashMsg    string          `json:"crash_msg,omitempty"`
	Leak        []string        `json:"leak,omitempty"`       // goroutines of ended connections still alive
	ProbeOK     bool            `json:"probe_ok"`             // a fresh connection is still served afterwards
	ServeErr    string          `json:"serve_err,omitempty"`  // what Serve returned
	ShutdownRan bool            `json:"shutdown_ran,omitempty"`
	SdLate      []string        `json:"sd_late,omitempty"`    // events observed after Shutdown returned
	SdListener  bool            `json:"sd_listener_closed,omitempty"`
	SdRunning   int             `json:"sd_running,omitempty"` // handlers in progress when Shutdown returned
	SdOpen      int             `json:"sd_open,omitempty"`     // accepted connections whose server end was still open 300 ms after Shutdown returned
	Sd2Ran      bool            `json:"sd2_ran,omitempty"`     // a SECOND Shutdown call was made while the first was in progress
	Sd2Running  int             `json:"sd2_running,omitempty"` // handlers in progress when that second call returned
	Sd2Hang     bool            `json:"sd2_hang,omitempty"`
	SdMs        int             `json:"sd_ms,omitempty"`
	Hang        bool            `json:"hang,omitempty"`
	Spawned     int             `json:"spawned"` // connections for which handleConn ran (any event or server-side close by handleConn)
}

// ---------------------------------------------------------------- message construction

func srvReqBytes(id int, items []string) []byte {
	msg := kmip.RequestMessage{Header: kmip.RequestHeader{ProtocolVersion: kmip.V1_4, BatchCount: int32(len(items)),
		ClientCorrelationValue: strconv.Itoa(id)}}
	for j, b := range items {
		bi := kmip.RequestBatchItem{Operation: kmip.OperationActivate, UniqueBatchItemID: []byte{byte(id), byte(j)},
			RequestPayload: &payloads.ActivateRequestPayload{UniqueIdentifier: b}}
		switch {
		case b == "noroute":
			bi.Operation = kmip.OperationRevoke
			bi.RequestPayload = &payloads.RevokeRequestPayload{UniqueIdentifier: "x"}
		case b == "critical":
			bi.MessageExtension = &kmip.MessageExtension{VendorIdentification: "v", CriticalityIndicator: true,
				VendorExtension: ttlv.Struct{}}
		}
		msg.BatchItem = append(msg.BatchItem, bi)
	}
	return ttlv.MarshalTTLV(&msg)
}

func srvRespBytes() []byte {
	msg := kmip.ResponseMessage{Header: kmip.ResponseHeader{ProtocolVersion: kmip.V1_4, TimeStamp: time.Unix(1, 0), BatchCount: 1},
		BatchItem: []kmip.ResponseBatchItem{{Operation: kmip.OperationActivate, ResultStatus: kmip.ResultStatusSuccess,
			ResponsePayload: &payloads.ActivateResponsePayload{UniqueIdentifier: "x"}}}}
	return ttlv.MarshalTTLV(&msg)
}

const srvEncVariants = 6
const srvPlainVariants = 2

// framed, undecodable with a ttlv.ErrEncoding
func srvEncBytes(variant int) []byte {
	switch variant % srvEncVariants {
	case 0: // a well-formed TTLV item that is not a message
		enc := ttlv.NewTTLVEncoder()
		enc.TextString(0x420001, "foobar")
		return enc.Bytes()
	case 1: // declared length over the 1 MB limit
		return []byte{0x42, 0x00, 0x78, 0x01, 0x00, 0x20, 0x00, 0x00}
	case 2: // request message whose header is a text string
		enc := ttlv.NewTTLVEncoder()
		enc.Struct(kmip.TagRequestMessage, func(e *ttlv.Encoder) {
			e.TextString(kmip.TagRequestHeader, "not a header")
		})
		return enc.Bytes()
	case 4: // the last item of the innermost structure (the minor version) is not padded; every enclosing length is consistent with that
		return []byte{0x42, 0x00, 0x78, 0x01, 0, 0, 0, 44,
			0x42, 0x00, 0x77, 0x01, 0, 0, 0, 36,
			0x42, 0x00, 0x69, 0x01, 0, 0, 0, 28,
			0x42, 0x00, 0x6A, 0x02, 0, 0, 0, 4, 0, 0, 0, 1, 0, 0, 0, 0,
			0x42, 0x00, 0x6B, 0x02, 0, 0, 0, 4, 0, 0, 0, 4,
			0, 0, 0, 0}
	case 5: // a message under the Response Message tag whose content does not decode (its header is a text string)
		enc := ttlv.NewTTLVEncoder()
		enc.Struct(kmip.TagResponseMessage, func(e *ttlv.Encoder) {
			e.TextString(kmip.TagResponseHeader, "not a header")
		})
		return enc.Bytes()
	default: // request message with a missing batch item payload and a wrong batch count type
		enc := ttlv.NewTTLVEncoder()
		enc.Struct(kmip.TagRequestMessage, func(e *ttlv.Encoder) {
			e.Struct(kmip.TagRequestHeader, func(e *ttlv.Encoder) {
				e.Struct(kmip.TagProtocolVersion, func(e *ttlv.Encoder) {
					e.Integer(kmip.TagProtocolVersionMajor, 1)
					e.Integer(kmip.TagProtocolVersionMinor, 4)
				})
				e.TextString(kmip.TagBatchCount, "one")
			})
		})
		return enc.Bytes()
	}
}

// framed, undecodable with an error that is not a ttlv.ErrEncoding
func srvPlainBytes(variant int) []byte {
	switch variant % srvPlainVariants {
	case 0: // credential of an unsupported type
		msg := kmip.RequestMessage{Header: kmip.RequestHeader{ProtocolVersion: kmip.V1_4, BatchCount: 1,
			Authentication: &kmip.Authentication{Credential: kmip.Credential{CredentialType: kmip.CredentialType(0x99),
				CredentialValue: kmip.CredentialValue{UserPassword: &kmip.CredentialValueUserPassword{Username: "u", Password: "p"}}}}},
			BatchItem: []kmip.RequestBatchItem{{Operation: kmip.OperationActivate,
				RequestPayload: &payloads.ActivateRequestPayload{UniqueIdentifier: "ok"}}}}
		return ttlv.MarshalTTLV(&msg)
	default: // additional credential of an unsupported type
		good := kmip.Credential{CredentialType: kmip.CredentialTypeUsernameAndPassword,
			CredentialValue: kmip.CredentialValue{UserPassword: &kmip.CredentialValueUserPassword{Username: "u", Password: "p"}}}
		bad := good
		bad.CredentialType = kmip.CredentialType(0x77)
		msg := kmip.RequestMessage{Header: kmip.RequestHeader{ProtocolVersion: kmip.V1_4, BatchCount: 1,
			Authentication: &kmip.Authentication{Credential: good, AdditionalCredential: []kmip.Credential{bad}}},
			BatchItem: []kmip.RequestBatchItem{{Operation: kmip.OperationActivate,
				RequestPayload: &payloads.ActivateRequestPayload{UniqueIdentifier: "ok"}}}}
		return ttlv.MarshalTTLV(&msg)
	}
}

// ---------------------------------------------------------------- scripted handlers

type srvStringer struct{}

func (srvStringer) String() string { return "stringer panic value" }

type srvConnCtl struct {
	idx      int
	mu       sync.Mutex
	events   []string
	entered  chan struct{} // a gated handler is waiting
	release  chan struct{} // closed by the script
	relOnce  sync.Once
	hookEntered chan struct{}
	hookRelease chan struct{}
	hookOnce    sync.Once
	running  atomic.Int32
	srvEnd   atomic.Value // <-chan struct{}: closed when the server closed its end of the socket
}

func (cc *srvConnCtl) event(e string, late *srvLate) {
	cc.mu.Lock()
	cc.events = append(cc.events, e)
	cc.mu.Unlock()
	if late != nil {
		late.note(fmt.Sprintf("conn%d:%s", cc.idx, e))
	}
}

type srvLate struct {
	mu       sync.Mutex
	returned bool
	late     []string
}

func (l *srvLate) note(e string) {
	l.mu.Lock()
	if l.returned {
		l.late = append(l.late, e)
	}
	l.mu.Unlock()
}

type srvWorld struct {
	conns []*srvConnCtl
	late  *srvLate
}

type srvCtxKey struct{}

func (w *srvWorld) ctl(ctx context.Context) *srvConnCtl {
	if cc, ok := ctx.Value(srvCtxKey{}).(*srvConnCtl); ok {
		return cc
	}
	addr := kmipserver.RemoteAddr(ctx)
	if i, err := strconv.Atoi(strings.TrimPrefix(addr, "c")); err == nil && i >= 0 && i < len(w.conns) {
		return w.conns[i]
	}
	return nil
}

func (w *srvWorld) activate(ctx context.Context, req *payloads.ActivateRequestPayload) (*payloads.ActivateResponsePayload, error) {
	b := req.UniqueIdentifier
	ok := &payloads.ActivateResponsePayload{UniqueIdentifier: b}
	switch {
	case b == "ok":
		return ok, nil
	case b == "slow" || b == "slowi":
		cc := w.ctl(ctx)
		if cc == nil {
			return ok, nil
		}
		select {
		case cc.entered <- struct{}{}:
		default:
		}
		if b == "slow" {
			select {
			case <-cc.release:
			case <-ctx.Done():
			}
		} else {
			<-cc.release
		}
		return ok, nil
	case strings.HasPrefix(b, "typed:"):
		r, _ := strconv.Atoi(b[6:])
		return nil, kmipserver.Errorf(kmip.ResultReason(r), "typed failure")
	case b == "plain":
		return nil, errors.New("plain failure")
	case strings.HasPrefix(b, "ptyped:"):
		r, _ := strconv.Atoi(b[7:])
		panic(kmipserver.Errorf(kmip.ResultReason(r), "typed panic"))
	case b == "perr":
		panic(errors.New("error panic"))
	case b == "pruntime":
		var m map[string]int
		m["x"] = 1 // runtime error (an error value)
		return ok, nil
	case b == "pnil":
		var p *payloads.ActivateResponsePayload
		_ = p.UniqueIdentifier // nil dereference
		return ok, nil
	case b == "pstr":
		panic("string panic")
	case b == "pstringer":
		panic(srvStringer{})
	case b == "pother":
		panic(42)
	}
	return ok, nil
}

// reqHandler wraps the batch executor to record request-level handler events.
type srvReqHandler struct {
	w     *srvWorld
	inner kmipserver.RequestHandler
}

func (h srvReqHandler) HandleRequest(ctx context.Context, req *kmip.RequestMessage) *kmip.ResponseMessage {
	cc := h.w.ctl(ctx)
	if cc != nil {
		cc.running.Add(1)
		cc.event("hstart", h.w.late)
		defer func() {
			cc.event("hend", h.w.late)
			cc.running.Add(-1)
		}()
	}
	return h.inner.HandleRequest(ctx, req)
}

// ---------------------------------------------------------------- yield point control (hook 3)

type srvYield struct {
	mu     sync.Mutex
	armed  bool
	point  string
	parked chan struct{}
	resume chan struct{}
}

var srvY srvYield

func srvYieldFn(point string) {
	srvY.mu.Lock()
	if !srvY.armed || srvY.point != point {
		srvY.mu.Unlock()
		return
	}
	srvY.armed = false
	parked, resume := srvY.parked, srvY.resume
	srvY.mu.Unlock()
	close(parked)
	select {
	case <-resume:
	case <-time.After(5 * time.Second):
	}
}

func srvArm(point string) {
	srvY.mu.Lock()
	srvY.armed = true
	srvY.point = point
	srvY.parked = make(chan struct{})
	srvY.resume = make(chan struct{})
	srvY.mu.Unlock()
}

// ---------------------------------------------------------------- TLS material

var srvTLSOnce sync.Once
var srvTLSConf *tls.Config

func srvTLS() *tls.Config {
	srvTLSOnce.Do(func() {
		key, _ := ecdsa.GenerateKey(elliptic.P256(), rand.Reader)
		tmpl := &x509.Certificate{SerialNumber: big.NewInt(1), Subject: pkix.Name{CommonName: "mem"},
			NotBefore: time.Now().Add(-time.Hour), NotAfter: time.Now().Add(time.Hour), DNSNames: []string{"mem"}}
		der, _ := x509.CreateCertificate(rand.Reader, tmpl, tmpl, &key.PublicKey, key)
		srvTLSConf = &tls.Config{Certificates: []tls.Certificate{{Certificate: [][]byte{der}, PrivateKey: key}}}
	})
	return srvTLSConf
}

// ---------------------------------------------------------------- running one scenario

const srvBlockedTimeout = 500 * time.Millisecond

func srvGoroutines() []string {
	buf := make([]byte, 1<<17)
	n := runtime.Stack(buf, true)
	var out []string
	for _, g := range strings.Split(string(buf[:n]), "\n\n") {
		for _, name := range []string{"kmipserver.(*conn).readloop", "kmipserver.(*conn).writeloop", "kmipserver.(*Server).handleConn"} {
			if strings.Contains(g, name+"(") || strings.Contains(g, name+"\n") {
				// the frame in which it is blocked
				lines := strings.Split(g, "\n")
				where := ""
				for _, l := range lines[1:] {
					if strings.HasPrefix(l, "github.com/ovh/kmip-go/kmipserver.") {
						where = strings.TrimPrefix(l, "github.com/ovh/kmip-go/kmipserver.")
						if i := strings.Index(where, "("); i > 0 && !strings.HasPrefix(where, "(") {
							where = where[:i]
						}
						break
					}
				}
				state := lines[0]
				if i := strings.Index(state, "["); i >= 0 {
					state = strings.TrimSuffix(state[i:], ":")
					if j := strings.Index(state, ","); j > 0 {
						state = state[:j] + "]"
					}
				}
				short := name[strings.LastIndex(name, ".")+1:]
				out = append(out, short+" "+state+" in "+where)
				break
			}
		}
	}
	return out
}

func srvWaitNoGoroutines(d time.Duration) []string {
	deadline := time.Now().Add(d)
	pause := 200 * time.Microsecond
	for {
		g := srvGoroutines()
		if len(g) == 0 || time.Now().After(deadline) {
			return g
		}
		time.Sleep(pause)
		if pause < 20*time.Millisecond {
			pause *= 2
		}
	}
}

func srvDecodeResp(r *kmip.ResponseMessage) srvObs {
	o := srvObs{K: "res", ID: -1}
	for i, bi := range r.BatchItem {
		if i == 0 && len(bi.UniqueBatchItemID) > 0 {
			o.ID = int(bi.UniqueBatchItemID[0])
		}
		o.Items = append(o.Items, [2]int{int(bi.ResultStatus), int(bi.ResultReason)})
	}
	if len(r.BatchItem) == 1 && r.BatchItem[0].Operation == 0 && len(r.BatchItem[0].UniqueBatchItemID) == 0 &&
		r.BatchItem[0].ResultStatus == kmip.ResultStatusOperationFailed && r.BatchItem[0].ResultReason == kmip.ResultReasonInvalidMessage {
		o.Inval = true
	}
	return o
}

type srvReadRes struct {
	obs srvObs
}

func srvRunScenario(sc srvScenario) (res srvResult) {
	kmipserver.SetVerifYield(srvYieldFn)
	w := &srvWorld{late: &srvLate{}}
	for i := range sc.Conns {
		w.conns = append(w.conns, &srvConnCtl{idx: i, entered: make(chan struct{}, 16), release: make(chan struct{}),
			hookEntered: make(chan struct{}, 1), hookRelease: make(chan struct{})})
	}
	exec := kmipserver.NewBatchExecutor()
	exec.Route(kmip.OperationActivate, kmipserver.HandleFunc(w.activate))
	ln := memnet.NewListener()
	srv := kmipserver.NewServer(ln, srvReqHandler{w: w, inner: exec})
	hookFail := map[int]bool{}
	for i, c := range sc.Conns {
		hookFail[i] = c.HookFail
	}
	srv.WithConnectHook(func(ctx context.Context) (context.Context, error) {
		cc := w.ctl(ctx)
		if cc == nil {
			return ctx, nil // probe connection
		}
		if sc.Conns[cc.idx].HookSlow {
			select {
			case cc.hookEntered <- struct{}{}:
			default:
			}
			select {
			case <-cc.hookRelease:
			case <-time.After(6 * time.Second):
			}
		}
		if hookFail[cc.idx] {
			cc.event("hookfail", w.late)
			return nil, errors.New("connect hook refuses")
		}
		cc.event("hookok", w.late)
		return context.WithValue(ctx, srvCtxKey{}, cc), nil
	})
	srv.WithTerminateHook(func(ctx context.Context) {
		if cc := w.ctl(ctx); cc != nil {
			cc.event("termhook", w.late)
		}
	})
	serveDone := make(chan error, 1)
	go func() { serveDone <- srv.Serve() }()

	var sdMu sync.Mutex
	var sdDone chan struct{}
	shutdown := func() {
		sdMu.Lock()
		defer sdMu.Unlock()
		if sdDone != nil {
			return
		}
		sdDone = make(chan struct{})
		res.ShutdownRan = true
		go func(done chan struct{}) {
			t0 := time.Now()
			_ = srv.Shutdown()
			running := 0
			for _, cc := range w.conns {
				running += int(cc.running.Load())
			}
			w.late.mu.Lock()
			w.late.returned = true
			w.late.mu.Unlock()
			res.SdRunning = running
			// (a goroutine of the connection may still be closing the socket at this very instant: allow it 300 ms)
			for _, cc := range w.conns {
				if ch, ok := cc.srvEnd.Load().(<-chan struct{}); ok {
					select {
					case <-ch:
					case <-time.After(300 * time.Millisecond):
						res.SdOpen++
					}
				}
			}
			res.SdMs = int(time.Since(t0) / time.Millisecond)
			close(done)
		}(sdDone)
	}
	// a second, concurrent Shutdown call: whenever ANY Shutdown call returns, no handler runs
	sd2Done := make(chan struct{})
	var sd2Once sync.Once
	shutdown2 := func() {
		sd2Once.Do(func() {
			res.Sd2Ran = true
			go func() {
				defer close(sd2Done)
				_ = srv.Shutdown()
				running := 0
				for _, cc := range w.conns {
					running += int(cc.running.Load())
				}
				res.Sd2Running = running
			}()
		})
	}
	waitShutdown := func() {
		sdMu.Lock()
		d := sdDone
		sdMu.Unlock()
		if d != nil {
			select {
			case <-d:
			case <-time.After(8 * time.Second):
				res.Hang = true
			}
		}
	}

	res.Conns = make([]srvConnResult, len(sc.Conns))
	var wg sync.WaitGroup
	for i := range sc.Conns {
		wg.Add(1)
		go func(i int) {
			defer wg.Done()
			res.Conns[i] = srvRunConn(i, sc.Conns[i], ln, w.conns[i], shutdown, waitShutdown, shutdown2)
		}(i)
	}
	scriptsDone := make(chan struct{})
	go func() { wg.Wait(); close(scriptsDone) }()
	select {
	case <-scriptsDone:
	case <-time.After(20 * time.Second):
		res.Hang = true
		return res
	}
	for _, cc := range w.conns {
		cc.relOnce.Do(func() { close(cc.release) })
		cc.hookOnce.Do(func() { close(cc.hookRelease) })
	}
	if sc.AcceptErr {
		ln.InjectAcceptError(errors.New("accept failed: too many open files"))
		time.Sleep(2 * time.Millisecond)
	}
	// every script has closed its connection: wait until the server side noticed (it closes its
	// end of the socket on every path), so that what follows does not race with connection start-up
	for _, cc := range w.conns {
		if ch, ok := cc.srvEnd.Load().(<-chan struct{}); ok {
			select {
			case <-ch:
			case <-time.After(2 * time.Second):
			}
		}
	}
	// goroutines of ended connections must be gone without any further event
	res.Leak = srvWaitNoGoroutines(2 * time.Second)
	// the server still serves a fresh connection
	sdMu.Lock()
	shut := sdDone != nil
	sdMu.Unlock()
	if !shut && !sc.NoProbe && !sc.AcceptErr {
		res.ProbeOK = srvProbe(ln)
	} else {
		res.ProbeOK = true
	}
	if !shut {
		shutdown()
	}
	waitShutdown()
	if res.Sd2Ran {
		select {
		case <-sd2Done:
		case <-time.After(8 * time.Second):
			res.Sd2Hang = true
		}
	}
	select {
	case err := <-serveDone:
		if err != nil {
			res.ServeErr = err.Error()
			if errors.Is(err, kmipserver.ErrShutdown) {
				res.ServeErr = "ErrShutdown"
			}
		}
	case <-time.After(3 * time.Second):
		res.ServeErr = "serve-did-not-return"
	}
	// listener closed: Dial is refused
	if _, err := ln.Dial(1<<16, 1<<16); err != nil {
		res.SdListener = true
	}
	if l := srvWaitNoGoroutines(2 * time.Second); len(l) > 0 && len(res.Leak) == 0 {
		res.Leak = l
	}
	time.Sleep(time.Millisecond)
	for i, cc := range w.conns {
		cc.mu.Lock()
		res.Conns[i].Events = append([]string{}, cc.events...)
		cc.mu.Unlock()
	}
	w.late.mu.Lock()
	res.SdLate = append([]string{}, w.late.late...)
	w.late.mu.Unlock()
	return res
}

func srvProbe(ln *memnet.Listener) bool {
	c, err := ln.Dial(1<<16, 1<<16)
	if err != nil {
		return false
	}
	defer c.Close()
	ok := make(chan bool, 1)
	go func() {
		if _, err := c.Write(srvReqBytes(200, []string{"ok"})); err != nil {
			ok <- false
			return
		}
		st := ttlv.NewStream(c, 1<<20)
		var r kmip.ResponseMessage
		if err := st.Recv(&r); err != nil {
			ok <- false
			return
		}
		ok <- len(r.BatchItem) == 1 && r.BatchItem[0].ResultStatus == kmip.ResultStatusSuccess
	}()
	select {
	case v := <-ok:
		return v
	case <-time.After(3 * time.Second):
		return false
	}
}

type srvNamedConn struct {
	net.Conn
	name string
}

type srvAddr string

func (a srvAddr) Network() string { return "mem" }
func (a srvAddr) String() string  { return string(a) }

func (c srvNamedConn) RemoteAddr() net.Addr { return srvAddr(c.name) }

func srvRunConn(idx int, cs srvConn, ln *memnet.Listener, cc *srvConnCtl, shutdown, waitShutdown, shutdown2 func()) (out srvConnResult) {
	out.Got = []srvObs{}
	t0 := time.Now()
	defer func() { out.DoneMs = int(time.Since(t0) / time.Millisecond) }()
	toClient := 1 << 20
	if cs.Sync {
		toClient = 8
	}
	name := fmt.Sprintf("c%d", idx)
	if cs.ParkAccept {
		srvArm("srv.serve.accepted")
	}
	raw, err := ln.DialWrapped(1<<20, toClient, func(s net.Conn) net.Conn {
		var sc net.Conn = srvNamedConn{Conn: s, name: name}
		if mc, ok := s.(*memnet.Conn); ok {
			cc.srvEnd.Store(mc.Done())
		}
		if cs.TLS != "" {
			return tls.Server(sc, srvTLS())
		}
		return sc
	})
	if err != nil {
		out.Err = "dial: " + err.Error()
		return
	}
	var conn io.ReadWriteCloser = raw
	var tc *tls.Conn
	switch cs.TLS {
	case "ok":
		tc = tls.Client(raw, &tls.Config{InsecureSkipVerify: true})
		hs := make(chan error, 1)
		go func() { hs <- tc.Handshake() }()
		select {
		case err := <-hs:
			if err != nil {
				out.Err = "handshake: " + err.Error()
				raw.Close()
				return
			}
		case <-time.After(3 * time.Second):
			out.Err = "handshake timeout"
			raw.Close()
			return
		}
		conn = tc
	case "fail":
		// not a TLS client hello
		_, _ = raw.Write([]byte("this is not a TLS handshake, it is plain text\n\n"))
	case "silent":
		// connects and says nothing; "silent3": only the first three bytes of a TLS record
	case "silent3":
		_, _ = raw.Write([]byte{0x16, 0x03, 0x01})
	}
	defer raw.Close()
	var pending []byte // rest of a partially written message
	reads := make(chan srvObs, 1)
	nextID := 0
	for _, st := range cs.Steps {
		switch st.Op {
		case "req":
			_, _ = conn.Write(srvReqBytes(nextID, st.Items))
			nextID++
		case "resp":
			_, _ = conn.Write(srvRespBytes())
		case "enc":
			_, _ = conn.Write(srvEncBytes(st.Arg))
			nextID++
		case "plain":
			_, _ = conn.Write(srvPlainBytes(st.Arg))
			nextID++
		case "part":
			b := srvReqBytes(nextID, st.Items)
			n := st.Arg
			if n < 1 {
				n = 1
			}
			if n >= len(b) {
				n = len(b) - 1
			}
			_, _ = conn.Write(b[:n])
			pending = b[n:]
		case "rest":
			if pending != nil {
				_, _ = conn.Write(pending)
				pending = nil
				nextID++
			}
		case "read":
			go func() {
				stm := ttlv.NewStream(conn, 1<<21)
				var r kmip.ResponseMessage
				if err := stm.Recv(&r); err != nil {
					reads <- srvObs{K: "eof", ID: -1}
					return
				}
				reads <- srvDecodeResp(&r)
			}()
			select {
			case o := <-reads:
				out.Got = append(out.Got, o)
			case <-time.After(srvBlockedTimeout):
				out.Got = append(out.Got, srvObs{K: "blocked", ID: -1})
				// the reader goroutine still holds the connection: stop the script here
				raw.Close()
				<-reads
				return
			}
		case "close":
			if tc != nil {
				_ = tc.Close()
			}
			raw.Close()
		case "half":
			if tc != nil {
				_ = tc.CloseWrite()
			}
			_ = raw.CloseWrite()
		case "waith":
			select {
			case <-cc.entered:
			case <-time.After(2 * time.Second):
				out.Err = "waith timeout"
			}
		case "release":
			cc.relOnce.Do(func() { close(cc.release) })
		case "waithook":
			select {
			case <-cc.hookEntered:
			case <-time.After(2 * time.Second):
				out.Err = "waithook timeout"
			}
		case "releasehook":
			cc.hookOnce.Do(func() { close(cc.hookRelease) })
		case "grace":
			time.Sleep(3300 * time.Millisecond)
		case "park":
			srvArm("srv.send.loaded")
		case "waitpark":
			srvY.mu.Lock()
			p := srvY.parked
			srvY.mu.Unlock()
			if p != nil {
				select {
				case <-p:
				case <-time.After(2 * time.Second):
					out.Err = "waitpark timeout"
				}
			}
		case "unpark":
			srvY.mu.Lock()
			r := srvY.resume
			srvY.armed = false
			srvY.resume = nil
			srvY.mu.Unlock()
			if r != nil {
				close(r)
			}
		case "settle":
			d := st.Arg
			if d <= 0 {
				d = 3
			}
			time.Sleep(time.Duration(d) * time.Millisecond)
		case "shutdown":
			shutdown()
		case "shutdown2":
			shutdown2()
		case "waitshutdown":
			waitShutdown()
		}
	}
	return out
}

// ---------------------------------------------------------------- child processes

const srvChildEnv = "VERIF_SRVSIM_CHILD"

func init() {
	if os.Getenv(srvChildEnv) == "" {
		return
	}
	// child mode: scenarios as JSON lines on stdin, results as JSON lines on stdout
	slog.SetDefault(slog.New(slog.NewTextHandler(io.Discard, nil)))
	in := bufio.NewReaderSize(os.Stdin, 1<<20)
	outw := bufio.NewWriter(os.Stdout)
	for {
		line, err := in.ReadBytes('\n')
		if len(bytes.TrimSpace(line)) > 0 {
			var sc srvScenario
			if jerr := json.Unmarshal(line, &sc); jerr != nil {
				fmt.Fprintln(os.Stderr, "bad scenario:", jerr)
				os.Exit(3)
			}
			r := srvRunScenario(sc)
			b, _ := json.Marshal(r)
			outw.Write(b)
			outw.WriteByte('\n')
			outw.Flush()
		}
		if err != nil {
			break
		}
	}
	os.Exit(0)
}

// srvRunAll runs the scenarios in `par` child processes; a child that dies marks the scenario it
// was running as crashed (with the tail of its stderr) and the rest continues in a new child.
func srvRunAll(scs []srvScenario, par int) []srvResult {
	results := make([]srvResult, len(scs))
	exe, _ := os.Executable()
	var wg sync.WaitGroup
	if par < 1 {
		par = 1
	}
	next := int64(-1)
	chunk := func() (lo, hi int) {
		// hand out chunks of 8 scenarios
		i := int(atomic.AddInt64(&next, 8)) - 7
		if i >= len(scs) {
			return -1, -1
		}
		j := i + 8
		if j > len(scs) {
			j = len(scs)
		}
		return i, j
	}
	for p := 0; p < par; p++ {
		wg.Add(1)
		go func() {
			defer wg.Done()
			for {
				lo, hi := chunk()
				if lo < 0 {
					return
				}
				for lo < hi {
					lo = srvRunChunk(exe, scs, results, lo, hi)
				}
			}
		}()
	}
	wg.Wait()
	return results
}

// srvRunChunk runs scs[lo:hi] in one child; returns the index from which to continue.
func srvRunChunk(exe string, scs []srvScenario, results []srvResult, lo, hi int) int {
	cmd := exec.Command(exe, "child")
	cmd.Env = append(os.Environ(), srvChildEnv+"=1")
	var in bytes.Buffer
	for i := lo; i < hi; i++ {
		b, _ := json.Marshal(scs[i])
		in.Write(b)
		in.WriteByte('\n')
	}
	cmd.Stdin = &in
	var stderr bytes.Buffer
	cmd.Stderr = &stderr
	stdout, _ := cmd.StdoutPipe()
	if err := cmd.Start(); err != nil {
		for i := lo; i < hi; i++ {
			results[i] = srvResult{Crashed: true, CrashMsg: "cannot start child: " + err.Error()}
		}
		return hi
	}
	rd := bufio.NewReaderSize(stdout, 1<<20)
	i := lo
	polluted := false
	for i < hi {
		line, err := rd.ReadBytes('\n')
		if len(bytes.TrimSpace(line)) > 0 {
			var r srvResult
			if json.Unmarshal(line, &r) == nil {
				results[i] = r
				i++
				if len(r.Leak) > 0 || r.Hang {
					// leaked goroutines would be attributed to the following scenarios: fresh process
					polluted = true
					break
				}
			}
		}
		if err != nil {
			break
		}
	}
	done := make(chan struct{})
	go func() { _ = cmd.Wait(); close(done) }()
	if polluted {
		_ = cmd.Process.Kill()
		<-done
		return i
	}
	select {
	case <-done:
	case <-time.After(40 * time.Second):
		_ = cmd.Process.Kill()
		<-done
	}
	if i < hi {
		msg := stderr.String()
		first := ""
		for _, l := range strings.Split(msg, "\n") {
			if strings.HasPrefix(l, "panic:") || strings.HasPrefix(l, "fatal error:") {
				first = l
				break
			}
		}
		if first == "" {
			if len(msg) > 300 {
				msg = msg[len(msg)-300:]
			}
			first = "child died: " + msg
		}
		results[i] = srvResult{Crashed: true, CrashMsg: first}
		i++
	}
	return i
}
