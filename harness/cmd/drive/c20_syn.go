package main

// C20: harness-defined Go types encoded through the reflective codec, their description
// as a model type table, random values and their Gallina form.

import (
	"fmt"
	"reflect"
	"sort"
	"strings"
	"sync"
	"time"

	"github.com/ovh/kmip-go/ttlv"

	"verifharness/internal/h"
)

// c20Ver carries a protocol version (implements ttlv.Version).
type c20Ver struct {
	Maj int32 `ttlv:"0x540001"`
	Min int32 `ttlv:"0x540002"`
}

func (v c20Ver) Major() int { return int(v.Maj) }
func (v c20Ver) Minor() int { return int(v.Min) }

type c20Leafs struct {
	I int32         `ttlv:"0x540010"`
	L int64         `ttlv:"0x540011,omitempty"`
	B bool          `ttlv:"0x540012"`
	S string        `ttlv:"0x540013,omitempty"`
	Y []byte        `ttlv:"0x540014,omitempty"`
	D time.Duration `ttlv:"0x540015,omitempty"`
}

type c20Gated struct {
	A int32     `ttlv:"0x540020,version=1.2.."`
	B string    `ttlv:"0x540021,version=..1.1"`
	C int64     `ttlv:"0x540022,omitempty,version=1.1..1.3"`
	D *c20Leafs `ttlv:"0x540023,version=1.4"`
	E []int32   `ttlv:"0x540024,version=2.0.."`
	F int32     `ttlv:"0x540025"`
}

type c20Hdr struct {
	V c20Ver `ttlv:"0x540030,set-version"`
	N int32  `ttlv:"0x540031,omitempty"`
	G string `ttlv:"0x540032,omitempty,version=1.3.."`
}

type c20Msg struct {
	H     c20Hdr     `ttlv:"0x540040"`
	Items []c20Gated `ttlv:"0x540041"`
	Extra any        `ttlv:"0x540042"`
	Tail  *c20Gated  `ttlv:"0x540043,omitempty"`
}

// c20GatedOld / c20GatedNew: what a c20Gated looks like on the wire under version 1.0 /
// 1.4 (same tags, only the fields of that version). Decoding them into a c20Gated succeeds
// only if the decoder holds such a version: on a new decoder (no version) a field is missing.
type c20GatedOld struct {
	B string `ttlv:"0x540021"`
	F int32  `ttlv:"0x540025"`
}
type c20GatedNew struct {
	A int32     `ttlv:"0x540020"`
	D *c20Leafs `ttlv:"0x540023"`
	F int32     `ttlv:"0x540025"`
}

// c20Plain: a message without interface field (decodable: the reflective decoder cannot
// fill a nil interface).
type c20Plain struct {
	H     c20Hdr     `ttlv:"0x540044"`
	Items []c20Gated `ttlv:"0x540045"`
	Tail  *c20Gated  `ttlv:"0x540046,omitempty"`
}

// c20Late sets the version after its gated fields have been written.
type c20Late struct {
	G c20Gated `ttlv:"0x540050"`
	H c20Hdr   `ttlv:"0x540051"`
	T c20Gated `ttlv:"0x540052"`
}

type c20Tree0 struct {
	X int32 `ttlv:"0x540060"`
}
type c20Tree1 struct {
	A c20Tree0  `ttlv:"0x540061"`
	B *c20Tree0 `ttlv:"0x540062"`
}
type c20Tree2 struct {
	L c20Tree1   `ttlv:"0x540063"`
	R **c20Tree1 `ttlv:"0x540064"`
	K []c20Tree1 `ttlv:"0x540065"`
	P []*c20Leafs `ttlv:"0x540066"`
}

// c20Dyn has an interface field without tag: the tag comes from the dynamic type.
type c20Dyn struct {
	N   int32 `ttlv:"0x540070"`
	Any any
	Z   bool `ttlv:"0x540071"`
}

// c20BadKind: encodeFunc panics ("Unsupported type") after its first field's plan was cached.
type c20BadKind struct {
	T c20Tree0 `ttlv:"0x540080"`
	F float64  `ttlv:"0x540081"`
}

// c20NoTag: "Missing tag for field".
type c20NoTag struct {
	T    c20Tree0 `ttlv:"0x540082"`
	Qzzq int32
}

// c20HoldsBad reaches a failing build through a static field.
type c20HoldsBad struct {
	A c20Tree1   `ttlv:"0x540083"`
	B c20BadKind `ttlv:"0x540084"`
}

var c20RegisterOnce sync.Once

// c20Register adds the default tags of the dynamically tagged harness types (done once,
// before the first encoding: the registries are constant afterwards).
func c20Register() {
	c20RegisterOnce.Do(func() {
		ttlv.RegisterTag("C20DynLeafs", 0x540090, reflect.TypeFor[c20Leafs]())
		ttlv.RegisterTag("C20DynTree1", 0x540091, reflect.TypeFor[c20Tree1]())
	})
}

// ---------------------------------------------------------------- type table

type c20Types struct {
	ids   map[reflect.Type]int
	order []reflect.Type
	defs  map[int]string // Coq tydef
	deps  map[int][]int
}

func newC20Types() *c20Types {
	return &c20Types{ids: map[reflect.Type]int{}, defs: map[int]string{}, deps: map[int][]int{}}
}

var c20VersionIface = reflect.TypeFor[ttlv.Version]()
var c20EncodableIface = reflect.TypeFor[ttlv.TagEncodable]()

func c20CoqVer(maj, min int) string { return fmt.Sprintf("(%s, %s)", h.Z(int64(maj)), h.Z(int64(min))) }

// id returns the model identifier of a Go type, describing it (and what it depends on)
// the first time it is seen. The classification follows encodeFunc's.
func (tt *c20Types) id(t reflect.Type) int {
	if id, ok := tt.ids[t]; ok {
		return id
	}
	id := len(tt.order) + 1
	tt.ids[t] = id
	tt.order = append(tt.order, t)
	tt.defs[id] = "TBad"
	if t.Kind() != reflect.Interface && (t.Implements(c20EncodableIface) || reflect.PointerTo(t).Implements(c20EncodableIface)) {
		panic("c20: custom codecs are not part of the harness type family: " + t.String())
	}
	switch {
	case t == reflect.TypeFor[time.Duration]():
		tt.defs[id] = "TLeaf KDuration"
	case t.Kind() == reflect.Pointer:
		b := t
		for b.Kind() == reflect.Pointer {
			b = b.Elem()
		}
		bid := tt.id(b)
		tt.defs[id] = fmt.Sprintf("TPtr %d", bid)
		tt.deps[id] = []int{bid}
	case t.Kind() == reflect.Int32:
		tt.defs[id] = "TLeaf KInt"
	case t.Kind() == reflect.Int64:
		tt.defs[id] = "TLeaf KLong"
	case t.Kind() == reflect.Bool:
		tt.defs[id] = "TLeaf KBool"
	case t.Kind() == reflect.String:
		tt.defs[id] = "TLeaf KStr"
	case t.Kind() == reflect.Slice && t.Elem().Kind() == reflect.Uint8:
		tt.defs[id] = "TLeaf KByteSlice"
	case t.Kind() == reflect.Slice:
		eid := tt.id(t.Elem())
		tt.defs[id] = fmt.Sprintf("TSlice %d", eid)
		tt.deps[id] = []int{eid}
	case t.Kind() == reflect.Interface:
		tt.defs[id] = "TIface"
	case t.Kind() == reflect.Struct:
		var fs []string
		var deps []int
		bad := false
		for _, vf := range ttlv.VerifPlan(t) {
			if vf.Skipped {
				continue
			}
			ft := t.Field(vf.Index).Type
			if vf.Tag == 0 {
				if ft.Kind() == reflect.Interface {
					fs = append(fs, "FDyn")
				} else {
					fs = append(fs, "FBad")
					bad = true
				}
				continue
			}
			rng := "None"
			if vf.HasRange {
				st, en := "None", "None"
				if vf.StartSet {
					st = h.Some(c20CoqVer(vf.StartMajor, vf.StartMinor))
				}
				if vf.EndSet {
					en = h.Some(c20CoqVer(vf.EndMajor, vf.EndMinor))
				}
				rng = fmt.Sprintf("(Some (%s, %s))", st, en)
			}
			if vf.SetVersion && !ft.Implements(c20VersionIface) {
				panic("c20: set-version on a non-Version harness type")
			}
			fid := tt.id(ft)
			if !bad {
				deps = append(deps, fid)
			}
			fs = append(fs, fmt.Sprintf("FDef (FOpts %d %s %s %s) %d", vf.Tag, h.Bool(vf.OmitEmpty), rng, h.Bool(vf.SetVersion), fid))
		}
		tt.defs[id] = "TStruct " + h.List(fs)
		tt.deps[id] = deps
	}
	return id
}

func (tt *c20Types) coqTable() string {
	var rows []string
	for i := range tt.order {
		rows = append(rows, fmt.Sprintf("(%d, %s)", i+1, tt.defs[i+1]))
	}
	return "Definition tbl : ttable := " + h.List(rows) + ".\n"
}

func (tt *c20Types) coqTags() string {
	var rows []string
	for i, t := range tt.order {
		if tag := ttlv.VerifTagForType(t); tag != 0 {
			rows = append(rows, fmt.Sprintf("(%d, %d)", i+1, tag))
		}
	}
	return "Definition tags : list (Z * Z) := " + h.List(rows) + ".\nDefinition tag_of (ty : Z) : option Z := clookup tags ty.\n"
}

// ---------------------------------------------------------------- values

var c20VerPool = [][2]int32{{1, 0}, {1, 1}, {1, 2}, {1, 3}, {1, 4}, {2, 0}, {0, 9}}

const c20Safe = "abcdefghijklmnopqrstuvwxyz0123456789 _-."

func c20SafeString(r *h.Rand, max int) string {
	n := r.Intn(max + 1)
	var sb strings.Builder
	for i := 0; i < n; i++ {
		sb.WriteByte(c20Safe[r.Intn(len(c20Safe))])
	}
	s := sb.String()
	// the text form is line/colon based and XML trims nothing, but keep the ends non-blank
	return strings.TrimSpace(s)
}

var c20IfaceChoices = []reflect.Type{
	reflect.TypeFor[c20Leafs](), reflect.TypeFor[*c20Leafs](), reflect.TypeFor[c20Gated](), reflect.TypeFor[int32](),
	reflect.TypeFor[c20Tree1](), reflect.TypeFor[c20Hdr](), reflect.TypeFor[string](),
}
var c20DynChoices = []reflect.Type{reflect.TypeFor[c20Leafs](), reflect.TypeFor[c20Tree1](), reflect.TypeFor[*c20Tree1]()}

// c20Gen fills a value of type t. negInterval allows the value that makes every writer panic.
func c20Gen(r *h.Rand, t reflect.Type, depth int, negInterval bool) reflect.Value {
	v := reflect.New(t).Elem()
	switch {
	case t == reflect.TypeFor[time.Duration]():
		secs := []int64{0, 0, 1, 59, 3600, 86400, 1<<31 - 1}[r.Intn(7)]
		if negInterval && r.Chance(1, 3) {
			secs = -1 - int64(r.Intn(100))
		}
		v.SetInt(secs * int64(time.Second))
	case t == reflect.TypeFor[c20Ver]():
		p := c20VerPool[r.Intn(len(c20VerPool))]
		v.Set(reflect.ValueOf(c20Ver{p[0], p[1]}))
	case t.Kind() == reflect.Int32:
		pool := []int64{0, 0, 1, -1, 127, 1<<31 - 1, -(1 << 31), int64(int32(r.U64()))}
		v.SetInt(pool[r.Intn(len(pool))])
	case t.Kind() == reflect.Int64:
		pool := []int64{0, 0, 1, -1, 1 << 52, -(1 << 52), 1<<63 - 1, -(1 << 63), int64(r.U64()), int64(r.Intn(100000))}
		v.SetInt(pool[r.Intn(len(pool))])
	case t.Kind() == reflect.Float64:
		v.SetFloat(1.5)
	case t.Kind() == reflect.Bool:
		v.SetBool(r.Bool())
	case t.Kind() == reflect.String:
		v.SetString(c20SafeString(r, 12))
	case t.Kind() == reflect.Slice && t.Elem().Kind() == reflect.Uint8:
		n := []int{0, 0, 1, 7, 8, 9, 16, 17}[r.Intn(8)]
		if n > 0 {
			v.SetBytes(r.Bytes(n))
		}
	case t.Kind() == reflect.Slice:
		n := r.Intn(4)
		if depth <= 0 {
			n = r.Intn(2)
		}
		for i := 0; i < n; i++ {
			v = reflect.Append(v, c20Gen(r, t.Elem(), depth-1, negInterval))
		}
	case t.Kind() == reflect.Pointer:
		if r.Chance(1, 3) {
			return v // nil
		}
		p := reflect.New(t.Elem())
		p.Elem().Set(c20Gen(r, t.Elem(), depth-1, negInterval))
		v.Set(p)
	case t.Kind() == reflect.Interface:
		if r.Chance(1, 4) || depth <= 0 {
			return v
		}
		ct := c20IfaceChoices[r.Intn(len(c20IfaceChoices))]
		v.Set(c20Gen(r, ct, depth-1, negInterval))
	case t.Kind() == reflect.Struct:
		for i := 0; i < t.NumField(); i++ {
			f := t.Field(i)
			if !f.IsExported() {
				continue
			}
			if f.Type.Kind() == reflect.Interface && f.Tag.Get("ttlv") == "" {
				// dynamically tagged field: the dynamic type needs a default tag
				if r.Chance(1, 4) {
					continue
				}
				ct := c20DynChoices[r.Intn(len(c20DynChoices))]
				if r.Chance(1, 12) {
					ct = reflect.TypeFor[c20Gated]() // no default tag: panics
				}
				v.Field(i).Set(c20Gen(r, ct, depth-1, negInterval))
				continue
			}
			if r.Chance(1, 5) {
				continue // zero value
			}
			v.Field(i).Set(c20Gen(r, f.Type, depth-1, negInterval))
		}
	}
	return v
}

func c20CoqLeafBytes(b []byte) string { return h.Bytes(b) }

// c20CoqValue prints the model [value] of a Go value of static type v.Type().
func c20CoqValue(tt *c20Types, v reflect.Value) string {
	t := v.Type()
	switch {
	case t == reflect.TypeFor[time.Duration]():
		return fmt.Sprintf("VLeaf (LInterval %s)", h.Z(v.Int()/int64(time.Second)))
	case t.Kind() == reflect.Pointer:
		for v.Kind() == reflect.Pointer {
			if v.IsNil() {
				return "VNil"
			}
			v = v.Elem()
		}
		return "VPtr (" + c20CoqValue(tt, v) + ")"
	case t.Kind() == reflect.Interface:
		if v.IsNil() {
			return "VNil"
		}
		return fmt.Sprintf("VIface %d (%s)", tt.id(v.Elem().Type()), c20CoqValue(tt, v.Elem()))
	case t.Kind() == reflect.Int32:
		return fmt.Sprintf("VLeaf (LInt %s)", h.Z(v.Int()))
	case t.Kind() == reflect.Int64:
		return fmt.Sprintf("VLeaf (LLong %s)", h.Z(v.Int()))
	case t.Kind() == reflect.Bool:
		return fmt.Sprintf("VLeaf (LBool %s)", h.Bool(v.Bool()))
	case t.Kind() == reflect.String:
		return fmt.Sprintf("VLeaf (LText %s)", h.Str(v.String()))
	case t.Kind() == reflect.Slice && t.Elem().Kind() == reflect.Uint8:
		return fmt.Sprintf("VLeaf (LBytes %s)", h.Bytes(v.Bytes()))
	case t.Kind() == reflect.Slice:
		var el []string
		for i := 0; i < v.Len(); i++ {
			el = append(el, c20CoqValue(tt, v.Index(i)))
		}
		return "VList " + h.List(el)
	case t.Kind() == reflect.Struct:
		var el []string
		for _, vf := range ttlv.VerifPlan(t) {
			if vf.Skipped {
				continue
			}
			el = append(el, c20CoqValue(tt, v.Field(vf.Index)))
		}
		return "VStruct " + h.List(el)
	}
	return "VNil (* unsupported kind " + t.String() + " *)"
}

// c20Roots are the static types handed to Encoder.TagAny by the driver.
var c20Roots = []reflect.Type{
	reflect.TypeFor[c20Msg](), reflect.TypeFor[*c20Msg](), reflect.TypeFor[c20Late](), reflect.TypeFor[c20Gated](),
	reflect.TypeFor[*c20Gated](), reflect.TypeFor[c20Leafs](), reflect.TypeFor[c20Hdr](), reflect.TypeFor[c20Tree2](),
	reflect.TypeFor[*c20Tree2](), reflect.TypeFor[c20Dyn](), reflect.TypeFor[[]c20Gated](), reflect.TypeFor[c20Tree1](),
	reflect.TypeFor[c20Plain](),
	reflect.TypeFor[c20BadKind](), reflect.TypeFor[c20NoTag](), reflect.TypeFor[c20HoldsBad](),
}

// c20GoodRoots never panic while their plan is built.
var c20GoodRoots = c20Roots[:13]

func c20AllTypes() *c20Types {
	c20Register()
	tt := newC20Types()
	for _, t := range c20Roots {
		tt.id(t)
	}
	for _, t := range c20IfaceChoices {
		tt.id(t)
	}
	for _, t := range c20DynChoices {
		tt.id(t)
	}
	return tt
}

func c20TypeNames(tt *c20Types) []string {
	var l []string
	for _, t := range tt.order {
		l = append(l, t.String())
	}
	sort.Strings(l)
	return l
}

// c20DPlan prints the model decode plan of a harness type (classification of decodeFunc).
func c20DPlan(t reflect.Type) string {
	switch {
	case t == reflect.TypeFor[time.Duration]():
		return "DLeaf KDuration"
	case t.Kind() == reflect.Pointer:
		b := t
		for b.Kind() == reflect.Pointer {
			b = b.Elem()
		}
		return "DPtr (" + c20DPlan(b) + ")"
	case t.Kind() == reflect.Int32:
		return "DLeaf KInt"
	case t.Kind() == reflect.Int64:
		return "DLeaf KLong"
	case t.Kind() == reflect.Bool:
		return "DLeaf KBool"
	case t.Kind() == reflect.String:
		return "DLeaf KStr"
	case t.Kind() == reflect.Slice && t.Elem().Kind() == reflect.Uint8:
		return "DLeaf KByteSlice"
	case t.Kind() == reflect.Slice:
		e := t.Elem()
		isPtr := e.Kind() == reflect.Pointer
		for e.Kind() == reflect.Pointer {
			e = e.Elem()
		}
		return fmt.Sprintf("DSlice %s (%s)", h.Bool(isPtr), c20DPlan(e))
	case t.Kind() == reflect.Interface:
		return "DIface"
	case t.Kind() == reflect.Struct:
		var fs []string
		for _, vf := range ttlv.VerifPlan(t) {
			if vf.Skipped {
				continue
			}
			if vf.Tag == 0 {
				panic("c20: no model decode plan for dynamically tagged / untagged fields: " + t.String())
			}
			rng := "None"
			if vf.HasRange {
				st, en := "None", "None"
				if vf.StartSet {
					st = h.Some(c20CoqVer(vf.StartMajor, vf.StartMinor))
				}
				if vf.EndSet {
					en = h.Some(c20CoqVer(vf.EndMajor, vf.EndMinor))
				}
				rng = fmt.Sprintf("(Some (%s, %s))", st, en)
			}
			fs = append(fs, fmt.Sprintf("DField (FOpts %d %s %s %s) (%s)", vf.Tag, h.Bool(vf.OmitEmpty), rng, h.Bool(vf.SetVersion), c20DPlan(t.Field(vf.Index).Type)))
		}
		return "DStruct " + h.List(fs)
	}
	panic("c20: no model decode plan for " + t.String())
}

// c20DecRoots: types decoded in the model rows (static tags only).
var c20DecRoots = []reflect.Type{
	reflect.TypeFor[c20Plain](), reflect.TypeFor[c20Gated](), reflect.TypeFor[c20Leafs](), reflect.TypeFor[c20Hdr](),
	reflect.TypeFor[c20Late](), reflect.TypeFor[c20Tree2](), reflect.TypeFor[c20Tree1](), reflect.TypeFor[[]c20Gated](),
	reflect.TypeFor[c20Msg](), reflect.TypeFor[*c20Leafs](),
}
