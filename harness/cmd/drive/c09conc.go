package main

// C09, two requests in flight on ONE BatchExecutor (the server shares it between connections):
// request A's first handler is parked while request B, with another continuation option, runs to
// completion; then A goes on and its second item fails.  Oracle: each request behaves as it
// does alone - under Stop nothing after A's failed item runs or is reported successful, under
// Continue / unset the item after it runs and succeeds; B's response is B's.  (Oracle only:
// the model of one request is sequential; what is checked here is that nothing of a request's
// execution is shared with another request.)

import (
	"context"
	"fmt"
	"strconv"
	"sync"
	"time"

	"github.com/ovh/kmip-go"
	"github.com/ovh/kmip-go/kmipserver"
	"github.com/ovh/kmip-go/payloads"

	"verifharness/internal/h"
)

func c09ConcRun(optA, optB int) (statusA []kmip.ResultStatus, calledA3 bool, statusB []kmip.ResultStatus, note string) {
	exec := kmipserver.NewBatchExecutor()
	entered := make(chan struct{})
	release := make(chan struct{})
	var mu sync.Mutex
	called := map[string]bool{}
	exec.Route(kmip.OperationGet, c09HandlerFunc(func(ctx context.Context, pl kmip.OperationPayload) (kmip.OperationPayload, error) {
		id := pl.(*payloads.GetRequestPayload).UniqueIdentifier
		mu.Lock()
		called[id] = true
		mu.Unlock()
		switch id {
		case "a1":
			close(entered)
			select {
			case <-release:
			case <-time.After(5 * time.Second):
			}
		case "a2":
			return nil, kmipserver.Errorf(kmip.ResultReasonItemNotFound, "nope")
		}
		return &payloads.GetResponsePayload{UniqueIdentifier: id}, nil
	}))
	mk := func(opt int, ids ...string) *kmip.RequestMessage {
		m := &kmip.RequestMessage{Header: kmip.RequestHeader{ProtocolVersion: kmip.V1_4, BatchErrorContinuationOption: kmip.BatchErrorContinuationOption(opt), BatchCount: int32(len(ids))}}
		for i, id := range ids {
			m.BatchItem = append(m.BatchItem, kmip.RequestBatchItem{Operation: kmip.OperationGet, UniqueBatchItemID: []byte(strconv.Itoa(i + 1)), RequestPayload: &payloads.GetRequestPayload{UniqueIdentifier: id}})
		}
		return m
	}
	var respA *kmip.ResponseMessage
	doneA := make(chan struct{})
	go func() {
		defer close(doneA)
		defer func() { _ = recover() }()
		respA = exec.HandleRequest(context.Background(), mk(optA, "a1", "a2", "a3"))
	}()
	select {
	case <-entered:
	case <-time.After(3 * time.Second):
		close(release)
		return nil, false, nil, "request A never reached its first handler"
	}
	respB := exec.HandleRequest(context.Background(), mk(optB, "b1"))
	close(release)
	select {
	case <-doneA:
	case <-time.After(6 * time.Second):
		return nil, false, nil, "request A did not return"
	}
	if respA == nil || respB == nil {
		return nil, false, nil, "nil response"
	}
	for _, bi := range respA.BatchItem {
		statusA = append(statusA, bi.ResultStatus)
	}
	for _, bi := range respB.BatchItem {
		statusB = append(statusB, bi.ResultStatus)
	}
	mu.Lock()
	calledA3 = called["a3"]
	mu.Unlock()
	return
}

// c09AfterDiscover: requests handled one after the other on one executor: what a version-discovery item asked
// does not change how later requests are handled (every version the executor supports stays supported).
func c09AfterDiscover(c *h.Ctx) {
	for vi, configured := range [][]kmip.ProtocolVersion{nil, {kmip.V1_4, kmip.V1_3, kmip.V1_2, kmip.V1_1, kmip.V1_0}, {kmip.V1_0, kmip.V1_4}} {
		for qi, asked := range [][]kmip.ProtocolVersion{{kmip.V1_2}, {kmip.V1_0}, {kmip.V1_3, kmip.V1_1}, {}, {kmip.V1_4, kmip.V1_3, kmip.V1_2, kmip.V1_1, kmip.V1_0}} {
			exec := kmipserver.NewBatchExecutor()
			if configured != nil {
				exec.SetSupportedProtocolVersions(configured...)
			}
			exec.Route(kmip.OperationGet, c09HandlerFunc(func(ctx context.Context, pl kmip.OperationPayload) (kmip.OperationPayload, error) {
				return &payloads.GetResponsePayload{UniqueIdentifier: pl.(*payloads.GetRequestPayload).UniqueIdentifier}, nil
			}))
			supported := configured
			if supported == nil {
				supported = []kmip.ProtocolVersion{kmip.V1_0, kmip.V1_1, kmip.V1_2, kmip.V1_3, kmip.V1_4}
			}
			note := ""
			func() {
				defer func() {
					if r := recover(); r != nil {
						note = fmt.Sprint("panic: ", r)
					}
				}()
				exec.HandleRequest(context.Background(), &kmip.RequestMessage{Header: kmip.RequestHeader{ProtocolVersion: supported[0], BatchCount: 1},
					BatchItem: []kmip.RequestBatchItem{{Operation: kmip.OperationDiscoverVersions, RequestPayload: &payloads.DiscoverVersionsRequestPayload{ProtocolVersion: asked}}}})
				for _, v := range supported {
					r := exec.HandleRequest(context.Background(), &kmip.RequestMessage{Header: kmip.RequestHeader{ProtocolVersion: v, BatchCount: 2},
						BatchItem: []kmip.RequestBatchItem{{Operation: kmip.OperationGet, RequestPayload: &payloads.GetRequestPayload{UniqueIdentifier: "a"}}, {Operation: kmip.OperationGet, RequestPayload: &payloads.GetRequestPayload{UniqueIdentifier: "b"}}}})
					if r == nil || len(r.BatchItem) != 2 || r.BatchItem[0].ResultStatus != kmip.ResultStatusSuccess || r.BatchItem[1].ResultStatus != kmip.ResultStatusSuccess {
						n := -1
						if r != nil {
							n = len(r.BatchItem)
						}
						note = fmt.Sprintf("after a version-discovery item listing %v, a two-item batch in supported version %v is answered with %d item(s)", asked, v, n)
						return
					}
				}
			}()
			c.Eval(fmt.Sprintf("after-discover/%d/%d", vi, qi), true)
			c.Count("requests-after-discovery")
			if note != "" {
				c.Fail("C09/shape/after-version-discovery", note, map[string]any{"leg": "concurrent", "kind": "after-discover", "configured": vi, "asked": qi})
				return
			}
		}
	}
}

func c09Concurrent(c *h.Ctx) {
	c09AfterDiscover(c)
	c09CancelMidBatch(c)
	pairs := [][2]int{{2, 1}, {2, 0}, {1, 2}, {0, 2}, {2, 2}, {1, 1}}
	if c.Replay != nil {
		cs, _ := c.Replay["case"].(map[string]any)
		a, _ := cs["option_a"].(float64)
		b, _ := cs["option_b"].(float64)
		pairs = [][2]int{{int(a), int(b)}}
	}
	for _, p := range pairs {
		stA, a3, stB, note := c09ConcRun(p[0], p[1])
		c.Eval(fmt.Sprintf("concurrent/%d/%d", p[0], p[1]), true)
		c.Count("concurrent-requests")
		cj := map[string]any{"leg": "concurrent", "option_a": p[0], "option_b": p[1], "status_a": stA, "a3_executed": a3, "status_b": stB, "note": note,
			"what": fmt.Sprintf("request A (option %s, items ok-parked / failing / ok) and request B (option %s, one ok item) on one BatchExecutor; B runs while A's first handler is parked", c09OptName(p[0]), c09OptName(p[1]))}
		if note != "" {
			c.Fail("C09/concurrent/"+note, note, cj)
			continue
		}
		if len(stA) != 3 || len(stB) != 1 {
			c.Fail("C09/concurrent/shape", fmt.Sprintf("A answered with %d items, B with %d", len(stA), len(stB)), cj)
			continue
		}
		if stB[0] != kmip.ResultStatusSuccess || stA[0] != kmip.ResultStatusSuccess || stA[1] != kmip.ResultStatusOperationFailed {
			c.Fail("C09/concurrent/status", "an item's status is not its handler's verdict", cj)
		}
		if p[0] == 2 {
			if a3 {
				c.Fail("C09/concurrent/stop/executed-after-failure", "Stop: request A's item after the failed one was executed (another request's option was applied)", cj)
			}
			if stA[2] == kmip.ResultStatusSuccess {
				c.Fail("C09/concurrent/stop/success-after-failure", "Stop: request A's item after the failed one is reported successful", cj)
			}
		} else {
			if !a3 || stA[2] != kmip.ResultStatusSuccess {
				c.Fail("C09/concurrent/continue/not-executed", "Continue/unset: request A's item after the failed one was not executed (another request's option was applied)", cj)
			}
		}
	}
}
