package main

// Responses larger than 1 MiB through kmipclient (oracle only; run by the C07 and the C10 driver).  The
// server puts no bound on what it sends, and the client's stream has none: a Locate answer with 30 000
// identifiers (1.2 MB) is delivered (C07: the receiver returns exactly the sent messages), and every later
// call on that client gets the response to its own request (C10) - a response that is not consumed whole
// would shift every later one.

import (
	"context"
	"fmt"
	"net"
	"time"

	"github.com/ovh/kmip-go"
	"github.com/ovh/kmip-go/kmipclient"
	"github.com/ovh/kmip-go/payloads"
	"github.com/ovh/kmip-go/ttlv"

	"verifharness/internal/h"
	"verifharness/internal/memnet"
)

func c10lServe(conn net.Conn, nids int) {
	defer conn.Close()
	st := ttlv.NewStream(conn, -1)
	for {
		req := new(kmip.RequestMessage)
		if err := st.Recv(req); err != nil {
			return
		}
		resp := &kmip.ResponseMessage{Header: kmip.ResponseHeader{ProtocolVersion: req.Header.ProtocolVersion, TimeStamp: time.Unix(1, 0), BatchCount: int32(len(req.BatchItem))}}
		for _, bi := range req.BatchItem {
			it := kmip.ResponseBatchItem{Operation: bi.Operation, UniqueBatchItemID: bi.UniqueBatchItemID, ResultStatus: kmip.ResultStatusSuccess}
			switch pl := bi.RequestPayload.(type) {
			case *payloads.LocateRequestPayload:
				out := &payloads.LocateResponsePayload{}
				for i := 0; i < nids; i++ {
					out.UniqueIdentifier = append(out.UniqueIdentifier, fmt.Sprintf("object-%06d-of-a-large-answer", i))
				}
				it.ResponsePayload = out
			case *payloads.ActivateRequestPayload:
				it.ResponsePayload = &payloads.ActivateResponsePayload{UniqueIdentifier: pl.UniqueIdentifier}
			}
			resp.BatchItem = append(resp.BatchItem, it)
		}
		if st.Send(resp) != nil {
			return
		}
	}
}

func c10LargeResponse(c *h.Ctx, prop string) {
	cj := map[string]any{"leg": "large-response"}
	c.Current(cj)
	var servers []net.Conn
	dialer := func(ctx context.Context) (net.Conn, error) {
		// buffered both ways: a peer that stops reading does not block the other one's writes
		cli, srv := memnet.Pipe(8<<20, 8<<20)
		servers = append(servers, srv)
		go c10lServe(srv, 10000)
		return cli, nil
	}
	defer func() {
		for _, s := range servers {
			_ = s.Close()
		}
	}()
	defer func() {
		if p := recover(); p != nil {
			c.Fail(prop+"/panic/large-response", fmt.Sprint(p), cj)
		}
	}()
	cl, err := kmipclient.Dial("pipe", kmipclient.WithDialerUnsafe(dialer), kmipclient.EnforceVersion(kmip.V1_4))
	if err != nil {
		return
	}
	defer cl.Close()
	c.Eval("large-response", true)
	c.Count("leg:large-response")
	ctx, cancel := context.WithTimeout(context.Background(), 20*time.Second)
	defer cancel()
	activate := func(id string) (string, error) {
		pl, err := cl.Request(ctx, &payloads.ActivateRequestPayload{UniqueIdentifier: id})
		if err != nil {
			return "", err
		}
		if ap, ok := pl.(*payloads.ActivateResponsePayload); ok {
			return ap.UniqueIdentifier, nil
		}
		return fmt.Sprintf("payload %T", pl), nil
	}
	if got, err := activate("before"); err == nil && got != "before" {
		c.Fail("C10/wrong-response/large-response", fmt.Sprintf("the call for %q returned the response %q", "before", got), cj)
		return
	}
	// one response of three large items (a few large fragments behind the message header)
	big := kmip.NewRequestMessage(kmip.V1_4, &payloads.LocateRequestPayload{}, &payloads.LocateRequestPayload{}, &payloads.LocateRequestPayload{})
	resp, err := cl.Roundtrip(ctx, &big)
	if prop == "C07" {
		n := 0
		if err == nil && resp != nil {
			for _, bi := range resp.BatchItem {
				if lp, ok := bi.ResponsePayload.(*payloads.LocateResponsePayload); ok {
					n += len(lp.UniqueIdentifier)
				}
			}
		}
		if err != nil || n != 30000 {
			c.Fail("C07/client/large-message-not-delivered", fmt.Sprintf("a 1.2 MB response (three Locate items, 30000 identifiers) sent to a kmipclient.Client is not delivered: error %v, %d identifiers", err, n), cj)
		}
	}
	for i := 0; i < 8; i++ {
		id := fmt.Sprintf("after-%d", i)
		got, err := activate(id)
		if err == nil && got != id {
			c.Fail("C10/wrong-response/large-response", fmt.Sprintf("after a 1.2 MB response on the client, the call for %q returned the response %q", id, got), cj)
			return
		}
		if err != nil && prop == "C07" && i == 7 {
			c.Fail("C07/client/stream-lost-after-large-message", fmt.Sprintf("after a 1.2 MB response the eighth later call still fails: %v", err), cj)
		}
	}
}
