package main

// C03: binary encoder output conforms to the KMIP TTLV wire format.
//
// Implementation side: ttlv.MarshalTTLV / UnmarshalTTLV on generic ttlv.Value trees.
// Oracle (property text on the implementation): an independent strict parser (tv.SpecParse)
// accepts the bytes and reads back exactly the tree handed to the encoder; big integers use
// the least multiple of 8 bytes; any well-formed encoding produced by the independent
// generator (tv.SpecGen, incl. over-long sign-extended big integers) decodes to the same tree.
// Model rows: (item, bytes) checked against Wire.wire_enc and Wire.spec_parse inside Rocq;
// (bytes, decoded) checked against Cursor.unmarshal_value.

import (
	"bytes"
	"encoding/hex"
	"fmt"
	"strings"

	"github.com/ovh/kmip-go/ttlv"

	"verifharness/internal/h"
	"verifharness/internal/tv"
)

func init() { h.Register("C03", driveC03) }

func c03Marshal(n tv.Node) (b []byte, panicked string) {
	defer func() {
		if r := recover(); r != nil {
			panicked = fmt.Sprint(r)
		}
	}()
	v := tv.ToValue(n)
	return ttlv.MarshalTTLV(&v), ""
}

// c03NilEmpty: the same tree with every empty byte string / empty structure held as a NIL slice (what a
// caller building the tree by hand may well pass): an empty value is still an item of length 0.
func c03NilEmpty(v ttlv.Value) (ttlv.Value, bool) {
	changed := false
	switch x := v.Value.(type) {
	case []byte:
		if len(x) == 0 {
			v.Value, changed = []byte(nil), true
		}
	case ttlv.Struct:
		if len(x) == 0 {
			v.Value, changed = ttlv.Struct(nil), true
		} else {
			out := make(ttlv.Struct, len(x))
			for i := range x {
				var ch bool
				out[i], ch = c03NilEmpty(x[i])
				changed = changed || ch
			}
			v.Value = out
		}
	}
	return v, changed
}

// c03Retained: an encoding the library has handed out stays what it was while the library goes on
// encoding other values (here and on other goroutines): "every binary encoding produced by the
// library" is judged when it is USED, not only in the instant it is returned.
func c03Retained(n tv.Node) (overwritten string) {
	defer func() { _ = recover() }()
	v := tv.ToValue(n)
	b := ttlv.MarshalTTLV(&v)
	keep := bytes.Clone(b)
	noise := ttlv.Value{Tag: 0x420002, Value: bytes.Repeat([]byte{0xEE}, len(b)+24)}
	done := make(chan struct{})
	go func() {
		defer close(done)
		defer func() { _ = recover() }()
		for i := 0; i < 3; i++ {
			_ = ttlv.MarshalTTLV(&noise)
		}
	}()
	for i := 0; i < 3; i++ {
		_ = ttlv.MarshalTTLV(&noise)
	}
	<-done
	if !bytes.Equal(b, keep) {
		return fmt.Sprintf("%x", b)
	}
	return ""
}

// c03Reused: the same tree on ONE encoder reused (after Clear) for every tree of the run: the output
// is still the conformant encoding (bit for bit what a new encoder writes: padding included).
var c03Shared = ttlv.NewTTLVEncoder()

func c03MarshalReused(n tv.Node) (b []byte, panicked string) {
	defer func() {
		if r := recover(); r != nil {
			panicked = fmt.Sprint(r)
			c03Shared = ttlv.NewTTLVEncoder()
		}
	}()
	v := tv.ToValue(n)
	// what the encoder held before is noise (so that a single replayed tree sees a used encoder too)
	c03Shared.Clear()
	c03Shared.ByteString(0x420001, bytes.Repeat([]byte{0xFF}, 4096+len(n.String())%64))
	c03Shared.Clear()
	c03Shared.Any(&v)
	return append([]byte{}, c03Shared.Bytes()...), ""
}

func c03Trees(c *h.Ctx) []tv.Node {
	if c.Replay != nil {
		cs, _ := c.Replay["case"].(map[string]any)
		hx, _ := cs["tree_hex"].(string)
		b, _ := hex.DecodeString(hx)
		ns, err := tv.SpecParse(b)
		if err != nil || len(ns) != 1 {
			return nil
		}
		return ns
	}
	var trees []tv.Node
	// systematic: every scalar kind many times (pools are cycled through by the generator), then nested trees
	for k := tv.KInt; k <= tv.KIntv; k++ {
		for i := 0; i < c.Pick(60, 400); i++ {
			trees = append(trees, tv.GenLeaf(c.Rng.Fork(uint64(k*100000+i)), k))
		}
	}
	// all lengths mod 8 for strings
	for l := 0; l <= 17; l++ {
		r := c.Rng.Fork(uint64(900000 + l))
		trees = append(trees, tv.Node{Tag: tv.GenTag(r), Kind: tv.KText, S: bytes.Repeat([]byte("a"), l)})
		trees = append(trees, tv.Node{Tag: tv.GenTag(r), Kind: tv.KBytes, S: r.Bytes(l)})
	}
	trees = append(trees, tv.Node{Tag: 0x420001, Kind: tv.KStruct})
	// large encodings: nested structures around a payload that makes the total size cross the
	// powers of two at which a growing output buffer is reallocated (512 B ... 128 KiB)
	for i, sz := range []int{500, 1000, 2040, 4090, 8180, 16370, 33000, 70000, 140000}[:c.Pick(7, 9)] {
		r := c.Rng.Fork(uint64(800000 + i))
		inner := tv.Node{Tag: 0x420008, Kind: tv.KStruct, Kids: []tv.Node{
			tv.GenLeaf(r, tv.KInt), {Tag: 0x420043, Kind: tv.KBytes, S: r.Bytes(sz)}, tv.GenLeaf(r, tv.KText)}}
		mid := tv.Node{Tag: 0x420040, Kind: tv.KStruct, Kids: []tv.Node{tv.GenLeaf(r, tv.KEnum), inner, {Tag: 0x420055, Kind: tv.KText, S: []byte("tail")}}}
		trees = append(trees, tv.Node{Tag: 0x420078, Kind: tv.KStruct, Kids: []tv.Node{mid, tv.GenLeaf(r, tv.KLong)}})
	}
	for i := 0; i < c.Pick(500, 6000); i++ {
		trees = append(trees, tv.Gen(c.Rng.Fork(uint64(1000000+i)), 1+i%4))
	}
	return trees
}

func driveC03(c *h.Ctx) error {
	c.Rule("a case is a generic TTLV tree (all ten item types, any 3-byte tag, nesting up to 4, scalars from boundary pools, big integers around every byte/8-byte boundary with both signs); non-trivial = distinct tree; per tree: encode with the library, judge the bytes with an independent strict parser, decode an independently generated well-formed encoding of the same tree")
	trees := c03Trees(c)
	var encRows, decRows []string
	for i, n := range trees {
		r := c.Rng.Fork(uint64(5000000 + i))
		treeHex := hex.EncodeToString(tv.SpecGen(n, nil))
		caseJSON := map[string]any{"tree": n.String(), "tree_hex": treeHex}
		c.Eval(treeHex, true)
		c.Count("kind:" + tv.KindName[n.Kind])
		if i%311 == 0 {
			c.Sample(caseJSON)
		}
		// ---- encode
		b, p := c03Marshal(n)
		if p != "" {
			c.Fail("C03/encoder-panics", "MarshalTTLV panicked: "+p, caseJSON)
			continue
		}
		caseJSON["encoded_hex"] = hex.EncodeToString(b)
		if b2, p2 := c03MarshalReused(n); p2 != "" || !bytes.Equal(b, b2) {
			c.Fail("C03/reused-encoder-output-differs", fmt.Sprintf("on a reused (cleared) encoder the encoding is %x %s", b2, p2), caseJSON)
		}
		if nv, ch := c03NilEmpty(tv.ToValue(n)); ch {
			c.Count("tree-with-nil-empty-values")
			var nb []byte
			func() {
				defer func() { _ = recover() }()
				nb = ttlv.MarshalTTLV(&nv)
			}()
			if !bytes.Equal(nb, b) {
				c.Fail("C03/nil-empty-value-encoded-differently", fmt.Sprintf("with its empty byte strings / structures held as nil slices the tree encodes to %x", nb), caseJSON)
			}
		}
		if i%4 == 0 || c.Replay != nil {
			if ow := c03Retained(n); ow != "" {
				c.Fail("C03/encoding-overwritten-by-later-encoding", "the bytes returned by MarshalTTLV changed while other values were encoded: now "+ow, caseJSON)
			}
		}
		ns, err := tv.SpecParse(b)
		switch {
		case err != nil:
			c.Fail("C03/not-well-formed/"+tv.KindName[n.Kind], "independent parser rejects the encoder's output: "+err.Error(), caseJSON)
		case len(ns) != 1 || !tv.Equal(ns[0], n):
			c.Fail("C03/value-differs/"+tv.KindName[n.Kind], fmt.Sprintf("independent parser reads %v, encoder was given %v", ns, n), caseJSON)
		}
		if n.Kind == tv.KBig && err == nil {
			if want := len(tv.SpecGen(n, nil)); len(b) != want {
				c.Fail("C03/bigint-not-minimal", fmt.Sprintf("big integer encoded on %d bytes, least multiple of 8 is %d", len(b)-8, want-8), caseJSON)
			}
		}
		encRows = append(encRows, fmt.Sprintf("(%s, %s)", tv.CoqItem(n), h.HexBytes(b)))
		c.IndexCase("mism_enc", len(encRows)-1, caseJSON)
		// ---- decode an independently produced well-formed encoding
		g := tv.SpecGen(n, r)
		if !bytes.Equal(g, b) {
			c.Count("decode:alternative-encoding")
		} else {
			c.Count("decode:same-as-encoder")
		}
		o := tv.DecodeValue(g)
		dj := map[string]any{"tree": n.String(), "tree_hex": treeHex, "input_hex": hex.EncodeToString(g), "observed": o.Class, "msg": o.Msg}
		if o.Class != "ok" || o.Bad || !tv.Equal(o.Node, n) {
			c.Fail("C03/wellformed-input-misread/"+tv.KindName[n.Kind], fmt.Sprintf("a well-formed encoding of %v decodes to %s %v %s", n, o.Class, o.Node, o.Msg), dj)
		}
		decRows = append(decRows, fmt.Sprintf("(%s, %s)", h.HexBytes(g), tv.CoqObsItem(o)))
		c.IndexCase("mism_dec", len(decRows)-1, dj)
	}
	var sb strings.Builder
	sb.WriteString("From Coq Require Import ZArith List Bool.\nFrom KV Require Import Base Wire Cursor Cases CodecRows.\nImport ListNotations.\nOpen Scope Z_scope.\n")
	d1, e1 := h.Chunk("erows", "item * list Z", encRows, 200)
	d2, e2 := h.Chunk("drows", "list Z * obs item", decRows, 200)
	sb.WriteString(d1)
	sb.WriteString(d2)
	fmt.Fprintf(&sb, "Definition mism_enc := Eval vm_compute in bad_idx row_enc %s 0.\nPrint mism_enc.\n", e1)
	fmt.Fprintf(&sb, "Definition mism_dec := Eval vm_compute in bad_idx row_dec %s 0.\nPrint mism_dec.\n", e2)
	return c.WriteCases("cases_C03.v", sb.String(), len(encRows)+len(decRows))
}
