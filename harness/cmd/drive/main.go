// Command drive runs the correspondence / oracle driver of one property.
package main

import (
	"os"

	"verifharness/internal/h"
)

func main() { os.Exit(h.Main(os.Args[1:])) }
