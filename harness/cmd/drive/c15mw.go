package main

// C15 with middlewares installed (oracle only; the model's executor has none):
//  (a) a request middleware that forwards a batch piece by piece (one continuation call per item, answers
//      merged): the pieces are the SAME request - what the first piece's item stored is what the second
//      piece's item observes;
//  (b) a pass-through batch-item middleware, several requests one after the other (and from other
//      "connections"): each request starts empty and sees only its own values.

import (
	"context"
	"fmt"

	"github.com/ovh/kmip-go"
	"github.com/ovh/kmip-go/kmipserver"
	"github.com/ovh/kmip-go/payloads"

	"verifharness/internal/h"
)

func c15Middlewares(c *h.Ctx) {
	seen := map[string]string{}
	hd := c09HandlerFunc(func(ctx context.Context, pl kmip.OperationPayload) (kmip.OperationPayload, error) {
		id := pl.(*payloads.GetRequestPayload).UniqueIdentifier
		seen[id] = kmipserver.IdPlaceholder(ctx)
		if len(id) > 6 && id[:6] == "store-" {
			kmipserver.SetIdPlaceholder(ctx, "value-of-"+id)
		}
		return &payloads.GetResponsePayload{UniqueIdentifier: id}, nil
	})
	mk := func(ids ...string) *kmip.RequestMessage {
		m := &kmip.RequestMessage{Header: kmip.RequestHeader{ProtocolVersion: kmip.V1_4, BatchCount: int32(len(ids))}}
		for _, id := range ids {
			m.BatchItem = append(m.BatchItem, kmip.RequestBatchItem{Operation: kmip.OperationGet, RequestPayload: &payloads.GetRequestPayload{UniqueIdentifier: id}})
		}
		return m
	}
	run := func(exec *kmipserver.BatchExecutor, ctx context.Context, m *kmip.RequestMessage) (note string) {
		defer func() {
			if r := recover(); r != nil {
				note = fmt.Sprint("panic: ", r)
			}
		}()
		_ = exec.HandleRequest(ctx, m)
		return ""
	}
	// (a) split middleware
	{
		exec := kmipserver.NewBatchExecutor()
		exec.Route(kmip.OperationGet, hd)
		exec.Use(func(next kmipserver.Next, ctx context.Context, msg *kmip.RequestMessage) (*kmip.ResponseMessage, error) {
			var merged *kmip.ResponseMessage
			for i := range msg.BatchItem {
				piece := *msg
				piece.BatchItem = msg.BatchItem[i : i+1]
				piece.Header.BatchCount = 1
				r, err := next(ctx, &piece)
				if err != nil || r == nil {
					return r, err
				}
				if merged == nil {
					merged = r
				} else {
					merged.BatchItem = append(merged.BatchItem, r.BatchItem...)
					merged.Header.BatchCount = int32(len(merged.BatchItem))
				}
			}
			return merged, nil
		})
		cj := map[string]any{"kind": "middleware", "sub": "split"}
		c.Current(cj)
		note := run(exec, context.Background(), mk("store-a", "read-a", "read-a2"))
		c.Eval("middleware/split", true)
		c.Count("kind:middleware")
		switch {
		case note != "":
			c.Fail("C15/middleware/panic", note, cj)
		case seen["store-a"] != "" || seen["read-a"] != "value-of-store-a" || seen["read-a2"] != "value-of-store-a":
			c.Fail("C15/flow/split-by-middleware", fmt.Sprintf("a request forwarded item by item by a middleware: the first item started with %q and stored \"value-of-store-a\", the later items of the same request observe %q and %q", seen["store-a"], seen["read-a"], seen["read-a2"]), cj)
		}
	}
	// (b) pass-through batch-item middleware, successive requests
	{
		exec := kmipserver.NewBatchExecutor()
		exec.Route(kmip.OperationGet, hd)
		exec.BatchItemUse(func(next kmipserver.BatchItemNext, ctx context.Context, bi *kmip.RequestBatchItem) (*kmip.ResponseBatchItem, error) {
			return next(ctx, bi)
		})
		cj := map[string]any{"kind": "middleware", "sub": "item-passthrough"}
		c.Current(cj)
		type connKey struct{}
		note := run(exec, context.WithValue(context.Background(), connKey{}, 1), mk("store-r1", "read-r1"))
		if note == "" {
			note = run(exec, context.WithValue(context.Background(), connKey{}, 2), mk("read-r2", "store-r2", "read-r2b"))
		}
		if note == "" {
			note = run(exec, context.WithValue(context.Background(), connKey{}, 1), mk("read-r3"))
		}
		c.Eval("middleware/item-passthrough", true)
		c.Count("kind:middleware")
		switch {
		case note != "":
			c.Fail("C15/middleware/panic", note, cj)
		case seen["read-r1"] != "value-of-store-r1" || seen["read-r2b"] != "value-of-store-r2":
			c.Fail("C15/flow/with-item-middleware", fmt.Sprintf("with a pass-through batch-item middleware installed, items observe %q / %q instead of the value stored by the item before them", seen["read-r1"], seen["read-r2b"]), cj)
		case seen["read-r2"] != "" || seen["read-r3"] != "" || seen["store-r1"] != "":
			c.Fail("C15/not-isolated/with-item-middleware", fmt.Sprintf("with a pass-through batch-item middleware installed, a later request starts with the placeholder %q / %q (an earlier request's value)", seen["read-r2"], seen["read-r3"]), cj)
		}
	}
}
