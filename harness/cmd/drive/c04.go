package main

// C04 - XML and JSON encodings are interchangeable with binary TTLV (and the XML/JSON side of
// C02: text decoders never panic).
//
// The driver speaks to the library through its public surface only: ttlv.Encoder / ttlv.Decoder
// typed calls (one call = one `item` of the model), ttlv.Marshal*/Unmarshal* on ttlv.Value and on
// kmip messages.  Independent parsers (encoding/xml, encoding/json used here, not through the
// library) turn every document into the element tree / JSON value tree the model starts from.

import (
	"bytes"
	"encoding/hex"
	"encoding/json"
	"encoding/xml"
	"fmt"
	"io"
	"math/big"
	"sort"
	"strings"
	"time"
	"unicode/utf8"

	"github.com/ovh/kmip-go"
	"github.com/ovh/kmip-go/ttlv"

	"verifharness/internal/h"
)

func init() { h.Register("C04", driveC04) }

// ------------------------------------------------------------------ items (writer calls)

type c04Item struct {
	K    string     `json:"k"` // struct int long big enum bool text bytes date intv mask
	Tag  int        `json:"tag"`
	RTag int        `json:"rtag,omitempty"`
	N    string     `json:"n,omitempty"` // decimal value (int long big enum date intv mask)
	B    bool       `json:"b,omitempty"`
	S    string     `json:"s,omitempty"` // hex of the bytes (text, bytes)
	Kids []*c04Item `json:"kids,omitempty"`
}

func (it *c04Item) num() *big.Int {
	n, ok := new(big.Int).SetString(it.N, 10)
	if !ok {
		return new(big.Int)
	}
	return n
}
func (it *c04Item) bytes() []byte { b, _ := hex.DecodeString(it.S); return b }

func c04Num(k string, tag int, v *big.Int) *c04Item { return &c04Item{K: k, Tag: tag, N: v.String()} }
func c04Int64(k string, tag int, v int64) *c04Item   { return &c04Item{K: k, Tag: tag, N: fmt.Sprint(v)} }
func c04Bytes(k string, tag int, b []byte) *c04Item  { return &c04Item{K: k, Tag: tag, S: hex.EncodeToString(b)} }

func c04ZBig(v *big.Int) string {
	if v.Sign() < 0 {
		return "(" + v.String() + ")"
	}
	return v.String()
}

// c04Str prints a byte string as a Coq term of type list Z, compactly when it is plain ASCII.
func c04Str(b []byte) string {
	plain := true
	for _, c := range b {
		if c < 0x20 || c > 0x7e || c == '"' {
			plain = false
			break
		}
	}
	if plain {
		if len(b) == 0 {
			return "[]"
		}
		return `(str "` + string(b) + `")`
	}
	if b[0] != 0 {
		return h.HexBytes(b)
	}
	return h.Bytes(b)
}

func (it *c04Item) coq() string {
	switch it.K {
	case "struct":
		ks := make([]string, len(it.Kids))
		for i, k := range it.Kids {
			ks[i] = k.coq()
		}
		return fmt.Sprintf("(IStruct %d %s)", it.Tag, h.List(ks))
	case "int":
		return fmt.Sprintf("(IInt %d %s)", it.Tag, c04ZBig(it.num()))
	case "long":
		return fmt.Sprintf("(ILong %d %s)", it.Tag, c04ZBig(it.num()))
	case "big":
		return fmt.Sprintf("(IBig %d %s)", it.Tag, c04ZBig(it.num()))
	case "enum":
		return fmt.Sprintf("(IEnum %d %d %s)", it.Tag, it.RTag, c04ZBig(it.num()))
	case "bool":
		return fmt.Sprintf("(IBool %d %s)", it.Tag, h.Bool(it.B))
	case "text":
		return fmt.Sprintf("(IText %d %s)", it.Tag, c04Str(it.bytes()))
	case "bytes":
		return fmt.Sprintf("(IBytes %d %s)", it.Tag, h.HexBytes(it.bytes()))
	case "date":
		return fmt.Sprintf("(IDate %d %s)", it.Tag, c04ZBig(it.num()))
	case "intv":
		return fmt.Sprintf("(IIntv %d %s)", it.Tag, c04ZBig(it.num()))
	case "mask":
		return fmt.Sprintf("(IMask %d %d %s)", it.Tag, it.RTag, c04ZBig(it.num()))
	}
	panic("bad item kind " + it.K)
}

func (it *c04Item) size() int {
	n := 1
	for _, k := range it.Kids {
		n += k.size()
	}
	return n
}

// c04Emit performs the writer calls of an item on any encoder.
func c04Emit(e *ttlv.Encoder, it *c04Item) {
	switch it.K {
	case "struct":
		e.Struct(it.Tag, func(e *ttlv.Encoder) {
			for _, k := range it.Kids {
				c04Emit(e, k)
			}
		})
	case "int":
		e.Integer(it.Tag, int32(it.num().Int64()))
	case "long":
		e.LongInteger(it.Tag, it.num().Int64())
	case "big":
		e.BigInteger(it.Tag, it.num())
	case "enum":
		e.Enum(it.RTag, it.Tag, uint32(it.num().Uint64()))
	case "bool":
		e.Bool(it.Tag, it.B)
	case "text":
		e.TextString(it.Tag, string(it.bytes()))
	case "bytes":
		e.ByteString(it.Tag, it.bytes())
	case "date":
		e.DateTime(it.Tag, c04Instant(it.num().Int64()))
	case "intv":
		e.Interval(it.Tag, time.Duration(it.num().Int64())*time.Second)
	case "mask":
		e.Bitmask(it.RTag, it.Tag, int32(it.num().Int64()))
	default:
		panic("bad item kind " + it.K)
	}
}

// c04Reread performs, on any decoder, the typed reads matching a script and returns what was read.
func c04Reread(d *ttlv.Decoder, s *c04Item) (*c04Item, error) {
	switch s.K {
	case "struct":
		out := &c04Item{K: "struct", Tag: s.Tag}
		err := d.Struct(s.Tag, func(d *ttlv.Decoder) error {
			for _, k := range s.Kids {
				r, err := c04Reread(d, k)
				if err != nil {
					return err
				}
				out.Kids = append(out.Kids, r)
			}
			return nil
		})
		return out, err
	case "int":
		v, err := d.Integer(s.Tag)
		return c04Int64("int", s.Tag, int64(v)), err
	case "long":
		v, err := d.LongInteger(s.Tag)
		return c04Int64("long", s.Tag, v), err
	case "big":
		v, err := d.BigInteger(s.Tag)
		if err != nil || v == nil {
			return nil, c04Err(err)
		}
		return c04Num("big", s.Tag, v), nil
	case "enum":
		v, err := d.Enum(s.RTag, s.Tag)
		r := c04Int64("enum", s.Tag, int64(v))
		r.RTag = s.RTag
		return r, err
	case "bool":
		v, err := d.Bool(s.Tag)
		return &c04Item{K: "bool", Tag: s.Tag, B: v}, err
	case "text":
		v, err := d.TextString(s.Tag)
		return c04Bytes("text", s.Tag, []byte(v)), err
	case "bytes":
		v, err := d.ByteString(s.Tag)
		return c04Bytes("bytes", s.Tag, v), err
	case "date":
		v, err := d.DateTime(s.Tag)
		if err != nil {
			return nil, err
		}
		return c04Int64("date", s.Tag, v.Unix()), nil
	case "intv":
		v, err := d.Interval(s.Tag)
		if err != nil {
			return nil, err
		}
		// the value the binary writer will put on the wire: uint32(interval.Seconds())
		return &c04Item{K: "intv", Tag: s.Tag, N: fmt.Sprint(int64(v / time.Second)), S: fmt.Sprint(int64(v))}, nil
	case "mask":
		v, err := d.Bitmask(s.RTag, s.Tag)
		r := c04Int64("mask", s.Tag, int64(v))
		r.RTag = s.RTag
		return r, err
	}
	panic("bad item kind " + s.K)
}

func c04Err(err error) error {
	if err == nil {
		return fmt.Errorf("nil value without error")
	}
	return err
}

// c04EmitRead re-encodes what a typed re-read returned (durations are passed on exactly as read).
func c04EmitRead(e *ttlv.Encoder, it *c04Item) {
	if it.K == "intv" && it.S != "" {
		var ns int64
		fmt.Sscan(it.S, &ns)
		e.Interval(it.Tag, time.Duration(ns))
		return
	}
	if it.K == "struct" {
		e.Struct(it.Tag, func(e *ttlv.Encoder) {
			for _, k := range it.Kids {
				c04EmitRead(e, k)
			}
		})
		return
	}
	c04Emit(e, it)
}

// ttlv.Value view of an item (masks and enums with a real-tag hint have none)
func c04ToValue(it *c04Item) (ttlv.Value, bool) {
	v := ttlv.Value{Tag: it.Tag}
	switch it.K {
	case "struct":
		st := ttlv.Struct{}
		for _, k := range it.Kids {
			kv, ok := c04ToValue(k)
			if !ok {
				return v, false
			}
			st = append(st, kv)
		}
		v.Value = st
	case "int":
		v.Value = int32(it.num().Int64())
	case "long":
		v.Value = it.num().Int64()
	case "big":
		v.Value = it.num()
	case "enum":
		if it.RTag != 0 {
			return v, false
		}
		v.Value = ttlv.Enum(uint32(it.num().Uint64()))
	case "bool":
		v.Value = it.B
	case "text":
		v.Value = string(it.bytes())
	case "bytes":
		v.Value = it.bytes()
	case "date":
		v.Value = c04Instant(it.num().Int64())
	case "intv":
		v.Value = time.Duration(it.num().Int64()) * time.Second
	default:
		return v, false
	}
	return v, true
}

// ------------------------------------------------------------------ outcomes

type c04Out struct {
	Class string // ok err panic skip
	Bytes []byte
	Msg   string
}

func (o c04Out) coq() string {
	switch o.Class {
	case "ok":
		return "(OOk " + h.HexBytes(o.Bytes) + ")"
	case "err":
		return "OErr"
	case "panic":
		return "OPanic"
	}
	return "OSkip"
}
func (o c04Out) String() string {
	if o.Class == "ok" {
		return "ok:" + hex.EncodeToString(o.Bytes)
	}
	if o.Msg != "" {
		return o.Class + ":" + o.Msg
	}
	return o.Class
}

var c04Skip = c04Out{Class: "skip"}

// c04Run runs f under recover; f returns the binary re-encoding of what it decoded.
func c04Run(f func() ([]byte, error)) (o c04Out) {
	defer func() {
		if r := recover(); r != nil {
			o = c04Out{Class: "panic", Msg: fmt.Sprint(r)}
		}
	}()
	b, err := f()
	if err != nil {
		return c04Out{Class: "err", Msg: err.Error()}
	}
	return c04Out{Class: "ok", Bytes: b}
}

func c04Wire(it *c04Item) (b []byte, pan any) {
	defer func() {
		if r := recover(); r != nil {
			pan = r
		}
	}()
	e := ttlv.NewTTLVEncoder()
	c04Emit(&e, it)
	return bytes.Clone(e.Bytes()), nil
}

func c04Encode(format string, it *c04Item) (b []byte, pan any) {
	defer func() {
		if r := recover(); r != nil {
			pan = r
		}
	}()
	var e ttlv.Encoder
	if format == "xml" {
		e = ttlv.NewXMLEncoder()
	} else {
		e = ttlv.NewJSONEncoder()
	}
	c04Emit(&e, it)
	return bytes.Clone(e.Bytes()), nil
}

// c04Instant: the instant handed to the writers; on some of them a sub-second part, which no encoding
// carries (whole seconds, truncated): what is written must not depend on it.
func c04Instant(sec int64) time.Time {
	return time.Unix(sec, []int64{0, 0, 499999999, 500000000, 999999999}[uint64(sec)%5])
}

func c04NewDecoder(format string, doc []byte) (ttlv.Decoder, error) {
	if format == "xml" {
		return ttlv.NewXMLDecoder(doc)
	}
	return ttlv.NewJSONDecoder(doc)
}

// typed re-read of doc following script, re-encoded to binary
func c04RereadDoc(format string, doc []byte, script *c04Item) c04Out {
	return c04Run(func() ([]byte, error) {
		d, err := c04NewDecoder(format, doc)
		if err != nil {
			return nil, err
		}
		r, err := c04Reread(&d, script)
		if err != nil {
			return nil, err
		}
		e := ttlv.NewTTLVEncoder()
		c04EmitRead(&e, r)
		return bytes.Clone(e.Bytes()), nil
	})
}

// Unmarshal into ttlv.Value, re-encoded to binary
func c04UnmarshalDoc(format string, doc []byte) c04Out {
	return c04Run(func() ([]byte, error) {
		var v ttlv.Value
		var err error
		if format == "xml" {
			err = ttlv.UnmarshalXML(doc, &v)
		} else {
			err = ttlv.UnmarshalJSON(doc, &v)
		}
		if err != nil {
			return nil, err
		}
		return bytes.Clone(ttlv.MarshalTTLV(v)), nil
	})
}

// ------------------------------------------------------------------ independent XML view

type c04X struct {
	Name  string
	Attrs [][2]string
	Kids  []*c04X
	Cut   bool
}

// c04ParseXML: element forest of doc as encoding/xml tokenises it; cut marks where a syntax
// error (or an unexpected end of input) stops the token stream.
func c04ParseXML(doc []byte) (roots []*c04X, cut bool) {
	d := xml.NewDecoder(bytes.NewReader(doc))
	var stack []*c04X
	for {
		tok, err := d.Token()
		if err != nil {
			if err == io.EOF && len(stack) == 0 {
				return roots, false
			}
			if len(stack) == 0 {
				return roots, true
			}
			for _, e := range stack {
				e.Cut = true
			}
			return roots, false
		}
		switch t := tok.(type) {
		case xml.StartElement:
			n := &c04X{Name: t.Name.Local}
			for _, a := range t.Attr {
				n.Attrs = append(n.Attrs, [2]string{a.Name.Local, a.Value})
			}
			if len(stack) == 0 {
				roots = append(roots, n)
			} else {
				p := stack[len(stack)-1]
				p.Kids = append(p.Kids, n)
			}
			stack = append(stack, n)
		case xml.EndElement:
			stack = stack[:len(stack)-1]
		}
	}
}

func (x *c04X) wellFormed() bool {
	if x.Cut {
		return false
	}
	for _, k := range x.Kids {
		if !k.wellFormed() {
			return false
		}
	}
	return true
}

// compact spellings of the strings that occur in almost every row (the cost of a cases file is
// the number of nodes Coq has to parse): attribute/member names, type names, registered tag names
var c04Reg = ttlv.VerifRegistryDump()

var c04TypeCodes = map[string]int{"Structure": 1, "Integer": 2, "LongInteger": 3, "BigInteger": 4, "Enumeration": 5, "Boolean": 6,
	"TextString": 7, "ByteString": 8, "DateTime": 9, "Interval": 10}

func c04KeyStr(s string) string {
	switch s {
	case "type":
		return "aT"
	case "value":
		return "aV"
	case "tag":
		return "aG"
	}
	return c04Str([]byte(s))
}

func c04NameStr(s string) string {
	if s == "TTLV" {
		return "nT"
	}
	if t, ok := c04Reg.TagByName[s]; ok && c04Reg.TagNames[t] == s {
		return fmt.Sprintf("(tn G %d)", t)
	}
	return c04Str([]byte(s))
}

func c04AttrVal(k, v string) string {
	if k == "type" {
		if c, ok := c04TypeCodes[v]; ok {
			return fmt.Sprintf("(tyn %d)", c)
		}
	}
	if k == "tag" {
		return c04NameStr(v)
	}
	return c04Str([]byte(v))
}

func (x *c04X) coq() string {
	as := make([]string, len(x.Attrs))
	for i, a := range x.Attrs {
		as[i] = "(" + c04KeyStr(a[0]) + ", " + c04AttrVal(a[0], a[1]) + ")"
	}
	ks := make([]string, len(x.Kids))
	for i, k := range x.Kids {
		ks[i] = k.coq()
	}
	return fmt.Sprintf("(XE %s %s %s %s)", c04NameStr(x.Name), h.List(as), h.List(ks), h.Bool(x.Cut))
}

func c04XList(l []*c04X) string {
	s := make([]string, len(l))
	for i, x := range l {
		s[i] = x.coq()
	}
	return h.List(s)
}

func (x *c04X) attr(name string) (string, bool) {
	for _, a := range x.Attrs {
		if a[0] == name {
			return a[1], true
		}
	}
	return "", false
}

// ------------------------------------------------------------------ independent JSON view

type c04J struct {
	K    byte // n b # s a o
	B    bool
	S    string
	Arr  []*c04J
	Keys []string
	Vals []*c04J
}

// c04ParseJSON: the first JSON value of doc, members in document order, numbers as literals.
func c04ParseJSON(doc []byte) (*c04J, error) {
	// validity as the library's Decode sees it
	chk := json.NewDecoder(bytes.NewReader(doc))
	chk.UseNumber()
	var any interface{}
	if err := chk.Decode(&any); err != nil {
		return nil, err
	}
	d := json.NewDecoder(bytes.NewReader(doc))
	d.UseNumber()
	return c04JSONValue(d)
}

func c04JSONValue(d *json.Decoder) (*c04J, error) {
	tok, err := d.Token()
	if err != nil {
		return nil, err
	}
	switch t := tok.(type) {
	case nil:
		return &c04J{K: 'n'}, nil
	case bool:
		return &c04J{K: 'b', B: t}, nil
	case json.Number:
		return &c04J{K: '#', S: string(t)}, nil
	case string:
		return &c04J{K: 's', S: t}, nil
	case json.Delim:
		switch t {
		case '[':
			n := &c04J{K: 'a'}
			for d.More() {
				v, err := c04JSONValue(d)
				if err != nil {
					return nil, err
				}
				n.Arr = append(n.Arr, v)
			}
			if _, err := d.Token(); err != nil {
				return nil, err
			}
			return n, nil
		case '{':
			n := &c04J{K: 'o'}
			for d.More() {
				kt, err := d.Token()
				if err != nil {
					return nil, err
				}
				k, ok := kt.(string)
				if !ok {
					return nil, fmt.Errorf("non-string key")
				}
				v, err := c04JSONValue(d)
				if err != nil {
					return nil, err
				}
				n.Keys = append(n.Keys, k)
				n.Vals = append(n.Vals, v)
			}
			if _, err := d.Token(); err != nil {
				return nil, err
			}
			return n, nil
		}
	}
	return nil, fmt.Errorf("unexpected token %v", tok)
}

// bigNumber: a number literal of magnitude 2^52 or more somewhere in the tree ("" if none)
func (j *c04J) bigNumber() string {
	switch j.K {
	case '#':
		if n, ok := new(big.Int).SetString(j.S, 10); ok && n.CmpAbs(c04Pow(52)) >= 0 {
			return j.S
		}
	case 'a':
		for _, v := range j.Arr {
			if s := v.bigNumber(); s != "" {
				return s
			}
		}
	case 'o':
		for _, v := range j.Vals {
			if s := v.bigNumber(); s != "" {
				return s
			}
		}
	}
	return ""
}

func (j *c04J) coq() string {
	switch j.K {
	case 'n':
		return "JNull"
	case 'b':
		return "(JBool " + h.Bool(j.B) + ")"
	case '#':
		return "(JNum " + c04Str([]byte(j.S)) + ")"
	case 's':
		return "(JStr " + c04Str([]byte(j.S)) + ")"
	case 'a':
		s := make([]string, len(j.Arr))
		for i, v := range j.Arr {
			s[i] = v.coq()
		}
		return "(JArr " + h.List(s) + ")"
	}
	s := make([]string, len(j.Keys))
	for i := range j.Keys {
		v := j.Vals[i]
		vs := ""
		if v.K == 's' && (j.Keys[i] == "type" || j.Keys[i] == "tag") {
			vs = "(JStr " + c04AttrVal(j.Keys[i], v.S) + ")"
		} else {
			vs = v.coq()
		}
		s[i] = "(" + c04KeyStr(j.Keys[i]) + ", " + vs + ")"
	}
	return "(JObj " + h.List(s) + ")"
}

// ------------------------------------------------------------------ registry dump

func c04RegistryCoq(reg ttlv.VerifRegistry) string {
	var sb strings.Builder
	name := func(s string) string { return c04Str([]byte(s)) }
	// tags
	var tags []int
	for t := range reg.TagNames {
		tags = append(tags, t)
	}
	sort.Ints(tags)
	var el []string
	for _, t := range tags {
		el = append(el, fmt.Sprintf("(%d, %s)", t, name(reg.TagNames[t])))
	}
	d, e := h.Chunk("reg_tags", "Z * list Z", el, 100)
	sb.WriteString(d)
	tagsExpr := e
	var names []string
	for n := range reg.TagByName {
		names = append(names, n)
	}
	sort.Strings(names)
	el = nil
	for _, n := range names {
		el = append(el, fmt.Sprintf("(%s, %d)", name(n), reg.TagByName[n]))
	}
	d, e = h.Chunk("reg_tags_rev", "list Z * Z", el, 100)
	sb.WriteString(d)
	tagsRevExpr := e
	// enums
	var etags []int
	for t := range reg.EnumNames {
		etags = append(etags, t)
	}
	sort.Ints(etags)
	el = nil
	for _, t := range etags {
		var vals []int
		for v := range reg.EnumNames[t] {
			vals = append(vals, int(v))
		}
		sort.Ints(vals)
		var l []string
		for _, v := range vals {
			l = append(l, fmt.Sprintf("(%d, %s)", v, name(reg.EnumNames[t][uint32(v)])))
		}
		el = append(el, fmt.Sprintf("(%d, %s)", t, h.List(l)))
	}
	d, e = h.Chunk("reg_enums", "Z * list (Z * list Z)", el, 8)
	sb.WriteString(d)
	enumsExpr := e
	etags = nil
	for t := range reg.EnumsByName {
		etags = append(etags, t)
	}
	sort.Ints(etags)
	el = nil
	for _, t := range etags {
		var ns []string
		for n := range reg.EnumsByName[t] {
			ns = append(ns, n)
		}
		sort.Strings(ns)
		var l []string
		for _, n := range ns {
			l = append(l, fmt.Sprintf("(%s, %d)", name(n), reg.EnumsByName[t][n]))
		}
		el = append(el, fmt.Sprintf("(%d, %s)", t, h.List(l)))
	}
	d, e = h.Chunk("reg_enums_rev", "Z * list (list Z * Z)", el, 8)
	sb.WriteString(d)
	enumsRevExpr := e
	// masks
	var mtags []int
	for t := range reg.BitmaskNames {
		mtags = append(mtags, t)
	}
	sort.Ints(mtags)
	el = nil
	for _, t := range mtags {
		var l []string
		for _, n := range reg.BitmaskNames[t] {
			l = append(l, name(n))
		}
		el = append(el, fmt.Sprintf("(%d, %s)", t, h.List(l)))
	}
	d, e = h.Chunk("reg_masks", "Z * list (list Z)", el, 8)
	sb.WriteString(d)
	masksExpr := e
	mtags = nil
	for t := range reg.BitmaskByName {
		mtags = append(mtags, t)
	}
	sort.Ints(mtags)
	el = nil
	for _, t := range mtags {
		var ns []string
		for n := range reg.BitmaskByName[t] {
			ns = append(ns, n)
		}
		sort.Strings(ns)
		var l []string
		for _, n := range ns {
			l = append(l, fmt.Sprintf("(%s, %s)", name(n), h.Z(int64(reg.BitmaskByName[t][n]))))
		}
		el = append(el, fmt.Sprintf("(%d, %s)", t, h.List(l)))
	}
	d, e = h.Chunk("reg_masks_rev", "Z * list (list Z * Z)", el, 8)
	sb.WriteString(d)
	masksRevExpr := e
	fmt.Fprintf(&sb, "Definition RT : regtables := {| t_tags := %s; t_tags_rev := %s; t_enums := %s; t_enums_rev := %s; t_masks := %s; t_masks_rev := %s |}.\n",
		tagsExpr, tagsRevExpr, enumsExpr, enumsRevExpr, masksExpr, masksRevExpr)
	sb.WriteString("Definition G : registry := Eval vm_compute in reg_of_tables RT.\n")
	return sb.String()
}

// ------------------------------------------------------------------ generator

type c04Gen struct {
	r        *h.Rand
	reg      ttlv.VerifRegistry
	tags     []int
	enumTags []int
	maskTags []int
	masksOK  bool // the Bitmask readers are repaired (mask 0 in JSON, bit 31)
}

func c04NewGen(r *h.Rand) *c04Gen {
	g := &c04Gen{r: r, reg: ttlv.VerifRegistryDump()}
	for t := range g.reg.TagNames {
		g.tags = append(g.tags, t)
	}
	sort.Ints(g.tags)
	for t := range g.reg.EnumNames {
		g.enumTags = append(g.enumTags, t)
	}
	sort.Ints(g.enumTags)
	for t := range g.reg.BitmaskNames {
		g.maskTags = append(g.maskTags, t)
	}
	sort.Ints(g.maskTags)
	g.masksOK = c04MasksRepaired()
	return g
}

// c04MasksRepaired probes whether the three Bitmask readers carry the repairs made on another
// branch (mask 0 written "" accepted by the JSON reader; 0x80000000 read back).
func c04MasksRepaired() bool {
	tag := kmip.TagCryptographicUsageMask
	ok := true
	o := c04Run(func() ([]byte, error) {
		d, err := ttlv.NewJSONDecoder([]byte(`{"tag":"CryptographicUsageMask","type":"Integer","value":""}`))
		if err != nil {
			return nil, err
		}
		_, err = d.Bitmask(0, tag)
		return nil, err
	})
	ok = ok && o.Class == "ok"
	for _, f := range []string{"xml", "json"} {
		doc := `<CryptographicUsageMask type="Integer" value="0x80000000"/>`
		if f == "json" {
			doc = `{"tag":"CryptographicUsageMask","type":"Integer","value":"0x80000000"}`
		}
		o := c04Run(func() ([]byte, error) {
			d, err := c04NewDecoder(f, []byte(doc))
			if err != nil {
				return nil, err
			}
			_, err = d.Bitmask(0, tag)
			return nil, err
		})
		ok = ok && o.Class == "ok"
	}
	return ok
}

func (g *c04Gen) pick(l []int) int { return l[g.r.Intn(len(l))] }

// a tag: registered, from the custom range, or any 24-bit number except 0
func (g *c04Gen) tag() int {
	switch g.r.Intn(4) {
	case 0, 1:
		return g.pick(g.tags)
	case 2:
		return 0x540000 + g.r.Intn(0x10000)
	}
	return 1 + g.r.Intn(1<<24-1)
}

var c04Pow = func(n uint) *big.Int { return new(big.Int).Lsh(big.NewInt(1), n) }

func c04IntPool() []int64 {
	return []int64{0, 1, -1, 9, 10, 127, 128, -128, -129, 255, 256, 65535, 65536, 1 << 24, 2147483647, -2147483648, 2147483646, -2147483647, 1234567890, -1000000}
}
func c04LongPool() []int64 {
	p52 := int64(1) << 52
	return []int64{0, 1, -1, 255, -256, 1 << 31, -(1 << 31), 1<<31 - 1, 1 << 32, 1<<32 - 1, -(1 << 32),
		p52 - 1, p52, p52 + 1, -p52 + 1, -p52, -p52 - 1, 1 << 53, 1<<62 + 12345, 9223372036854775807, -9223372036854775808, -9223372036854775807,
		0x0123456789abcdef, -0x0123456789abcdef}
}
func c04BigPool() []*big.Int {
	var l []*big.Int
	add := func(v *big.Int) { l = append(l, v, new(big.Int).Neg(v)) }
	add(big.NewInt(0))
	for _, n := range []uint{0, 7, 8, 15, 16, 23, 24, 31, 32, 39, 40, 47, 48, 51, 52, 53, 55, 56, 63, 64, 71, 72, 127, 128, 191, 192, 255, 256} {
		p := c04Pow(n)
		add(p)
		add(new(big.Int).Sub(p, big.NewInt(1)))
		add(new(big.Int).Add(p, big.NewInt(1)))
	}
	return l
}
func c04DatePool() []int64 {
	return []int64{0, 1, -1, 59, 60, 3599, 86399, 86400, -86400, -86401, 951782400 /*2000-02-29*/, 951868799, 951868800, 1709164800, /*2024-02-29*/
		4107542400 /*2100-03-01*/, 4107455999, 1700000000, 2147483647, 2147483648, 4294967295, 4294967296, -2208988800, /*1900*/
		253402300799, 253402300800, 253402300799 - 86400, -62135596800, -62135596801, -62135596800 + 86399, -62167219200 /*year 0*/, -62167219201,
		32503680000 /*3000*/, 1e12, -1e12}
}
func c04IntvPool() []int64 {
	return []int64{0, 1, 59, 60, 3600, 86400, 2147483647, 2147483648, 4294967295, 4294967294, 1000000}
}

var c04Texts = [][]byte{
	[]byte(""), []byte("a"), []byte("hello world"), []byte(" lead and trail "), []byte("0x12"), []byte("12"), []byte("true"),
	[]byte("<a href=\"x\">&amp;'</a>"), []byte("\"quoted\" \\back\\slash/"), []byte("]]>"), []byte("<!-- -->"), []byte("&#x41;"),
	{0}, []byte("a\x00b"), {1}, {7}, {8}, {9}, {10}, {11}, {12}, {13}, {0x1b}, {0x1f}, {0x7f}, []byte("tab\there\nnl\rcr"),
	[]byte("\u00e9"), []byte("\u20acuro"), []byte("\u65e5\u672c\u8a9e"), []byte("\u0080\u009f"), []byte("\u2028\u2029"), []byte("\ufeffbom"), []byte("\ufffd"),
	[]byte("\ufffe"), []byte("\uffff"), []byte("\ud7ff\ue000"), []byte("\U0001f600"), []byte("a\U0001f600b\U0010ffff"), []byte("\U00010000"),
	{0x80}, {0xbf}, {0xc0, 0x80}, {0xc1, 0xbf}, {0xc2}, {0xe2, 0x82}, {0xe0, 0x80, 0x80}, {0xed, 0xa0, 0x80}, {0xed, 0xbf, 0xbf},
	{0xf0, 0x80, 0x80, 0x80}, {0xf4, 0x90, 0x80, 0x80}, {0xf5}, {0xff}, {0xfe}, {'a', 0xff, 'b'}, {0xe2, 0x82, 0xac, 0xe2}, {0xf0, 0x9f, 0x98},
	[]byte("\\u0041"), []byte("\\x01"), []byte("line1\r\nline2"), []byte("  "), []byte("\t"), []byte("a b"), []byte("a\u3000b"),
}

func (g *c04Gen) text() []byte {
	if g.r.Chance(3, 5) {
		return c04Texts[g.r.Intn(len(c04Texts))]
	}
	n := g.r.Intn(24)
	if g.r.Chance(1, 20) {
		n = 200 + g.r.Intn(800)
	}
	var b []byte
	for len(b) < n {
		switch g.r.Intn(8) {
		case 0:
			b = append(b, byte(g.r.Intn(256)))
		case 1:
			b = utf8.AppendRune(b, rune(g.r.Intn(0x110000)))
		case 2:
			b = append(b, byte(g.r.Intn(0x20)))
		case 3:
			b = append(b, "<>&\"'\\"[g.r.Intn(6)])
		default:
			b = append(b, byte(0x20+g.r.Intn(0x5f)))
		}
	}
	return b
}

func (g *c04Gen) enumItem(tag int) *c04Item {
	it := &c04Item{K: "enum", Tag: tag}
	etag := tag
	switch g.r.Intn(3) {
	case 0: // Value style: no hint, tag is (or is not) an enum tag
		if g.r.Bool() {
			it.Tag = g.pick(g.enumTags)
			etag = it.Tag
		}
	default:
		it.RTag = g.pick(g.enumTags)
		etag = it.RTag
		if g.r.Chance(1, 4) {
			it.RTag = g.tag() // a hint that names no enumeration
			etag = it.RTag
		}
	}
	var v uint32
	names := g.reg.EnumNames[etag]
	switch {
	case len(names) > 0 && g.r.Chance(3, 5):
		var vals []int
		for x := range names {
			vals = append(vals, int(x))
		}
		sort.Ints(vals)
		v = uint32(g.pick(vals))
	case g.r.Bool():
		v = []uint32{0, 1, 2, 0x7fffffff, 0x80000000, 0xffffffff, 0x80000001, 255, 256, 0xfffffffe}[g.r.Intn(10)]
	default:
		v = uint32(g.r.U64())
	}
	it.N = fmt.Sprint(v)
	return it
}

func (g *c04Gen) maskItem(tag int) *c04Item {
	it := &c04Item{K: "mask", Tag: tag}
	switch g.r.Intn(4) {
	case 0:
		it.Tag = g.pick(g.maskTags)
	case 1, 2:
		it.RTag = g.pick(g.maskTags)
	default:
		if g.r.Bool() {
			it.RTag = g.tag()
		}
	}
	var v int32
	switch g.r.Intn(6) {
	case 0:
		v = 1 << g.r.Intn(32)
	case 1:
		v = int32(g.r.U64()) & 0xfffff
	case 2:
		v = []int32{0, 1, 2, 3, 0x7fffffff, -1, -2147483648, 0x100000, 0x40000000, 12}[g.r.Intn(10)]
	default:
		v = int32(g.r.U64())
	}
	if !g.masksOK {
		v &= 0x7fffffff
		if v == 0 {
			v = 1 << g.r.Intn(31)
		}
	}
	it.N = fmt.Sprint(v)
	return it
}

var c04Kinds = []string{"int", "long", "big", "enum", "bool", "text", "bytes", "date", "intv", "mask"}

func (g *c04Gen) scalar(kind string) *c04Item {
	tag := g.tag()
	r := g.r
	switch kind {
	case "int":
		p := c04IntPool()
		if r.Bool() {
			return c04Int64("int", tag, p[r.Intn(len(p))])
		}
		return c04Int64("int", tag, int64(int32(r.U64())))
	case "long":
		p := c04LongPool()
		if r.Bool() {
			return c04Int64("long", tag, p[r.Intn(len(p))])
		}
		return c04Int64("long", tag, int64(r.U64())>>uint(r.Intn(64)))
	case "big":
		p := c04BigPool()
		if r.Bool() {
			return c04Num("big", tag, p[r.Intn(len(p))])
		}
		v := new(big.Int).SetBytes(r.Bytes(1 + r.Intn(24)))
		if r.Bool() {
			v.Neg(v)
		}
		return c04Num("big", tag, v)
	case "enum":
		return g.enumItem(tag)
	case "bool":
		return &c04Item{K: "bool", Tag: tag, B: r.Bool()}
	case "text":
		return c04Bytes("text", tag, g.text())
	case "bytes":
		n := r.Intn(18)
		if r.Chance(1, 20) {
			n = 100 + r.Intn(400)
		}
		return c04Bytes("bytes", tag, r.Bytes(n))
	case "date":
		p := c04DatePool()
		if r.Bool() {
			return c04Int64("date", tag, p[r.Intn(len(p))])
		}
		return c04Int64("date", tag, -62135596800+int64(r.U64()%315537897600))
	case "intv":
		p := c04IntvPool()
		if r.Bool() {
			return c04Int64("intv", tag, p[r.Intn(len(p))])
		}
		return c04Int64("intv", tag, int64(uint32(r.U64())))
	case "mask":
		return g.maskItem(tag)
	}
	panic(kind)
}

func (g *c04Gen) tree(depth int, valueOnly bool) *c04Item {
	r := g.r
	if depth > 0 && r.Chance(2, 5) {
		it := &c04Item{K: "struct", Tag: g.tag()}
		n := r.Intn(5)
		if r.Chance(1, 10) {
			n = 0
		}
		for i := 0; i < n; i++ {
			it.Kids = append(it.Kids, g.tree(depth-1, valueOnly))
		}
		return it
	}
	for {
		it := g.scalar(c04Kinds[r.Intn(len(c04Kinds))])
		if valueOnly {
			if _, ok := c04ToValue(it); !ok {
				continue
			}
		}
		return it
	}
}

// ------------------------------------------------------------------ representability (the property's hypothesis)

func c04XMLChar(r rune) bool {
	return r == 0x9 || r == 0xa || r == 0xd || (r >= 0x20 && r <= 0xd7ff) || (r >= 0xe000 && r <= 0xfffd) || (r >= 0x10000 && r <= 0x10ffff)
}

func c04TextOK(format string, b []byte) bool {
	if !utf8.Valid(b) {
		return false
	}
	if format == "xml" {
		for _, r := range string(b) {
			if !c04XMLChar(r) {
				return false
			}
		}
	}
	return true
}

const (
	c04DateMin = -62135596800
	c04DateMax = 253402300799
)

// representable: text the format can carry, dates in years 1..9999 (the hypothesis of C04)
func (it *c04Item) representable(format string) bool {
	switch it.K {
	case "struct":
		for _, k := range it.Kids {
			if !k.representable(format) {
				return false
			}
		}
	case "text":
		return c04TextOK(format, it.bytes())
	case "date":
		v := it.num().Int64()
		return v >= c04DateMin && v <= c04DateMax
	}
	return true
}

// ------------------------------------------------------------------ part (a): writer rows + round trip oracle

type c04RRow struct {
	doc string
	ops []string
}

type c04Tables struct {
	xw, jw []string
	xr, jr []*c04RRow
	idx    map[string]int // format|doc -> row
	nops   int
}

func (c04t *c04Tables) count() int { return len(c04t.xw) + len(c04t.jw) + c04t.nops }

// addRead records one (operation, outcome) on a document; operations on the same document share its tree.
func (c04t *c04Tables) addRead(format, key, docCoq, op string) int {
	if c04t.idx == nil {
		c04t.idx = map[string]int{}
	}
	c04t.nops++
	rows := &c04t.xr
	if format == "json" {
		rows = &c04t.jr
	}
	if i, ok := c04t.idx[format+"|"+key]; ok {
		(*rows)[i].ops = append((*rows)[i].ops, op)
		return i
	}
	*rows = append(*rows, &c04RRow{doc: docCoq, ops: []string{op}})
	c04t.idx[format+"|"+key] = len(*rows) - 1
	return len(*rows) - 1
}

func c04RRows(l []*c04RRow) []string {
	out := make([]string, len(l))
	for i, r := range l {
		out[i] = "(" + r.doc + ", " + h.List(r.ops) + ")"
	}
	return out
}

func c04CaseA(c *h.Ctx, t *c04Tables, it *c04Item, model bool) {
	wire, pan := c04Wire(it)
	caseJSON := map[string]any{"part": "a", "item": it}
	if pan != nil {
		c.Fail("C04/binary-writer-panic", fmt.Sprintf("binary writer panicked: %v", pan), caseJSON)
		return
	}
	val, isValue := c04ToValue(it)
	for _, format := range []string{"xml", "json"} {
		cj := map[string]any{"part": "a", "format": format, "item": it}
		doc, pan := c04Encode(format, it)
		if pan != nil {
			c.Fail("C04/"+format+"/writer-panic", fmt.Sprintf("%s writer panicked: %v", format, pan), cj)
			continue
		}
		cj["doc"] = string(doc)
		repr := it.representable(format)
		c.Eval(format+"|"+it.coq(), it.K == "struct" || true)
		c.Count("a:" + format + ":" + it.K)
		if !repr {
			c.Count("a:" + format + ":unrepresentable")
		}
		// (1) well-formed for an independent parser
		var xt []*c04X
		var jt *c04J
		wf := true
		if format == "xml" {
			var cut bool
			xt, cut = c04ParseXML(doc)
			wf = !cut && len(xt) == 1 && xt[0].wellFormed()
		} else {
			var err error
			jt, err = c04ParseJSON(doc)
			wf = err == nil && json.Valid(doc)
		}
		if !wf {
			c.Fail("C04/"+format+"/output-not-well-formed:"+it.kindPath(), fmt.Sprintf("%s output is rejected by the independent parser: %q", format, c04Trunc(doc)), cj)
			continue
		}
		if format == "json" {
			if lit := jt.bigNumber(); lit != "" {
				c.Fail("C04/json/number-not-exact-in-javascript", fmt.Sprintf("JSON output carries the number %s: 2^52 or more in magnitude must be written as a hex string", lit), cj)
			}
		}
		// (2) typed re-read and (3) Unmarshal into ttlv.Value, both re-encoded to binary
		o1 := c04RereadDoc(format, doc, it)
		o2 := c04Skip
		if isValue {
			o2 = c04UnmarshalDoc(format, doc)
			// the library's own Marshal must agree with the typed calls
			var md []byte
			mo := c04Run(func() ([]byte, error) {
				if format == "xml" {
					md = ttlv.MarshalXML(val)
				} else {
					md = ttlv.MarshalJSON(val)
				}
				return nil, nil
			})
			if mo.Class != "ok" || !bytes.Equal(md, doc) {
				c.Fail("C04/"+format+"/marshal-differs-from-calls", "Marshal of ttlv.Value differs from the same writer calls", cj)
			}
		}
		for k, o := range []c04Out{o1, o2} {
			what := []string{"typed re-read", "Unmarshal into ttlv.Value"}[k]
			sigk := []string{"reread", "value"}[k]
			switch {
			case o.Class == "skip":
			case o.Class == "panic":
				c.Fail("C04/"+format+"/reader-panic:"+it.kindPath(), fmt.Sprintf("%s of the library's own %s output panicked: %s", what, format, o.Msg), cj)
			case !repr:
			case o.Class == "err":
				c.Fail("C04/"+format+"/own-output-rejected:"+sigk+":"+it.kindPath(), fmt.Sprintf("%s of the library's own %s output failed: %s", what, format, o.Msg), cj)
			case !bytes.Equal(o.Bytes, wire):
				c.Fail("C04/"+format+"/roundtrip-differs:"+sigk+":"+it.kindPath(), fmt.Sprintf("%s of the %s output re-encodes to %x, original is %x", what, format, c04Trunc(o.Bytes), c04Trunc(wire)), cj)
			}
		}
		if !model {
			continue
		}
		wcoq := func(o c04Out) string {
			if o.Class == "ok" && bytes.Equal(o.Bytes, wire) {
				return "OWire"
			}
			return o.coq()
		}
		if format == "xml" {
			t.xw = append(t.xw, fmt.Sprintf("(%s, %s, %s, %s)", it.coq(), xt[0].coq(), wcoq(o1), wcoq(o2)))
			c.IndexCase("mism_xml_write", len(t.xw)-1, cj)
		} else {
			t.jw = append(t.jw, fmt.Sprintf("(%s, %s, %s, %s)", it.coq(), jt.coq(), wcoq(o1), wcoq(o2)))
			c.IndexCase("mism_json_write", len(t.jw)-1, cj)
		}
	}
}

func c04Trunc(b []byte) []byte {
	if len(b) > 300 {
		return b[:300]
	}
	return b
}

// kindPath names the input class of an item for failure signatures: the kind of the first
// scalar that is not plain (or the item's own kind).
func (it *c04Item) kindPath() string {
	if it.K != "struct" {
		return it.K
	}
	return "struct"
}

// ------------------------------------------------------------------ driver

func driveC04(c *h.Ctx) error {
	c.Rule("(a) writer calls (all eleven kinds, registered/unregistered tags, boundary and random scalars, text incl. control, markup, non-BMP and invalid UTF-8, nesting) " +
		"through the real XML and JSON encoders: output parsed by encoding/xml / encoding/json and compared with the model's tree, typed re-read and Unmarshal into ttlv.Value " +
		"re-encoded to binary and compared with the original bytes and with the model's reader; (b) hand-made alternative-form and malformed documents through the real readers " +
		"vs the model; (c) KMIP messages of many operations x 5 versions through XML and JSON and back; (d) OASIS XML vectors decoded and re-encoded, element trees compared " +
		"semantically. A case is non-trivial unless it is a bare boolean; distinct by format and item/document.")
	g := c04NewGen(c.Rng.Fork(1))
	c.Extra("bitmask_readers_repaired", g.masksOK)
	t := &c04Tables{}
	if c.Replay != nil {
		if m, _ := c.Replay["case"].(map[string]any); m != nil && (m["part"] == "interval" || m["part"] == "retained") {
			c04IntervalLeg(c)
			c04RetainedLeg(c)
			return c04WriteCases(c, g, t)
		}
		return c04Replay(c, g, t)
	}
	c04IntervalLeg(c)
	c04RetainedLeg(c)
	// exhaustive small part: every pool value of every kind, bare and inside a structure
	var singles []*c04Item
	regTag := kmip.TagObjectGroup
	for _, v := range c04IntPool() {
		singles = append(singles, c04Int64("int", regTag, v), c04Int64("int", 0x540001, v))
	}
	for _, v := range c04LongPool() {
		singles = append(singles, c04Int64("long", kmip.TagUsageLimitsTotal, v), c04Int64("long", 0x00abcd, v))
	}
	for _, v := range c04BigPool() {
		singles = append(singles, c04Num("big", kmip.TagP, v))
	}
	for _, v := range c04DatePool() {
		singles = append(singles, c04Int64("date", kmip.TagActivationDate, v))
	}
	for _, v := range c04IntvPool() {
		singles = append(singles, c04Int64("intv", kmip.TagLeaseTime, v))
	}
	for _, s := range c04Texts {
		singles = append(singles, c04Bytes("text", kmip.TagName, s))
	}
	for n := 0; n <= 17; n++ {
		singles = append(singles, c04Bytes("bytes", kmip.TagKeyMaterial, g.r.Bytes(n)))
	}
	singles = append(singles, &c04Item{K: "bool", Tag: kmip.TagSensitive, B: true}, &c04Item{K: "bool", Tag: 0xffffff, B: false})
	singles = append(singles, &c04Item{K: "struct", Tag: kmip.TagAttribute}, &c04Item{K: "struct", Tag: 0x000001})
	// every named value of every enumeration (quick: a rotating third), plus unnamed ones
	for i, et := range g.enumTags {
		var vals []int
		for v := range g.reg.EnumNames[et] {
			vals = append(vals, int(v))
		}
		sort.Ints(vals)
		for j, v := range vals {
			if c.Quick() && len(vals) > 12 && (i+j+int(c.Seed))%8 != 0 {
				continue
			}
			singles = append(singles, &c04Item{K: "enum", Tag: et, N: fmt.Sprint(v)})
			if j%3 == 0 {
				singles = append(singles, &c04Item{K: "enum", Tag: kmip.TagAttributeValue, RTag: et, N: fmt.Sprint(v)})
			}
		}
		singles = append(singles, &c04Item{K: "enum", Tag: et, N: "0"}, &c04Item{K: "enum", Tag: et, N: "4294967295"}, &c04Item{K: "enum", Tag: 0x540002, RTag: et, N: "2147483648"})
	}
	// every single bit and some combinations of every mask
	for _, mt := range g.maskTags {
		for b := 0; b < 32; b++ {
			if b == 31 && !g.masksOK {
				continue
			}
			singles = append(singles, &c04Item{K: "mask", Tag: mt, N: fmt.Sprint(int32(1) << b)})
		}
		singles = append(singles, &c04Item{K: "mask", Tag: kmip.TagAttributeValue, RTag: mt, N: "15"}, &c04Item{K: "mask", Tag: mt, N: "2147483647"})
		if g.masksOK {
			singles = append(singles, &c04Item{K: "mask", Tag: mt, N: "0"}, &c04Item{K: "mask", Tag: mt, N: "-1"}, &c04Item{K: "mask", Tag: mt, N: "-2147483648"})
		}
	}
	for i, it := range singles {
		c04CaseA(c, t, it, true)
		if i%7 == 0 {
			c04CaseA(c, t, &c04Item{K: "struct", Tag: g.tag(), Kids: []*c04Item{it}}, true)
		}
	}
	// random trees
	n := c.Pick(300, 6000)
	for i := 0; i < n; i++ {
		g.r = c.Rng.Fork(uint64(1000 + i))
		it := g.tree(3, i%3 == 0)
		c04CaseA(c, t, it, it.size() <= c.Pick(14, 40) && (c.Quick() || i%4 == 0))
		if i%97 == 0 {
			c.Sample(map[string]any{"part": "a", "item": it})
		}
	}
	// (b) alternative forms, wrong shapes, truncations
	docs := append(c04AltDocs(c, g), c04ShapeDocs(g)...)
	for i, d := range docs {
		c04CaseB(c, t, d, true)
		if i%503 == 0 {
			c.Sample(map[string]any{"part": "b", "doc": d})
		}
	}
	// (b') metamorphic: what a structure's callback leaves unread does not influence what is read
	nm := c.Pick(300, 4000)
	for i := 0; i < nm; i++ {
		g.r = c.Rng.Fork(uint64(500000 + i))
		it := g.tree(4, i%2 == 0)
		c04CaseSkip(c, g, it, g.r.U64()>>12)
	}
	// (b'') random tree-level mutations of the writers' own output
	for i := 0; i < c.Pick(250, 5000); i++ {
		r := c.Rng.Fork(uint64(600000 + i))
		g.r = r
		c04CaseMutated(c, g, t, g.tree(2, i%2 == 0), r)
	}
	// (c) typed KMIP messages, (d) OASIS vectors (oracle on the implementation only)
	c04Messages(c, g)
	c04Vectors(c, g)
	return c04WriteCases(c, g, t)
}

func c04WriteCases(c *h.Ctx, g *c04Gen, t *c04Tables) error {
	var sb strings.Builder
	sb.WriteString("From Coq Require Import String Ascii ZArith List Bool.\nFrom KV Require Import Base Wire Cursor TextLex TextFmt TextRows Cases.\nImport ListNotations.\nOpen Scope Z_scope.\nOpen Scope string_scope.\n")
	sb.WriteString(c04RegistryCoq(g.reg))
	sb.WriteString("Definition mism_registry_ok := Eval vm_compute in (if tables_okb RT then @nil Z else [0]).\nPrint mism_registry_ok.\n")
	d, e := h.Chunk("xw", "item * xelem * oc * oc", t.xw, 200)
	sb.WriteString(d)
	fmt.Fprintf(&sb, "Definition mism_xml_write := Eval vm_compute in bad_idx (xw_ok G) %s 0.\nPrint mism_xml_write.\n", e)
	d, e = h.Chunk("jw", "item * jvalue * oc * oc", t.jw, 200)
	sb.WriteString(d)
	fmt.Fprintf(&sb, "Definition mism_json_write := Eval vm_compute in bad_idx (jw_ok G) %s 0.\nPrint mism_json_write.\n", e)
	d, e = h.Chunk("xr", "list xelem * bool * list (option item * oc)", c04RRows(t.xr), 200)
	sb.WriteString(d)
	fmt.Fprintf(&sb, "Definition mism_xml_read := Eval vm_compute in bad_idx (xr_ok G) %s 0.\nPrint mism_xml_read.\n", e)
	d, e = h.Chunk("jr", "jvalue * list (option item * oc)", c04RRows(t.jr), 200)
	sb.WriteString(d)
	fmt.Fprintf(&sb, "Definition mism_json_read := Eval vm_compute in bad_idx (jr_ok G) %s 0.\nPrint mism_json_read.\n", e)
	return c.WriteCases("cases_C04.v", sb.String(), t.count()+1)
}

func c04Replay(c *h.Ctx, g *c04Gen, t *c04Tables) error {
	m, _ := c.Replay["case"].(map[string]any)
	if m == nil {
		return fmt.Errorf("replay file has no case")
	}
	switch m["part"] {
	case "a":
		b, _ := json.Marshal(m["item"])
		var it c04Item
		if err := json.Unmarshal(b, &it); err != nil {
			return err
		}
		c04CaseA(c, t, &it, true)
	case "b":
		b, _ := json.Marshal(m["doc"])
		var d c04Doc
		if err := json.Unmarshal(b, &d); err != nil {
			return err
		}
		c04CaseB(c, t, d, true)
	case "skip":
		b, _ := json.Marshal(m["item"])
		var it c04Item
		if err := json.Unmarshal(b, &it); err != nil {
			return err
		}
		c04CaseSkip(c, g, &it, uint64(m["rng"].(float64)))
	case "c":
		if err := c04ReplayMessage(c, m); err != nil {
			return err
		}
	case "d":
		if err := c04ReplayVector(c, g, m); err != nil {
			return err
		}
	default:
		return fmt.Errorf("unknown case part %v", m["part"])
	}
	return c04WriteCases(c, g, t)
}

// ------------------------------------------------------------------ part (b): alternative forms and malformed documents

type c04Doc struct {
	Format string   `json:"format"`
	Doc    string   `json:"doc_hex"`
	Script *c04Item `json:"script,omitempty"` // nil: Unmarshal into ttlv.Value
	Note   string   `json:"note"`
}

func c04MkDoc(format string, doc string, script *c04Item, note string) c04Doc {
	return c04Doc{Format: format, Doc: hex.EncodeToString([]byte(doc)), Script: script, Note: note}
}

func c04PanicClass(msg string) string {
	switch {
	case strings.Contains(msg, "Invalid type"):
		return "invalid-type-name"
	case strings.Contains(msg, "interface conversion"):
		return "unchecked-type-assertion"
	case strings.Contains(msg, "index out of range"), strings.Contains(msg, "slice bounds"):
		return "index-out-of-range"
	case strings.Contains(msg, "nil pointer"):
		return "nil-dereference"
	case strings.Contains(msg, "interval cannot be negative"):
		return "negative-interval-reencoded"
	}
	return "other"
}

func c04CaseB(c *h.Ctx, t *c04Tables, d c04Doc, model bool) c04Out {
	doc, _ := hex.DecodeString(d.Doc)
	var o c04Out
	if d.Script == nil {
		o = c04UnmarshalDoc(d.Format, doc)
	} else {
		o = c04RereadDoc(d.Format, doc, d.Script)
	}
	key := d.Format + "|" + d.Doc
	if d.Script != nil {
		key += "|" + d.Script.coq()
	}
	c.Eval(key, true)
	c.Count("b:" + d.Format + ":" + d.Note)
	c.Count("b:outcome:" + o.Class)
	cj := map[string]any{"part": "b", "doc": d, "doc_text": string(c04Trunc(doc)), "observed": o.String()}
	if o.Class == "panic" {
		c.Fail("C04/"+d.Format+"/reader-panic:"+c04PanicClass(o.Msg), fmt.Sprintf("%s reader panicked (%s) on %q", d.Format, o.Msg, c04Trunc(doc)), cj)
	}
	c04AltOracle(c, d, doc, o, cj)
	script := "None"
	if d.Script != nil {
		script = "(Some " + d.Script.coq() + ")"
	}
	if d.Format == "xml" {
		roots, cut := c04ParseXML(doc)
		if model {
			i := t.addRead("xml", d.Doc, c04XList(roots)+", "+h.Bool(cut), "("+script+", "+o.coq()+")")
			c.IndexCase("mism_xml_read", i, cj)
		}
	} else {
		jt, err := c04ParseJSON(doc)
		if err != nil {
			if o.Class == "ok" {
				c.Fail("C04/json/accepts-invalid-json", fmt.Sprintf("JSON reader accepts %q which encoding/json rejects (%v)", c04Trunc(doc), err), cj)
			}
			return o
		}
		if model {
			i := t.addRead("json", d.Doc, jt.coq(), "("+script+", "+o.coq()+")")
			c.IndexCase("mism_json_read", i, cj)
		}
	}
	return o
}

func c04XMLEsc(s string) string {
	var sb strings.Builder
	for i := 0; i < len(s); i++ {
		ch := s[i]
		switch {
		case ch == '&':
			sb.WriteString("&amp;")
		case ch == '<':
			sb.WriteString("&lt;")
		case ch == '"':
			sb.WriteString("&quot;")
		case ch == '\t' || ch == '\n' || ch == '\r':
			fmt.Fprintf(&sb, "&#x%X;", ch)
		default:
			sb.WriteByte(ch)
		}
	}
	return sb.String()
}

func c04JSONStr(s string) string {
	b, _ := json.Marshal(s)
	return string(b)
}

var c04TypeNames = map[string]string{"struct": "Structure", "int": "Integer", "long": "LongInteger", "big": "BigInteger", "enum": "Enumeration",
	"bool": "Boolean", "text": "TextString", "bytes": "ByteString", "date": "DateTime", "intv": "Interval", "mask": "Integer"}

var c04NumStrs = []string{"0", "-0", "+5", "5", "-5", "007", "2147483647", "2147483648", "-2147483648", "-2147483649", "4294967295", "4294967296",
	"4503599627370496", "9223372036854775807", "9223372036854775808", "-9223372036854775808", "-9223372036854775809", "18446744073709551615", "18446744073709551616",
	"99999999999999999999999", "0x0", "0x00000000", "0xFF", "0xff", "0xFf", "0x7FFFFFFF", "0x80000000", "0xFFFFFFFF", "0x100000000", "0x7FFFFFFFFFFFFFFF",
	"0x8000000000000000", "0xFFFFFFFFFFFFFFFF", "0x10000000000000000", "0x", "0X10", "0x-1", "0x+1", "0x 1", "0xg", "1e3", "1.0", "1.5", " 1", "1 ", "", "-", "+", "--1", "+-1",
	"1_000", "0x1_0", "٣", "0b101", "0o17", "0x0000000000000000000000000001", "１", "x", "0x0000003b9aca00", "253402300799", "253402300800", "0x3afff4417f", "0x3afff44180"}

var c04JSONLits = []string{"0", "-0", "5", "-5", "2147483647", "2147483648", "-2147483648", "-2147483649", "4294967295", "4294967296", "4503599627370496",
	"9223372036854775807", "9223372036854775808", "-9223372036854775808", "-9223372036854775809", "1e3", "1E3", "1.0", "1.5", "0.0", "-1.0e0", "123456789012345678901234567890",
	"true", "false", "null", "[]", "[1]", "{}", `{"a":1}`, `[{"tag":"Name","type":"TextString","value":"x"}]`}

func c04KindStrs(g *c04Gen, kind string) []string {
	switch kind {
	case "big":
		return []string{"00", "FF", "ff", "7F", "80", "0080", "FF80", "ABC", "GG", "0x00", "0x", "0xFF", "0xff", "0x0080", "0xFFFFFFFFFFFFFF80", "0x0", "0xABC", "0xGG", "00 ", "0x00000000000000000000000000000001", "0xffffffffffffffffffffffffffffffff", "0x8000000000000000"}
	case "enum":
		return []string{"AES", "aes", "DES", "3DES", "Bogus", "SymmetricKey", "0x00000003", "0x3", "3", "0xffffffff", "-1", " AES", "AES "}
	case "bool":
		return []string{"true", "false", "1", "0", "t", "f", "T", "F", "TRUE", "FALSE", "True", "False", "yes", "tRuE", "2", "0x1", "0x0", "-1"}
	case "date":
		return []string{"2013-06-26T08:47:03Z", "2013-06-26T08:47:03+02:00", "2013-06-26T08:47:03-00:30", "2013-06-26T08:47:03.5Z", "2013-06-26T08:47:03,25+01:00",
			"2013-06-26T08:47:03.123456789012Z", "2013-06-26t08:47:03Z", "2013-06-26T08:47:03z", "2013-13-26T08:47:03Z", "2013-00-26T08:47:03Z", "2013-02-29T00:00:00Z", "2012-02-29T00:00:00Z",
			"2100-02-29T00:00:00Z", "2000-02-29T23:59:59Z", "2013-04-31T00:00:00Z", "2013-06-00T00:00:00Z", "2013-06-26T24:00:00Z", "2013-06-26T23:60:00Z", "2013-06-26T23:59:60Z",
			"0000-01-01T00:00:00Z", "0001-01-01T00:00:00Z", "9999-12-31T23:59:59Z", "10000-01-01T00:00:00Z", "-0001-01-01T00:00:00Z", "2013-06-26T08:47:03", "2013-06-26T08:47:03Zx",
			"2013-06-26 08:47:03Z", "2013-06-26T08:47:03+0200", "2013-06-26T08:47:03+24:00", "2013-06-26T08:47:03+25:00", "2013-06-26T08:47:03-23:60", "2013-06-26T08:47:03+23:61",
			"2013-06-26", "1970-01-01T00:00:00Z", "1969-12-31T23:59:59Z", "0001-01-01T00:00:00+00:01", "9999-12-31T23:59:59-00:01", "2013-6-26T08:47:03Z", "2013-06-26T08:47:03.Z",
			"0x0", "0x10", "0x3AFFF4417F", "0x3AFFF44180", "0xFFFFFFFFFFFFFFFF", "0x8000000000000000", "0x7FFFFFFFFFFFFFFF", "0xzz", "0x"}
	case "mask":
		l := []string{"Sign", "Sign Verify", "Sign  Verify", " Sign", "Sign ", "Sign\tVerify", "Sign\nVerify", "0x00000001", "0x1", "1", "3", "-1", "-2147483648", "2147483648", "Sign 0x00000004",
			"Sign|Verify", "Sign | Verify", "Sign|0x00000004|8", "Bogus", "sign", "OnLineStorage", "Sign\u00a0Verify", "Sign\u2003Verify", "Sign\u0085Verify", "\u3000Sign", "Sign\u200bVerify", "Sign\u2028Verify\u1680Encrypt",
			"0x7FFFFFFF", "Sign Sign", "+4", "0x00000001 0x00000002", "1 2 4", "Sign,Verify"}
		if g.masksOK {
			l = append(l, "0x80000000", "0xFFFFFFFF", "Sign 0x80000000", "|", "Sign|", "|Sign", "Sign||Verify", " ", " | ")
		}
		return l
	case "text":
		return []string{"hello", "<&>\"'", "0x41", "\x01", "é", "\U0001f600"}
	case "bytes":
		return []string{"00", "0a", "0A", "0", "zz", "00 11", "DEADBEEF", "deadbeef", "0x00", "DEADBEE"}
	}
	return nil
}

// c04AltDocs: one element per document, every kind x tag form x value literal.
func c04AltDocs(c *h.Ctx, g *c04Gen) []c04Doc {
	var docs []c04Doc
	type tf struct {
		xmlName, xmlAttr, jsonTag string
		tag                       int
	}
	forms := map[string][]tf{}
	for _, k := range c04Kinds {
		tag := map[string]int{"int": kmip.TagBatchCount, "long": kmip.TagUsageLimitsTotal, "big": kmip.TagP, "enum": kmip.TagCryptographicAlgorithm, "bool": kmip.TagSensitive,
			"text": kmip.TagName, "bytes": kmip.TagKeyMaterial, "date": kmip.TagActivationDate, "intv": kmip.TagLeaseTime, "mask": kmip.TagCryptographicUsageMask}[k]
		name := g.reg.TagNames[tag]
		forms[k] = []tf{{name, "", name, tag}, {"TTLV", fmt.Sprintf(` tag="0x%06X"`, tag), fmt.Sprintf("0x%06X", tag), tag}, {"TTLV", ` tag="0x54ab01"`, "0x54ab01", 0x54ab01}}
	}
	i := 0
	for _, k := range c04Kinds {
		strs := append(append([]string{}, c04NumStrs...), c04KindStrs(g, k)...)
		for fi, f := range forms[k] {
			script := &c04Item{K: k, Tag: f.tag}
			for _, s := range strs {
				i++
				if fi > 0 && (i+int(c.Seed))%5 != 0 && c.Quick() {
					continue
				}
				if k == "mask" && !g.masksOK && (strings.Contains(s, "0x8") || strings.Contains(s, "0xF") || strings.Contains(s, "0x1000") || s == "" || strings.Contains(s, "0x-") || strings.Contains(s, "0x+")) {
					continue // inputs on which the unrepaired Bitmask readers (ParseInt 16/32, empty JSON part) differ from the repaired ones
				}
				x := fmt.Sprintf(`<%s%s type="%s" value="%s"/>`, f.xmlName, f.xmlAttr, c04TypeNames[k], c04XMLEsc(s))
				j := fmt.Sprintf(`{"tag": %s, "type": %s, "value": %s}`, c04JSONStr(f.jsonTag), c04JSONStr(c04TypeNames[k]), c04JSONStr(s))
				docs = append(docs, c04MkDoc("xml", x, script, "alt:"+k), c04MkDoc("json", j, script, "alt:"+k))
				if k != "mask" {
					docs = append(docs, c04MkDoc("xml", x, nil, "alt-value:"+k), c04MkDoc("json", j, nil, "alt-value:"+k))
				}
			}
			if fi > 0 && c.Quick() {
				continue
			}
			for _, lit := range c04JSONLits {
				j := fmt.Sprintf(`{"tag": %s, "type": %s, "value": %s}`, c04JSONStr(f.jsonTag), c04JSONStr(c04TypeNames[k]), lit)
				docs = append(docs, c04MkDoc("json", j, script, "alt-lit:"+k), c04MkDoc("json", j, nil, "alt-lit-value:"+k))
			}
		}
	}
	return docs
}

// c04ShapeDocs: documents whose shape (not a scalar's spelling) is unusual or wrong.
func c04ShapeDocs(g *c04Gen) []c04Doc {
	var docs []c04Doc
	iName := &c04Item{K: "text", Tag: kmip.TagName}
	iCount := &c04Item{K: "int", Tag: kmip.TagBatchCount}
	sAttr := func(kids ...*c04Item) *c04Item { return &c04Item{K: "struct", Tag: kmip.TagAttribute, Kids: kids} }
	scripts := []*c04Item{nil, iName, iCount, sAttr(), sAttr(iName), sAttr(iName, iCount), sAttr(iCount),
		{K: "struct", Tag: kmip.TagTemplateAttribute, Kids: []*c04Item{sAttr(iName), iCount}},
		{K: "struct", Tag: kmip.TagTemplateAttribute, Kids: []*c04Item{sAttr(), sAttr(iName)}},
		{K: "struct", Tag: 0}, {K: "int", Tag: 0}}
	xmls := []string{
		``, ` `, `x`, `<!-- c -->`, `<?xml version="1.0" encoding="UTF-8"?>`, `<?xml version="1.0" encoding="ISO-8859-1"?><Name type="TextString" value="x"/>`,
		`<?xml version="1.0" encoding="UTF-8"?>` + "\n" + `<Name type="TextString" value="x"/>` + "\n",
		"\xef\xbb\xbf" + `<Name type="TextString" value="x"/>`,
		`<Name type="TextString" value="x"/>`, `<Name type="TextString" value="x"></Name>`, `<Name type='TextString' value='x'/>`, `<Name value="x" type="TextString"/>`,
		`<Name type="TextString" value="x" value="y"/>`, `<Name type="TextString" type="Integer" value="1"/>`, `<Name type="TextString"/>`, `<Name value="x"/>`, `<Name/>`,
		`<Name type="" value="x"/>`, `<Name type="Foo" value="x"/>`, `<Name type="textstring" value="x"/>`, `<Name type="Structure" value="x"/>`, `<Name type="Unknown(0B)" value="x"/>`,
		`<Name type="TextString" value="x">text</Name>`, `<Name type="TextString" value="x"><BatchCount type="Integer" value="1"/></Name>`,
		`<Name type="TextString" value="x"/><BatchCount type="Integer" value="1"/>`, `<Name type="TextString" value="x"/>trailing`, `<Name type="TextString" value="x"/><`,
		`<Name type="TextString" value="x"/><!-- c --><?pi x?>`,
		`<a:Name xmlns:a="urn:x" type="TextString" value="x"/>`, `<Name xmlns="urn:x" type="TextString" value="x"/>`, `<Name a:type="TextString" xmlns:a="urn:x" a:value="x"/>`,
		`<Bogus type="TextString" value="x"/>`, `<TTLV type="TextString" value="x"/>`, `<TTLV tag="" type="TextString" value="x"/>`, `<TTLV tag="Name" type="TextString" value="x"/>`,
		`<TTLV tag="0x420053" type="TextString" value="x"/>`, `<TTLV tag="0x42005g" type="TextString" value="x"/>`, `<TTLV tag="0x" type="TextString" value="x"/>`,
		`<TTLV tag="0X420053" type="TextString" value="x"/>`, `<TTLV tag="420053" type="TextString" value="x"/>`, `<TTLV tag="0x-1" type="TextString" value="x"/>`,
		`<TTLV tag="0x7FFFFFFF" type="TextString" value="x"/>`, `<TTLV tag="0x80000000" type="TextString" value="x"/>`, `<TTLV tag="0x000000" type="Integer" value="1"/>`,
		`<TTLV tag="0x0" type="Structure"/>`, `<ttlv tag="0x420053" type="TextString" value="x"/>`, `<Name tag="0x42000D" type="TextString" value="x"/>`,
		`<Attribute/>`, `<Attribute></Attribute>`, `<Attribute> </Attribute>`, `<Attribute><!-- c --></Attribute>`, `<Attribute>text</Attribute>`, `<Attribute><![CDATA[<x/>]]></Attribute>`,
		`<Attribute type="Structure"><Name type="TextString" value="x"/></Attribute>`,
		`<Attribute><Name type="TextString" value="x"/></Attribute>`, `<Attribute> <Name type="TextString" value="x"/> <BatchCount type="Integer" value="7"/> </Attribute>`,
		`<Attribute><BatchCount type="Integer" value="7"/><Name type="TextString" value="x"/></Attribute>`,
		`<Attribute><Name type="TextString" value="x"/><Bogus type="Integer" value="1"/><BatchCount type="Integer" value="7"/></Attribute>`,
		`<Attribute><Bogus type="Integer" value="1"/><Name type="TextString" value="x"/></Attribute>`,
		`<Attribute><Name type="TextString" value="x"/><BatchCount type="Foo" value="7"/></Attribute>`,
		`<Attribute><Name type="TextString" value="x"/><BatchCount type="Integer" value="seven"/></Attribute>`,
		`<Attribute><Name type="TextString" value="x"/><Attribute><BatchCount type="Integer" value="7"/></Attribute><BatchCount type="Integer" value="8"/></Attribute>`,
		`<TemplateAttribute><Attribute><Name type="TextString" value="x"/></Attribute><BatchCount type="Integer" value="8"/></TemplateAttribute>`,
		`<TemplateAttribute><Attribute><Name type="TextString" value="x"/><Attribute><BatchCount type="Integer" value="7"/></Attribute></Attribute><BatchCount type="Integer" value="8"/></TemplateAttribute>`,
		`<TemplateAttribute><Attribute><Bogus><Name type="TextString" value="x"/></Bogus><Name type="TextString" value="y"/></Attribute><BatchCount type="Integer" value="8"/></TemplateAttribute>`,
		`<TemplateAttribute><Attribute><Name type="TextString" value="x"/><Bogus><BatchCount type="Integer" value="7"/></Bogus><BatchCount type="Integer" value="9"/></Attribute><BatchCount type="Integer" value="8"/></TemplateAttribute>`,
		`<TemplateAttribute><Attribute/><Attribute><Name type="TextString" value="x"/></Attribute></TemplateAttribute>`,
		`<TemplateAttribute><Attribute><Attribute><Attribute/></Attribute></Attribute><Attribute><Name type="TextString" value="x"/></Attribute></TemplateAttribute>`,
		`<Attribute><Name type="TextString" value="x"/></Attribut>`, `<Attribute><Name type="TextString" value="x"></Attribute>`, `<Attribute><Name type="TextString" value=x/></Attribute>`,
		`<Attribute><Name type="TextString" value="a<b"/></Attribute>`, `<Attribute><Name type="TextString" value="&#x1;"/></Attribute>`, `<Attribute><Name type="TextString" value="&foo;"/></Attribute>`,
		`<Attribute><Name type="TextString" value="&#x41;&#65;&lt;&gt;&amp;&apos;&quot;"/></Attribute>`, `<Attribute><Name type="TextString" value="a` + "\n" + `b` + "\t" + `c"/></Attribute>`,
		`<!DOCTYPE x><Attribute/>`, `<Attribute><Name type="TextString" value="x"/></Attribute><Attribute>`,
		// value elements written with a separate end tag (XML produced elsewhere), white space or a comment in between, first / last in their structure
		`<Attribute><Name type="TextString" value="x"></Name><BatchCount type="Integer" value="7"/></Attribute>`,
		`<Attribute><Name type="TextString" value="x">` + "\n" + `</Name><BatchCount type="Integer" value="7"></BatchCount></Attribute>`,
		`<Attribute><Name type="TextString" value="x"/><BatchCount type="Integer" value="7">` + "\n  " + `</BatchCount></Attribute>`,
		`<Attribute><Name type="TextString" value="x"><!-- c --></Name><BatchCount type="Integer" value="7"><!-- d --> </BatchCount></Attribute>`,
		`<TemplateAttribute><Attribute><Name type="TextString" value="x">` + "\n" + `</Name></Attribute><BatchCount type="Integer" value="8">` + "\n" + `</BatchCount></TemplateAttribute>`,
		`<TemplateAttribute>` + "\n " + `<Attribute>` + "\n  " + `<Name type="TextString" value="x">` + "\n  " + `</Name>` + "\n " + `</Attribute>` + "\n " + `<Attribute><Name type="TextString" value="y"> </Name></Attribute>` + "\n" + `</TemplateAttribute>`,
	}
	for _, x := range xmls {
		for _, s := range scripts {
			docs = append(docs, c04MkDoc("xml", x, s, "shape"))
		}
	}
	// every prefix of two small documents
	for _, x := range []string{`<Attribute><Name type="TextString" value="x"/><Attribute><BatchCount type="Integer" value="7"/></Attribute></Attribute>`,
		`<?xml version="1.0"?><TTLV tag="0x420008"><Name type="TextString" value="&lt;"></Name><!-- c --></TTLV>`} {
		for n := 0; n < len(x); n++ {
			docs = append(docs, c04MkDoc("xml", x[:n], nil, "truncated"), c04MkDoc("xml", x[:n], sAttr(iName), "truncated"))
		}
	}
	nm := `{"tag":"Name","type":"TextString","value":"x"}`
	bc := `{"tag":"BatchCount","type":"Integer","value":7}`
	jsons := []string{
		``, ` `, `null`, `true`, `1`, `"x"`, `[]`, `[1]`, `{}`, `[` + nm + `]`, nm, ` ` + nm + ` `, nm + ` trailing`, nm + nm,
		`{"tag":"Name"}`, `{"tag":"Name","type":"TextString"}`, `{"tag":"Name","value":"x"}`, `{"type":"TextString","value":"x"}`, `{"value":"x"}`,
		`{"tag":"Name","type":"TextString","value":null}`, `{"tag":null,"type":"TextString","value":"x"}`, `{"tag":1,"type":"TextString","value":"x"}`,
		`{"tag":["Name"],"type":"TextString","value":"x"}`, `{"tag":{"a":1},"type":"TextString","value":"x"}`, `{"tag":true,"type":"TextString","value":"x"}`,
		`{"tag":"","type":"TextString","value":"x"}`, `{"tag":"Bogus","type":"TextString","value":"x"}`, `{"tag":"name","type":"TextString","value":"x"}`,
		`{"tag":"0x420053","type":"TextString","value":"x"}`, `{"tag":"0x42005g","type":"TextString","value":"x"}`, `{"tag":"0x","type":"TextString","value":"x"}`,
		`{"tag":"0x-1","type":"TextString","value":"x"}`, `{"tag":"0x7FFFFFFF","type":"TextString","value":"x"}`, `{"tag":"0x80000000","type":"TextString","value":"x"}`, `{"tag":"0x000000","type":"Integer","value":1}`,
		`{"tag":"Name","type":null,"value":"x"}`, `{"tag":"Name","type":5,"value":"x"}`, `{"tag":"Name","type":"","value":"x"}`, `{"tag":"Name","type":"Foo","value":"x"}`,
		`{"tag":"Name","type":"textstring","value":"x"}`, `{"tag":"Name","type":["TextString"],"value":"x"}`, `{"tag":"Name","type":"Structure","value":"x"}`, `{"tag":"Name","type":"Structure","value":[]}`,
		`{"tag":"Name","type":"TextString","value":"x","value":"y"}`, `{"tag":"BatchCount","tag":"Name","type":"TextString","value":"x"}`, `{"tag":"Name","type":"Integer","type":"TextString","value":"x"}`,
		`{"Tag":"Name","Type":"TextString","Value":"x"}`, `{"tag":"Name","type":"TextString","value":"x","extra":[1,2,{"a":null}]}`, `{"tag":"Name","type":"TextString","value":"\ud800"}`,
		`{"tag":"Name","type":"TextString","value":"\u0000\u001f😀\/"}`, "{\"tag\":\"Name\",\"type\":\"TextString\",\"value\":\"\xff\"}",
		`{"tag":"Attribute","value":[]}`, `{"tag":"Attribute","value":[` + nm + `]}`, `{"tag":"Attribute","value":[` + nm + `,` + bc + `]}`, `{"tag":"Attribute","value":[` + bc + `,` + nm + `]}`,
		`{"tag":"Attribute","type":"Structure","value":[` + nm + `]}`, `{"tag":"Attribute","value":` + nm + `}`, `{"tag":"Attribute","value":"x"}`, `{"tag":"Attribute","value":1}`, `{"tag":"Attribute","value":null}`,
		`{"tag":"Attribute","value":{}}`, `{"tag":"Attribute"}`, `{"tag":"Attribute","value":[1]}`, `{"tag":"Attribute","value":[null]}`, `{"tag":"Attribute","value":["x"]}`, `{"tag":"Attribute","value":[[]]}`,
		`{"tag":"Attribute","value":[[` + nm + `]]}`, `{"tag":"Attribute","value":[` + nm + `,1]}`, `{"tag":"Attribute","value":[1,` + nm + `]}`, `{"tag":"Attribute","value":[` + nm + `,{}]}`,
		`{"tag":"Attribute","value":[` + nm + `,{"tag":"Bogus","type":"Integer","value":1},` + bc + `]}`, `{"tag":"Attribute","value":[{"tag":"Bogus","type":"Integer","value":1},` + nm + `]}`,
		`{"tag":"Attribute","value":[` + nm + `,{"tag":"BatchCount","type":"Foo","value":7}]}`, `{"tag":"Attribute","value":[` + nm + `,{"tag":"BatchCount","type":"Integer","value":"seven"}]}`,
		`{"tag":"TemplateAttribute","value":[{"tag":"Attribute","value":[` + nm + `]},` + bc + `]}`,
		`{"tag":"TemplateAttribute","value":[{"tag":"Attribute","value":[{"tag":"Bogus","value":[` + nm + `]},` + nm + `]},` + bc + `]}`,
		`{"tag":"TemplateAttribute","value":[{"tag":"Attribute","value":[` + nm + `,{"tag":"Bogus","value":[` + bc + `]},` + bc + `]},` + bc + `]}`,
		`{"tag":"TemplateAttribute","value":[{"tag":"Attribute","value":[]},{"tag":"Attribute","value":[` + nm + `]}]}`,
		`{"tag":"TemplateAttribute","value":[{"tag":"Attribute","value":[` + nm + `,{"tag":"Attribute","value":[` + bc + `]}]},` + bc + `]}`,
		`{"tag":"TemplateAttribute","value":[{"tag":"Attribute","value":7},` + bc + `]}`, `{"tag":"TemplateAttribute","value":[7,` + bc + `]}`,
	}
	for _, j := range jsons {
		for _, s := range scripts {
			docs = append(docs, c04MkDoc("json", j, s, "shape"))
		}
	}
	for _, j := range []string{`{"tag":"Attribute","value":[` + nm + `, {"tag":"0x42000D", "type":"Integer", "value":-7e0}]}`} {
		for n := 0; n < len(j); n++ {
			docs = append(docs, c04MkDoc("json", j[:n], nil, "truncated"))
		}
	}
	return docs
}

// ------------------------------------------------------------------ part (b'): skipped content is inert

// c04Prune keeps, in every structure, a random prefix of the children (the part a callback reads).
func c04Prune(r *h.Rand, it *c04Item) *c04Item {
	if it.K != "struct" {
		return it
	}
	out := &c04Item{K: "struct", Tag: it.Tag}
	n := len(it.Kids)
	if n > 0 && r.Chance(1, 2) {
		n = r.Intn(n + 1)
	}
	for _, k := range it.Kids[:n] {
		out.Kids = append(out.Kids, c04Prune(r, k))
	}
	return out
}

// c04CaseSkip: the document of the full item, read with the script of the pruned item (every
// Struct callback stops early and the reader skips the rest), must give exactly the pruned item;
// and a child renamed to an unknown tag ends the generic ttlv.Value field loop there.
func c04CaseSkip(c *h.Ctx, g *c04Gen, it *c04Item, seed uint64) {
	pr := c04Prune(h.NewRand(seed), it)
	want, pan := c04Wire(pr)
	if pan != nil {
		return
	}
	for _, format := range []string{"xml", "json"} {
		if !it.representable(format) {
			continue
		}
		doc, pan := c04Encode(format, it)
		if pan != nil {
			continue
		}
		c.Eval("skip|"+format+"|"+it.coq()+"|"+pr.coq(), pr.size() < it.size())
		c.Count("skip:" + format)
		o := c04RereadDoc(format, doc, pr)
		cj := map[string]any{"part": "skip", "format": format, "item": it, "rng": seed, "script": pr, "doc": string(c04Trunc(doc)), "observed": o.String()}
		switch {
		case o.Class == "panic":
			c.Fail("C04/"+format+"/reader-panic:"+c04PanicClass(o.Msg), "typed read with early-stopping callbacks panicked: "+o.Msg, cj)
		case o.Class == "err":
			c.Fail("C04/"+format+"/unread-children-break-reading", "reading a prefix of each structure's children fails although the document is the library's own output: "+o.Msg, cj)
		case !bytes.Equal(o.Bytes, want):
			c.Fail("C04/"+format+"/unread-children-change-result", fmt.Sprintf("reading a prefix of each structure's children gives %x, expected %x", c04Trunc(o.Bytes), c04Trunc(want)), cj)
		}
	}
}

// c04AltOracle: for the alternative spellings whose meaning is fixed by the format (KMIP profiles:
// hex and decimal spellings of numbers, date-time as hex seconds, interval in seconds), the value
// decoded must be that number; a reader must never hand back a value its own writers cannot encode.
func c04AltOracle(c *h.Ctx, d c04Doc, doc []byte, o c04Out, cj map[string]any) {
	if d.Script == nil || d.Format != "json" || !strings.HasPrefix(d.Note, "alt") {
		return
	}
	jt, err := c04ParseJSON(doc)
	if err != nil || jt.K != 'o' {
		return
	}
	var val *c04J
	for i, k := range jt.Keys {
		if k == "value" {
			val = jt.Vals[i]
		}
	}
	if val == nil {
		return
	}
	item := func(k string, v int64) []byte {
		b, _ := c04Wire(c04Int64(k, d.Script.Tag, v))
		return b
	}
	switch d.Script.K {
	case "date":
		if val.K == 's' && strings.HasPrefix(val.S, "0x") {
			n, ok := new(big.Int).SetString(val.S[2:], 16)
			valid := ok && !strings.ContainsAny(val.S[2:], "+-_") && n.Sign() >= 0 && n.Cmp(big.NewInt(c04DateMax)) <= 0
			if valid && (o.Class != "ok" || !bytes.Equal(o.Bytes, item("date", n.Int64()))) {
				c.Fail("C04/json/datetime-hex-form-misread", fmt.Sprintf("date-time %q (hexadecimal seconds since the epoch) decodes to %s", val.S, o), cj)
			}
			if !valid && o.Class == "ok" {
				c.Fail("C04/json/datetime-hex-form-out-of-range-accepted", fmt.Sprintf("date-time %q is accepted (%s) although it is not a hexadecimal instant of years 1..9999", val.S, o), cj)
			}
		}
	case "intv":
		var n *big.Int
		ok := false
		switch {
		case val.K == '#':
			n, ok = new(big.Int).SetString(val.S, 10)
		case val.K == 's' && strings.HasPrefix(val.S, "0x") && !strings.ContainsAny(val.S[2:], "+-_"):
			n, ok = new(big.Int).SetString(val.S[2:], 16)
		case val.K == 's' && !strings.ContainsAny(val.S, "+-_"):
			n, ok = new(big.Int).SetString(val.S, 10)
		}
		if !ok {
			return
		}
		inRange := n.Sign() >= 0 && n.Cmp(big.NewInt(4294967295)) <= 0
		if inRange && (o.Class != "ok" || !bytes.Equal(o.Bytes, item("intv", n.Int64()))) {
			c.Fail("C04/json/interval-misread", fmt.Sprintf("interval %s (seconds) decodes to %s", val.S, o), cj)
		}
		if !inRange && o.Class == "ok" {
			c.Fail("C04/json/interval-out-of-range-accepted", fmt.Sprintf("interval %s is accepted (%s) although it is not an unsigned 32-bit number of seconds", val.S, o), cj)
		}
	}
}

// ------------------------------------------------------------------ part (b''): random tree-level mutations of the writers' output

func (j *c04J) text(sb *strings.Builder) {
	switch j.K {
	case 'n':
		sb.WriteString("null")
	case 'b':
		sb.WriteString(fmt.Sprint(j.B))
	case '#':
		sb.WriteString(j.S)
	case 's':
		sb.WriteString(c04JSONStr(j.S))
	case 'a':
		sb.WriteString("[")
		for i, v := range j.Arr {
			if i > 0 {
				sb.WriteString(",")
			}
			v.text(sb)
		}
		sb.WriteString("]")
	case 'o':
		sb.WriteString("{")
		for i := range j.Keys {
			if i > 0 {
				sb.WriteString(",")
			}
			sb.WriteString(c04JSONStr(j.Keys[i]) + ":")
			j.Vals[i].text(sb)
		}
		sb.WriteString("}")
	}
}

func (j *c04J) walk(f func(*c04J)) {
	f(j)
	for _, v := range j.Arr {
		v.walk(f)
	}
	for _, v := range j.Vals {
		v.walk(f)
	}
}

var c04MutVals = []string{"", "0", "-1", "1", "0x1", "0xFFFFFFFF", "0x80000000", "2147483648", "true", "false", "AES", "Sign Verify", "Sign|Verify", "00", "0G", "2001-01-01T00:00:00Z",
	"0x3AFFF4417F", "Bogus", "9223372036854775808", "-9223372036854775809", " 7", "x y", "4503599627370496"}
var c04MutTypes = []string{"Structure", "Integer", "LongInteger", "BigInteger", "Enumeration", "Boolean", "TextString", "ByteString", "DateTime", "Interval", "Foo", "", "integer"}

func c04MutateXML(r *h.Rand, root *c04X) string {
	var nodes [][2]*c04X
	c04Walk(root, nil, func(n, p *c04X) { nodes = append(nodes, [2]*c04X{n, p}) })
	pick := nodes[r.Intn(len(nodes))]
	n, p := pick[0], pick[1]
	setAttr := func(k, v string) {
		for i, a := range n.Attrs {
			if a[0] == k {
				n.Attrs[i][1] = v
				return
			}
		}
		n.Attrs = append(n.Attrs, [2]string{k, v})
	}
	switch r.Intn(10) {
	case 0:
		n.Name = []string{"Bogus", "TTLV", "Name", "Attribute", "ttlv"}[r.Intn(5)]
		return "rename"
	case 1, 2:
		setAttr("value", c04MutVals[r.Intn(len(c04MutVals))])
		return "value"
	case 3:
		setAttr("type", c04MutTypes[r.Intn(len(c04MutTypes))])
		return "type"
	case 4:
		if len(n.Attrs) > 0 {
			i := r.Intn(len(n.Attrs))
			n.Attrs = append(n.Attrs[:i:i], n.Attrs[i+1:]...)
		}
		return "drop-attr"
	case 5:
		n.Attrs = append(n.Attrs, [2]string{[]string{"value", "type", "tag"}[r.Intn(3)], c04MutVals[r.Intn(len(c04MutVals))]})
		return "dup-attr"
	case 6:
		setAttr("tag", []string{"0x420008", "0x42000b", "0x", "Name", "0xzz", "", "0x-1", "0x54FFFF"}[r.Intn(8)])
		return "tag-attr"
	case 7:
		if p != nil {
			for i, k := range p.Kids {
				if k == n {
					p.Kids = append(p.Kids[:i:i], p.Kids[i+1:]...)
					break
				}
			}
		}
		return "drop-elem"
	case 8:
		if p != nil {
			p.Kids = append(p.Kids, n.clone())
		} else {
			n.Kids = append(n.Kids, &c04X{Name: "Name", Attrs: [][2]string{{"type", "TextString"}, {"value", "x"}}})
		}
		return "dup-elem"
	default:
		n.Kids = append(n.Kids, &c04X{Name: "BatchCount", Attrs: [][2]string{{"type", "Integer"}, {"value", "1"}}})
		return "add-kid"
	}
}

func c04MutateJSON(r *h.Rand, root *c04J) string {
	var objs []*c04J
	root.walk(func(n *c04J) {
		if n.K == 'o' || n.K == 'a' {
			objs = append(objs, n)
		}
	})
	if len(objs) == 0 {
		return "none"
	}
	n := objs[r.Intn(len(objs))]
	lit := func() *c04J {
		switch r.Intn(8) {
		case 0:
			return &c04J{K: 'n'}
		case 1:
			return &c04J{K: 'b', B: r.Bool()}
		case 2:
			return &c04J{K: '#', S: []string{"0", "-1", "1", "1.5", "1e3", "2147483648", "4294967296", "-9223372036854775808", "9223372036854775808", "4503599627370496"}[r.Intn(10)]}
		case 3:
			return &c04J{K: 'a'}
		case 4:
			return &c04J{K: 'o'}
		case 5:
			return &c04J{K: 'a', Arr: []*c04J{{K: '#', S: "1"}}}
		default:
			return &c04J{K: 's', S: c04MutVals[r.Intn(len(c04MutVals))]}
		}
	}
	if n.K == 'a' {
		switch {
		case len(n.Arr) > 0 && r.Bool():
			n.Arr[r.Intn(len(n.Arr))] = lit()
			return "array-elem"
		case len(n.Arr) > 0 && r.Bool():
			i := r.Intn(len(n.Arr))
			n.Arr = append(n.Arr[:i:i], n.Arr[i+1:]...)
			return "array-drop"
		default:
			n.Arr = append(n.Arr, lit())
			return "array-add"
		}
	}
	if len(n.Keys) == 0 {
		return "none"
	}
	i := r.Intn(len(n.Keys))
	switch r.Intn(6) {
	case 0, 1:
		n.Vals[i] = lit()
		return "member-value"
	case 2:
		n.Keys = append(n.Keys[:i:i], n.Keys[i+1:]...)
		n.Vals = append(n.Vals[:i:i], n.Vals[i+1:]...)
		return "member-drop"
	case 3:
		n.Keys = append(n.Keys, n.Keys[i])
		n.Vals = append(n.Vals, lit())
		return "member-dup"
	case 4:
		n.Keys[i] = []string{"Tag", "TYPE", "val", "tag", "type", "value"}[r.Intn(6)]
		return "member-rename"
	default:
		if n.Keys[i] == "type" {
			n.Vals[i] = &c04J{K: 's', S: c04MutTypes[r.Intn(len(c04MutTypes))]}
			return "type"
		}
		if n.Keys[i] == "tag" {
			n.Vals[i] = &c04J{K: 's', S: []string{"Bogus", "0x420008", "0x", "Name", "0xzz", "", "0x-1", "name"}[r.Intn(8)]}
			return "tag"
		}
		n.Vals[i] = lit()
		return "member-value"
	}
}

// c04CaseMutated: the writers' output of a random item, mutated at tree level, read back with the
// original script and as ttlv.Value; the model reads the same mutated tree.
func c04CaseMutated(c *h.Ctx, g *c04Gen, t *c04Tables, it *c04Item, r *h.Rand) {
	for _, format := range []string{"xml", "json"} {
		if !it.representable(format) {
			continue
		}
		doc, pan := c04Encode(format, it)
		if pan != nil {
			continue
		}
		var out string
		kinds := ""
		if format == "xml" {
			roots, cut := c04ParseXML(doc)
			if cut || len(roots) != 1 {
				continue
			}
			for k := 1 + r.Intn(2); k > 0; k-- {
				kinds += c04MutateXML(r, roots[0]) + " "
			}
			var sb strings.Builder
			roots[0].xmlText(&sb)
			out = sb.String()
		} else {
			jt, err := c04ParseJSON(doc)
			if err != nil {
				continue
			}
			for k := 1 + r.Intn(2); k > 0; k-- {
				kinds += c04MutateJSON(r, jt) + " "
			}
			var sb strings.Builder
			jt.text(&sb)
			out = sb.String()
		}
		c.Count("b:mutation:" + strings.Fields(kinds + " none")[0])
		c04CaseB(c, t, c04MkDoc(format, out, it, "mutated"), true)
		if _, ok := c04ToValue(it); ok {
			c04CaseB(c, t, c04MkDoc(format, out, nil, "mutated"), true)
		}
	}
}
