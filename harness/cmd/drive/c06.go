package main

// C06: payloads, objects and attributes decode to their registered types.
//
// Implementation side: ttlv.UnmarshalTTLV on messages covering every operation code (registered,
// named but unregistered, boundary codes) in both directions, every object type, every attribute
// name (standard, custom x-/y-, unknown), plus crafted negatives (unknown object type, attribute
// value of the wrong type).
// Oracle (property text on the implementation): the Go dynamic type of every decoded payload is
// the type registered for (operation, direction) and reports that operation; objects have the
// type registered for the accompanying object type and report it; standard attributes hold their
// registered value type; unknown operations / custom attributes are kept as opaque TTLV that
// re-encodes byte-identically; an unknown object type is an error.
// Model rows: the decoded value INCLUDING dynamic types (VIface dyn ...) against KmipCodec.

import (
	"encoding/hex"
	"bytes"
	"encoding/binary"
	"fmt"
	"reflect"
	"strings"

	"github.com/ovh/kmip-go"
	"github.com/ovh/kmip-go/payloads"
	"github.com/ovh/kmip-go/ttlv"

	"verifharness/internal/gv"
	"verifharness/internal/h"
)

func init() { h.Register("C06", driveC06) }

// c06CheckTypes walks a decoded message and evaluates the property's statement on it.
func c06CheckTypes(c *h.Ctx, msg any, cj map[string]any) {
	ops := kmip.VerifOperationRegistry()
	objs := kmip.VerifObjectTypes()
	attrs := kmip.VerifAttrTypes()
	checkPayload := func(op kmip.Operation, pl kmip.OperationPayload, dir int) {
		if pl == nil {
			return
		}
		c.Count("payload-checked")
		if pl.Operation() != op {
			c.Fail("C06/payload-reports-other-operation", fmt.Sprintf("batch item operation 0x%X holds %T reporting 0x%X", uint32(op), pl, uint32(pl.Operation())), cj)
		}
		if ts, ok := ops[op]; ok {
			if reflect.TypeOf(pl) != reflect.PointerTo(ts[dir]) {
				c.Fail("C06/payload-type-not-registered-type", fmt.Sprintf("operation 0x%X direction %d decoded as %T, registry says %s", uint32(op), dir, pl, ts[dir]), cj)
			}
		} else if _, ok := pl.(*kmip.UnknownPayload); !ok {
			c.Fail("C06/unknown-operation-not-opaque", fmt.Sprintf("unregistered operation 0x%X decoded as %T", uint32(op), pl), cj)
		}
	}
	var walk func(v reflect.Value)
	walk = func(v reflect.Value) {
		switch v.Kind() {
		case reflect.Pointer, reflect.Interface:
			if !v.IsNil() {
				walk(v.Elem())
			}
		case reflect.Slice:
			if v.Type().Elem().Kind() != reflect.Uint8 {
				for i := 0; i < v.Len(); i++ {
					walk(v.Index(i))
				}
			}
		case reflect.Struct:
			if a, ok := v.Interface().(kmip.Attribute); ok {
				c.Count("attribute-checked")
				want, std := attrs[a.AttributeName]
				switch {
				case a.AttributeName.IsCustom() || !std:
					if _, ok := a.AttributeValue.(ttlv.Value); !ok {
						c.Fail("C06/custom-attribute-not-opaque", fmt.Sprintf("attribute %q decoded as %T", a.AttributeName, a.AttributeValue), cj)
					}
				case reflect.TypeOf(a.AttributeValue) != want:
					c.Fail("C06/attribute-type-not-registered-type", fmt.Sprintf("attribute %q decoded as %T, table says %s", a.AttributeName, a.AttributeValue, want), cj)
				}
			}
			// object next to its object type
			if ot := v.FieldByName("ObjectType"); ot.IsValid() && ot.Type() == reflect.TypeFor[kmip.ObjectType]() {
				if ob := v.FieldByName("Object"); ob.IsValid() && ob.Kind() == reflect.Interface && !ob.IsNil() {
					c.Count("object-checked")
					o := ob.Interface().(kmip.Object)
					t := kmip.ObjectType(ot.Uint())
					if o.ObjectType() != t {
						c.Fail("C06/object-reports-other-type", fmt.Sprintf("object type 0x%X holds %T reporting 0x%X", uint32(t), o, uint32(o.ObjectType())), cj)
					}
					if want, ok := objs[t]; !ok || reflect.TypeOf(o) != reflect.PointerTo(want) {
						c.Fail("C06/object-type-not-registered-type", fmt.Sprintf("object type 0x%X decoded as %T", uint32(t), o), cj)
					}
				}
			}
			for i := 0; i < v.NumField(); i++ {
				if v.Type().Field(i).IsExported() {
					walk(v.Field(i))
				}
			}
		}
	}
	switch m := msg.(type) {
	case *kmip.RequestMessage:
		for _, bi := range m.BatchItem {
			checkPayload(bi.Operation, bi.RequestPayload, 0)
		}
	case *kmip.ResponseMessage:
		for _, bi := range m.BatchItem {
			checkPayload(bi.Operation, bi.ResponsePayload, 1)
		}
	}
	walk(reflect.ValueOf(msg))
}

// c06Patch replaces the 4-byte value of the first item with the given tag and type.
func c06Patch(b []byte, tag int, ty byte, val uint32) ([]byte, bool) {
	pat := []byte{byte(tag >> 16), byte(tag >> 8), byte(tag), ty, 0, 0, 0, 4}
	i := bytes.Index(b, pat)
	if i < 0 {
		return nil, false
	}
	out := append([]byte{}, b...)
	binary.BigEndian.PutUint32(out[i+8:], val)
	return out, true
}

func driveC06(c *h.Ctx) error {
	c.Rule("a case is a message exercising one dispatch decision: operation code x direction (27 registered, every named-but-unregistered Operation value, boundary codes 0x2C 0x100 0x7FFFFFFF 0x80000001 0xFFFFFFFF), object type inside Get/Register/Import/Export payloads (9 registered + unknown codes by patching), attribute name (50 standard, custom, unknown) with values of every TTLV type and of wrong types; non-trivial = distinct message")
	u := gv.U()
	type gcase struct {
		resp bool
		ver  kmip.ProtocolVersion
		opts gv.Opts
		note string
	}
	var cases []gcase
	vers := gv.Versions
	k := 0
	nextVer := func() kmip.ProtocolVersion { k++; return vers[k%len(vers)] }
	var opCodes []kmip.Operation
	opCodes = append(opCodes, u.Ops...)
	for op := kmip.Operation(1); op <= 0x2C; op++ {
		if _, ok := u.OpTypes[op]; !ok {
			opCodes = append(opCodes, op)
		}
	}
	opCodes = append(opCodes, 0x100, 0x7fffffff, 0x80000001, 0xffffffff)
	for _, op := range opCodes {
		for _, resp := range []bool{false, true} {
			cases = append(cases, gcase{resp, nextVer(), gv.Opts{Ops: []kmip.Operation{op}, Batch: 1, NoKnownFindings: true}, fmt.Sprintf("op/0x%X", uint32(op))})
		}
	}
	// plan sections about objects and attributes
	plan := gv.CoveragePlan()
	stride := c.Pick(4, 1)
	for i, pc := range plan {
		if (strings.HasPrefix(pc.Note, "B/") || strings.HasPrefix(pc.Note, "C/")) && i%stride == int(c.Seed)%stride {
			cases = append(cases, gcase{pc.Response, pc.Ver, pc.Opts, pc.Note})
		}
	}
	replayIndex := -1
	if c.Replay != nil {
		cs, _ := c.Replay["case"].(map[string]any)
		i := int(cs["case_index"].(float64))
		if i < len(cases) {
			replayIndex = i
		}
	}
	var rowsSame, rowsMsg, rowsDec []string
	negatives := func(b []byte, msg any, root string, i int, note string, descr any, codes []uint32) {
		if _, ok := c06Patch(b, kmip.TagObjectType, 5, 0); !ok {
			return
		}
		for _, code := range codes {
			pb, _ := c06Patch(b, kmip.TagObjectType, 5, code)
			o2 := newMsgLike(msg)
			e2, p2 := safeUnmarshal(pb, o2)
			nj := map[string]any{"case_index": i, "note": note + fmt.Sprintf(" object type patched to 0x%X", code), "message": descr, "input_hex": hex.EncodeToString(pb)}
			c.Count("negative:unknown-object-type")
			obs := "OErr"
			switch {
			case p2 != "":
				c.Fail("C06/unknown-object-type/panic", p2, nj)
				obs = "OPanic"
			case e2 == nil:
				// accepted: acceptable only if no object is attached to that type (e.g. the patched item was an attribute value)
				c06CheckTypes(c, o2, nj)
				rb, _ := safeMarshal(o2)
				obs = "OOk " + h.HexBytes(rb)
				// an accepted input re-encodes to itself (the unpatched message does): if not, the value was built
				// from a structure that is not the one its type names (an object of another type taken for this one)
				if !bytes.Equal(rb, pb) {
					c.Fail("C06/object-of-another-type-accepted", fmt.Sprintf("with the object type patched to 0x%X the message is accepted, but what was decoded re-encodes to other bytes (%d vs %d, first difference at %d): the object structure on the wire was taken for a structure of the announced type", code, len(rb), len(pb), c04FirstDiff(rb, pb)), nj)
				}
			}
			rowsDec = append(rowsDec, fmt.Sprintf("(%q, %s, %s)", root, h.HexBytes(pb), obs))
			c.IndexCase("mism_dec", len(rowsDec)-1, nj)
		}
	}
	for i, gc := range cases {
		if replayIndex >= 0 && i != replayIndex {
			continue
		}
		r := h.NewRand(c.Seed).Fork(uint64(i + 1))
		var msg any
		if gc.resp {
			m := gv.GenResponse(r, gc.ver, gc.opts)
			msg = &m
		} else {
			m := gv.GenRequest(r, gc.ver, gc.opts)
			msg = &m
		}
		root := msgRoot(msg)
		cj := map[string]any{"case_index": i, "note": gc.note, "message": gv.Describe(reflect.ValueOf(msg).Elem().Interface())}
		vin, err := gv.CoqValue(reflect.ValueOf(msg).Elem())
		if err != nil {
			return err
		}
		c.Eval(vin, true)
		c.Count("case:" + strings.SplitN(gc.note, "/", 2)[0])
		if i%41 == 0 {
			c.Sample(cj)
		}
		b, p := safeMarshal(msg)
		if p != "" {
			c.Fail("C06/encoder-panics", p, cj)
			continue
		}
		out := newMsgLike(msg)
		derr, dp := safeUnmarshal(b, out)
		if dp != "" || derr != nil {
			c.Fail("C06/own-output-rejected", fmt.Sprintf("%v %s", derr, dp), cj)
			continue
		}
		c06CheckTypes(c, out, cj)
		vout, err := gv.CoqValue(reflect.ValueOf(out).Elem())
		if err != nil {
			return err
		}
		b2, _ := safeMarshal(out)
		if !bytes.Equal(b, b2) {
			c.Fail("C06/opaque-content-not-preserved", "re-encoding the decoded message changes the bytes", cj)
		}
		if vout == vin {
			rowsSame = append(rowsSame, fmt.Sprintf("(%q, %s, %s)", root, vin, h.HexBytes(b)))
			c.IndexCase("mism_same", len(rowsSame)-1, cj)
		} else {
			rowsMsg = append(rowsMsg, fmt.Sprintf("(%q, %s, %s, OOk (%s))", root, vin, h.HexBytes(b), vout))
			c.IndexCase("mism_msg", len(rowsMsg)-1, cj)
		}
		// ---- negatives: unknown object type -> error, never a value of a wrong type
		// ... and every registered object type: the object structure on the wire then disagrees with the
		// announced type (unless it is the original one) - an error, never a value of the announced type
		// built from another type's structure
		negatives(b, msg, root, i, gc.note, cj["message"], []uint32{0, 0x0A, 0x7F, 0x80000002, 0xffffffff, 1, 2, 3, 4, 5, 6, 7, 8, 9})
	}
	// ---- an Export response whose attribute list names the object's type: the type FIELD still decides
	if replayIndex < 0 {
		for k, o := range u.Objs {
			r := h.NewRand(c.Seed).Fork(uint64(900000 + k))
			m := gv.GenResponse(r, kmip.V1_4, gv.Opts{Ops: []kmip.Operation{kmip.OperationExport}, Object: o, NoKnownFindings: true})
			if len(m.BatchItem) != 1 {
				continue
			}
			pl, ok := m.BatchItem[0].ResponsePayload.(*payloads.ExportResponsePayload)
			if !ok || pl.Object == nil {
				continue
			}
			pl.Attribute = append([]kmip.Attribute{{AttributeName: kmip.AttributeNameObjectType, AttributeValue: pl.ObjectType}}, pl.Attribute...)
			b, p := safeMarshal(&m)
			if p != "" {
				continue
			}
			codes := []uint32{0x0A, 0x7E, 0x80000001}
			for _, o2 := range u.Objs {
				if o2 != o {
					codes = append(codes, uint32(o2))
				}
			}
			c.Eval(fmt.Sprintf("export-with-object-type-attribute/%d", o), true)
			negatives(b, &m, "kmip.ResponseMessage", 100000+k, fmt.Sprintf("Export response of object type 0x%X with an Object Type attribute", uint32(o)), gv.Describe(m), codes)
		}
	}
	if replayIndex < 0 {
		c06Concurrent(c)
		c06Reregister(c)
	}
	// ---- attribute values of the wrong wire type for their standard name
	for i, name := range kmip.AllAttributeNames {
		if i%c.Pick(2, 1) != 0 {
			continue
		}
		for _, wrong := range []any{"text", int32(7), true, []byte{1, 2}, ttlv.Struct{}} {
			m := kmip.RequestMessage{Header: kmip.RequestHeader{ProtocolVersion: kmip.V1_2, BatchCount: 1},
				BatchItem: []kmip.RequestBatchItem{{Operation: kmip.OperationAddAttribute, RequestPayload: &payloads.AddAttributeRequestPayload{
					UniqueIdentifier: "id", Attribute: kmip.Attribute{AttributeName: name, AttributeValue: ttlv.Value{Tag: kmip.TagAttributeValue, Value: wrong}}}}}}
			b, p := safeMarshal(&m)
			if p != "" {
				continue
			}
			var o2 kmip.RequestMessage
			e2, p2 := safeUnmarshal(b, &o2)
			nj := map[string]any{"attribute": string(name), "wrong_value": fmt.Sprintf("%T", wrong)}
			c.Count("negative:attribute-wrong-type")
			c.Eval(fmt.Sprintf("attr/%s/%T", name, wrong), true)
			obs := "OErr"
			switch {
			case p2 != "":
				c.Fail("C06/attribute-wrong-type/panic", p2, nj)
				obs = "OPanic"
			case e2 == nil:
				c06CheckTypes(c, &o2, nj)
				rb, _ := safeMarshal(&o2)
				obs = "OOk " + h.HexBytes(rb)
			}
			rowsDec = append(rowsDec, fmt.Sprintf("(%q, %s, %s)", "kmip.RequestMessage", h.HexBytes(b), obs))
			c.IndexCase("mism_dec", len(rowsDec)-1, nj)
		}
	}
	var sb strings.Builder
	sb.WriteString("From Coq Require Import ZArith List Bool String.\nFrom KV Require Import Base Wire Cursor Schema Cases CodecRows KmipCodec.\nImport ListNotations.\nOpen Scope Z_scope.\nOpen Scope string_scope.\n")
	d1, e1 := h.Chunk("srows", "string * value * list Z", rowsSame, 40)
	d2, e2 := h.Chunk("mrows", "string * value * list Z * obs value", rowsMsg, 40)
	d3, e3 := h.Chunk("drows", "string * list Z * obs (list Z)", rowsDec, 100)
	sb.WriteString(d1 + d2 + d3)
	fmt.Fprintf(&sb, "Definition mism_same := Eval vm_compute in bad_idx row_msg_same %s 0.\nPrint mism_same.\n", e1)
	fmt.Fprintf(&sb, "Definition mism_msg := Eval vm_compute in bad_idx row_msg %s 0.\nPrint mism_msg.\n", e2)
	fmt.Fprintf(&sb, "Definition mism_dec := Eval vm_compute in bad_idx row_msg_dec %s 0.\nPrint mism_dec.\n", e3)
	return c.WriteCases("cases_C06.v", sb.String(), len(rowsSame)+len(rowsMsg)+len(rowsDec))
}
