package main

// Dial-time legs on scripted servers over net.Pipe (oracle only).
//
// C13 / successive clients: two clients configured alike (default version set, or the same explicit set)
// are dialled one after the other in one process, the first against a server advertising few versions, the
// second against a server advertising all: each adopts the highest version common to ITS configuration and
// ITS server - what the first client learnt is not the second one's business.
//
// C13 / connection dropped during discovery: the peer closes every connection as soon as it has read the
// discovery request, n times in a row (n = 1..5), then serves normally.  Dial either fails or adopts the
// highest common version; it never falls back to 1.0 (the fallback is for servers that ANSWER that discovery
// is not supported).
//
// C11 / negotiation fault, then unreachable: the first connection fails during the discovery exchange (at each
// of four points), every further dial is refused: Dial returns an error - no panic, no goroutine left.

import (
	"context"
	"errors"
	"fmt"
	"net"
	"sync"
	"sync/atomic"
	"time"

	"github.com/ovh/kmip-go"
	"github.com/ovh/kmip-go/kmipclient"
	"github.com/ovh/kmip-go/payloads"
	"github.com/ovh/kmip-go/ttlv"

	"verifharness/internal/clisim"
	"verifharness/internal/h"
)

// c13dServe answers DiscoverVersions with `adv` filtered by the client's list (a conformant server), other
// operations by echoing the identifier.  dropAfterRead: close right after reading the first request.
func c13dServe(conn net.Conn, adv []kmip.ProtocolVersion, dropAfterRead bool, partialReply bool) {
	defer conn.Close()
	st := ttlv.NewStream(conn, -1)
	for {
		req := new(kmip.RequestMessage)
		if err := st.Recv(req); err != nil {
			return
		}
		if dropAfterRead {
			return
		}
		resp := &kmip.ResponseMessage{Header: kmip.ResponseHeader{ProtocolVersion: req.Header.ProtocolVersion, TimeStamp: time.Unix(1, 0), BatchCount: int32(len(req.BatchItem))}}
		for _, bi := range req.BatchItem {
			it := kmip.ResponseBatchItem{Operation: bi.Operation, UniqueBatchItemID: bi.UniqueBatchItemID, ResultStatus: kmip.ResultStatusSuccess}
			switch pl := bi.RequestPayload.(type) {
			case *payloads.DiscoverVersionsRequestPayload:
				var out []kmip.ProtocolVersion
				for _, v := range adv {
					if len(pl.ProtocolVersion) == 0 {
						out = append(out, v)
						continue
					}
					for _, w := range pl.ProtocolVersion {
						if v == w {
							out = append(out, v)
						}
					}
				}
				it.ResponsePayload = &payloads.DiscoverVersionsResponsePayload{ProtocolVersion: out}
			case *payloads.ActivateRequestPayload:
				it.ResponsePayload = &payloads.ActivateResponsePayload{UniqueIdentifier: pl.UniqueIdentifier}
			}
			resp.BatchItem = append(resp.BatchItem, it)
		}
		if partialReply {
			b := ttlv.MarshalTTLV(resp)
			_, _ = conn.Write(b[:len(b)/2])
			return
		}
		if st.Send(resp) != nil {
			return
		}
	}
}

func c13dDialer(adv []kmip.ProtocolVersion, plan func(n int32) (refuse, dropAfterRead, partial, closeAtOnce bool)) (kmipclient.DialerFunc, *atomic.Int32, *sync.WaitGroup) {
	var n atomic.Int32
	var wg sync.WaitGroup
	return func(ctx context.Context) (net.Conn, error) {
		k := n.Add(1)
		refuse, drop, partial, closeAtOnce := plan(k)
		if refuse {
			return nil, errors.New("connection refused")
		}
		cli, srv := net.Pipe()
		if closeAtOnce {
			_ = srv.Close()
			return cli, nil
		}
		wg.Add(1)
		go func() { defer wg.Done(); c13dServe(srv, adv, drop, partial) }()
		return cli, nil
	}, &n, &wg
}

var c13dAll = []kmip.ProtocolVersion{kmip.V1_4, kmip.V1_3, kmip.V1_2, kmip.V1_1, kmip.V1_0}

func c13dHighest(cfg, adv []kmip.ProtocolVersion) (kmip.ProtocolVersion, bool) {
	var best kmip.ProtocolVersion
	ok := false
	for _, v := range cfg {
		for _, w := range adv {
			if v == w && (!ok || v.ProtocolVersionMajor > best.ProtocolVersionMajor || (v.ProtocolVersionMajor == best.ProtocolVersionMajor && v.ProtocolVersionMinor > best.ProtocolVersionMinor)) {
				best, ok = v, true
			}
		}
	}
	return best, ok
}

func c13dDial(dialer kmipclient.DialerFunc, cfg []kmip.ProtocolVersion) (cl *kmipclient.Client, err error, panicked string) {
	defer func() {
		if p := recover(); p != nil {
			panicked = fmt.Sprint(p)
		}
	}()
	opts := []kmipclient.Option{kmipclient.WithDialerUnsafe(dialer)}
	if cfg != nil {
		opts = append(opts, kmipclient.WithKmipVersions(cfg...))
	}
	cl, err = kmipclient.Dial("pipe", opts...)
	return cl, err, ""
}

func c13SuccessiveClients(c *h.Ctx) {
	normal := func(int32) (bool, bool, bool, bool) { return false, false, false, false }
	firsts := [][]kmip.ProtocolVersion{{kmip.V1_2, kmip.V1_1, kmip.V1_0}, {kmip.V1_0}, {kmip.V1_3, kmip.V1_1}}
	cfgs := [][]kmip.ProtocolVersion{nil, {kmip.V1_4, kmip.V1_2, kmip.V1_0}}
	for fi, first := range firsts {
		for ci, cfg := range cfgs {
			eff := cfg
			if eff == nil {
				eff = c13dAll
			}
			cj := map[string]any{"leg": "successive-clients", "first_server": fmt.Sprint(first), "client_versions": fmt.Sprint(cfg)}
			c.Current(cj)
			c.Eval(fmt.Sprintf("successive-clients/%d/%d", fi, ci), true)
			c.Count("leg:successive-clients")
			for round, adv := range [][]kmip.ProtocolVersion{first, c13dAll, first, c13dAll} {
				d, _, wg := c13dDialer(adv, normal)
				cl, err, pk := c13dDial(d, cfg)
				want, common := c13dHighest(eff, adv)
				switch {
				case pk != "":
					c.Fail("C13/successive-clients/panic", pk, cj)
				case err != nil && common:
					c.Fail("C13/fails-despite-common-version/successive-clients", fmt.Sprintf("client #%d of the process (versions %v, server advertising %v) failed to connect: %v", round+1, eff, adv, err), cj)
				case err == nil && !common:
					c.Fail("C13/adopts-without-common-version/successive-clients", fmt.Sprintf("client #%d (versions %v, server %v) connected with %v", round+1, eff, adv, cl.Version()), cj)
				case err == nil && cl.Version() != want:
					c.Fail("C13/not-highest-common/successive-clients", fmt.Sprintf("client #%d of the process (versions %v) adopted %v against a server advertising %v: the highest common version is %v (earlier clients of the process talked to servers advertising other versions)", round+1, eff, cl.Version(), adv, want), cj)
				}
				if cl != nil {
					_ = cl.Close()
				}
				wg.Wait()
			}
		}
	}
}

func c13DroppedDuringDiscovery(c *h.Ctx) {
	for drops := int32(1); drops <= 5; drops++ {
		for _, mode := range []string{"closed-after-request", "closed-at-once"} {
			cj := map[string]any{"leg": "dropped-during-discovery", "drops": drops, "mode": mode}
			c.Current(cj)
			d, n, wg := c13dDialer(c13dAll, func(k int32) (bool, bool, bool, bool) {
				return false, k <= drops && mode == "closed-after-request", false, k <= drops && mode == "closed-at-once"
			})
			cl, err, pk := c13dDial(d, nil)
			c.Eval(fmt.Sprintf("dropped-during-discovery/%d/%s", drops, mode), true)
			c.Count("leg:dropped-during-discovery")
			switch {
			case pk != "":
				c.Fail("C13/dropped-during-discovery/panic", pk, cj)
			case err == nil && cl.Version() != kmip.V1_4:
				c.Fail("C13/fallback-without-not-supported-answer", fmt.Sprintf("the peer closed the first %d connection(s) during the discovery exchange (%s), then served normally (advertising 1.0-1.4): Dial succeeded after %d dials with version %v - a dropped connection is not the answer 'discovery not supported'", drops, mode, n.Load(), cl.Version()), cj)
			}
			if cl != nil {
				_ = cl.Close()
			}
			wg.Wait()
		}
	}
}

func c11NegotiationFaultThenUnreachable(c *h.Ctx) {
	for _, point := range []string{"closed-at-once", "closed-after-request", "closed-mid-reply"} {
		cj := map[string]any{"leg": "negotiation-fault-then-unreachable", "point": point}
		c.Current(cj)
		r0, w0 := clisim.ClientGoroutines()
		d, n, wg := c13dDialer(c13dAll, func(k int32) (bool, bool, bool, bool) {
			if k > 1 {
				return true, false, false, false
			}
			return false, point == "closed-after-request", point == "closed-mid-reply", point == "closed-at-once"
		})
		cl, err, pk := c13dDial(d, nil)
		c.Eval("negotiation-fault-then-unreachable/"+point, true)
		c.Count("leg:negotiation-fault-then-unreachable")
		switch {
		case pk != "":
			c.Fail("C11/panic/dial", fmt.Sprintf("the first connection failed during the discovery exchange (%s) and every further dial was refused (%d dials): Dial panicked: %s", point, n.Load(), pk), cj)
		case err == nil:
			c.Fail("C11/dial-succeeds-unreachable", "Dial returned a client although no discovery exchange completed and the server is unreachable", cj)
		}
		if cl != nil {
			_ = cl.Close()
		}
		wg.Wait()
		if r, w := clisim.WaitClientGoroutines(r0, w0, 2*time.Second); r > r0 || w > w0 {
			c.Fail("C11/goroutine-leak/dial", fmt.Sprintf("after the failed Dial %d readloop / %d writeloop goroutine(s) more than before are left", r-r0, w-w0), cj)
		}
	}
}
