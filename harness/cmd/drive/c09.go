package main

// C09 — server batch execution follows KMIP batch semantics.
//
// The driver builds request messages over the whole alphabet of the property's quantifier,
// runs the real kmipserver.BatchExecutor.HandleRequest with scripted handlers that log their
// invocations, evaluates the property statement directly on the observed response / invocation
// log (oracle), and writes every case with its observed outcome into cases_C09.v where the
// Gallina model (Batch.v) is evaluated on the same case.
//
// The scripted-handler runtime (c09Runner) is shared with the C15 driver.

import (
	"context"
	"encoding/json"
	"errors"
	"fmt"
	"strconv"
	"strings"
	"sync"

	"github.com/ovh/kmip-go"
	"github.com/ovh/kmip-go/kmipserver"
	"github.com/ovh/kmip-go/payloads"

	"verifharness/internal/h"
)

func init() { h.Register("C09", driveC09) }

// ---------------------------------------------------------------- case description (JSON = replay format)

type c09Act struct {
	K int    `json:"k"` // 1 read, 2 get-or, 3 set, 4 clear, 5 copy(read then set value+suffix)
	C int    `json:"c"` // 0 the handler's own ctx, 1 a bare context.Background()
	S string `json:"s,omitempty"`
}

type c09Out struct {
	K  int   `json:"k"`            // 1 return (payload,nil); 2 return (payload,err); 3 panic
	RP int   `json:"rp"`           // -1: nil payload, otherwise the key of the returned payload
	E  []int `json:"e,omitempty"`  // error: 1 r = Error{r}; 2 r = &Error{r}; 3 ... = wrapped; 4 = plain
	PV int   `json:"pv,omitempty"` // panic value: 1 error E, 2 string, 3 fmt.Stringer, 4 int, 5 nil dereference
}

type c09Script struct {
	Acts []c09Act `json:"acts,omitempty"`
	Out  c09Out   `json:"out"`
}

type c09Item struct {
	Op     int        `json:"op"`
	ID     []int      `json:"id,omitempty"` // UniqueBatchItemID bytes (absent = nil)
	Ext    int        `json:"ext"`          // 0 no MessageExtension, 1 non-critical, 2 critical
	Pl     int        `json:"pl"`           // 0 nil payload, 1 DiscoverVersions payload, 2 keyed payload
	Vers   [][2]int   `json:"vers,omitempty"`
	Key    int        `json:"key"`
	Script *c09Script `json:"script,omitempty"`
	Class  string     `json:"class,omitempty"`
}

type c09Case struct {
	Sup    [][2]int  `json:"supported"`
	Routes []int     `json:"routes"`
	NilReq bool      `json:"nil_request,omitempty"`
	Ver    [2]int    `json:"version"`
	Opt    int       `json:"option"`
	Count  int       `json:"batch_count"`
	Items  []c09Item `json:"items"`
	Parent int       `json:"parent_ctx"` // 0 background, 1 background + unrelated value
	Order  int       `json:"batch_order,omitempty"` // header Batch Order Option: 0 absent, 1 true, 2 false (no bearing on how this server executes a batch)
}

// ---------------------------------------------------------------- scripted handlers

type c09Stringer struct{}

func (c09Stringer) String() string { return "stringer panic value" }

type c09ReqKey struct{}
type c09OtherKey struct{}

// c09Runner executes handler scripts against the real context accessors and logs, per request,
// the flat event encoding of Batch.v's enc_event.
type c09Runner struct {
	mu      sync.Mutex
	scripts map[int]*c09Script
	logs    map[int][]int64
	// gate, when set, is called before every handler action (C15: cooperative scheduling)
	gate func(rid int)
}

func newC09Runner() *c09Runner {
	return &c09Runner{scripts: map[int]*c09Script{}, logs: map[int][]int64{}}
}

func (r *c09Runner) emit(rid int, v ...int64) {
	r.mu.Lock()
	r.logs[rid] = append(r.logs[rid], v...)
	r.mu.Unlock()
}

func c09EncStr(s string) []int64 {
	out := []int64{int64(len(s))}
	for _, b := range []byte(s) {
		out = append(out, int64(b))
	}
	return out
}

func c09BuildErr(e []int) error {
	if len(e) == 0 {
		return errors.New("plain")
	}
	switch e[0] {
	case 1:
		return kmipserver.Error{Reason: kmip.ResultReason(e[1]), Message: "typed"}
	case 2:
		return &kmipserver.Error{Reason: kmip.ResultReason(e[1]), Message: "typed pointer"}
	case 3:
		return fmt.Errorf("wrapped: %w", c09BuildErr(e[1:]))
	case 5:
		return context.DeadlineExceeded
	case 6:
		return context.Canceled
	default:
		return errors.New("plain")
	}
}

func c09I64(l []int) []int64 {
	o := make([]int64, len(l))
	for i, v := range l {
		o[i] = int64(v)
	}
	return o
}

func c09EncRP(rp int) []int64 {
	if rp < 0 {
		return []int64{0}
	}
	return []int64{2, int64(rp)}
}

func c09EncOut(o c09Out) []int64 {
	switch o.K {
	case 1:
		return append([]int64{1}, c09EncRP(o.RP)...)
	case 2:
		return append(append([]int64{2}, c09EncRP(o.RP)...), c09I64(c09NormErr(o.E))...)
	default:
		if o.PV == 1 {
			return append([]int64{3, 1}, c09I64(c09NormErr(o.E))...)
		}
		return []int64{3, int64(o.PV)}
	}
}

// c09NormErr is the error as the model sees it: the context errors (kinds 5, 6) are errors of no
// particular type to the library - plain errors.
func c09NormErr(e []int) []int {
	if len(e) == 0 {
		return []int{4}
	}
	o := make([]int, 0, len(e))
	for i := 0; i < len(e); i++ {
		switch e[i] {
		case 3:
			o = append(o, 3)
			continue
		case 1, 2:
			return append(o, e[i:]...)
		case 5, 6:
			return append(o, 4)
		}
		return append(o, e[i:]...)
	}
	return append(o, 4)
}

func c09Payload(rp int) kmip.OperationPayload {
	if rp < 0 {
		return nil
	}
	return &payloads.ActivateResponsePayload{UniqueIdentifier: strconv.Itoa(rp)}
}

// handler is what gets routed: it identifies its script by the payload it was handed.
func (r *c09Runner) handler() kmipserver.OperationHandler {
	return c09HandlerFunc(func(ctx context.Context, pl kmip.OperationPayload) (kmip.OperationPayload, error) {
		key := -1
		switch p := pl.(type) {
		case *payloads.DiscoverVersionsRequestPayload:
			key = -2
		case *payloads.GetRequestPayload:
			if k, err := strconv.Atoi(p.UniqueIdentifier); err == nil {
				key = k
			}
		}
		rid, _ := ctx.Value(c09ReqKey{}).(int)
		if key >= 0 {
			rid = key / 1000
		}
		r.emit(rid, 1, int64(key))
		r.mu.Lock()
		sc := r.scripts[key]
		r.mu.Unlock()
		if sc == nil {
			out := c09Out{K: 2, RP: -1, E: []int{4}}
			r.emit(rid, append([]int64{6, int64(key)}, c09EncOut(out)...)...)
			return nil, errors.New("invalid payload")
		}
		bare := context.Background()
		pick := func(c int) context.Context {
			if c == 1 {
				return bare
			}
			return ctx
		}
		for _, a := range sc.Acts {
			if r.gate != nil {
				r.gate(rid)
			}
			switch a.K {
			case 1:
				v := kmipserver.IdPlaceholder(pick(a.C))
				r.emit(rid, append([]int64{2, int64(key), int64(a.C)}, c09EncStr(v)...)...)
			case 2:
				id, err := kmipserver.GetIdOrPlaceholder(pick(a.C), a.S)
				ev := append([]int64{3, int64(key), int64(a.C)}, c09EncStr(a.S)...)
				if err != nil {
					ev = append(ev, -1)
				} else {
					ev = append(ev, c09EncStr(id)...)
				}
				r.emit(rid, ev...)
			case 3:
				kmipserver.SetIdPlaceholder(pick(a.C), a.S)
				r.emit(rid, append([]int64{4, int64(key), int64(a.C)}, c09EncStr(a.S)...)...)
			case 4:
				kmipserver.ClearIdPlaceholder(pick(a.C))
				r.emit(rid, 5, int64(key), int64(a.C))
			case 5:
				v := kmipserver.IdPlaceholder(ctx)
				r.emit(rid, append([]int64{2, int64(key), 0}, c09EncStr(v)...)...)
				kmipserver.SetIdPlaceholder(ctx, v+a.S)
				r.emit(rid, append([]int64{4, int64(key), 0}, c09EncStr(v+a.S)...)...)
			}
		}
		if r.gate != nil {
			r.gate(rid)
		}
		r.emit(rid, append([]int64{6, int64(key)}, c09EncOut(sc.Out)...)...)
		switch sc.Out.K {
		case 1:
			return c09Payload(sc.Out.RP), nil
		case 2:
			return c09Payload(sc.Out.RP), c09BuildErr(sc.Out.E)
		default:
			switch sc.Out.PV {
			case 1:
				panic(c09BuildErr(sc.Out.E))
			case 2:
				panic("handler panic (string)")
			case 3:
				panic(c09Stringer{})
			case 5:
				var p *c09Out
				_ = p.K // nil dereference
				panic("unreachable")
			default:
				panic(42)
			}
		}
	})
}

type c09HandlerFunc func(ctx context.Context, req kmip.OperationPayload) (kmip.OperationPayload, error)

func (f c09HandlerFunc) HandleOperation(ctx context.Context, req kmip.OperationPayload) (kmip.OperationPayload, error) {
	return f(ctx, req)
}

func c09Vers(l [][2]int) []kmip.ProtocolVersion {
	var o []kmip.ProtocolVersion
	for _, v := range l {
		o = append(o, kmip.ProtocolVersion{ProtocolVersionMajor: int32(v[0]), ProtocolVersionMinor: int32(v[1])})
	}
	return o
}

// c09Executor builds the executor of a case. supportedVersions is assigned through the
// library's setter (which sorts descending and compacts); the generator only uses lists that
// are already in that form, so the model's [supported] is the list itself.
func c09Executor(cs *c09Case, r *c09Runner) *kmipserver.BatchExecutor {
	exec := kmipserver.NewBatchExecutor()
	exec.SetSupportedProtocolVersions(c09Vers(cs.Sup)...)
	hd := r.handler()
	for _, op := range cs.Routes {
		exec.Route(kmip.Operation(op), hd)
	}
	return exec
}

func c09Message(cs *c09Case, r *c09Runner) *kmip.RequestMessage {
	if cs.NilReq {
		return nil
	}
	msg := &kmip.RequestMessage{Header: kmip.RequestHeader{
		ProtocolVersion:              kmip.ProtocolVersion{ProtocolVersionMajor: int32(cs.Ver[0]), ProtocolVersionMinor: int32(cs.Ver[1])},
		BatchErrorContinuationOption: kmip.BatchErrorContinuationOption(cs.Opt),
		BatchCount:                   int32(cs.Count),
	}}
	if cs.Order != 0 {
		o := cs.Order == 1
		msg.Header.BatchOrderOption = &o
	}
	for i := range cs.Items {
		it := &cs.Items[i]
		bi := kmip.RequestBatchItem{Operation: kmip.Operation(it.Op)}
		if len(it.ID) > 0 {
			for _, b := range it.ID {
				bi.UniqueBatchItemID = append(bi.UniqueBatchItemID, byte(b))
			}
		}
		switch it.Ext {
		case 1:
			bi.MessageExtension = &kmip.MessageExtension{VendorIdentification: "v", CriticalityIndicator: false}
		case 2:
			bi.MessageExtension = &kmip.MessageExtension{VendorIdentification: "v", CriticalityIndicator: true}
		}
		switch it.Pl {
		case 1:
			bi.RequestPayload = &payloads.DiscoverVersionsRequestPayload{ProtocolVersion: c09Vers(it.Vers)}
		case 2:
			bi.RequestPayload = &payloads.GetRequestPayload{UniqueIdentifier: strconv.Itoa(it.Key)}
			if it.Script != nil {
				r.mu.Lock()
				r.scripts[it.Key] = it.Script
				r.mu.Unlock()
			}
		}
		msg.BatchItem = append(msg.BatchItem, bi)
	}
	return msg
}

// c09EncResponse is Batch.v's enc_response on the real response.
func c09EncResponse(resp *kmip.ResponseMessage) []int64 {
	out := []int64{int64(resp.Header.ProtocolVersion.ProtocolVersionMajor), int64(resp.Header.ProtocolVersion.ProtocolVersionMinor),
		int64(resp.Header.BatchCount), int64(len(resp.BatchItem))}
	for _, bi := range resp.BatchItem {
		out = append(out, int64(bi.Operation))
		if len(bi.UniqueBatchItemID) == 0 {
			out = append(out, -1)
		} else {
			out = append(out, int64(len(bi.UniqueBatchItemID)))
			for _, b := range bi.UniqueBatchItemID {
				out = append(out, int64(b))
			}
		}
		out = append(out, int64(bi.ResultStatus), int64(bi.ResultReason))
		switch p := bi.ResponsePayload.(type) {
		case nil:
			out = append(out, 0)
		case *payloads.DiscoverVersionsRequestPayload:
			out = append(out, 1, int64(len(p.ProtocolVersion)))
			for _, v := range p.ProtocolVersion {
				out = append(out, int64(v.ProtocolVersionMajor), int64(v.ProtocolVersionMinor))
			}
		case *payloads.DiscoverVersionsResponsePayload:
			out = append(out, 1, int64(len(p.ProtocolVersion)))
			for _, v := range p.ProtocolVersion {
				out = append(out, int64(v.ProtocolVersionMajor), int64(v.ProtocolVersionMinor))
			}
		case *payloads.ActivateResponsePayload:
			k, err := strconv.Atoi(p.UniqueIdentifier)
			if err != nil {
				k = -99
			}
			out = append(out, 2, int64(k))
		default:
			out = append(out, 9)
		}
	}
	return out
}

type c09Obs struct {
	panicked bool
	panicMsg string
	resp     *kmip.ResponseMessage
	log      []int64
}

func c09ParentCtx(parent int, rid int) context.Context {
	ctx := context.WithValue(context.Background(), c09ReqKey{}, rid)
	if parent == 1 {
		ctx = context.WithValue(ctx, c09OtherKey{}, "unrelated")
	}
	return ctx
}

func c09Run(cs *c09Case) (obs c09Obs) {
	r := newC09Runner()
	exec := c09Executor(cs, r)
	msg := c09Message(cs, r)
	func() {
		defer func() {
			if p := recover(); p != nil {
				obs.panicked = true
				obs.panicMsg = fmt.Sprint(p)
			}
		}()
		obs.resp = exec.HandleRequest(c09ParentCtx(cs.Parent, 0), msg)
	}()
	obs.log = r.logs[0]
	return obs
}

func (o *c09Obs) flat() []int64 {
	if o.panicked || o.resp == nil {
		return append([]int64{1}, o.log...)
	}
	out := append([]int64{0}, c09EncResponse(o.resp)...)
	out = append(out, -7)
	return append(out, o.log...)
}

// ---------------------------------------------------------------- Coq printers

func c09CoqVer(v [2]int) string { return fmt.Sprintf("(V %s %s)", h.Z(int64(v[0])), h.Z(int64(v[1]))) }
func c09CoqVers(l [][2]int) string {
	s := make([]string, len(l))
	for i, v := range l {
		s[i] = c09CoqVer(v)
	}
	return h.List(s)
}
func c09CoqInts(l []int) string {
	s := make([]string, len(l))
	for i, v := range l {
		s[i] = h.Z(int64(v))
	}
	return h.List(s)
}
func c09CoqErr(e []int) string {
	e = c09NormErr(e)
	switch e[0] {
	case 1:
		return fmt.Sprintf("(EKmip %d)", e[1])
	case 2:
		return fmt.Sprintf("(EKmipPtr %d)", e[1])
	case 3:
		return "(EWrap " + c09CoqErr(e[1:]) + ")"
	default:
		return "EPlain"
	}
}
func c09CoqRP(rp int) string {
	if rp < 0 {
		return "RNil"
	}
	return fmt.Sprintf("(RKey %d)", rp)
}
func c09CoqCtx(c int) string {
	if c == 1 {
		return "HBare"
	}
	return "HOwn"
}
func c09CoqScript(sc *c09Script) string {
	var acts []string
	for _, a := range sc.Acts {
		switch a.K {
		case 1:
			acts = append(acts, "SRead "+c09CoqCtx(a.C))
		case 2:
			acts = append(acts, "SGetOr "+c09CoqCtx(a.C)+" "+h.Str(a.S))
		case 3:
			acts = append(acts, "SSet "+c09CoqCtx(a.C)+" "+h.Str(a.S))
		case 4:
			acts = append(acts, "SClear "+c09CoqCtx(a.C))
		case 5:
			acts = append(acts, "SCopy "+h.Str(a.S))
		}
	}
	var out string
	switch sc.Out.K {
	case 1:
		out = "HOk " + c09CoqRP(sc.Out.RP)
	case 2:
		out = "HErr " + c09CoqRP(sc.Out.RP) + " " + c09CoqErr(sc.Out.E)
	default:
		pv := map[int]string{2: "PvStr", 3: "PvStringer", 4: "PvOther", 5: "PvNilDeref"}[sc.Out.PV]
		if sc.Out.PV == 1 {
			pv = "(PvErr " + c09CoqErr(sc.Out.E) + ")"
		}
		if pv == "" {
			pv = "PvOther"
		}
		out = "HPanic " + pv
	}
	return h.List(acts) + " (" + out + ")"
}

func c09CoqItems(items []c09Item) (string, string) {
	var its, tbl []string
	for _, it := range items {
		id := "None"
		if len(it.ID) > 0 {
			id = "(Some " + c09CoqInts(it.ID) + ")"
		}
		ext := "None"
		if it.Ext == 1 {
			ext = "(Some false)"
		} else if it.Ext == 2 {
			ext = "(Some true)"
		}
		pl := "PNil"
		switch it.Pl {
		case 1:
			pl = "(PDiscover " + c09CoqVers(it.Vers) + ")"
		case 2:
			pl = fmt.Sprintf("(POther %d)", it.Key)
			if it.Script != nil {
				tbl = append(tbl, fmt.Sprintf("T %d %s", it.Key, c09CoqScript(it.Script)))
			}
		}
		its = append(its, fmt.Sprintf("I %d %s %s %s", it.Op, id, ext, pl))
	}
	return h.List(its), h.List(tbl)
}

func c09CoqReq(cs *c09Case) (req string, tbl string) {
	items, tbl := c09CoqItems(cs.Items)
	if cs.NilReq {
		return "None", tbl
	}
	return fmt.Sprintf("(RQ %s %s %s %s)", c09CoqVer(cs.Ver), h.Z(int64(cs.Opt)), h.Z(int64(cs.Count)), items), tbl
}

func c09CoqParent(p int) string {
	if p == 1 {
		return "[COther]"
	}
	return "[]"
}

func c09Row(cs *c09Case, obs *c09Obs) string {
	req, tbl := c09CoqReq(cs)
	return fmt.Sprintf("R %s %s %s %s %s %d", c09CoqVers(cs.Sup), c09CoqInts(cs.Routes), tbl, c09CoqParent(cs.Parent), req, c09Hash(obs.flat()))
}

// c09Hash is the prelude's hash_obs.
func c09Hash(l []int64) uint64 {
	const mask = 2305843009213693951 // 2^61-1: arithmetic modulo 2^64 followed by the mask is arithmetic modulo 2^61
	acc := uint64(7)
	for _, v := range l {
		acc = (acc*1000003 + uint64(v+1099511627776)) & mask
	}
	return acc
}

// c09CompactRow prints a case of the exhaustive part as (version, option, count, id parity, classes, checksum).
func c09CompactRow(cs *c09Case, classes []int, parity int, obs *c09Obs) string {
	return fmt.Sprintf("(%d, %d, %d, %s, %d, %s, %d)", cs.Ver[0], cs.Ver[1], cs.Opt, h.Z(int64(cs.Count)), parity, c09CoqInts(classes), c09Hash(obs.flat()))
}

const c09Prelude = `From Coq Require Import ZArith List Bool.
From KV Require Import Negotiate Batch Cases.
Import ListNotations.
Open Scope Z_scope.
(* Observations are compared through a 61-bit polynomial checksum (modulo 2^61, odd multiplier) of their flat encoding
   (parsing numerals is what makes a cases file slow; the full observation of every case is
   kept in the driver's case index). *)
Definition hash_step (acc v : Z) : Z := Z.land (acc * 1000003 + (v + 1099511627776)) 2305843009213693951.
Definition hash_obs (l : list Z) : Z := fold_left hash_step l 7.
Definition I (op : Z) (id : option (list Z)) (ext : option bool) (pl : payload) : item :=
  {| i_op := op; i_id := id; i_ext := ext; i_pl := pl |}.
Definition RQ (v : ver) (o c : Z) (items : list item) : option request :=
  Some {| r_hdr := {| h_ver := v; h_opt := o; h_count := c |}; r_items := items |}.
Definition row := (list ver * list Z * list (Z * script) * ctx * option request * Z)%type.
(* typed constructors: keep elaboration of the rows cheap *)
Definition V (a b : Z) : ver := (a, b).
Definition T (k : Z) (acts : list sact) (o : houtcome) : Z * script := (k, (acts, o)).
Definition R (sup : list ver) (routes : list Z) (tbl : list (Z * script)) (parent : ctx) (req : option request) (obs : Z) : row :=
  (sup, routes, tbl, parent, req, obs).
Definition row_ok (r : row) : bool :=
  match r with (sup, routes, tbl, parent, req, obs) =>
    hash_obs (observe req (run (handle_request (scripted_config sup routes tbl) parent req) [])) =? obs
  end.
(* compact rows of the exhaustive part: the item of outcome class [cl] at position [idx]
   (same construction as c09ClassItem in the driver) *)
Definition class_item (par cl idx : Z) : item * (Z * script) :=
  let id := if (par + idx) mod 2 =? 0 then Some [160 + idx; idx] else None in
  let op := if cl =? 4 then 20 else 10 in
  let ext := if cl =? 5 then Some true else None in
  let out := if cl =? 1 then HErr RNil (EKmip 1) else if cl =? 2 then HErr RNil EPlain
             else if cl =? 3 then HPanic PvStr else HOk (RKey idx) in
  (I op id ext (POther idx), (idx, ([], out))).
Fixpoint class_items (par : Z) (cls : list Z) (idx : Z) : list (item * (Z * script)) :=
  match cls with
  | [] => []
  | cl :: t => class_item par cl idx :: class_items par t (idx + 1)
  end.
Definition crow := (Z * Z * Z * Z * Z * list Z * Z)%type.
Definition default_sup : list ver := [(1,4); (1,3); (1,2); (1,1); (1,0)].
Definition crow_ok (r : crow) : bool :=
  match r with (vmaj, vmin, opt, cnt, par, cls, obs) =>
    let its := class_items par cls 0 in
    let req := RQ (vmaj, vmin) opt cnt (map fst its) in
    hash_obs (observe req (run (handle_request (scripted_config default_sup [10; 18] (map snd its)) [] req) [])) =? obs
  end.
`

// ---------------------------------------------------------------- oracle: the property statement on the implementation

type c09Event struct {
	kind int
	key  int
	out  int // for kind 6: 1 ok, 2 err, 3 panic
}

// c09ParseLog splits the flat log into events (only what the oracle needs).
func c09ParseLog(log []int64) []c09Event {
	var evs []c09Event
	i := 0
	str := func() {
		n := int(log[i])
		i++
		if n > 0 {
			i += n
		}
	}
	for i < len(log) {
		k := int(log[i])
		key := int(log[i+1])
		i += 2
		ev := c09Event{kind: k, key: key}
		switch k {
		case 1:
		case 2:
			i++
			str()
		case 3:
			i++
			str()
			str()
		case 4:
			i++
			str()
		case 5:
			i++
		case 6:
			ev.out = int(log[i])
			i++
			switch ev.out {
			case 1, 2:
				if log[i] == 0 {
					i++
				} else {
					i += 2
				}
				if ev.out == 2 {
					i = c09SkipErr(log, i)
				}
			case 3:
				pv := log[i]
				i++
				if pv == 1 {
					i = c09SkipErr(log, i)
				}
			}
		}
		evs = append(evs, ev)
	}
	return evs
}

func c09SkipErr(log []int64, i int) int {
	for {
		switch log[i] {
		case 1, 2:
			return i + 2
		case 3:
			i++
		default:
			return i + 1
		}
	}
}

func c09Supported(cs *c09Case) bool {
	for _, v := range cs.Sup {
		if v == cs.Ver {
			return true
		}
	}
	return false
}

func c09Routed(cs *c09Case, op int) bool {
	for _, r := range cs.Routes {
		if r == op {
			return true
		}
	}
	return false
}

func c09OptName(o int) string {
	switch o {
	case 0:
		return "unset"
	case 1:
		return "continue"
	case 2:
		return "stop"
	case 3:
		return "undo"
	}
	return "other"
}

// c09Oracle evaluates the statement of C09 on one observed run.
func c09Oracle(c *h.Ctx, cs *c09Case, obs *c09Obs, caseJSON any) {
	if cs.NilReq {
		return // not a request batch
	}
	if obs.panicked || obs.resp == nil {
		c.Fail("C09/panic/"+c09OptName(cs.Opt), "HandleRequest panicked: "+obs.panicMsg, caseJSON)
		return
	}
	resp := obs.resp
	evs := c09ParseLog(obs.log)
	// Resolve every invocation to the position of its item: a keyed payload carries its position;
	// a handler handed a nil / DiscoverVersions payload is matched to the next item of that shape
	// that can reach a handler.
	var calls []int
	rets := map[int]int{}
	last, cur := -1, -1
	for _, e := range evs {
		if e.kind == 1 {
			p := e.key
			if p < 0 {
				p = -100
				for i := last + 1; i < len(cs.Items); i++ {
					it := cs.Items[i]
					if ((e.key == -1 && it.Pl == 0) || (e.key == -2 && it.Pl == 1)) && it.Ext != 2 && c09Routed(cs, it.Op) {
						p = i
						break
					}
				}
			}
			calls = append(calls, p)
			cur = p
			if p > last {
				last = p
			}
		}
		if e.kind == 6 {
			rets[cur] = e.out
		}
	}
	rejected := !c09Supported(cs) || cs.Opt == 3 || cs.Count != len(cs.Items)
	if rejected {
		why := "batch-count-mismatch"
		if !c09Supported(cs) {
			why = "unsupported-version"
		} else if cs.Opt == 3 {
			why = "undo"
		}
		if len(calls) > 0 {
			c.Fail("C09/reject/"+why+"/handler-executed", fmt.Sprintf("request must be rejected (%s) but %d handler(s) ran", why, len(calls)), caseJSON)
		}
		if len(resp.BatchItem) != 1 || resp.BatchItem[0].ResultStatus != kmip.ResultStatusOperationFailed {
			c.Fail("C09/reject/"+why+"/not-a-single-failed-item", fmt.Sprintf("request must be rejected (%s) with a single failed item; got %d item(s)", why, len(resp.BatchItem)), caseJSON)
		}
		return
	}
	opt := c09OptName(cs.Opt)
	if len(resp.BatchItem) != len(cs.Items) {
		c.Fail("C09/shape/item-count/"+opt, fmt.Sprintf("%d request items, %d response items", len(cs.Items), len(resp.BatchItem)), caseJSON)
		return
	}
	if int(resp.Header.BatchCount) != len(cs.Items) {
		c.Fail("C09/shape/batch-count/"+opt, fmt.Sprintf("response batch count %d for %d items", resp.Header.BatchCount, len(cs.Items)), caseJSON)
	}
	if int(resp.Header.ProtocolVersion.ProtocolVersionMajor) != cs.Ver[0] || int(resp.Header.ProtocolVersion.ProtocolVersionMinor) != cs.Ver[1] {
		c.Fail("C09/shape/version/"+opt, fmt.Sprintf("response version %v for request version %v", resp.Header.ProtocolVersion, cs.Ver), caseJSON)
	}
	for i, it := range cs.Items {
		bi := resp.BatchItem[i]
		if int(bi.Operation) != it.Op {
			c.Fail("C09/shape/operation-echo/"+opt, fmt.Sprintf("item %d: operation %d answered with %d", i, it.Op, bi.Operation), caseJSON)
		}
		same := len(bi.UniqueBatchItemID) == len(it.ID)
		if same {
			for k := range it.ID {
				if int(bi.UniqueBatchItemID[k]) != it.ID[k] {
					same = false
				}
			}
		}
		if !same {
			c.Fail("C09/shape/id-echo/"+opt, fmt.Sprintf("item %d: unique batch item id %v answered with %v", i, it.ID, bi.UniqueBatchItemID), caseJSON)
		}
	}
	// at most once and in order
	for k := 1; k < len(calls); k++ {
		if calls[k] <= calls[k-1] {
			c.Fail("C09/order/"+opt, fmt.Sprintf("handler invocation order %v is not strictly increasing", calls), caseJSON)
			break
		}
	}
	called := map[int]bool{}
	for _, k := range calls {
		called[k] = true
	}
	// a handler's verdict is what the item reports
	for i := range cs.Items {
		if out, ok := rets[i]; ok {
			st := resp.BatchItem[i].ResultStatus
			if out == 1 && st != kmip.ResultStatusSuccess {
				c.Fail("C09/status/success-reported-failed/"+opt, fmt.Sprintf("item %d: handler succeeded, status %d", i, st), caseJSON)
			}
			if out != 1 && st == kmip.ResultStatusSuccess {
				c.Fail("C09/status/failure-reported-success/"+opt, fmt.Sprintf("item %d: handler failed or panicked, status Success", i), caseJSON)
			}
		}
	}
	// an item that cannot be executed is a failed item whatever the operation
	for i, it := range cs.Items {
		st := resp.BatchItem[i].ResultStatus
		if it.Ext == 2 && st == kmip.ResultStatusSuccess {
			c.Fail("C09/status/critical-extension-reported-success/"+opt, fmt.Sprintf("item %d carries a critical message extension and is reported successful", i), caseJSON)
		}
		if !c09Routed(cs, it.Op) && kmip.Operation(it.Op) != kmip.OperationDiscoverVersions && st == kmip.ResultStatusSuccess {
			c.Fail("C09/status/unrouted-reported-success/"+opt, fmt.Sprintf("item %d: operation %d has no handler and is reported successful", i, it.Op), caseJSON)
		}
	}
	first := -1
	for i, bi := range resp.BatchItem {
		if bi.ResultStatus == kmip.ResultStatusOperationFailed {
			first = i
			break
		}
	}
	switch cs.Opt {
	case 2: // Stop
		if first >= 0 {
			for i := first + 1; i < len(cs.Items); i++ {
				if called[i] {
					c.Fail("C09/stop/executed-after-failure", fmt.Sprintf("Stop: item %d failed, item %d was still executed", first, i), caseJSON)
					break
				}
			}
			for i := first + 1; i < len(cs.Items); i++ {
				if resp.BatchItem[i].ResultStatus == kmip.ResultStatusSuccess {
					c.Fail("C09/stop/success-after-failure", fmt.Sprintf("Stop: item %d failed, item %d is reported successful", first, i), caseJSON)
					break
				}
			}
		}
		for i := 0; i < len(cs.Items) && (first < 0 || i <= first); i++ {
			it := cs.Items[i]
			if it.Ext != 2 && c09Routed(cs, it.Op) && !called[i] {
				c.Fail("C09/stop/not-executed-before-failure", fmt.Sprintf("Stop: item %d precedes the first failure (%d) but was not executed", i, first), caseJSON)
				break
			}
		}
	case 1: // Continue
		for i, it := range cs.Items {
			if it.Ext != 2 && c09Routed(cs, it.Op) && !called[i] {
				c.Fail("C09/continue/not-executed", fmt.Sprintf("Continue: item %d was not executed", i), caseJSON)
				break
			}
		}
	}
}

// ---------------------------------------------------------------- generation

const (
	c09OpCreate   = 0x01
	c09OpLocate   = 0x08
	c09OpGet      = 0x0A
	c09OpActivate = 0x12
	c09OpDestroy  = 0x14
	c09OpDiscover = 0x1E
)

var c09Sup = [][2]int{{1, 4}, {1, 3}, {1, 2}, {1, 1}, {1, 0}}

var c09ClassNames = []string{"success", "typed-error", "plain-error", "panic", "unrouted", "critical-extension"}

// c09ClassItem builds the canonical item of one of the six outcome classes of the quantifier.
func c09ClassItem(class, idx int, withID bool) c09Item {
	it := c09Item{Op: c09OpGet, Pl: 2, Key: idx, Class: c09ClassNames[class]}
	if withID {
		it.ID = []int{0xA0 + idx, idx}
	}
	sc := &c09Script{Out: c09Out{K: 1, RP: idx}}
	switch class {
	case 1:
		sc.Out = c09Out{K: 2, RP: -1, E: []int{1, 1}}
	case 2:
		sc.Out = c09Out{K: 2, RP: -1, E: []int{4}}
	case 3:
		sc.Out = c09Out{K: 3, RP: -1, PV: 2}
	case 4:
		it.Op = c09OpDestroy
	case 5:
		it.Ext = 2
	}
	it.Script = sc
	return it
}

func c09RandErr(r *h.Rand) []int {
	reasons := []int{1, 4, 5, 7, 8, 9, 12, 256}
	var e []int
	for r.Chance(1, 3) && len(e) < 3 {
		e = append(e, 3)
	}
	switch r.Intn(5) {
	case 0, 1:
		e = append(e, 1, reasons[r.Intn(len(reasons))])
	case 2:
		e = append(e, 2, reasons[r.Intn(len(reasons))])
	case 3:
		e = append(e, 5+r.Intn(2)) // a context error (deadline exceeded / canceled), bare or wrapped
	default:
		e = append(e, 4)
	}
	return e
}

func c09RandStr(r *h.Rand) string {
	pool := []string{"a", "id-1", "xyz", "\x00", "k\xc3\xa9y", "0123456789"}
	return pool[r.Intn(len(pool))]
}

func c09RandScript(r *h.Rand, idx int) *c09Script {
	sc := &c09Script{}
	n := 0
	if r.Chance(1, 2) {
		n = r.Intn(4)
	}
	for k := 0; k < n; k++ {
		a := c09Act{K: 1 + r.Intn(5)}
		if r.Chance(1, 6) {
			a.C = 1
		}
		if a.K == 5 {
			a.C = 0
		}
		if a.K == 2 {
			if r.Bool() {
				a.S = c09RandStr(r)
			}
		} else if a.K == 3 || a.K == 5 {
			a.S = c09RandStr(r)
		}
		sc.Acts = append(sc.Acts, a)
	}
	rp := -1
	if r.Bool() {
		rp = idx
	}
	switch r.Intn(6) {
	case 0, 1, 2:
		sc.Out = c09Out{K: 1, RP: rp}
	case 3, 4:
		sc.Out = c09Out{K: 2, RP: rp, E: c09RandErr(r)}
	default:
		sc.Out = c09Out{K: 3, RP: -1, PV: 1 + r.Intn(5)}
		if sc.Out.PV == 1 {
			sc.Out.E = c09RandErr(r)
		}
	}
	return sc
}

func c09RandItem(r *h.Rand, idx int, routes []int) c09Item {
	ops := []int{c09OpGet, c09OpGet, c09OpActivate, c09OpDestroy, c09OpCreate, c09OpDiscover, c09OpLocate}
	it := c09Item{Op: ops[r.Intn(len(ops))], Key: idx, Pl: 2}
	if r.Bool() {
		n := 1 + r.Intn(8)
		for k := 0; k < n; k++ {
			it.ID = append(it.ID, r.Intn(256))
		}
	}
	switch r.Intn(10) {
	case 0:
		it.Ext = 2
	case 1, 2:
		it.Ext = 1
	}
	switch r.Intn(10) {
	case 0:
		it.Pl = 0
	case 1, 2:
		it.Pl = 1
		it.Op = c09OpDiscover
		if r.Chance(1, 4) {
			it.Op = c09OpGet // payload type and operation need not agree
		}
		all := [][2]int{{1, 4}, {1, 3}, {1, 2}, {1, 1}, {1, 0}, {2, 0}, {0, 9}}
		for _, v := range all {
			if r.Chance(1, 3) {
				it.Vers = append(it.Vers, v)
			}
		}
	}
	if it.Pl == 2 {
		it.Script = c09RandScript(r, idx)
	}
	return it
}

func c09RandCase(r *h.Rand) c09Case {
	supSets := [][][2]int{c09Sup, {{1, 4}, {1, 2}}, {{1, 0}}, {{2, 0}, {1, 4}, {1, 3}}}
	cs := c09Case{Sup: supSets[r.Intn(len(supSets))], Routes: []int{c09OpGet, c09OpActivate}, Parent: r.Intn(2)}
	if r.Chance(1, 4) {
		cs.Routes = append(cs.Routes, c09OpDiscover)
	}
	if r.Chance(1, 8) {
		cs.Routes = append(cs.Routes, c09OpCreate)
	}
	n := r.Intn(4)
	if r.Chance(1, 3) {
		n = 4 + r.Intn(9)
	}
	for i := 0; i < n; i++ {
		cs.Items = append(cs.Items, c09RandItem(r, i, cs.Routes))
	}
	if r.Chance(1, 3) {
		cs.Order = 1 + r.Intn(2)
	}
	cs.Ver = cs.Sup[r.Intn(len(cs.Sup))]
	switch r.Intn(14) {
	case 0:
		cs.Ver = [2]int{3, 0}
	case 1:
		cs.Ver = [2]int{0, 0}
	case 2:
		cs.Ver = [2]int{1, 5}
	case 3:
		cs.Ver = [2]int{0, 1 + r.Intn(9)} // major 0 with a minor: unsupported like any other, echoed as it is
	}
	opts := []int{0, 1, 2, 2, 2, 1, 3, 4, 0}
	cs.Opt = opts[r.Intn(len(opts))]
	cs.Count = n
	switch r.Intn(12) {
	case 0:
		cs.Count = n + 1
	case 1:
		cs.Count = n - 1
	case 2:
		cs.Count = -1
	}
	return cs
}

func c09CaseKey(cs *c09Case) string {
	var sb strings.Builder
	fmt.Fprintf(&sb, "%v|%v|%v|%v|%d|%d|%d|", cs.Sup, cs.Routes, cs.NilReq, cs.Ver, cs.Opt, cs.Count, cs.Parent)
	for _, it := range cs.Items {
		fmt.Fprintf(&sb, "%d,%v,%d,%d,%v,", it.Op, it.ID, it.Ext, it.Pl, it.Vers)
		if it.Script != nil {
			fmt.Fprintf(&sb, "%v", *it.Script)
		}
		sb.WriteString(";")
	}
	return sb.String()
}

func c09FromReplay(m any) (*c09Case, error) {
	b, err := json.Marshal(m)
	if err != nil {
		return nil, err
	}
	var cs c09Case
	if err := json.Unmarshal(b, &cs); err != nil {
		return nil, err
	}
	return &cs, nil
}

func driveC09(c *h.Ctx) error {
	maxLen := c.Pick(4, 5)
	nRandom := c.Pick(1500, 6000)
	c.Rule(fmt.Sprintf("real BatchExecutor.HandleRequest with scripted logging handlers. (a) exhaustive: every batch of length 0..%d over the six item "+
		"outcome classes {success, typed error, plain error, panic, unrouted operation, critical extension} x continuation option {unset, Continue, Stop, Undo}, "+
		"item IDs present/absent alternating; (b) reject grid: every batch of length 0..2 x 4 options x version {supported, unsupported, zero} x batch count {equal, +1, -1}; "+
		"(c) %d random batches of length 0..12 over the full alphabet (7 operations incl. routed/unrouted DiscoverVersions, nil/discover/keyed payloads, "+
		"message extensions, value/pointer/wrapped typed errors, plain errors, payload+error returns, 5 kinds of panic value, handlers using the ID placeholder, "+
		"option 0..4, mismatching counts, 4 supported-version sets, nil request); (d) two requests with different continuation options in flight on one executor (oracle only). A case is non-trivial when it has at least one item; distinct by full case content", maxLen, nRandom))
	type compactInfo struct {
		classes []int
		parity  int
	}
	var cases []c09Case
	var compact []compactInfo
	isConc := false
	if c.Replay != nil {
		if m, _ := c.Replay["case"].(map[string]any); m != nil && m["leg"] == "concurrent" {
			isConc = true
		}
	}
	if c.Replay == nil || isConc {
		c09Concurrent(c)
	}
	if isConc {
		// nothing else to replay
	} else if c.Replay != nil {
		cs, err := c09FromReplay(c.Replay["case"])
		if err != nil {
			return err
		}
		cases = append(cases, *cs)
	} else {
		routes := []int{c09OpGet, c09OpActivate}
		// (a) exhaustive over classes
		var rec func(prefix []int, n int)
		combo := 0
		rec = func(prefix []int, n int) {
			if len(prefix) == n {
				for _, opt := range []int{0, 1, 2, 3} {
					cs := c09Case{Sup: c09Sup, Routes: routes, Ver: [2]int{1, 4}, Opt: opt, Count: n}
					for i, cl := range prefix {
						cs.Items = append(cs.Items, c09ClassItem(cl, i, (combo+i)%2 == 0))
					}
					cases = append(cases, cs)
					compact = append(compact, compactInfo{append([]int{}, prefix...), combo % 2})
				}
				combo++
				return
			}
			for cl := 0; cl < 6; cl++ {
				rec(append(append([]int(nil), prefix...), cl), n)
			}
		}
		for n := 0; n <= maxLen; n++ {
			rec(nil, n)
		}
		// (b) reject grid
		for n := 0; n <= 2; n++ {
			var rec2 func(prefix []int)
			rec2 = func(prefix []int) {
				if len(prefix) == n {
					for _, opt := range []int{0, 1, 2, 3} {
						for _, ver := range [][2]int{{1, 2}, {3, 1}, {0, 0}} {
							for _, dc := range []int{0, 1, -1} {
								if ver == [2]int{1, 2} && dc == 0 {
									continue // covered by (a)
								}
								cs := c09Case{Sup: c09Sup, Routes: routes, Ver: ver, Opt: opt, Count: n + dc}
								for i, cl := range prefix {
									cs.Items = append(cs.Items, c09ClassItem(cl, i, i%2 == 1))
								}
								cases = append(cases, cs)
								compact = append(compact, compactInfo{append([]int{}, prefix...), 1})
							}
						}
					}
					return
				}
				for cl := 0; cl < 6; cl++ {
					rec2(append(append([]int(nil), prefix...), cl))
				}
			}
			rec2(nil)
		}
		c.Extra("exhaustive_cases", len(cases))
		// nil request
		cases = append(cases, c09Case{Sup: c09Sup, Routes: routes, NilReq: true})
		// (c) random
		for i := 0; i < nRandom; i++ {
			cases = append(cases, c09RandCase(c.Rng.Fork(uint64(i))))
		}
		c.Exhaustive(true)
	}
	var rows, crows []string
	for i := range cases {
		cs := &cases[i]
		obs := c09Run(cs)
		c.Eval(c09CaseKey(cs), len(cs.Items) > 0)
		c.Count("option:" + c09OptName(cs.Opt))
		c.Count(fmt.Sprintf("len:%d", len(cs.Items)))
		for _, it := range cs.Items {
			if it.Class != "" {
				c.Count("class:" + it.Class)
			}
		}
		if obs.panicked {
			c.Count("outcome:panic")
		} else if len(obs.resp.BatchItem) == 1 && (!c09Supported(cs) || cs.Opt == 3 || cs.Count != len(cs.Items)) {
			c.Count("outcome:rejected")
		} else {
			c.Count("outcome:executed")
		}
		idx := map[string]any{"case": cs, "observed": obs.flat()}
		if i%1499 == 7 {
			c.Sample(idx)
		}
		c09Oracle(c, cs, &obs, cs)
		if i < len(compact) && compact[i].classes != nil {
			crows = append(crows, c09CompactRow(cs, compact[i].classes, compact[i].parity, &obs))
			c.IndexCase("mism_classes", len(crows)-1, idx)
		} else {
			rows = append(rows, c09Row(cs, &obs))
			c.IndexCase("mism_batch", len(rows)-1, idx)
		}
	}
	var sb strings.Builder
	sb.WriteString(c09Prelude)
	cdefs, cexpr := h.Chunk("crows", "crow", crows, 500)
	sb.WriteString(cdefs)
	defs, expr := h.Chunk("rows", "row", rows, 300)
	sb.WriteString(defs)
	fmt.Fprintf(&sb, "Definition mism_classes := Eval vm_compute in bad_idx crow_ok %s 0.\nPrint mism_classes.\n", cexpr)
	fmt.Fprintf(&sb, "Definition mism_batch := Eval vm_compute in bad_idx row_ok %s 0.\nPrint mism_batch.\n", expr)
	return c.WriteCases("cases_C09.v", sb.String(), len(rows)+len(crows))
}
