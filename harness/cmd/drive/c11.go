package main

import (
	"encoding/json"
	"fmt"
	"os"
	"strings"
	"time"

	"verifharness/internal/h"
)

func init() { h.Register("C11", driveC11) }

// ccDrive runs the given scenarios on the real client, applies the direct oracle, and writes the
// correspondence table (scenario, observed outcome) for the model.
func ccDrive(c *h.Ctx, prop string, cases []ccGenCase, casesFile string, keep func(sig string) bool) error {
	var rows []string
	seenSig := map[string]int{}
	nbad := 0
	for i, gc := range cases {
		if nbad >= 30 {
			// enough failing inputs: do not spend the whole budget on a broken tree
			c.Extra("stopped_after_failing_scenarios", nbad)
			break
		}
		sc := gc.Sc
		t0 := time.Now()
		c.Current(map[string]any{"scenario": sc, "family": gc.Family, "what": ccDescribe(sc)})
		obs := ccRun(sc, false)
		if d := time.Since(t0); d > 300*time.Millisecond && os.Getenv("CC_SLOW") != "" {
			fmt.Fprintf(os.Stderr, "slow %v: %s\n", d, ccDescribe(sc))
		}
		key := sc.key()
		nontrivial := len(sc.Plans) > 0 || sc.Negotiate
		for _, st := range sc.Steps {
			if st.Close || st.Trig != 0 {
				nontrivial = true
			}
		}
		c.Eval(key, nontrivial)
		c.Count("family:" + gc.Family)
		for _, o := range obs.Steps {
			c.Count("result:" + ccResNames[o.Res])
			if o.Ntx > 1 {
				c.Count(fmt.Sprintf("transmissions:%d", o.Ntx))
			}
		}
		caseJSON := map[string]any{"scenario": sc, "family": gc.Family, "what": ccDescribe(sc), "observed": obs}
		if i%211 == 0 {
			c.Sample(caseJSON)
		}
		// ---- direct oracle
		vs := ccOracle(sc, obs)
		if obs.CloseHung {
			vs = append(vs, ccVerdict{"hang/close", "the final Client.Close() did not return within 2 s"})
		}
		for _, o := range obs.Steps {
			if o.ExpectOK && o.Res == ccRErr {
				vs = append(vs, ccVerdict{"no-recovery", "a call failed although the client is open, the dialer succeeds and no failure is left in the script"})
			}
			if o.Millis > 1500 && o.Res != ccRHang {
				vs = append(vs, ccVerdict{"slow", fmt.Sprintf("a call took %d ms to return", o.Millis)})
			}
		}
		for _, v := range vs {
			if keep == nil || keep(v.Sig) {
				if seenSig[v.Sig] < 3 {
					ev := ccRun(sc, true) // once more, keeping the transport's event log for the report
					caseJSON["events"] = ev.Events
				}
				seenSig[v.Sig]++
				c.Fail(prop+"/"+v.Sig, v.Desc+" -- "+ccDescribe(sc), caseJSON)
			}
		}
		if len(vs) > 0 {
			nbad++
		}
		// ---- row for the model
		rows = append(rows, "("+ccCoqScenario(sc)+", "+ccCoqOutcome(obs)+")")
		c.IndexCase("mism_scenarios", len(rows)-1, caseJSON)
	}
	var sb strings.Builder
	sb.WriteString("From Coq Require Import ZArith List Bool.\nFrom KV Require Import ConnClient ConnScenario Cases.\nImport ListNotations.\nOpen Scope Z_scope.\n")
	defs, expr := h.Chunk("rows", "scenario * outcome", rows, 200)
	sb.WriteString(defs)
	fmt.Fprintf(&sb, "Definition mism_scenarios := Eval vm_compute in bad_idx row_ok %s 0.\nPrint mism_scenarios.\n", expr)
	return c.WriteCases(casesFile, sb.String(), len(rows))
}

func ccReplayCases(c *h.Ctx) ([]ccGenCase, bool, error) {
	if c.Replay == nil {
		return nil, false, nil
	}
	var out []ccGenCase
	add := func(v any) error {
		sc, err := ccScenarioFromJSON(v)
		if err != nil {
			return err
		}
		for i := 0; i < 8; i++ { // racy windows: several runs
			out = append(out, ccGenCase{"replay", sc})
		}
		return nil
	}
	if m, _ := c.Replay["case"].(map[string]any); m != nil && m["scenario"] != nil {
		// a case after which the process died: the cases run just before it come first (a goroutine they left
		// behind may be the one that panicked)
		if prev, _ := c.Replay["previous"].([]any); prev != nil {
			for _, p := range prev {
				if pm, _ := p.(map[string]any); pm != nil && pm["scenario"] != nil {
					_ = add(pm["scenario"])
				}
			}
		}
		return out, true, add(m["scenario"])
	}
	// a broken correspondence without a failing input: replay the first disagreeing scenarios
	if bl, _ := c.Replay["broken"].([]any); bl != nil {
		for _, b := range bl {
			bm, _ := b.(map[string]any)
			fl, _ := bm["first"].([]any)
			for _, f := range fl {
				fm, _ := f.(map[string]any)
				cm, _ := fm["case"].(map[string]any)
				if cm != nil && cm["scenario"] != nil {
					if err := add(cm["scenario"]); err != nil {
						return nil, true, err
					}
				}
			}
		}
	}
	if len(out) == 0 {
		return nil, true, fmt.Errorf("replay file holds no scenario (kind=%v): re-run the check itself", c.Replay["kind"])
	}
	return out, true, nil
}

func driveC11(c *h.Ctx) error {
	c.Rule("scenarios imposed on a real kmipclient.Client over the scripted in-memory transport (WithDialerUnsafe): " +
		"(1) one failure at every I/O point of every exchange incl. negotiation (write: EOF/closed pipe/net closed/reset/broken pipe/timeout/short write at 4 offsets; " +
		"read: the same kinds instead of the reply, after 1/7/8/9/40/all-but-one bytes of it, right after it; zero-byte reads; chunked and junk-prefixed replies) x what the caller does next " +
		"(call, call call, Close, Close call, call Close call); (2) failure chains over successive connections incl. failing dials, exhaustive to length 3, random to length 6; " +
		"(3) every cancellation / concurrent Close instant (before the call, send.loaded hook, Write parked in the transport, roundtrip.sent hook, reply held back, inside the dialer) " +
		"alone and combined with failures; (4) races: the next call started without waiting, at the instant the server closes the connection after replying, " +
		"after an abandoned or failed call; (5) random compositions; (6) calls issued while Client.Close is parked inside the transport's Close (oracle only). Non-trivial: at least one failure, trigger, Close or negotiation; distinct by scenario text")
	if c.Replay != nil {
		if cs, _ := c.Replay["case"].(map[string]any); cs != nil && cs["leg"] == "negotiation-fault-then-unreachable" {
			c11NegotiationFaultThenUnreachable(c)
			return ccDrive(c, "C11", nil, "cases_C11.v", nil)
		}
		if cs, _ := c.Replay["case"].(map[string]any); cs != nil && cs["leg"] == "close-race" {
			c11CloseRace(c)
			return ccDrive(c, "C11", nil, "cases_C11.v", nil)
		}
		if cs, _ := c.Replay["case"].(map[string]any); cs != nil && cs["leg"] == "recv-window" {
			c11RecvWindow(c)
			return ccDrive(c, "C11", nil, "cases_C11.v", nil)
		}
	}
	if c.Replay == nil {
		c11NegotiationFaultThenUnreachable(c)
	}
	cases, replay, err := ccReplayCases(c)
	if err != nil {
		return err
	}
	if !replay {
		c11CloseRace(c)
		c11RecvWindow(c)
		cases = append(cases, ccGenSingle()...)
		cases = append(cases, ccGenChains(c.Rng.Fork(11), c.Pick(150, 1500))...)
		cases = append(cases, ccGenTriggers()...)
		cases = append(cases, ccGenRaces()...)
		cases = append(cases, ccGenRandom(c.Rng.Fork(12), c.Pick(400, 8000))...)
	}
	b, _ := json.Marshal(len(cases))
	c.Extra("scenarios", json.RawMessage(b))
	return ccDrive(c, "C11", cases, "cases_C11.v", nil)
}
