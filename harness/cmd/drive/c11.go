package main

import (
	"encoding/json"
	"fmt"
	"os"

	"verifharness/internal/h"
)

func init() { h.Register("C11", driveC11) }

func driveC11(c *h.Ctx) error {
	if os.Getenv("CC_PROBE") != "" {
		probes := []ccScenario{
			{Steps: []ccStep{{}, {}}},
			{Negotiate: true, Steps: []ccStep{{}, {}}},
			// defect 16: cancel between send and recv, next call
			{Steps: []ccStep{{Trig: ccTSent, Act: ccACancel}, {}}},
			// reply held, cancel, next
			{Steps: []ccStep{{Trig: ccTReplyHeld, Act: ccACancel}, {}}},
			{Steps: []ccStep{{Trig: ccTWriteHeld, Act: ccACancel}, {}}},
			{Steps: []ccStep{{Trig: ccTPre, Act: ccACancel}, {}}},
			// defect 17a: close at loaded
			{Steps: []ccStep{{Trig: ccTLoaded, Act: ccAClose}, {}}},
			// defect 18: reset on read, then next calls
			{Plans: []ccPlan{{Reqs: []ccReq{{R: 1, RK: 4}}}}, Steps: []ccStep{{}, {}, {}}},
			// write reset
			{Plans: []ccPlan{{Reqs: []ccReq{{W: 1, WK: 4}}}}, Steps: []ccStep{{}, {}, {}}},
			// EOF on read -> retry
			{Plans: []ccPlan{{Reqs: []ccReq{{R: 1, RK: 1}}}}, Steps: []ccStep{{}, {}}},
			// EOF on every conn: retry bound
			{Plans: []ccPlan{{Reqs: []ccReq{{R: 1, RK: 1}}}, {Reqs: []ccReq{{R: 1, RK: 1}}}, {Reqs: []ccReq{{R: 1, RK: 1}}}, {Reqs: []ccReq{{R: 1, RK: 1}}}, {Reqs: []ccReq{{R: 1, RK: 1}}}}, Steps: []ccStep{{}, {}}},
			// defect 19: EOF then dial fails, then Close
			{Plans: []ccPlan{{Reqs: []ccReq{{R: 1, RK: 1}}}, {DialFail: true}}, Steps: []ccStep{{}, {Close: true}, {}}},
			// close then call
			{Steps: []ccStep{{}, {Close: true}, {}}},
			// close while reply held
			{Steps: []ccStep{{Trig: ccTReplyHeld, Act: ccAClose}, {}}},
			// then-fail
			{Plans: []ccPlan{{Reqs: []ccReq{{R: 3, RK: 1}}}}, Steps: []ccStep{{}, {}}},
			{Plans: []ccPlan{{Reqs: []ccReq{{R: 3, RK: 4}}}}, Steps: []ccStep{{}, {}}},
			{Plans: []ccPlan{{Reqs: []ccReq{{R: 2, RK: 1, PN: 5}}}}, Steps: []ccStep{{}, {}}},
			{Plans: []ccPlan{{Reqs: []ccReq{{W: 2, WK: 6, SN: 10}}}}, Steps: []ccStep{{}, {}}},
			{Plans: []ccPlan{{Reqs: []ccReq{{J: true, Ch: 3}}}}, Steps: []ccStep{{}, {}}},
		}
		for i, sc := range probes {
			n := 1
			if len(sc.Steps) > 0 && sc.Steps[0].Trig == ccTLoaded {
				n = 6
			}
			for k := 0; k < n; k++ {
				obs := ccRun(sc, false)
				b, _ := json.Marshal(obs)
				fmt.Printf("%2d %-70s %s\n", i, ccDescribe(sc), b)
			}
		}
	}
	c.Rule("probe")
	return nil
}
