package main

// Shared by the C10 and C11 drivers: scenarios imposed on a real kmipclient.Client through
// the scripted in-memory transport of internal/clisim, and their observed outcomes.

import (
	"context"
	"encoding/json"
	"fmt"
	"net"
	"runtime"
	"strings"
	"sync"
	"time"

	"github.com/ovh/kmip-go"
	"github.com/ovh/kmip-go/kmipclient"
	"github.com/ovh/kmip-go/payloads"

	"verifharness/internal/clisim"
)

// ---- scenario language (mirrored by ConnClient.v: [scenario], [sstep]) ----

// trigger points of a call at which the harness acts
const (
	ccTNone      = 0
	ccTPre       = 1 // before the call starts
	ccTLoaded    = 2 // hook "cli.send.loaded": send has loaded the tx channel
	ccTWriteHeld = 3 // the request's Write is parked inside the transport
	ccTSent      = 4 // hook "cli.roundtrip.sent": between send and recv
	ccTReplyHeld = 5 // the server has the request, its reply is held back
	ccTDial      = 6 // inside the dialer called by reconnect during this call
)

var ccTrigNames = []string{"none", "pre", "loaded", "writeheld", "sent", "replyheld", "dial"}

// what the harness does at the trigger point
const (
	ccANone   = 0
	ccACancel = 1 // cancel the call's context
	ccAClose  = 2 // Client.Close() from another goroutine
)

var ccActNames = []string{"none", "cancel", "close"}

type ccStep struct {
	Close bool `json:"close,omitempty"` // a Client.Close() between calls; otherwise a call
	Now   bool `json:"now,omitempty"`   // start the call right away, without waiting for the goroutines to settle
	Trig  int  `json:"trig,omitempty"`
	Act   int  `json:"act,omitempty"`
}

type ccReq struct {
	W  int  `json:"w,omitempty"`  // clisim.WriteAct
	WK int  `json:"wk,omitempty"` // kind
	SN int  `json:"sn,omitempty"`
	R  int  `json:"r,omitempty"` // clisim.ReplyAct
	RK int  `json:"rk,omitempty"`
	PN int  `json:"pn,omitempty"`
	Ch int  `json:"ch,omitempty"`
	J  bool `json:"j,omitempty"`
}

type ccPlan struct {
	DialFail bool    `json:"dialfail,omitempty"`
	Reqs     []ccReq `json:"reqs,omitempty"`
}

type ccScenario struct {
	Negotiate bool     `json:"negotiate,omitempty"`
	Plans     []ccPlan `json:"plans,omitempty"`
	Steps     []ccStep `json:"steps"`
}

func (s ccScenario) key() string {
	b, _ := json.Marshal(s)
	return string(b)
}

func ccScenarioFromJSON(v any) (ccScenario, error) {
	var s ccScenario
	b, err := json.Marshal(v)
	if err != nil {
		return s, err
	}
	err = json.Unmarshal(b, &s)
	return s, err
}

func (s ccScenario) plans() []clisim.ConnPlan {
	out := make([]clisim.ConnPlan, len(s.Plans))
	for i, p := range s.Plans {
		out[i].DialFail = p.DialFail
		for _, r := range p.Reqs {
			out[i].Reqs = append(out[i].Reqs, clisim.ReqPlan{Write: clisim.WriteAct(r.W), WKind: clisim.Kind(r.WK), ShortN: r.SN,
				Reply: clisim.ReplyAct(r.R), RKind: clisim.Kind(r.RK), PartialN: r.PN, Chunk: r.Ch, Junk: r.J})
		}
	}
	return out
}

// ---- observed outcome ----

const (
	ccROk    = 0 // returned the response to its own request
	ccRErr   = 1 // returned an error
	ccRWrong = 2 // returned a response carrying another identifier
	ccRPanic = 3
	ccRHang  = 4
)

var ccResNames = []string{"ok", "err", "wrong", "panic", "hang"}

type ccCallObs struct {
	Res      int    `json:"res"`
	Got      string `json:"got,omitempty"` // identifier received (wrong) / panic text
	Ntx      int    `json:"ntx"`           // times the scripted server received this call's request
	Dials    int    `json:"dials"`         // dial attempts so far (including the first)
	IsClose  bool   `json:"is_close,omitempty"`
	IsNeg    bool   `json:"is_negotiation,omitempty"`
	ExpectOK bool   `json:"expect_ok,omitempty"` // plain call, client open, nothing scripted can fail any more
	Millis   int64  `json:"ms,omitempty"`
	Acted    bool   `json:"acted,omitempty"` // the trigger point was reached and the action performed
}

type ccObs struct {
	DialOK    bool        `json:"dial_ok"`
	Steps     []ccCallObs `json:"steps"`
	LeakRead  int         `json:"leak_readloops"`
	LeakWrite int         `json:"leak_writeloops"`
	OpenConns int         `json:"open_conns"` // connections not closed by the client after the final Close
	Stale     []string    `json:"stale,omitempty"`
	Events    []string    `json:"events,omitempty"`
	CloseHung bool        `json:"close_hung,omitempty"` // the final Client.Close() did not return within the call timeout
}

// ccCloseBounded runs Client.Close in a goroutine and gives up waiting after the call timeout: a Close that
// does not return is an observation (hung), not a reason to hang the driver.
func ccCloseBounded(cl interface{ Close() error }) (hung bool, panicked string) {
	d := make(chan string, 1)
	go func() {
		defer func() {
			if p := recover(); p != nil {
				d <- fmt.Sprint(p)
				return
			}
			d <- ""
		}()
		_ = cl.Close()
	}()
	select {
	case p := <-d:
		return false, p
	case <-time.After(ccCallTimeout):
		return true, ""
	}
}

const ccCallTimeout = 2 * time.Second
const ccSettleTimeout = 1 * time.Second

var ccHookMu sync.Mutex
var ccHookFn func(point string)

func init() {
	kmipclient.SetVerifYield(func(point string) {
		ccHookMu.Lock()
		f := ccHookFn
		ccHookMu.Unlock()
		if f != nil {
			f(point)
		}
	})
}

func ccSetHook(f func(string)) {
	ccHookMu.Lock()
	ccHookFn = f
	ccHookMu.Unlock()
}

type ccCallResult struct {
	res int
	got string
}

// ccDoCall performs one Request carrying identifier id and classifies its result.
func ccDoCall(ctx context.Context, c *kmipclient.Client, id string) (r ccCallResult) {
	defer func() {
		if p := recover(); p != nil {
			r = ccCallResult{ccRPanic, fmt.Sprint(p)}
		}
	}()
	resp, err := c.Request(ctx, &payloads.ActivateRequestPayload{UniqueIdentifier: id})
	if err != nil {
		return ccCallResult{ccRErr, ""}
	}
	pl, ok := resp.(*payloads.ActivateResponsePayload)
	if !ok {
		return ccCallResult{ccRWrong, fmt.Sprintf("%T", resp)}
	}
	if pl.UniqueIdentifier != id {
		return ccCallResult{ccRWrong, pl.UniqueIdentifier}
	}
	return ccCallResult{ccROk, ""}
}

func ccCountID(log []clisim.Received, id string) int {
	n := 0
	for _, r := range log {
		if r.ID == id {
			n++
		}
	}
	return n
}

// ccRun imposes scenario sc on a fresh real client and returns what was observed.
func ccRun(sc ccScenario, keepEvents bool) (obs ccObs) {
	w := clisim.NewWorld(sc.plans())
	base1, base2 := clisim.ClientGoroutines() // loops leaked by earlier scenarios (stay forever)
	var dialHook func()
	var dialHookMu sync.Mutex
	dial := func(ctx context.Context) (net.Conn, error) {
		dialHookMu.Lock()
		f := dialHook
		dialHook = nil
		dialHookMu.Unlock()
		if f != nil {
			f()
		}
		return w.Dial()
	}
	opts := []kmipclient.Option{kmipclient.WithDialerUnsafe(dial)}
	if !sc.Negotiate {
		opts = append(opts, kmipclient.EnforceVersion(kmip.V1_4))
	}
	var client *kmipclient.Client
	func() {
		defer func() {
			if p := recover(); p != nil {
				obs.Steps = append(obs.Steps, ccCallObs{Res: ccRPanic, Got: fmt.Sprint(p)})
			}
		}()
		done := make(chan struct{})
		var err error
		go func() {
			defer close(done)
			defer func() {
				if p := recover(); p != nil {
					err = fmt.Errorf("panic: %v", p)
				}
			}()
			client, err = kmipclient.DialContext(context.Background(), "mem", opts...)
		}()
		select {
		case <-done:
		case <-time.After(ccCallTimeout):
			err = fmt.Errorf("hang")
		}
		obs.DialOK = err == nil && client != nil
		if !obs.DialOK {
			client = nil
		}
	}()
	closedSoFar := false
	defer func() {
		ccSetHook(nil)
		w.ReleaseAll()
		// a client the scenario has already closed must be clean without any further Close
		if client != nil && !closedSoFar {
			obs.CloseHung, _ = ccCloseBounded(client)
		}
		w.Settle(ccSettleTimeout)
		obs.LeakRead, obs.LeakWrite = clisim.WaitClientGoroutines(base1, base2, 1*time.Second)
		obs.OpenConns = w.OpenConns()
		if keepEvents {
			obs.Events = w.EventLog()
		}
	}()
	if sc.Negotiate {
		n := 0
		for _, r := range w.Received() {
			if r.Op == kmip.OperationDiscoverVersions {
				n++
			}
		}
		o := ccCallObs{Res: ccROk, Ntx: n, Dials: w.Dials(), IsNeg: true}
		if !obs.DialOK {
			o.Res = ccRErr
			if len(obs.Steps) > 0 { // DialContext panicked
				o = obs.Steps[0]
				obs.Steps = nil
			}
		}
		obs.Steps = append(obs.Steps, o)
	}
	if !obs.DialOK {
		return obs
	}
	ncall := 0
	for si, st := range sc.Steps {
		if st.Now && !st.Close {
			// no settling: the call races with whatever the connection goroutines are doing
			for k := (len(sc.Plans)*7 + si*3 + len(sc.Steps)) % 4; k > 0; k-- {
				runtime.Gosched()
			}
		} else {
			w.Settle(ccSettleTimeout)
		}
		if st.Close {
			closedSoFar = true
			o := ccCallObs{IsClose: true, Res: ccROk}
			if hung, pk := ccCloseBounded(client); hung {
				o.Res = ccRHang
			} else if pk != "" {
				o.Res, o.Got = ccRPanic, pk
			}
			o.Dials = w.Dials()
			obs.Steps = append(obs.Steps, o)
			if o.Res == ccRPanic || o.Res == ccRHang {
				return obs
			}
			continue
		}
		id := fmt.Sprintf("k%d", ncall)
		ncall++
		expectOK := st.Trig == ccTNone && !st.Now && !closedSoFar && ccFutureClean(sc, w.ReqCounts())
		t0 := time.Now()
		ctx, cancel := context.WithCancel(context.Background())
		var actOnce sync.Once
		acted := false
		act := func() {
			actOnce.Do(func() {
				acted = true
				switch st.Act {
				case ccACancel:
					cancel()
				case ccAClose:
					// Client.Close() called by another goroutine, completed before we go on
					d := make(chan struct{})
					go func() {
						defer close(d)
						defer func() { _ = recover() }()
						_ = client.Close()
					}()
					select {
					case <-d:
					case <-time.After(ccCallTimeout):
					}
				}
			})
		}
		switch st.Trig {
		case ccTPre:
			act()
		case ccTLoaded:
			ccSetHook(func(p string) {
				if p == "cli.send.loaded" {
					act()
				}
			})
		case ccTSent:
			ccSetHook(func(p string) {
				if p == "cli.roundtrip.sent" {
					act()
				}
			})
		case ccTWriteHeld:
			w.ArmHoldWrite()
		case ccTReplyHeld:
			w.ArmHoldReply()
		case ccTDial:
			dialHookMu.Lock()
			dialHook = act
			dialHookMu.Unlock()
		}
		done := make(chan struct{})
		var res ccCallResult
		go func() {
			defer close(done)
			res = ccDoCall(ctx, client, id)
			w.Poke()
		}()
		if st.Trig == ccTWriteHeld || st.Trig == ccTReplyHeld {
			wh, rh := w.WaitHeld(ccCallTimeout, done)
			if wh || rh {
				act()
			}
		}
		hang := false
		select {
		case <-done:
		case <-time.After(ccCallTimeout):
			// give the call a way out before declaring a hang
			w.ReleaseAll()
			select {
			case <-done:
			case <-time.After(ccCallTimeout):
				hang = true
			}
		}
		ccSetHook(nil)
		dialHookMu.Lock()
		dialHook = nil
		dialHookMu.Unlock()
		w.Disarm()
		w.ReleaseAll() // a held reply is delivered late, after the call has returned
		cancel()
		o := ccCallObs{ExpectOK: expectOK, Millis: time.Since(t0).Milliseconds(), Acted: acted}
		if acted && st.Act == ccAClose {
			closedSoFar = true
		}
		if hang {
			o.Res = ccRHang
		} else {
			o.Res, o.Got = res.res, res.got
		}
		o.Ntx = ccCountID(w.Received(), id)
		o.Dials = w.Dials()
		obs.Steps = append(obs.Steps, o)
		if o.Res == ccRPanic || o.Res == ccRHang {
			return obs
		}
	}
	return obs
}

func ccDescribe(sc ccScenario) string {
	var sb strings.Builder
	if sc.Negotiate {
		sb.WriteString("negotiate; ")
	}
	for d, p := range sc.Plans {
		if p.DialFail {
			fmt.Fprintf(&sb, "dial#%d fails; ", d)
		}
		for j, r := range p.Reqs {
			if r.W != 0 {
				fmt.Fprintf(&sb, "conn#%d write#%d %s(%s); ", d, j, []string{"ok", "fail", "short"}[r.W], clisim.Kind(r.WK))
			}
			if r.R != 0 {
				fmt.Fprintf(&sb, "conn#%d reply#%d %s(%s); ", d, j, []string{"now", "fail", "partial", "thenfail", "silent"}[r.R], clisim.Kind(r.RK))
			}
		}
	}
	for _, st := range sc.Steps {
		if st.Close {
			sb.WriteString("Close ")
		} else {
			name := "Call"
			if st.Now {
				name = "CallNow"
			}
			if st.Trig == 0 {
				sb.WriteString(name + " ")
			} else {
				fmt.Fprintf(&sb, "%s[%s@%s] ", name, ccActNames[st.Act], ccTrigNames[st.Trig])
			}
		}
	}
	return strings.TrimSpace(sb.String())
}
