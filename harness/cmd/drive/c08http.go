package main

// C08 over the HTTP entry point (kmipserver/http.go; oracle only): every POSTed request gets exactly ONE
// response message in the body; a request that is a well-formed document of its encoding but cannot be
// decoded as a request message is answered with a single invalid-message error item and never reaches
// the request handler; a well-formed request reaches it exactly once.

import (
	"bytes"
	"context"
	"encoding/json"
	"encoding/xml"
	"fmt"
	"io"
	"net/http"
	"net/http/httptest"
	"strconv"
	"testing/iotest"

	"github.com/ovh/kmip-go"
	"github.com/ovh/kmip-go/kmipserver"
	"github.com/ovh/kmip-go/payloads"
	"github.com/ovh/kmip-go/ttlv"

	"verifharness/internal/h"
	"verifharness/internal/tv"
)

type c08CountingHandler struct {
	inner kmipserver.RequestHandler
	calls int
}

func (hd *c08CountingHandler) HandleRequest(ctx context.Context, req *kmip.RequestMessage) *kmip.ResponseMessage {
	hd.calls++
	return hd.inner.HandleRequest(ctx, req)
}

// c08OneDocument: how many complete top-level documents of the encoding the body holds (-1: malformed).
func c08OneDocument(enc string, body []byte) int {
	switch enc {
	case "ttlv":
		ns, err := tv.SpecParse(body)
		if err != nil {
			return -1
		}
		return len(ns)
	case "xml":
		d := xml.NewDecoder(bytes.NewReader(body))
		depth, roots := 0, 0
		for {
			tok, err := d.Token()
			if err == io.EOF {
				if depth != 0 {
					return -1
				}
				return roots
			}
			if err != nil {
				return -1
			}
			switch tok.(type) {
			case xml.StartElement:
				if depth == 0 {
					roots++
				}
				depth++
			case xml.EndElement:
				depth--
			}
		}
	default:
		d := json.NewDecoder(bytes.NewReader(body))
		n := 0
		for {
			var v any
			if err := d.Decode(&v); err == io.EOF {
				return n
			} else if err != nil {
				return -1
			}
			n++
		}
	}
}

func c08HTTP(c *h.Ctx) (rows []string) {
	exec := kmipserver.NewBatchExecutor()
	exec.Route(kmip.OperationActivate, c09HandlerFunc(func(ctx context.Context, req kmip.OperationPayload) (kmip.OperationPayload, error) {
		return &payloads.ActivateResponsePayload{UniqueIdentifier: "x"}, nil
	}))
	encs := []struct {
		name, ctype string
		marshal     func(any) []byte
		unmarshal   func([]byte, any) error
	}{
		{"ttlv", "application/octet-stream", ttlv.MarshalTTLV, ttlv.UnmarshalTTLV},
		{"xml", "text/xml", ttlv.MarshalXML, ttlv.UnmarshalXML},
		{"json", "application/json", ttlv.MarshalJSON, ttlv.UnmarshalJSON},
	}
	hdr := func(count int64) tv.Node {
		return tv.Node{Tag: 0x420077, Kind: tv.KStruct, Kids: []tv.Node{
			{Tag: 0x420069, Kind: tv.KStruct, Kids: []tv.Node{{Tag: 0x42006A, Kind: tv.KInt, I: 1}, {Tag: 0x42006B, Kind: tv.KInt, I: 4}}},
			{Tag: 0x42000D, Kind: tv.KInt, I: count}}}
	}
	get := func(payload tv.Node) tv.Node {
		return tv.Node{Tag: 0x42000F, Kind: tv.KStruct, Kids: []tv.Node{{Tag: 0x42005C, Kind: tv.KEnum, I: 0x12}, payload}}
	}
	goodPl := tv.Node{Tag: 0x420079, Kind: tv.KStruct, Kids: []tv.Node{{Tag: 0x420094, Kind: tv.KText, S: []byte("id-1")}}}
	type body struct {
		name      string
		tree      tv.Node
		decodable bool
	}
	bodies := []body{
		{"good-one-item", tv.Node{Tag: 0x420078, Kind: tv.KStruct, Kids: []tv.Node{hdr(1), get(goodPl)}}, true},
		{"good-two-items", tv.Node{Tag: 0x420078, Kind: tv.KStruct, Kids: []tv.Node{hdr(2), get(goodPl), get(goodPl)}}, true},
		{"negative-batch-count", tv.Node{Tag: 0x420078, Kind: tv.KStruct, Kids: []tv.Node{hdr(-1), get(goodPl)}}, true},
		{"minimal-batch-count", tv.Node{Tag: 0x420078, Kind: tv.KStruct, Kids: []tv.Node{hdr(-2147483648), get(goodPl)}}, true},
		{"payload-is-a-text-string", tv.Node{Tag: 0x420078, Kind: tv.KStruct, Kids: []tv.Node{hdr(1), get(tv.Node{Tag: 0x420079, Kind: tv.KText, S: []byte("oops")})}}, false},
		{"second-payload-is-a-text-string", tv.Node{Tag: 0x420078, Kind: tv.KStruct, Kids: []tv.Node{hdr(2), get(goodPl), get(tv.Node{Tag: 0x420079, Kind: tv.KText, S: []byte("oops")})}}, false},
		{"operation-is-an-integer", tv.Node{Tag: 0x420078, Kind: tv.KStruct, Kids: []tv.Node{hdr(1), {Tag: 0x42000F, Kind: tv.KStruct, Kids: []tv.Node{{Tag: 0x42005C, Kind: tv.KInt, I: 0x12}, goodPl}}}}, false},
		{"header-missing", tv.Node{Tag: 0x420078, Kind: tv.KStruct, Kids: []tv.Node{get(goodPl)}}, false},
		{"not-a-request-message", tv.Node{Tag: 0x42007B, Kind: tv.KStruct, Kids: []tv.Node{hdr(1)}}, false},
	}
	for _, e := range encs {
		for _, b := range bodies {
			v := tv.ToValue(b.tree)
			doc := e.marshal(&v)
			// the classification of the body is the library's own decoder's: the leg is about what the handler does with it
			var probe kmip.RequestMessage
			decodable := e.unmarshal(doc, &probe) == nil
			if decodable != b.decodable {
				continue
			}
			for _, chunked := range []bool{false, true} {
				cj := map[string]any{"leg": "http", "encoding": e.name, "body": b.name, "body_arrives_in_pieces": chunked}
				cnt := &c08CountingHandler{inner: exec}
				rec := httptest.NewRecorder()
				var body io.Reader = bytes.NewReader(doc)
				if chunked {
					body = iotest.OneByteReader(bytes.NewReader(doc)) // a body that does not arrive in one read
				}
				rq := httptest.NewRequest(http.MethodPost, "/kmip", body)
				rq.Header.Set("Content-Type", e.ctype)
				rq.Header.Set("Content-Length", fmt.Sprint(len(doc)))
				panicked := ""
				func() {
					defer func() {
						if p := recover(); p != nil {
							panicked = fmt.Sprint(p)
						}
					}()
					kmipserver.NewHTTPHandler(cnt).ServeHTTP(rec, rq)
				}()
				c.Eval(fmt.Sprintf("http/%s/%s/%v", e.name, b.name, chunked), true)
				c.Count("leg:http/" + map[bool]string{true: "decodable", false: "undecodable"}[decodable])
				if panicked != "" {
					c.Fail("C08/http/handler-panics", "ServeHTTP panicked: "+panicked, cj)
					continue
				}
				out := rec.Body.Bytes()
				if n := c08OneDocument(e.name, out); n != 1 {
					c.Fail("C08/http/not-exactly-one-response", fmt.Sprintf("the body of the answer to a %s request (%s) holds %d %s documents (%d bytes), expected exactly one response message", b.name, e.name, n, e.name, len(out)), cj)
					continue
				}
				var resp kmip.ResponseMessage
				if err := e.unmarshal(out, &resp); err != nil {
					c.Fail("C08/http/response-not-decodable", "the answer is not a response message: "+err.Error(), cj)
					continue
				}
				rows = append(rows, c08HTTPRow(true, e.name, fmt.Sprint(len(doc)), len(doc), decodable, rec.Code, 1, c08HTTPWho(&resp, cnt.calls), cnt.calls))
				c.IndexCase("mism_http", len(rows)-1, cj)
				if decodable {
					if cnt.calls != 1 || len(resp.BatchItem) != len(b.tree.Kids)-1 {
						c.Fail("C08/http/well-formed-request-not-answered-once", fmt.Sprintf("request handler called %d times, response has %d items for %d request items", cnt.calls, len(resp.BatchItem), len(b.tree.Kids)-1), cj)
					}
					continue
				}
				if cnt.calls != 0 {
					c.Fail("C08/http/undecodable-request-reaches-handler", fmt.Sprintf("the request handler was called %d times for a request that could not be decoded", cnt.calls), cj)
				}
				if len(resp.BatchItem) != 1 || resp.BatchItem[0].ResultStatus != kmip.ResultStatusOperationFailed || resp.BatchItem[0].ResultReason != kmip.ResultReasonInvalidMessage {
					got := "no item"
					if len(resp.BatchItem) > 0 {
						got = fmt.Sprintf("%d item(s), first: status %d reason %d %q", len(resp.BatchItem), resp.BatchItem[0].ResultStatus, resp.BatchItem[0].ResultReason, resp.BatchItem[0].ResultMessage)
					}
					c.Fail("C08/http/undecodable-not-answered-invalid-message", "a correctly framed but undecodable request over HTTP is answered with "+got+", expected a single failed item with reason Invalid Message", cj)
				}
			}
		}
	}

	// transport-level variants on one decodable and one undecodable body per encoding: what does not reach the
	// decoding step gets an HTTP error status, no KMIP response and no handler call
	type variant struct {
		name, method, ctype, clen string
		cut, extra                int
	}
	for _, e := range encs {
		for _, bi := range []int{0, 4} {
			v := tv.ToValue(bodies[bi].tree)
			doc := e.marshal(&v)
			var probe kmip.RequestMessage
			decodable := e.unmarshal(doc, &probe) == nil
			vars := []variant{
				{"get", http.MethodGet, e.ctype, fmt.Sprint(len(doc)), 0, 0},
				{"put", http.MethodPut, e.ctype, fmt.Sprint(len(doc)), 0, 0},
				{"content-type-text-plain", http.MethodPost, "text/plain", fmt.Sprint(len(doc)), 0, 0},
				{"content-type-missing", http.MethodPost, "", fmt.Sprint(len(doc)), 0, 0},
				{"content-type-with-charset", http.MethodPost, e.ctype + "; charset=utf-8", fmt.Sprint(len(doc)), 0, 0},
				{"content-length-not-a-number", http.MethodPost, e.ctype, "abc", 0, 0},
				{"content-length-missing", http.MethodPost, e.ctype, "", 0, 0},
				{"content-length-zero", http.MethodPost, e.ctype, "0", 0, 0},
				{"content-length-negative", http.MethodPost, e.ctype, "-5", 0, 0},
				{"content-length-over-the-limit", http.MethodPost, e.ctype, "1048577", 0, 0},
				{"content-length-at-the-limit-body-short", http.MethodPost, e.ctype, "1048576", 0, 0},
				{"body-shorter-than-content-length", http.MethodPost, e.ctype, fmt.Sprint(len(doc)), 5, 0},
				{"body-longer-than-content-length", http.MethodPost, e.ctype, fmt.Sprint(len(doc)), 0, 9},
			}
			for _, vr := range vars {
				body := append(append([]byte{}, doc[:len(doc)-vr.cut]...), bytes.Repeat([]byte{' '}, vr.extra)...)
				cj := map[string]any{"leg": "http", "encoding": e.name, "body": bodies[bi].name, "variant": vr.name}
				cnt := &c08CountingHandler{inner: exec}
				rec := httptest.NewRecorder()
				rq := httptest.NewRequest(vr.method, "/kmip", bytes.NewReader(body))
				rq.Header.Del("Content-Type")
				if vr.ctype != "" {
					rq.Header.Set("Content-Type", vr.ctype)
				}
				if vr.clen != "" {
					rq.Header.Set("Content-Length", vr.clen)
				}
				panicked := ""
				func() {
					defer func() {
						if p := recover(); p != nil {
							panicked = fmt.Sprint(p)
						}
					}()
					kmipserver.NewHTTPHandler(cnt).ServeHTTP(rec, rq)
				}()
				c.Eval(fmt.Sprintf("http/%s/%s/%s", e.name, bodies[bi].name, vr.name), true)
				c.Count("leg:http/transport-variant")
				if panicked != "" {
					c.Fail("C08/http/handler-panics", "ServeHTTP panicked: "+panicked, cj)
					continue
				}
				out := rec.Body.Bytes()
				nm, kind := 0, 0
				var resp kmip.ResponseMessage
				if e.unmarshal(out, &resp) == nil {
					nm, kind = c08OneDocument(e.name, out), c08HTTPWho(&resp, cnt.calls)
				}
				if rec.Code != http.StatusOK && (nm != 0 || cnt.calls != 0) {
					c.Fail("C08/http/refused-request-answered-or-executed", fmt.Sprintf("HTTP status %d, yet the body holds %d KMIP response(s) and the request handler ran %d time(s)", rec.Code, nm, cnt.calls), cj)
				}
				if nm > 1 {
					c.Fail("C08/http/not-exactly-one-response", fmt.Sprintf("the body of the answer holds %d response messages", nm), cj)
				}
				rows = append(rows, c08HTTPRow(vr.method == http.MethodPost, vr.ctype, vr.clen, len(body), decodable, rec.Code, nm, kind, cnt.calls))
				c.IndexCase("mism_http", len(rows)-1, cj)
			}
		}
	}
	return rows
}

// c08HTTPWho: who produced the response, as the model sees it: 1 the request handler (it was invoked), 2 the
// HTTP layer's invalid-message reply (handler not invoked, single invalid-message item), 3 neither.
func c08HTTPWho(resp *kmip.ResponseMessage, calls int) int {
	if calls > 0 {
		return 1
	}
	if c08HTTPKind(resp) == 2 {
		return 2
	}
	return 3
}

// c08HTTPKind: 2 = the single invalid-message error item, 1 = any other response
func c08HTTPKind(resp *kmip.ResponseMessage) int {
	if len(resp.BatchItem) == 1 && resp.BatchItem[0].ResultStatus == kmip.ResultStatusOperationFailed && resp.BatchItem[0].ResultReason == kmip.ResultReasonInvalidMessage {
		return 2
	}
	return 1
}

// c08HTTPRow prints one correspondence row for HttpHandler.hrow_ok.
func c08HTTPRow(post bool, ctype, clen string, avail int, decodable bool, status, nm, kind, calls int) string {
	ct := "CtOther"
	switch ctype {
	case "text/xml", "xml":
		ct = "CtXml"
	case "application/json", "json":
		ct = "CtJson"
	case "application/octet-stream", "ttlv":
		ct = "CtTtlv"
	}
	cl := "None"
	if n, err := strconv.Atoi(clen); err == nil {
		cl = fmt.Sprintf("(Some (%d))", n)
	}
	return fmt.Sprintf("(mkHreq %v %s %s %d %v, (%d, %d, %d, %d))", post, ct, cl, avail, decodable, status, nm, kind, calls)
}
