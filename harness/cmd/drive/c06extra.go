package main

// C06, two legs beyond single-threaded decoding of one registry state (oracle only):
//  (1) attributes the library does not know are preserved as THEIR OWN opaque value also when
//      several goroutines decode such attributes at the same time;
//  (2) the payload type a batch item is decoded into is the one registered for the operation
//      NOW: unregistered -> opaque UnknownPayload, registered -> those types, registered again
//      with other types -> the new types (request and response, three encodings).

import (
	"bytes"
	"fmt"
	"reflect"
	"sync"

	"github.com/ovh/kmip-go"
	"github.com/ovh/kmip-go/payloads"
	"github.com/ovh/kmip-go/ttlv"

	"verifharness/internal/h"
)

// field names that are registered tag names, so that the fields have tags
type c06V1Req struct {
	UniqueIdentifier string
}
type c06V1Resp struct {
	UniqueIdentifier string
}
type c06V2Req struct {
	UniqueIdentifier string
	MaximumItems     int32 `ttlv:",omitempty"`
}
type c06V2Resp struct {
	UniqueIdentifier string
	MaximumItems     int32 `ttlv:",omitempty"`
}

var c06VendorOp = kmip.Operation(0x80000C06)

func (*c06V1Req) Operation() kmip.Operation  { return c06VendorOp }
func (*c06V1Resp) Operation() kmip.Operation { return c06VendorOp }
func (*c06V2Req) Operation() kmip.Operation  { return c06VendorOp }
func (*c06V2Resp) Operation() kmip.Operation { return c06VendorOp }

func c06Concurrent(c *h.Ctx) {
	vals := []any{"text", int32(7), int64(1) << 40, true, []byte{1, 2, 3}, uint32(0x80000001), ttlv.Struct{ttlv.Value{Tag: kmip.TagNameValue, Value: "n"}}, "another text"}
	names := []kmip.AttributeName{"x-one", "y-two", "x-three", "Unknown Vendor Thing", "x-five", "y-six", "x-seven", "Some Other Name"}
	var msgs [][]byte
	var kv []any
	var kn []kmip.AttributeName
	for i := range vals {
		m := kmip.RequestMessage{Header: kmip.RequestHeader{ProtocolVersion: kmip.V1_4, BatchCount: 1},
			BatchItem: []kmip.RequestBatchItem{{Operation: kmip.OperationAddAttribute, RequestPayload: &payloads.AddAttributeRequestPayload{
				UniqueIdentifier: "id", Attribute: kmip.Attribute{AttributeName: names[i], AttributeValue: ttlv.Value{Tag: kmip.TagAttributeValue, Value: vals[i]}}}}}}
		b, p := safeMarshal(&m)
		if p != "" {
			c.Count("leg:concurrent-custom-attributes:skipped-value")
			continue
		}
		msgs, kv, kn = append(msgs, b), append(kv, vals[i]), append(kn, names[i])
	}
	vals, names = kv, kn
	var wg sync.WaitGroup
	bad := make([]string, len(msgs))
	for g := range msgs {
		wg.Add(1)
		go func(g int) {
			defer wg.Done()
			for it := 0; it < 400 && bad[g] == ""; it++ {
				var out kmip.RequestMessage
				if err, p := safeUnmarshal(msgs[g], &out); err != nil || p != "" {
					bad[g] = fmt.Sprintf("decode failed: %v %s", err, p)
					return
				}
				pl, _ := out.BatchItem[0].RequestPayload.(*payloads.AddAttributeRequestPayload)
				v, ok := pl.Attribute.AttributeValue.(ttlv.Value)
				if !ok || reflect.TypeOf(v.Value) != reflect.TypeOf(vals[g]) {
					bad[g] = fmt.Sprintf("attribute %q of goroutine %d (a %T) decoded as %T holding %T", names[g], g, vals[g], pl.Attribute.AttributeValue, v.Value)
					return
				}
				if b2, _ := safeMarshal(&out); !bytes.Equal(b2, msgs[g]) {
					bad[g] = fmt.Sprintf("attribute %q of goroutine %d does not re-encode identically", names[g], g)
					return
				}
			}
		}(g)
	}
	wg.Wait()
	c.Eval("concurrent-custom-attributes", true)
	c.Count("leg:concurrent-custom-attributes")
	for g, s := range bad {
		if s != "" {
			c.Fail("C06/custom-attribute-not-preserved/concurrent-decoding", s, map[string]any{"leg": "concurrent-custom-attributes", "goroutine": g})
			break
		}
	}
}

func c06Reregister(c *h.Ctx) {
	// an extension code and a code of the standard range that has no payload registered (a named but
	// unimplemented operation): both go through the same registry
	for _, op := range []kmip.Operation{0x80000C06, kmip.OperationMAC} {
		c06VendorOp = op
		c06ReregisterOp(c)
	}
}

func c06ReregisterOp(c *h.Ctx) {
	type enc struct {
		name string
		mar  func(any) []byte
		unm  func([]byte, any) error
	}
	encs := []enc{{"ttlv", func(v any) []byte { return ttlv.MarshalTTLV(v) }, ttlv.UnmarshalTTLV},
		{"xml", func(v any) []byte { return ttlv.MarshalXML(v) }, ttlv.UnmarshalXML}, {"json", func(v any) []byte { return ttlv.MarshalJSON(v) }, ttlv.UnmarshalJSON}}
	step := func(stage string, wantReq, wantResp reflect.Type) {
		for _, e := range encs {
			// the message is written with a generic payload so that writing does not depend on the registry
			pl := ttlv.Struct{ttlv.Value{Tag: 0x540001, Value: "a"}, ttlv.Value{Tag: 0x540002, Value: int32(5)}}
			_ = pl
			req := kmip.RequestMessage{Header: kmip.RequestHeader{ProtocolVersion: kmip.V1_4, BatchCount: 1},
				BatchItem: []kmip.RequestBatchItem{{Operation: c06VendorOp, RequestPayload: &c06V2Req{UniqueIdentifier: "a", MaximumItems: 5}}}}
			resp := kmip.ResponseMessage{Header: kmip.ResponseHeader{ProtocolVersion: kmip.V1_4, BatchCount: 1},
				BatchItem: []kmip.ResponseBatchItem{{Operation: c06VendorOp, ResultStatus: kmip.ResultStatusSuccess, ResponsePayload: &c06V2Resp{UniqueIdentifier: "a", MaximumItems: 5}}}}
			var b1, b2 []byte
			func() {
				defer func() { _ = recover() }()
				b1, b2 = append([]byte{}, e.mar(&req)...), append([]byte{}, e.mar(&resp)...)
			}()
			if b1 == nil || b2 == nil {
				continue
			}
			var oreq kmip.RequestMessage
			var oresp kmip.ResponseMessage
			cj := map[string]any{"leg": "re-registration", "stage": stage, "encoding": e.name}
			c.Eval("rereg/"+stage+"/"+e.name, true)
			if err := e.unm(b1, &oreq); err == nil && len(oreq.BatchItem) == 1 {
				if got := reflect.TypeOf(oreq.BatchItem[0].RequestPayload); got != wantReq {
					c.Fail("C06/payload-type-not-the-registered-one/request", fmt.Sprintf("%s, %s: request payload of operation 0x%X decoded as %v, registered now: %v", stage, e.name, uint32(c06VendorOp), got, wantReq), cj)
				}
			}
			if err := e.unm(b2, &oresp); err == nil && len(oresp.BatchItem) == 1 {
				if got := reflect.TypeOf(oresp.BatchItem[0].ResponsePayload); got != wantResp {
					c.Fail("C06/payload-type-not-the-registered-one/response", fmt.Sprintf("%s, %s: response payload of operation 0x%X decoded as %v, registered now: %v", stage, e.name, uint32(c06VendorOp), got, wantResp), cj)
				}
			}
		}
	}
	unk := reflect.TypeOf(&kmip.UnknownPayload{})
	step("unregistered", unk, unk)
	kmip.RegisterOperationPayload[c06V1Req, c06V1Resp](c06VendorOp)
	step("registered-v1", reflect.TypeOf(&c06V1Req{}), reflect.TypeOf(&c06V1Resp{}))
	kmip.RegisterOperationPayload[c06V2Req, c06V2Resp](c06VendorOp)
	step("registered-again-v2", reflect.TypeOf(&c06V2Req{}), reflect.TypeOf(&c06V2Resp{}))
	c.Count("leg:re-registration")
}
