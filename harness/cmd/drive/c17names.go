package main

// C17, application types named like a KMIP tag (oracle only): an application enumeration / bit-mask type
// whose Go type name happens to be the name of ANOTHER registered tag ("State", "StorageStatusMask"),
// registered under its own extension tag.  Its scope is the tag it was registered under: the XML, JSON and
// text forms write the names registered for it and read them back as the same numbers.  Registered after
// the snapshot of the test registry (these entries are not part of the model's registry).

import (
	"fmt"
	"sync"

	"github.com/ovh/kmip-go/ttlv"
)

// The type names are the point of the leg.
type State uint32
type StorageStatusMask int32

const (
	c17tAppState = 0x540107
	c17tAppMask  = 0x540108
)

var c17namesOnce sync.Once

func (d *c17run) appTypeNameCases() {
	c := d.c
	names := map[State]string{1: "Cold", 2: "Warm", 3: "Hot", 0x80000001: "Melted"}
	flags := []string{"Tier1", "Tier2", "Tier3"}
	c17namesOnce.Do(func() {
		ttlv.RegisterEnum(c17tAppState, names)
		ttlv.RegisterBitmask[StorageStatusMask](c17tAppMask, flags...)
	})
	type doc struct {
		form string
		enc  func(any) []byte
		dec  func([]byte, any) error
	}
	docs := []doc{{"xml", ttlv.MarshalXML, ttlv.UnmarshalXML}, {"json", ttlv.MarshalJSON, ttlv.UnmarshalJSON}, {"ttlv", ttlv.MarshalTTLV, ttlv.UnmarshalTTLV}}
	for v, n := range names {
		cas := map[string]any{"kind": "test-registry", "sub": "app-type-name", "value": int64(v)}
		c.Eval(fmt.Sprintf("app-type-name/enum/%d", uint32(v)), true)
		c.Count("test-registry:app-type-named-like-a-tag")
		if got := ttlv.EnumStr(v); got != n {
			d.fail("C17/app-type-named-like-a-tag/enum-name", fmt.Sprintf("application type State registered under 0x%X with %d -> %q: EnumStr gives %q", c17tAppState, uint32(v), n, got), cas)
		}
		for _, dc := range docs {
			func() {
				defer func() {
					if p := recover(); p != nil {
						d.fail("C17/app-type-named-like-a-tag/panic", fmt.Sprintf("%s: %v", dc.form, p), cas)
					}
				}()
				x := v
				out := dc.enc(&x)
				wx := ""
				if dc.form != "ttlv" {
					w := c17write(map[string]c17form{"xml": fXML, "json": fJSON}[dc.form], "Enumeration", func(e *ttlv.Encoder) { e.Any(&x) })
					wx = w.Val
					if w.Panic == "" && w.Val != n {
						d.fail("C17/app-type-named-like-a-tag/written-name/"+dc.form, fmt.Sprintf("application type State (registered under 0x%X, %d -> %q) is written %q in %s", c17tAppState, uint32(v), n, w.Val, dc.form), cas)
						return
					}
				}
				var back State
				if err := dc.dec(out, &back); err != nil || back != v {
					d.fail("C17/app-type-named-like-a-tag/read-back/"+dc.form, fmt.Sprintf("application type State value %d (%q, written %q) in %s is read back as %d (%v)", uint32(v), n, wx, dc.form, uint32(back), err), cas)
				}
			}()
		}
	}
	for m := int32(1); m < 8; m++ {
		cas := map[string]any{"kind": "test-registry", "sub": "app-type-name", "mask": int64(m)}
		c.Eval(fmt.Sprintf("app-type-name/mask/%d", m), true)
		for _, dc := range docs {
			func() {
				defer func() {
					if p := recover(); p != nil {
						d.fail("C17/app-type-named-like-a-tag/panic", fmt.Sprintf("%s: %v", dc.form, p), cas)
					}
				}()
				x := StorageStatusMask(m)
				out := dc.enc(&x)
				var back StorageStatusMask
				if err := dc.dec(out, &back); err != nil || back != x {
					d.fail("C17/app-type-named-like-a-tag/mask-read-back/"+dc.form, fmt.Sprintf("application mask type StorageStatusMask (registered under 0x%X with %v) value %d in %s (%s) is read back as %d (%v)", c17tAppMask, flags, m, dc.form, out, int32(back), err), cas)
				}
			}()
		}
	}
}
