package main

// C01: binary TTLV round trip preserves every KMIP message.
//
// Implementation side: ttlv.MarshalTTLV / ttlv.UnmarshalTTLV on kmip.RequestMessage and
// kmip.ResponseMessage values produced by the schema-driven generator (harness/internal/gv):
// every field of every reachable struct, every operation both directions, every object type,
// key format, attribute, credential, at every protocol version.
// Oracle (property text on the implementation): the bytes are well-formed TTLV for the
// independent parser; decoding yields a message equal in content (compared as printed value
// terms); re-encoding the decoded message yields the identical bytes.
// Model rows: (root type, value, bytes, decoded value) against KmipCodec.kmip_marshal /
// kmip_unmarshal (SchemaSem interpreter over the schema regenerated from /repo).

import (
	"bytes"
	"encoding/hex"
	"fmt"
	"reflect"
	"strings"

	"github.com/ovh/kmip-go"
	"github.com/ovh/kmip-go/ttlv"

	"verifharness/internal/gv"
	"verifharness/internal/h"
	"verifharness/internal/tv"
)

func init() { h.Register("C01", driveC01) }

func msgRoot(msg any) string {
	switch msg.(type) {
	case kmip.RequestMessage, *kmip.RequestMessage:
		return "kmip.RequestMessage"
	}
	return "kmip.ResponseMessage"
}

func msgPtr(msg any) any {
	switch m := msg.(type) {
	case kmip.RequestMessage:
		return &m
	case kmip.ResponseMessage:
		return &m
	}
	return msg
}

func newMsgLike(msg any) any {
	if msgRoot(msg) == "kmip.RequestMessage" {
		return &kmip.RequestMessage{}
	}
	return &kmip.ResponseMessage{}
}

func safeMarshal(p any) (b []byte, panicked string) {
	defer func() {
		if r := recover(); r != nil {
			panicked = fmt.Sprint(r)
		}
	}()
	return append([]byte{}, ttlv.MarshalTTLV(p)...), ""
}

func safeUnmarshal(b []byte, p any) (err error, panicked string) {
	defer func() {
		if r := recover(); r != nil {
			panicked = fmt.Sprint(r)
		}
	}()
	return ttlv.UnmarshalTTLV(b, p), ""
}

// c01Cases returns the messages of this run: (plan index, message).
func c01Cases(c *h.Ctx) (idx []int, msgs []any) {
	plan := gv.CoveragePlan()
	if c.Replay != nil {
		cs, _ := c.Replay["case"].(map[string]any)
		i := int(cs["plan_index"].(float64))
		seed := uint64(cs["gen_seed"].(float64))
		return []int{i}, []any{gv.CoverageCase(h.NewRand(seed), i)}
	}
	stride := c.Pick(5, 1)
	off := int(c.Seed) % stride
	for i := range plan {
		// the quick tier thins out only the big regular families (every operation x direction x
		// version x fill, random messages, value sweeps); the entries about one particular shape
		// (objects, key formats, key value modes, attributes, credentials, batch shapes) all run
		n := plan[i].Note
		thin := n == "A" || strings.HasPrefix(n, "F/") || strings.HasPrefix(n, "G/") || strings.HasPrefix(n, "H/") || strings.HasPrefix(n, "C/attributes")
		if !thin || i%stride == off || c.Seed == 0 {
			idx = append(idx, i)
			msgs = append(msgs, gv.CoverageCase(h.NewRand(c.Seed), i))
		}
	}
	return
}

func driveC01(c *h.Ctx) error {
	c.Rule("a case is a well-formed KMIP request or response message from the schema-driven coverage plan (every struct field, operation x direction, object type, key format, attribute name, credential type, batch shape, version 1.0-1.4; scalars from boundary pools); the quick tier runs every 5th entry (rotating with the seed) of the big regular families (operation x direction x version x fill, attribute sets, emptied structures, random messages, value sweeps) and ALL entries about one particular shape (objects, key formats, key value modes, generic trees, credentials, batch shapes), the thorough tier all of them; non-trivial = distinct message")
	idx, msgs := c01Cases(c)
	var rows, rowsSame []string
	for k, msg := range msgs {
		i := idx[k]
		root := msgRoot(msg)
		caseJSON := map[string]any{"plan_index": i, "gen_seed": c.Seed, "message": gv.Describe(msg)}
		if c.Replay != nil {
			cs, _ := c.Replay["case"].(map[string]any)
			caseJSON["gen_seed"] = cs["gen_seed"]
		}
		vin, err := gv.CoqValueOf(msg)
		if err != nil {
			return fmt.Errorf("case %d: cannot print value: %v", i, err)
		}
		c.Eval(vin, true)
		c.Count("root:" + root)
		c.Count("plan:" + gv.CoveragePlan()[i].Note)
		if k%97 == 0 {
			c.Sample(caseJSON)
		}
		b, p := safeMarshal(msgPtr(msg))
		if p != "" {
			c.Fail("C01/encoder-panics", "MarshalTTLV panicked: "+p, caseJSON)
			continue
		}
		caseJSON["encoded_len"] = len(b)
		if ns, err := tv.SpecParse(b); err != nil {
			c.Fail("C01/not-well-formed", "independent parser rejects the encoding: "+err.Error(), caseJSON)
		} else if len(ns) != 1 || ns[0].Kind != tv.KStruct {
			c.Fail("C01/not-well-formed", fmt.Sprintf("the encoding of one message parses as %d top-level items", len(ns)), caseJSON)
		}
		out := newMsgLike(msg)
		derr, p := safeUnmarshal(b, out)
		obs := ""
		switch {
		case p != "":
			c.Fail("C01/decoder-panics", "UnmarshalTTLV of the library's own output panicked: "+p, caseJSON)
			obs = "OPanic"
		case derr != nil:
			c.Fail("C01/roundtrip/own-output-rejected", "UnmarshalTTLV rejects the library's own output: "+derr.Error(), caseJSON)
			obs = "OErr"
		default:
			vout, err := gv.CoqValue(reflect.ValueOf(out).Elem())
			if err != nil {
				c.Fail("C01/roundtrip/decoded-value-unprintable", err.Error(), caseJSON)
				continue
			}
			if gv.NormalizeTerm(vout) != gv.NormalizeTerm(vin) {
				d := gv.Diff(reflect.ValueOf(msgPtr(msg)).Elem(), reflect.ValueOf(out).Elem())
				caseJSON["first_difference"] = d
				c.Fail("C01/roundtrip/content-differs", "decoded message differs from the original at "+d, caseJSON)
				obs = "OOk (" + vout + ")"
			} else if vout != vin {
				obs = "OOk (" + vout + ")" // nil vs empty byte strings only: equal in content
			}
			b2, p2 := safeMarshal(out)
			if p2 != "" || !bytes.Equal(b, b2) {
				c.Fail("C01/roundtrip/reencoding-differs", "re-encoding the decoded message does not give the identical bytes "+p2, caseJSON)
			}
		}
		caseJSON["encoded_hex_prefix"] = hex.EncodeToString(b[:min(len(b), 64)])
		if obs == "" {
			rowsSame = append(rowsSame, fmt.Sprintf("(%q, %s, %s)", root, vin, h.HexBytes(b)))
			c.IndexCase("mism_same", len(rowsSame)-1, caseJSON)
		} else {
			rows = append(rows, fmt.Sprintf("(%q, %s, %s, %s)", root, vin, h.HexBytes(b), obs))
			c.IndexCase("mism_msg", len(rows)-1, caseJSON)
		}
	}
	var sb strings.Builder
	sb.WriteString("From Coq Require Import ZArith List Bool String.\nFrom KV Require Import Base Wire Cursor Schema Cases CodecRows KmipCodec.\nImport ListNotations.\nOpen Scope Z_scope.\nOpen Scope string_scope.\n")
	d1, e1 := h.Chunk("srows", "string * value * list Z", rowsSame, 50)
	d2, e2 := h.Chunk("mrows", "string * value * list Z * obs value", rows, 50)
	sb.WriteString(d1)
	sb.WriteString(d2)
	fmt.Fprintf(&sb, "Definition mism_same := Eval vm_compute in bad_idx row_msg_same %s 0.\nPrint mism_same.\n", e1)
	fmt.Fprintf(&sb, "Definition mism_msg := Eval vm_compute in bad_idx row_msg %s 0.\nPrint mism_msg.\n", e2)
	// the hypotheses of the round-trip theorem are met by the generated messages (non-vacuity at scale)
	fmt.Fprintf(&sb, "Definition mism_conf := Eval vm_compute in bad_idx row_conf %s 0.\nPrint mism_conf.\n", e1)
	return c.WriteCases("cases_C01.v", sb.String(), len(rows)+2*len(rowsSame))
}
