package main

// C04, durations with a sub-second part (oracle only): an Interval is written from a time.Duration; the
// three encodings carry whole seconds.  Whatever rule turns the duration into seconds, it is the same in
// the three writers: the value read back from the XML and the JSON document equals the value read back
// from the binary encoding (durations just below a whole second, small and beyond 2^24 s, where a
// floating-point conversion rounds up).

import (
	"fmt"
	"time"

	"github.com/ovh/kmip-go/ttlv"

	"verifharness/internal/h"
)

func c04IntervalLeg(c *h.Ctx) {
	secs := []int64{0, 1, 59, 86399, 1<<22 + 3, 1 << 24, 1<<24 + 1, 16777217 * 3, 1 << 30, 1<<31 - 1, 1 << 31, 1<<32 - 2}
	fracs := []int64{999999999, 999999998, 999999000, 500000000, 1}
	for _, s := range secs {
		for _, f := range fracs {
			d := time.Duration(s)*time.Second + time.Duration(f)
			cj := map[string]any{"part": "interval", "seconds": s, "nanoseconds": f}
			read := func(format string) (time.Duration, string) {
				var out time.Duration
				msg := ""
				func() {
					defer func() {
						if p := recover(); p != nil {
							msg = fmt.Sprint(p)
						}
					}()
					var e ttlv.Encoder
					switch format {
					case "xml":
						e = ttlv.NewXMLEncoder()
					case "json":
						e = ttlv.NewJSONEncoder()
					default:
						e = ttlv.NewTTLVEncoder()
					}
					e.Interval(0x420049, d)
					var dec ttlv.Decoder
					var err error
					switch format {
					case "xml":
						dec, err = ttlv.NewXMLDecoder(e.Bytes())
					case "json":
						dec, err = ttlv.NewJSONDecoder(e.Bytes())
					default:
						dec, err = ttlv.NewTTLVDecoder(e.Bytes())
					}
					if err != nil {
						msg = err.Error()
						return
					}
					out, err = dec.Interval(0x420049)
					if err != nil {
						msg = err.Error()
					}
				}()
				return out, msg
			}
			c.Eval(fmt.Sprintf("interval/%d/%d", s, f), true)
			c.Count("interval-with-subsecond-part")
			b, bm := read("ttlv")
			if bm != "" {
				continue
			}
			for _, format := range []string{"xml", "json"} {
				t, tm := read(format)
				if tm != "" || t != b {
					c.Fail("C04/"+format+"/interval-differs-from-binary", fmt.Sprintf("the duration %ds+%dns is carried as %v by the binary encoding and as %v %s by %s", s, f, b, t, tm, format), cj)
				}
			}
		}
	}
}
