package main

// C04, durations with a sub-second part (oracle only): an Interval is written from a time.Duration; the
// three encodings carry whole seconds.  Whatever rule turns the duration into seconds, it is the same in
// the three writers: the value read back from the XML and the JSON document equals the value read back
// from the binary encoding (durations just below a whole second, small and beyond 2^24 s, where a
// floating-point conversion rounds up).

import (
	"bytes"
	"fmt"
	"time"

	"github.com/ovh/kmip-go/ttlv"

	"verifharness/internal/h"
	"verifharness/internal/tv"
)

func c04IntervalLeg(c *h.Ctx) {
	secs := []int64{0, 1, 59, 86399, 1<<22 + 3, 1 << 24, 1<<24 + 1, 16777217 * 3, 1 << 30, 1<<31 - 1, 1 << 31, 1<<32 - 2}
	fracs := []int64{999999999, 999999998, 999999000, 500000000, 1}
	for _, s := range secs {
		for _, f := range fracs {
			d := time.Duration(s)*time.Second + time.Duration(f)
			cj := map[string]any{"part": "interval", "seconds": s, "nanoseconds": f}
			read := func(format string) (time.Duration, string) {
				var out time.Duration
				msg := ""
				func() {
					defer func() {
						if p := recover(); p != nil {
							msg = fmt.Sprint(p)
						}
					}()
					var e ttlv.Encoder
					switch format {
					case "xml":
						e = ttlv.NewXMLEncoder()
					case "json":
						e = ttlv.NewJSONEncoder()
					default:
						e = ttlv.NewTTLVEncoder()
					}
					e.Interval(0x420049, d)
					var dec ttlv.Decoder
					var err error
					switch format {
					case "xml":
						dec, err = ttlv.NewXMLDecoder(e.Bytes())
					case "json":
						dec, err = ttlv.NewJSONDecoder(e.Bytes())
					default:
						dec, err = ttlv.NewTTLVDecoder(e.Bytes())
					}
					if err != nil {
						msg = err.Error()
						return
					}
					out, err = dec.Interval(0x420049)
					if err != nil {
						msg = err.Error()
					}
				}()
				return out, msg
			}
			c.Eval(fmt.Sprintf("interval/%d/%d", s, f), true)
			c.Count("interval-with-subsecond-part")
			b, bm := read("ttlv")
			if bm != "" {
				continue
			}
			for _, format := range []string{"xml", "json"} {
				t, tm := read(format)
				if tm != "" || t != b {
					c.Fail("C04/"+format+"/interval-differs-from-binary", fmt.Sprintf("the duration %ds+%dns is carried as %v by the binary encoding and as %v %s by %s", s, f, b, t, tm, format), cj)
				}
			}
		}
	}
}

// c04RetainedLeg (oracle only): a document the library has handed out stays what it was while other values
// are encoded, in this goroutine and in another one ("the XML and JSON encodings are well-formed documents"
// is judged when the document is used, not only in the instant it is returned).
func c04RetainedLeg(c *h.Ctx) {
	r := c.Rng.Fork(424242)
	marshalers := []struct {
		name string
		f    func(any) []byte
	}{{"xml", ttlv.MarshalXML}, {"json", ttlv.MarshalJSON}}
	for i := 0; i < 24; i++ {
		v1 := tv.ToValue(tv.Gen(r.Fork(uint64(i)), 1+i%3))
		v2 := tv.ToValue(tv.Gen(r.Fork(uint64(1000+i)), 1+(i+1)%3))
		for _, m := range marshalers {
			cj := map[string]any{"part": "retained", "encoding": m.name, "index": i}
			func() {
				defer func() { _ = recover() }() // not representable in that encoding: not this leg's subject
				a := m.f(&v1)
				keep := bytes.Clone(a)
				done := make(chan struct{})
				go func() {
					defer close(done)
					defer func() { _ = recover() }()
					for k := 0; k < 3; k++ {
						_ = m.f(&v2)
					}
				}()
				for k := 0; k < 3; k++ {
					_ = m.f(&v2)
				}
				<-done
				c.Eval(fmt.Sprintf("retained/%s/%d", m.name, i), true)
				c.Count("retained-document:" + m.name)
				if !bytes.Equal(a, keep) {
					c.Fail("C04/"+m.name+"/document-overwritten-by-later-encoding", fmt.Sprintf("the %s document returned for one value changed while another value was encoded: %d bytes, first difference at %d", m.name, len(a), c04FirstDiff(a, keep)), cj)
				}
			}()
		}
	}
}
