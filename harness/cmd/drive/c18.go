package main

// C18: re-encoding an accepted input reaches a fixed point.
//
// Implementation side: ttlv.Unmarshal{TTLV,XML,JSON} then Marshal{...} on inputs NOT produced
// by canonical encoding: non-minimal / alternative but accepted forms (over-long big integers,
// non-zero padding, unknown or duplicated or reordered elements, explicit zero-valued optional
// elements, later-version elements, alternative lexical forms in XML/JSON) of generic trees and
// of KMIP messages, and the OASIS vectors.
// Oracle (property text on the implementation): whenever a decoder ACCEPTS x, encoding the
// decoded value in the same encoding succeeds (no panic), decodes again, and a second
// re-encoding is byte-identical to the first; the same through each other encoding whenever
// the decoded strings are representable there and dates lie in years 1..9999.
// Model rows (binary): the outcome and the re-encoding of every input against
// KmipCodec.kmip_unmarshal/kmip_marshal and Cursor.unmarshal_value/wire_enc.

import (
	"bytes"
	"encoding/hex"
	"fmt"
	"reflect"
	"regexp"
	"strings"
	"time"
	"unicode/utf8"

	"github.com/ovh/kmip-go"
	"github.com/ovh/kmip-go/ttlv"

	"verifharness/internal/gv"
	"verifharness/internal/h"
	"verifharness/internal/tv"
)

func init() { h.Register("C18", driveC18) }

type c18Enc struct {
	name      string
	marshal   func(any) []byte
	unmarshal func([]byte, any) error
}

var c18Encs = []c18Enc{
	{"ttlv", ttlv.MarshalTTLV, ttlv.UnmarshalTTLV},
	{"xml", ttlv.MarshalXML, ttlv.UnmarshalXML},
	{"json", ttlv.MarshalJSON, ttlv.UnmarshalJSON},
}

func c18Try(f func()) (panicked string) {
	defer func() {
		if r := recover(); r != nil {
			panicked = fmt.Sprint(r)
		}
	}()
	f()
	return ""
}

// c18Representable: text strings are valid UTF-8 made of XML 1.0 characters, dates lie in years 1..9999.
func c18Representable(nodes []tv.Node) bool {
	for _, n := range nodes {
		switch n.Kind {
		case tv.KStruct:
			if !c18Representable(n.Kids) {
				return false
			}
		case tv.KText:
			if !utf8.Valid(n.S) {
				return false
			}
			for _, r := range string(n.S) {
				if !(r == 0x9 || r == 0xA || r == 0xD || (r >= 0x20 && r <= 0xD7FF) || (r >= 0xE000 && r <= 0xFFFD) || (r >= 0x10000 && r <= 0x10FFFF)) {
					return false
				}
			}
		case tv.KDate:
			y := time.Unix(n.I, 0).UTC().Year()
			if n.I < -62135596800 || n.I > 253402300799 || y < 1 || y > 9999 {
				return false
			}
		}
	}
	return true
}

// c18Chain runs the property's chain on input x in encoding e; returns (accepted, first re-encoding).
func c18Chain(c *h.Ctx, e c18Enc, x []byte, mk func() any, kind string, cj map[string]any) (accepted bool, e1 []byte) {
	v := mk()
	var err error
	if p := c18Try(func() { err = e.unmarshal(x, v) }); p != "" {
		// a decoder panic is C02's subject; here the input is simply not "accepted"
		c.Count("outcome:" + e.name + ":decoder-panic")
		return false, nil
	}
	if err != nil {
		c.Count("outcome:" + e.name + ":rejected")
		return false, nil
	}
	c.Count("outcome:" + e.name + ":accepted")
	sigBase := "C18/" + e.name + "/" + kind
	if p := c18Try(func() { e1 = append([]byte{}, e.marshal(v)...) }); p != "" {
		c.Fail(sigBase+"/reencode-panics", "encoding the decoded value panics: "+p, cj)
		return true, nil
	}
	v2 := mk()
	if p := c18Try(func() { err = e.unmarshal(e1, v2) }); p != "" || err != nil {
		c.Fail(sigBase+"/reencoded-not-decodable", fmt.Sprintf("the re-encoding of an accepted input is rejected: %v %s", err, p), cj)
		return true, e1
	}
	var e2 []byte
	if p := c18Try(func() { e2 = e.marshal(v2) }); p != "" || !bytes.Equal(e1, e2) {
		c.Fail(sigBase+"/not-a-fixed-point", "the second re-encoding differs from the first "+p, cj)
		return true, e1
	}
	// through the other encodings, when representable
	var canon []byte
	if p := c18Try(func() { canon = ttlv.MarshalTTLV(v2) }); p != "" {
		c.Fail(sigBase+"/cross/binary-panics", p, cj)
		return true, e1
	}
	nodes, perr := tv.SpecParse(canon)
	if perr != nil || !c18Representable(nodes) {
		c.Count("cross:not-representable")
		return true, e1
	}
	for _, o := range c18Encs {
		if o.name == e.name {
			continue
		}
		var x1 []byte
		if p := c18Try(func() { x1 = append([]byte{}, o.marshal(v2)...) }); p != "" {
			c.Fail(sigBase+"/cross-"+o.name+"/encode-panics", p, cj)
			continue
		}
		v3 := mk()
		if p := c18Try(func() { err = o.unmarshal(x1, v3) }); p != "" || err != nil {
			c.Fail(sigBase+"/cross-"+o.name+"/not-decodable", fmt.Sprintf("an accepted %s input forwarded in %s is rejected: %v %s", e.name, o.name, err, p), cj)
			continue
		}
		var x2 []byte
		if p := c18Try(func() { x2 = o.marshal(v3) }); p != "" || !bytes.Equal(x1, x2) {
			c.Fail(sigBase+"/cross-"+o.name+"/not-a-fixed-point", "forwarded in "+o.name+": second re-encoding differs "+p, cj)
		}
		c.Count("cross:" + e.name + "->" + o.name)
	}
	return true, e1
}

// c18TreeMutate applies one structural mutation to a parsed TTLV tree (in place on a copy).
func c18TreeMutate(r *h.Rand, root tv.Node) (tv.Node, string) {
	var structs []*tv.Node
	var walk func(n *tv.Node)
	cp := c18Clone(root)
	walk = func(n *tv.Node) {
		if n.Kind == tv.KStruct {
			structs = append(structs, n)
			for i := range n.Kids {
				walk(&n.Kids[i])
			}
		}
	}
	walk(&cp)
	if len(structs) == 0 {
		return cp, "none"
	}
	s := structs[r.Intn(len(structs))]
	muts := []string{"append-unknown", "dup-child", "swap-adjacent", "drop-child", "zero-leaf", "insert-zero-optional", "enum-unknown", "date-boundary"}
	m := muts[r.Intn(len(muts))]
	switch m {
	case "append-unknown":
		s.Kids = append(s.Kids, tv.GenLeaf(r, 0))
	case "dup-child":
		if len(s.Kids) > 0 {
			i := r.Intn(len(s.Kids))
			k := c18Clone(s.Kids[i])
			s.Kids = append(s.Kids[:i+1], append([]tv.Node{k}, s.Kids[i+1:]...)...)
		}
	case "swap-adjacent":
		if len(s.Kids) > 1 {
			i := r.Intn(len(s.Kids) - 1)
			s.Kids[i], s.Kids[i+1] = s.Kids[i+1], s.Kids[i]
		}
	case "drop-child":
		if len(s.Kids) > 0 {
			i := r.Intn(len(s.Kids))
			s.Kids = append(s.Kids[:i], s.Kids[i+1:]...)
		}
	case "zero-leaf":
		for i := range s.Kids {
			k := &s.Kids[i]
			if k.Kind != tv.KStruct && r.Chance(1, 2) {
				k.I, k.B, k.S = 0, false, nil
				if k.Kind == tv.KBig {
					k.Big = tv.GenBig(h.NewRand(0)).SetInt64(0)
				}
				break
			}
		}
	case "insert-zero-optional":
		// an explicit zero-valued element with the tag of a sibling (or a common optional tag)
		tags := []int{0x420050, 0x42007E, 0x42007D, 0x420093, 0x420006, 0x420010, 0x42000C}
		tg := tags[r.Intn(len(tags))]
		k := tv.Node{Tag: tg, Kind: []int{tv.KInt, tv.KEnum, tv.KText, tv.KBytes}[r.Intn(4)]}
		i := r.Intn(len(s.Kids) + 1)
		s.Kids = append(s.Kids[:i], append([]tv.Node{k}, s.Kids[i:]...)...)
	case "date-boundary":
		// a date-time at an end of the range the text encodings can carry (years 1 and 9999)
		var dates []*tv.Node
		var wd func(n *tv.Node)
		wd = func(n *tv.Node) {
			if n.Kind == tv.KDate {
				dates = append(dates, n)
			}
			for i := range n.Kids {
				wd(&n.Kids[i])
			}
		}
		wd(&cp)
		if len(dates) > 0 {
			dates[r.Intn(len(dates))].I = []int64{-62135596800, -62135596799, 253402300799, 0}[r.Intn(4)]
		}
	case "enum-unknown":
		for i := range s.Kids {
			if s.Kids[i].Kind == tv.KEnum && r.Chance(1, 2) {
				s.Kids[i].I = int64([]uint32{0, 0x7F, 0x80000001, 0xffffffff}[r.Intn(4)])
				break
			}
		}
	}
	return cp, m
}

func c18Clone(n tv.Node) tv.Node {
	c := n
	c.S = append([]byte(nil), n.S...)
	if n.Big != nil {
		c.Big = tv.GenBig(h.NewRand(0)).Set(n.Big)
	}
	c.Kids = nil
	for _, k := range n.Kids {
		c.Kids = append(c.Kids, c18Clone(k))
	}
	return c
}

var (
	c18XMLInt  = regexp.MustCompile(`type="(Integer|LongInteger|Interval)" value="(\d+)"`)
	c18JSONNum = regexp.MustCompile(`"type": "(Integer|LongInteger|Interval)", "value": (\d+)`)
	c18XMLDate  = regexp.MustCompile(`type="DateTime" value="([^"]+)"`)
	c18JSONDate = regexp.MustCompile(`"type": "DateTime", "value": "([^"]+)"`)
)

// c18LexMutate rewrites some numbers of an XML / JSON document in another accepted lexical form.
// c18DateVariant: the same instant written differently: another UTC offset, or (JSON) the 0x form of
// the epoch seconds.
func c18DateVariant(r *h.Rand, enc string, val string) string {
	t, err := time.Parse(time.RFC3339, val)
	if err != nil {
		return val
	}
	if r.Chance(1, 5) {
		// the ends of the range: year 1 (the zero time.Time) and year 9999, also written with an offset
		return []string{"0001-01-01T00:00:00Z", "0001-01-01T01:00:00+01:00", "9999-12-31T23:59:59Z", "9999-12-31T22:59:59-01:00", "0001-01-01T00:00:01Z"}[r.Intn(5)]
	}
	if enc == "json" && t.Unix() >= 0 && r.Bool() {
		return fmt.Sprintf("0x%x", t.Unix())
	}
	offs := []int{0, 3600, -5 * 3600, 5*3600 + 1800, 14 * 3600}
	return t.In(time.FixedZone("", offs[r.Intn(len(offs))])).Format(time.RFC3339)
}

func c18LexMutate(r *h.Rand, enc string, doc []byte) []byte {
	if enc == "xml" {
		doc = c18XMLDate.ReplaceAllFunc(doc, func(m []byte) []byte {
			return []byte(fmt.Sprintf(`type="DateTime" value="%s"`, c18DateVariant(r, enc, string(c18XMLDate.FindSubmatch(m)[1]))))
		})
	} else {
		doc = c18JSONDate.ReplaceAllFunc(doc, func(m []byte) []byte {
			return []byte(fmt.Sprintf(`"type": "DateTime", "value": "%s"`, c18DateVariant(r, enc, string(c18JSONDate.FindSubmatch(m)[1]))))
		})
	}
	if enc == "xml" {
		return c18XMLInt.ReplaceAllFunc(doc, func(m []byte) []byte {
			if !r.Chance(1, 2) {
				return m
			}
			sm := c18XMLInt.FindSubmatch(m)
			var n uint64
			fmt.Sscan(string(sm[2]), &n)
			return []byte(fmt.Sprintf(`type="%s" value="0x%x"`, sm[1], n))
		})
	}
	return c18JSONNum.ReplaceAllFunc(doc, func(m []byte) []byte {
		if !r.Chance(1, 2) {
			return m
		}
		sm := c18JSONNum.FindSubmatch(m)
		var n uint64
		fmt.Sscan(string(sm[2]), &n)
		if r.Bool() {
			return []byte(fmt.Sprintf(`"type": "%s", "value": "0x%x"`, sm[1], n))
		}
		return []byte(fmt.Sprintf(`"type": "%s", "value": "%d"`, sm[1], n))
	})
}

func driveC18(c *h.Ctx) error {
	c.Rule("a case is (encoding, input, target) where the input is an alternative or damaged form of a valid encoding: generic trees with over-long big integers / non-zero padding / trailing items; KMIP messages of the coverage plan whose parsed TTLV tree got one structural mutation (unknown element appended, child duplicated / swapped / dropped, explicit zero-valued optional element inserted, unknown enumeration value), later-version elements under an earlier header version, alternative lexical forms of numbers in XML and JSON, and the OASIS vectors; only ACCEPTED inputs create an obligation; non-trivial = distinct accepted input")
	mkValue := func() any { return &ttlv.Value{} }
	var vrows, mrows []string
	replayHex, replayEnc, replayRoot := "", "", ""
	if c.Replay != nil {
		cs, _ := c.Replay["case"].(map[string]any)
		replayHex, _ = cs["input_hex"].(string)
		replayEnc, _ = cs["encoding"].(string)
		replayRoot, _ = cs["target"].(string)
	}
	run := func(e c18Enc, x []byte, root string, kind string, extra map[string]any) {
		cj := map[string]any{"encoding": e.name, "target": root, "kind": kind, "input_hex": hex.EncodeToString(x)}
		for k, v := range extra {
			cj[k] = v
		}
		mk := mkValue
		switch root {
		case "kmip.RequestMessage":
			mk = func() any { return &kmip.RequestMessage{} }
		case "kmip.ResponseMessage":
			mk = func() any { return &kmip.ResponseMessage{} }
		}
		acc, e1 := c18Chain(c, e, x, mk, kind, cj)
		c.Eval(e.name+"/"+root+"/"+hex.EncodeToString(x), acc)
		if e.name != "ttlv" && acc && (strings.Contains(kind, "lexical") || kind == "replay" || kind == "oasis-vector") {
			// the same obligation with a local time zone that is not UTC (the text encodings print
			// and read date-times through time.Local)
			old := time.Local
			time.Local = time.FixedZone("UTC+1", 3600)
			cz := map[string]any{}
			for k, v := range cj {
				cz[k] = v
			}
			cz["local_zone"] = "UTC+1"
			c18Chain(c, e, x, mk, kind+"+zone", cz)
			time.Local = old
			c.Count("zone-leg")
		}
		if e.name != "ttlv" || len(x) > 3000 {
			return
		}
		obs := "OErr"
		if acc && e1 != nil {
			obs = "OOk " + h.HexBytes(e1)
		} else if acc {
			obs = "OPanic"
		}
		if root == "ttlv.Value" {
			vrows = append(vrows, fmt.Sprintf("(%s, %s)", h.HexBytes(x), obs))
			c.IndexCase("mism_value", len(vrows)-1, cj)
		} else {
			mrows = append(mrows, fmt.Sprintf("(%q, %s, %s)", root, h.HexBytes(x), obs))
			c.IndexCase("mism_msg", len(mrows)-1, cj)
			c.IndexCase("mism_norm", len(mrows)-1, cj)
			c.IndexCase("mism_hop", len(mrows)-1, cj)
		}
	}
	if c.Replay != nil {
		b, _ := hex.DecodeString(replayHex)
		for _, e := range c18Encs {
			if e.name == replayEnc {
				run(e, b, replayRoot, "replay", nil)
			}
		}
	} else {
		// A. generic trees, binary: alternative but well-formed encodings, damaged ones
		for i := 0; i < c.Pick(300, 4000); i++ {
			r := c.Rng.Fork(uint64(i))
			n := tv.Gen(r, 1+i%3)
			b := tv.SpecGen(n, r)
			kind := "alt-encoding"
			switch i % 4 {
			case 1:
				b, kind = tv.Mutate(r, b)
			case 2:
				b = append(b, tv.SpecGen(tv.GenLeaf(r, 0), r)...)
				kind = "trailing-item"
			case 3:
				m, k := c18TreeMutate(r, n)
				b, kind = tv.SpecGen(m, r), k
			}
			run(c18Encs[0], b, "ttlv.Value", kind, nil)
			// the same tree through XML and JSON (canonical text forms of it, then lexical variants)
			if i%3 == 0 {
				v := tv.ToValue(n)
				for _, e := range c18Encs[1:] {
					var doc []byte
					if p := c18Try(func() { doc = append([]byte{}, e.marshal(&v)...) }); p == "" {
						run(e, c18LexMutate(r, e.name, doc), "ttlv.Value", "lexical-variant", nil)
					}
				}
			}
		}
		// B. KMIP messages: structural mutations of the parsed tree, in all three encodings
		plan := gv.CoveragePlan()
		stride := c.Pick(9, 2)
		for i, pc := range plan {
			if i%stride != int(c.Seed)%stride {
				continue
			}
			r := c.Rng.Fork(uint64(100000 + i))
			pc.Opts.TextSafe = true
			msg := msgPtr(pc.Gen(r))
			root := msgRoot(msg)
			b, p := safeMarshal(msg)
			if p != "" {
				continue
			}
			nodes, err := tv.SpecParse(b)
			if err != nil || len(nodes) != 1 {
				continue
			}
			for k := 0; k < c.Pick(3, 6); k++ {
				m, kind := c18TreeMutate(r, nodes[0])
				mb := tv.SpecGen(m, r)
				run(c18Encs[0], mb, root, kind, map[string]any{"plan_index": i})
				// the mutated message in XML / JSON: decode the mutated binary as a generic tree, write it as text
				if k == 0 {
					var gvv ttlv.Value
					if ttlv.UnmarshalTTLV(mb, &gvv) == nil {
						for _, e := range c18Encs[1:] {
							var doc []byte
							if p := c18Try(func() { doc = append([]byte{}, e.marshal(&gvv)...) }); p == "" {
								run(e, c18LexMutate(r, e.name, doc), root, kind+"+lexical", map[string]any{"plan_index": i})
							}
						}
					}
				}
			}
			// later-version elements under an earlier header version
			if pc.Ver == kmip.V1_4 {
				pc2 := pc
				pc2.Opts.IgnoreVersions = true
				m2 := msgPtr(pc2.Gen(c.Rng.Fork(uint64(200000 + i))))
				if b2, p := safeMarshal(m2); p == "" {
					if pb, ok := c05PatchVersion(b2, int32(i%4)); ok {
						run(c18Encs[0], pb, root, "later-version-elements", map[string]any{"plan_index": i})
					}
				}
			}
		}
		// C. OASIS vectors (XML as published), forwarded through all encodings
		files := c04VectorFiles(c)
		vstride := c.Pick(12, 1)
		for fi, file := range files {
			if fi%vstride != int(c.Seed)%vstride {
				continue
			}
			msgs, err := c04LoadVector(c, file)
			if err != nil {
				continue
			}
			for mi, x := range msgs {
				var sb strings.Builder
				x.xmlText(&sb)
				root := "kmip.RequestMessage"
				if x.Name == "ResponseMessage" {
					root = "kmip.ResponseMessage"
				}
				run(c18Encs[1], []byte(sb.String()), root, "oasis-vector", map[string]any{"file": file, "message": mi})
			}
		}
	}
	var sb strings.Builder
	sb.WriteString("From Coq Require Import ZArith List Bool String.\nFrom KV Require Import Base Wire Cursor Schema Cases CodecRows KmipCodec KmipNormRows.\nImport ListNotations.\nOpen Scope Z_scope.\nOpen Scope string_scope.\n")
	d1, e1 := h.Chunk("vrows", "list Z * obs (list Z)", vrows, 200)
	d2, e2 := h.Chunk("mrows", "string * list Z * obs (list Z)", mrows, 60)
	sb.WriteString(d1 + d2)
	fmt.Fprintf(&sb, "Definition mism_value := Eval vm_compute in bad_idx row_reenc %s 0.\nPrint mism_value.\n", e1)
	fmt.Fprintf(&sb, "Definition mism_msg := Eval vm_compute in bad_idx row_msg_dec %s 0.\nPrint mism_msg.\n", e2)
	// the one-hop theorem's objects on the same inputs: the normal form of what the model decodes
	// conforms and has the same encoding; the second hop returns exactly that normal form
	fmt.Fprintf(&sb, "Definition mism_norm := Eval vm_compute in bad_idx row_norm %s 0.\nPrint mism_norm.\n", e2)
	fmt.Fprintf(&sb, "Definition mism_hop := Eval vm_compute in bad_idx row_hop %s 0.\nPrint mism_hop.\n", e2)
	_ = reflect.TypeOf
	return c.WriteCases("cases_C18.v", sb.String(), len(vrows)+len(mrows))
}
