package main

// C20 - codec results do not depend on concurrency or call history.
//
// The driver
//  1. runs call histories on real Encoders of the four kinds (direct method calls, nested
//     Struct callbacks that panic, reflective encoding of harness types whose fields are
//     version gated / set the version, Clear, Bytes) and hands the observed outcomes to the
//     model (table mism_hist);
//  2. evaluates the property on the implementation alone: a reused, cleared encoder must
//     answer like a fresh one whatever came before; Clear must empty every writer; a
//     message that carries its own version must not see the previous one;
//  3. drives N goroutines through the plan caches under explicit schedules (one cache
//     access at a time, hook ttlv.VerifSetCacheHook) from cold caches (table mism_sched);
//  4. spawns fresh child processes: a sequential reference, sequential runs in shuffled
//     order of first use, and runs on many goroutines released together, over the OASIS
//     message corpus and the harness types, in the three encodings + text, both directions.

import (
	"github.com/ovh/kmip-go"
	"bytes"
	"encoding/json"
	"fmt"
	"os"
	"os/exec"
	"path/filepath"
	"reflect"
	"runtime"
	"strings"
	"time"

	"github.com/ovh/kmip-go/ttlv"

	"verifharness/internal/h"
)

func init() { h.Register("C20", driveC20) }

// ---------------------------------------------------------------- calls on an encoder

type c20LeafV struct {
	K string `json:"k"` // int long bool text bytes interval
	I int64  `json:"i,omitempty"`
	S string `json:"s,omitempty"`
	B []byte `json:"b,omitempty"`
}

func (l c20LeafV) coq() string {
	switch l.K {
	case "int":
		return "LInt " + h.Z(l.I)
	case "long":
		return "LLong " + h.Z(l.I)
	case "bool":
		return "LBool " + h.Bool(l.I != 0)
	case "text":
		return "LText " + h.Str(l.S)
	case "bytes":
		return "LBytes " + h.Bytes(l.B)
	}
	return "LInterval " + h.Z(l.I)
}

type c20Prog struct {
	Op   string     `json:"op"` // leaf struct abort
	Tag  int        `json:"tag,omitempty"`
	Leaf *c20LeafV  `json:"leaf,omitempty"`
	Body []*c20Prog `json:"body,omitempty"`
}

func (p *c20Prog) coq() string {
	switch p.Op {
	case "leaf":
		return fmt.Sprintf("PLeaf %d (%s)", p.Tag, p.Leaf.coq())
	case "struct":
		var b []string
		for _, q := range p.Body {
			b = append(b, q.coq())
		}
		return fmt.Sprintf("PStruct %d %s", p.Tag, h.List(b))
	}
	return "PAbort"
}

func (p *c20Prog) aborts() bool {
	switch p.Op {
	case "abort":
		return true
	case "leaf":
		return p.Leaf.K == "interval" && p.Leaf.I < 0
	}
	for _, q := range p.Body {
		if q.aborts() {
			return true
		}
	}
	return false
}

type c20Call struct {
	Kind  string   `json:"kind"` // prog encode clear bytes
	Prog  *c20Prog `json:"prog,omitempty"`
	Root  int      `json:"root,omitempty"`
	Seed  uint64   `json:"seed,omitempty,string"`
	Craft string   `json:"craft,omitempty"`
	Tag   int      `json:"tag,omitempty"`
}

type c20Abort struct{}

func c20DoProg(e *ttlv.Encoder, p *c20Prog) {
	switch p.Op {
	case "leaf":
		l := p.Leaf
		switch l.K {
		case "int":
			e.Integer(p.Tag, int32(l.I))
		case "long":
			e.LongInteger(p.Tag, l.I)
		case "bool":
			e.Bool(p.Tag, l.I != 0)
		case "text":
			e.TextString(p.Tag, l.S)
		case "bytes":
			e.ByteString(p.Tag, l.B)
		default:
			e.Interval(p.Tag, time.Duration(l.I)*time.Second)
		}
	case "struct":
		e.Struct(p.Tag, func(e *ttlv.Encoder) {
			for _, q := range p.Body {
				c20DoProg(e, q)
			}
		})
	default:
		panic(c20Abort{})
	}
}

func c20CraftValue(c c20Call) reflect.Value {
	leafs := func(neg bool) *c20Leafs {
		l := &c20Leafs{I: 7, L: 1 << 53, B: true, S: "leaf", Y: []byte{1, 2, 3}, D: 5 * time.Second}
		if neg {
			l.D = -time.Second
		}
		return l
	}
	gated := func(neg bool) c20Gated {
		return c20Gated{A: 11, B: "old", C: 12, D: leafs(neg), E: []int32{1, 2}, F: 13}
	}
	switch c.Craft {
	case "msg14":
		return reflect.ValueOf(c20Msg{H: c20Hdr{V: c20Ver{1, 4}, N: 3, G: "g"}, Items: []c20Gated{gated(false), {F: 1}}, Extra: gated(false), Tail: &c20Gated{A: 5}})
	case "msg10neg":
		// sets version 1.0, writes part of the message, then a writer panics (version 1.4
		// fields are skipped under 1.0, so the negative interval sits in the untyped Extra)
		return reflect.ValueOf(c20Msg{H: c20Hdr{V: c20Ver{1, 0}}, Items: []c20Gated{gated(false)}, Extra: *leafs(true)})
	case "msg20":
		return reflect.ValueOf(&c20Msg{H: c20Hdr{V: c20Ver{2, 0}, G: "two"}, Items: []c20Gated{gated(false)}})
	case "gated":
		return reflect.ValueOf(gated(false))
	case "late":
		return reflect.ValueOf(c20Late{G: gated(false), H: c20Hdr{V: c20Ver{1, 1}}, T: gated(false)})
	}
	return c20Gen(h.NewRand(c.Seed), c20Roots[c.Root], 3, true)
}

func c20CraftRoot(c c20Call) reflect.Type {
	if c.Craft != "" {
		return c20CraftValue(c).Type()
	}
	return c20Roots[c.Root]
}

func (c c20Call) coq(tt *c20Types) string {
	switch c.Kind {
	case "prog":
		return "CProg (" + c.Prog.coq() + ")"
	case "encode":
		v := c20CraftValue(c)
		return fmt.Sprintf("CEncode %d %d (%s)", tt.id(v.Type()), c.Tag, c20CoqValue(tt, v))
	case "clear":
		return "CClear"
	}
	return "CBytes"
}

type c20Obs struct {
	Class string // ok panic bytes
	Bytes []byte
}

func c20NewEncoder(kind string) ttlv.Encoder {
	switch kind {
	case "KXml":
		return ttlv.NewXMLEncoder()
	case "KJson":
		return ttlv.NewJSONEncoder()
	case "KText":
		return ttlv.NewTextEncoder()
	}
	return ttlv.NewTTLVEncoder()
}

func c20DoCall(e *ttlv.Encoder, c c20Call) (o c20Obs) {
	defer func() {
		if r := recover(); r != nil {
			o = c20Obs{Class: "panic"}
		}
	}()
	switch c.Kind {
	case "prog":
		c20DoProg(e, c.Prog)
	case "encode":
		e.TagAny(c.Tag, c20CraftValue(c).Interface())
	case "clear":
		e.Clear()
	case "bytes":
		return c20Obs{Class: "bytes", Bytes: append([]byte{}, e.Bytes()...)}
	}
	return c20Obs{Class: "ok"}
}

func c20RunHistory(kind string, calls []c20Call) []c20Obs {
	e := c20NewEncoder(kind)
	out := make([]c20Obs, len(calls))
	for i, c := range calls {
		out[i] = c20DoCall(&e, c)
	}
	return out
}

func c20CoqObs(kind string, o c20Obs, byName map[string]int) (string, error) {
	switch o.Class {
	case "ok":
		return "OOk", nil
	case "panic":
		return "OPanic", nil
	}
	v, err := c20View(kind, o.Bytes, byName)
	if err != nil {
		return "", err
	}
	return "OView (" + v + ")", nil
}

var c20Kinds = []string{"KBin", "KXml", "KJson", "KText"}

func c20CoqKind(k string) string {
	if k == "KBin" {
		return k
	}
	return "(KTok " + k + ")"
}

// ---------------------------------------------------------------- generators

func c20RandLeaf(r *h.Rand, neg bool) *c20LeafV {
	switch r.Intn(6) {
	case 0:
		return &c20LeafV{K: "int", I: []int64{0, 1, -1, 1<<31 - 1, -(1 << 31), int64(int32(r.U64()))}[r.Intn(6)]}
	case 1:
		return &c20LeafV{K: "long", I: []int64{0, -1, 1 << 52, 1<<63 - 1, -(1 << 63), int64(r.U64())}[r.Intn(6)]}
	case 2:
		return &c20LeafV{K: "bool", I: int64(r.Intn(2))}
	case 3:
		return &c20LeafV{K: "text", S: c20SafeString(r, 11)}
	case 4:
		n := []int{0, 1, 7, 8, 9}[r.Intn(5)]
		return &c20LeafV{K: "bytes", B: r.Bytes(n)}
	}
	s := []int64{0, 1, 61, 86400}[r.Intn(4)]
	if neg && r.Chance(1, 3) {
		s = -1
	}
	return &c20LeafV{K: "interval", I: s}
}

func c20RandProg(r *h.Rand, depth int, abort bool) *c20Prog {
	tag := 0x540100 + r.Intn(8)
	if depth > 0 && r.Chance(1, 2) {
		n := r.Intn(4)
		p := &c20Prog{Op: "struct", Tag: tag}
		for i := 0; i < n; i++ {
			p.Body = append(p.Body, c20RandProg(r, depth-1, abort))
		}
		return p
	}
	if abort && depth < 3 && r.Chance(1, 6) {
		return &c20Prog{Op: "abort"}
	}
	return &c20Prog{Op: "leaf", Tag: tag, Leaf: c20RandLeaf(r, abort)}
}

func c20RandCall(r *h.Rand) c20Call {
	switch r.Intn(10) {
	case 0, 1:
		return c20Call{Kind: "clear"}
	case 2:
		return c20Call{Kind: "bytes"}
	case 3, 4, 5:
		return c20Call{Kind: "prog", Prog: c20RandProg(r, 3, true)}
	case 6:
		return c20Call{Kind: "encode", Craft: []string{"msg14", "msg10neg", "msg20", "gated", "late"}[r.Intn(5)], Tag: 0x540200 + r.Intn(4)}
	}
	return c20Call{Kind: "encode", Root: r.Intn(len(c20Roots)), Seed: r.U64(), Tag: 0x540200 + r.Intn(4)}
}

// the bounded alphabet enumerated exhaustively
func c20Alphabet() []c20Call {
	leaf := func(tag int, i int64) *c20Prog { return &c20Prog{Op: "leaf", Tag: tag, Leaf: &c20LeafV{K: "int", I: i}} }
	return []c20Call{
		{Kind: "prog", Prog: leaf(0x540101, 5)},
		{Kind: "prog", Prog: &c20Prog{Op: "struct", Tag: 0x540102, Body: []*c20Prog{leaf(0x540103, 6), {Op: "struct", Tag: 0x540104, Body: []*c20Prog{{Op: "leaf", Tag: 0x540105, Leaf: &c20LeafV{K: "text", S: "in"}}}}, {Op: "struct", Tag: 0x540106}}}},
		{Kind: "prog", Prog: &c20Prog{Op: "struct", Tag: 0x540102, Body: []*c20Prog{leaf(0x540103, 6), {Op: "struct", Tag: 0x540104, Body: []*c20Prog{leaf(0x540105, 1), {Op: "abort"}}}}}},
		{Kind: "prog", Prog: &c20Prog{Op: "struct", Tag: 0x540107, Body: []*c20Prog{{Op: "leaf", Tag: 0x540108, Leaf: &c20LeafV{K: "interval", I: -1}}}}},
		{Kind: "encode", Craft: "msg14", Tag: 0x540200},
		{Kind: "encode", Craft: "gated", Tag: 0x540201},
		{Kind: "encode", Craft: "msg10neg", Tag: 0x540200},
		{Kind: "clear"},
		{Kind: "bytes"},
	}
}

func c20Probes() []c20Call {
	return []c20Call{
		{Kind: "encode", Craft: "gated", Tag: 0x540201},
		{Kind: "prog", Prog: &c20Prog{Op: "struct", Tag: 0x540110, Body: []*c20Prog{{Op: "leaf", Tag: 0x540111, Leaf: &c20LeafV{K: "long", I: 1 << 60}}, {Op: "struct", Tag: 0x540112}}}},
		{Kind: "encode", Craft: "late", Tag: 0x540202},
		{Kind: "encode", Craft: "msg20", Tag: 0x540203},
	}
}

// ---------------------------------------------------------------- the history oracle

type c20HistCase struct {
	Mode  string    `json:"mode"` // "history"
	Kind  string    `json:"writer"`
	Calls []c20Call `json:"calls"` // the history
	Probe c20Call   `json:"probe"`
	Note  string    `json:"note,omitempty"`
}

// c20ProbeClass is the input class used in failure signatures.
func c20ProbeClass(c c20Call) string {
	if c.Kind == "encode" {
		return "reflective-encode"
	}
	return "direct-calls"
}

func c20Describe(c c20Call) string {
	switch c.Kind {
	case "prog":
		if c.Prog.aborts() {
			return "aborted-call"
		}
		return "direct-call"
	case "encode":
		if c.Craft != "" {
			return "encode-" + c.Craft
		}
		return "encode-" + c20Roots[c.Root].String()
	}
	return c.Kind
}

// c20CheckHistory evaluates the property on one history: h; Clear; Bytes; probe; Bytes
// against probe; Bytes on a fresh encoder. Returns the full call list and observations.
func c20CheckHistory(c *h.Ctx, hc c20HistCase) ([]c20Call, []c20Obs) {
	full := append(append([]c20Call{}, hc.Calls...), c20Call{Kind: "clear"}, c20Call{Kind: "bytes"}, hc.Probe, c20Call{Kind: "bytes"})
	obs := c20RunHistory(hc.Kind, full)
	fresh := c20RunHistory(hc.Kind, []c20Call{hc.Probe, {Kind: "bytes"}})
	n := len(hc.Calls)
	aborted := false
	for i, o := range obs[:n] {
		if o.Class == "panic" && hc.Calls[i].Kind != "clear" {
			aborted = true
		}
	}
	after := "after-complete-messages"
	if aborted {
		after = "after-aborted-message"
	}
	for i, o := range obs[:n] {
		if o.Class == "panic" && hc.Calls[i].Kind == "clear" {
			c.Fail("C20/clear-panics/"+hc.Kind, fmt.Sprintf("Encoder.Clear panicked on a %s encoder (call %d of the history)", hc.Kind, i), hc)
			return full, obs
		}
	}
	switch {
	case obs[n].Class == "panic":
		c.Fail("C20/clear-panics/"+hc.Kind+"/"+after, fmt.Sprintf("Encoder.Clear panicked on a %s encoder %s", hc.Kind, after), hc)
	case len(obs[n+1].Bytes) != 0:
		c.Fail("C20/clear-keeps-buffer/"+hc.Kind+"/"+after, fmt.Sprintf("%d bytes left in a %s encoder after Clear", len(obs[n+1].Bytes), hc.Kind), hc)
	case obs[n+2].Class != fresh[0].Class:
		c.Fail("C20/reused-encoder-differs/"+hc.Kind+"/"+c20ProbeClass(hc.Probe), fmt.Sprintf("on a cleared %s encoder (%s) the call ends with %s, on a fresh one with %s", hc.Kind, after, obs[n+2].Class, fresh[0].Class), hc)
	case !bytes.Equal(obs[n+3].Bytes, fresh[1].Bytes):
		c.Fail("C20/reused-encoder-differs/"+hc.Kind+"/"+c20ProbeClass(hc.Probe), fmt.Sprintf("a cleared %s encoder (%s) produced %d bytes that differ from the %d bytes of a fresh encoder", hc.Kind, after, len(obs[n+3].Bytes), len(fresh[1].Bytes)), hc)
	}
	return full, obs
}

// c20CheckNoClear: without Clear, a message that sets its own version before any gated
// field is encoded the same after any other message (binary: appended to the buffer).
func c20CheckNoClear(c *h.Ctx, first, second c20Call) {
	obs := c20RunHistory("KBin", []c20Call{first, {Kind: "bytes"}, second, {Kind: "bytes"}})
	fresh := c20RunHistory("KBin", []c20Call{second, {Kind: "bytes"}})
	cs := map[string]any{"mode": "noclear", "first": first, "second": second}
	if obs[0].Class != "ok" {
		return
	}
	if obs[2].Class != fresh[0].Class || !bytes.Equal(obs[3].Bytes, append(append([]byte{}, obs[1].Bytes...), fresh[1].Bytes...)) {
		c.Fail("C20/version-flows-across-messages/encoder", "a message carrying its own version is encoded differently after "+c20Describe(first)+" on the same (uncleared) encoder", cs)
	}
}

// ---------------------------------------------------------------- new objects after other messages

type c20Probe struct {
	name string
	run  func() c20MsgOut
}

func c20GuardOut(f func() c20MsgOut) (o c20MsgOut) {
	defer func() {
		if recover() != nil {
			o = c20MsgOut{Class: "panic"}
		}
	}()
	return f()
}

// c20FreshProbes: calls on NEW encoders / decoders whose result depends on the version the
// object holds (none, for a new object).
func c20FreshProbes() []c20Probe {
	old := c20SynMarshal("ttlv", 0x540500, c20GatedOld{B: "b", F: 1})
	nw := c20SynMarshal("ttlv", 0x540500, c20GatedNew{A: 2, D: &c20Leafs{I: 3}, F: 4})
	dec := func(in []byte) func() c20MsgOut {
		return func() c20MsgOut {
			var g c20Gated
			if err := c20SynUnmarshal("ttlv", 0x540500, append([]byte{}, in...), &g); err != nil {
				return c20MsgOut{Class: "err"}
			}
			return c20MsgOut{Class: "ok", Bytes: []byte(fmt.Sprintf("%+v", g))}
		}
	}
	return []c20Probe{
		{"decode-1.0-shaped-value", dec(old)},
		{"decode-1.4-shaped-value", dec(nw)},
		{"encode-gated-value", func() c20MsgOut {
			return c20MsgOut{Class: "ok", Bytes: c20SynMarshal("ttlv", 0x540500, c20Gated{A: 1, B: "b", C: 2, D: &c20Leafs{I: 3}, E: []int32{4}, F: 5})}
		}},
		{"MarshalTTLV-gated-kmip-value", func() c20MsgOut { return c20MsgOut{Class: "ok", Bytes: append([]byte{}, ttlv.MarshalTTLV(c20GatedKmip())...)} }},
		{"MarshalXML-gated-kmip-value", func() c20MsgOut { return c20MsgOut{Class: "ok", Bytes: append([]byte{}, ttlv.MarshalXML(c20GatedKmip())...)} }},
		{"MarshalJSON-gated-kmip-value", func() c20MsgOut { return c20MsgOut{Class: "ok", Bytes: append([]byte{}, ttlv.MarshalJSON(c20GatedKmip())...)} }},
	}
}

// c20GatedKmip: a real KMIP structure without header whose elements are gated from 1.2 and 1.4 on
func c20GatedKmip() *kmip.CryptographicParameters {
	t, salt := true, int32(16)
	return &kmip.CryptographicParameters{BlockCipherMode: kmip.BlockCipherModeGCM, HashingAlgorithm: kmip.HashingAlgorithmSHA_256,
		RandomIV: &t, IVLength: 12, TagLength: 16, SaltLength: &salt, MaskGenerator: kmip.MaskGeneratorMGF1}
}

// c20CheckFreshObjects: the probes give the same result on new objects before and after
// messages of several versions went through other encoders and decoders.
func c20CheckFreshObjects(c *h.Ctx, refs []c20MsgOut) {
	probes := c20FreshProbes()
	check := func(after string) {
		for i, p := range probes {
			got := c20GuardOut(p.run)
			if got.Class != refs[i].Class || !bytes.Equal(got.Bytes, refs[i].Bytes) {
				what := "C20/new-encoder-sees-earlier-message"
				if strings.HasPrefix(p.name, "decode") {
					what = "C20/new-decoder-sees-earlier-message"
				}
				c.Fail(what, fmt.Sprintf("%s on a new object: %s (%d bytes) after %s, %s (%d bytes) at process start", p.name, got.Class, len(got.Bytes), after, refs[i].Class, len(refs[i].Bytes)), map[string]any{"mode": "fresh-objects", "probe": p.name, "after": after})
			}
		}
	}
	for _, v := range c20VerPool {
		m := c20Msg{H: c20Hdr{V: c20Ver{v[0], v[1]}}, Items: []c20Gated{{F: 1}}}
		after := fmt.Sprintf("a version %d.%d message", v[0], v[1])
		var in []byte
		_ = c20GuardOut(func() c20MsgOut { in = c20SynMarshal("ttlv", 0x540501, m); return c20MsgOut{} })
		check(after + " was encoded")
		// ... and through the package-level functions, with a real KMIP message of that version
		_ = c20GuardOut(func() c20MsgOut {
			km := &kmip.RequestMessage{Header: kmip.RequestHeader{ProtocolVersion: kmip.ProtocolVersion{ProtocolVersionMajor: int32(v[0]), ProtocolVersionMinor: int32(v[1])}}}
			_ = ttlv.MarshalTTLV(km)
			_ = ttlv.MarshalXML(km)
			_ = ttlv.MarshalJSON(km)
			var back kmip.RequestMessage
			_ = ttlv.UnmarshalTTLV(ttlv.MarshalTTLV(km), &back)
			return c20MsgOut{}
		})
		check(after + " went through MarshalTTLV/XML/JSON and UnmarshalTTLV")
		_ = c20GuardOut(func() c20MsgOut {
			var d c20Hdr
			hb := c20SynMarshal("ttlv", 0x540502, m.H)
			_ = c20SynUnmarshal("ttlv", 0x540502, hb, &d)
			return c20MsgOut{}
		})
		check(after + " was decoded")
		_ = in
	}
}

// c20CheckDecoderReuse: one Decoder over two concatenated messages; the second carries its
// own version first and must decode as it does alone, whatever version the first left.
func c20CheckDecoderReuse(c *h.Ctx, seedA, seedB uint64) {
	cs := map[string]any{"mode": "decoder-reuse", "seed_a": fmt.Sprint(seedA), "seed_b": fmt.Sprint(seedB)}
	plain := reflect.TypeFor[c20Plain]()
	gen := func(seed uint64) (v c20Plain, in []byte, ok bool) {
		defer func() {
			if recover() != nil {
				ok = false
			}
		}()
		v = c20Gen(h.NewRand(seed), plain, 3, false).Interface().(c20Plain)
		return v, c20SynMarshal("ttlv", 0x540600, v), true
	}
	_, inA, okA := gen(seedA)
	_, inB, okB := gen(seedB)
	if !okA || !okB {
		return
	}
	decodeB := func(d *ttlv.Decoder) c20MsgOut {
		return c20GuardOut(func() c20MsgOut {
			var b c20Plain
			if err := d.TagAny(0x540600, &b); err != nil {
				return c20MsgOut{Class: "err"}
			}
			return c20MsgOut{Class: "ok", Bytes: c20SynMarshal("ttlv", 0x540600, b)}
		})
	}
	d1, err := ttlv.NewTTLVDecoder(append([]byte{}, inB...))
	if err != nil {
		return
	}
	alone := decodeB(&d1)
	d2, err := ttlv.NewTTLVDecoder(append(append([]byte{}, inA...), inB...))
	if err != nil {
		return
	}
	first := c20GuardOut(func() c20MsgOut {
		var a c20Plain
		if err := d2.TagAny(0x540600, &a); err != nil {
			return c20MsgOut{Class: "err"}
		}
		return c20MsgOut{Class: "ok"}
	})
	if first.Class != "ok" {
		return
	}
	after := decodeB(&d2)
	c.Count("one-decoder-second-message:" + alone.Class)
	if after.Class != alone.Class || !bytes.Equal(after.Bytes, alone.Bytes) {
		c.Fail("C20/version-flows-across-messages/decoder", fmt.Sprintf("second message on one Decoder: %s/%d bytes, alone: %s/%d bytes", after.Class, len(after.Bytes), alone.Class, len(alone.Bytes)), cs)
	}
}

// ---------------------------------------------------------------- decode sequences (model rows)

type c20DecMsg struct {
	Root  int    `json:"root"` // index in c20DecRoots
	Seed  uint64 `json:"seed,string"`
	Tag   int    `json:"tag"`
	Shape string `json:"shape,omitempty"` // "old" / "new": the wire form of a c20Gated under version 1.0 / 1.4, decoded as c20Gated
}

type c20DecCase struct {
	Mode string      `json:"mode"` // "decode-seq"
	Enc  string      `json:"enc"`
	Msgs []c20DecMsg `json:"msgs"`
}

func c20DecInput(enc string, m c20DecMsg) (in []byte, ok bool) {
	defer func() {
		if recover() != nil {
			ok = false
		}
	}()
	r := h.NewRand(m.Seed)
	switch m.Shape {
	case "old":
		return c20SynMarshal(enc, m.Tag, c20GatedOld{B: c20SafeString(r, 6), F: int32(r.Intn(50))}), true
	case "new":
		return c20SynMarshal(enc, m.Tag, c20GatedNew{A: int32(r.Intn(50)), D: &c20Leafs{I: 1, B: true}, F: 2}), true
	}
	v := c20Gen(r, c20DecRoots[m.Root], 3, false).Interface()
	return c20SynMarshal(enc, m.Tag, v), true
}

// c20RunDecCase decodes the messages one after the other with ONE decoder over the
// concatenated input; returns the input and the observations (stops at the first failure).
func c20RunDecCase(tt *c20Types, dc c20DecCase) (input []byte, obs []string, ok bool) {
	for _, m := range dc.Msgs {
		in, good := c20DecInput(dc.Enc, m)
		if !good {
			return nil, nil, false
		}
		input = append(input, in...)
	}
	var d ttlv.Decoder
	var err error
	data := append([]byte{}, input...)
	switch dc.Enc {
	case "xml":
		d, err = ttlv.NewXMLDecoder(data)
	case "json":
		d, err = ttlv.NewJSONDecoder(data)
	default:
		d, err = ttlv.NewTTLVDecoder(data)
	}
	if err != nil {
		return input, nil, false
	}
	for _, m := range dc.Msgs {
		t := c20DecRoots[m.Root]
		ptr := reflect.New(t)
		class := func() (cl string) {
			defer func() {
				if recover() != nil {
					cl = "DoPanic"
				}
			}()
			if err := d.TagAny(m.Tag, ptr.Interface()); err != nil {
				return "DoErr"
			}
			return "ok"
		}()
		if class != "ok" {
			obs = append(obs, class)
			break
		}
		obs = append(obs, "DoOk ("+c20CoqValue(tt, ptr.Elem())+")")
	}
	return input, obs, true
}

// ---------------------------------------------------------------- scheduled threads

type c20SynMsg struct {
	Root int    `json:"root"`
	Seed uint64 `json:"seed,string"`
	Tag  int    `json:"tag"`
}

type c20SchedCase struct {
	Mode  string        `json:"mode"` // "sched"
	Dir   string        `json:"dir"`  // enc dec
	Work  [][]c20SynMsg `json:"work"`
	Sched []int         `json:"sched"`
}

type c20MsgOut struct {
	Class string
	Bytes []byte
}

func c20EncodeSyn(m c20SynMsg) (o c20MsgOut) {
	defer func() {
		if recover() != nil {
			o = c20MsgOut{Class: "panic", Bytes: o.Bytes}
		}
	}()
	v := c20Gen(h.NewRand(m.Seed), c20Roots[m.Root], 3, true).Interface()
	e := ttlv.NewTTLVEncoder()
	defer func() { o.Bytes = append([]byte{}, e.Bytes()...) }()
	e.TagAny(m.Tag, v)
	return c20MsgOut{Class: "ok"}
}

// c20DecodeSyn decodes the (complete) encoding of the message and re-encodes the result.
func c20DecodeSyn(m c20SynMsg, in []byte) (o c20MsgOut) {
	defer func() {
		if recover() != nil {
			o = c20MsgOut{Class: "panic"}
		}
	}()
	ptr := reflect.New(c20Roots[m.Root])
	if err := c20SynUnmarshal("ttlv", m.Tag, append([]byte{}, in...), ptr.Interface()); err != nil {
		return c20MsgOut{Class: "err"}
	}
	return c20MsgOut{Class: "ok", Bytes: c20SynMarshal("ttlv", m.Tag, ptr.Elem().Interface())}
}

func c20RunSched(sc c20SchedCase, inputs map[c20SynMsg][]byte) ([][]c20MsgOut, []int) {
	ttlv.VerifResetCaches()
	out := make([][]c20MsgOut, len(sc.Work))
	work := make([]func(), len(sc.Work))
	for i := range sc.Work {
		out[i] = make([]c20MsgOut, len(sc.Work[i]))
		work[i] = func() {
			for k, m := range sc.Work[i] {
				if sc.Dir == "dec" {
					out[i][k] = c20DecodeSyn(m, inputs[m])
				} else {
					out[i][k] = c20EncodeSyn(m)
				}
			}
		}
	}
	pts := c20RunScheduled(work, sc.Sched)
	return out, pts
}

// ---------------------------------------------------------------- emission of model cases

// c20Emit shares repeated call / observation terms between rows (Rocq spends ~10 us per
// literal byte) and stops adding model rows for random cases when the size budget is used
// up (the oracle still evaluates every case).
type c20Emit struct {
	defs    strings.Builder
	names   map[string]string
	n       int
	size    int
	budget  int
	skipped int
	used    map[string]int
}

func (em *c20Emit) intern(typ, term string) string {
	if len(term) <= 30 {
		return term
	}
	key := typ + "|" + term
	if nm, ok := em.names[key]; ok {
		return nm
	}
	em.n++
	nm := fmt.Sprintf("k%d", em.n)
	fmt.Fprintf(&em.defs, "Definition %s : %s := %s.\n", nm, typ, term)
	em.size += len(term) + 40
	em.names[key] = nm
	return nm
}

// room: each kind of random row has its own share of the budget.
func (em *c20Emit) room(section string, n int) bool {
	share := map[string]int{"hist": 35, "dec": 20, "sched": 25, "child": 20}[section]
	if em.used == nil {
		em.used = map[string]int{}
	}
	if em.used[section]+n > em.budget*share/100 {
		em.skipped++
		return false
	}
	em.used[section] += n
	return true
}

// ---------------------------------------------------------------- driver

func c20Replay(c *h.Ctx, tt *c20Types) (handled bool) {
	m, _ := c.Replay["case"].(map[string]any)
	if m == nil {
		return false
	}
	b, _ := json.Marshal(m)
	switch m["mode"] {
	case "history":
		var hc c20HistCase
		if json.Unmarshal(b, &hc) == nil {
			c20CheckHistory(c, hc)
			c.Eval(string(b), true)
		}
	case "noclear":
		var nc struct{ First, Second c20Call }
		if json.Unmarshal(b, &nc) == nil {
			c20CheckNoClear(c, nc.First, nc.Second)
			c.Eval(string(b), true)
		}
	case "sched":
		var sc c20SchedCase
		if json.Unmarshal(b, &sc) == nil {
			c20CheckSched(c, sc)
			c.Eval(string(b), true)
		}
	case "children":
		var cc c20ChildCase
		if json.Unmarshal(b, &cc) == nil {
			c20ReplayChildren(c, cc)
			c.Eval(string(b), true)
		}
	case "decoder-reuse":
		var a, bb uint64
		fmt.Sscan(fmt.Sprint(m["seed_a"]), &a)
		fmt.Sscan(fmt.Sprint(m["seed_b"]), &bb)
		c20CheckDecoderReuse(c, a, bb)
		c.Eval(string(b), true)
	case "decode-twice":
		c20CheckDecodeTwice(c, c20CorpusFor(c), int(m["index"].(float64)))
		c.Eval(string(b), true)
	case "after-rejected":
		var sd uint64
		fmt.Sscan(fmt.Sprint(m["seed"]), &sd)
		c20CheckAfterRejected(c, c20CorpusFor(c), sd)
		c.Eval(string(b), true)
	case "caller-slice":
		c20CheckCallerSlices(c)
		c.Eval(string(b), true)
	case "negative-bigint":
		var sd uint64
		fmt.Sscan(fmt.Sprint(m["seed"]), &sd)
		c20CheckNegBig(c, sd)
		c.Eval(string(b), true)
	}
	return true
}

var c20CorpusCache []c20CorpusMsg

func c20CorpusFor(c *h.Ctx) []c20CorpusMsg {
	if c20CorpusCache == nil {
		c20CorpusCache, _ = c20LoadCorpus(c.Repo)
	}
	return c20CorpusCache
}

func c20RefSyn(dir string, m c20SynMsg, inputs map[c20SynMsg][]byte) c20MsgOut {
	ttlv.VerifResetCaches()
	if dir == "dec" {
		return c20DecodeSyn(m, inputs[m])
	}
	return c20EncodeSyn(m)
}

func c20SchedInputs(sc c20SchedCase) map[c20SynMsg][]byte {
	inputs := map[c20SynMsg][]byte{}
	if sc.Dir == "dec" {
		for _, w := range sc.Work {
			for _, m := range w {
				inputs[m] = c20EncodeSyn(m).Bytes
			}
		}
	}
	return inputs
}

// c20CheckSched: every thread's results under the schedule equal the results of the same
// calls made alone on cold caches.
func c20CheckSched(c *h.Ctx, sc c20SchedCase) ([][]c20MsgOut, []int) {
	inputs := c20SchedInputs(sc)
	out, pts := c20RunSched(sc, inputs)
	for i, w := range sc.Work {
		for k, m := range w {
			ref := c20RefSyn(sc.Dir, m, inputs)
			if ref.Class != out[i][k].Class || !bytes.Equal(ref.Bytes, out[i][k].Bytes) {
				c.Fail("C20/schedule-dependent-result/"+sc.Dir,
					fmt.Sprintf("thread %d message %d (%s): %s/%d bytes under the schedule, %s/%d bytes alone on cold caches", i, k, c20Roots[m.Root], out[i][k].Class, len(out[i][k].Bytes), ref.Class, len(ref.Bytes)), sc)
			}
		}
	}
	ttlv.VerifResetCaches()
	return out, pts
}

func c20CheckDecodeTwice(c *h.Ctx, corpus []c20CorpusMsg, idx int) {
	if idx < 0 || idx >= len(corpus) {
		return
	}
	m := corpus[idx]
	cs := map[string]any{"mode": "decode-twice", "index": idx, "file": m.File, "response": m.Resp}
	buf := append([]byte{}, m.TTLV...)
	run := func() (string, []byte) {
		defer func() { _ = recover() }()
		v := c20NewMsg(m.Resp)
		if err := ttlv.UnmarshalTTLV(buf, v); err != nil {
			return "err", nil
		}
		return "ok", ttlv.MarshalTTLV(v)
	}
	c1, b1 := run()
	if !bytes.Equal(buf, m.TTLV) {
		c.Fail("C20/decode-rewrites-input", "UnmarshalTTLV modified the caller's buffer ("+m.File+")", cs)
		return
	}
	c2, b2 := run()
	if c1 != c2 || !bytes.Equal(b1, b2) {
		c.Fail("C20/decode-twice-differs", "decoding the same buffer twice gives different values ("+m.File+")", cs)
	}
}

func driveC20(c *h.Ctx) error {
	if spec := os.Getenv("C20_CHILD_SPEC"); spec != "" {
		c20ChildMain(spec, os.Getenv("C20_CHILD_OUT"))
		os.Exit(0)
	}
	c.Rule("(a) call histories on one Encoder per writer kind (binary, XML, JSON, text): every sequence of length <= 3 over a 9-call alphabet " +
		"(direct write, nested Struct, Struct aborted by a panicking callback, Struct aborted by a writer panic, a message that sets version 1.4, " +
		"a headerless version-gated value, a message that sets version 1.0 and then aborts, Clear, Bytes) x 4 probes, plus random histories of " +
		"length 4..12 with random nested programs and random values of 16 harness types; each followed by Clear, Bytes, probe, Bytes and compared " +
		"with the probe on a fresh encoder; (b) pairs of messages on one uncleared binary encoder and on one Decoder; new encoders/decoders probed " +
		"before and after messages of 7 versions went through other objects; sequences of 1..3 decodes on one Decoder (TTLV/XML/JSON, incl. wire " +
		"forms of other versions); (c) 2..4 threads encoding/decoding harness values from cold plan caches under explicit schedules at " +
		"cache-access granularity (all 70 interleavings of the first 4+4 accesses of two threads + random schedules); (d) fresh child processes: " +
		"sequential reference, shuffled order of first use, and 2/8/32 goroutines released together, over the OASIS corpus messages and harness " +
		"values, encode and decode, TTLV/XML/JSON/text; decode of the same buffer twice; a case is non-trivial unless it consists of Clear/Bytes " +
		"only; distinct by canonical JSON of the case")
	c20Register()
	// first codec calls of the process: the reference for "new objects" below
	var freshRefs []c20MsgOut
	for _, p := range c20FreshProbes() {
		freshRefs = append(freshRefs, c20GuardOut(p.run))
	}
	tt := c20AllTypes()
	byName := ttlv.VerifRegistryDump().TagByName
	if c.Replay != nil {
		if m, _ := c.Replay["case"].(map[string]any); m != nil && m["mode"] == "fresh-objects" {
			c20CheckFreshObjects(c, freshRefs)
			c.Eval("fresh-objects", true)
			return nil
		}
		if m, _ := c.Replay["case"].(map[string]any); m != nil && m["mode"] == "concurrent-keys" {
			c20ConcurrentKeys(c)
			return nil
		}
		c20Replay(c, tt)
		return nil
	}
	c20CheckFreshObjects(c, freshRefs)
	c.Eval("fresh-objects", true)
	c.Count("fresh-objects-probes")
	c20ConcurrentKeys(c)

	em := &c20Emit{names: map[string]string{}, budget: c.Pick(700_000, 5_000_000)}
	var histRows []string
	addHist := func(hc c20HistCase, always bool) error {
		full, obs := c20CheckHistory(c, hc)
		var cs, os_ []string
		sz := 0
		for i := range full {
			ct := full[i].coq(tt)
			o, err := c20CoqObs(hc.Kind, obs[i], byName)
			if err != nil {
				return fmt.Errorf("cannot read back %s output of %v: %w", hc.Kind, full[i], err)
			}
			sz += len(ct) + len(o)
			cs = append(cs, ct)
			os_ = append(os_, o)
		}
		if always || em.room("hist", sz) {
			for i := range cs {
				cs[i] = em.intern("call", cs[i])
				os_[i] = em.intern("obs", os_[i])
			}
			row := fmt.Sprintf("(%s, %s, %s)", c20CoqKind(hc.Kind), h.List(cs), h.List(os_))
			em.size += len(row)
			histRows = append(histRows, row)
			c.IndexCase("mism_hist", len(histRows)-1, hc)
		}
		key, _ := json.Marshal(hc)
		nontrivial := false
		for _, cl := range hc.Calls {
			if cl.Kind == "prog" || cl.Kind == "encode" {
				nontrivial = true
			}
		}
		c.Eval(string(key), nontrivial)
		c.Count("writer:" + hc.Kind)
		for _, cl := range hc.Calls {
			c.Count("call:" + c20Describe(cl))
		}
		for _, o := range obs {
			c.Count("outcome:" + o.Class)
		}
		return nil
	}

	// ---- (a) exhaustive short histories
	alpha := c20Alphabet()
	probes := c20Probes()
	n := 0
	for _, kind := range c20Kinds {
		// shortest histories first: the first failure of a signature is a smallest one
		level := [][]c20Call{nil}
		for depth := 0; depth <= 3; depth++ {
			var next [][]c20Call
			for _, prefix := range level {
				hc := c20HistCase{Mode: "history", Kind: kind, Calls: prefix, Probe: probes[n%len(probes)]}
				n++
				if err := addHist(hc, true); err != nil {
					return err
				}
				if depth < 3 {
					for _, a := range alpha {
						next = append(next, append(append([]c20Call{}, prefix...), a))
					}
				}
			}
			level = next
		}
	}
	c.Extra("exhaustive_histories", n)
	// ---- (a') random longer histories
	nRand := c.Pick(150, 1500)
	for _, kind := range c20Kinds {
		for i := 0; i < nRand; i++ {
			r := c.Rng.Fork(uint64(1000 + i))
			hc := c20HistCase{Mode: "history", Kind: kind}
			l := 4 + r.Intn(9)
			for k := 0; k < l; k++ {
				hc.Calls = append(hc.Calls, c20RandCall(r))
			}
			hc.Probe = c20RandCall(r)
			for hc.Probe.Kind == "clear" || hc.Probe.Kind == "bytes" {
				hc.Probe = c20RandCall(r)
			}
			if err := addHist(hc, false); err != nil {
				return err
			}
			if i == 0 {
				c.Sample(hc)
			}
		}
	}
	// ---- (b) no Clear between messages
	{
		firsts := []c20Call{{Kind: "encode", Craft: "msg14", Tag: 0x540200}, {Kind: "encode", Craft: "msg20", Tag: 0x540200}, {Kind: "encode", Craft: "late", Tag: 0x540200}, {Kind: "encode", Craft: "gated", Tag: 0x540200}}
		seconds := []c20Call{{Kind: "encode", Craft: "msg14", Tag: 0x540201}, {Kind: "encode", Craft: "msg20", Tag: 0x540201}}
		for i := 0; i < c.Pick(60, 600); i++ {
			r := c.Rng.Fork(uint64(50000 + i))
			firsts = append(firsts, c20Call{Kind: "encode", Root: r.Intn(len(c20GoodRoots)), Seed: r.U64(), Tag: 0x540200})
			// c20Msg / *c20Msg set their version in their first field
			seconds = append(seconds, c20Call{Kind: "encode", Root: r.Intn(2), Seed: r.U64(), Tag: 0x540201})
		}
		for i, f := range firsts {
			s := seconds[i%len(seconds)]
			c20CheckNoClear(c, f, s)
			key, _ := json.Marshal([]c20Call{f, s})
			c.Eval("noclear:"+string(key), true)
			c.Count("pair:no-clear")
		}
	}

	for i := 0; i < c.Pick(200, 2000); i++ {
		r := c.Rng.Fork(uint64(60000 + i))
		a, b := r.U64(), r.U64()
		c20CheckDecoderReuse(c, a, b)
		c.Eval(fmt.Sprintf("decoder-reuse:%d:%d", a, b), true)
		c.Count("pair:one-decoder")
	}

	// ---- decode sequences on one decoder (rows for the model)
	var decRows []string
	for i := 0; i < c.Pick(400, 3000); i++ {
		r := c.Rng.Fork(uint64(65000 + i))
		dc := c20DecCase{Mode: "decode-seq", Enc: []string{"ttlv", "ttlv", "xml", "json"}[r.Intn(4)]}
		n := 1
		if dc.Enc == "ttlv" {
			n = 1 + r.Intn(3)
		}
		for k := 0; k < n; k++ {
			m := c20DecMsg{Root: r.Intn(len(c20DecRoots)), Seed: r.U64(), Tag: 0x540700 + r.Intn(2)}
			if dc.Enc != "ttlv" && c20DecRoots[m.Root].Kind() == reflect.Slice {
				// a top-level slice is several documents in XML / JSON: the text readers take
				// the first one only (reader level, outside this model)
				m.Root = r.Intn(7)
			}
			if r.Chance(1, 4) {
				m.Root = 1 // c20Gated
				m.Shape = []string{"old", "new"}[r.Intn(2)]
			} else if r.Chance(1, 3) {
				m.Root = 3 // a bare header: leaves its version in the decoder
			}
			dc.Msgs = append(dc.Msgs, m)
		}
		input, obs, ok := c20RunDecCase(tt, dc)
		if !ok {
			continue
		}
		var forest []*c20Item
		var perr error
		switch dc.Enc {
		case "xml":
			forest, perr = c20ParseXML(input, byName)
		case "json":
			forest, perr = c20ParseJSON(input, byName)
		default:
			forest, perr = c20ParseTTLV(input)
		}
		if perr != nil {
			return fmt.Errorf("cannot read back %s input of %v: %w", dc.Enc, dc, perr)
		}
		var calls []string
		for _, m := range dc.Msgs {
			calls = append(calls, fmt.Sprintf("(%s, %d)", em.intern("dplan", c20DPlan(c20DecRoots[m.Root])), m.Tag))
		}
		row := fmt.Sprintf("(%s, %s, %s)", h.List(calls), c20CoqItems(forest), h.List(obs))
		key, _ := json.Marshal(dc)
		c.Eval(string(key), true)
		c.Count("decode-seq:" + dc.Enc)
		for _, o := range obs {
			c.Count("decode-seq-outcome:" + strings.SplitN(o, " ", 2)[0])
		}
		if em.room("dec", len(row)) {
			em.size += len(row)
			decRows = append(decRows, row)
			c.IndexCase("mism_dec", len(decRows)-1, dc)
		}
	}

	// ---- (c) scheduled threads on cold caches
	var schedRows []string
	addSched := func(sc c20SchedCase) {
		out, pts := c20CheckSched(c, sc)
		key, _ := json.Marshal(sc)
		c.Eval(string(key), true)
		c.Count("sched:" + sc.Dir)
		total := 0
		for _, p := range pts {
			total += p
		}
		c.CountN("sched:cache-access-points", total)
		if sc.Dir != "enc" {
			return
		}
		var work []string
		for _, w := range sc.Work {
			var ms []string
			for _, m := range w {
				v := c20Gen(h.NewRand(m.Seed), c20Roots[m.Root], 3, true)
				ms = append(ms, fmt.Sprintf("(%d, %d, %s)", tt.id(c20Roots[m.Root]), m.Tag, c20CoqValue(tt, v)))
			}
			work = append(work, h.List(ms))
		}
		var sched []string
		for _, s := range sc.Sched {
			sched = append(sched, fmt.Sprintf("%d%%nat", s))
		}
		var outs []string
		for _, w := range out {
			var os_ []string
			for _, o := range w {
				cl := "OOk"
				if o.Class == "panic" {
					cl = "OPanic"
				}
				os_ = append(os_, fmt.Sprintf("(%s, VwBytes %s)", cl, h.Bytes(o.Bytes)))
			}
			outs = append(outs, h.List(os_))
		}
		row := fmt.Sprintf("(%s, %s, %s)", h.List(work), h.List(sched), h.List(outs))
		if len(schedRows) < 70 || em.room("sched", len(row)) {
			em.size += len(row)
			schedRows = append(schedRows, row)
			c.IndexCase("mism_sched", len(schedRows)-1, sc)
		}
	}
	{
		// all interleavings of two threads (4 + 4 accesses of each are ordered by the
		// schedule, the rest runs thread after thread)
		small := [][]c20SynMsg{
			{{Root: 11, Seed: 3, Tag: 0x540300}}, // c20Tree1
			{{Root: 11, Seed: 4, Tag: 0x540301}},
		}
		var rec func(prefix []int, a, b int)
		rec = func(prefix []int, a, b int) {
			if a == 0 && b == 0 {
				addSched(c20SchedCase{Mode: "sched", Dir: "enc", Work: small, Sched: append([]int{}, prefix...)})
				addSched(c20SchedCase{Mode: "sched", Dir: "dec", Work: small, Sched: append([]int{}, prefix...)})
				return
			}
			if a > 0 {
				rec(append(prefix, 0), a-1, b)
			}
			if b > 0 {
				rec(append(prefix, 1), a, b-1)
			}
		}
		rec(nil, 4, 4)
		c.Extra("exhaustive_two_thread_interleavings", 70)
		for i := 0; i < c.Pick(150, 2500); i++ {
			r := c.Rng.Fork(uint64(70000 + i))
			nt := 2 + r.Intn(3)
			sc := c20SchedCase{Mode: "sched", Dir: []string{"enc", "enc", "dec"}[r.Intn(3)]}
			for t := 0; t < nt; t++ {
				var w []c20SynMsg
				for k := 0; k < 1+r.Intn(3); k++ {
					root := r.Intn(len(c20Roots))
					if sc.Dir == "dec" {
						root = r.Intn(len(c20GoodRoots))
					}
					w = append(w, c20SynMsg{Root: root, Seed: r.U64(), Tag: 0x540300 + r.Intn(3)})
				}
				sc.Work = append(sc.Work, w)
			}
			for k := 0; k < r.Intn(120); k++ {
				sc.Sched = append(sc.Sched, r.Intn(nt))
			}
			addSched(sc)
			if i == 0 {
				c.Sample(sc)
			}
		}
	}

	// ---- decode twice from the same buffer (corpus)
	corpus := c20CorpusFor(c)
	c.Extra("corpus_messages", len(corpus))
	if len(corpus) == 0 && c.NumFailures() == 0 {
		return fmt.Errorf("no corpus message could be loaded from %s/kmiptest/testdata", c.Repo)
	}
	var childRows []string
	var childCases []any
	if len(corpus) == 0 {
		// the codec is already known to misbehave (failures above) to the point that the
		// library's own test vectors cannot be read back: nothing to feed to the children
		c.Extra("corpus", "unusable: the OASIS vectors no longer load with the codec under test")
	} else {
		for i := 0; i < c.Pick(300, 3000); i++ {
			idx := c.Rng.Fork(uint64(90000 + i)).Intn(len(corpus))
			c20CheckDecodeTwice(c, corpus, idx)
			c.Eval(fmt.Sprintf("decode-twice:%d", idx), true)
			c.Count("decode-twice")
		}

		for i := 0; i < c.Pick(12, 100); i++ {
			c20CheckAfterRejected(c, corpus, c.Rng.Fork(uint64(95000+i)).U64())
			c.Eval(fmt.Sprintf("after-rejected:%d", i), true)
			c.Count("after-rejected")
		}
		c20CheckCallerSlices(c)
		for i := 0; i < c.Pick(40, 400); i++ {
			c20CheckNegBig(c, c.Rng.Fork(uint64(96000+i)).U64())
			c.Eval(fmt.Sprintf("negative-bigint:%d", i), true)
			c.Count("negative-bigint")
		}

		// ---- (d) child processes
		var err error
		childRows, childCases, err = c20Children(c, tt, corpus)
		if err != nil {
			if c.NumFailures() == 0 {
				return err
			}
			c.Extra("children", "aborted: "+err.Error())
		}
	}
	for i, row := range childRows {
		if !em.room("child", len(row)) {
			continue
		}
		em.size += len(row)
		histRows = append(histRows, row)
		c.IndexCase("mism_hist", len(histRows)-1, childCases[i])
	}
	c.Extra("model_rows_skipped_for_size", em.skipped)

	// ---- cases for the model
	var sb strings.Builder
	sb.WriteString("From Coq Require Import ZArith List Bool.\nFrom KV Require Import Base CodecState Cases.\nImport ListNotations.\nOpen Scope Z_scope.\n")
	sb.WriteString(tt.coqTable())
	sb.WriteString(tt.coqTags())
	sb.WriteString(c20CasesPrelude)
	sb.WriteString(em.defs.String())
	hdefs, hexpr := h.Chunk("hrows", "wkind * list call * list obs", histRows, 200)
	sb.WriteString(hdefs)
	sdefs, sexpr := h.Chunk("srows", "list (list msg) * list nat * list (list (obs * view))", schedRows, 100)
	sb.WriteString(sdefs)
	fmt.Fprintf(&sb, "Definition mism_hist := Eval vm_compute in bad_idx hrow_ok %s 0.\nPrint mism_hist.\n", hexpr)
	fmt.Fprintf(&sb, "Definition mism_sched := Eval vm_compute in bad_idx srow_ok %s 0.\nPrint mism_sched.\n", sexpr)
	ddefs, dexpr := h.Chunk("drows", "list (dplan * Z) * cursor * list dobs", decRows, 100)
	sb.WriteString(ddefs)
	fmt.Fprintf(&sb, "Definition mism_dec := Eval vm_compute in bad_idx drow_ok %s 0.\nPrint mism_dec.\n", dexpr)
	return c.WriteCases("cases_C20.v", sb.String(), len(histRows)+len(schedRows)+len(decRows))
}

const c20CasesPrelude = `
Definition plan_tbl : list (Z * option plan) := Eval vm_compute in map (fun r : Z * tydef => (fst r, pure_plan tbl 24 (fst r))) tbl.
Definition lkp (ty : Z) : option plan := match clookup plan_tbl ty with Some r => r | None => None end.
Definition leaf_eqb (a b : leaf) : bool :=
  match a, b with
  | LInt x, LInt y | LLong x, LLong y | LInterval x, LInterval y => x =? y
  | LBool x, LBool y => Bool.eqb x y
  | LText x, LText y | LBytes x, LBytes y => zlist_eqb x y
  | _, _ => false
  end.
Fixpoint item_eqb (a b : item) {struct a} : bool :=
  match a, b with
  | IPrim t l, IPrim t' l' => (t =? t') && leaf_eqb l l'
  | IStruct t ch, IStruct t' ch' =>
      (t =? t') &&
      (fix go (x y : list item) : bool :=
         match x, y with
         | [], [] => true
         | i :: x', j :: y' => item_eqb i j && go x' y'
         | _, _ => false
         end) ch ch'
  | _, _ => false
  end.
Definition view_eqb (a b : view) : bool :=
  match a, b with
  | VwBytes x, VwBytes y => zlist_eqb x y
  | VwItems x, VwItems y => list_eqb item_eqb x y
  | VwPartial, VwPartial => true
  | _, _ => false
  end.
Definition obs_eqb (a b : obs) : bool :=
  match a, b with
  | OOk, OOk | OPanic, OPanic => true
  | OView x, OView y => view_eqb x y
  | _, _ => false
  end.
Definition hrow_ok (r : wkind * list call * list obs) : bool :=
  match r with (k, cs, os) => list_eqb obs_eqb (snd (run_calls lkp tag_of cs (enc_new k))) os end.
Fixpoint value_eqb (a b : value) {struct a} : bool :=
  match a, b with
  | VLeaf x, VLeaf y => leaf_eqb x y
  | VNil, VNil => true
  | VPtr x, VPtr y => value_eqb x y
  | VList x, VList y | VStruct x, VStruct y =>
      (fix go (x y : list value) : bool :=
         match x, y with
         | [], [] => true
         | i :: x', j :: y' => value_eqb i j && go x' y'
         | _, _ => false
         end) x y
  | VIface t x, VIface t' y => (t =? t') && value_eqb x y
  | _, _ => false
  end.
Definition dobs_eqb (a b : dobs) : bool :=
  match a, b with
  | DoOk x, DoOk y => value_eqb x y
  | DoErr, DoErr | DoPanic, DoPanic => true
  | _, _ => false
  end.
Definition drow_ok (r : list (dplan * Z) * cursor * list dobs) : bool :=
  match r with (calls, c, os) => list_eqb dobs_eqb (run_decodes 60 calls None c) os end.
Definition ov_eqb (a b : obs * view) : bool := obs_eqb (fst a) (fst b) && view_eqb (snd a) (snd b).
Definition srow_ok (r : list (list msg) * list nat * list (list (obs * view))) : bool :=
  match r with (work, sched, out) => list_eqb (list_eqb ov_eqb) (run_threads tbl tag_of 24 2500 work sched) out end.
`

// ---------------------------------------------------------------- children

type c20ChildCase struct {
	Mode       string    `json:"mode"` // "children"
	What       string    `json:"what"`
	Tasks      []c20Task `json:"tasks"`
	Goroutines int       `json:"goroutines"`
	Order      []int     `json:"order,omitempty"`
	Procs      int       `json:"procs"`
	Race       bool      `json:"race,omitempty"`
}

func c20TaskName(t c20Task) string {
	k := t.Kind
	if t.Kind == "syn" {
		k = c20Roots[t.Root].String()
	} else if t.Kind == "val" {
		k = "generic-tree-with-extension-tags"
	} else if t.Resp {
		k = "kmip-response"
	} else {
		k = "kmip-request"
	}
	return t.Op + "/" + t.Enc + "/" + k
}

// c20Compare reports the tasks whose result in out differs from the reference.
func c20Compare(c *h.Ctx, what string, cc c20ChildCase, ref, out *c20ChildOut) {
	for g, row := range out.Results {
		for i, r := range row {
			want := ref.Results[0][i]
			if r.Class != want.Class || r.Digest != want.Digest {
				t := cc.Tasks[i]
				// a replayable case: the reference task list cut down to what is needed is
				// not attempted; the whole scenario is small enough
				c.Fail("C20/"+what+"/"+t.Op+"/"+t.Enc, fmt.Sprintf("%s: goroutine %d task %d (%s): %s/%s, sequential fresh process: %s/%s", what, g, i, c20TaskName(t), r.Class, r.Digest, want.Class, want.Digest), cc)
				return
			}
		}
	}
}

func c20BuildTasks(c *h.Ctx, r *h.Rand, corpus []c20CorpusMsg, nk, ns int) []c20Task {
	var tasks []c20Task
	encs := []string{"ttlv", "xml", "json", "text"}
	for i := 0; i < nk; i++ {
		m := corpus[r.Intn(len(corpus))]
		e := encs[r.Intn(4)]
		tasks = append(tasks, c20Task{Kind: "kmip", Op: "enc", Enc: e, Resp: m.Resp, Data: m.TTLV})
		// the same message decoded from one of the three decodable encodings
		de := encs[r.Intn(3)]
		var in []byte
		func() {
			defer func() { _ = recover() }()
			v := c20NewMsg(m.Resp)
			if ttlv.UnmarshalTTLV(m.TTLV, v) == nil {
				in = c20Marshal(de, v)
			}
		}()
		if in != nil {
			tasks = append(tasks, c20Task{Kind: "kmip", Op: "dec", Enc: de, Resp: m.Resp, In: in})
		}
	}
	for i := 0; i < ns/4+2; i++ {
		// wire forms of a c20Gated under an old / a new version, decoded into c20Gated by a new decoder
		tag := 0x540400 + r.Intn(4)
		var in []byte
		if r.Bool() {
			in = c20SynMarshal("ttlv", tag, c20GatedOld{B: c20SafeString(r, 6), F: int32(r.Intn(100))})
		} else {
			in = c20SynMarshal("ttlv", tag, c20GatedNew{A: int32(r.Intn(100)), F: int32(r.Intn(100))})
		}
		tasks = append(tasks, c20Task{Kind: "syn", Op: "dec", Enc: "ttlv", Root: 3, Tag: tag, In: in})
	}
	// generic trees full of extension tags never seen before by the process (vendor extensions, custom
	// attributes, unknown payload fields are written <TTLV tag="0x54...."> / "tag":"0x54...."), decoded into ttlv.Value
	for i := 0; i < ns/8+4; i++ {
		tree := ttlv.Struct{}
		base := 0x541000 + (r.Intn(1<<12))<<6
		for k := 0; k < 48; k++ {
			tree = append(tree, ttlv.Value{Tag: base + k, Value: int32(k)})
		}
		v := ttlv.Value{Tag: 0x540900 + i%16, Value: tree}
		e := encs[1+r.Intn(2)]
		func() {
			defer func() { _ = recover() }()
			tasks = append(tasks, c20Task{Kind: "val", Op: "dec", Enc: e, In: c20Marshal(e, &v)})
		}()
	}
	for i := 0; i < ns; i++ {
		root := r.Intn(len(c20Roots))
		t := c20Task{Kind: "syn", Op: "enc", Enc: encs[r.Intn(4)], Root: root, Seed: r.U64(), Tag: 0x540400 + r.Intn(4)}
		tasks = append(tasks, t)
		if root < len(c20GoodRoots) && r.Chance(1, 2) {
			func() {
				defer func() { _ = recover() }()
				v := c20SynValue(t).Interface()
				in := c20SynMarshal("ttlv", t.Tag, v)
				tasks = append(tasks, c20Task{Kind: "syn", Op: "dec", Enc: "ttlv", Root: root, Seed: t.Seed, Tag: t.Tag, In: in})
			}()
		}
	}
	return tasks
}

// c20Split separates encode and decode tasks: a child exercises one direction from cold.
func c20Split(tasks []c20Task, op string) []c20Task {
	var out []c20Task
	for _, t := range tasks {
		if t.Op == op {
			out = append(out, t)
		}
	}
	return out
}

var c20ChildN int

func c20RunChild(c *h.Ctx, bin string, cc c20ChildCase, full bool) (*c20ChildOut, error) {
	c20ChildN++
	return c20Spawn(bin, c.Out, c20ChildN, c20Spec{Tasks: cc.Tasks, Goroutines: cc.Goroutines, Order: cc.Order, Full: full, Procs: cc.Procs})
}

func c20RaceBinary(c *h.Ctx) (string, string) {
	out := filepath.Join(c.Out, "drive_race")
	cmd := exec.Command("go", "build", "-race", "-tags", "verif", "-o", out, "./cmd/drive")
	cmd.Dir = filepath.Join(c.Verif, "harness")
	cmd.Env = append(os.Environ(), "CGO_ENABLED=1")
	os.Setenv("GORACE", "halt_on_error=1")
	b, err := cmd.CombinedOutput()
	if err != nil {
		return "", "race build unavailable: " + lastLines(string(b), 5)
	}
	return out, ""
}

func c20Children(c *h.Ctx, tt *c20Types, corpus []c20CorpusMsg) ([]string, []any, error) {
	self, err := os.Executable()
	if err != nil {
		return nil, nil, err
	}
	var rows []string
	var rowCases []any
	rounds := c.Pick(4, 12)
	procs := runtime.NumCPU()
	if procs < 4 {
		procs = 4
	}
	raceBin := ""
	if !c.Quick() {
		var note string
		raceBin, note = c20RaceBinary(c)
		if note != "" {
			c.Extra("race_detector", note)
		} else {
			c.Extra("race_detector", "children of the thorough tier also run under -race (supporting evidence only)")
		}
	}
	for round := 0; round < rounds; round++ {
		r := c.Rng.Fork(uint64(200000 + round))
		all := c20BuildTasks(c, r, corpus, c.Pick(60, 150), c.Pick(40, 100))
		for _, op := range []string{"enc", "dec"} {
			tasks := c20Split(all, op)
			base := c20ChildCase{Mode: "children", Tasks: tasks, Procs: procs}
			ref, err := c20RunChild(c, self, base, true)
			if err != nil {
				return nil, nil, fmt.Errorf("reference child: %w", err)
			}
			// the reference must be reproducible, or comparing against it means nothing
			ref2, err := c20RunChild(c, self, base, false)
			if err != nil {
				return nil, nil, fmt.Errorf("reference child: %w", err)
			}
			c20Compare(c, "fresh-process-not-reproducible", base, ref, ref2)
			for _, t := range tasks {
				c.Count("child-task:" + t.Op + "/" + t.Enc + "/" + t.Kind)
			}
			// shuffled order of first use, still sequential
			for k := 0; k < c.Pick(2, 4); k++ {
				cc := base
				cc.What = "order-of-first-use"
				cc.Order = make([]int, len(tasks))
				for i := range cc.Order {
					cc.Order[i] = i
				}
				for i := len(cc.Order) - 1; i > 0; i-- {
					j := r.Intn(i + 1)
					cc.Order[i], cc.Order[j] = cc.Order[j], cc.Order[i]
				}
				out, err := c20RunChild(c, self, cc, false)
				if err != nil {
					c.Fail("C20/child-crash/order-of-first-use/"+op, err.Error(), cc)
					continue
				}
				c20Compare(c, "order-of-first-use", cc, ref, out)
				key, _ := json.Marshal(cc.Order)
				c.Eval(fmt.Sprintf("children:%d:%s:order:%s", round, op, key), true)
			}
			// many goroutines from a cold process
			for _, g := range []int{2, 8, 32}[:c.Pick(2, 3)] {
				cc := base
				cc.What = "concurrent"
				cc.Goroutines = g
				out, err := c20RunChild(c, self, cc, true)
				if err != nil {
					c.Fail("C20/child-crash/concurrent/"+op, err.Error(), cc)
					continue
				}
				c20Compare(c, "concurrent", cc, ref, out)
				c.Eval(fmt.Sprintf("children:%d:%s:goroutines:%d", round, op, g), true)
				c.CountN("child-goroutine-results", g*len(tasks))
				if op == "enc" && g == 8 {
					// what goroutine 0 of the concurrent cold run produced, for the model
					for i, t := range tasks {
						if t.Kind != "syn" || t.Enc != "ttlv" || len(rows) >= c.Pick(150, 1200) {
							continue
						}
						res := out.Results[0][i]
						v := c20SynValue(t)
						if res.Class == "panic" {
							rows = append(rows, fmt.Sprintf("(KBin, [CEncode %d %d (%s)], [OPanic])", tt.id(c20Roots[t.Root]), t.Tag, c20CoqValue(tt, v)))
						} else {
							rows = append(rows, fmt.Sprintf("(KBin, [CEncode %d %d (%s); CBytes], [OOk; OView (VwBytes %s)])", tt.id(c20Roots[t.Root]), t.Tag, c20CoqValue(tt, v), h.Bytes(res.Out)))
						}
						rowCases = append(rowCases, map[string]any{"mode": "child-row", "task": t, "note": "output of goroutine 0 of a concurrent cold child"})
					}
				}
			}
			if raceBin != "" {
				cc := base
				cc.What = "concurrent-race-detector"
				cc.Goroutines = 8
				cc.Race = true
				out, err := c20RunChild(c, raceBin, cc, false)
				if err != nil {
					sig := "C20/child-crash/race-build/" + op
					if strings.Contains(err.Error(), "DATA RACE") {
						sig = "C20/data-race/" + op
					}
					c.Fail(sig, err.Error(), cc)
				} else {
					c20Compare(c, "concurrent-race-build", cc, ref, out)
					c.Count("child:race-detector-run")
				}
			}
		}
	}
	return rows, rowCases, nil
}

func c20ReplayChildren(c *h.Ctx, cc c20ChildCase) {
	self, err := os.Executable()
	if err != nil {
		return
	}
	bin := self
	if cc.Race {
		if rb, note := c20RaceBinary(c); note == "" {
			bin = rb
		}
	}
	base := cc
	base.Goroutines = 0
	base.Order = nil
	ref, err := c20RunChild(c, self, base, false)
	if err != nil {
		c.Fail("C20/child-crash/reference", err.Error(), cc)
		return
	}
	for k := 0; k < 5; k++ {
		out, err := c20RunChild(c, bin, cc, false)
		if err != nil {
			c.Fail("C20/child-crash/"+cc.What, err.Error(), cc)
			return
		}
		c20Compare(c, cc.What, cc, ref, out)
		if c.NumFailures() > 0 {
			return
		}
	}
}
