package main

// C15 — the ID placeholder is scoped to a single request.
//
// A scenario is a set of connections, each carrying a sequence of request batches whose
// handlers are scripted to set / read / clear the placeholder (c09Runner, shared with C09).
// The requests are executed on the real code either by calling BatchExecutor.HandleRequest
// directly (one goroutine per connection) or through a real kmipserver.Server over in-memory
// connections. A cooperative scheduler gates every handler action and every request start, so
// that a schedule (a list of request numbers) imposes one concrete interleaving on the real code.
// The oracle replays each request's own actions and checks that every value it read is the
// value it last wrote itself (empty at the start). The model (Batch.v, run_pool) is evaluated on
// the same scenario under a schedule of its own.

import (
	"context"
	"encoding/json"
	"fmt"
	"io"
	"log/slog"
	"net"
	"strings"
	"sync"
	"time"

	"github.com/ovh/kmip-go"
	"github.com/ovh/kmip-go/kmipserver"
	"github.com/ovh/kmip-go/ttlv"

	"verifharness/internal/h"
)

func init() { h.Register("C15", driveC15) }

type c15Req struct {
	Conn  int       `json:"conn"`
	Order int       `json:"batch_order,omitempty"` // header Batch Order Option: 0 absent, 1 true, 2 false
	Opt   int       `json:"option"`
	Items []c09Item `json:"items"`
}

type c15Case struct {
	Mode   int      `json:"mode"` // 0: HandleRequest called directly; 1: through kmipserver.Server
	Kind   string   `json:"kind"`
	Reqs   []c15Req `json:"requests"` // requests of one connection are executed in list order
	Sched  []int    `json:"schedule"` // request numbers: each entry lets that request perform one gated step
	MSched []int    `json:"model_schedule"`
}

// ---------------------------------------------------------------- cooperative scheduler

type c15Event struct {
	conn     int
	rid      int // request at a gate, -1 when the connection finished
	finished bool
}

type c15Gates struct {
	mu      sync.Mutex
	waiting map[int]chan struct{} // by request
	events  chan c15Event
	connOf  map[int]int
}

func (g *c15Gates) gate(rid int) {
	ch := make(chan struct{})
	g.mu.Lock()
	g.waiting[rid] = ch
	g.mu.Unlock()
	g.events <- c15Event{conn: g.connOf[rid], rid: rid}
	<-ch
}

func (g *c15Gates) release(rid int) bool {
	g.mu.Lock()
	ch := g.waiting[rid]
	delete(g.waiting, rid)
	g.mu.Unlock()
	if ch == nil {
		return false
	}
	close(ch)
	return true
}

type c15Obs struct {
	resp     []*kmip.ResponseMessage
	logs     map[int][]int64
	panicked []string
	err      string
}

type c15Addr struct{}

func (c15Addr) Network() string { return "mem" }
func (c15Addr) String() string  { return "mem" }

type c15Listener struct {
	ch     chan net.Conn
	closed chan struct{}
	once   sync.Once
}

func (l *c15Listener) Accept() (net.Conn, error) {
	select {
	case c := <-l.ch:
		return c, nil
	case <-l.closed:
		return nil, net.ErrClosed
	}
}
func (l *c15Listener) Close() error   { l.once.Do(func() { close(l.closed) }); return nil }
func (l *c15Listener) Addr() net.Addr { return c15Addr{} }

func c15Key(rid, idx int) int { return rid*1000 + idx }

func c15CaseOf(rq *c15Req) *c09Case {
	return &c09Case{Sup: c09Sup, Routes: []int{c09OpGet, c09OpActivate}, Ver: [2]int{1, 4}, Opt: rq.Opt, Order: rq.Order, Count: len(rq.Items), Items: rq.Items}
}

// c15Run executes the scenario on the real code under its schedule.
func c15Run(cs *c15Case) (obs c15Obs) {
	nreq := len(cs.Reqs)
	obs.resp = make([]*kmip.ResponseMessage, nreq)
	obs.panicked = make([]string, nreq)
	runner := newC09Runner()
	gates := &c15Gates{waiting: map[int]chan struct{}{}, events: make(chan c15Event, 4*nreq+8), connOf: map[int]int{}}
	runner.gate = gates.gate
	conns := map[int][]int{}
	var connIDs []int
	for rid, rq := range cs.Reqs {
		if _, ok := conns[rq.Conn]; !ok {
			connIDs = append(connIDs, rq.Conn)
		}
		conns[rq.Conn] = append(conns[rq.Conn], rid)
		gates.connOf[rid] = rq.Conn
		for i := range cs.Reqs[rid].Items {
			cs.Reqs[rid].Items[i].Key = c15Key(rid, i)
		}
	}
	exec := c09Executor(c15CaseOf(&cs.Reqs[0]), runner)
	msgs := make([]*kmip.RequestMessage, nreq)
	for rid := range cs.Reqs {
		msgs[rid] = c09Message(c15CaseOf(&cs.Reqs[rid]), runner)
	}

	var srv *kmipserver.Server
	var lis *c15Listener
	if cs.Mode == 1 {
		lis = &c15Listener{ch: make(chan net.Conn), closed: make(chan struct{})}
		srv = kmipserver.NewServer(lis, exec)
		go func() { _ = srv.Serve() }()
	}
	var wg sync.WaitGroup
	for _, cid := range connIDs {
		cid := cid
		rids := conns[cid]
		wg.Add(1)
		go func() {
			defer wg.Done()
			defer func() { gates.events <- c15Event{conn: cid, rid: -1, finished: true} }()
			var st *ttlv.Stream
			if cs.Mode == 1 {
				a, b := net.Pipe()
				lis.ch <- b
				s := ttlv.NewStream(a, 1<<20)
				st = &s
				defer a.Close()
			}
			connCtx := context.WithValue(context.Background(), c09OtherKey{}, cid)
			for _, rid := range rids {
				gates.gate(rid) // the start of a request is a scheduled step
				func() {
					defer func() {
						if p := recover(); p != nil {
							obs.panicked[rid] = fmt.Sprint(p)
						}
					}()
					if cs.Mode == 1 {
						var resp kmip.ResponseMessage
						if err := st.Send(msgs[rid]); err != nil {
							obs.panicked[rid] = "send: " + err.Error()
							return
						}
						if err := st.Recv(&resp); err != nil {
							obs.panicked[rid] = "recv: " + err.Error()
							return
						}
						obs.resp[rid] = &resp
					} else {
						obs.resp[rid] = exec.HandleRequest(context.WithValue(connCtx, c09ReqKey{}, rid), msgs[rid])
					}
				}()
			}
		}()
	}
	// controller
	blocked := map[int]int{} // conn -> request at its gate
	done := map[int]bool{}
	timeout := time.After(20 * time.Second)
	wait := func(n int) bool {
		for n > 0 {
			select {
			case ev := <-gates.events:
				if ev.finished {
					done[ev.conn] = true
					delete(blocked, ev.conn)
				} else {
					blocked[ev.conn] = ev.rid
				}
				n--
			case <-timeout:
				obs.err = "scheduler timeout"
				return false
			}
		}
		return true
	}
	ok := wait(len(connIDs))
	step := func(rid int) {
		cid := gates.connOf[rid]
		if cur, isBlocked := blocked[cid]; !isBlocked || cur != rid || done[cid] {
			return
		}
		delete(blocked, cid)
		if gates.release(rid) {
			ok = wait(1)
		}
	}
	for _, rid := range cs.Sched {
		if !ok {
			break
		}
		if rid >= 0 && rid < nreq {
			step(rid)
		}
	}
	for ok && len(done) < len(connIDs) {
		progressed := false
		for _, cid := range connIDs {
			if rid, isBlocked := blocked[cid]; isBlocked && ok {
				step(rid)
				progressed = true
			}
		}
		if !progressed {
			ok = wait(1)
		}
	}
	if !ok {
		// unblock everything so goroutines can exit
		gates.mu.Lock()
		for rid, ch := range gates.waiting {
			close(ch)
			delete(gates.waiting, rid)
		}
		gates.mu.Unlock()
		runner.gate = nil
	}
	wg.Wait()
	if srv != nil {
		_ = srv.Shutdown()
	}
	runner.mu.Lock()
	obs.logs = runner.logs
	runner.mu.Unlock()
	return obs
}

func (o *c15Obs) flat(rid int) []int64 {
	if o.panicked[rid] != "" || o.resp[rid] == nil {
		return append([]int64{1}, o.logs[rid]...)
	}
	out := append([]int64{0}, c09EncResponse(o.resp[rid])...)
	out = append(out, -7)
	return append(out, o.logs[rid]...)
}

// ---------------------------------------------------------------- oracle

type c15Ev struct {
	kind int
	key  int
	ctx  int
	s    string
	q    string
	r    *string
}

func c15ParseLog(log []int64) []c15Ev {
	var evs []c15Ev
	i := 0
	str := func() *string {
		n := int(log[i])
		i++
		if n < 0 {
			return nil
		}
		b := make([]byte, n)
		for k := 0; k < n; k++ {
			b[k] = byte(log[i+k])
		}
		i += n
		s := string(b)
		return &s
	}
	for i < len(log) {
		ev := c15Ev{kind: int(log[i]), key: int(log[i+1])}
		i += 2
		switch ev.kind {
		case 2, 4:
			ev.ctx = int(log[i])
			i++
			ev.s = *str()
		case 3:
			ev.ctx = int(log[i])
			i++
			ev.q = *str()
			ev.r = str()
		case 5:
			ev.ctx = int(log[i])
			i++
		case 6:
			out := int(log[i])
			i++
			switch out {
			case 1, 2:
				if log[i] == 0 {
					i++
				} else {
					i += 2
				}
				if out == 2 {
					i = c09SkipErr(log, i)
				}
			case 3:
				pv := log[i]
				i++
				if pv == 1 {
					i = c09SkipErr(log, i)
				}
			}
		}
		evs = append(evs, ev)
	}
	return evs
}

// c15Oracle: every value request rid read is the value it last wrote itself ("" at the start,
// "" after one of its items failed).
func c15Oracle(c *h.Ctx, cs *c15Case, obs *c15Obs, rid int, tag string, caseJSON any) {
	if obs.panicked[rid] != "" || obs.resp[rid] == nil {
		c.Fail("C15/panic/"+tag, fmt.Sprintf("request %d: %s", rid, obs.panicked[rid]), caseJSON)
		return
	}
	resp := obs.resp[rid]
	v := ""
	wrote := false
	last := -1 // position of the item whose handler ran last
	failedAt := func(idx int) bool {
		return idx >= 0 && idx < len(resp.BatchItem) && resp.BatchItem[idx].ResultStatus == kmip.ResultStatusOperationFailed
	}
	for _, e := range c15ParseLog(obs.logs[rid]) {
		if e.kind == 1 {
			// items since the last handler (that one included) that failed, with or without a
			// handler, made handleBatchItemError clear the placeholder
			idx := e.key - rid*1000
			for j := last; j < idx; j++ {
				if failedAt(j) {
					v = ""
				}
			}
			last = idx
			continue
		}
		check := func(got string, what string) {
			want := v
			if e.ctx == 1 {
				want = ""
			}
			if got != want {
				if !wrote && e.ctx == 0 {
					c.Fail("C15/fresh/"+tag, fmt.Sprintf("request %d: %s returned %q before the request stored anything (expected \"\")", rid, what, got), caseJSON)
				} else {
					c.Fail("C15/flow/"+tag, fmt.Sprintf("request %d: %s returned %q, the request's own last store is %q", rid, what, got, want), caseJSON)
				}
			}
		}
		switch e.kind {
		case 2:
			check(e.s, "IdPlaceholder")
		case 3:
			if e.q == "" {
				if e.r == nil {
					check("", "GetIdOrPlaceholder")
				} else {
					check(*e.r, "GetIdOrPlaceholder")
				}
			} else if e.r == nil || *e.r != e.q {
				c.Fail("C15/get-or/"+tag, fmt.Sprintf("request %d: GetIdOrPlaceholder(%q) did not return the given id", rid, e.q), caseJSON)
			}
		case 4:
			if e.ctx == 0 {
				v = e.s
				wrote = true
			}
		case 5:
			if e.ctx == 0 {
				v = ""
			}
		}
	}
}

// ---------------------------------------------------------------- model rows

const c15Prelude = `
Definition treq := (list (Z * script) * ctx * option request)%type.
Definition TR (tbl : list (Z * script)) (parent : ctx) (req : option request) : treq := (tbl, parent, req).
Definition prow := (list treq * list Z * list Z)%type.
Definition PR (reqs : list treq) (sched : list Z) (obs : list Z) : prow := (reqs, sched, obs).
Definition tobs (rq : treq) (t : thread response) : Z :=
  match rq with (_, _, req) =>
    hash_obs match t_prog t with
             | Ret r => observe req (Done r [] (t_log t))
             | Throw pv => observe req (Panicked pv [] (t_log t))
             | _ => [-99]
             end
  end.
Fixpoint tobs_all (rqs : list treq) (ts : list (thread response)) : list Z :=
  match rqs, ts with
  | rq :: rqs', t :: ts' => tobs rq t :: tobs_all rqs' ts'
  | _, _ => []
  end.
Definition prow_ok (r : prow) : bool :=
  match r with (reqs, sched, obs) =>
    let ps := map (fun rq : treq => match rq with (tbl, parent, req) =>
                     handle_request (scripted_config default_sup [10; 18] tbl) parent req end) reqs in
    let st := run_pool (map Z.to_nat sched) ([], map spawn ps) in
    zlist_eqb (tobs_all reqs (snd st)) obs
  end.
`

func c15Row(cs *c15Case, obs *c15Obs) string {
	var reqs []string
	var hashes []string
	for rid := range cs.Reqs {
		rq := &cs.Reqs[rid]
		cc := c15CaseOf(rq)
		req, tbl := c09CoqReq(cc)
		parent := "[COther]"
		if cs.Mode == 1 {
			parent = fmt.Sprintf("[CConn %d]", rq.Conn)
		}
		reqs = append(reqs, fmt.Sprintf("TR %s %s %s", tbl, parent, req))
		hashes = append(hashes, fmt.Sprint(c09Hash(obs.flat(rid))))
	}
	return fmt.Sprintf("PR %s %s %s", h.List(reqs), c09CoqInts(cs.MSched), h.List(hashes))
}

// ---------------------------------------------------------------- generation

func c15Val(rid, n int) string { return fmt.Sprintf("R%d.%d", rid, n) }

// model schedule: a random interleaving followed by enough steps of every thread to finish
func c15ModelSched(r *h.Rand, cs *c15Case) []int {
	n := len(cs.Reqs)
	var s []int
	for k := 0; k < 12*n; k++ {
		s = append(s, r.Intn(n))
	}
	for rid, rq := range cs.Reqs {
		steps := 12
		for _, it := range rq.Items {
			steps += 16
			if it.Script != nil {
				steps += 6 * len(it.Script.Acts)
			}
		}
		for k := 0; k < steps; k++ {
			s = append(s, rid)
		}
	}
	return s
}

func c15RandReq(r *h.Rand, rid, conn int, server bool) c15Req {
	rq := c15Req{Conn: conn}
	switch r.Intn(6) {
	case 0:
		rq.Opt = 2
	case 1:
		rq.Opt = 1
	}
	if r.Chance(1, 3) {
		rq.Order = 1 + r.Intn(2) // the placeholder flows from item to item whatever the client says about the order
	}
	n := 1 + r.Intn(3)
	cnt := 0
	for i := 0; i < n; i++ {
		it := c09Item{Op: c09OpGet, Pl: 2}
		if r.Chance(1, 4) {
			it.Ext = 1 // a non-critical message extension on the item: no bearing on the placeholder
		}
		sc := &c09Script{Out: c09Out{K: 1, RP: -1}}
		na := r.Intn(4)
		for k := 0; k < na; k++ {
			a := c09Act{K: 1 + r.Intn(5)}
			switch a.K {
			case 3:
				a.S = c15Val(rid, cnt)
				cnt++
				if r.Chance(1, 5) {
					a.S = "" // a handler may store the empty identifier: later items then see none
				} else if r.Chance(1, 5) {
					// identifiers are opaque text: surrounding white space is part of the value
					a.S = []string{" " + a.S, a.S + "\n", "\t" + a.S + " ", "  ", a.S + " "}[r.Intn(5)]
				}
			case 5:
				a.S = "+"
			case 2:
				if r.Chance(1, 4) {
					a.S = "given"
				}
			}
			if a.K != 5 && r.Chance(1, 10) {
				a.C = 1
			}
			sc.Acts = append(sc.Acts, a)
		}
		switch r.Intn(8) {
		case 0:
			sc.Out = c09Out{K: 2, RP: -1, E: []int{1, 1}}
		case 1:
			sc.Out = c09Out{K: 3, RP: -1, PV: 2}
		case 2:
			sc.Out = c09Out{K: 2, RP: -1, E: c09RandErr(r)} // typed, wrapped, plain and context errors
		}
		it.Script = sc
		if !server && r.Chance(1, 10) {
			it.Op = c09OpDestroy // unrouted: fails without a handler, clears the placeholder
		}
		rq.Items = append(rq.Items, it)
	}
	return rq
}

func c15RandCase(r *h.Rand, mode int) c15Case {
	cs := c15Case{Mode: mode, Kind: "random"}
	nconn := 1 + r.Intn(3)
	rid := 0
	for cid := 0; cid < nconn; cid++ {
		nr := 1 + r.Intn(3)
		for k := 0; k < nr; k++ {
			cs.Reqs = append(cs.Reqs, c15RandReq(r, rid, cid, mode == 1))
			rid++
		}
	}
	// shuffle the list order of requests of different connections (order within a connection kept)
	n := len(cs.Reqs)
	for k := 0; k < 40*n; k++ {
		cs.Sched = append(cs.Sched, r.Intn(n))
	}
	return cs
}

// every action sequence of length <= 2 over {read, set, clear} for two items, first item
// succeeding or failing, followed on the same connection by a probe request that only reads
func c15ExhaustiveSequential() []c15Case {
	var seqs [][]int
	acts := []int{1, 3, 4}
	seqs = append(seqs, nil)
	for _, a := range acts {
		seqs = append(seqs, []int{a})
	}
	for _, a := range acts {
		for _, b := range acts {
			seqs = append(seqs, []int{a, b})
		}
	}
	mk := func(rid int, seq []int, cnt *int) *c09Script {
		sc := &c09Script{Out: c09Out{K: 1, RP: -1}}
		for _, k := range seq {
			a := c09Act{K: k}
			if k == 3 {
				a.S = c15Val(rid, *cnt)
				*cnt++
			}
			sc.Acts = append(sc.Acts, a)
		}
		return sc
	}
	var out []c15Case
	for _, s0 := range seqs {
		for _, s1 := range seqs {
			for fail := 0; fail < 2; fail++ {
				cnt := 0
				i0 := c09Item{Op: c09OpGet, Pl: 2, Script: mk(0, s0, &cnt)}
				if fail == 1 {
					i0.Script.Out = c09Out{K: 2, RP: -1, E: []int{4}}
				}
				i1 := c09Item{Op: c09OpGet, Pl: 2, Script: mk(0, s1, &cnt)}
				probe := c09Item{Op: c09OpGet, Pl: 2, Script: &c09Script{Acts: []c09Act{{K: 1}, {K: 2}}, Out: c09Out{K: 1, RP: -1}}}
				out = append(out, c15Case{Kind: "sequential", Reqs: []c15Req{
					{Conn: 0, Items: []c09Item{i0, i1}},
					{Conn: 0, Items: []c09Item{probe}},
				}})
			}
		}
	}
	return out
}

// every interleaving of two concurrent single-item requests with two actions each
// (gated steps per request: start, action 1, action 2, return)
func c15ExhaustiveInterleavings() []c15Case {
	pairs := [][2][]int{
		{{3, 1}, {1, 1}}, // A: set, read   B: read, read
		{{3, 1}, {3, 1}}, // both set then read
		{{1, 3}, {1, 3}}, // both read then set
		{{5, 1}, {3, 4}}, // A: copy, read  B: set, clear
		{{3, 2}, {2, 3}}, // with GetIdOrPlaceholder
	}
	var scheds [][]int
	var rec func(cur []int, a, b int)
	rec = func(cur []int, a, b int) {
		if a == 0 && b == 0 {
			scheds = append(scheds, append([]int(nil), cur...))
			return
		}
		if a > 0 {
			rec(append(cur, 0), a-1, b)
		}
		if b > 0 {
			rec(append(cur, 1), a, b-1)
		}
	}
	rec(nil, 4, 4)
	var out []c15Case
	for pi, p := range pairs {
		for si, s := range scheds {
			cs := c15Case{Kind: "interleaving", Sched: s, Mode: (pi + si) % 2}
			for rid := 0; rid < 2; rid++ {
				sc := &c09Script{Out: c09Out{K: 1, RP: -1}}
				for n, k := range p[rid] {
					a := c09Act{K: k}
					if k == 3 {
						a.S = c15Val(rid, n)
					}
					if k == 5 {
						a.S = "+"
					}
					sc.Acts = append(sc.Acts, a)
				}
				cs.Reqs = append(cs.Reqs, c15Req{Conn: rid, Items: []c09Item{{Op: c09OpGet, Pl: 2, Script: sc}}})
			}
			out = append(out, cs)
		}
	}
	return out
}

func c15Key2(cs *c15Case) string {
	b, _ := json.Marshal(cs)
	return string(b)
}

func driveC15(c *h.Ctx) error {
	slog.SetDefault(slog.New(slog.NewTextHandler(io.Discard, nil)))
	nRandom := c.Pick(260, 3000)
	c.Rule(fmt.Sprintf("scenarios = connections x sequences of request batches x handler scripts over {IdPlaceholder, GetIdOrPlaceholder, SetIdPlaceholder, "+
		"ClearIdPlaceholder, read-then-store} with values unique to the storing request, executed on the real code under a cooperative schedule that gates every request start, "+
		"handler action and handler return. (a) exhaustive: all action sequences of length <= 2 over {read, set, clear} for a two-item batch x first item ok/failing, "+
		"followed by a probe request on the same connection (direct HandleRequest and real Server alternating); (b) exhaustive: all 70 interleavings of two concurrent "+
		"requests (4 gated steps each) x 5 script pairs, direct and through kmipserver.Server; (c) %d random scenarios (1-3 connections x 1-3 requests x 1-3 items, "+
		"failing/panicking items, Stop option, bare contexts), half of them through a real kmipserver.Server over in-memory connections. A scenario is non-trivial when "+
		"some request reads after some request stored; distinct by full scenario content", nRandom))
	var cases []c15Case
	nestedOnly := false
	if c.Replay != nil {
		if m, _ := c.Replay["case"].(map[string]any); m != nil && (m["kind"] == "nested-request" || m["kind"] == "middleware") {
			nestedOnly = true
		}
	}
	if c.Replay == nil || nestedOnly {
		c15Nested(c)
		c15Middlewares(c)
	}
	if nestedOnly {
		// nothing else to replay
	} else if c.Replay != nil {
		b, err := json.Marshal(c.Replay["case"])
		if err != nil {
			return err
		}
		var cs c15Case
		if err := json.Unmarshal(b, &cs); err != nil {
			return err
		}
		cases = append(cases, cs)
	} else {
		seq := c15ExhaustiveSequential()
		for i := range seq {
			seq[i].Mode = i % 2
		}
		cases = append(cases, seq...)
		cases = append(cases, c15ExhaustiveInterleavings()...)
		c.Extra("exhaustive_scenarios", len(cases))
		for i := 0; i < nRandom; i++ {
			cases = append(cases, c15RandCase(c.Rng.Fork(uint64(i)), i%2))
		}
		c.Exhaustive(true)
	}
	var rows []string
	for i := range cases {
		cs := &cases[i]
		if cs.MSched == nil {
			cs.MSched = c15ModelSched(c.Rng.Fork(uint64(1000000+i)), cs)
		}
		obs := c15Run(cs)
		if obs.err != "" {
			return fmt.Errorf("scenario %d: %s", i, obs.err)
		}
		tag := "direct"
		if cs.Mode == 1 {
			tag = "server"
		}
		multi := false
		for _, rq := range cs.Reqs {
			if rq.Conn != cs.Reqs[0].Conn {
				multi = true
			}
		}
		if multi {
			tag += "/concurrent"
		} else {
			tag += "/sequential"
		}
		stored, readAfter := false, false
		for rid := range cs.Reqs {
			for _, e := range c15ParseLog(obs.logs[rid]) {
				if e.kind == 4 {
					stored = true
				}
				if (e.kind == 2 || e.kind == 3) && stored {
					readAfter = true
				}
			}
		}
		c.Eval(c15Key2(cs), readAfter)
		c.Count("kind:" + cs.Kind)
		c.Count("mode:" + tag)
		c.CountN("requests", len(cs.Reqs))
		idx := map[string]any{"case": cs}
		var flats [][]int64
		for rid := range cs.Reqs {
			flats = append(flats, obs.flat(rid))
			c15Oracle(c, cs, &obs, rid, tag, cs)
		}
		idx["observed"] = flats
		if i%173 == 5 {
			c.Sample(idx)
		}
		rows = append(rows, c15Row(cs, &obs))
		c.IndexCase("mism_pool", len(rows)-1, idx)
	}
	var sb strings.Builder
	sb.WriteString(c09Prelude)
	sb.WriteString(c15Prelude)
	defs, expr := h.Chunk("prows", "prow", rows, 100)
	sb.WriteString(defs)
	fmt.Fprintf(&sb, "Definition mism_pool := Eval vm_compute in bad_idx prow_ok %s 0.\nPrint mism_pool.\n", expr)
	return c.WriteCases("cases_C15.v", sb.String(), len(rows))
}
