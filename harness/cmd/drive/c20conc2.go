package main

// C20, steady-state concurrency on real KMIP structures holding big integers BY VALUE
// (transparent RSA keys) and pointers (EC scalars): each goroutine's encoding and decoding equals
// what it gets alone (oracle only; the forced-schedule legs cover plan construction).

import (
	"time"
	"net"
	"github.com/ovh/kmip-go/payloads"
	"bytes"
	"fmt"
	"math/big"
	"sync"

	"github.com/ovh/kmip-go"
	"github.com/ovh/kmip-go/ttlv"

	"verifharness/internal/h"
)

func c20ConcurrentKeys(c *h.Ctx) {
	const n = 12
	keys := make([]*kmip.PublicKey, n)
	privs := make([]*kmip.PrivateKey, n)
	for i := range keys {
		mod := new(big.Int).Lsh(big.NewInt(int64(0x1000001+i)), uint(64+8*i))
		mod.Add(mod, big.NewInt(int64(97+i)))
		keys[i] = &kmip.PublicKey{KeyBlock: kmip.KeyBlock{KeyFormatType: kmip.KeyFormatTypeTransparentRSAPublicKey, KeyValue: &kmip.KeyValue{Plain: &kmip.PlainKeyValue{
			KeyMaterial: kmip.KeyMaterial{TransparentRSAPublicKey: &kmip.TransparentRSAPublicKey{Modulus: *mod, PublicExponent: *big.NewInt(int64(65537 + 2*i))}}}}}}
		privs[i] = &kmip.PrivateKey{KeyBlock: kmip.KeyBlock{KeyFormatType: kmip.KeyFormatTypeTransparentECPrivateKey, KeyValue: &kmip.KeyValue{Plain: &kmip.PlainKeyValue{
			KeyMaterial: kmip.KeyMaterial{TransparentECPrivateKey: &kmip.TransparentECPrivateKey{RecommendedCurve: kmip.RecommendedCurveP_256, D: *new(big.Int).Add(mod, big.NewInt(int64(i)))}}}}}}
	}
	// messages of different protocol versions carrying gated elements (each goroutine its own version)
	vers := []kmip.ProtocolVersion{kmip.V1_0, kmip.V1_1, kmip.V1_2, kmip.V1_3, kmip.V1_4}
	msgs := make([]*kmip.RequestMessage, n)
	for i := range msgs {
		t := true
		salt := int32(8 + i)
		msgs[i] = &kmip.RequestMessage{Header: kmip.RequestHeader{ProtocolVersion: vers[i%len(vers)], ClientCorrelationValue: fmt.Sprintf("corr-%d", i), BatchCount: 2},
			BatchItem: []kmip.RequestBatchItem{
				{Operation: kmip.OperationLocate, UniqueBatchItemID: []byte{1}, RequestPayload: &payloads.LocateRequestPayload{MaximumItems: int32(1 + i), OffsetItems: int32(2 + i), ObjectGroupMember: kmip.ObjectGroupMember(1)}},
				{Operation: kmip.OperationEncrypt, UniqueBatchItemID: []byte{2}, RequestPayload: &payloads.EncryptRequestPayload{UniqueIdentifier: "k", Data: []byte{byte(i)},
					CryptographicParameters: &kmip.CryptographicParameters{BlockCipherMode: kmip.BlockCipherModeGCM, RandomIV: &t, TagLength: 16, SaltLength: &salt}}},
			}}
	}
	type enc struct {
		name string
		f    func(any) []byte
	}
	encs := []enc{{"ttlv", func(v any) []byte { return ttlv.MarshalTTLV(v) }}, {"xml", func(v any) []byte { return ttlv.MarshalXML(v) }}, {"json", func(v any) []byte { return ttlv.MarshalJSON(v) }}}
	one := func(i int) (out [][]byte, p string) {
		defer func() {
			if r := recover(); r != nil {
				p = fmt.Sprint(r)
			}
		}()
		for _, e := range encs {
			out = append(out, append([]byte{}, e.f(keys[i])...), append([]byte{}, e.f(privs[i])...), append([]byte{}, e.f(msgs[i])...))
		}
		// decodings of three different types in a row (the per-type decode plans alternate)
		var m2 kmip.RequestMessage
		var p2 kmip.PrivateKey
		if err := ttlv.UnmarshalTTLV(out[2], &m2); err != nil {
			return out, "decode message: " + err.Error()
		}
		if err := ttlv.UnmarshalTTLV(out[1], &p2); err != nil {
			return out, "decode private key: " + err.Error()
		}
		out = append(out, append([]byte{}, ttlv.MarshalTTLV(&m2)...), append([]byte{}, ttlv.MarshalTTLV(&p2)...))
		// and the decoding of the binary form, re-encoded
		var k2 kmip.PublicKey
		if err := ttlv.UnmarshalTTLV(out[0], &k2); err != nil {
			return out, "decode: " + err.Error()
		}
		out = append(out, append([]byte{}, ttlv.MarshalTTLV(&k2)...))
		return out, ""
	}
	want := make([][][]byte, n)
	for i := range keys {
		w, p := one(i)
		if p != "" {
			return
		}
		want[i] = w
	}
	bad := make([]string, n)
	var wg sync.WaitGroup
	for g := 0; g < n; g++ {
		wg.Add(1)
		go func(g int) {
			defer wg.Done()
			for it := 0; it < 300 && bad[g] == ""; it++ {
				got, p := one(g)
				if p != "" {
					bad[g] = "panic / error: " + p
					return
				}
				for k := range got {
					if !bytes.Equal(got[k], want[g][k]) {
						bad[g] = fmt.Sprintf("key %d, form %d: %d bytes differ from the %d bytes obtained alone", g, k, len(got[k]), len(want[g][k]))
						return
					}
				}
			}
		}(g)
	}
	wg.Wait()
	// a message received from a stream stays what it was when later messages arrive on that stream
	func() {
		defer func() { _ = recover() }()
		a, b := net.Pipe()
		defer a.Close()
		defer b.Close()
		go func() {
			st := ttlv.NewStream(b, -1)
			for i := 0; i < 4; i++ {
				if st.Send(msgs[i]) != nil {
					return
				}
			}
		}()
		st := ttlv.NewStream(a, -1)
		var got [4]kmip.RequestMessage
		var first [4][]byte
		for i := 0; i < 4; i++ {
			_ = a.SetReadDeadline(time.Now().Add(3 * time.Second))
			if err := st.Recv(&got[i]); err != nil {
				return
			}
			first[i] = append([]byte{}, ttlv.MarshalTTLV(&got[i])...)
		}
		for i := 0; i < 4; i++ {
			if !bytes.Equal(first[i], ttlv.MarshalTTLV(&got[i])) {
				c.Fail("C20/received-message-changed-by-later-receive", fmt.Sprintf("message %d received from a stream re-encodes differently after the following messages were received on the same stream", i), map[string]any{"mode": "concurrent-keys", "message": i})
				break
			}
		}
	}()
	c.Eval("concurrent-transparent-keys", true)
	c.Count("leg:concurrent-transparent-keys")
	for g, s := range bad {
		if s != "" {
			c.Fail("C20/concurrent-calls-influence-each-other/transparent-keys", s, map[string]any{"mode": "concurrent-keys", "goroutine": g})
			break
		}
	}
}
