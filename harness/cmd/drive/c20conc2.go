package main

// C20, steady-state concurrency on real KMIP structures holding big integers BY VALUE
// (transparent RSA keys) and pointers (EC scalars): each goroutine's encoding and decoding equals
// what it gets alone (oracle only; the forced-schedule legs cover plan construction).

import (
	"bytes"
	"fmt"
	"math/big"
	"sync"

	"github.com/ovh/kmip-go"
	"github.com/ovh/kmip-go/ttlv"

	"verifharness/internal/h"
)

func c20ConcurrentKeys(c *h.Ctx) {
	const n = 12
	keys := make([]*kmip.PublicKey, n)
	privs := make([]*kmip.PrivateKey, n)
	for i := range keys {
		mod := new(big.Int).Lsh(big.NewInt(int64(0x1000001+i)), uint(64+8*i))
		mod.Add(mod, big.NewInt(int64(97+i)))
		keys[i] = &kmip.PublicKey{KeyBlock: kmip.KeyBlock{KeyFormatType: kmip.KeyFormatTypeTransparentRSAPublicKey, KeyValue: &kmip.KeyValue{Plain: &kmip.PlainKeyValue{
			KeyMaterial: kmip.KeyMaterial{TransparentRSAPublicKey: &kmip.TransparentRSAPublicKey{Modulus: *mod, PublicExponent: *big.NewInt(int64(65537 + 2*i))}}}}}}
		privs[i] = &kmip.PrivateKey{KeyBlock: kmip.KeyBlock{KeyFormatType: kmip.KeyFormatTypeTransparentECPrivateKey, KeyValue: &kmip.KeyValue{Plain: &kmip.PlainKeyValue{
			KeyMaterial: kmip.KeyMaterial{TransparentECPrivateKey: &kmip.TransparentECPrivateKey{RecommendedCurve: kmip.RecommendedCurveP_256, D: *new(big.Int).Add(mod, big.NewInt(int64(i)))}}}}}}
	}
	type enc struct {
		name string
		f    func(any) []byte
	}
	encs := []enc{{"ttlv", func(v any) []byte { return ttlv.MarshalTTLV(v) }}, {"xml", func(v any) []byte { return ttlv.MarshalXML(v) }}, {"json", func(v any) []byte { return ttlv.MarshalJSON(v) }}}
	one := func(i int) (out [][]byte, p string) {
		defer func() {
			if r := recover(); r != nil {
				p = fmt.Sprint(r)
			}
		}()
		for _, e := range encs {
			out = append(out, append([]byte{}, e.f(keys[i])...), append([]byte{}, e.f(privs[i])...))
		}
		// and the decoding of the binary form, re-encoded
		var k2 kmip.PublicKey
		if err := ttlv.UnmarshalTTLV(out[0], &k2); err != nil {
			return out, "decode: " + err.Error()
		}
		out = append(out, append([]byte{}, ttlv.MarshalTTLV(&k2)...))
		return out, ""
	}
	want := make([][][]byte, n)
	for i := range keys {
		w, p := one(i)
		if p != "" {
			return
		}
		want[i] = w
	}
	bad := make([]string, n)
	var wg sync.WaitGroup
	for g := 0; g < n; g++ {
		wg.Add(1)
		go func(g int) {
			defer wg.Done()
			for it := 0; it < 300 && bad[g] == ""; it++ {
				got, p := one(g)
				if p != "" {
					bad[g] = "panic / error: " + p
					return
				}
				for k := range got {
					if !bytes.Equal(got[k], want[g][k]) {
						bad[g] = fmt.Sprintf("key %d, form %d: %d bytes differ from the %d bytes obtained alone", g, k, len(got[k]), len(want[g][k]))
						return
					}
				}
			}
		}(g)
	}
	wg.Wait()
	c.Eval("concurrent-transparent-keys", true)
	c.Count("leg:concurrent-transparent-keys")
	for g, s := range bad {
		if s != "" {
			c.Fail("C20/concurrent-calls-influence-each-other/transparent-keys", s, map[string]any{"mode": "concurrent-keys", "goroutine": g})
			break
		}
	}
}
