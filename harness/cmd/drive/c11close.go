package main

// C11, calls racing with a Close that is in progress (oracle only).  The scenario language
// shared with the model places a Close at a trigger point of a call; here it is the other
// way round: Client.Close is parked inside the transport's Close (so everything Close does
// after closing the connection has not happened yet) while other goroutines issue calls.
// Oracle (C11: "after Close nothing of the client is left, a closed client only fails"):
// once Close has returned and things have settled, no connection of the client is open, no
// connection goroutine is left, and a call started after Close returned fails.  The model side
// of these interleavings is covered by the theorems (any interleaving of Close with calls).

import (
	"context"
	"fmt"
	"net"
	"strings"
	"sync"
	"time"

	"github.com/ovh/kmip-go"
	"github.com/ovh/kmip-go/kmipclient"

	"verifharness/internal/clisim"
	"verifharness/internal/h"
)

type holdCloseConn struct {
	net.Conn
	once    sync.Once
	entered chan struct{}
	gate    chan struct{}
}

func (c *holdCloseConn) Close() error {
	c.once.Do(func() {
		close(c.entered)
		<-c.gate
	})
	return c.Conn.Close()
}

type c11CloseRaceObs struct {
	Variant      int    `json:"variant"`
	DuringRes    []int  `json:"results_of_calls_during_close"`
	AfterRes     int    `json:"result_of_call_after_close"`
	OpenConns    int    `json:"open_connections_after_close"`
	LeakRead     int    `json:"leak_readloops"`
	LeakWrite    int    `json:"leak_writeloops"`
	CloseEntered bool   `json:"close_reached_transport"`
	Note         string `json:"note,omitempty"`
}

// variant: number of calls issued while Close is parked (1..3) and whether a healthy call precedes
func c11CloseRaceRun(variant int) (o c11CloseRaceObs) {
	o.Variant = variant
	ncalls := 1 + variant%3
	warm := variant/3%2 == 0
	w := clisim.NewWorld(nil)
	base1, base2 := clisim.ClientGoroutines()
	first := &holdCloseConn{entered: make(chan struct{}), gate: make(chan struct{})}
	ndial := 0
	var mu sync.Mutex
	dial := func(ctx context.Context) (net.Conn, error) {
		conn, err := w.Dial()
		if err != nil {
			return nil, err
		}
		mu.Lock()
		defer mu.Unlock()
		ndial++
		if ndial == 1 {
			first.Conn = conn
			return first, nil
		}
		return conn, nil
	}
	client, err := kmipclient.DialContext(context.Background(), "mem", kmipclient.WithDialerUnsafe(dial), kmipclient.EnforceVersion(kmip.V1_4))
	if err != nil || client == nil {
		o.Note = fmt.Sprint("dial failed: ", err)
		close(first.gate)
		return o
	}
	if warm {
		ctx, cancel := context.WithTimeout(context.Background(), 2*time.Second)
		ccDoCall(ctx, client, "warm")
		cancel()
	}
	closeDone := make(chan struct{})
	go func() {
		defer close(closeDone)
		defer func() { _ = recover() }()
		_ = client.Close()
	}()
	select {
	case <-first.entered:
		o.CloseEntered = true
	case <-time.After(2 * time.Second):
	}
	var wg sync.WaitGroup
	res := make([]int, ncalls)
	for i := 0; i < ncalls; i++ {
		wg.Add(1)
		go func(i int) {
			defer wg.Done()
			ctx, cancel := context.WithTimeout(context.Background(), 2*time.Second)
			defer cancel()
			res[i] = ccDoCall(ctx, client, fmt.Sprintf("during-%d", i)).res
		}(i)
	}
	// the calls carry a 2 s deadline: they return promptly whatever Close is doing
	callsDone := make(chan struct{})
	go func() { wg.Wait(); close(callsDone) }()
	stuck := false
	select {
	case <-callsDone:
	case <-time.After(5 * time.Second):
		stuck = true
	}
	o.DuringRes = append([]int{}, res...)
	close(first.gate)
	<-callsDone
	select {
	case <-closeDone:
	case <-time.After(3 * time.Second):
		o.Note = "Close did not return"
	}
	if stuck {
		o.Note = "calls issued while Close was inside the transport's Close did not return within 5 s although their contexts expired after 2 s (they returned once Close was let go)"
	}
	ctx, cancel := context.WithTimeout(context.Background(), 2*time.Second)
	o.AfterRes = ccDoCall(ctx, client, "after").res
	cancel()
	w.Settle(ccSettleTimeout)
	o.LeakRead, o.LeakWrite = clisim.WaitClientGoroutines(base1, base2, 1*time.Second)
	o.OpenConns = w.OpenConns()
	if o.OpenConns > 0 || o.LeakRead > 0 || o.LeakWrite > 0 {
		// do not let this scenario's leftovers count against the next ones
		w.ReleaseAll()
	}
	return o
}

func c11CloseRace(c *h.Ctx) {
	variants := []int{0, 1, 2, 3, 4, 5}
	if c.Replay != nil {
		cs, _ := c.Replay["case"].(map[string]any)
		v, _ := cs["variant"].(float64)
		variants = []int{int(v), int(v), int(v)}
	}
	for _, v := range variants {
		o := c11CloseRaceRun(v)
		c.Eval(fmt.Sprintf("close-race:%d", v), true)
		c.Count("family:close-race")
		cj := map[string]any{"leg": "close-race", "variant": v, "observed": o,
			"what": fmt.Sprintf("Client.Close parked inside the transport's Close while %d call(s) are issued%s, then released", 1+v%3, map[bool]string{true: " (after a healthy call)", false: ""}[v/3%2 == 0])}
		if o.Note != "" && !o.CloseEntered {
			continue
		}
		if o.OpenConns > 0 || o.LeakRead > 0 || o.LeakWrite > 0 {
			c.Fail("C11/closed-client-keeps-connection", fmt.Sprintf("after Close returned: %d open connection(s), %d readloop / %d writeloop goroutine(s) left (a call issued while Close was in progress reconnected the client)", o.OpenConns, o.LeakRead, o.LeakWrite), cj)
		}
		if o.AfterRes == ccROk {
			c.Fail("C11/closed-client-call-succeeds", "a call started after Close returned succeeded", cj)
		}
		if o.Note == "Close did not return" {
			c.Fail("C11/close-hangs", "Client.Close did not return within 3 s after the transport's Close was released", cj)
		}
		if strings.HasPrefix(o.Note, "calls issued while Close") {
			c.Fail("C11/hang/call-during-close", o.Note, cj)
		}
	}
}
