package main

// Operation-level correspondence for C02: scripts of reader operations issued through the
// public ttlv.Decoder API on arbitrary bytes, compared with Reader.run_script.

import (
	"fmt"
	"math/big"
	"strings"

	"github.com/ovh/kmip-go/ttlv"

	"verifharness/internal/h"
	"verifharness/internal/tv"
)

type c02op struct {
	kind string // tag type next int long big enum bool text bytes date intv struct
	tag  int
	body []c02op
}

func (o c02op) coq() string {
	switch o.kind {
	case "tag":
		return "OTag"
	case "type":
		return "OType"
	case "next":
		return "ONext"
	case "struct":
		bs := make([]string, len(o.body))
		for i, b := range o.body {
			bs[i] = b.coq()
		}
		return fmt.Sprintf("OStruct %d %s", o.tag, h.List(bs))
	}
	name := map[string]string{"int": "OInt", "long": "OLong", "big": "OBig", "enum": "OEnum", "bool": "OBool", "text": "OText", "bytes": "OBytes", "date": "ODate", "intv": "OIntv"}[o.kind]
	return fmt.Sprintf("%s %d", name, o.tag)
}

func c02opsCount(ops []c02op) int {
	n := 0
	for _, o := range ops {
		n += 1 + c02opsCount(o.body)
	}
	return n
}

var c02kindOfNode = map[int]string{tv.KInt: "int", tv.KLong: "long", tv.KBig: "big", tv.KEnum: "enum", tv.KBool: "bool", tv.KText: "text", tv.KBytes: "bytes", tv.KDate: "date", tv.KIntv: "intv"}
var c02scalarKinds = []string{"int", "long", "big", "enum", "bool", "text", "bytes", "date", "intv"}

// c02ScriptFor derives a script that mostly follows the tree (so that reads succeed), with
// deviations: wrong tag, wrong operation kind, peeks, extra Next, early end.
func c02ScriptFor(r *h.Rand, nodes []tv.Node, depth int) []c02op {
	var ops []c02op
	for _, n := range nodes {
		if r.Chance(1, 5) {
			ops = append(ops, c02op{kind: "tag"})
		}
		if r.Chance(1, 7) {
			ops = append(ops, c02op{kind: "type"})
		}
		tag := n.Tag
		if r.Chance(1, 12) {
			tag ^= 1 << r.Intn(24)
		}
		switch {
		case r.Chance(1, 15):
			ops = append(ops, c02op{kind: "next"})
		case n.Kind == tv.KStruct:
			if r.Chance(1, 12) {
				ops = append(ops, c02op{kind: c02scalarKinds[r.Intn(len(c02scalarKinds))], tag: tag})
			} else {
				kids := n.Kids
				if r.Chance(1, 4) && len(kids) > 0 {
					kids = kids[:r.Intn(len(kids))] // leave children unread
				}
				ops = append(ops, c02op{kind: "struct", tag: tag, body: c02ScriptFor(r, kids, depth+1)})
			}
		default:
			k := c02kindOfNode[n.Kind]
			if r.Chance(1, 10) {
				k = c02scalarKinds[r.Intn(len(c02scalarKinds))]
			}
			if r.Chance(1, 25) {
				ops = append(ops, c02op{kind: "struct", tag: tag})
			} else {
				ops = append(ops, c02op{kind: k, tag: tag})
			}
		}
	}
	if r.Chance(1, 3) {
		ops = append(ops, c02op{kind: []string{"tag", "type", "next", "int", "big", "struct"}[r.Intn(6)], tag: 0x420001})
	}
	return ops
}

func zbigs(v *big.Int) string {
	if v.Sign() < 0 {
		return "(" + v.String() + ")"
	}
	return v.String()
}

// c02RunOps interprets the script on the real decoder; returns the outputs as Coq terms and
// whether the script may continue.
func c02RunOps(d *ttlv.Decoder, ops []c02op, out *[]string) bool {
	for _, o := range ops {
		var err error
		switch o.kind {
		case "tag":
			*out = append(*out, fmt.Sprintf("RNum %d", d.Tag()))
			continue
		case "type":
			*out = append(*out, fmt.Sprintf("RNum %d", int(d.Type())))
			continue
		case "next":
			if err = d.Next(); err == nil {
				*out = append(*out, "RUnit")
			}
		case "int":
			var v int32
			if v, err = d.Integer(o.tag); err == nil {
				*out = append(*out, "RNum "+h.Z(int64(v)))
			}
		case "long":
			var v int64
			if v, err = d.LongInteger(o.tag); err == nil {
				*out = append(*out, "RNum "+h.Z(v))
			}
		case "big":
			var v *big.Int
			if v, err = d.BigInteger(o.tag); err == nil {
				*out = append(*out, "RNum "+zbigs(v))
			}
		case "enum":
			var v uint32
			if v, err = d.Enum(0, o.tag); err == nil {
				*out = append(*out, fmt.Sprintf("RNum %d", v))
			}
		case "bool":
			var v bool
			if v, err = d.Bool(o.tag); err == nil {
				*out = append(*out, "RBool "+h.Bool(v))
			}
		case "text":
			var v string
			if v, err = d.TextString(o.tag); err == nil {
				*out = append(*out, "RStr "+h.HexBytes([]byte(v)))
			}
		case "bytes":
			var v []byte
			if v, err = d.ByteString(o.tag); err == nil {
				*out = append(*out, "RStr "+h.HexBytes(v))
			}
		case "date":
			if v, e := d.DateTime(o.tag); e == nil {
				*out = append(*out, "RNum "+h.Z(v.Unix()))
			} else {
				err = e
			}
		case "intv":
			if v, e := d.Interval(o.tag); e == nil {
				*out = append(*out, fmt.Sprintf("RNum %d", int64(v.Seconds())))
			} else {
				err = e
			}
		case "struct":
			opened := false
			innerOK := true
			err = d.Struct(o.tag, func(sd *ttlv.Decoder) error {
				opened = true
				*out = append(*out, "ROpen")
				if !c02RunOps(sd, o.body, out) {
					innerOK = false
					return fmt.Errorf("inner script stopped")
				}
				return nil
			})
			if opened && !innerOK {
				return false // the inner script already recorded its RErr / RPanic
			}
			if err == nil {
				*out = append(*out, "RClose")
			}
		}
		if err != nil {
			*out = append(*out, "RErr")
			return false
		}
	}
	return true
}

// c02Script runs one script on b and returns the Coq row, or a panic description.
func c02Script(b []byte, ops []c02op) (row string, panicked string) {
	var outs []string
	func() {
		defer func() {
			if r := recover(); r != nil {
				panicked = fmt.Sprint(r)
				outs = append(outs, "RPanic")
			}
		}()
		d, err := ttlv.NewTTLVDecoder(b)
		if err != nil {
			outs = append(outs, "RErr")
			return
		}
		c02RunOps(&d, ops, &outs)
	}()
	cops := make([]string, len(ops))
	for i, o := range ops {
		cops[i] = o.coq()
	}
	fuel := 2*c02opsCount(ops) + 8
	return fmt.Sprintf("(%d, %s, %s, %s)", fuel, h.List(cops), h.HexBytes(b), h.List(outs)), panicked
}

// c02OpsRows generates the operation-level cases.
func c02OpsRows(c *h.Ctx, n int) []string {
	var rows []string
	for i := 0; i < n; i++ {
		r := c.Rng.Fork(uint64(7000000 + i))
		var nodes []tv.Node
		for k := 0; k < 1+r.Intn(3); k++ {
			nodes = append(nodes, tv.Gen(r, 1+i%3))
		}
		var b []byte
		for _, nd := range nodes {
			b = append(b, tv.SpecGen(nd, r)...)
		}
		mut := "valid"
		if r.Chance(1, 2) {
			b, mut = tv.Mutate(r, b)
		}
		if len(b) > 500 {
			continue
		}
		ops := c02ScriptFor(r, nodes, 0)
		row, p := c02Script(b, ops)
		cj := map[string]any{"input_hex": fmt.Sprintf("%x", b), "script": strings.Join(func() []string {
			s := make([]string, len(ops))
			for i, o := range ops {
				s[i] = o.coq()
			}
			return s
		}(), "; "), "mutation": mut}
		c.Count("script-input:" + mut)
		c.Eval("ops/"+row, true)
		if p != "" {
			c.Fail("C02/bin/reader-op-panics", "a ttlv.Decoder operation panicked: "+p, cj)
		}
		rows = append(rows, row)
		c.IndexCase("mism_ops", len(rows)-1, cj)
	}
	return rows
}
