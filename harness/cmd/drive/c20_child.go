package main

// C20: fresh child processes (cold plan caches). A child runs a list of tasks either
// sequentially (the reference) or on many goroutines released together, and reports one
// digest per (goroutine, task).

import (
	"crypto/sha256"
	"encoding/hex"
	"encoding/json"
	"encoding/xml"
	"fmt"
	"os"
	"os/exec"
	"path/filepath"
	"reflect"
	"regexp"
	"runtime"
	"sort"
	"strings"
	"sync"
	"time"

	"github.com/ovh/kmip-go"
	"github.com/ovh/kmip-go/ttlv"

	"verifharness/internal/h"
)

// ---------------------------------------------------------------- corpus (parent only)

type c20Suite struct {
	msgs []any // *kmip.RequestMessage, *kmip.ResponseMessage alternating
}

func (ts *c20Suite) UnmarshalXML(d *xml.Decoder, start xml.StartElement) error {
	dec, err := ttlv.NewXMLFromDecoder(d)
	if err != nil {
		return err
	}
	for dec.Tag() == kmip.TagRequestMessage {
		req := &kmip.RequestMessage{}
		if err := dec.TagAny(kmip.TagRequestMessage, req); err != nil {
			return err
		}
		resp := &kmip.ResponseMessage{}
		if err := dec.TagAny(kmip.TagResponseMessage, resp); err != nil {
			return err
		}
		ts.msgs = append(ts.msgs, req, resp)
	}
	return nil
}

var (
	c20NowRe = regexp.MustCompile(`"\$NOW((\-|\+)\d+)?"`)
	c20VarRe = regexp.MustCompile(`"\$[A-Za-z0-9_]+"`)
)

type c20CorpusMsg struct {
	File string
	Resp bool
	TTLV []byte
}

// c20LoadCorpus decodes the OASIS test vectors shipped with the library (placeholders
// replaced by fixed values) and keeps each message as binary TTLV.
func c20LoadCorpus(repo string) (out []c20CorpusMsg, skipped int) {
	files, _ := filepath.Glob(filepath.Join(repo, "kmiptest", "testdata", "*", "*.xml"))
	sort.Strings(files)
	base := time.Date(2024, 1, 2, 3, 4, 5, 0, time.UTC)
	for _, f := range files {
		data, err := os.ReadFile(f)
		if err != nil {
			skipped++
			continue
		}
		data = c20NowRe.ReplaceAllFunc(data, func(b []byte) []byte {
			var off int64
			fmt.Sscanf(string(b[5:len(b)-1]), "%d", &off)
			return []byte(`"` + base.Add(time.Duration(off)*time.Second).Format(time.RFC3339) + `"`)
		})
		data = c20VarRe.ReplaceAll(data, []byte(`"DEADBEEFCAFE"`))
		var ts c20Suite
		ok := func() (ok bool) {
			defer func() {
				if recover() != nil {
					ok = false
				}
			}()
			return xml.Unmarshal(data, &ts) == nil
		}()
		if !ok {
			skipped++
			continue
		}
		rel, _ := filepath.Rel(filepath.Join(repo, "kmiptest", "testdata"), f)
		for _, m := range ts.msgs {
			func() {
				defer func() { _ = recover() }()
				_, isResp := m.(*kmip.ResponseMessage)
				out = append(out, c20CorpusMsg{File: rel, Resp: isResp, TTLV: ttlv.MarshalTTLV(m)})
			}()
		}
	}
	return out, skipped
}

// ---------------------------------------------------------------- tasks

// A task is one codec call whose result is digested.
type c20Task struct {
	Kind string `json:"kind"` // "kmip" (message of the corpus), "syn" (harness type) or "val" (generic tree decoded into ttlv.Value)
	Op   string `json:"op"`   // "enc" or "dec"
	Enc  string `json:"enc"`  // ttlv | xml | json | text
	Resp bool   `json:"resp,omitempty"`
	Data []byte `json:"data,omitempty"` // kmip: the message in binary TTLV
	In   []byte `json:"in,omitempty"`   // dec: the bytes to decode (in encoding Enc)
	Root int    `json:"root,omitempty"` // syn: index in c20Roots
	Seed uint64 `json:"seed,omitempty,string"` // syn: value seed
	Tag  int    `json:"tag,omitempty"`
}

type c20Spec struct {
	Tasks      []c20Task `json:"tasks"`
	Goroutines int       `json:"goroutines"` // 0: sequential, in Order
	Order      []int     `json:"order"`      // sequential order / per-goroutine rotation base
	Full       bool      `json:"full"`       // report outputs, not only digests
	Procs      int       `json:"procs"`
}

type c20TaskResult struct {
	Class  string `json:"class"` // ok | err | panic
	Digest string `json:"digest"`
	Out    []byte `json:"out,omitempty"`
}

type c20ChildOut struct {
	Results [][]c20TaskResult `json:"results"` // [goroutine][task index]
	EncKeys int               `json:"enc_keys"`
	DecKeys int               `json:"dec_keys"`
}

func c20NewMsg(resp bool) any {
	if resp {
		return &kmip.ResponseMessage{}
	}
	return &kmip.RequestMessage{}
}

func c20Marshal(enc string, v any) []byte {
	switch enc {
	case "xml":
		return ttlv.MarshalXML(v)
	case "json":
		return ttlv.MarshalJSON(v)
	case "text":
		return ttlv.MarshalText(v)
	}
	return ttlv.MarshalTTLV(v)
}

func c20Unmarshal(enc string, data []byte, ptr any) error {
	switch enc {
	case "xml":
		return ttlv.UnmarshalXML(data, ptr)
	case "json":
		return ttlv.UnmarshalJSON(data, ptr)
	}
	return ttlv.UnmarshalTTLV(data, ptr)
}

func c20SynValue(t c20Task) reflect.Value {
	return c20Gen(h.NewRand(t.Seed), c20Roots[t.Root], 3, true)
}

func c20SynMarshal(enc string, tag int, v any) []byte {
	var e ttlv.Encoder
	switch enc {
	case "xml":
		e = ttlv.NewXMLEncoder()
	case "json":
		e = ttlv.NewJSONEncoder()
	case "text":
		e = ttlv.NewTextEncoder()
	default:
		e = ttlv.NewTTLVEncoder()
	}
	e.TagAny(tag, v)
	return append([]byte(nil), e.Bytes()...)
}

// c20Prepared is what a task needs before the measured phase (built without touching
// the cache that the measured phase exercises).
type c20Prepared struct {
	val any // enc: the value to encode
}

// c20Prepare: encode tasks on corpus messages need the Go value: decoding it fills the
// decode cache only, the encode cache stays cold (and conversely).
func c20Prepare(t c20Task) c20Prepared {
	if t.Op == "enc" {
		if t.Kind == "kmip" {
			m := c20NewMsg(t.Resp)
			if err := ttlv.UnmarshalTTLV(t.Data, m); err != nil {
				panic("c20 child: corpus message does not decode: " + err.Error())
			}
			return c20Prepared{val: m}
		}
		return c20Prepared{val: c20SynValue(t).Interface()}
	}
	return c20Prepared{}
}

type c20Raw struct {
	class string
	out   []byte
	val   any // dec: decoded value, re-encoded after the measured phase
}

// c20Exec is the measured call.
func c20Exec(t c20Task, p c20Prepared) (r c20Raw) {
	defer func() {
		if x := recover(); x != nil {
			r = c20Raw{class: "panic"}
		}
	}()
	if t.Op == "enc" {
		if t.Kind == "kmip" {
			return c20Raw{class: "ok", out: c20Marshal(t.Enc, p.val)}
		}
		return c20Raw{class: "ok", out: c20SynMarshal(t.Enc, t.Tag, p.val)}
	}
	var ptr any
	switch t.Kind {
	case "kmip":
		ptr = c20NewMsg(t.Resp)
	case "val":
		ptr = &ttlv.Value{}
	default:
		ptr = reflect.New(c20Roots[t.Root]).Interface()
	}
	in := append([]byte(nil), t.In...)
	var err error
	if t.Kind == "kmip" || t.Kind == "val" {
		err = c20Unmarshal(t.Enc, in, ptr)
	} else {
		err = c20SynUnmarshal(t.Enc, t.Tag, in, ptr)
	}
	if err != nil {
		return c20Raw{class: "err"}
	}
	return c20Raw{class: "ok", val: ptr}
}

func c20SynUnmarshal(enc string, tag int, data []byte, ptr any) error {
	var d ttlv.Decoder
	var err error
	switch enc {
	case "xml":
		d, err = ttlv.NewXMLDecoder(data)
	case "json":
		d, err = ttlv.NewJSONDecoder(data)
	default:
		d, err = ttlv.NewTTLVDecoder(data)
	}
	if err != nil {
		return err
	}
	return d.TagAny(tag, ptr)
}

// c20Finish turns a decoded value into bytes (after the measured phase).
func c20Finish(t c20Task, r c20Raw, full bool) (res c20TaskResult) {
	res.Class = r.class
	out := r.out
	if t.Op == "dec" && r.class == "ok" {
		func() {
			defer func() {
				if recover() != nil {
					res.Class = "panic-reencode"
				}
			}()
			if t.Kind == "kmip" || t.Kind == "val" {
				out = ttlv.MarshalTTLV(r.val)
			} else {
				out = c20SynMarshal("ttlv", t.Tag, reflect.ValueOf(r.val).Elem().Interface())
			}
		}()
	}
	sum := sha256.Sum256(out)
	res.Digest = hex.EncodeToString(sum[:8])
	if full {
		res.Out = out
	}
	return res
}

func c20ChildMain(specPath, outPath string) {
	c20Register()
	b, err := os.ReadFile(specPath)
	if err != nil {
		fmt.Fprintln(os.Stderr, "c20 child:", err)
		os.Exit(4)
	}
	var spec c20Spec
	if err := json.Unmarshal(b, &spec); err != nil {
		fmt.Fprintln(os.Stderr, "c20 child:", err)
		os.Exit(4)
	}
	if spec.Procs > 0 {
		runtime.GOMAXPROCS(spec.Procs)
	}
	prep := make([]c20Prepared, len(spec.Tasks))
	for i, t := range spec.Tasks {
		prep[i] = c20Prepare(t)
	}
	var out c20ChildOut
	if spec.Goroutines == 0 {
		raws := make([]c20Raw, len(spec.Tasks))
		order := spec.Order
		if len(order) == 0 {
			for i := range spec.Tasks {
				order = append(order, i)
			}
		}
		for _, i := range order {
			raws[i] = c20Exec(spec.Tasks[i], prep[i])
		}
		row := make([]c20TaskResult, len(spec.Tasks))
		for i := range spec.Tasks {
			row[i] = c20Finish(spec.Tasks[i], raws[i], spec.Full)
		}
		out.Results = [][]c20TaskResult{row}
	} else {
		n := len(spec.Tasks)
		raws := make([][]c20Raw, spec.Goroutines)
		start := make(chan struct{})
		var wg sync.WaitGroup
		for g := 0; g < spec.Goroutines; g++ {
			raws[g] = make([]c20Raw, n)
			wg.Add(1)
			go func(g int) {
				defer wg.Done()
				<-start
				// even goroutines all walk the tasks in the same order (same types at the
				// same time); odd ones start elsewhere (different types at the same time)
				off := 0
				if g%2 == 1 && n > 0 {
					off = (g * 7919) % n
				}
				for k := 0; k < n; k++ {
					i := (k + off) % n
					raws[g][i] = c20Exec(spec.Tasks[i], prep[i])
				}
			}(g)
		}
		close(start)
		wg.Wait()
		for g := 0; g < spec.Goroutines; g++ {
			row := make([]c20TaskResult, n)
			for i := range spec.Tasks {
				row[i] = c20Finish(spec.Tasks[i], raws[g][i], spec.Full && g == 0)
			}
			out.Results = append(out.Results, row)
		}
	}
	out.EncKeys, out.DecKeys = ttlv.VerifCacheLens()
	ob, _ := json.Marshal(out)
	if err := os.WriteFile(outPath, ob, 0o644); err != nil {
		fmt.Fprintln(os.Stderr, "c20 child:", err)
		os.Exit(4)
	}
}

// c20Spawn runs one child process of the given binary on a spec.
func c20Spawn(bin, dir string, n int, spec c20Spec) (*c20ChildOut, error) {
	sp := filepath.Join(dir, fmt.Sprintf("child_%d_spec.json", n))
	op := filepath.Join(dir, fmt.Sprintf("child_%d_out.json", n))
	b, _ := json.Marshal(spec)
	if err := os.WriteFile(sp, b, 0o644); err != nil {
		return nil, err
	}
	cmd := exec.Command(bin, "C20", "--out", dir)
	cmd.Env = append(os.Environ(), "C20_CHILD_SPEC="+sp, "C20_CHILD_OUT="+op)
	outb, err := cmd.CombinedOutput()
	if err != nil {
		if i := strings.Index(string(outb), "WARNING: DATA RACE"); i >= 0 {
			rep := string(outb)[i:]
			if len(rep) > 2500 {
				rep = rep[:2500]
			}
			return nil, fmt.Errorf("DATA RACE reported by the race detector in a child process: %s", rep)
		}
		for _, key := range []string{"fatal error:", "panic:"} {
			if i := strings.Index(string(outb), key); i >= 0 {
				rep := string(outb)[i:]
				if len(rep) > 1500 {
					rep = rep[:1500]
				}
				return nil, fmt.Errorf("child process died: %s", rep)
			}
		}
		return nil, fmt.Errorf("child failed: %v: %s", err, lastLines(string(outb), 30))
	}
	rb, err := os.ReadFile(op)
	if err != nil {
		return nil, err
	}
	var out c20ChildOut
	if err := json.Unmarshal(rb, &out); err != nil {
		return nil, err
	}
	_ = os.Remove(sp)
	_ = os.Remove(op)
	return &out, nil
}

func lastLines(s string, n int) string {
	l := strings.Split(strings.TrimSpace(s), "\n")
	if len(l) > n {
		l = l[len(l)-n:]
	}
	return strings.Join(l, "\n")
}
