package main

// C19, middlewares registered between requests (oracle only): "middlewares run in registration order" holds
// of the registrations made so far, also those made after the executor has already served requests (the
// library's own tests configure the executor after client and server have negotiated a version).  A request,
// then Use / BatchItemUse of a further middleware, then a request: the second one goes through both, in
// order, the core innermost, each continuation invocation running the remainder once.

import (
	"context"
	"fmt"
	"strings"

	"github.com/ovh/kmip-go"
	"github.com/ovh/kmip-go/kmipserver"
	"github.com/ovh/kmip-go/payloads"

	"verifharness/internal/h"
)

func c19LateRegistration(c *h.Ctx) {
	var trace []string
	exec := kmipserver.NewBatchExecutor()
	exec.Route(kmip.OperationActivate, c09HandlerFunc(func(_ context.Context, pl kmip.OperationPayload) (kmip.OperationPayload, error) {
		trace = append(trace, "core")
		return &payloads.ActivateResponsePayload{UniqueIdentifier: pl.(*payloads.ActivateRequestPayload).UniqueIdentifier}, nil
	}))
	mw := func(name string, times int) kmipserver.Middleware {
		return func(next kmipserver.Next, ctx context.Context, msg *kmip.RequestMessage) (resp *kmip.ResponseMessage, err error) {
			trace = append(trace, name+">")
			for i := 0; i < times; i++ {
				resp, err = next(ctx, msg)
			}
			trace = append(trace, "<"+name)
			return resp, err
		}
	}
	imw := func(name string, times int) kmipserver.BatchItemMiddleware {
		return func(next kmipserver.BatchItemNext, ctx context.Context, bi *kmip.RequestBatchItem) (resp *kmip.ResponseBatchItem, err error) {
			trace = append(trace, name+">")
			for i := 0; i < times; i++ {
				resp, err = next(ctx, bi)
			}
			trace = append(trace, "<"+name)
			return resp, err
		}
	}
	run := func() string {
		trace = nil
		msg := kmip.NewRequestMessage(kmip.V1_4, &payloads.ActivateRequestPayload{UniqueIdentifier: "x"})
		func() {
			defer func() {
				if p := recover(); p != nil {
					trace = append(trace, "panic:"+fmt.Sprint(p))
				}
			}()
			_ = exec.HandleRequest(context.Background(), &msg)
		}()
		return strings.Join(trace, " ")
	}
	steps := []struct {
		what string
		reg  func()
		want string
	}{
		{"no middleware", func() {}, "core"},
		{"Use(A)", func() { exec.Use(mw("A", 1)) }, "A> core <A"},
		{"Use(B retrying twice) after a request was served", func() { exec.Use(mw("B", 2)) }, "A> B> core core <B <A"},
		{"BatchItemUse(I) after requests were served", func() { exec.BatchItemUse(imw("I", 1)) }, "A> B> I> core <I I> core <I <B <A"},
		{"BatchItemUse(J retrying twice)", func() { exec.BatchItemUse(imw("J", 2)) }, "A> B> I> J> core core <J <I I> J> core core <J <I <B <A"},
	}
	for i, st := range steps {
		st.reg()
		got := run()
		c.Eval(fmt.Sprintf("late-registration/%d", i), true)
		c.Count("late-registration")
		if got != st.want {
			c.Fail("C19/server/late-registration", fmt.Sprintf("after %s the request ran [%s], expected [%s]", st.what, got, st.want), map[string]any{"kind": "late-registration", "step": i})
			return
		}
	}
}
