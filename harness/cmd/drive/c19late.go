package main

// C19, middlewares registered between requests (oracle only): "middlewares run in registration order" holds
// of the registrations made so far, also those made after the executor has already served requests (the
// library's own tests configure the executor after client and server have negotiated a version).  A request,
// then Use / BatchItemUse of a further middleware, then a request: the second one goes through both, in
// order, the core innermost, each continuation invocation running the remainder once.

import (
	"context"
	"fmt"
	"net"
	"strings"
	"sync"
	"time"

	"github.com/ovh/kmip-go"
	"github.com/ovh/kmip-go/kmipclient"
	"github.com/ovh/kmip-go/kmipserver"
	"github.com/ovh/kmip-go/payloads"
	"github.com/ovh/kmip-go/ttlv"

	"verifharness/internal/h"
)

func c19LateRegistration(c *h.Ctx) {
	var trace []string
	exec := kmipserver.NewBatchExecutor()
	exec.Route(kmip.OperationActivate, c09HandlerFunc(func(_ context.Context, pl kmip.OperationPayload) (kmip.OperationPayload, error) {
		trace = append(trace, "core")
		return &payloads.ActivateResponsePayload{UniqueIdentifier: pl.(*payloads.ActivateRequestPayload).UniqueIdentifier}, nil
	}))
	mw := func(name string, times int) kmipserver.Middleware {
		return func(next kmipserver.Next, ctx context.Context, msg *kmip.RequestMessage) (resp *kmip.ResponseMessage, err error) {
			trace = append(trace, name+">")
			for i := 0; i < times; i++ {
				resp, err = next(ctx, msg)
			}
			trace = append(trace, "<"+name)
			return resp, err
		}
	}
	imw := func(name string, times int) kmipserver.BatchItemMiddleware {
		return func(next kmipserver.BatchItemNext, ctx context.Context, bi *kmip.RequestBatchItem) (resp *kmip.ResponseBatchItem, err error) {
			trace = append(trace, name+">")
			for i := 0; i < times; i++ {
				resp, err = next(ctx, bi)
			}
			trace = append(trace, "<"+name)
			return resp, err
		}
	}
	run := func() string {
		trace = nil
		msg := kmip.NewRequestMessage(kmip.V1_4, &payloads.ActivateRequestPayload{UniqueIdentifier: "x"})
		func() {
			defer func() {
				if p := recover(); p != nil {
					trace = append(trace, "panic:"+fmt.Sprint(p))
				}
			}()
			_ = exec.HandleRequest(context.Background(), &msg)
		}()
		return strings.Join(trace, " ")
	}
	steps := []struct {
		what string
		reg  func()
		want string
	}{
		{"no middleware", func() {}, "core"},
		{"Use(A)", func() { exec.Use(mw("A", 1)) }, "A> core <A"},
		{"Use(B retrying twice) after a request was served", func() { exec.Use(mw("B", 2)) }, "A> B> core core <B <A"},
		{"BatchItemUse(I) after requests were served", func() { exec.BatchItemUse(imw("I", 1)) }, "A> B> I> core <I I> core <I <B <A"},
		{"BatchItemUse(J retrying twice)", func() { exec.BatchItemUse(imw("J", 2)) }, "A> B> I> J> core core <J <I I> J> core core <J <I <B <A"},
	}
	for i, st := range steps {
		st.reg()
		got := run()
		c.Eval(fmt.Sprintf("late-registration/%d", i), true)
		c.Count("late-registration")
		if got != st.want {
			c.Fail("C19/server/late-registration", fmt.Sprintf("after %s the request ran [%s], expected [%s]", st.what, got, st.want), map[string]any{"kind": "late-registration", "step": i})
			return
		}
	}
}

// c19ClientDialThroughChain: the request a client sends while it is being dialled (version discovery) is a
// request like any other: the registered middlewares see it, in order, transport innermost; a middleware
// that answers it itself (versions pinned from a cache) keeps it off the wire.
func c19ClientDialThroughChain(c *h.Ctx) {
	for _, short := range []bool{false, true} {
		cj := map[string]any{"kind": "late-registration", "sub": "dial-through-chain", "short_circuit": short}
		c.Current(cj)
		var trace []string
		wire := 0
		dialer := func(ctx context.Context) (net.Conn, error) {
			cli, srv := net.Pipe()
			go func() {
				defer srv.Close()
				st := ttlv.NewStream(srv, -1)
				for {
					req := new(kmip.RequestMessage)
					if st.Recv(req) != nil {
						return
					}
					wire++
					resp := &kmip.ResponseMessage{Header: kmip.ResponseHeader{ProtocolVersion: req.Header.ProtocolVersion, TimeStamp: time.Unix(1, 0), BatchCount: int32(len(req.BatchItem))}}
					for _, bi := range req.BatchItem {
						it := kmip.ResponseBatchItem{Operation: bi.Operation, UniqueBatchItemID: bi.UniqueBatchItemID, ResultStatus: kmip.ResultStatusSuccess}
						if _, ok := bi.RequestPayload.(*payloads.DiscoverVersionsRequestPayload); ok {
							it.ResponsePayload = &payloads.DiscoverVersionsResponsePayload{ProtocolVersion: []kmip.ProtocolVersion{kmip.V1_4, kmip.V1_3, kmip.V1_2}}
						}
						resp.BatchItem = append(resp.BatchItem, it)
					}
					if st.Send(resp) != nil {
						return
					}
				}
			}()
			return cli, nil
		}
		mw := func(name string) kmipclient.Middleware {
			return func(next kmipclient.Next, ctx context.Context, msg *kmip.RequestMessage) (*kmip.ResponseMessage, error) {
				op := "?"
				if len(msg.BatchItem) > 0 {
					op = fmt.Sprint(uint32(msg.BatchItem[0].Operation))
				}
				trace = append(trace, name+">"+op)
				if short && name == "B" && op == fmt.Sprint(uint32(kmip.OperationDiscoverVersions)) {
					trace = append(trace, "<"+name)
					return &kmip.ResponseMessage{Header: kmip.ResponseHeader{ProtocolVersion: msg.Header.ProtocolVersion, TimeStamp: time.Unix(1, 0), BatchCount: 1},
						BatchItem: []kmip.ResponseBatchItem{{Operation: kmip.OperationDiscoverVersions, ResultStatus: kmip.ResultStatusSuccess,
							ResponsePayload: &payloads.DiscoverVersionsResponsePayload{ProtocolVersion: []kmip.ProtocolVersion{kmip.V1_2}}}}}, nil
				}
				r, err := next(ctx, msg)
				trace = append(trace, "<"+name)
				return r, err
			}
		}
		var cl *kmipclient.Client
		var err error
		panicked := ""
		func() {
			defer func() {
				if p := recover(); p != nil {
					panicked = fmt.Sprint(p)
				}
			}()
			cl, err = kmipclient.Dial("pipe", kmipclient.WithDialerUnsafe(dialer), kmipclient.WithMiddlewares(mw("A"), mw("B"), mw("C")))
		}()
		c.Eval(fmt.Sprintf("dial-through-chain/%v", short), true)
		c.Count("late-registration")
		if cl != nil {
			defer cl.Close()
		}
		if panicked != "" || err != nil {
			continue // C11 / C13 matter
		}
		dv := fmt.Sprint(uint32(kmip.OperationDiscoverVersions))
		want := fmt.Sprintf("A>%s B>%s C>%s <C <B <A", dv, dv, dv)
		wantWire, wantVer := 1, kmip.V1_4
		if short {
			want = fmt.Sprintf("A>%s B>%s <B <A", dv, dv)
			wantWire, wantVer = 0, kmip.V1_2
		}
		got := strings.Join(trace, " ")
		if got != want || wire != wantWire || cl.Version() != wantVer {
			c.Fail("C19/client/dial-request-bypasses-chain", fmt.Sprintf("the version-discovery request of Dial ran [%s] with %d message(s) on the wire and version %v adopted; expected [%s], %d on the wire, %v", got, wire, cl.Version(), want, wantWire, wantVer), cj)
		}
	}
}

// c19ServerDebugConcurrent: the library's own server DebugMiddleware in front of the executor, eight requests
// in flight at once with handlers of different durations: each caller gets the response to its own request.
type c19SlowWriter struct{ mu sync.Mutex }

func (w *c19SlowWriter) Write(p []byte) (int, error) {
	w.mu.Lock()
	defer w.mu.Unlock()
	time.Sleep(200 * time.Microsecond)
	return len(p), nil
}

func c19ServerDebugConcurrent(c *h.Ctx) {
	cj := map[string]any{"kind": "late-registration", "sub": "server-debug-middleware-concurrent"}
	c.Current(cj)
	exec := kmipserver.NewBatchExecutor()
	exec.Route(kmip.OperationActivate, c09HandlerFunc(func(_ context.Context, pl kmip.OperationPayload) (kmip.OperationPayload, error) {
		id := pl.(*payloads.ActivateRequestPayload).UniqueIdentifier
		time.Sleep(time.Duration(len(id)%5) * 300 * time.Microsecond)
		return &payloads.ActivateResponsePayload{UniqueIdentifier: id}, nil
	}))
	exec.Use(kmipserver.DebugMiddleware(&c19SlowWriter{}, nil))
	var wg sync.WaitGroup
	bad := make([]string, 8)
	for g := 0; g < 8; g++ {
		wg.Add(1)
		go func(g int) {
			defer wg.Done()
			defer func() {
				if p := recover(); p != nil {
					bad[g] = "panic: " + fmt.Sprint(p)
				}
			}()
			for k := 0; k < 25; k++ {
				id := fmt.Sprintf("g%d-%d-%s", g, k, strings.Repeat("x", (g+k)%5))
				msg := kmip.NewRequestMessage(kmip.V1_4, &payloads.ActivateRequestPayload{UniqueIdentifier: id})
				resp := exec.HandleRequest(context.Background(), &msg)
				got := "(no response)"
				if resp != nil && len(resp.BatchItem) == 1 {
					if ap, ok := resp.BatchItem[0].ResponsePayload.(*payloads.ActivateResponsePayload); ok {
						got = ap.UniqueIdentifier
					}
				}
				if got != id {
					bad[g] = fmt.Sprintf("the request for %q was answered with the response %q", id, got)
					return
				}
			}
		}(g)
	}
	wg.Wait()
	c.Eval("server-debug-middleware-concurrent", true)
	c.Count("late-registration")
	for _, b := range bad {
		if b != "" {
			c.Fail("C19/server/result-of-another-request-passed-back", "with kmipserver.DebugMiddleware installed and eight requests in flight: "+b, cj)
			return
		}
	}
}
