package main

import (
	"github.com/ovh/kmip-go/ttlv"
	"github.com/ovh/kmip-go/payloads"
	"context"
	"fmt"
	"net"
	"sync"
	"sync/atomic"
	"time"

	"github.com/ovh/kmip-go"
	"github.com/ovh/kmip-go/kmipclient"

	"verifharness/internal/clisim"
	"verifharness/internal/h"
)

func init() { h.Register("C10", driveC10) }

type c10Stress struct {
	Seed       uint64 `json:"stress_seed"`
	Goroutines int    `json:"goroutines"`
	Calls      int    `json:"calls"`
	MaxDelayUS int    `json:"max_server_delay_us"`
	MaxTimeUS  int    `json:"max_timeout_us"`
}

type c10StressObs struct {
	Ok, Err, Wrong, Panic int
	WrongDetail           string
	LeakRead, LeakWrite   int
	OpenConns             int
	Dials                 int
}

// c10RunStress: N goroutines share one client; every call carries its own identifier and a random
// timeout; the scripted server echoes the identifier after a random delay. The schedule is the Go
// scheduler's: the outcome is only checked against the property itself.
// c10SlowWriter: where the debug middleware writes; sometimes slow, so that other exchanges complete meanwhile
type c10SlowWriter struct{}

var c10SlowN atomic.Int64

func (c10SlowWriter) Write(p []byte) (int, error) {
	if c10SlowN.Add(1)%7 == 0 {
		time.Sleep(200 * time.Microsecond)
	}
	return len(p), nil
}

func c10RunStress(st c10Stress) (o c10StressObs) {
	w := clisim.NewWorld(nil)
	base1, base2 := clisim.ClientGoroutines()
	var rmu sync.Mutex
	rng := h.NewRand(st.Seed)
	w.ReplyDelay = func() time.Duration {
		rmu.Lock()
		defer rmu.Unlock()
		if st.MaxDelayUS <= 0 || rng.Chance(1, 4) {
			return 0
		}
		return time.Duration(rng.Intn(st.MaxDelayUS)) * time.Microsecond
	}
	client, err := kmipclient.DialContext(context.Background(), "mem",
		kmipclient.WithDialerUnsafe(func(ctx context.Context) (net.Conn, error) { return w.Dial() }),
		kmipclient.EnforceVersion(kmip.V1_4),
		// the library's own debug middleware in the chain (it runs outside the exchange lock)
		kmipclient.WithMiddlewares(kmipclient.DebugMiddleware(c10SlowWriter{}, ttlv.MarshalXML)))
	if err != nil {
		o.Err++
		return
	}
	var ok, er, wrong, pan atomic.Int64
	var detail atomic.Value
	var wg sync.WaitGroup
	for g := 0; g < st.Goroutines; g++ {
		wg.Add(1)
		gr := h.NewRand(st.Seed*1000 + uint64(g))
		go func(g int) {
			defer wg.Done()
			type keptResp struct {
				id string
				pl *payloads.EncryptResponsePayload
			}
			var kept []keptResp
			defer func() {
				for _, k := range kept {
					if string(k.pl.Data) != k.id {
						wrong.Add(1)
						detail.CompareAndSwap(nil, fmt.Sprintf("the response returned to call %s carried %q when its caller looked at it again later", k.id, k.pl.Data))
					}
				}
			}()
			for i := 0; i < st.Calls; i++ {
				id := fmt.Sprintf("g%d-%d", g, i)
				var ctx context.Context
				var cancel context.CancelFunc
				switch gr.Intn(6) {
				case 0:
					ctx, cancel = context.WithCancel(context.Background())
					cancel() // already cancelled
				case 1:
					ctx, cancel = context.WithCancel(context.Background()) // never cancelled
				default:
					ctx, cancel = context.WithTimeout(context.Background(), time.Duration(1+gr.Intn(st.MaxTimeUS))*time.Microsecond)
				}
				if i%3 == 2 {
					// the identifier as a byte string, checked when it comes back AND after the goroutine's
					// later calls: a response belongs to its caller for good
					var pl kmip.OperationPayload
					var err error
					func() {
						defer func() {
							if p := recover(); p != nil {
								pan.Add(1)
								detail.CompareAndSwap(nil, fmt.Sprintf("call %s panicked: %v", id, p))
								err = fmt.Errorf("panic")
							}
						}()
						pl, err = client.Request(ctx, &payloads.EncryptRequestPayload{UniqueIdentifier: "k", Data: []byte(id)})
					}()
					cancel()
					if ep, isE := pl.(*payloads.EncryptResponsePayload); err == nil && isE {
						if string(ep.Data) != id {
							wrong.Add(1)
							detail.CompareAndSwap(nil, fmt.Sprintf("call %s received the response %q", id, ep.Data))
						} else {
							ok.Add(1)
							kept = append(kept, keptResp{id, ep})
						}
					} else {
						er.Add(1)
					}
					continue
				}
				if i%3 == 1 {
					// the exported Roundtrip entry point, with a hand-made message
					func() {
						defer func() {
							if p := recover(); p != nil {
								pan.Add(1)
								detail.CompareAndSwap(nil, fmt.Sprintf("call %s panicked: %v", id, p))
							}
						}()
						msg := kmip.NewRequestMessage(kmip.V1_4, &payloads.ActivateRequestPayload{UniqueIdentifier: id})
						resp, err := client.Roundtrip(ctx, &msg)
						switch {
						case err != nil || resp == nil || len(resp.BatchItem) != 1:
							er.Add(1)
						default:
							if pl, _ := resp.BatchItem[0].ResponsePayload.(*payloads.ActivateResponsePayload); pl == nil || pl.UniqueIdentifier != id {
								wrong.Add(1)
								detail.CompareAndSwap(nil, fmt.Sprintf("Roundtrip for %s received another call's response", id))
							} else {
								ok.Add(1)
							}
						}
					}()
					cancel()
					continue
				}
				r := ccDoCall(ctx, client, id)
				cancel()
				switch r.res {
				case ccROk:
					ok.Add(1)
				case ccRErr:
					er.Add(1)
				case ccRWrong:
					wrong.Add(1)
					detail.CompareAndSwap(nil, fmt.Sprintf("call %s received the response %q", id, r.got))
				case ccRPanic:
					pan.Add(1)
					detail.CompareAndSwap(nil, fmt.Sprintf("call %s panicked: %s", id, r.got))
				}
			}
		}(g)
	}
	done := make(chan struct{})
	go func() { wg.Wait(); close(done) }()
	select {
	case <-done:
	case <-time.After(60 * time.Second):
		detail.CompareAndSwap(nil, "callers still running after 60 s")
		pan.Add(1)
	}
	_ = client.Close()
	w.Settle(2 * time.Second)
	o.LeakRead, o.LeakWrite = clisim.WaitClientGoroutines(base1, base2, 3*time.Second)
	o.OpenConns = w.OpenConns()
	o.Dials = w.Dials()
	o.Ok, o.Err, o.Wrong, o.Panic = int(ok.Load()), int(er.Load()), int(wrong.Load()), int(pan.Load())
	if d, _ := detail.Load().(string); d != "" {
		o.WrongDetail = d
	}
	return
}

func driveC10(c *h.Ctx) error {
	c.Rule("(a) scripted scenarios on a real kmipclient.Client over the in-memory transport: every cancellation instant of a call " +
		"(context already done; send.loaded hook; request parked in the transport's Write; roundtrip.sent hook = between send and recv; " +
		"server holds the reply back = response in flight, delivered late) and every concurrent Close instant, alone, in pairs, combined with " +
		"connection failures, followed by further calls; identifiers echoed by the scripted server are compared with the identifier each call sent; " +
		"outcomes compared with the model's outcome set. (b) stress: 8 goroutines x 25 calls on one client, random timeouts (1us..2ms, already-cancelled, none), " +
		"random server delays; only the property itself is checked. Non-trivial: scenario with a trigger, failure or Close; stress run with both successes and abandoned calls")
	if m, _ := c.Replay["case"].(map[string]any); m != nil && (m["leg"] == "clone" || m["leg"] == "large-response" || m["leg"] == "signer") {
		c10CloneLeg(c)
		c10LargeResponse(c, "C10")
		c10SignerLeg(c)
		return ccDrive(c, "C10", nil, "cases_C10.v", nil)
	}
	if c.Replay == nil {
		c10CloneLeg(c)
		c10LargeResponse(c, "C10")
		c10SignerLeg(c)
	}
	cases, replay, err := ccReplayCases(c)
	if err != nil && c.Replay != nil {
		// a stress replay?
		if m, _ := c.Replay["case"].(map[string]any); m != nil && m["stress"] != nil {
			cases, replay, err = nil, true, nil
		}
	}
	if err != nil {
		return err
	}
	var stress []c10Stress
	if replay {
		if m, _ := c.Replay["case"].(map[string]any); m != nil && m["stress"] != nil {
			sm := m["stress"].(map[string]any)
			st := c10Stress{Seed: uint64(sm["stress_seed"].(float64)), Goroutines: int(sm["goroutines"].(float64)), Calls: int(sm["calls"].(float64)),
				MaxDelayUS: int(sm["max_server_delay_us"].(float64)), MaxTimeUS: int(sm["max_timeout_us"].(float64))}
			for i := 0; i < 5; i++ {
				stress = append(stress, st)
			}
		}
	} else {
		cases = append(cases, ccGenTriggers()...)
		for _, gc := range ccGenRaces() {
			if gc.Family == "race-after-cancel" {
				cases = append(cases, gc)
			}
		}
		for _, gc := range ccGenRandom(c.Rng.Fork(21), c.Pick(600, 8000)) {
			// keep the random scenarios that exercise a cancellation or a concurrent Close
			for _, st := range gc.Sc.Steps {
				if st.Trig != 0 {
					cases = append(cases, gc)
					break
				}
			}
		}
		n := c.Pick(40, 300)
		for i := 0; i < n; i++ {
			stress = append(stress, c10Stress{Seed: c.Seed*100000 + uint64(i), Goroutines: 8, Calls: 25, MaxDelayUS: 50 + 40*(i%20), MaxTimeUS: 100 + 100*(i%20)})
		}
	}
	keep := func(sig string) bool { return true }
	if err := ccDrive(c, "C10", cases, "cases_C10.v", keep); err != nil {
		return err
	}
	totOk, totErr := 0, 0
	for i, st := range stress {
		o := c10RunStress(st)
		totOk += o.Ok
		totErr += o.Err
		c.Eval(fmt.Sprintf("stress/%d/%d/%d", st.Seed, o.Ok, o.Err), o.Ok > 0 && o.Err > 0)
		c.CountN("stress:calls-ok", o.Ok)
		c.CountN("stress:calls-abandoned-or-failed", o.Err)
		c.CountN("stress:dials", o.Dials)
		caseJSON := map[string]any{"stress": st, "observed": o}
		if i == 0 {
			c.Sample(caseJSON)
		}
		if o.Wrong > 0 {
			c.Fail("C10/wrong-response/concurrent", o.WrongDetail, caseJSON)
		}
		if o.Panic > 0 {
			c.Fail("C10/panic/concurrent", o.WrongDetail, caseJSON)
		}
		if o.LeakRead+o.LeakWrite > 0 || o.OpenConns > 0 {
			c.Fail("C10/leak/concurrent", fmt.Sprintf("%d readloops, %d writeloops, %d connections left after Close", o.LeakRead, o.LeakWrite, o.OpenConns), caseJSON)
		}
	}
	c.Extra("stress_runs", len(stress))
	c.Extra("stress_calls_ok", totOk)
	c.Extra("stress_calls_failed", totErr)
	return nil
}
