package main

// C04 part (d): the OASIS conformance vectors (kmiptest/testdata/*/*.xml).  Every request and
// response message of every supported file is decoded with UnmarshalXML and encoded again with
// MarshalXML; the vector's own element tree and the output's are compared element by element,
// in order, values compared by meaning (instants, numbers, byte strings, flag sets, enumeration
// numbers): nothing may be added, dropped, reordered or altered.  Thorough tier: variations of
// the vectors (an optional element removed, a scalar replaced by a boundary value).

import (
	"bytes"
	"encoding/hex"
	"fmt"
	"math/big"
	"os"
	"path/filepath"
	"reflect"
	"regexp"
	"sort"
	"strconv"
	"strings"
	"time"

	"github.com/ovh/kmip-go"
	"github.com/ovh/kmip-go/kmiptest"
	"github.com/ovh/kmip-go/ttlv"

	"verifharness/internal/gv"
	"verifharness/internal/h"
)

var (
	c04NowRe = regexp.MustCompile(`"\$NOW((\-|\+)\d+)?"`)
	c04VarRe = regexp.MustCompile(`"\$[A-Za-z0-9_]+"`)
)

// the same substitutions as kmiptest.LoadTestSuite, with a fixed "now"
func c04VectorText(b []byte) []byte {
	now := time.Unix(1700000000, 0).UTC()
	b = c04NowRe.ReplaceAllFunc(b, func(m []byte) []byte {
		off, _ := strconv.ParseInt(string(m[5:len(m)-1]), 10, 64)
		return []byte(`"` + now.Add(time.Duration(off)*time.Second).Format(time.RFC3339) + `"`)
	})
	return c04VarRe.ReplaceAll(b, []byte(`"DEADBEEFCAFE"`))
}

func c04XMLAttrEsc(s string) string {
	var sb strings.Builder
	for _, r := range s {
		switch r {
		case '&':
			sb.WriteString("&amp;")
		case '<':
			sb.WriteString("&lt;")
		case '"':
			sb.WriteString("&quot;")
		case '\t', '\n', '\r':
			fmt.Fprintf(&sb, "&#x%X;", r)
		default:
			sb.WriteRune(r)
		}
	}
	return sb.String()
}

func (x *c04X) xmlText(sb *strings.Builder) {
	sb.WriteString("<" + x.Name)
	for _, a := range x.Attrs {
		sb.WriteString(" " + a[0] + `="` + c04XMLAttrEsc(a[1]) + `"`)
	}
	if len(x.Kids) == 0 {
		sb.WriteString("/>")
		return
	}
	sb.WriteString(">")
	for _, k := range x.Kids {
		k.xmlText(sb)
	}
	sb.WriteString("</" + x.Name + ">")
}

func (x *c04X) clone() *c04X {
	n := &c04X{Name: x.Name, Attrs: append([][2]string(nil), x.Attrs...), Cut: x.Cut}
	for _, k := range x.Kids {
		n.Kids = append(n.Kids, k.clone())
	}
	return n
}

// ---- semantic comparison

func c04ElemTag(x *c04X) (int, bool) {
	raw := x.Name
	if raw == "TTLV" {
		raw, _ = x.attr("tag")
	}
	if strings.HasPrefix(raw, "0x") {
		n, err := strconv.ParseInt(raw[2:], 16, 32)
		return int(n), err == nil
	}
	t, ok := c04Reg.TagByName[raw]
	return t, ok
}

func c04ElemType(x *c04X) string {
	if t, ok := x.attr("type"); ok {
		return t
	}
	return "Structure"
}

func c04ParseNum(s string) (*big.Int, bool) {
	if strings.HasPrefix(s, "0x") {
		return new(big.Int).SetString(s[2:], 16)
	}
	return new(big.Int).SetString(s, 10)
}

// flag set: numbers, or names of any registered mask, separated by white space or '|'
func c04FlagSet(s string) (int64, bool) {
	toks := strings.FieldsFunc(s, func(r rune) bool { return r == '|' || r == ' ' || r == '\t' || r == '\n' || r == '\r' })
	var v int64
	for _, t := range toks {
		if n, ok := c04ParseNum(t); ok {
			v |= n.Int64()
			continue
		}
		found := false
		for _, m := range c04Reg.BitmaskByName {
			if b, ok := m[t]; ok {
				v |= int64(uint32(b))
				found = true
				break
			}
		}
		if !found {
			return 0, false
		}
	}
	return v, true
}

// enumeration: number, or the set of numbers the name stands for (in the element's own
// enumeration when its tag has one, else in any)
func c04EnumVals(tag int, s string) map[uint32]bool {
	out := map[uint32]bool{}
	if n, ok := c04ParseNum(s); ok {
		out[uint32(n.Uint64())] = true
		return out
	}
	if m, ok := c04Reg.EnumsByName[tag]; ok {
		if v, ok := m[s]; ok {
			out[v] = true
		}
		return out
	}
	for _, m := range c04Reg.EnumsByName {
		if v, ok := m[s]; ok {
			out[v] = true
		}
	}
	return out
}

func c04TwosComplement(hexs string) (*big.Int, bool) {
	b, err := hex.DecodeString(hexs)
	if err != nil || len(b) == 0 {
		return nil, false
	}
	v := new(big.Int).SetBytes(b)
	if b[0]&0x80 != 0 {
		v.Sub(v, new(big.Int).Lsh(big.NewInt(1), uint(8*len(b))))
	}
	return v, true
}

// c04SemDiff returns "" when a (vector) and b (output) carry the same elements and values.
func c04SemDiff(a, b *c04X, path string) string {
	ta, oka := c04ElemTag(a)
	tb, okb := c04ElemTag(b)
	here := path + "/" + a.Name
	if !oka || !okb || ta != tb {
		return fmt.Sprintf("%s: element %s became %s", here, a.Name, b.Name)
	}
	tya, tyb := c04ElemType(a), c04ElemType(b)
	if tya != tyb {
		return fmt.Sprintf("%s: type %s became %s", here, tya, tyb)
	}
	va, _ := a.attr("value")
	vb, _ := b.attr("value")
	same := false
	switch tya {
	case "Structure":
		if len(a.Kids) != len(b.Kids) {
			var na, nb []string
			for _, k := range a.Kids {
				na = append(na, k.Name)
			}
			for _, k := range b.Kids {
				nb = append(nb, k.Name)
			}
			if z := c04ZeroDropped(a, b); z != "" {
				if c04OmitValueField(a, z) {
					return fmt.Sprintf("%s: zero-valued %s was dropped: children [%s] became [%s]", here, z, strings.Join(na, " "), strings.Join(nb, " "))
				}
				// not an `omitempty` value field (e.g. a pointer field, where absent and zero ARE distinguishable)
				return fmt.Sprintf("%s: zero-valued non-omitempty %s/%s was dropped: children [%s] became [%s]", here, a.Name, z, strings.Join(na, " "), strings.Join(nb, " "))
			}
			return fmt.Sprintf("%s: children [%s] became [%s]", here, strings.Join(na, " "), strings.Join(nb, " "))
		}
		for i := range a.Kids {
			if d := c04SemDiff(a.Kids[i], b.Kids[i], here); d != "" {
				return d
			}
		}
		return ""
	case "Integer":
		na, ok1 := c04ParseNum(va)
		nb, ok2 := c04ParseNum(vb)
		if ok1 && ok2 {
			same = int32(na.Int64()) == int32(nb.Int64())
		} else {
			fa, ok1 := c04FlagSet(va)
			fb, ok2 := c04FlagSet(vb)
			same = ok1 && ok2 && int32(fa) == int32(fb)
		}
	case "LongInteger", "Interval":
		na, ok1 := c04ParseNum(va)
		nb, ok2 := c04ParseNum(vb)
		same = ok1 && ok2 && na.Cmp(nb) == 0
	case "BigInteger":
		na, ok1 := c04TwosComplement(va)
		nb, ok2 := c04TwosComplement(vb)
		same = ok1 && ok2 && na.Cmp(nb) == 0
	case "Enumeration":
		ea, eb := c04EnumVals(ta, va), c04EnumVals(ta, vb)
		for v := range ea {
			if eb[v] {
				same = true
			}
		}
	case "Boolean":
		ba, e1 := strconv.ParseBool(va)
		bb, e2 := strconv.ParseBool(vb)
		same = e1 == nil && e2 == nil && ba == bb
	case "TextString":
		same = va == vb
	case "ByteString":
		same = strings.EqualFold(va, vb)
	case "DateTime":
		da, e1 := time.Parse(time.RFC3339, va)
		db, e2 := time.Parse(time.RFC3339, vb)
		same = e1 == nil && e2 == nil && da.Unix() == db.Unix()
	default:
		same = va == vb
	}
	if !same {
		return fmt.Sprintf("%s: %s value %q became %q", here, tya, va, vb)
	}
	return ""
}

// ---- running one message element

type c04VecCase struct {
	File  string `json:"file"`
	Index int    `json:"index"`
	Elem  string `json:"element"`
	Var   string `json:"variation,omitempty"`
	Doc   string `json:"doc,omitempty"`
}

func c04VectorMessage(c *h.Ctx, x *c04X, vc c04VecCase, strict bool) {
	var sb strings.Builder
	x.xmlText(&sb)
	doc := []byte(sb.String())
	dir := "request"
	if x.Name == "ResponseMessage" {
		dir = "response"
	}
	vc.Elem = x.Name
	if vc.Var != "" {
		vc.Doc = sb.String()
	}
	cj := map[string]any{"part": "d", "vector": vc}
	c.Eval("vec|"+sb.String(), true)
	c.Count("d:" + dir)
	m := c04NewMsg(dir)
	err, pan := c04TryErr(func() error { return ttlv.UnmarshalXML(doc, m) })
	if pan != nil {
		c.Fail("C04/xml/reader-panic:"+c04PanicClass(fmt.Sprint(pan)), fmt.Sprintf("decoding a vector message panicked: %v", pan), cj)
		return
	}
	if err != nil {
		if strict {
			c.Fail("C04/oasis/decode-error", fmt.Sprintf("%s message %d of %s does not decode: %v", dir, vc.Index, vc.File, err), cj)
		} else {
			c.Count("d:variation-rejected")
		}
		return
	}
	out, pan := c04TryBytes(func() []byte { return ttlv.MarshalXML(m) })
	if pan != nil {
		if strict {
			c.Fail("C04/oasis/encode-panic", fmt.Sprintf("re-encoding %s message %d of %s panicked: %v", dir, vc.Index, vc.File, pan), cj)
		} else {
			c.Count("d:variation-unencodable")
		}
		return
	}
	roots, cut := c04ParseXML(out)
	if cut || len(roots) != 1 {
		c.Fail("C04/xml/message-not-well-formed:oasis", "re-encoded vector message is not well-formed", cj)
		return
	}
	if d := c04SemDiff(x, roots[0], ""); d != "" {
		c.Fail("C04/oasis/element-tree-differs:"+c04DiffClass(d), fmt.Sprintf("%s message %d of %s is not reproduced: %s", dir, vc.Index, vc.File, d), cj)
		return
	}
	// and through JSON and binary: same binary
	b0, pan := c04TryBytes(func() []byte { return ttlv.MarshalTTLV(m) })
	if pan != nil {
		return
	}
	jd, pan := c04TryBytes(func() []byte { return ttlv.MarshalJSON(m) })
	if pan != nil {
		c.Fail("C04/json/message-writer-panic:oasis", fmt.Sprintf("JSON writer panicked on a vector message: %v", pan), cj)
		return
	}
	m2 := c04NewMsg(dir)
	if err, pan := c04TryErr(func() error { return ttlv.UnmarshalJSON(jd, m2) }); err != nil || pan != nil {
		c.Fail("C04/json/message-rejected:oasis", fmt.Sprintf("JSON rendering of a vector message does not decode: %v %v", err, pan), cj)
		return
	}
	if b2, pan := c04TryBytes(func() []byte { return ttlv.MarshalTTLV(m2) }); pan != nil || !bytes.Equal(b0, b2) {
		c.Fail("C04/json/message-roundtrip-differs:oasis", "vector message through JSON re-encodes to different binary TTLV", cj)
	}
}

// c04ZeroDropped: b is a minus exactly one leaf child whose value is the zero value of its type
// (the library cannot tell an absent optional field from one holding its zero value); returns its name.
func c04ZeroDropped(a, b *c04X) string {
	if len(a.Kids) != len(b.Kids)+1 {
		return ""
	}
	i := 0
	for i < len(b.Kids) && c04SemDiff(a.Kids[i], b.Kids[i], "") == "" {
		i++
	}
	miss := a.Kids[i]
	for j := i; j < len(b.Kids); j++ {
		if c04SemDiff(a.Kids[j+1], b.Kids[j], "") != "" {
			return ""
		}
	}
	v, _ := miss.attr("value")
	zero := false
	switch c04ElemType(miss) {
	case "Integer", "LongInteger", "Interval", "Enumeration":
		n, ok := c04ParseNum(v)
		zero = ok && n.Sign() == 0
	case "BigInteger":
		n, ok := c04TwosComplement(v)
		zero = ok && n.Sign() == 0
	case "TextString", "ByteString":
		zero = v == ""
	case "Boolean":
		zero = v == "false"
	case "DateTime":
		t, err := time.Parse(time.RFC3339, v)
		zero = err == nil && t.Unix() == c04DateMin
	}
	if zero {
		return miss.Name
	}
	return ""
}

// c04OmitValueField: is element `elem` of parent element `a` an `omitempty` field of a NON-pointer
// type in some library struct written under the parent's tag?  Only those fields conflate
// "absent" with "zero" (the recorded known finding); any other dropped element is a new violation.
func c04OmitValueField(a *c04X, elem string) bool {
	ptag, ok := c04ElemTag(a)
	if !ok {
		return false
	}
	var etag int
	found := false
	for _, k := range a.Kids {
		if k.Name == elem {
			etag, found = c04ElemTag(k)
			break
		}
	}
	if !found {
		return false
	}
	matchedParent := false
	for _, t := range gv.U().Structs {
		tt := ttlv.VerifTagForType(t)
		isItem := (t.Name() == "RequestBatchItem" || t.Name() == "ResponseBatchItem") && ptag == kmip.TagBatchItem
		isPayload := strings.HasSuffix(t.Name(), "Payload") && (ptag == kmip.TagRequestPayload || ptag == kmip.TagResponsePayload)
		if tt != ptag && !isItem && !isPayload {
			continue
		}
		for _, f := range gv.Fields(t) {
			if f.Plan.Tag == etag {
				matchedParent = true // a structure written under the parent's tag does have this element
				if f.Plan.OmitEmpty && f.SF.Type.Kind() != reflect.Pointer {
					return true
				}
			}
		}
	}
	if matchedParent {
		return false
	}
	// the parent element does not name its structure (an attribute value, a credential value, key
	// material: the structure is written under the tag of the position it sits in): the element is in
	// the class when EVERY structure that has an element with this tag declares it an omitempty value field
	n, all := 0, true
	for _, t := range gv.U().Structs {
		for _, f := range gv.Fields(t) {
			if f.Plan.Tag == etag {
				n++
				if !(f.Plan.OmitEmpty && f.SF.Type.Kind() != reflect.Pointer) {
					all = false
				}
			}
		}
	}
	return n > 0 && all
}

// the input class of a difference, for the failure signature
func c04DiffClass(d string) string {
	switch {
	case strings.Contains(d, ": zero-valued non-omitempty "):
		i := strings.Index(d, ": zero-valued non-omitempty ") + len(": zero-valued non-omitempty ")
		return "zero-valued-element-dropped:" + strings.Fields(d[i:])[0]
	case strings.Contains(d, ": zero-valued "):
		return "zero-valued-optional-element-dropped"
	case strings.Contains(d, "children ["):
		return "children"
	case strings.Contains(d, "element "):
		return "element"
	case strings.Contains(d, ": type "):
		return "type"
	}
	for _, t := range []string{"Integer", "LongInteger", "BigInteger", "Enumeration", "Boolean", "TextString", "ByteString", "DateTime", "Interval"} {
		if strings.Contains(d, ": "+t+" value") {
			return "value:" + t
		}
	}
	return "other"
}

func c04VectorFiles(c *h.Ctx) []string {
	root := filepath.Join(c.Repo, "kmiptest", "testdata")
	var files []string
	for _, v := range kmiptest.TestCaseVersions {
		ents, err := os.ReadDir(filepath.Join(root, v))
		if err != nil {
			continue
		}
		for _, e := range ents {
			if !e.IsDir() && strings.HasSuffix(e.Name(), ".xml") {
				files = append(files, v+"/"+e.Name())
			}
		}
	}
	sort.Strings(files)
	return files
}

func c04LoadVector(c *h.Ctx, file string) ([]*c04X, error) {
	b, err := os.ReadFile(filepath.Join(c.Repo, "kmiptest", "testdata", file))
	if err != nil {
		return nil, err
	}
	roots, cut := c04ParseXML(c04VectorText(b))
	if cut || len(roots) != 1 {
		return nil, fmt.Errorf("vector %s is not a well-formed single-root document", file)
	}
	return roots[0].Kids, nil
}

func c04Vectors(c *h.Ctx, g *c04Gen) {
	unsupported := map[string]bool{}
	for _, f := range kmiptest.UnsupportedTestCases {
		unsupported[f] = true
	}
	files := c04VectorFiles(c)
	nmsg := 0
	for fi, file := range files {
		if unsupported[file] {
			c.Count("d:file-listed-unsupported")
			continue
		}
		msgs, err := c04LoadVector(c, file)
		if err != nil {
			c.Fail("C04/oasis/unreadable-vector", err.Error(), map[string]any{"part": "d", "vector": c04VecCase{File: file}})
			continue
		}
		c.Count("d:file")
		for i, x := range msgs {
			if x.Name != "RequestMessage" && x.Name != "ResponseMessage" {
				continue
			}
			nmsg++
			c04VectorMessage(c, x, c04VecCase{File: file, Index: i}, true)
			if nmsg%701 == 0 {
				c.Sample(map[string]any{"part": "d", "file": file, "index": i})
			}
			// variations: thorough tier on every message, quick tier on a rotating sample
			if c.Quick() && (fi+i+int(c.Seed))%23 != 0 {
				continue
			}
			c04VectorVariations(c, g, x, c04VecCase{File: file, Index: i})
		}
	}
	// two fixed variations that exhibit the zero-value/absent confusion of `omitempty` fields (so that
	// the finding is reported by every run, not only when the random variations happen to draw it)
	for _, w := range []string{
		`<RequestMessage><RequestHeader><ProtocolVersion><ProtocolVersionMajor type="Integer" value="1"/><ProtocolVersionMinor type="Integer" value="4"/></ProtocolVersion><BatchCount type="Integer" value="1"/></RequestHeader><BatchItem><Operation type="Enumeration" value="Encrypt"/><RequestPayload><UniqueIdentifier type="TextString" value="k"/><CryptographicParameters><BlockCipherMode type="Enumeration" value="GCM"/><TagLength type="Integer" value="0"/></CryptographicParameters><Data type="ByteString" value="00"/></RequestPayload></BatchItem></RequestMessage>`,
		`<ResponseMessage><ResponseHeader><ProtocolVersion><ProtocolVersionMajor type="Integer" value="1"/><ProtocolVersionMinor type="Integer" value="0"/></ProtocolVersion><TimeStamp type="DateTime" value="2012-04-27T08:12:24+00:00"/><BatchCount type="Integer" value="1"/></ResponseHeader><BatchItem><Operation type="Enumeration" value="Destroy"/><UniqueBatchItemID type="ByteString" value=""/><ResultStatus type="Enumeration" value="Success"/><ResponsePayload><UniqueIdentifier type="TextString" value="k"/></ResponsePayload></BatchItem></ResponseMessage>`,
	} {
		roots, _ := c04ParseXML([]byte(w))
		c04VectorMessage(c, roots[0], c04VecCase{File: "(crafted)", Var: "zero value of an optional element"}, false)
	}
	c.Extra("oasis_files", len(files))
	c.Extra("oasis_messages", nmsg)
}

// all elements of a tree in document order, with their parents
func c04Walk(x *c04X, parent *c04X, f func(x, parent *c04X)) {
	f(x, parent)
	for _, k := range x.Kids {
		c04Walk(k, x, f)
	}
}

// c04VectorVariations: drop one element that the schema allows to be absent, or replace one
// scalar by a boundary value of its type.  A variation the decoder rejects is not a failure (the
// dropped element may have been required); one it accepts must be reproduced exactly.
func c04VectorVariations(c *h.Ctx, g *c04Gen, x *c04X, vc c04VecCase) {
	var nodes [][2]*c04X
	c04Walk(x, nil, func(n, p *c04X) {
		if p != nil {
			nodes = append(nodes, [2]*c04X{n, p})
		}
	})
	if len(nodes) == 0 {
		return
	}
	r := c.Rng.Fork(uint64(900000 + len(nodes) + vc.Index))
	nvar := c.Pick(2, 6)
	for k := 0; k < nvar; k++ {
		y := x.clone()
		var ynodes [][2]*c04X
		c04Walk(y, nil, func(n, p *c04X) {
			if p != nil {
				ynodes = append(ynodes, [2]*c04X{n, p})
			}
		})
		pick := ynodes[r.Intn(len(ynodes))]
		n, p := pick[0], pick[1]
		v := vc
		drop := r.Bool() || c04ElemType(n) == "Structure"
		if drop && !c04Droppable(n, p) {
			continue
		}
		if drop {
			// drop the element
			for i, kk := range p.Kids {
				if kk == n {
					p.Kids = append(p.Kids[:i:i], p.Kids[i+1:]...)
					break
				}
			}
			v.Var = "drop " + n.Name
			c.Count("d:variation-drop")
		} else {
			// elements that decide how the rest is read (or that must agree with it) keep their value:
			// changing them makes the message non-conformant, which the property does not speak about
			switch n.Name {
			case "Operation", "ObjectType", "KeyFormatType", "CredentialType", "AttributeName", "ResultStatus", "BatchCount",
				"ProtocolVersionMajor", "ProtocolVersionMinor", "SecretDataType", "SplitKeyMethod":
				continue
			}
			nv := ""
			switch c04ElemType(n) {
			case "Integer":
				if vv, _ := n.attr("value"); vv != "" {
					if _, ok := c04ParseNum(vv); !ok {
						continue // flag names: leave alone
					}
				}
				nv = []string{"0", "-1", "2147483647", "-2147483648", "0x7FFFFFFF"}[r.Intn(5)]
			case "LongInteger":
				nv = []string{"0", "-1", "4503599627370496", "-4503599627370496", "9223372036854775807", "-9223372036854775808"}[r.Intn(6)]
			case "BigInteger":
				nv = []string{"00", "FF", "0080", "FF7F", "0100000000000000000000000000000000", "FEFFFFFFFFFFFFFFFF"}[r.Intn(6)]
			case "Enumeration":
				nv = []string{"0x00000001", "0x7FFFFFFF", "0xFFFFFFFF", "1"}[r.Intn(4)]
			case "Boolean":
				nv = []string{"true", "false"}[r.Intn(2)]
			case "TextString":
				nv = c04MsgTexts[r.Intn(len(c04MsgTexts))]
			case "ByteString":
				nv = []string{"", "00", "FF00FF", strings.ToUpper(hex.EncodeToString(r.Bytes(17)))}[r.Intn(4)]
			case "DateTime":
				nv = []string{"0001-01-01T00:00:00Z", "9999-12-31T23:59:59Z", "1970-01-01T00:00:00Z", "2000-02-29T12:00:00+05:30", "1969-12-31T23:59:59-01:00"}[r.Intn(5)]
			case "Interval":
				nv = []string{"0", "1", "4294967295", "86400"}[r.Intn(4)]
			default:
				continue
			}
			for i, a := range n.Attrs {
				if a[0] == "value" {
					n.Attrs[i][1] = nv
				}
			}
			v.Var = "set " + n.Name + "=" + nv
			c.Count("d:variation-value")
		}
		c04VectorMessage(c, y, v, false)
	}
}

// c04Droppable: elements the KMIP specification lets a message omit (KMIP 1.4 section 6 for the
// message structure, sections 2 and 3 for objects and attributes): dropping anything else gives a
// non-conformant message, which the property does not speak about.
var c04OptionalIn = map[string]map[string]bool{
	"RequestHeader":               {"MaximumResponseSize": true, "ClientCorrelationValue": true, "ServerCorrelationValue": true, "AsynchronousIndicator": true, "AttestationCapableIndicator": true, "AttestationType": true, "Authentication": true, "BatchErrorContinuationOption": true, "BatchOrderOption": true, "TimeStamp": true},
	"ResponseHeader":              {"Nonce": true, "AttestationType": true, "ClientCorrelationValue": true, "ServerCorrelationValue": true},
	"BatchItem":                   {"UniqueBatchItemID": true, "ResultMessage": true, "MessageExtension": true},
	"Attribute":                   {"AttributeIndex": true},
	"KeyBlock":                    {"KeyCompressionType": true, "CryptographicAlgorithm": true, "CryptographicLength": true, "KeyWrappingData": true},
	"KeyValue":                    {"Attribute": true},
	"TemplateAttribute":           {"Name": true, "Attribute": true},
	"CommonTemplateAttribute":     {"Name": true, "Attribute": true},
	"PrivateKeyTemplateAttribute": {"Name": true, "Attribute": true},
	"PublicKeyTemplateAttribute":  {"Name": true, "Attribute": true},
	"CryptographicParameters": {"BlockCipherMode": true, "PaddingMethod": true, "HashingAlgorithm": true, "KeyRoleType": true, "DigitalSignatureAlgorithm": true, "CryptographicAlgorithm": true,
		"RandomIV": true, "IVLength": true, "TagLength": true, "FixedFieldLength": true, "InvocationFieldLength": true, "CounterLength": true, "InitialCounterValue": true},
}

func c04Droppable(n, p *c04X) bool {
	if m, ok := c04OptionalIn[p.Name]; ok {
		return m[n.Name]
	}
	// inside payloads: repeated Attribute / AttributeName elements and template attributes
	if p.Name == "RequestPayload" || p.Name == "ResponsePayload" {
		switch n.Name {
		case "Attribute", "AttributeName", "TemplateAttribute", "CommonTemplateAttribute", "PrivateKeyTemplateAttribute", "PublicKeyTemplateAttribute",
			"StorageStatusMask", "MaximumItems", "ObjectGroupMember", "OffsetItems", "KeyFormatType", "KeyCompressionType", "KeyWrappingSpecification",
			"CryptographicParameters", "IVCounterNonce", "CorrelationValue", "InitIndicator", "FinalIndicator", "CompromiseOccurrenceDate", "Offset":
			return true
		}
	}
	return false
}

func c04ReplayVector(c *h.Ctx, g *c04Gen, m map[string]any) error {
	vm, _ := m["vector"].(map[string]any)
	if vm == nil {
		return fmt.Errorf("replay: no vector")
	}
	file, _ := vm["file"].(string)
	idx := 0
	if f, ok := vm["index"].(float64); ok {
		idx = int(f)
	}
	if doc, ok := vm["doc"].(string); ok && doc != "" {
		roots, cut := c04ParseXML([]byte(doc))
		if cut || len(roots) != 1 {
			return fmt.Errorf("replay: variation document does not parse")
		}
		varn, _ := vm["variation"].(string)
		c04VectorMessage(c, roots[0], c04VecCase{File: file, Index: idx, Var: varn}, false)
		return nil
	}
	msgs, err := c04LoadVector(c, file)
	if err != nil {
		return err
	}
	if idx >= len(msgs) {
		return fmt.Errorf("replay: no message %d in %s", idx, file)
	}
	c04VectorMessage(c, msgs[idx], c04VecCase{File: file, Index: idx}, true)
	return nil
}

var _ = kmip.V1_0
