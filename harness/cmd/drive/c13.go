package main

import (
	"context"
	"fmt"
	"net"
	"sort"
	"strings"
	"time"

	"github.com/ovh/kmip-go"
	"github.com/ovh/kmip-go/kmipclient"
	"github.com/ovh/kmip-go/kmipserver"
	"github.com/ovh/kmip-go/payloads"
	"github.com/ovh/kmip-go/ttlv"

	"verifharness/internal/h"
)

func init() { h.Register("C13", driveC13) }

var allVers = []kmip.ProtocolVersion{kmip.V1_0, kmip.V1_1, kmip.V1_2, kmip.V1_3, kmip.V1_4}

func subset(mask int) []kmip.ProtocolVersion {
	var l []kmip.ProtocolVersion
	for i, v := range allVers {
		if mask&(1<<i) != 0 {
			l = append(l, v)
		}
	}
	return l
}

func verLess(a, b kmip.ProtocolVersion) bool {
	if a.ProtocolVersionMajor != b.ProtocolVersionMajor {
		return a.ProtocolVersionMajor < b.ProtocolVersionMajor
	}
	return a.ProtocolVersionMinor < b.ProtocolVersionMinor
}

func coqVer(v kmip.ProtocolVersion) string {
	return fmt.Sprintf("(%d,%d)", v.ProtocolVersionMajor, v.ProtocolVersionMinor)
}
func coqVers(l []kmip.ProtocolVersion) string {
	s := make([]string, len(l))
	for i, v := range l {
		s[i] = coqVer(v)
	}
	return h.List(s)
}
func verStr(l []kmip.ProtocolVersion) string {
	s := make([]string, len(l))
	for i, v := range l {
		s[i] = v.String()
	}
	return strings.Join(s, ",")
}

// behaviours of the scripted discovery server
const (
	bConformant = iota
	bUnsupported
	bNotOffered
	bUnordered
	bEmpty
	bLibServer
	bFailed
	bNoPayload
	bForeignPayload
	bBadCount
	nBehaviours
)

var behName = []string{"conformant", "discovery-unsupported", "lists-not-offered", "unordered", "empty-list", "library-server", "other-failure", "no-payload", "foreign-payload", "bad-count"}

type c13obs struct {
	ok       bool
	adopted  kmip.ProtocolVersion
	nextVer  *kmip.ProtocolVersion // header version of the next request, as seen by the server
	cloneVer *kmip.ProtocolVersion
	offered  []kmip.ProtocolVersion
	replied  []kmip.ProtocolVersion
	panicked string
	libFailed bool
}

// serveScripted answers every request on conn; discovery per behaviour, others with a plain success.
func serveScripted(conn net.Conn, beh int, server []kmip.ProtocolVersion, exec *kmipserver.BatchExecutor, obs *c13obs, rng *h.Rand) {
	st := ttlv.NewStream(conn, 1<<20)
	defer conn.Close()
	for {
		var req kmip.RequestMessage
		if err := st.Recv(&req); err != nil {
			return
		}
		var resp *kmip.ResponseMessage
		isDiscover := len(req.BatchItem) == 1 && req.BatchItem[0].Operation == kmip.OperationDiscoverVersions
		if !isDiscover {
			v := req.Header.ProtocolVersion
			if obs.nextVer == nil {
				obs.nextVer = &v
			} else {
				obs.cloneVer = &v
			}
			resp = &kmip.ResponseMessage{Header: kmip.ResponseHeader{ProtocolVersion: req.Header.ProtocolVersion, TimeStamp: time.Unix(1, 0), BatchCount: int32(len(req.BatchItem))}}
			for _, bi := range req.BatchItem {
				resp.BatchItem = append(resp.BatchItem, kmip.ResponseBatchItem{Operation: bi.Operation, UniqueBatchItemID: bi.UniqueBatchItemID, ResultStatus: kmip.ResultStatusSuccess, ResponsePayload: &payloads.ActivateResponsePayload{UniqueIdentifier: "x"}})
			}
		} else {
			pl, _ := req.BatchItem[0].RequestPayload.(*payloads.DiscoverVersionsRequestPayload)
			var offered []kmip.ProtocolVersion
			if pl != nil {
				offered = pl.ProtocolVersion
			}
			obs.offered = offered
			hdr := kmip.ResponseHeader{ProtocolVersion: req.Header.ProtocolVersion, TimeStamp: time.Unix(1, 0), BatchCount: 1}
			item := kmip.ResponseBatchItem{Operation: kmip.OperationDiscoverVersions, ResultStatus: kmip.ResultStatusSuccess}
			common := func() []kmip.ProtocolVersion {
				var l []kmip.ProtocolVersion
				for _, v := range server {
					for _, o := range offered {
						if v == o {
							l = append(l, v)
							break
						}
					}
				}
				sort.Slice(l, func(i, j int) bool { return verLess(l[j], l[i]) })
				return l
			}
			switch beh {
			case bConformant:
				obs.replied = common()
				item.ResponsePayload = &payloads.DiscoverVersionsResponsePayload{ProtocolVersion: obs.replied}
			case bUnsupported:
				item.ResultStatus = kmip.ResultStatusOperationFailed
				item.ResultReason = kmip.ResultReasonOperationNotSupported
				item.ResultMessage = "nope"
			case bNotOffered:
				l := append([]kmip.ProtocolVersion(nil), server...)
				sort.Slice(l, func(i, j int) bool { return verLess(l[j], l[i]) })
				obs.replied = l
				item.ResponsePayload = &payloads.DiscoverVersionsResponsePayload{ProtocolVersion: l}
			case bUnordered:
				l := common()
				// deterministic non-descending arrangement: ascending, then rotated by a seed-derived amount
				sort.Slice(l, func(i, j int) bool { return verLess(l[i], l[j]) })
				if len(l) > 1 {
					k := rng.Intn(len(l))
					l = append(l[k:], l[:k]...)
				}
				obs.replied = l
				item.ResponsePayload = &payloads.DiscoverVersionsResponsePayload{ProtocolVersion: l}
			case bEmpty:
				obs.replied = nil
				item.ResponsePayload = &payloads.DiscoverVersionsResponsePayload{}
			case bLibServer:
				r := exec.HandleRequest(context.Background(), &req)
				if len(r.BatchItem) == 1 && r.BatchItem[0].ResultStatus != kmip.ResultStatusSuccess {
					obs.libFailed = true
				}
				if len(r.BatchItem) == 1 {
					switch p := r.BatchItem[0].ResponsePayload.(type) {
					case *payloads.DiscoverVersionsResponsePayload:
						obs.replied = p.ProtocolVersion
					case *payloads.DiscoverVersionsRequestPayload:
						obs.replied = p.ProtocolVersion
					}
				}
				resp = r
			case bFailed:
				item.ResultStatus = kmip.ResultStatusOperationFailed
				item.ResultReason = kmip.ResultReasonGeneralFailure
			case bNoPayload:
			case bForeignPayload:
				item.ResponsePayload = &payloads.ActivateResponsePayload{UniqueIdentifier: "x"}
				item.Operation = kmip.OperationActivate
			case bBadCount:
				hdr.BatchCount = 2
				item.ResponsePayload = &payloads.DiscoverVersionsResponsePayload{ProtocolVersion: common()}
			}
			if resp == nil {
				resp = &kmip.ResponseMessage{Header: hdr, BatchItem: []kmip.ResponseBatchItem{item}}
				if beh == bBadCount {
					resp.BatchItem = append(resp.BatchItem, item)
				}
			}
		}
		if err := st.Send(resp); err != nil {
			return
		}
	}
}

type c13case struct {
	Client   string `json:"client"`
	Server   string `json:"server"`
	Behav    string `json:"server_behaviour"`
	Enforced string `json:"enforced,omitempty"`
	cmask    int
	smask    int
	beh      int
	enf      *kmip.ProtocolVersion
	// history cases: a library server shared by the cases of one sequence (0 = fresh server per case);
	// histDefault: the executor keeps its default version list (SetSupportedProtocolVersions not called)
	hist        int
	histDefault bool
}

// library servers kept alive across the cases of a history sequence
var c13HistServers = map[int]*kmipserver.BatchExecutor{}

func runC13(cs c13case, rng *h.Rand) (obs c13obs) {
	client := subset(cs.cmask)
	server := subset(cs.smask)
	var exec *kmipserver.BatchExecutor
	if cs.beh == bLibServer {
		if cs.hist != 0 && c13HistServers[cs.hist] != nil {
			exec = c13HistServers[cs.hist]
		} else {
			exec = kmipserver.NewBatchExecutor()
			if !cs.histDefault {
				exec.SetSupportedProtocolVersions(append([]kmip.ProtocolVersion(nil), server...)...)
			}
			if cs.hist != 0 {
				c13HistServers[cs.hist] = exec
			}
		}
	}
	dial := func(ctx context.Context) (net.Conn, error) {
		a, b := net.Pipe()
		go serveScripted(b, cs.beh, server, exec, &obs, rng)
		return a, nil
	}
	defer func() {
		if r := recover(); r != nil {
			obs.panicked = fmt.Sprint(r)
		}
	}()
	// hand the configured set over in a seed-dependent order: the API takes a set
	cl := append([]kmip.ProtocolVersion(nil), client...)
	for i := len(cl) - 1; i > 0; i-- {
		j := rng.Intn(i + 1)
		cl[i], cl[j] = cl[j], cl[i]
	}
	opts := []kmipclient.Option{kmipclient.WithDialerUnsafe(dial), kmipclient.WithKmipVersions(cl...)}
	if len(client) >= 2 && (cs.cmask+cs.smask+cs.beh)%3 == 0 {
		// the same set configured through two options, lower versions first (the options accumulate)
		k := 1 + cs.cmask%(len(client)-1)
		opts = []kmipclient.Option{kmipclient.WithDialerUnsafe(dial), kmipclient.WithKmipVersions(client[:k]...), kmipclient.WithKmipVersions(client[k:]...)}
	}
	if cs.enf != nil {
		opts = append(opts, kmipclient.EnforceVersion(*cs.enf))
	}
	ctx, cancel := context.WithTimeout(context.Background(), 20*time.Second)
	defer cancel()
	var c *kmipclient.Client
	var err error
	if (cs.cmask+cs.smask)%2 == 1 {
		// the other way to connect: the cluster dialer (same negotiation, same enforced version)
		c, err = kmipclient.DialClusterContext(ctx, []string{"mem"}, append(opts, kmipclient.WithRetryTimeout(time.Second))...)
	} else {
		c, err = kmipclient.DialContext(ctx, "mem", opts...)
	}
	if err != nil {
		return obs
	}
	obs.ok = true
	obs.adopted = c.Version()
	_, _ = c.Request(ctx, &payloads.ActivateRequestPayload{UniqueIdentifier: "x"})
	if c2, err := c.CloneCtx(ctx); err == nil {
		_, _ = c2.Request(ctx, &payloads.ActivateRequestPayload{UniqueIdentifier: "y"})
		_ = c2.Close()
	}
	_ = c.Close()
	return obs
}

// expectC13 is the property's own statement evaluated in Go (the search oracle).
func expectC13(cs c13case, replied []kmip.ProtocolVersion, libFailed bool) (ok bool, v kmip.ProtocolVersion) {
	if cs.enf != nil {
		return true, *cs.enf
	}
	client := subset(cs.cmask)
	inClient := func(x kmip.ProtocolVersion) bool {
		for _, c := range client {
			if c == x {
				return true
			}
		}
		return false
	}
	switch cs.beh {
	case bUnsupported:
		return inClient(kmip.V1_0), kmip.V1_0
	case bFailed, bNoPayload, bForeignPayload, bBadCount:
		return false, v
	}
	if libFailed {
		// the library's own server refuses a request whose header version it does not support; the
		// discovery request travels under 1.1 (the first version that has the operation), so this
		// excuses a failed negotiation only when that server does not support 1.1
		has11 := false
		for _, x := range subset(cs.smask) {
			if x == kmip.V1_1 {
				has11 = true
			}
		}
		if !has11 || cs.histDefault {
			return false, v
		}
		replied = subset(cs.smask)
	}
	found := false
	for _, x := range replied {
		if inClient(x) && (!found || verLess(v, x)) {
			found, v = true, x
		}
	}
	return found, v
}

func driveC13(c *h.Ctx) error {
	c.Rule("exhaustive grid: 31 non-empty client subsets x 32 server subsets of {1.0..1.4} x 10 scripted server behaviours " +
		"(conformant, discovery unsupported, lists versions not offered, unordered list, empty list, the library's own BatchExecutor, " +
		"other failure, no payload, foreign payload, bad batch count) x {not enforced, enforced 1.2}; real kmipclient.DialContext over net.Pipe; " +
		"a case is non-trivial when client and server sets are not both the full set; distinct by (client,server,behaviour,enforced)")
	var cases []c13case
	if m, _ := c.Replay["case"].(map[string]any); c.Replay == nil || (m != nil && m["leg"] != nil) {
		c13SuccessiveClients(c)
		c13DroppedDuringDiscovery(c)
		if c.Replay != nil {
			return c.WriteCases("cases_C13.v", "", 0)
		}
	}
	if c.Replay != nil {
		m, _ := c.Replay["case"].(map[string]any)
		cs := c13case{}
		if m != nil {
			cs.cmask = int(m["cmask"].(float64))
			cs.smask = int(m["smask"].(float64))
			cs.beh = int(m["beh"].(float64))
			if e, ok := m["enf"].(float64); ok && e >= 0 {
				v := allVers[int(e)]
				cs.enf = &v
			}
			if pre, ok := m["hist_prefix"].([]any); ok {
				// a history case: replay the clients that were served before on the same server
				def, _ := m["hist_default"].(bool)
				for _, x := range pre {
					cases = append(cases, c13case{cmask: int(x.(float64)), smask: cs.smask, beh: bLibServer, hist: 1, histDefault: def})
				}
				cs.hist, cs.histDefault = 1, def
			}
		}
		cases = append(cases, cs)
	} else {
		enf := kmip.V1_2
		for cm := 1; cm < 32; cm++ {
			for sm := 0; sm < 32; sm++ {
				for b := 0; b < nBehaviours; b++ {
					cases = append(cases, c13case{cmask: cm, smask: sm, beh: b})
					if b <= bLibServer && (cm+sm+b)%4 == 0 {
						cases = append(cases, c13case{cmask: cm, smask: sm, beh: b, enf: &enf})
					}
				}
			}
		}
		c.Exhaustive(true)
		// histories: ONE library server serving a sequence of clients with different configured sets
		// (a restricted client first, then wider ones): the server's advertised set must not depend on
		// who asked before.  Sequences on explicitly configured servers and on a default executor.
		hid := 0
		for _, sm := range []int{31, 30, 29, 23, 21, 14, 7, 31} {
			for rep := 0; rep < c.Pick(2, 8); rep++ {
				hid++
				r := c.Rng.Fork(uint64(900000 + hid))
				def := sm == 31 && rep%2 == 1
				seq := []int{1 << r.Intn(5), 1 + r.Intn(31), 31, 1 + r.Intn(31), 1 << r.Intn(5), 31, 1 + r.Intn(31)}
				for _, cm := range seq {
					cases = append(cases, c13case{cmask: cm, smask: sm, beh: bLibServer, hist: hid, histDefault: def})
				}
			}
		}
	}
	var rows []string
	var srvRows []string
	histPrefix := map[int][]int{}
	for i, cs := range cases {
		cs.Client = verStr(subset(cs.cmask))
		cs.Server = verStr(subset(cs.smask))
		cs.Behav = behName[cs.beh]
		enfIdx := -1
		if cs.enf != nil {
			cs.Enforced = cs.enf.String()
			for k, v := range allVers {
				if v == *cs.enf {
					enfIdx = k
				}
			}
		}
		c.Current(map[string]any{"cmask": cs.cmask, "smask": cs.smask, "beh": cs.beh, "enf": enfIdx, "behaviour": cs.Behav, "history": cs.hist})
		obs := runC13(cs, c.Rng.Fork(uint64(i)))
		key := fmt.Sprintf("%d/%d/%d/%d/%d", cs.cmask, cs.smask, cs.beh, enfIdx, cs.hist)
		c.Eval(key, !(cs.cmask == 31 && cs.smask == 31))
		c.Count("behaviour:" + cs.Behav)
		caseJSON := map[string]any{"cmask": cs.cmask, "smask": cs.smask, "beh": cs.beh, "enf": enfIdx,
			"client": cs.Client, "server": cs.Server, "behaviour": cs.Behav, "enforced": cs.Enforced,
			"server_replied": verStr(obs.replied), "observed_ok": obs.ok, "observed_version": obs.adopted.String(), "history": cs.hist}
		if cs.hist != 0 {
			c.Count("history-case")
			caseJSON["hist_prefix"] = append([]int{}, histPrefix[cs.hist]...)
			caseJSON["hist_default"] = cs.histDefault
			histPrefix[cs.hist] = append(histPrefix[cs.hist], cs.cmask)
		}
		if i%997 == 0 {
			c.Sample(caseJSON)
		}
		// ---- oracle (property text, on the implementation alone)
		if obs.panicked != "" {
			c.Fail("C13/panic/"+cs.Behav, "Dial panicked: "+obs.panicked, caseJSON)
			c.Count("outcome:panic")
		} else {
			wantOK, wantV := expectC13(cs, obs.replied, obs.libFailed)
			switch {
			case wantOK && !obs.ok:
				c.Fail("C13/fails-despite-common-version/"+cs.Behav, fmt.Sprintf("Dial failed although %s is common to client {%s} and reply {%s}", wantV, cs.Client, verStr(obs.replied)), caseJSON)
			case !wantOK && obs.ok:
				c.Fail("C13/adopts-without-common-version/"+cs.Behav, fmt.Sprintf("Dial adopted %s although client {%s} and reply {%s} have no acceptable version", obs.adopted, cs.Client, verStr(obs.replied)), caseJSON)
			case wantOK && obs.adopted != wantV:
				c.Fail("C13/adopts-not-highest-common/"+cs.Behav, fmt.Sprintf("Dial adopted %s, highest common version of client {%s} and reply {%s} is %s", obs.adopted, cs.Client, verStr(obs.replied), wantV), caseJSON)
			}
			if obs.ok {
				c.Count("outcome:adopt")
				if obs.nextVer == nil || *obs.nextVer != obs.adopted {
					c.Fail("C13/request-not-stamped", fmt.Sprintf("request after Dial carries %v, adopted %s", obs.nextVer, obs.adopted), caseJSON)
				}
				if obs.cloneVer == nil || *obs.cloneVer != obs.adopted {
					c.Fail("C13/clone-not-stamped", fmt.Sprintf("request of a clone carries %v, adopted %s", obs.cloneVer, obs.adopted), caseJSON)
				}
			} else {
				c.Count("outcome:fail")
			}
		}
		// ---- row for the model
		var reply string
		switch cs.beh {
		case bUnsupported:
			reply = "RNotSupported"
		case bFailed:
			reply = "RFailed"
		case bNoPayload:
			reply = "RNoPayload"
		case bForeignPayload:
			reply = "RForeignPayload"
		case bBadCount:
			reply = "RBadCount"
		default:
			reply = "(RVersions " + coqVers(obs.replied) + ")"
			if obs.libFailed {
				reply = "RFailed"
			}
		}
		enfS := "None"
		if cs.enf != nil {
			enfS = "(Some " + coqVer(*cs.enf) + ")"
		}
		out := "Fail"
		if obs.panicked != "" {
			out = "(Adopt (-1,-1))" // a panic never matches the model
		} else if obs.ok {
			out = "(Adopt " + coqVer(obs.adopted) + ")"
		}
		rows = append(rows, fmt.Sprintf("(%s, %s, %s, %s)", enfS, coqVers(subset(cs.cmask)), reply, out))
		c.IndexCase("mism_negotiate", len(rows)-1, caseJSON)
		if cs.beh == bLibServer && cs.enf == nil && !obs.libFailed {
			// server side table: SetSupportedProtocolVersions + handleDiscover
			srvRows = append(srvRows, fmt.Sprintf("(%s, %s, %s)", coqVers(subset(cs.smask)), coqVers(obs.offered), coqVers(obs.replied)))
			c.IndexCase("mism_server", len(srvRows)-1, caseJSON)
			// oracle on the library server: lists exactly the common versions
			want := map[kmip.ProtocolVersion]bool{}
			srv := subset(cs.smask)
			if len(srv) == 0 {
				srv = allVers
			}
			for _, v := range srv {
				for _, o := range obs.offered {
					if v == o {
						want[v] = true
					}
				}
			}
			got := map[kmip.ProtocolVersion]bool{}
			for _, v := range obs.replied {
				got[v] = true
			}
			same := len(want) == len(got)
			for v := range want {
				if !got[v] {
					same = false
				}
			}
			if !same {
				c.Fail("C13/library-server-list", fmt.Sprintf("library server {%s} offered {%s} replied {%s}", cs.Server, verStr(obs.offered), verStr(obs.replied)), caseJSON)
			}
		}
	}
	var sb strings.Builder
	sb.WriteString("From Coq Require Import ZArith List Bool.\nFrom KV Require Import Negotiate Cases.\nImport ListNotations.\nOpen Scope Z_scope.\n")
	defs, expr := h.Chunk("rows", "option ver * list ver * reply * outcome", rows, 400)
	sb.WriteString(defs)
	sdefs, sexpr := h.Chunk("srows", "list ver * list ver * list ver", srvRows, 400)
	sb.WriteString(sdefs)
	sb.WriteString(`
Definition outcome_eqb (a b : outcome) : bool :=
  match a, b with
  | Adopt x, Adopt y => ver_eqb x y
  | Fail, Fail => true
  | _, _ => false
  end.
Definition lver_eqb := list_eqb ver_eqb.
Definition row_ok (r : option ver * list ver * reply * outcome) : bool :=
  match r with (e, c, rep, o) => outcome_eqb (negotiate e c rep) o end.
Definition srow_ok (r : list ver * list ver * list ver) : bool :=
  match r with (s, off, rep) => lver_eqb (handle_discover (set_supported s) off) rep end.
`)
	fmt.Fprintf(&sb, "Definition mism_negotiate := Eval vm_compute in bad_idx row_ok %s 0.\nPrint mism_negotiate.\n", expr)
	fmt.Fprintf(&sb, "Definition mism_server := Eval vm_compute in bad_idx srow_ok %s 0.\nPrint mism_server.\n", sexpr)
	return c.WriteCases("cases_C13.v", sb.String(), len(rows)+len(srvRows))
}
