package main

// Scenario generators, Coq printers and the direct oracle shared by the C10 and C11 drivers.

import (
	"fmt"
	"strings"

	"verifharness/internal/clisim"
	"verifharness/internal/h"
)

// ---- model view of a scenario (ConnScenario.v) ----

// ccModelKind maps a transport failure kind to the model's kind (what Stream.Recv / Stream.Send
// end up returning): io.EOF and io.ErrClosedPipe are the retried ones; a Read returning (0, nil)
// becomes io.EOF after some bytes and io.ErrUnexpectedEOF before any.
func ccModelKind(k int, partial bool) string {
	switch clisim.Kind(k) {
	case clisim.KEOF, clisim.KClosedPipe:
		return "KRetry"
	case clisim.KNetClosed:
		return "KNetClosed"
	case clisim.KZeroRead:
		if partial {
			return "KRetry"
		}
		return "KOther"
	}
	return "KOther"
}

func ccCoqReq(r ccReq) string {
	w := "PWOk"
	if r.W != 0 {
		w = "PWFail " + ccModelKind(r.WK, false)
	}
	rp := "PRNow"
	switch clisim.ReplyAct(r.R) {
	case clisim.RFail:
		rp = "PRFail " + ccModelKind(r.RK, false)
	case clisim.RPartial:
		rp = "PRFail " + ccModelKind(r.RK, r.PN > 0)
	case clisim.RThenFail:
		rp = "PRThenFail " + ccModelKind(r.RK, false)
	case clisim.RSilent:
		rp = "PRSilent"
	}
	return "(" + w + ", " + rp + ")"
}

var ccCoqTrig = []string{"TNone", "TPre", "TLoaded", "TWriteHeld", "TSent", "TReplyHeld", "TDial"}
var ccCoqAct = []string{"ANone", "ACancel", "AClose"}

func ccCoqScenario(sc ccScenario) string {
	var pl []string
	for _, p := range sc.Plans {
		var rq []string
		for _, r := range p.Reqs {
			rq = append(rq, ccCoqReq(r))
		}
		pl = append(pl, fmt.Sprintf("{| dialfail := %s; reqs := %s |}", h.Bool(p.DialFail), h.List(rq)))
	}
	var st []string
	for _, s := range sc.Steps {
		if s.Close {
			st = append(st, "SClose")
		} else if s.Now {
			st = append(st, fmt.Sprintf("SCallNow %s %s", ccCoqTrig[s.Trig], ccCoqAct[s.Act]))
		} else {
			st = append(st, fmt.Sprintf("SCall %s %s", ccCoqTrig[s.Trig], ccCoqAct[s.Act]))
		}
	}
	return fmt.Sprintf("{| negotiate := %s; plans := %s; steps := %s |}", h.Bool(sc.Negotiate), h.List(pl), h.List(st))
}

func ccCoqOutcome(o ccObs) string {
	var st []string
	for _, s := range o.Steps {
		st = append(st, fmt.Sprintf("{| o_res := %d; o_ntx := %d; o_dials := %d |}", s.Res, s.Ntx, s.Dials))
	}
	clean := o.LeakRead == 0 && o.LeakWrite == 0 && o.OpenConns == 0
	return fmt.Sprintf("{| dial_ok := %s; o_steps := %s; o_clean := %s |}", h.Bool(o.DialOK), h.List(st), h.Bool(clean))
}

// ---- generators ----

type ccGenCase struct {
	Family string
	Sc     ccScenario
}

// fault atoms: everything the transport can do to one request/response exchange
func ccWriteAtoms() []ccReq {
	var l []ccReq
	for _, k := range []clisim.Kind{clisim.KEOF, clisim.KClosedPipe, clisim.KNetClosed, clisim.KReset, clisim.KBrokenPipe, clisim.KTimeout} {
		l = append(l, ccReq{W: int(clisim.WFail), WK: int(k)})
	}
	for _, n := range []int{1, 8, 23} {
		l = append(l, ccReq{W: int(clisim.WShort), WK: int(clisim.KShortWrite), SN: n})
	}
	l = append(l, ccReq{W: int(clisim.WShort), WK: int(clisim.KReset), SN: 9})
	return l
}

func ccReplyAtoms() []ccReq {
	var l []ccReq
	for _, k := range []clisim.Kind{clisim.KEOF, clisim.KClosedPipe, clisim.KNetClosed, clisim.KReset, clisim.KZeroRead, clisim.KTimeout} {
		l = append(l, ccReq{R: int(clisim.RFail), RK: int(k)})
		l = append(l, ccReq{R: int(clisim.RThenFail), RK: int(k)})
	}
	for _, n := range []int{1, 7, 8, 9, 40, 100000} {
		for _, k := range []clisim.Kind{clisim.KEOF, clisim.KReset, clisim.KZeroRead} {
			l = append(l, ccReq{R: int(clisim.RPartial), RK: int(k), PN: n})
		}
	}
	l = append(l, ccReq{J: true}, ccReq{Ch: 1}, ccReq{Ch: 3, J: true}, ccReq{R: int(clisim.RFail), RK: int(clisim.KEOF), J: true})
	return l
}

func ccCalls(n int) []ccStep { return make([]ccStep, n) }

func ccPlanAt(d, j int, r ccReq) []ccPlan {
	pl := make([]ccPlan, d+1)
	pl[d].Reqs = make([]ccReq, j+1)
	pl[d].Reqs[j] = r
	return pl
}

var ccTails = [][]ccStep{
	{{}},
	{{}, {}},
	{{Close: true}},
	{{Close: true}, {}},
	{{}, {Close: true}, {}},
}

// ccGenSingle: one failure at every point of every exchange (including negotiation), every kind,
// followed by every "what the caller does next".
func ccGenSingle() []ccGenCase {
	var out []ccGenCase
	atoms := append(ccWriteAtoms(), ccReplyAtoms()...)
	for _, neg := range []bool{false, true} {
		for e := 0; e < 3; e++ {
			for ai, a := range atoms {
				for ti, tail := range ccTails {
					// keep the grid affordable: all tails for exchange 0/1, two tails for exchange 2
					if e == 2 && ti > 1 {
						continue
					}
					if neg && ti > 2 && ai%3 != 0 {
						continue
					}
					ncalls := e + 1
					if neg {
						ncalls = e // exchange 0 is the negotiation itself
					}
					steps := append(ccCalls(ncalls), tail...)
					out = append(out, ccGenCase{"single-fault", ccScenario{Negotiate: neg, Plans: ccPlanAt(0, e, a), Steps: steps}})
				}
			}
		}
	}
	return out
}

// ccGenChains: a failure on the first exchange of each successive connection (retry chains,
// dial failures), exhaustive up to length 3, sampled up to length 5.
func ccGenChains(rng *h.Rand, nrandom int) []ccGenCase {
	alpha := []ccPlan{
		{},
		{Reqs: []ccReq{{R: int(clisim.RFail), RK: int(clisim.KEOF)}}},
		{Reqs: []ccReq{{R: int(clisim.RFail), RK: int(clisim.KNetClosed)}}},
		{Reqs: []ccReq{{W: int(clisim.WFail), WK: int(clisim.KClosedPipe)}}},
		{Reqs: []ccReq{{R: int(clisim.RFail), RK: int(clisim.KReset)}}},
		{Reqs: []ccReq{{R: int(clisim.RThenFail), RK: int(clisim.KEOF)}}},
		{Reqs: []ccReq{{R: int(clisim.RPartial), RK: int(clisim.KEOF), PN: 12}}},
		{DialFail: true},
	}
	var out []ccGenCase
	var rec func(prefix []ccPlan, depth int)
	rec = func(prefix []ccPlan, depth int) {
		if len(prefix) > 0 {
			for _, neg := range []bool{false, true} {
				if neg && len(prefix) > 2 {
					continue
				}
				out = append(out, ccGenCase{"retry-chain", ccScenario{Negotiate: neg, Plans: append([]ccPlan(nil), prefix...), Steps: ccCalls(3)}})
			}
		}
		if depth == 0 {
			return
		}
		for i, a := range alpha {
			if len(prefix) == 0 && i == len(alpha)-1 {
				continue // the very first dial is DialContext's own
			}
			rec(append(append([]ccPlan(nil), prefix...), a), depth-1)
		}
	}
	rec(nil, 3)
	for i := 0; i < nrandom; i++ {
		n := 4 + rng.Intn(3)
		var pl []ccPlan
		for d := 0; d < n; d++ {
			k := rng.Intn(len(alpha))
			if d == 0 && k == len(alpha)-1 {
				k = 1
			}
			pl = append(pl, alpha[k])
		}
		steps := ccCalls(2 + rng.Intn(3))
		if rng.Chance(1, 4) {
			steps = append(steps, ccStep{Close: true}, ccStep{})
		}
		out = append(out, ccGenCase{"retry-chain-random", ccScenario{Negotiate: rng.Chance(1, 4), Plans: pl, Steps: steps}})
	}
	return out
}

// ccGenTriggers: every cancellation / Close instant of a call, on a healthy connection and
// combined with a failure, followed by further calls.
func ccGenTriggers() []ccGenCase {
	var out []ccGenCase
	type ta struct{ t, a int }
	var tas []ta
	for t := ccTPre; t <= ccTDial; t++ {
		for a := ccACancel; a <= ccAClose; a++ {
			if t == ccTPre && a == ccAClose {
				continue // same as a Close step followed by a call
			}
			tas = append(tas, ta{t, a})
		}
	}
	plans := [][]ccPlan{
		nil,
		ccPlanAt(0, 0, ccReq{R: int(clisim.RFail), RK: int(clisim.KEOF)}),   // the trigger is met again on the retry
		ccPlanAt(0, 0, ccReq{W: int(clisim.WFail), WK: int(clisim.KEOF)}),   // write fails first: holds apply to the retry
		ccPlanAt(0, 0, ccReq{R: int(clisim.RFail), RK: int(clisim.KReset)}), // fatal failure
		ccPlanAt(1, 0, ccReq{R: int(clisim.RFail), RK: int(clisim.KEOF)}),
		{{Reqs: []ccReq{{R: int(clisim.RFail), RK: int(clisim.KEOF)}}}, {DialFail: true}},
		ccPlanAt(0, 0, ccReq{R: int(clisim.RThenFail), RK: int(clisim.KEOF)}),
		ccPlanAt(0, 0, ccReq{R: int(clisim.RSilent)}),
	}
	for _, x := range tas {
		for pi, pl := range plans {
			silent := pi == len(plans)-1
			if silent && !(x.t == ccTReplyHeld || x.t == ccTSent && false) {
				// a silent server needs a trigger that ends the call while it waits
				if !(x.t == ccTWriteHeld) {
					continue
				}
			}
			for ti, tail := range ccTails {
				if ti == 2 {
					continue
				}
				for _, lead := range []int{0, 1} {
					if lead == 1 && (pi > 1 || ti > 1) {
						continue
					}
					steps := append(ccCalls(lead), ccStep{Trig: x.t, Act: x.a})
					steps = append(steps, tail...)
					n := 1
					if x.t == ccTLoaded || x.t == ccTWriteHeld {
						n = 3 // racy windows: several runs of the same scenario
					}
					for k := 0; k < n; k++ {
						out = append(out, ccGenCase{"trigger-" + ccActNames[x.a] + "@" + ccTrigNames[x.t], ccScenario{Plans: pl, Steps: steps}})
					}
				}
			}
		}
	}
	// a silent server: the call can only end through its context or a Close
	for _, x := range []ta{{ccTReplyHeld, ccACancel}, {ccTReplyHeld, ccAClose}} {
		for _, tail := range ccTails[:2] {
			steps := append([]ccStep{{Trig: x.t, Act: x.a}}, tail...)
			out = append(out, ccGenCase{"trigger-silent", ccScenario{Plans: ccPlanAt(0, 0, ccReq{R: int(clisim.RSilent)}), Steps: steps}})
		}
	}
	// two triggered calls in a row
	for _, x := range tas {
		for _, y := range tas {
			if x.a == ccAClose {
				continue
			}
			out = append(out, ccGenCase{"trigger-pair", ccScenario{Steps: []ccStep{{Trig: x.t, Act: x.a}, {Trig: y.t, Act: y.a}, {}}}})
		}
	}
	return out
}

// ccGenRaces: the next call starts at the very instant the connection is failing or being torn
// down ("the server closes the connection right after replying", a failure noticed by readloop
// while the caller is already in send, a Close still in progress): no settling between the steps.
func ccGenRaces() []ccGenCase {
	var out []ccGenCase
	kinds := []clisim.Kind{clisim.KEOF, clisim.KClosedPipe, clisim.KNetClosed, clisim.KReset, clisim.KZeroRead}
	for _, k := range kinds {
		for e := 0; e < 2; e++ {
			for rep := 0; rep < 6; rep++ { // a race: several runs
				steps := append(ccCalls(e+1), ccStep{Now: true})
				if rep%2 == 1 {
					steps = append(steps, ccStep{Now: true})
				}
				if rep >= 4 {
					steps = append(steps, ccStep{})
				}
				out = append(out, ccGenCase{"race-next-call", ccScenario{Plans: ccPlanAt(0, e, ccReq{R: int(clisim.RThenFail), RK: int(k)}), Steps: steps}})
				pl := ccPlanAt(0, e, ccReq{R: int(clisim.RThenFail), RK: int(k)})
				pl = append(pl, ccPlan{Reqs: []ccReq{{R: int(clisim.RThenFail), RK: int(k)}}})
				out = append(out, ccGenCase{"race-next-call", ccScenario{Plans: pl, Steps: steps}})
			}
		}
	}
	// right after an abandoned or failed call
	for t := ccTPre; t <= ccTDial; t++ {
		for rep := 0; rep < 2; rep++ {
			out = append(out, ccGenCase{"race-after-cancel", ccScenario{Steps: []ccStep{{Trig: t, Act: ccACancel}, {Now: true}, {Now: true}}}})
			out = append(out, ccGenCase{"race-after-cancel", ccScenario{Plans: ccPlanAt(0, 0, ccReq{R: int(clisim.RFail), RK: int(clisim.KEOF)}),
				Steps: []ccStep{{Trig: t, Act: ccACancel}, {Now: true}}}})
		}
	}
	for _, a := range append(ccWriteAtoms()[:4], ccReplyAtoms()[:8]...) {
		out = append(out, ccGenCase{"race-after-failure", ccScenario{Plans: ccPlanAt(0, 0, a), Steps: []ccStep{{}, {Now: true}, {Now: true}}}})
	}
	return out
}

func ccGenRandom(rng *h.Rand, n int) []ccGenCase {
	var out []ccGenCase
	watoms, ratoms := ccWriteAtoms(), ccReplyAtoms()
	for i := 0; i < n; i++ {
		r := rng.Fork(uint64(i))
		sc := ccScenario{Negotiate: r.Chance(1, 5)}
		nconn := 1 + r.Intn(5)
		for d := 0; d < nconn; d++ {
			p := ccPlan{DialFail: d > 0 && r.Chance(1, 6)}
			nreq := r.Intn(4)
			for j := 0; j < nreq; j++ {
				switch r.Intn(4) {
				case 0:
					p.Reqs = append(p.Reqs, watoms[r.Intn(len(watoms))])
				case 1, 2:
					p.Reqs = append(p.Reqs, ratoms[r.Intn(len(ratoms))])
				default:
					p.Reqs = append(p.Reqs, ccReq{})
				}
			}
			sc.Plans = append(sc.Plans, p)
		}
		nsteps := 2 + r.Intn(5)
		closed := false
		for k := 0; k < nsteps; k++ {
			switch {
			case r.Chance(1, 8):
				sc.Steps = append(sc.Steps, ccStep{Close: true})
				closed = true
			case r.Chance(1, 3) && !closed:
				t := ccTPre + r.Intn(6)
				a := ccACancel + r.Intn(2)
				if t == ccTPre {
					a = ccACancel
				}
				sc.Steps = append(sc.Steps, ccStep{Trig: t, Act: a})
			default:
				sc.Steps = append(sc.Steps, ccStep{Now: k > 0 && r.Chance(1, 4)})
			}
		}
		out = append(out, ccGenCase{"random", sc})
	}
	return out
}

// ccHasSilent: scenarios with a never-replying server only make sense when every call that may
// reach that request carries a trigger ending it; the generators ensure it structurally for the
// families above, random scenarios never use RSilent.

// ---- direct oracle: the property statements evaluated on the observed behaviour ----

type ccVerdict struct {
	Sig  string
	Desc string
}

// ccOracle checks one observed run against the statements of C10 and C11.
func ccOracle(sc ccScenario, obs ccObs) []ccVerdict {
	var v []ccVerdict
	add := func(sig, f string, a ...any) { v = append(v, ccVerdict{sig, fmt.Sprintf(f, a...)}) }
	closed := false
	lastTrig := "no-trigger"
	si := 0 // index in sc.Steps
	for i, o := range obs.Steps {
		what := "negotiation"
		var st ccStep
		if !o.IsNeg {
			if si < len(sc.Steps) {
				st = sc.Steps[si]
			}
			si++
			what = fmt.Sprintf("step %d (%s)", i, strings.TrimSpace(ccDescribe(ccScenario{Steps: []ccStep{st}})))
		}
		if !o.IsNeg && !o.IsClose && st.Trig != ccTNone {
			lastTrig = "after-" + ccActNames[st.Act] + "@" + ccTrigNames[st.Trig]
		}
		switch o.Res {
		case ccRPanic:
			where := "call"
			if o.IsClose {
				where = "close"
			} else if o.IsNeg {
				where = "dial"
			}
			add("panic/"+where, "%s panicked: %s", what, o.Got)
		case ccRHang:
			add("hang/"+ccTrigNames[st.Trig], "%s did not return", what)
		case ccRWrong:
			add("wrong-response/"+lastTrig, "%s returned the response %q of another request", what, o.Got)
		}
		if o.Ntx > 4 {
			add("retry-bound", "%s transmitted its request %d times", what, o.Ntx)
		}
		if !o.IsClose && !o.IsNeg && closed && o.Res == ccROk {
			add("closed-client-succeeds", "%s succeeded although the client had been closed", what)
		}
		if o.IsClose || (o.Acted && st.Act == ccAClose) {
			closed = true
		}
	}
	if obs.LeakRead+obs.LeakWrite > 0 {
		add("goroutine-leak", "%d readloop and %d writeloop goroutines still alive after Close", obs.LeakRead, obs.LeakWrite)
	}
	if obs.OpenConns > 0 {
		add("connection-leak", "%d connections never closed by the client", obs.OpenConns)
	}
	return v
}

// ccExpectRecovery: a plain call on a client that is not closed, when nothing scripted can fail
// any more (no failure left in any plan from the current connection on, no failing dial), must
// succeed whatever happened before ("at the latest the next call uses a fresh connection").
func ccFutureClean(sc ccScenario, reqCounts []int) bool {
	cur := len(reqCounts) - 1
	for d := cur; d < len(sc.Plans); d++ {
		if d < 0 {
			continue
		}
		p := sc.Plans[d]
		if d > cur && p.DialFail {
			return false
		}
		from := 0
		if d == cur && reqCounts[d] > 0 {
			from = reqCounts[d]
		}
		for j := from; j < len(p.Reqs); j++ {
			r := p.Reqs[j]
			if r.W != 0 || r.R != 0 {
				return false
			}
		}
	}
	return true
}
