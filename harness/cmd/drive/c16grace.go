package main

// C16, after the grace period (oracle only, on a server of its own): a request still in its handler when
// the 3 s grace period expires is cancelled, and once Shutdown has returned the server has CLOSED that
// connection (the client, which keeps its end open, sees the end of the stream) - nothing of the
// connection is left behind.

import (
	"context"
	"fmt"
	"net"
	"time"

	"github.com/ovh/kmip-go"
	"github.com/ovh/kmip-go/kmipserver"
	"github.com/ovh/kmip-go/payloads"
	"github.com/ovh/kmip-go/ttlv"

	"verifharness/internal/h"
	"verifharness/internal/memnet"
)

func c16AfterGrace(c *h.Ctx) {
	ln := memnet.NewListener()
	exec := kmipserver.NewBatchExecutor()
	entered := make(chan struct{}, 1)
	exec.Route(kmip.OperationGet, c09HandlerFunc(func(ctx context.Context, req kmip.OperationPayload) (kmip.OperationPayload, error) {
		entered <- struct{}{}
		<-ctx.Done()
		return &payloads.GetResponsePayload{UniqueIdentifier: "x"}, nil
	}))
	srv := kmipserver.NewServer(ln, exec)
	go func() { _ = srv.Serve() }()
	var done <-chan struct{}
	cli, err := ln.DialWrapped(1<<20, 1<<20, func(s net.Conn) net.Conn { done = s.(*memnet.Conn).Done(); return s })
	if err != nil {
		return
	}
	defer cli.Close()
	st := ttlv.NewStream(cli, -1)
	msg := kmip.NewRequestMessage(kmip.V1_4, &payloads.GetRequestPayload{UniqueIdentifier: "x"})
	if st.Send(&msg) != nil {
		return
	}
	select {
	case <-entered:
	case <-time.After(3 * time.Second):
		return
	}
	t0 := time.Now()
	ret := make(chan struct{})
	go func() { _ = srv.Shutdown(); close(ret) }()
	cj := map[string]any{"leg": "after-grace"}
	select {
	case <-ret:
	case <-time.After(8 * time.Second):
		c.Fail("C16/scenario-hang/after-grace", "Shutdown did not return within 8 s with one handler waiting for cancellation", cj)
		return
	}
	cj["shutdown_ms"] = time.Since(t0).Milliseconds()
	c.Eval("after-grace", true)
	c.Count("leg:after-grace")
	select {
	case <-done:
	case <-time.After(1 * time.Second):
		c.Fail("C16/connection-open-after-shutdown", fmt.Sprintf("the connection whose request was cancelled at the end of the grace period is still open on the server side 1 s after Shutdown returned (Shutdown took %v)", time.Since(t0).Round(time.Millisecond)), cj)
	}
}
