package main

// C04 part (c): typed KMIP messages (every registered operation, both directions, five protocol
// versions) through XML and JSON and back; the binary re-encoding must be byte-identical.
// Messages are built by a reflection walk over the library's own payload types; a message is
// used only once it is a fixed point of the binary codec (that part is property C01's business).

import (
	"bytes"
	"encoding/hex"
	"encoding/json"
	"fmt"
	"math/big"
	"reflect"
	"regexp"
	"sort"
	"time"

	"github.com/ovh/kmip-go"
	_ "github.com/ovh/kmip-go/payloads"
	"github.com/ovh/kmip-go/ttlv"

	"verifharness/internal/h"
)

var (
	c04TimeT    = reflect.TypeOf(time.Time{})
	c04DurT     = reflect.TypeOf(time.Duration(0))
	c04BigT     = reflect.TypeOf(big.Int{})
	c04ValueT   = reflect.TypeOf(ttlv.Value{})
	c04StructT  = reflect.TypeOf(ttlv.Struct{})
	c04AttrT    = reflect.TypeOf(kmip.Attribute{})
	c04KeyBlkT  = reflect.TypeOf(kmip.KeyBlock{})
	c04CredT    = reflect.TypeOf(kmip.Credential{})
	c04ObjectT  = reflect.TypeOf((*kmip.Object)(nil)).Elem()
	c04PayloadT = reflect.TypeOf((*kmip.OperationPayload)(nil)).Elem()
	c04VersT    = reflect.TypeOf(kmip.ProtocolVersion{})
	c04Versions = []kmip.ProtocolVersion{kmip.V1_0, kmip.V1_1, kmip.V1_2, kmip.V1_3, kmip.V1_4}
)

type c04Filler struct {
	g        *c04Gen
	r        *h.Rand
	enumTy   map[reflect.Type]int
	maskTy   map[reflect.Type]int
	attrTy   map[kmip.AttributeName]reflect.Type
	attrName []kmip.AttributeName
}

func c04NewFiller(g *c04Gen) *c04Filler {
	f := &c04Filler{g: g, enumTy: ttlv.VerifEnumTypes(), maskTy: ttlv.VerifBitmaskTypes(), attrTy: kmip.VerifAttrTypes()}
	for n := range f.attrTy {
		f.attrName = append(f.attrName, n)
	}
	sort.Slice(f.attrName, func(i, j int) bool { return f.attrName[i] < f.attrName[j] })
	return f
}

var c04MsgTexts = []string{"", "a", "1a2b3c", "key-0001", "Ünïcödé ключ 鍵 🔑", "<tag attr=\"v\">&amp;</tag>", "tab\tnl\ncr\r", "  spaced  ", "0x1234", "quote\"back\\slash", "  ", "x-y|z"}

// a generic value tree whose text and dates the text formats can carry (the hypothesis of C04)
func (f *c04Filler) valueTree(depth int) *c04Item {
	for {
		it := f.g.tree(depth, true)
		if it.representable("xml") && it.representable("json") {
			return it
		}
	}
}

func (f *c04Filler) text() string {
	if f.r.Chance(2, 3) {
		return c04MsgTexts[f.r.Intn(len(c04MsgTexts))]
	}
	for {
		b := f.g.text()
		if c04TextOK("xml", b) {
			return string(b)
		}
	}
}

func (f *c04Filler) date() time.Time {
	p := []int64{0, 1, -1, 951782400, 1700000000, 2147483648, 4294967296, c04DateMin, c04DateMax, -2208988800, 32503680000}
	if f.r.Bool() {
		return c04Instant(p[f.r.Intn(len(p))])
	}
	return c04Instant(c04DateMin + int64(f.r.U64()%315537897600))
}

func (f *c04Filler) bigInt() *big.Int {
	p := c04BigPool()
	if f.r.Bool() {
		return new(big.Int).Set(p[f.r.Intn(len(p))])
	}
	v := new(big.Int).SetBytes(f.r.Bytes(1 + f.r.Intn(40)))
	if f.r.Chance(1, 4) {
		v.Neg(v)
	}
	return v
}

func (f *c04Filler) enumVal(tag int) uint32 {
	names := f.g.reg.EnumNames[tag]
	if len(names) > 0 && f.r.Chance(9, 10) {
		var vals []int
		for x := range names {
			vals = append(vals, int(x))
		}
		sort.Ints(vals)
		return uint32(vals[f.r.Intn(len(vals))])
	}
	return []uint32{0x7fffffff, 0x80000000, 0xffffffff, 0x000000ff, 0x80000001}[f.r.Intn(5)]
}

func (f *c04Filler) maskVal(tag int) int32 {
	n := len(f.g.reg.BitmaskNames[tag])
	var v int32
	switch f.r.Intn(4) {
	case 0:
		v = 1 << f.r.Intn(32)
	case 1:
		if n > 0 {
			v = int32(f.r.U64()) & (1<<uint(n) - 1)
		}
	case 2:
		v = int32(f.r.U64())
	default:
		v = []int32{0, 1, 3, 12, -1, -2147483648, 0x7fffffff}[f.r.Intn(7)]
	}
	if !f.g.masksOK {
		v &= 0x7fffffff
		if v == 0 {
			v = 4
		}
	}
	return v
}

func (f *c04Filler) keyBlock() kmip.KeyBlock {
	r := f.r
	kb := kmip.KeyBlock{}
	if r.Chance(1, 3) {
		kb.CryptographicAlgorithm = kmip.CryptographicAlgorithm(f.enumVal(kmip.TagCryptographicAlgorithm))
		kb.CryptographicLength = int32(8 * (1 + r.Intn(64)))
	}
	if r.Chance(1, 6) {
		kb.KeyCompressionType = kmip.KeyCompressionType(f.enumVal(kmip.TagKeyCompressionType))
	}
	plain := &kmip.PlainKeyValue{}
	switch r.Intn(5) {
	case 0:
		kb.KeyFormatType = kmip.KeyFormatTypeTransparentSymmetricKey
		plain.KeyMaterial.TransparentSymmetricKey = &kmip.TransparentSymmetricKey{Key: r.Bytes(r.Intn(33))}
	case 1:
		kb.KeyFormatType = kmip.KeyFormatTypeTransparentRSAPublicKey
		plain.KeyMaterial.TransparentRSAPublicKey = &kmip.TransparentRSAPublicKey{Modulus: *f.bigInt(), PublicExponent: *big.NewInt(65537)}
	default:
		kb.KeyFormatType = []kmip.KeyFormatType{kmip.KeyFormatTypeRaw, kmip.KeyFormatTypeOpaque, kmip.KeyFormatTypePKCS_1, kmip.KeyFormatTypePKCS_8, kmip.KeyFormatTypeX_509, kmip.KeyFormatTypeECPrivateKey}[r.Intn(6)]
		b := r.Bytes(r.Intn(40))
		plain.KeyMaterial.Bytes = &b
	}
	for i := r.Intn(3); i > 0; i-- {
		plain.Attribute = append(plain.Attribute, f.attribute())
	}
	switch r.Intn(8) {
	case 0: // metadata only
	case 1:
		b := r.Bytes(1 + r.Intn(30))
		kb.KeyValue = &kmip.KeyValue{Wrapped: &b}
		kwd := reflect.New(reflect.TypeOf(kmip.KeyWrappingData{}))
		f.fill(kwd.Elem(), 2)
		w := kwd.Elem().Interface().(kmip.KeyWrappingData)
		kb.KeyWrappingData = &w
	default:
		kb.KeyValue = &kmip.KeyValue{Plain: plain}
	}
	return kb
}

func (f *c04Filler) attribute() kmip.Attribute {
	r := f.r
	a := kmip.Attribute{}
	if r.Chance(1, 8) {
		a.AttributeName = kmip.AttributeName([]string{"x-custom", "y-vendor attr", "x-ID"}[r.Intn(3)])
		it := f.valueTree(2)
		v, _ := c04ToValue(it)
		a.AttributeValue = v.Value
		if st, ok := v.Value.(ttlv.Struct); ok && len(st) == 0 {
			a.AttributeValue = "empty"
		}
	} else {
		a.AttributeName = f.attrName[r.Intn(len(f.attrName))]
		v := reflect.New(f.attrTy[a.AttributeName]).Elem()
		f.fill(v, 3)
		a.AttributeValue = v.Interface()
	}
	if r.Chance(1, 3) {
		idx := int32(r.Intn(4))
		a.AttributeIndex = &idx
	}
	return a
}

func (f *c04Filler) object() kmip.Object {
	ots := []kmip.ObjectType{kmip.ObjectTypeSymmetricKey, kmip.ObjectTypeSecretData, kmip.ObjectTypeCertificate, kmip.ObjectTypeOpaqueObject,
		kmip.ObjectTypePublicKey, kmip.ObjectTypePrivateKey, kmip.ObjectTypeTemplate, kmip.ObjectTypeSplitKey, kmip.ObjectTypePGPKey}
	o, err := kmip.NewObjectForType(ots[f.r.Intn(len(ots))])
	if err != nil || o == nil {
		return nil
	}
	f.fill(reflect.ValueOf(o).Elem(), 4)
	return o
}

// fill populates v (settable) with a random value of its type.
func (f *c04Filler) fill(v reflect.Value, depth int) {
	t := v.Type()
	r := f.r
	switch {
	case t == c04TimeT:
		v.Set(reflect.ValueOf(f.date()))
		return
	case t == c04DurT:
		p := c04IntvPool()
		v.SetInt(p[r.Intn(len(p))] * int64(time.Second))
		return
	case t == c04BigT:
		v.Set(reflect.ValueOf(*f.bigInt()))
		return
	case t == c04ValueT:
		it := f.valueTree(2)
		val, _ := c04ToValue(it)
		v.Set(reflect.ValueOf(val))
		return
	case t == c04StructT:
		it := &c04Item{K: "struct", Tag: 1}
		for i := r.Intn(3); i > 0; i-- {
			it.Kids = append(it.Kids, f.valueTree(1))
		}
		val, _ := c04ToValue(it)
		v.Set(reflect.ValueOf(val.Value))
		return
	case t == c04AttrT:
		v.Set(reflect.ValueOf(f.attribute()))
		return
	case t == c04KeyBlkT:
		v.Set(reflect.ValueOf(f.keyBlock()))
		return
	case t == c04CredT:
		c := kmip.Credential{}
		switch r.Intn(3) {
		case 0:
			c.CredentialType = kmip.CredentialTypeUsernameAndPassword
			c.CredentialValue.UserPassword = &kmip.CredentialValueUserPassword{Username: f.text() + "u", Password: f.text()}
		case 1:
			c.CredentialType = kmip.CredentialTypeDevice
			c.CredentialValue.Device = &kmip.CredentialValueDevice{DeviceSerialNumber: f.text(), Password: f.text(), NetworkIdentifier: f.text()}
		default:
			c.CredentialType = kmip.CredentialTypeAttestation
			c.CredentialValue.Attestation = &kmip.CredentialValueAttestation{Nonce: kmip.Nonce{NonceID: r.Bytes(4), NonceValue: r.Bytes(8)},
				AttestationType: kmip.AttestationType(f.enumVal(kmip.TagAttestationType)), AttestationMeasurement: r.Bytes(r.Intn(9))}
		}
		v.Set(reflect.ValueOf(c))
		return
	}
	if tag, ok := f.enumTy[t]; ok {
		v.SetUint(uint64(f.enumVal(tag)))
		return
	}
	if tag, ok := f.maskTy[t]; ok {
		v.SetInt(int64(f.maskVal(tag)))
		return
	}
	switch t.Kind() {
	case reflect.Bool:
		v.SetBool(r.Bool())
	case reflect.Int32:
		p := c04IntPool()
		v.SetInt(p[r.Intn(len(p))])
	case reflect.Int64:
		p := c04LongPool()
		v.SetInt(p[r.Intn(len(p))])
	case reflect.Int8, reflect.Int16:
		v.SetInt(int64(r.Intn(100)))
	case reflect.Uint8:
		v.SetUint(uint64(r.Intn(256)))
	case reflect.Uint32:
		v.SetUint(uint64(uint32(r.U64())))
	case reflect.String:
		v.SetString(f.text())
	case reflect.Slice:
		if t.Elem().Kind() == reflect.Uint8 {
			v.SetBytes(r.Bytes(r.Intn(20)))
			return
		}
		n := r.Intn(3)
		if depth <= 0 {
			n = 0
		}
		s := reflect.MakeSlice(t, n, n)
		for i := 0; i < n; i++ {
			f.fill(s.Index(i), depth-1)
		}
		if n > 0 {
			v.Set(s)
		}
	case reflect.Ptr:
		if depth <= 0 || r.Chance(1, 3) {
			return
		}
		p := reflect.New(t.Elem())
		f.fill(p.Elem(), depth-1)
		v.Set(p)
	case reflect.Struct:
		for i := 0; i < t.NumField(); i++ {
			if !t.Field(i).IsExported() || t.Field(i).Tag.Get("ttlv") == "-" {
				continue
			}
			f.fill(v.Field(i), depth-1)
		}
	case reflect.Interface:
		if t == c04ObjectT {
			if o := f.object(); o != nil {
				v.Set(reflect.ValueOf(o))
			}
		}
	}
}

// payload builds a filled payload of the given Go type (a struct type; the payload is its pointer)
func (f *c04Filler) payload(t reflect.Type) kmip.OperationPayload {
	p := reflect.New(t)
	f.fill(p.Elem(), 5)
	// keep an ObjectType field consistent with the object carried
	if ot := p.Elem().FieldByName("ObjectType"); ot.IsValid() {
		for _, name := range []string{"Object"} {
			if of := p.Elem().FieldByName(name); of.IsValid() && of.Kind() == reflect.Interface && !of.IsNil() {
				if o, ok := of.Interface().(kmip.Object); ok {
					ot.SetUint(uint64(o.ObjectType()))
				}
			}
		}
	}
	pl, _ := p.Interface().(kmip.OperationPayload)
	return pl
}

type c04Msg struct {
	Dir     string `json:"dir"` // request response
	Version string `json:"version"`
	Ops     string `json:"operations"`
	Binary  string `json:"binary_hex"`
	Sig     string `json:"sig"`
}

func (f *c04Filler) message(dir string, ver kmip.ProtocolVersion, ops []kmip.Operation, table map[kmip.Operation][2]reflect.Type) any {
	r := f.r
	if dir == "request" {
		m := &kmip.RequestMessage{}
		f.fill(reflect.ValueOf(&m.Header).Elem(), 3)
		m.Header.ProtocolVersion = ver
		m.Header.BatchCount = int32(len(ops))
		for i, op := range ops {
			bi := kmip.RequestBatchItem{Operation: op, RequestPayload: f.payload(table[op][0])}
			if len(ops) > 1 || r.Chance(1, 4) {
				bi.UniqueBatchItemID = []byte{byte(i + 1), byte(r.Intn(256))}
			}
			m.BatchItem = append(m.BatchItem, bi)
		}
		return m
	}
	m := &kmip.ResponseMessage{}
	f.fill(reflect.ValueOf(&m.Header).Elem(), 3)
	m.Header.ProtocolVersion = ver
	m.Header.BatchCount = int32(len(ops))
	for i, op := range ops {
		bi := kmip.ResponseBatchItem{Operation: op}
		if r.Chance(1, 6) {
			bi.ResultStatus = kmip.ResultStatusOperationFailed
			bi.ResultReason = kmip.ResultReason(f.enumVal(kmip.TagResultReason))
			bi.ResultMessage = f.text()
		} else {
			bi.ResultStatus = kmip.ResultStatusSuccess
			bi.ResponsePayload = f.payload(table[op][1])
		}
		if len(ops) > 1 || r.Chance(1, 4) {
			bi.UniqueBatchItemID = []byte{byte(i + 1), byte(r.Intn(256))}
		}
		m.BatchItem = append(m.BatchItem, bi)
	}
	return m
}

func c04NewMsg(dir string) any {
	if dir == "request" {
		return &kmip.RequestMessage{}
	}
	return &kmip.ResponseMessage{}
}

func c04TryBytes(f func() []byte) (b []byte, pan any) {
	defer func() {
		if r := recover(); r != nil {
			pan = r
		}
	}()
	return bytes.Clone(f()), nil
}

func c04TryErr(f func() error) (err error, pan any) {
	defer func() {
		if r := recover(); r != nil {
			pan = r
		}
	}()
	return f(), nil
}

// c04Canonical: the message as the binary codec gives it back, if it is a fixed point of it.
func c04Canonical(dir string, m any) (any, []byte, bool) {
	b0, pan := c04TryBytes(func() []byte { return ttlv.MarshalTTLV(m) })
	if pan != nil {
		return nil, nil, false
	}
	m1 := c04NewMsg(dir)
	if err, pan := c04TryErr(func() error { return ttlv.UnmarshalTTLV(b0, m1) }); err != nil || pan != nil {
		return nil, nil, false
	}
	b1, pan := c04TryBytes(func() []byte { return ttlv.MarshalTTLV(m1) })
	if pan != nil || !bytes.Equal(b0, b1) {
		return nil, nil, false
	}
	return m1, b0, true
}

// c04MessageOracle: the C04 statement on one message (already canonical for the binary codec).
// c04SeparateEndTags matches an empty-element tag <Name attrs/> (attribute values never contain '<' or '>' raw: they are escaped).
var c04SeparateEndTags = regexp.MustCompile(`<([A-Za-z_][\w.-]*)((?:\s+[\w:.-]+="[^"<>]*")*)\s*/>`)

var c04TypeThenValue = regexp.MustCompile(`type="([^"<>]*)" value="([^"<>]*)"`)

func c04MessageOracle(c *h.Ctx, dir string, m any, b0 []byte, info c04Msg, sigop string) {
	info.Binary = hex.EncodeToString(b0)
	info.Sig = sigop
	cj := map[string]any{"part": "c", "message": info}
	for _, format := range []string{"xml", "json"} {
		c.Eval("msg|"+format+"|"+info.Binary, true)
		c.Count("c:" + format + ":" + dir)
		doc, pan := c04TryBytes(func() []byte {
			if format == "xml" {
				return ttlv.MarshalXML(m)
			}
			return ttlv.MarshalJSON(m)
		})
		cjd := map[string]any{"part": "c", "message": info, "format": format, "doc": string(c04Trunc(doc))}
		if pan != nil {
			c.Fail("C04/"+format+"/message-writer-panic:"+sigop, fmt.Sprintf("%s writer panicked on a %s message: %v", format, dir, pan), cj)
			continue
		}
		wf := false
		if format == "xml" {
			roots, cut := c04ParseXML(doc)
			wf = !cut && len(roots) == 1 && roots[0].wellFormed()
		} else {
			wf = json.Valid(doc)
		}
		if !wf {
			c.Fail("C04/"+format+"/message-not-well-formed:"+sigop, fmt.Sprintf("%s encoding of a %s message is rejected by the independent parser", format, dir), cjd)
			continue
		}
		m2 := c04NewMsg(dir)
		err, pan := c04TryErr(func() error {
			if format == "xml" {
				return ttlv.UnmarshalXML(doc, m2)
			}
			return ttlv.UnmarshalJSON(doc, m2)
		})
		if pan != nil {
			c.Fail("C04/"+format+"/reader-panic:"+c04PanicClass(fmt.Sprint(pan)), fmt.Sprintf("%s decoding of the library's own %s message panicked: %v", format, dir, pan), cjd)
			continue
		}
		if err != nil {
			c.Fail("C04/"+format+"/message-rejected:"+sigop, fmt.Sprintf("%s decoding of the library's own %s message failed: %v", format, dir, err), cjd)
			continue
		}
		b2, pan := c04TryBytes(func() []byte { return ttlv.MarshalTTLV(m2) })
		if pan != nil || !bytes.Equal(b2, b0) {
			c.Fail("C04/"+format+"/message-roundtrip-differs:"+sigop, fmt.Sprintf("%s message decoded from %s re-encodes to different binary TTLV (%d vs %d bytes, first difference at %d)", dir, format, len(b2), len(b0), c04FirstDiff(b2, b0)), cjd)
			continue
		}
		if format == "xml" {
			// the same document as another XML writer would produce it: an XML declaration, every empty-element tag
			// written as a start tag and an end tag with a line break in between, a comment.  Same information.
			alt := []byte("<?xml version=\"1.0\" encoding=\"UTF-8\"?>\n<!-- produced elsewhere -->\n" + c04SeparateEndTags.ReplaceAllString(string(doc), "<$1$2>\n</$1>"))
			// ... and its attributes in another order (attribute order carries no information in XML)
			alt = c04TypeThenValue.ReplaceAll(alt, []byte(`value="$2" type="$1"`))
			m3 := c04NewMsg(dir)
			err3, pan3 := c04TryErr(func() error { return ttlv.UnmarshalXML(alt, m3) })
			b3, _ := c04TryBytes(func() []byte { return ttlv.MarshalTTLV(m3) })
			c.Count("c:xml-with-separate-end-tags")
			if pan3 != nil || err3 != nil || !bytes.Equal(b3, b0) {
				cja := map[string]any{"part": "c", "message": info, "format": format, "doc": string(c04Trunc(alt))}
				c.Fail("C04/xml/separate-end-tags-read-differently:"+sigop, fmt.Sprintf("the %s message written with separate end tags (<X .../> as <X ...></X>, line breaks, an XML declaration, a comment) is read differently: error %v %v, %d vs %d bytes of binary TTLV", dir, err3, pan3, len(b3), len(b0)), cja)
			}
		}
	}
	// the same message as a generic ttlv.Value tree: its text forms (numeric enumerations and masks,
	// TTLV elements for unregistered tags) must decode into the typed message as well
	var v ttlv.Value
	if err, pan := c04TryErr(func() error { return ttlv.UnmarshalTTLV(b0, &v) }); err != nil || pan != nil {
		return
	}
	for _, format := range []string{"xml", "json"} {
		doc, pan := c04TryBytes(func() []byte {
			if format == "xml" {
				return ttlv.MarshalXML(v)
			}
			return ttlv.MarshalJSON(v)
		})
		if pan != nil {
			continue
		}
		m2 := c04NewMsg(dir)
		err, pan := c04TryErr(func() error {
			if format == "xml" {
				return ttlv.UnmarshalXML(doc, m2)
			}
			return ttlv.UnmarshalJSON(doc, m2)
		})
		cjd := map[string]any{"part": "c", "message": info, "format": format, "via": "ttlv.Value", "doc": string(c04Trunc(doc))}
		c.Count("c:" + format + ":via-value")
		if pan != nil {
			c.Fail("C04/"+format+"/reader-panic:"+c04PanicClass(fmt.Sprint(pan)), fmt.Sprintf("typed %s decoding of a generic rendering panicked: %v", format, pan), cjd)
			continue
		}
		if err != nil {
			c.Fail("C04/"+format+"/generic-rendering-rejected:"+sigop, fmt.Sprintf("typed %s decoding of the generic (ttlv.Value) rendering of a %s message failed: %v", format, dir, err), cjd)
			continue
		}
		b2, pan := c04TryBytes(func() []byte { return ttlv.MarshalTTLV(m2) })
		if pan != nil || !bytes.Equal(b2, b0) {
			c.Fail("C04/"+format+"/generic-rendering-differs:"+sigop, fmt.Sprintf("%s message decoded from its generic %s rendering re-encodes differently (first difference at %d)", dir, format, c04FirstDiff(b2, b0)), cjd)
		}
	}
}

func c04FirstDiff(a, b []byte) int {
	n := len(a)
	if len(b) < n {
		n = len(b)
	}
	for i := 0; i < n; i++ {
		if a[i] != b[i] {
			return i
		}
	}
	return n
}

// c04Messages: every registered operation x {request, response} x 5 versions, then random batches.
func c04Messages(c *h.Ctx, g *c04Gen) {
	table := kmip.VerifOperationRegistry()
	var ops []kmip.Operation
	for op := range table {
		ops = append(ops, op)
	}
	sort.Slice(ops, func(i, j int) bool { return ops[i] < ops[j] })
	f := c04NewFiller(g)
	n, kept := 0, 0
	run := func(dir string, ver kmip.ProtocolVersion, batch []kmip.Operation) {
		n++
		f.r = c.Rng.Fork(uint64(700000 + n))
		g.r = f.r
		m := f.message(dir, ver, batch, table)
		m1, b0, ok := c04Canonical(dir, m)
		if !ok {
			c.Count("c:not-a-binary-fixed-point")
			return
		}
		kept++
		names := ""
		for _, op := range batch {
			names += ttlv.EnumStr(op) + " "
		}
		sigop := dir
		c.Count("c:op:" + ttlv.EnumStr(batch[0]))
		c04MessageOracle(c, dir, m1, b0, c04Msg{Dir: dir, Version: ver.String(), Ops: names}, sigop)
	}
	reps := c.Pick(2, 12)
	for _, op := range ops {
		for _, dir := range []string{"request", "response"} {
			for _, ver := range c04Versions {
				for k := 0; k < reps; k++ {
					run(dir, ver, []kmip.Operation{op})
				}
			}
		}
	}
	for i := 0; i < c.Pick(60, 1500); i++ {
		r := c.Rng.Fork(uint64(800000 + i))
		var batch []kmip.Operation
		for k := 1 + r.Intn(3); k > 0; k-- {
			batch = append(batch, ops[r.Intn(len(ops))])
		}
		run([]string{"request", "response"}[r.Intn(2)], c04Versions[r.Intn(5)], batch)
	}
	c.Extra("messages_generated", n)
	c.Extra("messages_binary_fixed_point", kept)
}

func c04ReplayMessage(c *h.Ctx, m map[string]any) error {
	b, _ := json.Marshal(m["message"])
	var info c04Msg
	if err := json.Unmarshal(b, &info); err != nil {
		return err
	}
	b0, err := hex.DecodeString(info.Binary)
	if err != nil {
		return err
	}
	msg := c04NewMsg(info.Dir)
	if err := ttlv.UnmarshalTTLV(b0, msg); err != nil {
		return fmt.Errorf("replay: binary message does not decode: %w", err)
	}
	c04MessageOracle(c, info.Dir, msg, b0, info, info.Sig)
	return nil
}
