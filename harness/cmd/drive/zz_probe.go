package main

import (
	"encoding/json"
	"fmt"
	"os"
)

func init() {
	if f := os.Getenv("CC_ONE"); f != "" {
		var sc ccScenario
		if err := json.Unmarshal([]byte(f), &sc); err != nil {
			panic(err)
		}
		for i := 0; i < 3; i++ {
			obs := ccRun(sc, true)
			b, _ := json.MarshalIndent(obs, "", " ")
			fmt.Println(ccDescribe(sc))
			fmt.Println(string(b))
		}
		os.Exit(0)
	}
}
