package main

// C02, text encodings: the XML and JSON decoders on damaged documents.  Documents are the XML /
// JSON forms of real messages and generic trees with byte-level damage (truncation, byte
// replacement, deletion or duplication of a range) and token-level damage (another type name,
// another value literal, a missing attribute / member, another JSON value kind).
// Oracle: the call returns (no panic, no hang) for the generic tree target and the message
// targets; a second decode of the same document gives the same outcome.  The model side of
// the text readers is evaluated by C04's correspondence; their totality theorems are C02_xml_* /
// C02_json_* (TextFmtProofs.v).

import (
	"encoding/hex"
	"fmt"
	"reflect"
	"regexp"
	"strings"
	"time"

	"github.com/ovh/kmip-go"
	"github.com/ovh/kmip-go/ttlv"

	"verifharness/internal/h"
	"verifharness/internal/tv"
)

var (
	c02XMLType   = regexp.MustCompile(`type="[A-Za-z]*"`)
	c02XMLValue  = regexp.MustCompile(` value="[^"]*"`)
	c02JSONType  = regexp.MustCompile(`"type": ?"[A-Za-z]*"`)
	c02JSONValue = regexp.MustCompile(`"value": ?("[^"]*"|-?[0-9.eE+]+|true|false)`)
	c02JSONTagM  = regexp.MustCompile(`"tag": ?"[A-Za-z0-9]*"`)
	c02JSONObj   = regexp.MustCompile(`\{"tag"`)
	c02JSONArr   = regexp.MustCompile(`"value": ?\[`)
	c02XMLOpen   = regexp.MustCompile(`<[A-Za-z]`)
	c02XMLLeaf   = regexp.MustCompile(`/>`)
	c02TypeNames = []string{"Structure", "Integer", "LongInteger", "BigInteger", "Enumeration", "Boolean", "TextString", "ByteString", "DateTime", "Interval", "Bogus", "", "integer"}
	c02Literals  = []string{"", "0", "-1", "0x", "0x0", "0xZZ", "0x-1", "-0x1", "abc", "1e400", "99999999999999999999999999", "-99999999999999999999999999", "0xffffffffffffffffffffffff",
		"true", "TRUE", "2020-13-45T00:00:00Z", "2020-01-01T00:00:00+99:00", "9999999-01-01T00:00:00Z", "A|B", "|", " ", "0x80000000", "4294967296", "0xFFFFFFFFFFFFFFFFFF", "zz", "0A", "0a0", "\u00e9"}
	c02JSONVals = []string{"null", "{}", "[]", "[1]", "{\"a\":1}", "true", "1e400", "-0", "1.5", "\"\"", "\"0x\"", "12345678901234567890123", "\"\\ud800\""}
)

func c02ReplaceNth(re *regexp.Regexp, doc []byte, n int, with string) []byte {
	locs := re.FindAllIndex(doc, -1)
	if len(locs) == 0 {
		return doc
	}
	l := locs[n%len(locs)]
	return append(append(append([]byte{}, doc[:l[0]]...), with...), doc[l[1]:]...)
}

func c02TextMutate(r *h.Rand, format string, doc []byte) ([]byte, string) {
	if len(doc) == 0 {
		return doc, "empty"
	}
	switch r.Intn(12) {
	case 11:
		// JSON: a member only present under two differently capitalised names with different contents
		if format != "json" {
			return doc, "none"
		}
		switch r.Intn(3) {
		case 0:
			return c02ReplaceNth(c02JSONValue, doc, r.Intn(1000), `"Value": "first", "VALUE": "second"`), "case-variant-members"
		case 1:
			return c02ReplaceNth(c02JSONType, doc, r.Intn(1000), `"Type": "TextString", "TYPE": "Integer"`), "case-variant-members"
		default:
			return c02ReplaceNth(c02JSONTagM, doc, r.Intn(1000), `"Tag": "Operation", "TAG": "UniqueIdentifier"`), "case-variant-members"
		}
	case 9:
		// a member of a structure's value array that is not an object (JSON) / stray character
		// data or an unexpected child inside a structure (XML)
		if format == "json" {
			junk := []string{"5", "\"x\"", "null", "[]", "true", "[{}]", "1.5e3"}[r.Intn(7)]
			locs := c02JSONObj.FindAllIndex(doc, -1)
			if len(locs) < 2 {
				return doc, "none"
			}
			l := locs[1+r.Intn(len(locs)-1)] // not the top-level object
			if r.Bool() {
				return append(append(append([]byte{}, doc[:l[0]]...), (junk + ", ")...), doc[l[0]:]...), "non-object-element"
			}
			// replace the whole nested object, up to its matching brace
			depth, end := 0, -1
			for i := l[0]; i < len(doc); i++ {
				if doc[i] == '{' {
					depth++
				} else if doc[i] == '}' {
					depth--
					if depth == 0 {
						end = i + 1
						break
					}
				}
			}
			if end < 0 {
				return doc, "none"
			}
			return append(append(append([]byte{}, doc[:l[0]]...), junk...), doc[end:]...), "non-object-element"
		}
		locs := c02XMLOpen.FindAllIndex(doc, -1)
		if len(locs) < 2 {
			return doc, "none"
		}
		l := locs[1+r.Intn(len(locs)-1)]
		junk := []string{"stray text", "<!-- c -->", "<![CDATA[x]]>", "<?pi x?>", "<X><Y/></X>", "&amp;"}[r.Intn(6)]
		return append(append(append([]byte{}, doc[:l[0]]...), junk...), doc[l[0]:]...), "stray-content"
	case 10:
		// a structure whose value is not an array (JSON) / a leaf element with children (XML)
		if format == "json" {
			return c02ReplaceNth(c02JSONArr, doc, r.Intn(1000), `"value": `+[]string{"5", "\"x\"", "null", "{}", "true"}[r.Intn(5)]+`, "was": [`), "structure-value-kind"
		}
		return c02ReplaceNth(c02XMLLeaf, doc, r.Intn(1000), `><Child type="Integer" value="1"/></Leaf>`), "leaf-with-children"
	case 0:
		return append([]byte{}, doc[:r.Intn(len(doc))]...), "truncate"
	case 1:
		b := append([]byte{}, doc...)
		b[r.Intn(len(b))] = byte(r.Intn(256))
		return b, "byte"
	case 2:
		a := r.Intn(len(doc))
		z := a + r.Intn(len(doc)-a)
		return append(append([]byte{}, doc[:a]...), doc[z:]...), "delete-range"
	case 3:
		a := r.Intn(len(doc))
		z := a + r.Intn(len(doc)-a)
		return append(append(append([]byte{}, doc[:z]...), doc[a:z]...), doc[z:]...), "duplicate-range"
	case 4, 5:
		ty := c02TypeNames[r.Intn(len(c02TypeNames))]
		if format == "xml" {
			return c02ReplaceNth(c02XMLType, doc, r.Intn(1000), `type="`+ty+`"`), "type-name"
		}
		return c02ReplaceNth(c02JSONType, doc, r.Intn(1000), `"type": "`+ty+`"`), "type-name"
	case 6, 7:
		lit := c02Literals[r.Intn(len(c02Literals))]
		if format == "xml" {
			return c02ReplaceNth(c02XMLValue, doc, r.Intn(1000), ` value="`+lit+`"`), "value-literal"
		}
		if r.Bool() {
			return c02ReplaceNth(c02JSONValue, doc, r.Intn(1000), `"value": `+c02JSONVals[r.Intn(len(c02JSONVals))]), "value-kind"
		}
		return c02ReplaceNth(c02JSONValue, doc, r.Intn(1000), fmt.Sprintf(`"value": %q`, lit)), "value-literal"
	default:
		if format == "xml" {
			return c02ReplaceNth(c02XMLValue, doc, r.Intn(1000), ""), "drop-value"
		}
		return c02ReplaceNth(c02JSONValue, doc, r.Intn(1000), `"other": 1`), "drop-value"
	}
}

type c02textTarget struct {
	name string
	ty   reflect.Type
}

var c02TextTargets = []c02textTarget{
	{"ttlv.Value", reflect.TypeOf(ttlv.Value{})},
	{"kmip.RequestMessage", reflect.TypeOf(kmip.RequestMessage{})},
	{"kmip.ResponseMessage", reflect.TypeOf(kmip.ResponseMessage{})},
}

func c02TextDecode(format string, doc []byte, ty reflect.Type) c02res {
	ch := make(chan c02res, 1)
	go func() {
		defer func() {
			if r := recover(); r != nil {
				ch <- c02res{class: "panic", msg: fmt.Sprint(r)}
			}
		}()
		ptr := reflect.New(ty)
		var err error
		if format == "xml" {
			err = ttlv.UnmarshalXML(doc, ptr.Interface())
		} else {
			err = ttlv.UnmarshalJSON(doc, ptr.Interface())
		}
		if err != nil {
			ch <- c02res{class: "err", msg: err.Error()}
			return
		}
		repr := func() (s string) {
			defer func() {
				if r := recover(); r != nil {
					s = "reencode-panic"
				}
			}()
			return hex.EncodeToString(ttlv.MarshalTTLV(ptr.Interface()))
		}()
		ch <- c02res{class: "ok", repr: repr}
	}()
	select {
	case r := <-ch:
		return r
	case <-time.After(20 * time.Second):
		return c02res{class: "hang"}
	}
}

func c02TextCase(c *h.Ctx, format string, doc []byte, kind string) {
	hx := hex.EncodeToString(doc)
	c.Eval(format+":"+hx, true)
	c.Count("text-input:" + format + ":" + kind)
	for _, tg := range c02TextTargets {
		snapshot := append([]byte{}, doc...)
		r0 := c02TextDecode(format, doc, tg.ty)
		c.Count("text-outcome:" + r0.class)
		t := string(doc)
		if len(t) > 300 {
			t = t[:300] + "..."
		}
		cj := map[string]any{"format": format, "input_hex": hx, "input_text": t, "kind": kind, "target": tg.name, "observed": r0.class, "msg": r0.msg}
		switch r0.class {
		case "panic":
			c.Fail("C02/"+format+"/panic/"+tg.name, "Unmarshal"+strings.ToUpper(format)+" panicked: "+r0.msg, cj)
			continue
		case "hang":
			c.Fail("C02/"+format+"/hang/"+tg.name, "Unmarshal"+strings.ToUpper(format)+" did not return within 20 s", cj)
			continue
		}
		if string(snapshot) != string(doc) {
			c.Fail("C02/"+format+"/input-mutated/"+tg.name, "the input document was modified by the decoder", cj)
		}
		for rep := 0; rep < 6; rep++ {
			if r1 := c02TextDecode(format, doc, tg.ty); r1.class != r0.class || r1.repr != r0.repr {
				c.Fail("C02/"+format+"/not-deterministic/"+tg.name, fmt.Sprintf("decoding the same document again: %s then %s", r0.class, r1.class), cj)
				break
			}
			if kind != "mutated" {
				break
			}
		}
	}
}

// c02Smuggle: content placed at the END of the first nested structure of a message (after an element of
// unknown type, in a position the target does not read) stays inside that structure: the decoded
// message is the one decoded without it, or the document is rejected - never a message that took the
// smuggled items for items of the enclosing message.
func c02Smuggle(c *h.Ctx) {
	for si, seed := range c02Seeds()[:2] {
		var msg any = &kmip.RequestMessage{}
		closing, item := "</RequestHeader>", "<BatchItem><Operation type=\"Enumeration\" value=\"Destroy\"/><RequestPayload><UniqueIdentifier type=\"TextString\" value=\"smuggled\"/></RequestPayload></BatchItem>"
		if si == 1 {
			msg = &kmip.ResponseMessage{}
			closing, item = "</ResponseHeader>", "<BatchItem><Operation type=\"Enumeration\" value=\"Destroy\"/><ResultStatus type=\"Enumeration\" value=\"Success\"/><ResponsePayload><UniqueIdentifier type=\"TextString\" value=\"smuggled\"/></ResponsePayload></BatchItem>"
		}
		if ttlv.UnmarshalTTLV(seed, msg) != nil {
			continue
		}
		doc := string(ttlv.MarshalXML(msg))
		i := strings.Index(doc, closing)
		if i < 0 {
			continue
		}
		for vi, unknown := range []string{`<VendorThing type="Bogus" value="1"/>`, `<VendorThing type="Bogus"><Inner type="Integer" value="1"/></VendorThing>`, `<VendorThing type="" value="x"/>`, `<VendorThing value="x"/>`} {
			bad := doc[:i] + unknown + item + doc[i:]
			ref := reflect.New(reflect.TypeOf(msg).Elem())
			got := reflect.New(reflect.TypeOf(msg).Elem())
			if ttlv.UnmarshalXML([]byte(doc), ref.Interface()) != nil {
				continue
			}
			c.Eval(fmt.Sprintf("smuggle/%d/%d", si, vi), true)
			c.Count("text-input:xml:smuggled-into-header")
			r := c02TextDecode("xml", []byte(bad), reflect.TypeOf(msg).Elem())
			cj := map[string]any{"format": "xml", "input_hex": hex.EncodeToString([]byte(bad)), "kind": "smuggled-into-header", "unknown_element": unknown, "observed": r.class}
			if r.class == "panic" || r.class == "hang" {
				c.Fail("C02/xml/"+r.class+"/smuggled", "UnmarshalXML "+r.class+": "+r.msg, cj)
				continue
			}
			if err := ttlv.UnmarshalXML([]byte(bad), got.Interface()); err != nil {
				continue // rejected: fine
			}
			a, b := ttlv.MarshalTTLV(ref.Interface()), ttlv.MarshalTTLV(got.Interface())
			if string(a) != string(b) {
				c.Fail("C02/xml/content-taken-across-structure-extent", "elements placed at the end of the header structure (after an element of unknown type) changed the decoded message: they were taken for items of the message", cj)
			}
		}
	}
}

// c02Text runs the text leg; returns the number of documents.
func c02Text(c *h.Ctx) int {
	if c.Replay != nil {
		cs, _ := c.Replay["case"].(map[string]any)
		format, _ := cs["format"].(string)
		if format == "" {
			return 0
		}
		if k, _ := cs["kind"].(string); k == "smuggled-into-header" {
			c02Smuggle(c)
			return 1
		}
		hx, _ := cs["input_hex"].(string)
		b, _ := hex.DecodeString(hx)
		c02TextCase(c, format, b, "replay")
		return 1
	}
	c02Smuggle(c)
	var docs [][2][]byte // xml, json
	add := func(v any) {
		defer func() { recover() }()
		docs = append(docs, [2][]byte{append([]byte{}, ttlv.MarshalXML(v)...), append([]byte{}, ttlv.MarshalJSON(v)...)})
	}
	for _, s := range c02Seeds() {
		var v ttlv.Value
		if ttlv.UnmarshalTTLV(s, &v) == nil {
			add(&v)
		}
	}
	for i := 0; i < c.Pick(12, 120); i++ {
		r := c.Rng.Fork(uint64(3000000 + i))
		v := tv.ToValue(tv.Gen(r, 1+i%3))
		add(&v)
	}
	n := 0
	per := c.Pick(60, 600)
	for di, d := range docs {
		for fi, format := range []string{"xml", "json"} {
			c02TextCase(c, format, d[fi], "valid")
			n++
			for i := 0; i < per; i++ {
				r := c.Rng.Fork(uint64(4000000 + di*10000 + fi*5000 + i))
				b, kinds := d[fi], ""
				for j := 0; j < 1+r.Intn(2); j++ {
					var k string
					b, k = c02TextMutate(r, format, b)
					kinds += "+" + k
				}
				c.Count("text-mutation:" + strings.SplitN(kinds[1:], "+", 2)[0])
				c02TextCase(c, format, b, "mutated")
				n++
			}
		}
	}
	return n
}
