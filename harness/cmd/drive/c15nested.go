package main

// C15, a request handled INSIDE another request (a gateway handler forwarding a request of its own to a
// BatchExecutor with the context it was given): the inner request starts with an empty placeholder, and
// what it stores never shows in the outer request (oracle only: the model's requests are not nested).

import (
	"context"
	"fmt"

	"github.com/ovh/kmip-go"
	"github.com/ovh/kmip-go/kmipserver"
	"github.com/ovh/kmip-go/payloads"

	"verifharness/internal/h"
)

func c15NestedRun(sameExec, innerRejected bool) (innerFirst, outerAfter string, note string) {
	outer := kmipserver.NewBatchExecutor()
	inner := outer
	if !sameExec {
		inner = kmipserver.NewBatchExecutor()
	}
	innerFirst, outerAfter = "<not observed>", "<not observed>"
	innerVer := kmip.V1_4
	if innerRejected {
		// the inner request is refused as a whole (its version is not supported by the inner executor)
		inner = kmipserver.NewBatchExecutor()
		inner.SetSupportedProtocolVersions(kmip.V1_4)
		innerVer = kmip.V1_2
		innerFirst = ""
	}
	mk := func(ids ...string) *kmip.RequestMessage {
		m := &kmip.RequestMessage{Header: kmip.RequestHeader{ProtocolVersion: kmip.V1_4, BatchCount: int32(len(ids))}}
		for _, id := range ids {
			m.BatchItem = append(m.BatchItem, kmip.RequestBatchItem{Operation: kmip.OperationGet, RequestPayload: &payloads.GetRequestPayload{UniqueIdentifier: id}})
		}
		return m
	}
	hd := c09HandlerFunc(func(ctx context.Context, pl kmip.OperationPayload) (kmip.OperationPayload, error) {
		id := pl.(*payloads.GetRequestPayload).UniqueIdentifier
		switch id {
		case "outer-1":
			kmipserver.SetIdPlaceholder(ctx, "front-id")
			// a request of its own, with the context this handler was given
			im := mk("inner-1", "inner-2")
			im.Header.ProtocolVersion = innerVer
			_ = inner.HandleRequest(ctx, im)
		case "outer-2":
			outerAfter = kmipserver.IdPlaceholder(ctx)
		case "inner-1":
			innerFirst = kmipserver.IdPlaceholder(ctx)
			kmipserver.SetIdPlaceholder(ctx, "backend-id")
		case "inner-2":
		}
		return &payloads.GetResponsePayload{UniqueIdentifier: id}, nil
	})
	outer.Route(kmip.OperationGet, hd)
	if !sameExec || innerRejected {
		inner.Route(kmip.OperationGet, hd)
	}
	func() {
		defer func() {
			if r := recover(); r != nil {
				note = fmt.Sprint("panic: ", r)
			}
		}()
		outer.HandleRequest(context.Background(), mk("outer-1", "outer-2"))
	}()
	return
}

func c15Nested(c *h.Ctx) {
	for _, variant := range [][2]bool{{true, false}, {false, false}, {false, true}} {
		same := variant[0]
		in1, out2, note := c15NestedRun(same, variant[1])
		c.Eval(fmt.Sprintf("nested-request/%v/%v", same, variant[1]), true)
		c.Count("kind:nested-request")
		cj := map[string]any{"kind": "nested-request", "same_executor": same, "inner_request_rejected": variant[1], "inner_first_observes": in1, "outer_later_observes": out2, "note": note}
		if note != "" {
			c.Fail("C15/nested-request/panic", note, cj)
			continue
		}
		if in1 != "" {
			c.Fail("C15/not-fresh/nested-request", fmt.Sprintf("a request handled inside another request starts with the placeholder %q (the outer request's)", in1), cj)
		}
		if out2 != "front-id" {
			c.Fail("C15/not-isolated/nested-request", fmt.Sprintf("after a nested request stored its own value the outer request observes %q instead of its own \"front-id\"", out2), cj)
		}
	}
}
