package main

// C20: independent readers of the XML / JSON / text output of the encoders (standard
// library tokenizers only, nothing from package ttlv), producing the model's [view].

import (
	"bytes"
	"encoding/hex"
	"encoding/json"
	"encoding/xml"
	"errors"
	"fmt"
	"io"
	"strconv"
	"strings"
	"time"

	"verifharness/internal/h"
)

type c20Item struct {
	tag      int64
	typ      string // "" for structures
	val      string // Coq leaf
	children []*c20Item
}

func (it *c20Item) coq() string {
	if it.typ == "" {
		var ch []string
		for _, c := range it.children {
			ch = append(ch, c.coq())
		}
		return fmt.Sprintf("IStruct %d %s", it.tag, h.List(ch))
	}
	return fmt.Sprintf("IPrim %d (%s)", it.tag, it.val)
}

func c20CoqItems(l []*c20Item) string {
	var s []string
	for _, it := range l {
		s = append(s, it.coq())
	}
	return h.List(s)
}

var errC20Partial = errors.New("incomplete document")

// c20TagOf resolves a tag written either as 0x%06X or by registered name.
func c20TagOf(s string, byName map[string]int) (int64, error) {
	if strings.HasPrefix(s, "0x") {
		n, err := strconv.ParseInt(s[2:], 16, 64)
		return n, err
	}
	if t, ok := byName[s]; ok {
		return int64(t), nil
	}
	return 0, fmt.Errorf("unknown tag name %q", s)
}

// c20Leaf converts the lexical form of one encoding into the model leaf.
func c20Leaf(typ, lex string, enc string) (string, error) {
	switch typ {
	case "Integer":
		n, err := strconv.ParseInt(lex, 10, 64)
		return "LInt " + h.Z(n), err
	case "LongInteger":
		if strings.HasPrefix(lex, "0x") {
			u, err := strconv.ParseUint(lex[2:], 16, 64)
			return "LLong " + h.Z(int64(u)), err
		}
		n, err := strconv.ParseInt(lex, 10, 64)
		return "LLong " + h.Z(n), err
	case "Boolean":
		b, err := strconv.ParseBool(lex)
		return "LBool " + h.Bool(b), err
	case "TextString":
		return "LText " + h.Str(lex), nil
	case "ByteString":
		b, err := hex.DecodeString(lex)
		return "LBytes " + h.Bytes(b), err
	case "Interval":
		if enc == "text" {
			d, err := time.ParseDuration(lex)
			return "LInterval " + h.Z(int64(d/time.Second)), err
		}
		n, err := strconv.ParseInt(lex, 10, 64)
		return "LInterval " + h.Z(n), err
	}
	return "", fmt.Errorf("type %q is outside the model's leaf alphabet", typ)
}

func c20ParseXML(data []byte, byName map[string]int) ([]*c20Item, error) {
	dec := xml.NewDecoder(bytes.NewReader(data))
	var top []*c20Item
	var stack []*c20Item
	for {
		tok, err := dec.Token()
		if err == io.EOF {
			break
		}
		if err != nil {
			return nil, errC20Partial
		}
		switch t := tok.(type) {
		case xml.StartElement:
			it := &c20Item{}
			name := t.Name.Local
			var typ, val string
			hasVal := false
			for _, a := range t.Attr {
				switch a.Name.Local {
				case "tag":
					name = a.Value
				case "type":
					typ = a.Value
				case "value":
					val, hasVal = a.Value, true
				}
			}
			tag, err := c20TagOf(name, byName)
			if err != nil {
				return nil, err
			}
			it.tag = tag
			if typ != "" && typ != "Structure" {
				if !hasVal {
					return nil, fmt.Errorf("xml: no value attribute")
				}
				it.typ = typ
				if it.val, err = c20Leaf(typ, val, "xml"); err != nil {
					return nil, err
				}
			}
			stack = append(stack, it)
		case xml.EndElement:
			if len(stack) == 0 {
				return nil, fmt.Errorf("xml: unbalanced end element")
			}
			it := stack[len(stack)-1]
			stack = stack[:len(stack)-1]
			if len(stack) == 0 {
				top = append(top, it)
			} else {
				p := stack[len(stack)-1]
				p.children = append(p.children, it)
			}
		}
	}
	if len(stack) != 0 {
		return nil, errC20Partial
	}
	return top, nil
}

func c20JSONItem(v any, byName map[string]int) (*c20Item, error) {
	m, ok := v.(map[string]any)
	if !ok {
		return nil, fmt.Errorf("json: item is not an object")
	}
	ts, _ := m["tag"].(string)
	tag, err := c20TagOf(ts, byName)
	if err != nil {
		return nil, err
	}
	it := &c20Item{tag: tag}
	typ, _ := m["type"].(string)
	if typ == "" || typ == "Structure" {
		arr, ok := m["value"].([]any)
		if !ok {
			return nil, fmt.Errorf("json: structure value is not an array")
		}
		for _, c := range arr {
			ci, err := c20JSONItem(c, byName)
			if err != nil {
				return nil, err
			}
			it.children = append(it.children, ci)
		}
		return it, nil
	}
	it.typ = typ
	var lex string
	switch x := m["value"].(type) {
	case json.Number:
		lex = x.String()
	case string:
		lex = x
	case bool:
		lex = strconv.FormatBool(x)
	default:
		return nil, fmt.Errorf("json: unexpected value %T", x)
	}
	it.val, err = c20Leaf(typ, lex, "json")
	return it, err
}

func c20ParseJSON(data []byte, byName map[string]int) ([]*c20Item, error) {
	dec := json.NewDecoder(bytes.NewReader(data))
	dec.UseNumber()
	var top []*c20Item
	for {
		var v any
		err := dec.Decode(&v)
		if err == io.EOF {
			break
		}
		if err != nil {
			return nil, errC20Partial
		}
		it, err := c20JSONItem(v, byName)
		if err != nil {
			return nil, err
		}
		top = append(top, it)
	}
	return top, nil
}

// c20ParseText reads the debugging form: one item per line, "<indent>Tag (Type): value",
// four spaces per nesting level, "... empty ..." under a structure without children.
func c20ParseText(data []byte, byName map[string]int) ([]*c20Item, error) {
	if len(data) == 0 {
		return nil, nil
	}
	var top []*c20Item
	var stack []*c20Item // stack[d] = last structure at depth d
	for _, line := range strings.Split(string(data), "\n") {
		depth := 0
		for strings.HasPrefix(line[depth*4:], "    ") {
			depth++
		}
		body := line[depth*4:]
		if body == "... empty ..." {
			continue
		}
		i := strings.Index(body, " (")
		j := strings.Index(body, "): ")
		if i < 0 || j < i {
			return nil, fmt.Errorf("text: cannot read line %q", line)
		}
		tag, err := c20TagOf(body[:i], byName)
		if err != nil {
			return nil, err
		}
		typ := body[i+2 : j]
		it := &c20Item{tag: tag}
		if typ != "Structure" {
			it.typ = typ
			if it.val, err = c20Leaf(typ, body[j+3:], "text"); err != nil {
				return nil, err
			}
		}
		if depth > len(stack) {
			return nil, fmt.Errorf("text: indentation jumps at %q", line)
		}
		stack = stack[:depth]
		if depth == 0 {
			top = append(top, it)
		} else {
			p := stack[depth-1]
			p.children = append(p.children, it)
		}
		if typ == "Structure" {
			stack = append(stack, it)
		} else {
			// a leaf cannot be a parent: keep the stack length = depth
			stack = append(stack, nil)[:depth]
		}
	}
	return top, nil
}

// c20View renders what Encoder.Bytes returned as the model's [view].
func c20View(kind string, data []byte, byName map[string]int) (string, error) {
	var items []*c20Item
	var err error
	switch kind {
	case "KBin":
		return "VwBytes " + h.Bytes(data), nil
	case "KXml":
		items, err = c20ParseXML(data, byName)
	case "KJson":
		items, err = c20ParseJSON(data, byName)
	case "KText":
		items, err = c20ParseText(data, byName)
	}
	if err == errC20Partial {
		return "VwPartial", nil
	}
	if err != nil {
		return "", err
	}
	return "VwItems " + c20CoqItems(items), nil
}

// c20ParseTTLV reads binary TTLV (the model's leaf types and structures only).
func c20ParseTTLV(data []byte) ([]*c20Item, error) {
	var out []*c20Item
	for len(data) > 0 {
		if len(data) < 8 {
			return nil, fmt.Errorf("ttlv: truncated header")
		}
		tag := int64(data[0])<<16 | int64(data[1])<<8 | int64(data[2])
		typ := data[3]
		l := int(data[4])<<24 | int(data[5])<<16 | int(data[6])<<8 | int(data[7])
		pad := (8 - l%8) % 8
		if len(data) < 8+l+pad {
			return nil, fmt.Errorf("ttlv: truncated value")
		}
		val := data[8 : 8+l]
		data = data[8+l+pad:]
		it := &c20Item{tag: tag}
		be := func(b []byte) uint64 {
			var u uint64
			for _, x := range b {
				u = u<<8 | uint64(x)
			}
			return u
		}
		switch typ {
		case 1:
			ch, err := c20ParseTTLV(val)
			if err != nil {
				return nil, err
			}
			it.children = ch
		case 2:
			if l != 4 {
				return nil, fmt.Errorf("ttlv: bad integer length")
			}
			it.typ, it.val = "Integer", "LInt "+h.Z(int64(int32(be(val))))
		case 3:
			if l != 8 {
				return nil, fmt.Errorf("ttlv: bad long length")
			}
			it.typ, it.val = "LongInteger", "LLong "+h.Z(int64(be(val)))
		case 6:
			if l != 8 {
				return nil, fmt.Errorf("ttlv: bad boolean length")
			}
			it.typ, it.val = "Boolean", "LBool "+h.Bool(be(val) != 0)
		case 7:
			it.typ, it.val = "TextString", "LText "+h.Bytes(val)
		case 8:
			it.typ, it.val = "ByteString", "LBytes "+h.Bytes(val)
		case 10:
			if l != 4 {
				return nil, fmt.Errorf("ttlv: bad interval length")
			}
			it.typ, it.val = "Interval", "LInterval "+h.Z(int64(uint32(be(val))))
		default:
			return nil, fmt.Errorf("ttlv: type %d is outside the model's alphabet", typ)
		}
		out = append(out, it)
	}
	return out, nil
}
