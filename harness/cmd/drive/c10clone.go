package main

// C10, clones (oracle only): a clone is a client of its own.  The server side refuses the k-th
// connection (k = 2, 3): a client is cloned while connections are refused (Clone may fail: it is then
// asked again); afterwards the parent and the clone(s) call from different goroutines, the parent's
// request being slow to be answered: the server answers first whatever else it receives meanwhile on the
// SAME connection.  Each call must get the response to its own request (or an error).

import (
	"context"
	"errors"
	"fmt"
	"net"
	"sync"
	"sync/atomic"
	"time"

	"github.com/ovh/kmip-go"
	"github.com/ovh/kmip-go/kmipclient"
	"github.com/ovh/kmip-go/payloads"
	"github.com/ovh/kmip-go/ttlv"

	"verifharness/internal/h"
)

func c10cReqID(req *kmip.RequestMessage) string {
	if len(req.BatchItem) == 0 {
		return ""
	}
	if pl, ok := req.BatchItem[0].RequestPayload.(*payloads.ActivateRequestPayload); ok {
		return pl.UniqueIdentifier
	}
	return ""
}

func c10cResponse(req *kmip.RequestMessage) *kmip.ResponseMessage {
	resp := &kmip.ResponseMessage{Header: kmip.ResponseHeader{ProtocolVersion: req.Header.ProtocolVersion, TimeStamp: time.Unix(1, 0), BatchCount: int32(len(req.BatchItem))}}
	for _, bi := range req.BatchItem {
		resp.BatchItem = append(resp.BatchItem, kmip.ResponseBatchItem{Operation: bi.Operation, UniqueBatchItemID: bi.UniqueBatchItemID,
			ResultStatus: kmip.ResultStatusSuccess, ResponsePayload: &payloads.ActivateResponsePayload{UniqueIdentifier: c10cReqID(req)}})
	}
	return resp
}

func c10cServe(conn net.Conn) {
	defer conn.Close()
	stream := ttlv.NewStream(conn, -1)
	reqs := make(chan *kmip.RequestMessage)
	go func() {
		defer close(reqs)
		for {
			req := new(kmip.RequestMessage)
			if err := stream.Recv(req); err != nil {
				return
			}
			reqs <- req
		}
	}()
	for req := range reqs {
		if id := c10cReqID(req); len(id) > 5 && id[:5] == "slow-" {
			timer := time.NewTimer(150 * time.Millisecond)
		wait:
			for {
				select {
				case other, ok := <-reqs:
					if !ok {
						return
					}
					if stream.Send(c10cResponse(other)) != nil {
						return
					}
				case <-timer.C:
					break wait
				}
			}
		}
		if stream.Send(c10cResponse(req)) != nil {
			return
		}
	}
}

func c10CloneLeg(c *h.Ctx) {
	for _, refuse := range []int32{2, 3} {
		cj := map[string]any{"leg": "clone", "refused_dial": refuse}
		c.Current(cj)
		var dials atomic.Int32
		var conns []net.Conn
		var mu sync.Mutex
		dialer := func(ctx context.Context) (net.Conn, error) {
			if dials.Add(1) == refuse {
				return nil, errors.New("connection refused: too many connections")
			}
			cli, srv := net.Pipe()
			mu.Lock()
			conns = append(conns, srv)
			mu.Unlock()
			go c10cServe(srv)
			return cli, nil
		}
		func() {
			defer func() {
				if p := recover(); p != nil {
					c.Fail("C10/panic/clone", fmt.Sprint(p), cj)
				}
				mu.Lock()
				for _, s := range conns {
					_ = s.Close()
				}
				mu.Unlock()
			}()
			parent, err := kmipclient.Dial("pipe", kmipclient.WithDialerUnsafe(dialer), kmipclient.EnforceVersion(kmip.V1_4))
			if err != nil {
				return
			}
			defer parent.Close()
			var clients []*kmipclient.Client
			for len(clients) < 2 {
				cl, err := parent.Clone()
				if err != nil {
					if dials.Load() > 8 {
						return
					}
					continue
				}
				defer cl.Close()
				clients = append(clients, cl)
			}
			c.Eval(fmt.Sprintf("clone/refuse-%d", refuse), true)
			c.Count("leg:clone")
			for round := 0; round < 3; round++ {
				ids := []string{fmt.Sprintf("slow-P-%d", round), fmt.Sprintf("c1-%d", round), fmt.Sprintf("c2-%d", round)}
				got := make([]string, 3)
				var wg sync.WaitGroup
				call := func(i int, cl *kmipclient.Client, delay time.Duration) {
					defer wg.Done()
					defer func() {
						if p := recover(); p != nil {
							got[i] = "panic: " + fmt.Sprint(p)
						}
					}()
					time.Sleep(delay)
					ctx, cancel := context.WithTimeout(context.Background(), 5*time.Second)
					defer cancel()
					pl, err := cl.Request(ctx, &payloads.ActivateRequestPayload{UniqueIdentifier: ids[i]})
					if err != nil {
						got[i] = "" // an error is acceptable
						return
					}
					if ap, ok := pl.(*payloads.ActivateResponsePayload); ok {
						got[i] = ap.UniqueIdentifier
					} else {
						got[i] = fmt.Sprintf("payload %T", pl)
					}
				}
				wg.Add(3)
				go call(0, parent, 0)
				go call(1, clients[0], 30*time.Millisecond)
				go call(2, clients[1], 40*time.Millisecond)
				wg.Wait()
				for i := range ids {
					if got[i] != "" && got[i] != ids[i] {
						c.Fail("C10/wrong-response/clone", fmt.Sprintf("the call for %q (through %s) returned the response %q; the %d-th connection had been refused while the client was cloned; calls: parent %q (slow), clone 1 %q, clone 2 %q",
							ids[i], map[bool]string{true: "the parent", false: "a clone"}[i == 0], got[i], refuse, ids[0], ids[1], ids[2]), cj)
						return
					}
				}
			}
		}()
	}
}
