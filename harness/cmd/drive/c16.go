package main

// C16 - shutdown drains cleanly, connection hooks are paired.
// Shutdown is fired at every scripted point of a connection's life (idle, mid-request,
// mid-handler, mid-response, during the connect hook, with a failing hook, between Accept and
// the registration of the connection), with many concurrent connections and handlers of varying
// duration; the property statement is evaluated on the observed run, and the per-connection
// observations are compared with the connection model (ConnServer.v) under the same script.

import (
	"encoding/json"
	"fmt"
	"strings"

	"verifharness/internal/h"
)

func init() { h.Register("C16", driveC16) }

func c16Oracle(c *h.Ctx, sc srvScenario, r srvResult, caseJSON any) {
	if r.Crashed || r.Hang {
		c08Oracle(c, sc, r, caseJSON, "C16")
		return
	}
	if !r.ShutdownRan {
		return
	}
	if !r.SdListener {
		c.Fail("C16/listener-open-after-shutdown", "a connection could still be dialled after Shutdown returned", caseJSON)
	}
	if sc.AcceptErr {
		if r.ServeErr == "" || r.ServeErr == "ErrShutdown" || r.ServeErr == "serve-did-not-return" {
			c.Fail("C16/serve-result-after-accept-error", "Serve returned "+r.ServeErr+" after a failing Accept", caseJSON)
		}
	} else if r.ServeErr != "ErrShutdown" {
		c.Fail("C16/serve-not-ended-with-shutdown-error", "Serve returned '"+r.ServeErr+"'", caseJSON)
	}
	if len(r.SdLate) > 0 {
		kind := r.SdLate[0]
		if i := strings.Index(kind, ":"); i >= 0 {
			kind = kind[i+1:]
		}
		c.Fail("C16/event-after-shutdown-returned/"+kind, "after Shutdown returned: "+strings.Join(r.SdLate, ", "), caseJSON)
	}
	if r.Sd2Ran && (r.Sd2Running > 0 || r.Sd2Hang) {
		c.Fail("C16/handler-running-at-second-shutdown-return", fmt.Sprintf("a second Shutdown call made while the first was draining returned with %d handlers in progress (hang=%v)", r.Sd2Running, r.Sd2Hang), caseJSON)
	}
	if r.SdRunning > 0 {
		c.Fail("C16/handler-running-at-shutdown-return", fmt.Sprintf("%d handlers in progress when Shutdown returned", r.SdRunning), caseJSON)
	}
	if len(r.Leak) > 0 {
		c.Fail("C16/goroutines-after-shutdown", "per-connection goroutines alive after Shutdown returned and the peers left: "+strings.Join(r.Leak, "; "), caseJSON)
	}
	grace := false
	for i, cs := range sc.Conns {
		if i >= len(r.Conns) {
			break
		}
		ev := r.Conns[i].Events
		// hook pairing
		nOK, nFail, nTerm, lastHandler, termAt, inH := 0, 0, 0, -1, -1, 0
		for k, e := range ev {
			switch e {
			case "hookok":
				nOK++
			case "hookfail":
				nFail++
			case "termhook":
				nTerm++
				termAt = k
			case "hstart":
				lastHandler = k
				inH++
				if nOK == 0 {
					c.Fail("C16/handler-without-connect-hook", fmt.Sprintf("conn %d: handler invoked before/without a successful connect hook", i), caseJSON)
				}
			case "hend":
				lastHandler = k
				inH--
			}
		}
		switch {
		case nOK == 1 && nTerm != 1:
			c.Fail("C16/terminate-hook-count", fmt.Sprintf("conn %d: connect hook succeeded, terminate hook ran %d times (events %v)", i, nTerm, ev), caseJSON)
		case nOK == 0 && nTerm > 0:
			c.Fail("C16/terminate-hook-without-connect", fmt.Sprintf("conn %d: terminate hook ran although the connect hook did not succeed (events %v)", i, ev), caseJSON)
		case nOK > 1 || nFail > 1 || (nOK > 0 && nFail > 0):
			c.Fail("C16/connect-hook-count", fmt.Sprintf("conn %d: events %v", i, ev), caseJSON)
		}
		if nTerm == 1 && lastHandler > termAt {
			c.Fail("C16/handler-after-terminate-hook", fmt.Sprintf("conn %d: events %v", i, ev), caseJSON)
		}
		if inH != 0 {
			c.Fail("C16/handler-not-finished", fmt.Sprintf("conn %d: events %v", i, ev), caseJSON)
		}
		if (cs.HookFail || cs.TLS == "fail") && (nTerm > 0 || lastHandler >= 0) {
			c.Fail("C16/activity-after-failed-connect", fmt.Sprintf("conn %d: events %v", i, ev), caseJSON)
		}
		// in-flight request: handler entered before Shutdown and released within the grace period -> answered
		var sawWaith, sawShutdown, released, graceHere bool
		gi := 0
		got := r.Conns[i].Got
		for _, st := range cs.Steps {
			switch st.Op {
			case "waith":
				sawWaith = true
			case "shutdown":
				// in flight = a handler had been entered when Shutdown started
				sawShutdown = sawWaith && r.Conns[i].Err == ""
			case "release":
				released = true
			case "grace":
				graceHere = true
				grace = true
			case "read":
				if gi < len(got) {
					o := got[gi]
					gi++
					if sawWaith && sawShutdown && released && !graceHere && !cs.Sync && gi == 1 && o.K != "res" {
						c.Fail("C16/inflight-request-dropped", fmt.Sprintf("conn %d: the request in flight when Shutdown started was released within the grace period but got %s", i, o.K), caseJSON)
					}
				}
			}
		}
	}
	if grace && r.SdMs < 2900 {
		c.Fail("C16/cancelled-before-grace-period", fmt.Sprintf("Shutdown returned after %d ms although a handler outlived the grace period", r.SdMs), caseJSON)
	}
	hasSlow := false
	for _, cs := range sc.Conns {
		for _, st := range cs.Steps {
			for _, it := range st.Items {
				if it == "slow" || it == "slowi" {
					hasSlow = true
				}
			}
		}
		if cs.Sync || cs.HookSlow {
			hasSlow = true
		}
	}
	if !grace && !hasSlow && r.SdMs > 2500 {
		c.Fail("C16/shutdown-waited-for-timer", fmt.Sprintf("Shutdown took %d ms although no handler outlived its request", r.SdMs), caseJSON)
	}
}

func c16Scenarios(c *h.Ctx) []srvScenario {
	one := func(cs srvConn) srvScenario { return srvScenario{Conns: []srvConn{cs}, NoProbe: true} }
	S := func(op string) srvStep { return srvStep{Op: op} }
	R := func(items ...string) srvStep { return srvStep{Op: "req", Items: items} }
	var l []srvScenario
	// shutdown at every point of a plain exchange
	base := []srvStep{R("ok"), S("read"), R("pstr", "ok"), S("read"), R("ok"), R("typed:1"), S("read"), S("read")}
	// from the end (idle connection: deterministic) to the start (Shutdown racing with the connection's start-up)
	for pos := len(base); pos >= 0; pos-- {
		steps := append([]srvStep{}, base[:pos]...)
		steps = append(steps, S("shutdown"), S("waitshutdown"))
		steps = append(steps, base[pos:]...)
		steps = append(steps, S("close"))
		l = append(l, one(srvConn{Steps: steps}))
		// the same without waiting for Shutdown to return: it races with the exchange
		steps2 := append([]srvStep{}, base[:pos]...)
		steps2 = append(steps2, S("shutdown"))
		steps2 = append(steps2, base[pos:]...)
		steps2 = append(steps2, S("close"))
		l = append(l, one(srvConn{Steps: steps2}))
	}
	// mid-handler: the handler honours cancellation / ignores it, released before or after the grace period
	for _, b := range []string{"slow", "slowi"} {
		l = append(l, one(srvConn{Steps: []srvStep{R(b), S("waith"), S("shutdown"), {Op: "settle", Arg: 5}, S("release"), S("read"), S("waitshutdown"), S("read"), S("close")}}))
		l = append(l, one(srvConn{Steps: []srvStep{R(b), R("ok"), S("waith"), S("shutdown"), {Op: "settle", Arg: 5}, S("release"), S("read"), S("read"), S("waitshutdown"), S("close")}}))
	}
	l = append(l, one(srvConn{Steps: []srvStep{R("slowi"), S("waith"), S("shutdown"), S("grace"), S("release"), S("read"), S("waitshutdown"), S("close")}}))
	// a second Shutdown call while the first one is draining (listener already closed): it too returns only when nothing runs
	for _, b := range []string{"slow", "slowi", "ok"} {
		l = append(l, one(srvConn{Steps: []srvStep{R(b), S("waith"), S("shutdown"), {Op: "settle", Arg: 5}, S("shutdown2"), {Op: "settle", Arg: 30}, S("release"), S("read"), S("waitshutdown"), S("close")}}))
	}
	l = append(l, one(srvConn{Steps: []srvStep{R("slow"), S("waith"), S("shutdown"), S("grace"), S("read"), S("waitshutdown"), S("close")}}))
	// mid-response: the peer does not read the response; the grace period ends the write
	l = append(l, one(srvConn{Sync: true, Steps: []srvStep{R("ok"), {Op: "settle", Arg: 5}, S("shutdown"), S("grace"), S("waitshutdown"), S("close")}}))
	l = append(l, one(srvConn{Sync: true, Steps: []srvStep{R("ok"), {Op: "settle", Arg: 5}, S("shutdown"), {Op: "settle", Arg: 5}, S("read"), S("waitshutdown"), S("read"), S("close")}}))
	// during the connect hook, with a failing hook, TLS
	l = append(l, one(srvConn{HookSlow: true, Steps: []srvStep{R("ok"), S("waithook"), S("shutdown"), {Op: "settle", Arg: 5}, S("releasehook"), S("waitshutdown"), S("read"), S("close")}}))
	l = append(l, one(srvConn{HookSlow: true, HookFail: true, Steps: []srvStep{R("ok"), S("waithook"), S("shutdown"), {Op: "settle", Arg: 5}, S("releasehook"), S("waitshutdown"), S("read"), S("close")}}))
	l = append(l, one(srvConn{HookFail: true, Steps: []srvStep{R("ok"), S("read"), S("shutdown"), S("waitshutdown"), S("close")}}))
	l = append(l, one(srvConn{TLS: "fail", Steps: []srvStep{S("read"), S("shutdown"), S("waitshutdown"), S("close")}}))
	l = append(l, one(srvConn{TLS: "ok", Steps: []srvStep{R("ok"), S("read"), S("shutdown"), S("waitshutdown"), S("read"), S("close")}}))
	// idle server, accept error
	l = append(l, srvScenario{NoProbe: true})
	l = append(l, srvScenario{NoProbe: true, AcceptErr: true})
	l = append(l, srvScenario{NoProbe: true, AcceptErr: true, Conns: []srvConn{{Steps: []srvStep{R("ok"), S("read"), S("close")}}}})
	// connection accepted just before Shutdown, registered after it (hook between Accept and wg.Add)
	for k := 0; k < 6; k++ {
		l = append(l, one(srvConn{ParkAccept: true, Steps: []srvStep{R("ok"), S("shutdown"), S("waitshutdown"), {Op: "settle", Arg: 1 + k}, S("unpark"), S("read"), S("close")}}))
	}
	for k := 0; k < 4; k++ {
		// Shutdown still waiting (another connection is busy) when the late connection is registered
		l = append(l, srvScenario{NoProbe: true, Conns: []srvConn{
			{Steps: []srvStep{R("slowi"), S("waith"), {Op: "settle", Arg: 30}, S("release"), S("read"), S("close")}},
			{ParkAccept: true, Steps: []srvStep{{Op: "settle", Arg: 5}, R("ok"), S("shutdown"), {Op: "settle", Arg: 5 + k}, S("unpark"), S("read"), S("close")}},
		}})
	}
	// many concurrent connections, shutdown from one of them at a random point
	nm := c.Pick(10, 150)
	for i := 0; i < nm; i++ {
		rng := c.Rng.Fork(uint64(7000 + i))
		nc := 2 + rng.Intn(c.Pick(10, 30))
		sc := srvScenario{NoProbe: true}
		for k := 0; k < nc; k++ {
			sc.Conns = append(sc.Conns, c08RandomConn(rng.Fork(uint64(k)), 6))
		}
		// the shutting-down connection: some activity, shutdown, wait
		cs := c08RandomConn(rng.Fork(999), 4)
		at := rng.Intn(len(cs.Steps))
		steps := append([]srvStep{}, cs.Steps[:at]...)
		steps = append(steps, S("shutdown"))
		steps = append(steps, cs.Steps[at:]...)
		cs.Steps = steps
		sc.Conns = append(sc.Conns, cs)
		l = append(l, sc)
	}
	// single random connections with a shutdown inserted
	nr := c.Pick(60, 1500)
	for i := 0; i < nr; i++ {
		rng := c.Rng.Fork(uint64(50000 + i))
		cs := c08RandomConn(rng, 8)
		at := rng.Intn(len(cs.Steps))
		steps := append([]srvStep{}, cs.Steps[:at]...)
		steps = append(steps, S("shutdown"))
		if rng.Chance(1, 2) {
			// releasing a gated handler first, or Shutdown would need the grace period
			steps = append(steps, S("release"), S("waitshutdown"))
		}
		steps = append(steps, cs.Steps[at:]...)
		cs.Steps = steps
		l = append(l, one(cs))
	}
	return l
}

// scripts whose model row is meaningful: single connection driving its own shutdown, no
// "slowi" handler left unreleased at shutdown (that needs the timer), no accept parking
func c16RowOK(sc srvScenario) bool {
	if len(sc.Conns) != 1 || sc.Conns[0].ParkAccept || sc.AcceptErr {
		return false
	}
	return true
}

func driveC16(c *h.Ctx) error {
	c.Rule("scenario = real kmipserver.Server on an in-memory listener, scripted raw connections, Shutdown fired from a script at every point " +
		"(before/after each request and each read of a pipelined exchange, mid-handler with handlers honouring or ignoring cancellation, released before or after the 3 s grace period, " +
		"mid-response with a peer that does not read, during a slow connect hook, failing hook, TLS ok/failed, idle server, failing Accept, " +
		"connection parked between Accept and wg.Add (hook), many concurrent random connections); non-trivial = a connection exists; distinct by scenario JSON")
	if c.Replay == nil || func() bool { m, _ := c.Replay["case"].(map[string]any); return m != nil && m["leg"] == "after-grace" }() {
		c16AfterGrace(c)
	}
	var scs []srvScenario
	if c.Replay != nil {
		sc, ok := srvReplayScenario(c)
		if !ok {
			return fmt.Errorf("replay file has no scenario")
		}
		for k := 0; k < 20; k++ {
			scs = append(scs, sc)
		}
	} else {
		scs = c16Scenarios(c)
	}
	results := srvRunAll(scs, 14)
	var rows []string
	for i, sc := range scs {
		r := results[i]
		b, _ := json.Marshal(sc)
		caseJSON := map[string]any{"scenario": sc, "observed": r}
		c.Eval(string(b), len(sc.Conns) > 0)
		c.CountN("connections", len(sc.Conns))
		for _, cs := range sc.Conns {
			for _, st := range cs.Steps {
				c.Count("op:" + st.Op)
			}
		}
		if i%53 == 0 {
			c.Sample(caseJSON)
		}
		c16Oracle(c, sc, r, caseJSON)
		c08Oracle(c, sc, r, caseJSON, "C16")
		if r.Crashed || r.Hang || !c16RowOK(sc) {
			continue
		}
		if r.SdMs > 2500 {
			c.Count("shutdown:grace-period-used")
		} else {
			c.Count("shutdown:drained")
		}
		rows = append(rows, fmt.Sprintf("(%s, %s)", srvScriptCoq(sc.Conns[0], r.SdMs >= 2900), srvOutcomeCoq(r, 0)))
		c.IndexCase("mism_conn", len(rows)-1, map[string]any{"scenario": sc, "conn": 0, "observed": r})
	}
	var sb strings.Builder
	sb.WriteString("From Coq Require Import ZArith List Bool.\nFrom KV Require Import Lts ConnServer Cases.\nImport ListNotations.\nOpen Scope Z_scope.\n")
	defs, expr := h.Chunk("rows", "scn * option outcome", rows, 200)
	sb.WriteString(defs)
	fmt.Fprintf(&sb, "Definition mism_conn := Eval vm_compute in bad_idx (scn_row_ok cfg_repo 4000) %s 0.\nPrint mism_conn.\n", expr)
	return c.WriteCases("cases_C16.v", sb.String(), len(rows))
}
