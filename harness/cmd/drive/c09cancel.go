package main

// C09, the request's context ends in the middle of a batch (oracle only; runs with the "concurrent" leg):
// the handler of the second item cancels the context the request was submitted under (a dropped
// connection, a shutdown).  KMIP batch semantics do not change with that: under Continue / unset every item
// is executed once, in order - whether a handler gives up on a cancelled context is the handler's business
// (these do not) - and under Stop nothing changes either since no item fails.

import (
	"context"
	"fmt"
	"strconv"

	"github.com/ovh/kmip-go"
	"github.com/ovh/kmip-go/kmipserver"
	"github.com/ovh/kmip-go/payloads"

	"verifharness/internal/h"
)

func c09CancelMidBatch(c *h.Ctx) {
	for _, opt := range []int{0, 1, 2} {
		exec := kmipserver.NewBatchExecutor()
		var order []string
		ctx, cancel := context.WithCancel(context.Background())
		exec.Route(kmip.OperationActivate, c09HandlerFunc(func(_ context.Context, pl kmip.OperationPayload) (kmip.OperationPayload, error) {
			id := pl.(*payloads.ActivateRequestPayload).UniqueIdentifier
			order = append(order, id)
			if id == "i2" {
				cancel()
			}
			return &payloads.ActivateResponsePayload{UniqueIdentifier: id}, nil
		}))
		msg := &kmip.RequestMessage{Header: kmip.RequestHeader{ProtocolVersion: kmip.V1_4, BatchErrorContinuationOption: kmip.BatchErrorContinuationOption(opt), BatchCount: 4}}
		for i := 1; i <= 4; i++ {
			msg.BatchItem = append(msg.BatchItem, kmip.RequestBatchItem{Operation: kmip.OperationActivate, UniqueBatchItemID: []byte(strconv.Itoa(i)),
				RequestPayload: &payloads.ActivateRequestPayload{UniqueIdentifier: fmt.Sprintf("i%d", i)}})
		}
		var resp *kmip.ResponseMessage
		panicked := ""
		func() {
			defer func() {
				if p := recover(); p != nil {
					panicked = fmt.Sprint(p)
				}
			}()
			resp = exec.HandleRequest(ctx, msg)
		}()
		cancel()
		c.Eval(fmt.Sprintf("cancel-mid-batch/%d", opt), true)
		c.Count("context-cancelled-mid-batch")
		cj := map[string]any{"leg": "concurrent", "sub": "cancel-mid-batch", "option_a": opt, "option_b": opt, "executed": order}
		if panicked != "" {
			c.Fail("C09/cancel-mid-batch/panic", panicked, cj)
			continue
		}
		if fmt.Sprint(order) != "[i1 i2 i3 i4]" {
			c.Fail("C09/cancel-mid-batch/not-every-item-executed", fmt.Sprintf("option %s, the context of the request is cancelled while item 2 runs: handlers executed %v, expected each of the four once in order", c09OptName(opt), order), cj)
			continue
		}
		if resp == nil || len(resp.BatchItem) != 4 {
			c.Fail("C09/cancel-mid-batch/shape", "the response does not have one item per request item", cj)
			continue
		}
		for i, bi := range resp.BatchItem {
			if bi.ResultStatus != kmip.ResultStatusSuccess {
				c.Fail("C09/cancel-mid-batch/status", fmt.Sprintf("item %d executed successfully but is reported with status %d (%s)", i+1, bi.ResultStatus, bi.ResultMessage), cj)
				break
			}
		}
	}
}
